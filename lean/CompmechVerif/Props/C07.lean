/-
C07 — static analysis: the load vector is the loads' virtual work and `K c = f` is solved.
`Model/Static.lean` is tied to `Panel.calc_fext`, `PanelAssembly.calc_fext` and `compmech.sparse.solve` by the
correspondence of tools/props/C07.py; the shape-function rows `g` are those of the regenerated kernel `cfg`
(Gen/Field), which C11 proves to be the amplitude-derivative of the very series that `uvw` evaluates.
-/
import CompmechVerif.Model.StaticLemmas
import CompmechVerif.Gen.Field.Clt
import CompmechVerif.Gen.Field.CltW
import Mathlib.Tactic.Ring

namespace Compmech.Static.C07
open Compmech.Static Finset

variable {K : Type} [Field K]

/-- For ANY sets of constant and incrementable point forces, any load factor, any placement `col0` inside any
`size`: the product of the external force vector with any amplitude vector equals the sum over forces of
force × displacement of the series at the force location; constant forces unscaled, incrementable ones × `inc`. -/
theorem fext_dot_c_eq_work (forces forcesInc : List (Force K)) (inc : K) (col0 n size : ℕ) (h : col0 + n ≤ size)
    (c : ℕ → K) :
    ∑ k ∈ range size, calcFext forces forcesInc inc col0 n k * c k =
      (forces.map fun F => F.work col0 n c).sum + inc * (forcesInc.map fun F => F.work col0 n c).sum :=
  fext_dot_c_aux forces forcesInc inc col0 n size h c

/-- assemblies: the global vector does the virtual work of every panel's forces against that panel's own slice -/
theorem assembly_fext_dot_c_eq_work (ps : List (PanelLoads K)) (inc : K) (size : ℕ)
    (h : ∀ p ∈ ps, p.col0 + p.n ≤ size) (c : ℕ → K) :
    ∑ k ∈ range size, assemblyFext ps inc k * c k =
      (ps.map fun p => (p.forces.map fun F => F.work p.col0 p.n c).sum
        + inc * (p.forcesInc.map fun F => F.work p.col0 p.n c).sum).sum :=
  assembly_fext_dot_c_aux ps inc size h c

/-- the rows of `g` written by the kernel `cfg` are exactly the amplitude-derivatives of the displacement series
evaluated by `cfuvw` (same flags, same dof map), so `Force.disp` IS the displacement the package reports -/
theorem shape_rows_match_field (X : Compmech.Panel.FCtx K) :
    Compmech.Gen.Field.Clt.cfuvw.u X = X.c .u * Compmech.Gen.Field.Clt.cfg.g00 X ∧
    Compmech.Gen.Field.Clt.cfuvw.v X = X.c .v * Compmech.Gen.Field.Clt.cfg.g11 X ∧
    Compmech.Gen.Field.Clt.cfuvw.w X = X.c .w * Compmech.Gen.Field.Clt.cfg.g22 X ∧
    Compmech.Gen.Field.CltW.cfw.w X = X.c .w * Compmech.Gen.Field.CltW.cfg.g00 X := by
  refine ⟨?_, ?_, ?_, ?_⟩ <;> simp only [panel_entry] <;> ring

/-- `sparse.solve`: if the solver's answer solves the reduced system, the scattered vector satisfies every row of
the full system belonging to a used column and vanishes on the removed amplitudes -/
theorem solve_sound (A : ℕ → ℕ → K) (b : ℕ → K) (n : ℕ) (used : List ℕ) (hnodup : used.Nodup)
    (hused : ∀ k ∈ used, k < n) (px : ℕ → K)
    (hsol : ∀ r, r < used.length →
      ∑ s ∈ range used.length, A (used.getD r 0) (used.getD s 0) * px s = b (used.getD r 0)) :
    (∀ i ∈ used, ∑ j ∈ range n, A i j * scatter used px j = b i) ∧
      (∀ k, k ∉ used → scatter used px k = 0) :=
  solve_sound_aux A b n used hnodup hused px hsol

/-- the solution depends linearly on the solver's answer (hence on the loads, the reduced system being linear) -/
theorem solve_linear (used : List ℕ) (px py : ℕ → K) (α β : K) (k : ℕ) :
    scatter used (fun s => α * px s + β * py s) k = α * scatter used px k + β * scatter used py k :=
  scatter_linear used px py α β k

end Compmech.Static.C07
