/-
C20 — results depend on the definition only, not on the call history.
Only property theorems live here; helper lemmas are in `Model/LifecycleLemmas.lean`.
Every theorem is about the executable life-cycle models of `Model/Lifecycle.lean`, tied to
compmech/panel/_panel.py (and assembly.py, stiffpanelbay.py, conecyl.py) by the call-sequence correspondence of
`tools/props/C20.py` (outcome class, attributes written, hidden attributes read — per call).

Reading guide (Panel machine).  `Def` = what the caller supplied; `Hidden` = the lazily derived attributes
(`model, r, alpharad, plyts, laminaprops, lam, F, size, Mach`) as provenance tokens; `step d s op` = one
public call (`Op`: get_size, calc_k0 [size=], calc_k0(c=) …, lb, freq, static, uvw, strain, stress, and
`connections.calc_kt_kr` acting on the panel); its `Outcome` is `err <class>` or `ok <result tokens>`, a result
token being the kernels invoked together with the provenances they consumed.
"Same result" = equal tokens.  The thread-count clause and the "inputs not modified" clause of C20 are
checked by execution only (tools/props/C20.py); data races are outside every model.
-/
import CompmechVerif.Model.LifecycleLemmas

namespace Compmech.Lifecycle.C20
open Compmech.Lifecycle.Panel

/-- The invariant "every hidden attribute is still unset or equals its canonical function of the definition"
holds on a fresh object. -/
theorem fresh_inv (d : Def) : Inv d (fresh d).h :=
  inv_init d

/-- Every public call preserves the invariant — whether it returns or raises — with one exception:
`calc_kt_kr` on a panel with a non-zero laminate offset (see `kt_kr_order_dependence_counterexample`). -/
theorem step_preserves_inv (d : Def) (s : State) (op : Op) (hscope : d.offsetZero = true ∨ op ≠ .ktkr)
    (hi : Inv d s.h) : Inv d (step d s op).1.h :=
  step_preserves_inv_aux d s op hscope hi

/-- … hence it holds after every finite sequence of public calls. -/
theorem reachable_inv (d : Def) (ops : List Op) (hscope : d.offsetZero = true ∨ .ktkr ∉ ops) :
    Inv d (runOps d (fresh d) ops).h :=
  runOps_inv_aux d ops (fresh d)
    (by
      intro o ho
      rcases hscope with h | h
      · exact Or.inl h
      · exact Or.inr (fun he => h (he ▸ ho)))
    (inv_init d)

/-- In a state satisfying the invariant a call that returns, returns the canonical result of
(definition, call): nothing of the history and nothing stored in the output attributes enters it. -/
theorem result_is_canonical (d : Def) (s : State) (op : Op) (hscope : d.offsetZero = true ∨ op ≠ .ktkr)
    (hi : Inv d s.h) (res : List Tok) (hok : (step d s op).2 = .ok res) : res = canonResult d op :=
  step_result_aux d s op hscope hi res hok

/-- **History independence** (what holds of the unchanged code).  For every definition, any two call
histories `h1`, `h2` (any length, any order, any repetition) and every call `op`: if `op` returns after
`h1` and returns after `h2`, it returns the SAME result — the canonical one.  Partial: it says nothing when
the call raises (see `fresh_object_*`), and `calc_kt_kr` is excluded unless the laminate offset is zero. -/
theorem result_history_independent_partial (d : Def) (h1 h2 : List Op) (op : Op)
    (hscope : d.offsetZero = true ∨ (.ktkr ∉ h1 ∧ .ktkr ∉ h2 ∧ op ≠ .ktkr)) (r1 r2 : List Tok)
    (e1 : (step d (runOps d (fresh d) h1) op).2 = .ok r1)
    (e2 : (step d (runOps d (fresh d) h2) op).2 = .ok r2) : r1 = r2 ∧ r1 = canonResult d op :=
  result_history_independent_aux d h1 h2 op hscope r1 r2 e1 e2

/-- Repetition: asking twice in a row gives the same answer (special case, stated for visibility). -/
theorem repeat_same_result_partial (d : Def) (h : List Op) (op : Op)
    (hscope : d.offsetZero = true ∨ (.ktkr ∉ h ∧ op ≠ .ktkr)) (r1 r2 : List Tok)
    (e1 : (step d (runOps d (fresh d) h) op).2 = .ok r1)
    (e2 : (step d (step d (runOps d (fresh d) h) op).1 op).2 = .ok r2) : r1 = r2 := by
  have e2' : (step d (runOps d (fresh d) (h ++ [op])) op).2 = .ok r2 := by
    rw [runOps_snoc]; exact e2
  refine (result_history_independent_aux d h (h ++ [op]) op ?_ r1 r2 e1 e2').1
  rcases hscope with h | ⟨ha, hb⟩
  · exact Or.inl h
  · refine Or.inr ⟨ha, ?_, hb⟩
    simp only [List.mem_append, List.mem_singleton, not_or]
    exact ⟨ha, fun he => hb he.symm⟩

/-- "Each quantity can be requested first on a freshly defined object" is FALSE for the unchanged code.
For EVERY definition these calls raise as first call: `calc_kG0(c=c)` (needs `self.lam`), `calc_cA` (needs
`self.size`), `calc_fint(c)` (needs `self.F`), `strain` / `stress` (the field kernel reads `alpharad`). -/
theorem fresh_object_never_first (d : Def) :
    (freshOutcome d (.kG false)).isOk = false ∧ (freshOutcome d .cA).isOk = false ∧
    (freshOutcome d (.fint false)).isOk = false ∧ (freshOutcome d .strain).isOk = false ∧
    (∀ f, (freshOutcome d (.stress f)).isOk = false) :=
  fresh_never_first_aux d

/-- When the model is left to be derived from `r` / `alphadeg` (the documented use) every call that does not
run `_rebuild` raises as first call, with exactly these exception classes. -/
theorem fresh_object_needs_rebuild (d : Def) (hm : d.model = .none) :
    freshOutcome d .getSize = .err .KeyError ∧ (∀ sa, freshOutcome d (.kM sa) = .err .KeyError) ∧
    (∀ sa, freshOutcome d (.kA sa) = .err .TypeError) ∧ freshOutcome d .cA = .err .KeyError ∧
    (∀ f, freshOutcome d (.fint f) = .err .ValueError) ∧ freshOutcome d .uvw = .err .KeyError ∧
    freshOutcome d .strain = .err .KeyError ∧ (∀ f, freshOutcome d (.stress f) = .err .KeyError) :=
  fresh_needs_rebuild_aux d hm

/-- Exact characterisation on the completely specified flat / cylindrical / conical definitions: the calls that
succeed first are exactly the `selfSufficient` ones (minus what a conical panel never supports). -/
theorem fresh_object_ok_characterisation (offsetZero : Bool) :
    okFirst (stdDef .flat offsetZero) = selfSufficient ∧ okFirst (stdDef .cyl offsetZero) = selfSufficient ∧
    okFirst (stdDef .cone offsetZero) = selfSufficient.filter (fun op => !coneUnsupported.contains op) :=
  fresh_ok_std_aux offsetZero

/-- Counter-example to `fresh_object_total`, decided on the model: a completely specified flat panel; each of
these calls raises as FIRST call and succeeds after one `calc_k0()`. -/
theorem fresh_object_total_counterexample :
    let d := stdDef .flat false
    freshOutcome d (.kM false) = .err .KeyError ∧ freshOutcome d (.kA false) = .err .TypeError ∧
    freshOutcome d .cA = .err .KeyError ∧ freshOutcome d .uvw = .err .KeyError ∧
    freshOutcome d .strain = .err .KeyError ∧ freshOutcome d (.stress false) = .err .KeyError ∧
    freshOutcome d (.fint false) = .err .ValueError ∧ freshOutcome d (.kG false) = .err .RuntimeError ∧
    freshOutcome d .getSize = .err .KeyError ∧
    (∀ op ∈ [Op.kM false, .kA false, .cA, .uvw, .strain, .stress false, .fint false, .kG false, .getSize],
      (step d (step d (fresh d) (.k0 false)).1 op).2.isOk = true) :=
  fresh_object_total_counterexample_aux

/-- After one successful `calc_k0()` every public call succeeds (flat, cylindrical), respectively every call a
conical panel supports at all. -/
theorem ok_after_k0 (offsetZero : Bool) :
    okAfterK0 (stdDef .flat offsetZero) = allOps ∧ okAfterK0 (stdDef .cyl offsetZero) = allOps ∧
    okAfterK0 (stdDef .cone offsetZero) = allOps.filter (fun op => !coneUnsupported.contains op) :=
  ok_after_k0_std_aux offsetZero

/-- **General form**: for EVERY definition and every reachable state in which `calc_k0()` succeeds, from then
on — in every later history — a call succeeds iff the static conditions `opOK` on (definition, model) hold.
After one `calc_k0()` the hidden state no longer decides anything. -/
theorem ok_after_k0_general (d : Def) (s : State) (hi : Inv d s.h)
    (hok : (step d s (.k0 false)).2.isOk = true) (ops : List Op) (op : Op) :
    ∃ m, cModel d = .valid m ∧
      (step d (runOps d (step d s (.k0 false)).1 ops) op).2.isOk = opOK d m op :=
  ok_after_k0_general_aux d s hi hok ops op

/-! what `opOK` says for some calls (it is a conjunction of static conditions over the call's program) -/
example (d : Def) (m : MName) : opOK d m .uvw = true := by simp [opOK, prog, lookup, instrOK]
example (d : Def) (m : MName) (sa : Bool) : opOK d m (.kM sa) = d.mu := by
  cases sa <;> simp [opOK, prog, progKM, lookup, sizeUnless, instrOK, Cond.holds]
example (d : Def) (m : MName) : opOK d m .strain = (Feat.fstrain.has m && !d.alphaGiven) := by
  simp [opOK, prog, progStrain, lookup, instrOK, Cond.holds]

/-- `allOps` really lists every call of the model. -/
theorem allOps_total (op : Op) : op ∈ allOps :=
  allOps_complete op

/-- Order dependence found: `connections.calc_kt_kr` builds the panel laminate WITHOUT `offset` when none
exists yet and uses the one built by `calc_k0` (WITH `offset`) otherwise.  Same call, two histories, two
results; the offset-free laminate then also enters `calc_kG0(c=c)`. -/
theorem kt_kr_order_dependence_counterexample :
    let d := stdDef .flat false
    let s0 := fresh d
    let sK := (step d s0 (.k0 false)).1
    (step d s0 .ktkr).2 = .ok [([.ktkr], [.model .plate, .lam (.built .rep .rep .zero)])] ∧
    (step d sK .ktkr).2 = .ok [([.ktkr], [.model .plate, .lam (.built .rep .rep .own)])] ∧
    (step d (step d s0 .ktkr).1 (.kG false)).2 = .ok [([.fkGnum], [.lam (.built .rep .rep .zero), .model .plate])] ∧
    (step d sK (.kG false)).2 = .ok [([.fkGnum], [.lam (.built .rep .rep .own), .model .plate])] ∧
    (step (stdDef .flat true) (fresh (stdDef .flat true)) .ktkr).2 =
      (step (stdDef .flat true) (step (stdDef .flat true) (fresh (stdDef .flat true)) (.k0 false)).1 .ktkr).2 :=
  kt_kr_order_dependence_counterexample_aux

/-- `calc_k0(size=N)` does not create `self.size`: `calc_cA` then raises, after `calc_k0()` it succeeds. -/
theorem explicit_size_counterexample :
    let d := stdDef .flat false
    (step d (step d (fresh d) (.k0 true)).1 .cA).2 = .err .AttributeError ∧
    (step d (step d (fresh d) (.k0 false)).1 .cA).2.isOk = true :=
  explicit_size_counterexample_aux

/-! Non-vacuity: the hypotheses of `result_history_independent_partial` are met by real histories with real
results (a cylindrical panel with Mach = 1: `calc_kA` rewrites `Mach` to 1.0001, the result is unaffected). -/
example :
    let d : Def := { stdDef .cyl false with betaGiven := false, mach := .eq1 }
    (step d (runOps d (fresh d) [.k0 false, .uvw]) (.kA false)).2 =
      (step d (runOps d (fresh d) [.fext false, .kA false, .lb, .kA false]) (.kA false)).2 ∧
    (step d (runOps d (fresh d) [.k0 false, .uvw]) (.kA false)).2 =
      .ok [([.fkAx], [.mach .bumped, .model .cpanel])] := by
  decide

example : (step (stdDef .flat false) (runOps (stdDef .flat false) (fresh (stdDef .flat false)) [.kM false, .lb]) .lb).2 =
    .ok [([.fk0], [.model .plate, .lam (.built .rep .rep .own)]), ([.fkG0], [.model .plate]),
      ([.eigLb], [.model .plate])] := by
  decide

/-! ### PanelAssembly (two panels + connection, built on the Panel machine)

`AOp.k0 other fin` = `calc_k0([conn=B][, finalize=False])`, `AOp.conn other fin` = `get_k0_conn([conn=B][, finalize=False])`
(`other`: a list that is not the assembly's own `self.conn` is passed).  An `AOutcome.ok r1 r2 conn` carries the
result tokens of the two panels and the token of the connection matrix that was added / returned: which list it
was built from (`id`), whether it was symmetrised (`fin`) and what `calc_kt_kr` consumed from each panel. -/
open Compmech.Lifecycle.Asm in
/-- **Every call gets the connection matrix it asked for** — for EVERY assembly definition (any laminate offsets),
after EVERY history of calls with any `conn=` / `finalize=` arguments: the connection matrix inside the result of
`calc_k0(conn=…)` is built from the list of THAT call and finalized; the one returned by
`get_k0_conn(conn=…, finalize=…)` is built from the list of that call with the `finalize` flag of that call; the one
added by `calc_kT` / `calc_fint` is the finalized matrix of the assembly's own list (`reqConn`).  This is the
statement the former finding `C20-asm-k0_conn-cache-ignores-conn` (cache returned whatever the first call had
produced; repaired) contradicted. -/
theorem asm_conn_matches_request (a : ADef) (h : List AOp) (op : AOp) (t : ConnTok)
    (ht : connOf (astep a (arunOps a (afresh a) h) op).2 = some t) :
    ∃ o f, reqConn op = some (o, f) ∧ t.id = connIdOf o ∧ t.fin = f :=
  asm_conn_matches_request_aux a h op t ht

open Compmech.Lifecycle.Asm in
/-- … because `self.k0_conn` is, in every reachable state of every assembly, `None` or a FINALIZED matrix of the
assembly's OWN connection list. -/
theorem asm_cache_own_finalized (a : ADef) (h : List AOp) (t : ConnTok)
    (ht : (arunOps a (afresh a) h).cache = some t) : t.id = .own ∧ t.fin = true :=
  arunOps_cacheOwn a h _ (cacheOwn_fresh a) t ht

open Compmech.Lifecycle.Asm in
/-- what `reqConn` says -/
example : reqConn (.k0 true false) = some (true, true) ∧ reqConn (.conn false false) = some (false, false) ∧
    reqConn .kT = some (false, true) ∧ reqConn .fint = some (false, true) ∧ reqConn .kM = none := by decide

open Compmech.Lifecycle.Asm in
/-- The former counter-example `asm_conn_cache_counterexample`, now positive (decided on the model): `calc_k0(conn=B)`
uses `B` as first call AND after `calc_k0()`; a following `calc_k0()` uses the own list again;
`get_k0_conn(finalize=False)` returns the un-symmetrised sum, and `get_k0_conn()` / `calc_kT` after it the finalized
matrix; requests for another list or with `finalize=False` leave the cache empty, respectively as it was. -/
theorem asm_conn_cache_fixed :
    let a := stdAsm true
    let idfin (o : AOutcome) := (connOf o).map (fun t => (t.id, t.fin))
    idfin (astep a (afresh a) (.k0 true true)).2 = some (.other, true) ∧
    idfin (astep a (astep a (afresh a) (.k0 false true)).1 (.k0 true true)).2 = some (.other, true) ∧
    idfin (astep a (arunOps a (afresh a) [.k0 false true, .k0 true true]) (.k0 false true)).2 = some (.own, true) ∧
    idfin (astep a (afresh a) (.conn false false)).2 = some (.own, false) ∧
    idfin (astep a (astep a (afresh a) (.conn false false)).1 (.conn false true)).2 = some (.own, true) ∧
    idfin (astep a (astep a (afresh a) (.conn false false)).1 .kT).2 = some (.own, true) ∧
    (arunOps a (afresh a) [.conn false false, .conn true true, .conn true false, .k0 true false]).cache = none ∧
    ((arunOps a (afresh a) [.k0 false true, .conn true true, .conn false false]).cache.map (fun t => (t.id, t.fin))) =
      some (.own, true) :=
  conn_cache_fixed_aux

open Compmech.Lifecycle.Asm in
/-- Order dependence found: `get_k0_conn()` before the first `calc_k0()` derives the penalty constants from
laminates built WITHOUT offset, and that matrix is cached and added by every later `calc_k0` / `calc_kT`. -/
theorem asm_conn_order_counterexample :
    let a := stdAsm false
    let lamOf (o : AOutcome) := (connOf o).map (·.t1)
    lamOf (astep a (afresh a) (.k0 false true)).2 = some [([.ktkr], [.model .plate, .lam (.built .rep .rep .own)])] ∧
    lamOf (astep a (astep a (afresh a) (.conn false true)).1 (.k0 false true)).2 =
      some [([.ktkr], [.model .plate, .lam (.built .rep .rep .zero)])] ∧
    (astep (stdAsm true) (afresh (stdAsm true)) (.k0 false true)).2 =
      (astep (stdAsm true) (astep (stdAsm true) (afresh (stdAsm true)) (.conn false true)).1 (.k0 false true)).2 :=
  conn_order_counterexample_aux

open Compmech.Lifecycle.Asm in
/-- What is STILL false (the same laminate-order finding `C20-kt_kr-builds-lam-without-offset`, not the cache): with a
non-zero laminate offset an earlier `conn=` argument shows in a later result through the laminate.  After
`get_k0_conn()` the cached matrix (laminates without offset) is what `calc_kT` adds; after `get_k0_conn(conn=B)`
nothing is cached and `calc_kT` — which rebuilds the laminates WITH offset first — builds another one.  Both are
finalized matrices of the own list (`asm_conn_matches_request`).  This is why `asm_result_history_independent_partial`
keeps its zero-offset hypothesis. -/
theorem asm_conn_args_offset_counterexample :
    let a := stdAsm false
    let lamOf (o : AOutcome) := (connOf o).map (·.t1)
    let idfin (o : AOutcome) := (connOf o).map (fun t => (t.id, t.fin))
    lamOf (astep a (astep a (afresh a) (.conn false true)).1 .kT).2 =
      some [([.ktkr], [.model .plate, .lam (.built .rep .rep .zero)])] ∧
    lamOf (astep a (astep a (afresh a) (.conn true true)).1 .kT).2 =
      some [([.ktkr], [.model .plate, .lam (.built .rep .rep .own)])] ∧
    idfin (astep a (astep a (afresh a) (.conn false true)).1 .kT).2 = some (.own, true) ∧
    idfin (astep a (astep a (afresh a) (.conn true true)).1 .kT).2 = some (.own, true) :=
  conn_args_offset_counterexample_aux

open Compmech.Lifecycle.Asm in
/-- Which assembly calls can be first; after `calc_k0()` all of them succeed. -/
theorem asm_fresh_object_characterisation (offsetZero : Bool) :
    let a := stdAsm offsetZero
    aallOps.filter (fun op => (astep a (afresh a) op).2.isOk) =
      [.size, .k0 false true, .k0 true true, .k0 false false, .k0 true false, .kG0, .kT, .fext,
       .conn false true, .conn true true, .conn false false, .conn true false] ∧
    aallOps.filter (fun op => (astep a (astep a (afresh a) (.k0 false true)).1 op).2.isOk) = aallOps :=
  asm_fresh_aux offsetZero

open Compmech.Lifecycle.Asm in
/-- `aallOps` really lists every assembly call of the model (with every `conn=` / `finalize=` combination). -/
theorem aallOps_total (op : AOp) : op ∈ aallOps :=
  aallOps_complete op

open Compmech.Lifecycle.Asm in
/-- In every reachable state of an assembly with zero laminate offsets a call that returns, returns the canonical
result `canonA a op`: a function of the definition and of the call with ITS OWN `conn=` / `finalize=` arguments —
nothing of the history, in particular no `conn=` / `finalize=` argument of an earlier call, enters it. -/
theorem asm_result_is_canonical (a : ADef) (hz : a.d1.offsetZero = true ∧ a.d2.offsetZero = true)
    (h : List AOp) (op : AOp) (k : (astep a (arunOps a (afresh a) h) op).2.isOk = true) :
    (astep a (arunOps a (afresh a) h) op).2 = canonA a op :=
  asm_result_canonical_aux a hz h op k

open Compmech.Lifecycle.Asm in
/-- **History independence for assemblies** (after the repair of the connection cache).  With zero laminate offsets
on both panels: ANY two histories — any calls, any `conn=` lists, any `finalize=` flags, any length — and any call:
if it returns in both, it returns the same result.  (The restriction "no foreign connection list ever passed" of the
earlier version is gone.)  Partial: it says nothing when the call raises (`asm_fresh_object_characterisation`), and
the zero-offset hypothesis cannot be dropped — `asm_conn_order_counterexample`,
`asm_conn_args_offset_counterexample` (finding `C20-kt_kr-builds-lam-without-offset`). -/
theorem asm_result_history_independent_partial (a : ADef)
    (hz : a.d1.offsetZero = true ∧ a.d2.offsetZero = true) (h1 h2 : List AOp) (op : AOp)
    (k1 : (astep a (arunOps a (afresh a) h1) op).2.isOk = true)
    (k2 : (astep a (arunOps a (afresh a) h2) op).2.isOk = true) :
    (astep a (arunOps a (afresh a) h1) op).2 = (astep a (arunOps a (afresh a) h2) op).2 :=
  asm_history_independent_aux a hz h1 h2 op k1 k2

/-! Non-vacuity of `asm_result_history_independent_partial` / `asm_result_is_canonical` /
`asm_conn_matches_request`: real histories full of foreign lists and `finalize=False`, calls that return, the
result spelled out. -/
open Compmech.Lifecycle.Asm in
example :
    let a := stdAsm true
    let h := [AOp.conn false false, .k0 true true, .conn true false, .k0 true false, .kM]
    (astep a (arunOps a (afresh a) h) (.k0 false true)).2.isOk = true ∧
    (astep a (afresh a) (.k0 false true)).2.isOk = true ∧
    (astep a (arunOps a (afresh a) h) (.k0 false true)).2 = (astep a (afresh a) (.k0 false true)).2 ∧
    (astep a (arunOps a (afresh a) h) (.k0 false true)).2 =
      .ok [([.fk0], [.model .plate, .lam (.built .rep .rep .zero)])]
          [([.fk0], [.model .plate, .lam (.built .rep .rep .zero)])]
          (some ⟨.own, true, [([.ktkr], [.model .plate, .lam (.built .rep .rep .zero)])],
            [([.ktkr], [.model .plate, .lam (.built .rep .rep .zero)])]⟩) ∧
    connOf (astep a (arunOps a (afresh a) h) (.conn true false)).2 =
      some ⟨.other, false, [([.ktkr], [.model .plate, .lam (.built .rep .rep .zero)])],
        [([.ktkr], [.model .plate, .lam (.built .rep .rep .zero)])]⟩ := by
  decide

/-! ### StiffPanelBay (bay-level `model`, `size`, normalisation of the skin panels' `r`) -/
open Compmech.Lifecycle.Bay in
/-- a bay call that returns, returns the token of the call: nothing hidden at bay level enters a result -/
theorem bay_result_history_independent (d : BDef) (s : BState) (op o : BOp) (h : (bstep d s op).2 = .ok o) : o = op :=
  bay_result_aux d s op o h

open Compmech.Lifecycle.Bay in
/-- only `calc_k0, calc_kG0, calc_kM` can be first on a bay; `calc_kA` (`self.size`), `calc_fext`, `uvw_skin`,
`get_size` (`self.model`) raise; after `calc_k0()` everything but `calc_cA` succeeds -/
theorem bay_fresh_object_characterisation (stiffFlat : Bool) :
    let d : BDef := ⟨false, stiffFlat⟩
    ballOps.filter (fun op => (bstep d (bfresh d) op).2.isOk) = [.k0, .kG0, .kM] ∧
    (bstep d (bfresh d) .kA).2 = .err .AttributeError ∧ (bstep d (bfresh d) .fext).2 = .err .KeyError ∧
    (bstep d (bfresh d) .uvw).2 = .err .KeyError ∧ (bstep d (bfresh d) .size).2 = .err .KeyError ∧
    ballOps.filter (fun op => (bstep d (bstep d (bfresh d) .k0).1 op).2.isOk) =
      [.size, .k0, .kG0, .kM, .kA, .fext, .uvw] :=
  bay_fresh_aux stiffFlat

open Compmech.Lifecycle.Bay in
/-- without a stiffener on a flat bay: after `calc_k0()`, in EVERY later history, every call but `calc_cA` succeeds -/
theorem bay_ok_after_k0 (d : BDef) (hd : d.stiffFlat = false) (ops : List BOp) (op : BOp) (hop : op ≠ .cA) :
    (bstep d (brunOps d (bstep d (bfresh d) .k0).1 ops) op).2 = .ok op :=
  bay_after_k0_aux d hd ops op hop

open Compmech.Lifecycle.Bay in
/-- Order dependence found (flat bay with a stiffener): `calc_kA` normalises `r` of `panels[0]` only; the
stiffeners' `_rebuild` asserts `panel1.r == panel2.r`, so `calc_k0()` — fine as first call — raises
AssertionError after `[calc_cA (raises TypeError, but creates size), calc_kA]`. -/
theorem bay_assertion_order_counterexample :
    let d : BDef := ⟨false, true⟩
    (bstep d (bfresh d) .k0).2 = .ok .k0 ∧
    (bstep d (brunOps d (bfresh d) [.cA, .kA]) .k0).2 = .err .AssertionError ∧
    (bstep d (brunOps d (bfresh d) [.k0, .cA, .kA]) .k0).2 = .ok .k0 :=
  bay_assert_counterexample_aux

open Compmech.Lifecycle.Bay in
/-- `StiffPanelBay.calc_cA` raises in every state (it passes keywords `Panel.calc_cA` does not accept) -/
theorem bay_calc_cA_never (d : BDef) (s : BState) : (bstep d s .cA).2.isOk = false :=
  bay_cA_aux d s

/-! ### ConeCyl (axial-load life cycle, linear-matrix cache) -/
open Compmech.Lifecycle.Cone in
/-- If the caller defined an axial load `Fc`, or the definition already ran `_rebuild` (`add_SPL`), results of
calls that return are history independent. -/
theorem cone_result_history_independent_partial (d : CDef) (hd : d.fcGiven = true ∨ d.rebuilt = true)
    (h1 h2 : List COp) (op : COp) (r1 r2 : COutcome) (e1 : (cstep (crunOps (cfresh d) h1) op).2 = r1)
    (e2 : (cstep (crunOps (cfresh d) h2) op).2 = r2) (k1 : r1.isOk = true) (k2 : r2.isOk = true) : r1 = r2 :=
  cone_history_independent_aux d hd h1 h2 op r1 r2 e1 e2 k1 k2

open Compmech.Lifecycle.Cone in
/-- Order dependence found (no axial load defined, nothing rebuilt yet): `lb()` as first call uses the
documented default `Fc = 1`; after any call that ran `_rebuild` it silently uses a ZERO axial load;
`static()` after `lb()` carries the `Fc = 1` that `lb` wrote into the definition. -/
theorem cone_order_dependence_counterexample :
    let s0 := cfresh ⟨false, false⟩
    (cstep s0 .lb).2 = .ok .lb (some .one) ∧ (cstep (cstep s0 .static).1 .lb).2 = .ok .lb (some .zero) ∧
    (cstep (cstep s0 .k0).1 .lb).2 = .ok .lb (some .zero) ∧
    (cstep s0 .static).2 = .ok .static (some .zero) ∧ (cstep (cstep s0 .lb).1 .static).2 = .ok .static (some .one) :=
  cone_order_counterexample_aux

open Compmech.Lifecycle.Cone in
/-- `ConeCyl.calc_fint` / `stress` as first call pass `self.F = None` into a compiled kernel (the interpreter
dies); `uvw` needs the geometry derived by `_rebuild`; after `calc_k0()` every call succeeds. -/
theorem cone_fresh_object_counterexample (d : CDef) :
    (cstep (cfresh d) .fint).2 = .err (if d.rebuilt then .SEGV else .TypeError) ∧
    (cstep (cfresh d) .stress).2 = .err (if d.rebuilt then .SEGV else .TypeError) ∧
    (cstep (cfresh d) .uvw).2.isOk = d.rebuilt ∧
    callOps.filter (fun op => (cstep (cstep (cfresh d) .k0).1 op).2.isOk) = callOps :=
  cone_fresh_aux d

end Compmech.Lifecycle.C20
