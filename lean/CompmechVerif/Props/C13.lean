/-
C13 — Assembled matrices = sums of components; the reported size = sum of the component sizes; the partition of
the skin is irrelevant; a stiffener adds a symmetric contribution.

Only property theorems live here; helper lemmas are in `Model/AssemblyLemmas.lean`.  Every theorem is about
`Model/Assembly.lean` (index book-keeping of `PanelAssembly` and `StiffPanelBay`, kernels as parameters), tied to
the running Python by the recorded-component correspondence of `tools/props/C13.py`.  All theorems hold for ALL
lists of panels / stiffeners, all series orders and all component matrices.

What is NOT proved here (checked numerically on the implementation by the plugin only): that a CONNECTION or STIFFENER kernel
asked to write at `(row0, col0)` returns its stand-alone matrix shifted there (for the PANEL kernels it is proved from the
loop-nest model: `panel_kernel_placement`); additivity of the skin kernels over adjacent
`y` intervals (hypothesis `hadd` of `skin_split_invariant`); positive semi-definiteness of a stiffener's
contribution (its symmetry is proved: `stiffener_contribution_symmetric`).
-/
import CompmechVerif.Model.AssemblyLemmas
import CompmechVerif.Model.PanelLoopLemmas
import Mathlib.Algebra.Field.Rat
import Mathlib.Tactic.NormNum

namespace Compmech.Asm.C13
open Compmech.Asm

variable {K : Type} [Field K]

/-! ### `sparse.make_symmetric` -/

/-- `make_symmetric` keeps the upper triangle (diagonal included) and mirrors it below, for every COO list —
whatever was stored below the diagonal is discarded. -/
theorem make_symmetric_spec (l : Coo K) (i j : Nat) :
    toFun (makeSymmetric l) i j = if i ≤ j then toFun l i j else toFun l j i :=
  toFun_makeSymmetric l i j

/-! ### `PanelAssembly` -/

/-- The amplitude ranges assigned by `PanelAssembly.__init__` tile `[0, size)`: rows and columns coincide, range
`k` has length `3 m_k n_k`, the first starts at 0, each starts where the previous one ends, the last ends at
`get_size()`, and distinct ranges are disjoint. -/
theorem ranges_tile (ps : List (Nat × Nat)) :
    (init ps).length = ps.length ∧
    (∀ k, k < ps.length →
      ((init ps).getD k default).colStart = ((init ps).getD k default).rowStart ∧
      ((init ps).getD k default).colEnd = ((init ps).getD k default).rowEnd ∧
      ((init ps).getD k default).rowEnd =
        ((init ps).getD k default).rowStart + 3 * (ps.getD k (0, 0)).1 * (ps.getD k (0, 0)).2) ∧
    (0 < ps.length → ((init ps).getD 0 default).rowStart = 0) ∧
    (∀ k, k + 1 < ps.length → ((init ps).getD (k + 1) default).rowStart = ((init ps).getD k default).rowEnd) ∧
    (0 < ps.length → ((init ps).getD (ps.length - 1) default).rowEnd = getSize ps) ∧
    (∀ a b, a < b → b < ps.length → ((init ps).getD a default).rowEnd ≤ ((init ps).getD b default).rowStart) :=
  ranges_tile_aux ps

/-- `get_size()` is the sum of the lengths of the ranges, i.e. of the component sizes `3 m n`. -/
theorem size_eq_sum (ps : List (Nat × Nat)) :
    getSize ps = ((init ps).map fun s => s.rowEnd - s.rowStart).sum ∧
    getSize ps = (ps.map fun p => 3 * p.1 * p.2).sum :=
  size_eq_sum_aux ps

/-- `calc_k0` / `calc_kT` (finalised): on the upper triangle the global matrix is the sum over the panels of the
panel's stand-alone matrix written at the start of its range, plus the connection blocks; below the diagonal it is
the mirror image.  (`placedAt s s l i j = if s ≤ i ∧ s ≤ j then toFun l (i-s) (j-s) else 0`.) -/
theorem assembly_eq_sum_of_placed (ps : List (Nat × Nat)) (comps : List (Coo K))
    (conns : List (Conn K)) (h : comps.length = ps.length) (i j : Nat) :
    toFun (calcK0 true ps comps conns) i j =
      (if i ≤ j then
        ((List.range ps.length).map fun k =>
          placedAt (startOf (panelSizes ps) k) (startOf (panelSizes ps) k) (comps.getD k []) i j).sum
        + ((connAllBlocks ps conns).map fun b => b.fn i j).sum
      else
        ((List.range ps.length).map fun k =>
          placedAt (startOf (panelSizes ps) k) (startOf (panelSizes ps) k) (comps.getD k []) j i).sum
        + ((connAllBlocks ps conns).map fun b => b.fn j i).sum) :=
  assembly_eq_sum_of_placed_aux ps comps conns h i j

/-- `calc_kG0`, `calc_kM` (finalised): the same without connections. -/
theorem assembly_noconn_eq_sum_of_placed (ps : List (Nat × Nat)) (comps : List (Coo K))
    (h : comps.length = ps.length) (i j : Nat) :
    toFun (calcNoConn true ps comps) i j =
      (if i ≤ j then
        ((List.range ps.length).map fun k =>
          placedAt (startOf (panelSizes ps) k) (startOf (panelSizes ps) k) (comps.getD k []) i j).sum
      else
        ((List.range ps.length).map fun k =>
          placedAt (startOf (panelSizes ps) k) (startOf (panelSizes ps) k) (comps.getD k []) j i).sum) :=
  assembly_noconn_eq_sum_of_placed_aux ps comps h i j

/-- `finalize=False`: the plain sum of the placed component matrices. -/
theorem assembly_unfinalized_eq_sum_of_placed (ps : List (Nat × Nat)) (comps : List (Coo K))
    (h : comps.length = ps.length) (i j : Nat) :
    toFun (calcNoConn false ps comps) i j =
      ((List.range ps.length).map fun k =>
        placedAt (startOf (panelSizes ps) k) (startOf (panelSizes ps) k) (comps.getD k []) i j).sum :=
  assembly_unfinalized_aux ps comps h i j

/-- Without connections the global matrix is block diagonal: if every panel's matrix lives in `[0, 3 m n)²`, an
entry with its row in the range of panel `p` and its column in the range of another panel `q` vanishes. -/
theorem assembly_block_diagonal (ps : List (Nat × Nat)) (comps : List (Coo K))
    (h : comps.length = ps.length)
    (hw : ∀ k (hk : k < ps.length), Within (3 * ps[k].1 * ps[k].2) (3 * ps[k].1 * ps[k].2) (comps.getD k []))
    (p q : Nat) (hp : p < ps.length) (hq : q < ps.length) (hpq : p ≠ q) (i j : Nat)
    (hi : startOf (panelSizes ps) p ≤ i ∧ i < startOf (panelSizes ps) p + 3 * ps[p].1 * ps[p].2)
    (hj : startOf (panelSizes ps) q ≤ j ∧ j < startOf (panelSizes ps) q + 3 * ps[q].1 * ps[q].2) :
    toFun (calcNoConn true ps comps) i j = 0 :=
  assembly_block_diagonal_aux ps comps h hw p q hp hq hpq i j hi hj

/-- Where `get_k0_conn` writes the three kernels of a connection between panels number `p1` and `p2`: `11` and
`22` on the diagonal blocks of the two panels, the coupling `12` at (rows of `p1`, columns of `p2`) — or, when
`p1` comes after `p2`, its transpose at (rows of `p2`, columns of `p1`). -/
theorem connection_blocks_placement (ps : List (Nat × Nat)) (c : Conn K)
    (h1 : c.p1 < ps.length) (h2 : c.p2 < ps.length) :
    connBlocks (init ps) c =
      [⟨tagC11, startOf (panelSizes ps) c.p1, startOf (panelSizes ps) c.p1, c.k11⟩,
       if startOf (panelSizes ps) c.p2 < startOf (panelSizes ps) c.p1 then
         ⟨tagC12, startOf (panelSizes ps) c.p2, startOf (panelSizes ps) c.p1, transpose c.k12⟩
       else ⟨tagC12, startOf (panelSizes ps) c.p1, startOf (panelSizes ps) c.p2, c.k12⟩,
       ⟨tagC22, startOf (panelSizes ps) c.p2, startOf (panelSizes ps) c.p2, c.k22⟩] :=
  conn_blocks_aux ps c h1 h2

/-- The coupling block is never written below the block diagonal (where `make_symmetric` would discard it),
in whichever order the two panels were listed. -/
theorem coupling_block_upper (ps : List (Nat × Nat)) (c : Conn K) :
    ∀ b ∈ connBlocks (init ps) c, b.tag = tagC12 → b.row0 ≤ b.col0 :=
  conn12_upper_aux ps c

/-- `calc_fext`: the global force vector is the concatenation of the panels' own force vectors. -/
theorem fext_concat (ps : List (Nat × Nat)) (vs : List (List K))
    (h : vs.map List.length = panelSizes ps) : calcFext ps vs = vs.flatten :=
  fext_concat_aux ps vs h

/-- In a concatenation, piece `k` sits at the start of range `k` (used with `fext_concat` and `bay_fext_concat`):
entry `start k + t` of the global vector is entry `t` of component `k`. -/
theorem vector_piece_at_range_start (vs : List (List K)) (k t : Nat) (hk : k < vs.length)
    (ht : t < (vs.getD k []).length) :
    vs.flatten.getD (startOf (vs.map List.length) k + t) 0 = (vs.getD k []).getD t 0 :=
  flatten_piece vs k t hk ht

/-- `calc_fint`: concatenation of the panels' internal force vectors plus `k0_conn · c`. -/
theorem fint_eq_concat_plus_connection (ps : List (Nat × Nat)) (vs : List (List K)) (conns : List (Conn K))
    (c : List K) (h : vs.map List.length = panelSizes ps) (i : Nat) (hi : i < getSize ps) :
    (calcFint ps vs conns c).getD i 0 = vs.flatten.getD i 0 + mulVecAt (k0Conn ps conns) c i :=
  fint_aux ps vs conns c h i hi

/-! ### `StiffPanelBay` -/

/-- The kernel calls of `StiffPanelBay.calc_k0/kG0/kM`, with the offsets produced by the running `row0, col0` of
the code, are: every skin panel at `(0, 0)`; every 1-D blade stiffener at `(0, 0)`; the `k`-th 2-D blade stiffener
with `row0 = col0 = skin size + Σ_{i<k} (flange size of the i-th, 0 if it has none)`; the `k`-th T stiffener with
`row0 = col0 = skin size + Σ (all 2-D blade flange sizes) + Σ_{i<k} (base size + flange size)` — for ANY numbers of
the three kinds. -/
theorem bay_offsets_correct (kind : MatKind) (b : Bay K) :
    bayBlocks kind b =
      (b.skins.map fun c => (⟨tagPanel, 0, 0, c⟩ : Block K)) ++
      (b.b1.flatMap fun s => s.blocks kind 0 0) ++
      (b.b2.mapIdx fun k s => s.blocks kind (b.off2 k) (b.off2 k)).flatten ++
      (b.ts.mapIdx fun k s => s.blocks kind (b.offT k) (b.offT k)).flatten :=
  bay_offsets_correct_aux kind b

/-- These offsets are the starts of the bay's amplitude ranges `skin, flange₀, flange₁, …, base₀, flange₀, base₁, …`
(`Bay.rangeSizes`); the flange of the `k`-th T stiffener (at `row0 + base size`) starts the range after its base. -/
theorem bay_offsets_are_range_starts (b : Bay K) :
    (∀ k, k ≤ b.b2.length → b.off2 k = startOf b.rangeSizes (1 + k)) ∧
    (∀ k, k ≤ b.ts.length → b.offT k = startOf b.rangeSizes (1 + b.b2.length + 2 * k)) ∧
    (∀ k (hk : k < b.ts.length),
      b.offT k + (b.ts[k]).baseSize = startOf b.rangeSizes (1 + b.b2.length + 2 * k + 1)) :=
  bay_offsets_are_range_starts_aux b

/-- Ranges given by prefix sums tile `[0, Σ sizes)`: start at 0, contiguous, end at the total, pairwise disjoint
(applies to `Bay.rangeSizes b` and to `panelSizes ps`). -/
theorem prefix_ranges_tile (sizes : List Nat) :
    startOf sizes 0 = 0 ∧
    (∀ k (hk : k < sizes.length), startOf sizes (k + 1) = startOf sizes k + sizes[k]) ∧
    startOf sizes sizes.length = sizes.sum ∧
    (∀ a b (hb : b < sizes.length) (hab : a < b), startOf sizes a + sizes[a]'(by omega) ≤ startOf sizes b) :=
  ranges_tile_general sizes

/-- `StiffPanelBay.get_size()` equals the sum of the sizes of all ranges (a flange-less 2-D blade stiffener counts 0),
for any numbers of the three stiffener kinds. -/
theorem bay_size_eq_sum (b : Bay K) : bayGetSize b = some b.rangeSizes.sum :=
  bay_size_eq_sum_aux b

/-- The finalised bay matrix: on the upper triangle the sum of all kernel results written at their offsets,
mirrored below. -/
theorem bay_eq_sum_of_placed (kind : MatKind) (b : Bay K) (i j : Nat) :
    toFun (bayCalc kind b) i j =
      if i ≤ j then ((bayBlocks kind b).map fun bl => bl.fn i j).sum
      else ((bayBlocks kind b).map fun bl => bl.fn j i).sum :=
  bay_eq_sum_of_placed_aux kind b i j

/-- Every global bay matrix is symmetric. -/
theorem bay_symmetric (kind : MatKind) (b : Bay K) (i j : Nat) :
    toFun (bayCalc kind b) i j = toFun (bayCalc kind b) j i :=
  bay_symmetric_aux kind b i j

/-- Splitting the skin: if the skin kernel is additive over adjacent `y` intervals (`hadd`; for the Bardell
kernels this is additivity of the integrals over `[y1,y2] ∪ [y2,y3]`), then cutting the skin `[y0, yN]` at ANY list
of positions leaves every entry of every global matrix unchanged. -/
theorem skin_split_invariant {Y : Type} (kind : MatKind) (k : Y → Y → Coo K)
    (hadd : ∀ y1 y2 y3 i j, toFun (k y1 y2) i j + toFun (k y2 y3) i j = toFun (k y1 y3) i j)
    (b : Bay K) (y0 yN : Y) (cuts : List Y) (i j : Nat) :
    toFun (bayCalc kind { b with skins := cutSkins k y0 (cuts ++ [yN]) }) i j =
      toFun (bayCalc kind { b with skins := [k y0 yN] }) i j :=
  skin_split_invariant_aux kind k hadd b y0 yN cuts i j

/-- Adding a T stiffener (`add_tstiff2d` appends it) moves nothing and adds the finalised sum of its own blocks at
the first free offset. -/
theorem add_tstiff_contribution (kind : MatKind) (b : Bay K) (s : TStiff K) (i j : Nat) :
    toFun (bayCalc kind { b with ts := b.ts ++ [s] }) i j =
      toFun (bayCalc kind b) i j +
        toFun (finalize (placeAll (s.blocks kind (b.offT b.ts.length) (b.offT b.ts.length)))) i j :=
  add_tstiff_contribution_aux kind b s i j

/-- Adding a 1-D blade stiffener adds the finalised sum of its blocks inside the skin's range. -/
theorem add_blade1d_contribution (kind : MatKind) (b : Bay K) (s : Blade1D K) (i j : Nat) :
    toFun (bayCalc kind { b with b1 := b.b1 ++ [s] }) i j =
      toFun (bayCalc kind b) i j + toFun (finalize (placeAll (s.blocks kind 0 0))) i j :=
  add_blade1d_contribution_aux kind b s i j

/-- Adding a 2-D blade stiffener to a bay without T stiffeners (with T stiffeners their ranges move up by the new
flange's size; the plugin checks that case on the implementation through the index embedding). -/
theorem add_blade2d_contribution (kind : MatKind) (b : Bay K) (hts : b.ts = []) (s : Blade2D K) (i j : Nat) :
    toFun (bayCalc kind { b with b2 := b.b2 ++ [s] }) i j =
      toFun (bayCalc kind b) i j +
        toFun (finalize (placeAll (s.blocks kind (b.off2 b.b2.length) (b.off2 b.b2.length)))) i j :=
  add_blade2d_contribution_aux kind b hts s i j

/-- The contribution of a stiffener (a finalised sum of blocks) is symmetric. -/
theorem stiffener_contribution_symmetric (bs : List (Block K)) (i j : Nat) :
    toFun (finalize (placeAll bs)) i j = toFun (finalize (placeAll bs)) j i :=
  toFun_makeSymmetric_symm _ i j

/-- `StiffPanelBay.calc_fext` is the concatenation skin, flanges of the 2-D blades that have one, then base and flange
of every T stiffener. -/
theorem bay_fext_concat (skin : List K) (b2 : List (Option (List K))) (ts : List (List K × List K)) :
    bayFext skin b2 ts = some ((skin :: (b2.filterMap id ++ ts.flatMap fun s => [s.1, s.2])).flatten) :=
  bay_fext_concat_aux skin b2 ts

/-! ### Non-vacuity: concrete instances -/

/-- three panels of differing series orders -/
example : init [(2, 1), (1, 3), (2, 2)] = [⟨0, 0, 6, 6⟩, ⟨6, 6, 15, 15⟩, ⟨15, 15, 27, 27⟩] := rfl
example : getSize [(2, 1), (1, 3), (2, 2)] = 27 := rfl

/-- `make_symmetric` on a list with an entry below the diagonal and a duplicate -/
example : toFun (makeSymmetric [(0, 1, (2 : ℚ)), (1, 0, 5), (1, 1, 3), (0, 1, 4)]) 1 0 = 6 := by
  norm_num [makeSymmetric, toFun]

/-- a connection listed with `p1` after `p2`: the coupling block is transposed into the upper triangle -/
example : (connBlocks (init [(1, 1), (1, 1)]) (⟨1, 0, [], [(0, 2, (7 : ℚ))], []⟩ : Conn ℚ)).map
    (fun b => (b.tag, b.row0, b.col0, b.coo)) =
    [(tagC11, 3, 3, []), (tagC12, 0, 3, [(2, 0, 7)]), (tagC22, 0, 0, [])] := rfl

/-- a bay with one flange-less and one flanged 2-D blade and two T stiffeners: offsets 12, 12, 18, 30 -/
example : (bayBlocks MatKind.kM
    (⟨3, 2, 2, [[]], [], [⟨some [], none, [], [], []⟩, ⟨none, some (6, []), [], [], []⟩],
      [⟨3, 9, [], [], [], [], [], [], [], []⟩, ⟨6, 3, [], [], [], [], [], [], [], []⟩]⟩ : Bay ℚ)).map
    (fun b => (b.tag, b.row0, b.col0)) =
    [(tagPanel, 0, 0), (tagBase, 0, 0), (tagFlange, 12, 12), (tagBase, 18, 18), (tagFlange, 21, 21),
     (tagBase, 30, 30), (tagFlange, 36, 36)] := rfl


/-! ### placement of the panel kernels (loop nest of Model/PanelLoop.lean, tied to the source by `LoopSchema`) -/

open Compmech.PanelLoop in
/-- a panel kernel (`fk0`, `fkG0`, `fkM`, … of any panel model, any series orders `m, n`, any entry expressions) asked to write
at `row0 = col0 = r0` returns exactly its stand-alone result shifted by `(r0, r0)`: what `assembly_eq_sum_of_placed` and
`bay_eq_sum_of_placed` assume of a component matrix -/
theorem panel_kernel_placement (num m n r0 : Nat) (e : Fin num → Fin num → Nat → Nat → Nat → Nat → K) :
    loopNest num m n r0 r0 e = shift r0 r0 (loopNest num m n 0 0 e) :=
  loopNest_shift num m n r0 e

open Compmech.PanelLoop in
/-- … and only there: with `row0 ≠ col0` the `row > col` skip compares global positions, so the result is NOT the shifted
stand-alone result (kernel-checked instance: one field, m = 2, n = 1, row0 = 2, col0 = 0) -/
theorem panel_kernel_placement_offdiagonal_counterexample :
    (loopNest 1 2 1 2 0 (fun _ _ _ _ _ _ => (1 : ℚ))).length ≠
      (shift 2 0 (loopNest 1 2 1 0 0 (fun _ _ _ _ _ _ => (1 : ℚ)))).length := by decide

end Compmech.Asm.C13
