/-
C13 — Assembled matrices = sums of components; the reported size = sum of the component sizes; the partition of
the skin is irrelevant; a stiffener adds a symmetric contribution.

Only property theorems live here; helper lemmas are in `Model/AssemblyLemmas.lean`.  Every theorem is about
`Model/Assembly.lean` (index book-keeping of `PanelAssembly` and `StiffPanelBay`, kernels as parameters), tied to
the running Python by the recorded-component correspondence of `tools/props/C13.py`.  All theorems hold for ALL
lists of panels / stiffeners, all series orders and all component matrices.

The STIFFENER KERNELS themselves (compmech/stiffener/models/*.pyx) are regenerated into `Gen/Stiff/*` on every run
(tools/translate/gen_stiff.py) and characterised entry by entry in the last section of this file: the penalty connections of the 2-D blade
(skin–flange) and of the T stiffener (skin–base) are the Hessians of their interface mismatch energies, symmetric and positive
semi-definite; the 1-D blade flange kernels are the Hessians of the beam energies the source encodes (operator tables and weights in
`Spec/StiffInterface.lean`) — symmetric, positive semi-definite exactly as far as the encoded weights are (`blade1d_kMf_psd_partial`,
`blade1d_kMf_not_psd_counterexample`).

What is NOT proved here (checked numerically on the implementation by the plugin only): that a STIFFENER kernel
asked to write at `(row0, col0)` returns its stand-alone matrix shifted there (for the PANEL kernels it is proved from the
loop-nest model: `panel_kernel_placement`; for the penalty-CONNECTION kernels from the hand model of their nests, Model/ConnLoop.lean, which no
`LoopSchema` theorem ties to the source: `conn_kernel_placement`); additivity of the skin kernels over adjacent
`y` intervals (hypothesis `hadd` of `skin_split_invariant`); positive semi-definiteness of a stiffener's whole finalised
contribution as a COO list (its symmetry is proved: `stiffener_contribution_symmetric`; positive semi-definiteness is proved for the
per-pair values of the stiffener kernels, and for the base / flange panels themselves in C02/C04).
-/
import CompmechVerif.Model.AssemblyLemmas
import CompmechVerif.Model.PanelLoopLemmas
import CompmechVerif.Model.ConnLoopLemmas
import CompmechVerif.Gen.Stiff.Blade1D
import CompmechVerif.Gen.Stiff.Blade2D
import CompmechVerif.Gen.Stiff.T2D
import CompmechVerif.Gen.Stiff.Literals
import CompmechVerif.Spec.StiffInterfacePSD
import Mathlib.Algebra.Field.Rat
import Mathlib.Tactic.NormNum
import Mathlib.Tactic.FinCases
import Mathlib.Data.Fintype.Basic

set_option linter.unnecessarySeqFocus false
set_option linter.unusedSectionVars false
set_option linter.unusedSimpArgs false
set_option linter.unusedVariables false

namespace Compmech.Asm.C13
open Compmech.Asm

variable {K : Type} [Field K]

/-! ### `sparse.make_symmetric` -/

/-- `make_symmetric` keeps the upper triangle (diagonal included) and mirrors it below, for every COO list —
whatever was stored below the diagonal is discarded. -/
theorem make_symmetric_spec (l : Coo K) (i j : Nat) :
    toFun (makeSymmetric l) i j = if i ≤ j then toFun l i j else toFun l j i :=
  toFun_makeSymmetric l i j

/-! ### `PanelAssembly` -/

/-- The amplitude ranges assigned by `PanelAssembly.__init__` tile `[0, size)`: rows and columns coincide, range
`k` has length `3 m_k n_k`, the first starts at 0, each starts where the previous one ends, the last ends at
`get_size()`, and distinct ranges are disjoint. -/
theorem ranges_tile (ps : List (Nat × Nat)) :
    (init ps).length = ps.length ∧
    (∀ k, k < ps.length →
      ((init ps).getD k default).colStart = ((init ps).getD k default).rowStart ∧
      ((init ps).getD k default).colEnd = ((init ps).getD k default).rowEnd ∧
      ((init ps).getD k default).rowEnd =
        ((init ps).getD k default).rowStart + 3 * (ps.getD k (0, 0)).1 * (ps.getD k (0, 0)).2) ∧
    (0 < ps.length → ((init ps).getD 0 default).rowStart = 0) ∧
    (∀ k, k + 1 < ps.length → ((init ps).getD (k + 1) default).rowStart = ((init ps).getD k default).rowEnd) ∧
    (0 < ps.length → ((init ps).getD (ps.length - 1) default).rowEnd = getSize ps) ∧
    (∀ a b, a < b → b < ps.length → ((init ps).getD a default).rowEnd ≤ ((init ps).getD b default).rowStart) :=
  ranges_tile_aux ps

/-- `get_size()` is the sum of the lengths of the ranges, i.e. of the component sizes `3 m n`. -/
theorem size_eq_sum (ps : List (Nat × Nat)) :
    getSize ps = ((init ps).map fun s => s.rowEnd - s.rowStart).sum ∧
    getSize ps = (ps.map fun p => 3 * p.1 * p.2).sum :=
  size_eq_sum_aux ps

/-- `calc_k0` / `calc_kT` (finalised): on the upper triangle the global matrix is the sum over the panels of the
panel's stand-alone matrix written at the start of its range, plus the connection blocks; below the diagonal it is
the mirror image.  (`placedAt s s l i j = if s ≤ i ∧ s ≤ j then toFun l (i-s) (j-s) else 0`.) -/
theorem assembly_eq_sum_of_placed (ps : List (Nat × Nat)) (comps : List (Coo K))
    (conns : List (Conn K)) (h : comps.length = ps.length) (i j : Nat) :
    toFun (calcK0 true ps comps conns) i j =
      (if i ≤ j then
        ((List.range ps.length).map fun k =>
          placedAt (startOf (panelSizes ps) k) (startOf (panelSizes ps) k) (comps.getD k []) i j).sum
        + ((connAllBlocks ps conns).map fun b => b.fn i j).sum
      else
        ((List.range ps.length).map fun k =>
          placedAt (startOf (panelSizes ps) k) (startOf (panelSizes ps) k) (comps.getD k []) j i).sum
        + ((connAllBlocks ps conns).map fun b => b.fn j i).sum) :=
  assembly_eq_sum_of_placed_aux ps comps conns h i j

/-- `calc_kG0`, `calc_kM` (finalised): the same without connections. -/
theorem assembly_noconn_eq_sum_of_placed (ps : List (Nat × Nat)) (comps : List (Coo K))
    (h : comps.length = ps.length) (i j : Nat) :
    toFun (calcNoConn true ps comps) i j =
      (if i ≤ j then
        ((List.range ps.length).map fun k =>
          placedAt (startOf (panelSizes ps) k) (startOf (panelSizes ps) k) (comps.getD k []) i j).sum
      else
        ((List.range ps.length).map fun k =>
          placedAt (startOf (panelSizes ps) k) (startOf (panelSizes ps) k) (comps.getD k []) j i).sum) :=
  assembly_noconn_eq_sum_of_placed_aux ps comps h i j

/-- `finalize=False`: the plain sum of the placed component matrices. -/
theorem assembly_unfinalized_eq_sum_of_placed (ps : List (Nat × Nat)) (comps : List (Coo K))
    (h : comps.length = ps.length) (i j : Nat) :
    toFun (calcNoConn false ps comps) i j =
      ((List.range ps.length).map fun k =>
        placedAt (startOf (panelSizes ps) k) (startOf (panelSizes ps) k) (comps.getD k []) i j).sum :=
  assembly_unfinalized_aux ps comps h i j

/-- Without connections the global matrix is block diagonal: if every panel's matrix lives in `[0, 3 m n)²`, an
entry with its row in the range of panel `p` and its column in the range of another panel `q` vanishes. -/
theorem assembly_block_diagonal (ps : List (Nat × Nat)) (comps : List (Coo K))
    (h : comps.length = ps.length)
    (hw : ∀ k (hk : k < ps.length), Within (3 * ps[k].1 * ps[k].2) (3 * ps[k].1 * ps[k].2) (comps.getD k []))
    (p q : Nat) (hp : p < ps.length) (hq : q < ps.length) (hpq : p ≠ q) (i j : Nat)
    (hi : startOf (panelSizes ps) p ≤ i ∧ i < startOf (panelSizes ps) p + 3 * ps[p].1 * ps[p].2)
    (hj : startOf (panelSizes ps) q ≤ j ∧ j < startOf (panelSizes ps) q + 3 * ps[q].1 * ps[q].2) :
    toFun (calcNoConn true ps comps) i j = 0 :=
  assembly_block_diagonal_aux ps comps h hw p q hp hq hpq i j hi hj

/-- Where `get_k0_conn` writes the three kernels of a connection between panels number `p1` and `p2`: `11` and
`22` on the diagonal blocks of the two panels, the coupling `12` at (rows of `p1`, columns of `p2`) — or, when
`p1` comes after `p2`, its transpose at (rows of `p2`, columns of `p1`). -/
theorem connection_blocks_placement (ps : List (Nat × Nat)) (c : Conn K)
    (h1 : c.p1 < ps.length) (h2 : c.p2 < ps.length) :
    connBlocks (init ps) c =
      [⟨tagC11, startOf (panelSizes ps) c.p1, startOf (panelSizes ps) c.p1, c.k11⟩,
       if startOf (panelSizes ps) c.p2 < startOf (panelSizes ps) c.p1 then
         ⟨tagC12, startOf (panelSizes ps) c.p2, startOf (panelSizes ps) c.p1, transpose c.k12⟩
       else ⟨tagC12, startOf (panelSizes ps) c.p1, startOf (panelSizes ps) c.p2, c.k12⟩,
       ⟨tagC22, startOf (panelSizes ps) c.p2, startOf (panelSizes ps) c.p2, c.k22⟩] :=
  conn_blocks_aux ps c h1 h2

/-- The coupling block is never written below the block diagonal (where `make_symmetric` would discard it),
in whichever order the two panels were listed. -/
theorem coupling_block_upper (ps : List (Nat × Nat)) (c : Conn K) :
    ∀ b ∈ connBlocks (init ps) c, b.tag = tagC12 → b.row0 ≤ b.col0 :=
  conn12_upper_aux ps c

/-- `calc_fext`: the global force vector is the concatenation of the panels' own force vectors. -/
theorem fext_concat (ps : List (Nat × Nat)) (vs : List (List K))
    (h : vs.map List.length = panelSizes ps) : calcFext ps vs = vs.flatten :=
  fext_concat_aux ps vs h

/-- In a concatenation, piece `k` sits at the start of range `k` (used with `fext_concat` and `bay_fext_concat`):
entry `start k + t` of the global vector is entry `t` of component `k`. -/
theorem vector_piece_at_range_start (vs : List (List K)) (k t : Nat) (hk : k < vs.length)
    (ht : t < (vs.getD k []).length) :
    vs.flatten.getD (startOf (vs.map List.length) k + t) 0 = (vs.getD k []).getD t 0 :=
  flatten_piece vs k t hk ht

/-- `calc_fint`: concatenation of the panels' internal force vectors plus `k0_conn · c`. -/
theorem fint_eq_concat_plus_connection (ps : List (Nat × Nat)) (vs : List (List K)) (conns : List (Conn K))
    (c : List K) (h : vs.map List.length = panelSizes ps) (i : Nat) (hi : i < getSize ps) :
    (calcFint ps vs conns c).getD i 0 = vs.flatten.getD i 0 + mulVecAt (k0Conn ps conns) c i :=
  fint_aux ps vs conns c h i hi

/-! ### `StiffPanelBay` -/

/-- The kernel calls of `StiffPanelBay.calc_k0/kG0/kM`, with the offsets produced by the running `row0, col0` of
the code, are: every skin panel at `(0, 0)`; every 1-D blade stiffener at `(0, 0)`; the `k`-th 2-D blade stiffener
with `row0 = col0 = skin size + Σ_{i<k} (flange size of the i-th, 0 if it has none)`; the `k`-th T stiffener with
`row0 = col0 = skin size + Σ (all 2-D blade flange sizes) + Σ_{i<k} (base size + flange size)` — for ANY numbers of
the three kinds. -/
theorem bay_offsets_correct (kind : MatKind) (b : Bay K) :
    bayBlocks kind b =
      (b.skins.map fun c => (⟨tagPanel, 0, 0, c⟩ : Block K)) ++
      (b.b1.flatMap fun s => s.blocks kind 0 0) ++
      (b.b2.mapIdx fun k s => s.blocks kind (b.off2 k) (b.off2 k)).flatten ++
      (b.ts.mapIdx fun k s => s.blocks kind (b.offT k) (b.offT k)).flatten :=
  bay_offsets_correct_aux kind b

/-- These offsets are the starts of the bay's amplitude ranges `skin, flange₀, flange₁, …, base₀, flange₀, base₁, …`
(`Bay.rangeSizes`); the flange of the `k`-th T stiffener (at `row0 + base size`) starts the range after its base. -/
theorem bay_offsets_are_range_starts (b : Bay K) :
    (∀ k, k ≤ b.b2.length → b.off2 k = startOf b.rangeSizes (1 + k)) ∧
    (∀ k, k ≤ b.ts.length → b.offT k = startOf b.rangeSizes (1 + b.b2.length + 2 * k)) ∧
    (∀ k (hk : k < b.ts.length),
      b.offT k + (b.ts[k]).baseSize = startOf b.rangeSizes (1 + b.b2.length + 2 * k + 1)) :=
  bay_offsets_are_range_starts_aux b

/-- Ranges given by prefix sums tile `[0, Σ sizes)`: start at 0, contiguous, end at the total, pairwise disjoint
(applies to `Bay.rangeSizes b` and to `panelSizes ps`). -/
theorem prefix_ranges_tile (sizes : List Nat) :
    startOf sizes 0 = 0 ∧
    (∀ k (hk : k < sizes.length), startOf sizes (k + 1) = startOf sizes k + sizes[k]) ∧
    startOf sizes sizes.length = sizes.sum ∧
    (∀ a b (hb : b < sizes.length) (hab : a < b), startOf sizes a + sizes[a]'(by omega) ≤ startOf sizes b) :=
  ranges_tile_general sizes

/-- `StiffPanelBay.get_size()` equals the sum of the sizes of all ranges (a flange-less 2-D blade stiffener counts 0),
for any numbers of the three stiffener kinds. -/
theorem bay_size_eq_sum (b : Bay K) : bayGetSize b = some b.rangeSizes.sum :=
  bay_size_eq_sum_aux b

/-- The finalised bay matrix: on the upper triangle the sum of all kernel results written at their offsets,
mirrored below. -/
theorem bay_eq_sum_of_placed (kind : MatKind) (b : Bay K) (i j : Nat) :
    toFun (bayCalc kind b) i j =
      if i ≤ j then ((bayBlocks kind b).map fun bl => bl.fn i j).sum
      else ((bayBlocks kind b).map fun bl => bl.fn j i).sum :=
  bay_eq_sum_of_placed_aux kind b i j

/-- Every global bay matrix is symmetric. -/
theorem bay_symmetric (kind : MatKind) (b : Bay K) (i j : Nat) :
    toFun (bayCalc kind b) i j = toFun (bayCalc kind b) j i :=
  bay_symmetric_aux kind b i j

/-- Splitting the skin: if the skin kernel is additive over adjacent `y` intervals (`hadd`; for the Bardell
kernels this is additivity of the integrals over `[y1,y2] ∪ [y2,y3]`), then cutting the skin `[y0, yN]` at ANY list
of positions leaves every entry of every global matrix unchanged. -/
theorem skin_split_invariant {Y : Type} (kind : MatKind) (k : Y → Y → Coo K)
    (hadd : ∀ y1 y2 y3 i j, toFun (k y1 y2) i j + toFun (k y2 y3) i j = toFun (k y1 y3) i j)
    (b : Bay K) (y0 yN : Y) (cuts : List Y) (i j : Nat) :
    toFun (bayCalc kind { b with skins := cutSkins k y0 (cuts ++ [yN]) }) i j =
      toFun (bayCalc kind { b with skins := [k y0 yN] }) i j :=
  skin_split_invariant_aux kind k hadd b y0 yN cuts i j

/-- Adding a T stiffener (`add_tstiff2d` appends it) moves nothing and adds the finalised sum of its own blocks at
the first free offset. -/
theorem add_tstiff_contribution (kind : MatKind) (b : Bay K) (s : TStiff K) (i j : Nat) :
    toFun (bayCalc kind { b with ts := b.ts ++ [s] }) i j =
      toFun (bayCalc kind b) i j +
        toFun (finalize (placeAll (s.blocks kind (b.offT b.ts.length) (b.offT b.ts.length)))) i j :=
  add_tstiff_contribution_aux kind b s i j

/-- Adding a 1-D blade stiffener adds the finalised sum of its blocks inside the skin's range. -/
theorem add_blade1d_contribution (kind : MatKind) (b : Bay K) (s : Blade1D K) (i j : Nat) :
    toFun (bayCalc kind { b with b1 := b.b1 ++ [s] }) i j =
      toFun (bayCalc kind b) i j + toFun (finalize (placeAll (s.blocks kind 0 0))) i j :=
  add_blade1d_contribution_aux kind b s i j

/-- Adding a 2-D blade stiffener to a bay without T stiffeners (with T stiffeners their ranges move up by the new
flange's size; the plugin checks that case on the implementation through the index embedding). -/
theorem add_blade2d_contribution (kind : MatKind) (b : Bay K) (hts : b.ts = []) (s : Blade2D K) (i j : Nat) :
    toFun (bayCalc kind { b with b2 := b.b2 ++ [s] }) i j =
      toFun (bayCalc kind b) i j +
        toFun (finalize (placeAll (s.blocks kind (b.off2 b.b2.length) (b.off2 b.b2.length)))) i j :=
  add_blade2d_contribution_aux kind b hts s i j

/-- The contribution of a stiffener (a finalised sum of blocks) is symmetric. -/
theorem stiffener_contribution_symmetric (bs : List (Block K)) (i j : Nat) :
    toFun (finalize (placeAll bs)) i j = toFun (finalize (placeAll bs)) j i :=
  toFun_makeSymmetric_symm _ i j

/-- `StiffPanelBay.calc_fext` is the concatenation skin, flanges of the 2-D blades that have one, then base and flange
of every T stiffener. -/
theorem bay_fext_concat (skin : List K) (b2 : List (Option (List K))) (ts : List (List K × List K)) :
    bayFext skin b2 ts = some ((skin :: (b2.filterMap id ++ ts.flatMap fun s => [s.1, s.2])).flatten) :=
  bay_fext_concat_aux skin b2 ts

/-! ### Non-vacuity: concrete instances -/

/-- three panels of differing series orders -/
example : init [(2, 1), (1, 3), (2, 2)] = [⟨0, 0, 6, 6⟩, ⟨6, 6, 15, 15⟩, ⟨15, 15, 27, 27⟩] := rfl
example : getSize [(2, 1), (1, 3), (2, 2)] = 27 := rfl

/-- `make_symmetric` on a list with an entry below the diagonal and a duplicate -/
example : toFun (makeSymmetric [(0, 1, (2 : ℚ)), (1, 0, 5), (1, 1, 3), (0, 1, 4)]) 1 0 = 6 := by
  norm_num [makeSymmetric, toFun]

/-- a connection listed with `p1` after `p2`: the coupling block is transposed into the upper triangle -/
example : (connBlocks (init [(1, 1), (1, 1)]) (⟨1, 0, [], [(0, 2, (7 : ℚ))], []⟩ : Conn ℚ)).map
    (fun b => (b.tag, b.row0, b.col0, b.coo)) =
    [(tagC11, 3, 3, []), (tagC12, 0, 3, [(2, 0, 7)]), (tagC22, 0, 0, [])] := rfl

/-- a bay with one flange-less and one flanged 2-D blade and two T stiffeners: offsets 12, 12, 18, 30 -/
example : (bayBlocks MatKind.kM
    (⟨3, 2, 2, [[]], [], [⟨some [], none, [], [], []⟩, ⟨none, some (6, []), [], [], []⟩],
      [⟨3, 9, [], [], [], [], [], [], [], []⟩, ⟨6, 3, [], [], [], [], [], [], [], []⟩]⟩ : Bay ℚ)).map
    (fun b => (b.tag, b.row0, b.col0)) =
    [(tagPanel, 0, 0), (tagBase, 0, 0), (tagFlange, 12, 12), (tagBase, 18, 18), (tagFlange, 21, 21),
     (tagBase, 30, 30), (tagFlange, 36, 36)] := rfl


/-! ### placement of the panel kernels (loop nest of Model/PanelLoop.lean, tied to the source by `LoopSchema`) -/

open Compmech.PanelLoop in
/-- a panel kernel (`fk0`, `fkG0`, `fkM`, … of any panel model, any series orders `m, n`, any entry expressions) asked to write
at `row0 = col0 = r0` returns exactly its stand-alone result shifted by `(r0, r0)`: what `assembly_eq_sum_of_placed` and
`bay_eq_sum_of_placed` assume of a component matrix -/
theorem panel_kernel_placement (num m n r0 : Nat) (e : Fin num → Fin num → Nat → Nat → Nat → Nat → K) :
    loopNest num m n r0 r0 e = shift r0 r0 (loopNest num m n 0 0 e) :=
  loopNest_shift num m n r0 e

open Compmech.PanelLoop in
/-- … and only there: with `row0 ≠ col0` the `row > col` skip compares global positions, so the result is NOT the shifted
stand-alone result (kernel-checked instance: one field, m = 2, n = 1, row0 = 2, col0 = 0) -/
theorem panel_kernel_placement_offdiagonal_counterexample :
    (loopNest 1 2 1 2 0 (fun _ _ _ _ _ _ => (1 : ℚ))).length ≠
      (shift 2 0 (loopNest 1 2 1 0 0 (fun _ _ _ _ _ _ => (1 : ℚ)))).length := by decide

open Compmech.PanelLoop in
/-- the penalty-connection kernels (loop nests of Model/ConnLoop.lean, both loop orders): a diagonal-block kernel `fkC…11` / `fkC…22` asked to write
at `row0 = col0 = r0`, and a coupling kernel `fkC…12` asked to write at ANY `(row0, col0)` (it has no `row > col` skip), return exactly their
stand-alone results shifted there — what `connection_blocks_placement` and `get_k0_conn_psd` (Props/C12) assume of `Conn.k11, k12, k22` -/
theorem conn_kernel_placement (yx : Bool) (m1 n1 m2 n2 r0 c0 : Nat) (e : Fin 3 → Fin 3 → Nat → Nat → Nat → Nat → K) :
    connNestDiag yx m1 n1 r0 e = shift r0 r0 (connNestDiag yx m1 n1 0 e) ∧
    connNest12 yx m1 n1 m2 n2 r0 c0 e = shift r0 c0 (connNest12 yx m1 n1 m2 n2 0 0 e) :=
  ⟨connNestDiag_shift yx m1 n1 r0 e, connNest12_shift yx m1 n1 m2 n2 r0 c0 e⟩

open Compmech.PanelLoop in
/-- non-vacuity: a coupling kernel of a 2×1 and a 1×2 series written at (rows from 9, columns from 0) — below the diagonal, as for `p1` after `p2` -/
example : connNest12 false 2 1 1 2 9 0 (fun ro co i k j l => ((ro.val + 3 * co.val + 10 * i + 100 * l : Nat) : ℚ)) =
    shift 9 0 (connNest12 false 2 1 1 2 0 0 (fun ro co i k j l => ((ro.val + 3 * co.val + 10 * i + 100 * l : Nat) : ℚ))) :=
  (conn_kernel_placement false 2 1 1 2 9 0 _).2

/-! ### the stiffener kernels (regenerated from compmech/stiffener/models/*.pyx: `Gen/Stiff/*`)

Contexts and specification forms: `Core/StiffSpec.lean`; operator tables and weights: `Spec/StiffInterface.lean`; helper lemmas and the
concrete instances used by the `example`s: `Spec/StiffInterfacePSD.lean`.  The entry theorems hold in every field of characteristic 0
and for EVERY interpretation of the integral / point-value symbols (they are uniform in series indices, edge flags and positions); the
positive semi-definiteness theorems are over ℝ and assume that the symbols are real integrals of products of continuous functions
(which C10 establishes for the Bardell tables: `integral_*`, `integral_*_12`, and, for the mapped-argument family `integral_*_c0c1`
the T stiffener uses, `map_*_integral`). -/

section stiffener_kernels
open Compmech.Panel Compmech.Gen.Stiff
open scoped BigOperators

variable {F : Type} [Field F] [CharZero F]

/-! #### 2-D blade stiffener (`bladestiff2d_clt_donnell_bardell.pyx`): skin – flange penalty connection on the line `y = ys` -/

/-- `fkCss`: every entry is the skin–skin block of the Hessian of `kt/2 ∫ (⟦u⟧² + ⟦v⟧² + ⟦w⟧²) dx + kr/2 ∫ ⟦w,y⟧² dx` along the stiffener line
(length `a`), jumps `u_s − u_f`, `v_s − w_f`, `w_s + v_f`, `w_s,y − w_f,y` (`blade2dOps`); skin functions taken on `η = 2 ys/b − 1` -/
theorem blade2d_ss_eq_hessian (C : CCtx F) (hk : C.kt ≠ 0) (h1 : C.b1 ≠ 0) (h2 : C.b2 ≠ 0) (ro co : Fin 3) :
    Blade2D.ss.entry ro co C = lineHess C .x .y C.a1 (blade2dOps C) (penaltyW C) .p1 .p1 (fld3 ro) (fld3 co) := by
  fin_cases ro <;> fin_cases co <;> stiff_eq_hess [blade2dOps]

/-- `fkCsf`: the skin–flange block of the same Hessian; flange functions taken on its edge `η = −1` -/
theorem blade2d_sf_eq_hessian (C : CCtx F) (hk : C.kt ≠ 0) (h1 : C.b1 ≠ 0) (h2 : C.b2 ≠ 0) (ro co : Fin 3) :
    Blade2D.sf.entry ro co C = lineHess C .x .y C.a1 (blade2dOps C) (penaltyW C) .p1 .p2 (fld3 ro) (fld3 co) := by
  fin_cases ro <;> fin_cases co <;> stiff_eq_hess [blade2dOps]

/-- `fkCff`: the flange–flange block of the same Hessian -/
theorem blade2d_ff_eq_hessian (C : CCtx F) (hk : C.kt ≠ 0) (h1 : C.b1 ≠ 0) (h2 : C.b2 ≠ 0) (ro co : Fin 3) :
    Blade2D.ff.entry ro co C = lineHess C .x .y C.a1 (blade2dOps C) (penaltyW C) .p2 .p2 (fld3 ro) (fld3 co) := by
  fin_cases ro <;> fin_cases co <;> stiff_eq_hess [blade2dOps]

/-- the skin–flange connection matrix `[[kCss, kCsf], [kCsfᵀ, kCff]]` of a 2-D blade stiffener is SYMMETRIC: the entry for the degrees of
freedom `(pA, ro, i, j)`, `(pB, co, k, l)` equals the entry for the exchanged pair — also inside the diagonal blocks, where both
orders are computed by the kernel expressions (integrals along the line = real integrals of products of continuous functions) -/
theorem blade2d_conn_symmetric (base : CCtx ℝ) (J : ConnIntegrals) (E : ConnEvals) (hk : base.kt ≠ 0)
    (h1 : base.b1 ≠ 0) (h2 : base.b2 ≠ 0) (Z : Nat → Fld → Pan → Nat → ℝ → ℝ) (z₁ z₂ : ℝ) (hR : RealLineIntegrals J .x Z z₁ z₂)
    (pA pB : Pan) (ro co : Fin 3) (i k j l : Nat) :
    connEntry Blade2D.ss.entry Blade2D.sf.entry Blade2D.ff.entry base J E pA pB ro co i k j l
      = connEntry Blade2D.ss.entry Blade2D.sf.entry Blade2D.ff.entry base J E pB pA co ro k i l j := by
  cases pA <;> cases pB <;> simp only [connEntry]
  · rw [blade2d_ss_eq_hessian (cctxAt base J E i k j l) hk h1 h2, blade2d_ss_eq_hessian (cctxAt base J E k i l j) hk h1 h2]
    exact (lineHess_transpose base J E .x .y base.a1 Z z₁ z₂ hR _ _ _ _ _ _ _ _ _ _).symm
  · rw [blade2d_ff_eq_hessian (cctxAt base J E i k j l) hk h1 h2, blade2d_ff_eq_hessian (cctxAt base J E k i l j) hk h1 h2]
    exact (lineHess_transpose base J E .x .y base.a1 Z z₁ z₂ hR _ _ _ _ _ _ _ _ _ _).symm

/-- … and POSITIVE SEMI-DEFINITE: for any finite family of degrees of freedom of skin and flange and any amplitudes `c`,
`cᵀ K c = kt ∫ |⟦u⟧|² + kr ∫ ⟦w,y⟧² ≥ 0` whenever `kt, kr ≥ 0`, `a ≥ 0` -/
theorem blade2d_conn_psd {ι : Type} (base : CCtx ℝ) (J : ConnIntegrals) (E : ConnEvals) (hk : base.kt ≠ 0)
    (h1 : base.b1 ≠ 0) (h2 : base.b2 ≠ 0) (hkt : 0 ≤ base.kt) (hkr : 0 ≤ base.kr) (hlen : 0 ≤ base.a1)
    (Z : Nat → Fld → Pan → Nat → ℝ → ℝ) (z₁ z₂ : ℝ) (hR : RealLineIntegrals J .x Z z₁ z₂)
    (s : Finset ι) (pan : ι → Pan) (ro : ι → Fin 3) (ix iy : ι → Nat) (c : ι → ℝ) :
    0 ≤ ∑ A ∈ s, ∑ B ∈ s, c A * c B *
      connEntry Blade2D.ss.entry Blade2D.sf.entry Blade2D.ff.entry base J E (pan A) (pan B) (ro A) (ro B)
        (ix A) (ix B) (iy A) (iy B) :=
  connEntry_line_psd _ _ _ base J E .x .y base.a1 hlen Z z₁ z₂ hR (blade2dOps base) (penaltyW base)
    (penaltyW_nonneg base hkt hkr)
    (fun ro co i k j l => blade2d_ss_eq_hessian (cctxAt base J E i k j l) hk h1 h2 ro co)
    (fun ro co i k j l => blade2d_sf_eq_hessian (cctxAt base J E i k j l) hk h1 h2 ro co)
    (fun ro co i k j l => blade2d_ff_eq_hessian (cctxAt base J E i k j l) hk h1 h2 ro co) s pan ro ix iy c

/-- non-vacuity: `a = 2`, `b = 2`, `bf = 1`, `kt = 1000`, `kr = 10`, monomials `t^(i+d)` (skin), `(1−t)^(i+d)` (flange) on `[−1, 1]` -/
example {ι : Type} (s : Finset ι) (pan : ι → Pan) (ro : ι → Fin 3) (ix iy : ι → Nat) (c : ι → ℝ) :
    0 ≤ ∑ A ∈ s, ∑ B ∈ s, c A * c B *
      connEntry Blade2D.ss.entry Blade2D.sf.entry Blade2D.ff.entry ConnPSDExample.unitConn ConnPSDExample.monoJ
        ConnPSDExample.monoE (pan A) (pan B) (ro A) (ro B) (ix A) (ix B) (iy A) (iy B) :=
  blade2d_conn_psd _ _ _ (by norm_num [ConnPSDExample.unitConn]) (by norm_num [ConnPSDExample.unitConn])
    (by norm_num [ConnPSDExample.unitConn]) (by norm_num [ConnPSDExample.unitConn]) (by norm_num [ConnPSDExample.unitConn])
    (by norm_num [ConnPSDExample.unitConn]) ConnPSDExample.mono (-1) 1 (ConnPSDExample.monoJ_line _) s pan ro ix iy c

example (pA pB : Pan) (ro co : Fin 3) (i k j l : Nat) :
    connEntry Blade2D.ss.entry Blade2D.sf.entry Blade2D.ff.entry ConnPSDExample.unitConn ConnPSDExample.monoJ
        ConnPSDExample.monoE pA pB ro co i k j l
      = connEntry Blade2D.ss.entry Blade2D.sf.entry Blade2D.ff.entry ConnPSDExample.unitConn ConnPSDExample.monoJ
        ConnPSDExample.monoE pB pA co ro k i l j :=
  blade2d_conn_symmetric _ _ _ (by norm_num [ConnPSDExample.unitConn]) (by norm_num [ConnPSDExample.unitConn])
    (by norm_num [ConnPSDExample.unitConn]) ConnPSDExample.mono (-1) 1 (ConnPSDExample.monoJ_line _) pA pB ro co i k j l

/-! #### T stiffener (`tstiff2d_clt_donnell_bardell.pyx`): skin – base penalty connection over the strip `y1 ≤ y ≤ y2` -/

/-- `fkCppy1y2`: every entry is the skin–skin block of the Hessian of the surface penalty `kt/2 ∬_strip (⟦u⟧² + ⟦v⟧² + ⟦w⟧²) dx dy` with the jumps
`u_s + dpb·w_s,x − u_b`, `v_s + dpb·w_s,y − v_b`, `w_s − w_b` (`tsbOps`), written over the base's footprint `a × (y2 − y1)` (`TCtx.toC`:
the strip integral `integral_*_12(eta1, eta2, …)` of two skin functions is `c1 = (y2 − y1)/b` times their integral in the base's coordinate) -/
theorem tstiff_pp_eq_hessian (T : TCtx F) (ha : T.a ≠ 0) (hb : T.b ≠ 0) (hy : T.y2 - T.y1 ≠ 0) (ro co : Fin 3) :
    T2D.pp.entry ro co T = surfHess T.toC (tsbOps T) (tsbW T) .p1 .p1 (fld3 ro) (fld3 co) := by
  fin_cases ro <;> fin_cases co <;> stiff_eq_hess [tsbOps, tsbW, TCtx.toC, TCtx.JyBase, TCtx.c1]

/-- `fkCpby1y2`: the skin–base block; the y integrals are the mapped-argument integrals `integral_*_c0c1(c0, c1, …)` (skin function at
`c0 + c1 η′`, base function at `η′`), and the source's `c1 = 0.5 (eta2 − eta1)`, `eta = 2 y/b − 1`, is `(y2 − y1)/b` -/
theorem tstiff_pb_eq_hessian (T : TCtx F) (ha : T.a ≠ 0) (hb : T.b ≠ 0) (hy : T.y2 - T.y1 ≠ 0) (ro co : Fin 3) :
    T2D.pb.entry ro co T = surfHess T.toC (tsbOps T) (tsbW T) .p1 .p2 (fld3 ro) (fld3 co) := by
  fin_cases ro <;> fin_cases co <;> stiff_eq_hess [tsbOps, tsbW, TCtx.toC, TCtx.JyBase, TCtx.c1]

/-- `fkCbbpby1y2`: the base–base block (full integrals of the base's own functions, area element `a (y2 − y1)/4`) -/
theorem tstiff_bb_eq_hessian (T : TCtx F) (ha : T.a ≠ 0) (hb : T.b ≠ 0) (hy : T.y2 - T.y1 ≠ 0) (ro co : Fin 3) :
    T2D.bb.entry ro co T = surfHess T.toC (tsbOps T) (tsbW T) .p2 .p2 (fld3 ro) (fld3 co) := by
  fin_cases ro <;> fin_cases co <;> stiff_eq_hess [tsbOps, tsbW, TCtx.toC, TCtx.JyBase, TCtx.c1]

/-- the skin–base connection matrix `[[kCpp, kCpb], [kCpbᵀ, kCbb]]` of a T stiffener is SYMMETRIC.  `RealStripIntegrals` says that
the three families of y integrals are what their names say: strip = `∫_{η₁}^{η₂}` skin·skin, mapped = `∫_{−1}^{1}` skin(`c0 + c1 η′`)·base(`η′`),
full = `∫_{−1}^{1}` base·base, with `[η₁, η₂] = [c0 − c1, c0 + c1]`, `c1 = (y2 − y1)/b > 0` -/
theorem tstiff_skin_base_symmetric (base : TCtx ℝ) (Jx : StripXIntegrals) (Jy : StripYIntegrals)
    (ha : base.a ≠ 0) (hb : base.b ≠ 0) (hy : base.y2 - base.y1 ≠ 0)
    (X : Nat → Fld → Pan → Nat → ℝ → ℝ) (S Bq : Nat → Fld → Nat → ℝ → ℝ) (x₁ x₂ c0 : ℝ)
    (hR : RealStripIntegrals Jx Jy X S Bq x₁ x₂ c0 base.c1) (pA pB : Pan) (ro co : Fin 3) (i k j l : Nat) :
    stripEntry T2D.pp.entry T2D.pb.entry T2D.bb.entry base Jx Jy pA pB ro co i k j l
      = stripEntry T2D.pp.entry T2D.pb.entry T2D.bb.entry base Jx Jy pB pA co ro k i l j := by
  cases pA <;> cases pB <;> simp only [stripEntry]
  · rw [tstiff_pp_eq_hessian (tctxAt base Jx Jy i k j l) ha hb hy, tstiff_pp_eq_hessian (tctxAt base Jx Jy k i l j) ha hb hy,
      tctxAt_toC, tctxAt_toC]
    exact (surfHess_transpose base.toC _ noEvals X _ x₁ x₂ (-1) 1 hR.surf (tsbOps base) (tsbW base) _ _ _ _ _ _ _ _).symm
  · rw [tstiff_bb_eq_hessian (tctxAt base Jx Jy i k j l) ha hb hy, tstiff_bb_eq_hessian (tctxAt base Jx Jy k i l j) ha hb hy,
      tctxAt_toC, tctxAt_toC]
    exact (surfHess_transpose base.toC _ noEvals X _ x₁ x₂ (-1) 1 hR.surf (tsbOps base) (tsbW base) _ _ _ _ _ _ _ _).symm

/-- … and POSITIVE SEMI-DEFINITE for `kt ≥ 0`, `a (y2 − y1) ≥ 0`: `cᵀ K c = kt ∬_strip |⟦u⟧|²` of the field with amplitudes `c` -/
theorem tstiff_skin_base_psd {ι : Type} (base : TCtx ℝ) (Jx : StripXIntegrals) (Jy : StripYIntegrals)
    (ha : base.a ≠ 0) (hb : base.b ≠ 0) (hy : base.y2 - base.y1 ≠ 0) (hkt : 0 ≤ base.kt)
    (hab : 0 ≤ base.a * (base.y2 - base.y1))
    (X : Nat → Fld → Pan → Nat → ℝ → ℝ) (S Bq : Nat → Fld → Nat → ℝ → ℝ) (x₁ x₂ c0 : ℝ)
    (hR : RealStripIntegrals Jx Jy X S Bq x₁ x₂ c0 base.c1)
    (s : Finset ι) (pan : ι → Pan) (ro : ι → Fin 3) (ix iy : ι → Nat) (c : ι → ℝ) :
    0 ≤ ∑ A ∈ s, ∑ B ∈ s, c A * c B *
      stripEntry T2D.pp.entry T2D.pb.entry T2D.bb.entry base Jx Jy (pan A) (pan B) (ro A) (ro B)
        (ix A) (ix B) (iy A) (iy B) :=
  stripEntry_psd _ _ _ base Jx Jy hab hkt X S Bq x₁ x₂ c0 hR
    (fun ro co i k j l => tstiff_pp_eq_hessian (tctxAt base Jx Jy i k j l) ha hb hy ro co)
    (fun ro co i k j l => tstiff_pb_eq_hessian (tctxAt base Jx Jy i k j l) ha hb hy ro co)
    (fun ro co i k j l => tstiff_bb_eq_hessian (tctxAt base Jx Jy i k j l) ha hb hy ro co) s pan ro ix iy c

/-- non-vacuity: `a = 2`, bay width `b = 4`, strip `1 ≤ y ≤ 2` (`c0 = −1/4`, `c1 = 1/4`), `dpb = 1/100`, `kt = 1000`, monomial functions -/
example {ι : Type} (s : Finset ι) (pan : ι → Pan) (ro : ι → Fin 3) (ix iy : ι → Nat) (c : ι → ℝ) :
    0 ≤ ∑ A ∈ s, ∑ B ∈ s, c A * c B *
      stripEntry T2D.pp.entry T2D.pb.entry T2D.bb.entry StiffExample.unitT StiffExample.stripJx StiffExample.stripJy
        (pan A) (pan B) (ro A) (ro B) (ix A) (ix B) (iy A) (iy B) :=
  tstiff_skin_base_psd _ _ _ (by norm_num [StiffExample.unitT]) (by norm_num [StiffExample.unitT])
    (by norm_num [StiffExample.unitT]) (by norm_num [StiffExample.unitT]) (by norm_num [StiffExample.unitT])
    _ _ _ (-1) 1 (-1 / 4) StiffExample.strip_real s pan ro ix iy c

example (pA pB : Pan) (ro co : Fin 3) (i k j l : Nat) :
    stripEntry T2D.pp.entry T2D.pb.entry T2D.bb.entry StiffExample.unitT StiffExample.stripJx StiffExample.stripJy pA pB ro co i k j l
      = stripEntry T2D.pp.entry T2D.pb.entry T2D.bb.entry StiffExample.unitT StiffExample.stripJx StiffExample.stripJy
          pB pA co ro k i l j :=
  tstiff_skin_base_symmetric _ _ _ (by norm_num [StiffExample.unitT]) (by norm_num [StiffExample.unitT])
    (by norm_num [StiffExample.unitT]) _ _ _ (-1) 1 (-1 / 4) StiffExample.strip_real pA pB ro co i k j l

/-! #### 1-D blade flange (`bladestiff1d_clt_donnell_bardell.pyx`): a beam on the skin line `y = ys` -/

/-- `fk0f`: every entry is the Hessian of the beam strain energy `½ ∫_0^a bf [E1 ε² + F1 κ² + Jxx τ² − 2 S1 ε τ] dx` with
`ε = u,x + df·w,xx`, `κ = w,xx`, `τ = w,xy` of the skin field on the stiffener line (`beamStrainOps`, `beamLaw`) -/
theorem blade1d_k0f_eq_hessian (B : BCtx F) (ha : B.a ≠ 0) (hb : B.b ≠ 0) (ro co : Fin 3) :
    Blade1D.k0f.entry ro co B = lineEnergyHess B (beamStrainOps B) (beamLaw B) (fld3 ro) (fld3 co) := by
  fin_cases ro <;> fin_cases co <;> entry_eq_form [lineEnergyHess, BCtx.toP, beamStrainOps, beamLaw]

/-- `fkG0f`: Hessian of the pre-stress work `½ ∫_0^a Fx (w,x)² dx` of the flange's axial force on the skin line -/
theorem blade1d_kG0f_eq_hessian (B : BCtx F) (ha : B.a ≠ 0) (ro co : Fin 3) :
    Blade1D.kG0f.entry ro co B = lineEnergyHess B (beamSlopeOps B) (beamPreload B) (fld3 ro) (fld3 co) := by
  fin_cases ro <;> fin_cases co <;> entry_eq_form [lineEnergyHess, BCtx.toP, beamSlopeOps, beamPreload]

set_option maxHeartbeats 2000000 in
/-- `fkMf` AS ENCODED: Hessian of `½ ∫_0^a μ bf hf [u̇² + v̇² + ẇ² + 2·(2 df)(u̇ ẇ,x + v̇ ẇ,y) + I (ẇ,x² + ẇ,y²)] dx`, `I = beamRotaryInertia`
(the long literal `0.166666666666667` read as `1/6`, `Gen/Stiff/Literals.lean`).  The coupling weight is `2·df`; the kinetic energy of a
blade whose material points move with `(u̇ − z ẇ,x, v̇ − z ẇ,y, ẇ)` has `∓df` (finding `C13-blade1d-flange-mass-coupling-doubled`). -/
theorem blade1d_kMf_eq_hessian (B : BCtx F) (ha : B.a ≠ 0) (hb : B.b ≠ 0) (ro co : Fin 3) :
    Blade1D.kMf.entry ro co B = lineEnergyHess B (beamVelocityOps B) (beamMassW 2 B) (fld3 ro) (fld3 co) := by
  fin_cases ro <;> fin_cases co <;> entry_eq_form [lineEnergyHess, BCtx.toP, beamVelocityOps, beamMassW, beamRotaryInertia]

/-- the three flange kernels are SYMMETRIC: the value for the pair of skin degrees of freedom `(ro, i, j)`, `(co, k, l)` equals the value
for the exchanged pair (the integrals along x commute in their two factors) -/
theorem blade1d_k0f_symmetric (base : BCtx ℝ) (J : BeamIntegrals) (E : BeamEvals)
    (hJ : ∀ d₁ f₁ a d₂ f₂ b, J d₁ f₁ a d₂ f₂ b = J d₂ f₂ b d₁ f₁ a) (ha : base.a ≠ 0) (hb : base.b ≠ 0)
    (ro co : Fin 3) (i k j l : Nat) :
    Blade1D.k0f.entry ro co (bctxAt base J E i k j l) = Blade1D.k0f.entry co ro (bctxAt base J E k i l j) := by
  rw [blade1d_k0f_eq_hessian (bctxAt base J E i k j l) ha hb, blade1d_k0f_eq_hessian (bctxAt base J E k i l j) ha hb]
  exact (lineEnergyHess_swap base J E hJ (beamStrainOps base) (beamLaw base) (beamLaw_symm base) _ _ i k j l).symm

theorem blade1d_kG0f_symmetric (base : BCtx ℝ) (J : BeamIntegrals) (E : BeamEvals)
    (hJ : ∀ d₁ f₁ a d₂ f₂ b, J d₁ f₁ a d₂ f₂ b = J d₂ f₂ b d₁ f₁ a) (ha : base.a ≠ 0) (ro co : Fin 3) (i k j l : Nat) :
    Blade1D.kG0f.entry ro co (bctxAt base J E i k j l) = Blade1D.kG0f.entry co ro (bctxAt base J E k i l j) := by
  rw [blade1d_kG0f_eq_hessian (bctxAt base J E i k j l) ha, blade1d_kG0f_eq_hessian (bctxAt base J E k i l j) ha]
  exact (lineEnergyHess_swap base J E hJ (beamSlopeOps base) (beamPreload base) (fun _ _ => rfl) _ _ i k j l).symm

theorem blade1d_kMf_symmetric (base : BCtx ℝ) (J : BeamIntegrals) (E : BeamEvals)
    (hJ : ∀ d₁ f₁ a d₂ f₂ b, J d₁ f₁ a d₂ f₂ b = J d₂ f₂ b d₁ f₁ a) (ha : base.a ≠ 0) (hb : base.b ≠ 0)
    (ro co : Fin 3) (i k j l : Nat) :
    Blade1D.kMf.entry ro co (bctxAt base J E i k j l) = Blade1D.kMf.entry co ro (bctxAt base J E k i l j) := by
  rw [blade1d_kMf_eq_hessian (bctxAt base J E i k j l) ha hb, blade1d_kMf_eq_hessian (bctxAt base J E k i l j) ha hb]
  exact (lineEnergyHess_swap base J E hJ (beamVelocityOps base) (beamMassW 2 base) (beamMassW_symm 2 base) _ _ i k j l).symm

/-- `fk0f` is POSITIVE SEMI-DEFINITE over any finite family of skin degrees of freedom when the beam law it is handed is:
`bf, E1, F1, Jxx ≥ 0` and `S1² ≤ E1·Jxx` (and `a ≥ 0`).  The last condition is a hypothesis on the CALLER: `BladeStiff1D` passes a purely
geometric `Jxx`, and `S1² ≤ E1·Jxx` fails for flange laminates with off-axis plies (finding `C13-blade1d-twist-stiffness-without-modulus`). -/
theorem blade1d_k0f_psd {ι : Type} (base : BCtx ℝ) (J : BeamIntegrals) (E : BeamEvals) (ha : base.a ≠ 0) (hb : base.b ≠ 0)
    (hpos : 0 ≤ base.a) (hbf : 0 ≤ base.bf) (hE : 0 ≤ base.E1) (hF : 0 ≤ base.F1) (hJx : 0 ≤ base.Jxx)
    (hS : base.S1 * base.S1 ≤ base.E1 * base.Jxx)
    (X : Nat → Fld → Nat → ℝ → ℝ) (x₁ x₂ : ℝ) (hR : RealBeamIntegrals J X x₁ x₂)
    (s : Finset ι) (ro : ι → Fin 3) (ix iy : ι → Nat) (c : ι → ℝ) :
    0 ≤ ∑ A ∈ s, ∑ B ∈ s, c A * c B * Blade1D.k0f.entry (ro A) (ro B) (bctxAt base J E (ix A) (ix B) (iy A) (iy B)) := by
  simp only [fun A B => blade1d_k0f_eq_hessian (bctxAt base J E (ix A) (ix B) (iy A) (iy B)) ha hb (ro A) (ro B)]
  exact lineEnergyHess_psd base J E X x₁ x₂ hR (beamStrainOps base) (beamLaw base) (beamLaw_psd base hbf hE hF hJx hS) hpos
    s (fun A => fld3 (ro A)) ix iy c

/-- the hypothesis `S1² ≤ E1·Jxx` of `blade1d_k0f_psd` cannot be dropped: for `bf, E1 > 0` and `E1·Jxx < S1²` the beam law `fk0f` integrates is
indefinite (state `ε = S1`, `τ = E1`), which is the situation of finding `C13-blade1d-twist-stiffness-without-modulus` -/
theorem blade1d_beam_law_indefinite (B : BCtx ℝ) (hbf : 0 < B.bf) (hE : 0 < B.E1) (hS : B.E1 * B.Jxx < B.S1 * B.S1) :
    ¬ WeightPSD (beamLaw B) :=
  beamLaw_not_psd B hbf hE hS

/-- `fkG0f` is positive semi-definite for a tensile flange force `Fx ≥ 0` (its quadratic form is `Fx ∫ (w,x)² dx`; for `Fx ≤ 0` apply
this to `−Fx`: the kernel is linear in `Fx`) -/
theorem blade1d_kG0f_psd {ι : Type} (base : BCtx ℝ) (J : BeamIntegrals) (E : BeamEvals) (ha : base.a ≠ 0)
    (hpos : 0 ≤ base.a) (hFx : 0 ≤ base.Fx)
    (X : Nat → Fld → Nat → ℝ → ℝ) (x₁ x₂ : ℝ) (hR : RealBeamIntegrals J X x₁ x₂)
    (s : Finset ι) (ro : ι → Fin 3) (ix iy : ι → Nat) (c : ι → ℝ) :
    0 ≤ ∑ A ∈ s, ∑ B ∈ s, c A * c B * Blade1D.kG0f.entry (ro A) (ro B) (bctxAt base J E (ix A) (ix B) (iy A) (iy B)) := by
  simp only [fun A B => blade1d_kG0f_eq_hessian (bctxAt base J E (ix A) (ix B) (iy A) (iy B)) ha (ro A) (ro B)]
  exact lineEnergyHess_psd base J E X x₁ x₂ hR (beamSlopeOps base) (beamPreload base) (beamPreload_psd base hFx) hpos
    s (fun A => fld3 (ro A)) ix iy c

/-- PARTIAL: `fkMf` is positive semi-definite only under `(2 df)² ≤ I` (`I = beamRotaryInertia`).  What is missing for the full
statement "the flange adds a positive semi-definite mass": for the geometry `BladeStiff1D` passes (`df = bf/2 + hb + h/2`, so
`I = df² + bf²/12`) this hypothesis is FALSE whenever `bf > 0` (`blade1d_mass_weight_encoded_not_psd`), and the kernel is then not
positive semi-definite (`blade1d_kMf_not_psd_counterexample`); with the coupling of the kinetic energy (`|κ| = 1`) it would hold
(`blade1d_mass_weight_consistent_psd`). -/
theorem blade1d_kMf_psd_partial {ι : Type} (base : BCtx ℝ) (J : BeamIntegrals) (E : BeamEvals) (ha : base.a ≠ 0) (hb : base.b ≠ 0)
    (hpos : 0 ≤ base.a) (hM : 0 ≤ base.mu * base.bf * base.hf)
    (hI : (2 * base.df) * (2 * base.df) ≤ beamRotaryInertia base)
    (X : Nat → Fld → Nat → ℝ → ℝ) (x₁ x₂ : ℝ) (hR : RealBeamIntegrals J X x₁ x₂)
    (s : Finset ι) (ro : ι → Fin 3) (ix iy : ι → Nat) (c : ι → ℝ) :
    0 ≤ ∑ A ∈ s, ∑ B ∈ s, c A * c B * Blade1D.kMf.entry (ro A) (ro B) (bctxAt base J E (ix A) (ix B) (iy A) (iy B)) := by
  simp only [fun A B => blade1d_kMf_eq_hessian (bctxAt base J E (ix A) (ix B) (iy A) (iy B)) ha hb (ro A) (ro B)]
  exact lineEnergyHess_psd base J E X x₁ x₂ hR (beamVelocityOps base) (beamMassW 2 base) (beamMassW_psd 2 base hM hI) hpos
    s (fun A => fld3 (ro A)) ix iy c

/-- for the geometry the caller passes the ENCODED mass weight (coupling `2 df`) is NOT positive semi-definite … -/
theorem blade1d_mass_weight_encoded_not_psd (B : BCtx ℝ) (hdf : B.df = B.bf / 2 + B.hb + B.h / 2) (hbf : 0 < B.bf)
    (hh : 0 ≤ B.h) (hhb : 0 ≤ B.hb) (hM : 0 < B.mu * B.bf * B.hf) : ¬ WeightPSD (beamMassW 2 B) := by
  refine beamMassW_not_psd 2 B hM ?_
  rw [beamRotaryInertia_eq B hdf]
  have hd : B.bf / 2 ≤ B.df := by rw [hdf]; linarith
  nlinarith [mul_self_nonneg (B.df - B.bf / 2), mul_pos hbf hbf]

/-- … while the weight of the blade's kinetic energy (coupling `∓df`) is -/
theorem blade1d_mass_weight_consistent_psd (B : BCtx ℝ) (hdf : B.df = B.bf / 2 + B.hb + B.h / 2)
    (hM : 0 ≤ B.mu * B.bf * B.hf) : WeightPSD (beamMassW 1 B) ∧ WeightPSD (beamMassW (-1) B) := by
  have hI := beamRotaryInertia_eq B hdf
  constructor <;> refine beamMassW_psd _ B hM ?_ <;> rw [hI] <;> nlinarith [mul_self_nonneg B.bf]

/-- REFUTATION of "the 1-D blade flange adds a positive semi-definite mass": a blade with `a = 2`, `b = 1`, `bf = 1`, `h = hb = 0`,
`df = bf/2`, `μ = hf = 1`; one in-plane function `u = ξ`, one deflection function `w = ξ²/2` (y functions with value 1 and slope 0 on the
stiffener line; the integrals along x are the real integrals of these polynomials: `cexJ_real`); amplitudes `c_u = −1`, `c_w = 1`:
the quadratic form of `fkMf` is `2/3 − 2·(2/3) + 29/90 = −31/90 < 0`. -/
theorem blade1d_kMf_not_psd_counterexample :
    RealBeamIntegrals StiffExample.cexJ StiffExample.cexX (-1) 1 ∧
    StiffExample.cexBlade.df = StiffExample.cexBlade.bf / 2 + StiffExample.cexBlade.hb + StiffExample.cexBlade.h / 2 ∧
    ∑ A : Bool, ∑ B : Bool, StiffExample.cexC A * StiffExample.cexC B *
      Blade1D.kMf.entry (StiffExample.cexRo A) (StiffExample.cexRo B)
        (bctxAt StiffExample.cexBlade StiffExample.cexJ StiffExample.cexE 0 0 0 0) = -31 / 90 := by
  refine ⟨StiffExample.cexJ_real, by norm_num [StiffExample.cexBlade], ?_⟩
  simp only [Fintype.sum_bool, StiffExample.cexRo, StiffExample.cexC, panel_entry, bctxAt, pick, StiffExample.cexBlade,
    StiffExample.cexE, StiffExample.cexJ_uu, StiffExample.cexJ_uw1, StiffExample.cexJ_w1u, StiffExample.cexJ_w1w1,
    StiffExample.cexJ_ww]
  norm_num

/-- non-vacuity of the 1-D blade theorems: `unitBlade` (cross-ply-like law `S1² = 10⁶ ≤ E1·Jxx = 10⁷`), monomial skin functions -/
example {ι : Type} (s : Finset ι) (ro : ι → Fin 3) (ix iy : ι → Nat) (c : ι → ℝ) :
    0 ≤ ∑ A ∈ s, ∑ B ∈ s, c A * c B *
      Blade1D.k0f.entry (ro A) (ro B) (bctxAt StiffExample.unitBlade StiffExample.beamJ StiffExample.beamE (ix A) (ix B) (iy A) (iy B)) :=
  blade1d_k0f_psd _ _ _ (by norm_num [StiffExample.unitBlade]) (by norm_num [StiffExample.unitBlade])
    (by norm_num [StiffExample.unitBlade]) (by norm_num [StiffExample.unitBlade]) (by norm_num [StiffExample.unitBlade])
    (by norm_num [StiffExample.unitBlade]) (by norm_num [StiffExample.unitBlade]) (by norm_num [StiffExample.unitBlade])
    _ (-1) 1 StiffExample.beamJ_real s ro ix iy c

example {ι : Type} (s : Finset ι) (ro : ι → Fin 3) (ix iy : ι → Nat) (c : ι → ℝ) :
    0 ≤ ∑ A ∈ s, ∑ B ∈ s, c A * c B *
      Blade1D.kG0f.entry (ro A) (ro B) (bctxAt StiffExample.unitBlade StiffExample.beamJ StiffExample.beamE (ix A) (ix B) (iy A) (iy B)) :=
  blade1d_kG0f_psd _ _ _ (by norm_num [StiffExample.unitBlade]) (by norm_num [StiffExample.unitBlade])
    (by norm_num [StiffExample.unitBlade]) _ (-1) 1 StiffExample.beamJ_real s ro ix iy c

example (ro co : Fin 3) (i k j l : Nat) :
    Blade1D.kMf.entry ro co (bctxAt StiffExample.unitBlade StiffExample.beamJ StiffExample.beamE i k j l)
      = Blade1D.kMf.entry co ro (bctxAt StiffExample.unitBlade StiffExample.beamJ StiffExample.beamE k i l j) :=
  blade1d_kMf_symmetric _ _ _ StiffExample.beamJ_comm (by norm_num [StiffExample.unitBlade]) (by norm_num [StiffExample.unitBlade])
    ro co i k j l

/-- the hypothesis of `blade1d_kMf_psd_partial` can be met (a flange far thinner in height than its rotary arm: `df = 0`) — and is not by `unitBlade` -/
example : ¬ WeightPSD (beamMassW 2 StiffExample.unitBlade) :=
  blade1d_mass_weight_encoded_not_psd _ (by norm_num [StiffExample.unitBlade]) (by norm_num [StiffExample.unitBlade])
    (by norm_num [StiffExample.unitBlade]) (by norm_num [StiffExample.unitBlade]) (by norm_num [StiffExample.unitBlade])

/-- non-vacuity of `blade1d_beam_law_indefinite`: `unitBlade` with an off-axis coupling `S1 = 4000` (`S1² = 1.6·10⁷ > E1·Jxx = 10⁷`) -/
example : ¬ WeightPSD (beamLaw { StiffExample.unitBlade with S1 := 4000 }) :=
  blade1d_beam_law_indefinite _ (by norm_num [StiffExample.unitBlade]) (by norm_num [StiffExample.unitBlade])
    (by norm_num [StiffExample.unitBlade])

end stiffener_kernels

end Compmech.Asm.C13
