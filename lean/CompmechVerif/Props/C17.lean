/-
C17 — complete-shell non-linear tangent stiffness = Jacobian of the internal force.

Only property theorems live here.

STAGE 1 (glue level, thread-count independence): about the hand-written model `Model/ShellNL.lean` of
`ConeCyl._calc_NL_matrices / calc_kT / calc_fint` and of `integratev`, tied to the running Python by `tools/props/C17.py`
(the full vectors handed to every compiled kernel are recorded and compared with the model's; `kT` re-assembled from the
recorded kernel outputs; `integratev` through the compiled test integrand for 1..8 threads).  Helper lemmas:
`Model/ShellNLLemmas.lean`.

STAGE 2 (the kernels): the pointwise content of `cfk0L, cfkLL, cfkG, cffint` of every CLPT non-linear module, and of the commons
functions that feed them, is REGENERATED from the sources on every run (`tools/translate/gen_conecyl_nl.py` ->
`Gen/ConeCylNL/<Model>.lean`, vocabulary `Core/ShellNLSpec.lean`; tie to the running binary: `tools/conecyl_nl_check.py`).  Per model:
  `shell_fint_zero_*`, `shell_kT_is_jacobian_*`, `shell_kT_integrand_symm_*`   at one integration point, all variables free;
  `shell_tangent_is_jacobian_*`   matrix level: hypothesis `hJ` of `tangent_is_jacobian_glue` discharged for the modelled
                                  kernel outputs (quadrature of the regenerated integrands at the regenerated positions);
  `shell_kernel_inputs_*`         the commons module feeds `cfk0L / cfkLL / cfkG` the state functionals of `cffint`.
Helper lemmas: `Spec/ShellJacobian/{Abstract,Generic,Lift,Assembly,StdLayout}.lean` (model independent) and
`Spec/ShellJacobian/<Model>(/*).lean` (one small `ring` identity per pair of degree-of-freedom types, instantiated from a template
by `tools/translate/gen_shell_jacobian.py`).
Fully proved: clpt_donnell_bc1..4, iso_clpt_donnell_bc2/3.   Sanders family: every statement excludes the load-asymmetry
amplitude `c[2]` (`…_partial`; `cfk0L` builds that row from a different shape function than `cffint`: `…_counterexample`);
clpt_sanders_bc2: `calc_k0L` skips `row > col` inside its diagonal blocks although `k0L` enters as `k0L + k0Lᵀ`
(`shell_tangent_matrix_clpt_sanders_bc2_counterexample`); clpt_sanders_bc3: `cfstrain_sanders` of `clpt_commons_bc3` lacks one
term of `γ_xθ`, so `cfkG` is fed other resultants than `cffint` uses (`shell_kernel_inputs_clpt_sanders_bc3_counterexample`).
These two are the recorded findings `C17-kT-not-jacobian-clpt_sanders_bc2 / _bc3`.
FSDT (`fsdt_donnell_bc1`, `fsdt_donnell_bcn`): translated (IR + 8-strain vocabulary `Core/ShellNLSpec8.lean`), validated (V) and REFUTED at
one integration point (`shell_kT_is_jacobian_fsdt_donnell_*_counterexample`); no positive (`…_partial`) theorems for them.
NOT covered: that every COO position receives exactly one triplet (dof-map injectivity; checked by the
translator per block and exercised by validation V); floating point.
-/
import CompmechVerif.Model.ShellNLLemmas
import CompmechVerif.Spec.ShellJacobian.StdLayout
import CompmechVerif.Spec.ShellJacobian.ClptDonnellBc1
import CompmechVerif.Spec.ShellJacobian.ClptDonnellBc2
import CompmechVerif.Spec.ShellJacobian.ClptDonnellBc3
import CompmechVerif.Spec.ShellJacobian.ClptDonnellBc4
import CompmechVerif.Spec.ShellJacobian.IsoClptDonnellBc2
import CompmechVerif.Spec.ShellJacobian.IsoClptDonnellBc3
import CompmechVerif.Spec.ShellJacobian.ClptSandersBc1
import CompmechVerif.Spec.ShellJacobian.ClptSandersBc2
import CompmechVerif.Spec.ShellJacobian.ClptSandersBc3
import CompmechVerif.Spec.ShellJacobian.ClptSandersBc4
import CompmechVerif.Spec.ShellJacobian.FsdtDonnellBc1
import CompmechVerif.Spec.ShellJacobian.FsdtDonnellBcn

namespace Compmech.ShellNL.C17
open Compmech.ShellNL Compmech.Integrate

variable {K : Type} [Field K]

/-- Thread-count independence of the vector-valued integration, trapezoid rule: for every grid, every integrand of the
accumulate form `out = beta*out + alpha*g(x, y)` and every `num_cores ≥ 1` (also more threads than points),
`integratev` returns the plain quadrature sum `Σ alpha·g` — the result does not depend on `num_cores` (exact arithmetic). -/
theorem integratev_thread_invariant_trapz (g : K → K → K) (xmin xmax : K) (nx : Nat) (ymin ymax : K) (ny : Nat)
    (cores : Nat) (hc : 1 ≤ cores) :
    integratev g (trapz2dPoints xmin xmax nx ymin ymax ny) cores = quad (trapz2dPoints xmin xmax nx ymin ymax ny) g := by
  rw [integratev_eq_sum g _ (trapz2d_beta_one xmin xmax nx ymin ymax ny) cores hc]
  unfold quad
  congr 1
  apply List.map_congr_left
  intro p hp
  rw [trapz2d_beta_one xmin xmax nx ymin ymax ny p hp, mul_one]

/-- … and Simpson's rule (including the odd → even bump of the grid sizes). -/
theorem integratev_thread_invariant_simps (g : K → K → K) (xmin xmax : K) (nx : Nat) (ymin ymax : K) (ny : Nat)
    (cores : Nat) (hc : 1 ≤ cores) :
    integratev g (simps2dPoints xmin xmax nx ymin ymax ny) cores = quad (simps2dPoints xmin xmax nx ymin ymax ny) g := by
  rw [integratev_eq_sum g _ (simps2d_beta_one xmin xmax nx ymin ymax ny) cores hc]
  unfold quad
  congr 1
  apply List.map_congr_left
  intro p hp
  rw [simps2d_beta_one xmin xmax nx ymin ymax ny p hp, mul_one]

/-- Hence any two thread counts give the same result, for both rules. -/
theorem integratev_cores_agree (g : K → K → K) (pts : List (Pt K)) (h : ∀ p ∈ pts, p.beta = 1) (c1 c2 : Nat)
    (h1 : 1 ≤ c1) (h2 : 1 ≤ c2) : integratev g pts c1 = integratev g pts c2 := by
  rw [integratev_eq_sum g pts h c1 h1, integratev_eq_sum g pts h c2 h2]

/-- The assembled tangent `kT = k0 + k0L + k0Lᵀ + kLL + kG` is symmetric whatever the kernels returned for `k0L`, `kLL`, `kG`
(the last two go through `make_symmetric`), for both settings of `with_k0L` / `with_kLL`, given the symmetric `k0` of
`_calc_linear_matrices` (C16 `linear_matrices_symmetric`). -/
theorem kT_symmetric (p : Parts K) (withK0L withKLL : Bool) (h0 : ∀ i j, p.k0 i j = p.k0 j i) (i j : Nat) :
    kT p withK0L withKLL i j = kT p withK0L withKLL j i :=
  kT_symm_aux p withK0L withKLL h0 i j

/-- `kT = kL + kG` with the stored `kL`, `kG` (what the non-linear eigenvalue analyses read). -/
theorem kT_eq_kL_add_kG (p : Parts K) (a b : Bool) (i j : Nat) : kT p a b i j = kL p a b i j + sym p.kG i j := by
  unfold kT kL; ring

/-- Glue-level Jacobian: IF the kernel part of the internal force expands along every direction `d` as
`fNL(c + t·d) = fNL(c) + t·J(c)·d + t²·R` with `J(c) = k0L + k0Lᵀ + kLL + kG` at `c` (hypothesis `hJ` on the compiled
integrands), THEN the assembled internal force `fint = fNL + k0·c` expands with the assembled tangent `kT(c)`:
`fint(c + t·d) = fint(c) + t·kT(c)·d + t²·R` for all `t` — the tangent is the Jacobian of the internal force. -/
theorem tangent_is_jacobian_glue (n : Nat) (p : Parts K) (fNL : Vec K → Vec K) (c d : Vec K) (R : K → Vec K)
    (hJ : ∀ t i, fNL (fun j => c j + t * d j) i =
      fNL c i + t * sumTo n (fun j => (p.k0L i j + p.k0L j i + sym p.kLL i j + sym p.kG i j) * d j) + t ^ 2 * R t i)
    (t : K) (i : Nat) :
    fint n p.k0 fNL (fun j => c j + t * d j) i =
      fint n p.k0 fNL c i + t * sumTo n (fun j => kT p true true i j * d j) + t ^ 2 * R t i := by
  unfold fint
  rw [hJ t i]
  have e1 : sumTo n (fun j => p.k0 i j * (c j + t * d j)) =
      sumTo n (fun j => p.k0 i j * c j) + t * sumTo n (fun j => p.k0 i j * d j) := by
    rw [← sumTo_mul, ← sumTo_add]; congr 1; funext j; ring
  have e2 : sumTo n (fun j => kT p true true i j * d j) =
      sumTo n (fun j => p.k0 i j * d j)
        + sumTo n (fun j => (p.k0L i j + p.k0L j i + sym p.kLL i j + sym p.kG i j) * d j) := by
    rw [← sumTo_add]; congr 1; funext j; unfold kT; simp only [if_true]; ring
  rw [e1, e2]; ring

/-- The internal force of the undeformed perfect shell is zero as soon as the kernel part vanishes there. -/
theorem fint_zero (n : Nat) (k0 : Mat K) (fNL : Vec K → Vec K) (h : ∀ i, fNL (fun _ => 0) i = 0) (i : Nat) :
    fint n k0 fNL (fun _ => 0) i = 0 := by
  unfold fint
  rw [h i, zero_add]
  unfold sumTo
  simp only [mul_zero]
  induction n with
  | zero => simp
  | succ n ih => rw [List.range_succ, List.map_append, List.sum_append, ih]; simp

/-- `fint − k0·c` is exactly the kernel part (so `fint → k0·c` as the non-linear part vanishes). -/
theorem fint_minus_linear (n : Nat) (k0 : Mat K) (fNL : Vec K → Vec K) (c : Vec K) (i : Nat) :
    fint n k0 fNL c i - sumTo n (fun j => k0 i j * c j) = fNL c i := by
  unfold fint; ring

/-- `calc_kT(c, inc)` and `calc_fint(c, inc)` evaluate the kernels at the SAME full vector `calc_full_c(c, inc)` (prescribed
amplitudes scaled by the load level): the tangent belongs to the state whose internal force is computed. -/
theorem tangent_and_force_same_state (E : List Nat) (inc : K) (c : Vec K) : kTState E inc c = fintState E inc c := rfl

/-- at full load the state is `c` itself -/
theorem state_at_full_load (E : List Nat) (c : Vec K) : kTState E (1 : K) c = c := by
  funext i; unfold kTState fullC; split_ifs <;> simp

/-! Non-vacuity -/
example : integratev (fun x y => x + y) (trapz2dPoints (0 : ℚ) 1 3 0 1 2) 4 =
    quad (trapz2dPoints (0 : ℚ) 1 3 0 1 2) (fun x y => x + y) :=
  integratev_thread_invariant_trapz _ _ _ _ _ _ _ 4 (by norm_num)


/-! ## Stage 2 — the regenerated kernels -/

section Stage2
open Compmech.Gen.ConeCylNL

variable {K : Type} [Field K] [CharZero K]

/-! #### clpt_donnell_bc1 -/

/-- `clpt_donnell_bc1`: with no amplitudes the integrand of every component of `calc_fint_0L_L0_LL` vanishes at every point — for every
geometry, laminate and imperfection (`castro = 0`: the imperfection enters only multiplied by amplitudes). -/
theorem shell_fint_zero_clpt_donnell_bc1 (G : Geo K) (hL : G.L ≠ 0) (hr : G.r ≠ 0) (hc : G.cosa ≠ 0) (A : Fin 12) (a : Dof K) :
    fintAt (ClptDonnellBc1.model K) G [] A a = 0 :=
  Generic.fint_zero (ShellJacobian.ClptDonnellBc1.ok G hL hr hc) (ShellJacobian.ClptDonnellBc1.eLc_zero G) A a

/-- `clpt_donnell_bc1`: at ANY state `cs` (any list of amplitudes with the point values of their degrees of freedom), along ANY direction
`ds`, the integrand of the internal-force component of ANY degree of freedom `(A, a)` is a cubic in the step `t` whose linear
coefficient is the integrand of `(k0L + k0Lᵀ + kLL + kG)[(A, a), ·]` applied to `ds` — the regenerated tangent integrand is the
exact derivative of the regenerated internal-force integrand, for all values of the point variables (`L, r, cos α ≠ 0`). -/
theorem shell_kT_is_jacobian_clpt_donnell_bc1 (G : Geo K) (hL : G.L ≠ 0) (hr : G.r ≠ 0) (hc : G.cosa ≠ 0) (cs ds : List (Amp 12 K)) (A : Fin 12) (a : Dof K) :
    ∃ R₂ R₃ : K, ∀ t : K,
      fintAt (ClptDonnellBc1.model K) G (cs ++ ds.map (Amp.scale t)) A a =
        fintAt (ClptDonnellBc1.model K) G cs A a + t * (ds.map fun d => d.c * kTAt (ClptDonnellBc1.model K) G cs A a d.ty d.d).sum
          + t ^ 2 * R₂ + t ^ 3 * R₃ :=
  Generic.kT_is_jacobian (ShellJacobian.ClptDonnellBc1.ok G hL hr hc) cs ds A trivial (fun _ _ => Or.inl trivial) a

/-- `clpt_donnell_bc1`: the tangent integrand with the roles of the two degrees of freedom exchanged is the same number. -/
theorem shell_kT_integrand_symm_clpt_donnell_bc1 (G : Geo K) (hL : G.L ≠ 0) (hr : G.r ≠ 0) (hc : G.cosa ≠ 0) (cs : List (Amp 12 K)) (A B : Fin 12) (a b : Dof K) :
    kTAt (ClptDonnellBc1.model K) G cs A a B b = kTAt (ClptDonnellBc1.model K) G cs B b A a :=
  Generic.kT_symm (ShellJacobian.ClptDonnellBc1.ok G hL hr hc) cs A B trivial trivial a b

/-! #### clpt_donnell_bc2 -/

/-- `clpt_donnell_bc2`: with no amplitudes the integrand of every component of `calc_fint_0L_L0_LL` vanishes at every point — for every
geometry, laminate and imperfection (`castro = 0`: the imperfection enters only multiplied by amplitudes). -/
theorem shell_fint_zero_clpt_donnell_bc2 (G : Geo K) (hL : G.L ≠ 0) (hr : G.r ≠ 0) (hc : G.cosa ≠ 0) (A : Fin 12) (a : Dof K) :
    fintAt (ClptDonnellBc2.model K) G [] A a = 0 :=
  Generic.fint_zero (ShellJacobian.ClptDonnellBc2.ok G hL hr hc) (ShellJacobian.ClptDonnellBc2.eLc_zero G) A a

/-- `clpt_donnell_bc2`: at ANY state `cs` (any list of amplitudes with the point values of their degrees of freedom), along ANY direction
`ds`, the integrand of the internal-force component of ANY degree of freedom `(A, a)` is a cubic in the step `t` whose linear
coefficient is the integrand of `(k0L + k0Lᵀ + kLL + kG)[(A, a), ·]` applied to `ds` — the regenerated tangent integrand is the
exact derivative of the regenerated internal-force integrand, for all values of the point variables (`L, r, cos α ≠ 0`). -/
theorem shell_kT_is_jacobian_clpt_donnell_bc2 (G : Geo K) (hL : G.L ≠ 0) (hr : G.r ≠ 0) (hc : G.cosa ≠ 0) (cs ds : List (Amp 12 K)) (A : Fin 12) (a : Dof K) :
    ∃ R₂ R₃ : K, ∀ t : K,
      fintAt (ClptDonnellBc2.model K) G (cs ++ ds.map (Amp.scale t)) A a =
        fintAt (ClptDonnellBc2.model K) G cs A a + t * (ds.map fun d => d.c * kTAt (ClptDonnellBc2.model K) G cs A a d.ty d.d).sum
          + t ^ 2 * R₂ + t ^ 3 * R₃ :=
  Generic.kT_is_jacobian (ShellJacobian.ClptDonnellBc2.ok G hL hr hc) cs ds A trivial (fun _ _ => Or.inl trivial) a

/-- `clpt_donnell_bc2`: the tangent integrand with the roles of the two degrees of freedom exchanged is the same number. -/
theorem shell_kT_integrand_symm_clpt_donnell_bc2 (G : Geo K) (hL : G.L ≠ 0) (hr : G.r ≠ 0) (hc : G.cosa ≠ 0) (cs : List (Amp 12 K)) (A B : Fin 12) (a b : Dof K) :
    kTAt (ClptDonnellBc2.model K) G cs A a B b = kTAt (ClptDonnellBc2.model K) G cs B b A a :=
  Generic.kT_symm (ShellJacobian.ClptDonnellBc2.ok G hL hr hc) cs A B trivial trivial a b

/-! #### clpt_donnell_bc3 -/

/-- `clpt_donnell_bc3`: with no amplitudes the integrand of every component of `calc_fint_0L_L0_LL` vanishes at every point — for every
geometry, laminate and imperfection (`castro = 0`: the imperfection enters only multiplied by amplitudes). -/
theorem shell_fint_zero_clpt_donnell_bc3 (G : Geo K) (hL : G.L ≠ 0) (hr : G.r ≠ 0) (hc : G.cosa ≠ 0) (A : Fin 12) (a : Dof K) :
    fintAt (ClptDonnellBc3.model K) G [] A a = 0 :=
  Generic.fint_zero (ShellJacobian.ClptDonnellBc3.ok G hL hr hc) (ShellJacobian.ClptDonnellBc3.eLc_zero G) A a

/-- `clpt_donnell_bc3`: at ANY state `cs` (any list of amplitudes with the point values of their degrees of freedom), along ANY direction
`ds`, the integrand of the internal-force component of ANY degree of freedom `(A, a)` is a cubic in the step `t` whose linear
coefficient is the integrand of `(k0L + k0Lᵀ + kLL + kG)[(A, a), ·]` applied to `ds` — the regenerated tangent integrand is the
exact derivative of the regenerated internal-force integrand, for all values of the point variables (`L, r, cos α ≠ 0`). -/
theorem shell_kT_is_jacobian_clpt_donnell_bc3 (G : Geo K) (hL : G.L ≠ 0) (hr : G.r ≠ 0) (hc : G.cosa ≠ 0) (cs ds : List (Amp 12 K)) (A : Fin 12) (a : Dof K) :
    ∃ R₂ R₃ : K, ∀ t : K,
      fintAt (ClptDonnellBc3.model K) G (cs ++ ds.map (Amp.scale t)) A a =
        fintAt (ClptDonnellBc3.model K) G cs A a + t * (ds.map fun d => d.c * kTAt (ClptDonnellBc3.model K) G cs A a d.ty d.d).sum
          + t ^ 2 * R₂ + t ^ 3 * R₃ :=
  Generic.kT_is_jacobian (ShellJacobian.ClptDonnellBc3.ok G hL hr hc) cs ds A trivial (fun _ _ => Or.inl trivial) a

/-- `clpt_donnell_bc3`: the tangent integrand with the roles of the two degrees of freedom exchanged is the same number. -/
theorem shell_kT_integrand_symm_clpt_donnell_bc3 (G : Geo K) (hL : G.L ≠ 0) (hr : G.r ≠ 0) (hc : G.cosa ≠ 0) (cs : List (Amp 12 K)) (A B : Fin 12) (a b : Dof K) :
    kTAt (ClptDonnellBc3.model K) G cs A a B b = kTAt (ClptDonnellBc3.model K) G cs B b A a :=
  Generic.kT_symm (ShellJacobian.ClptDonnellBc3.ok G hL hr hc) cs A B trivial trivial a b

/-! #### clpt_donnell_bc4 -/

/-- `clpt_donnell_bc4`: with no amplitudes the integrand of every component of `calc_fint_0L_L0_LL` vanishes at every point — for every
geometry, laminate and imperfection (`castro = 0`: the imperfection enters only multiplied by amplitudes). -/
theorem shell_fint_zero_clpt_donnell_bc4 (G : Geo K) (hL : G.L ≠ 0) (hr : G.r ≠ 0) (hc : G.cosa ≠ 0) (A : Fin 12) (a : Dof K) :
    fintAt (ClptDonnellBc4.model K) G [] A a = 0 :=
  Generic.fint_zero (ShellJacobian.ClptDonnellBc4.ok G hL hr hc) (ShellJacobian.ClptDonnellBc4.eLc_zero G) A a

/-- `clpt_donnell_bc4`: at ANY state `cs` (any list of amplitudes with the point values of their degrees of freedom), along ANY direction
`ds`, the integrand of the internal-force component of ANY degree of freedom `(A, a)` is a cubic in the step `t` whose linear
coefficient is the integrand of `(k0L + k0Lᵀ + kLL + kG)[(A, a), ·]` applied to `ds` — the regenerated tangent integrand is the
exact derivative of the regenerated internal-force integrand, for all values of the point variables (`L, r, cos α ≠ 0`). -/
theorem shell_kT_is_jacobian_clpt_donnell_bc4 (G : Geo K) (hL : G.L ≠ 0) (hr : G.r ≠ 0) (hc : G.cosa ≠ 0) (cs ds : List (Amp 12 K)) (A : Fin 12) (a : Dof K) :
    ∃ R₂ R₃ : K, ∀ t : K,
      fintAt (ClptDonnellBc4.model K) G (cs ++ ds.map (Amp.scale t)) A a =
        fintAt (ClptDonnellBc4.model K) G cs A a + t * (ds.map fun d => d.c * kTAt (ClptDonnellBc4.model K) G cs A a d.ty d.d).sum
          + t ^ 2 * R₂ + t ^ 3 * R₃ :=
  Generic.kT_is_jacobian (ShellJacobian.ClptDonnellBc4.ok G hL hr hc) cs ds A trivial (fun _ _ => Or.inl trivial) a

/-- `clpt_donnell_bc4`: the tangent integrand with the roles of the two degrees of freedom exchanged is the same number. -/
theorem shell_kT_integrand_symm_clpt_donnell_bc4 (G : Geo K) (hL : G.L ≠ 0) (hr : G.r ≠ 0) (hc : G.cosa ≠ 0) (cs : List (Amp 12 K)) (A B : Fin 12) (a b : Dof K) :
    kTAt (ClptDonnellBc4.model K) G cs A a B b = kTAt (ClptDonnellBc4.model K) G cs B b A a :=
  Generic.kT_symm (ShellJacobian.ClptDonnellBc4.ok G hL hr hc) cs A B trivial trivial a b

/-! #### iso_clpt_donnell_bc2 -/

/-- `iso_clpt_donnell_bc2`: with no amplitudes the integrand of every component of `calc_fint_0L_L0_LL` vanishes at every point — for every
geometry, laminate and imperfection (`castro = 0`: the imperfection enters only multiplied by amplitudes).  The laminate is the isotropic one `conecyl.py` builds (`IsoLam`), `ν ≠ ±1`. -/
theorem shell_fint_zero_iso_clpt_donnell_bc2 (G : Geo K) (hL : G.L ≠ 0) (hr : G.r ≠ 0) (hc : G.cosa ≠ 0) (hi : G.IsoLam) (hn1 : G.nu + 1 ≠ 0) (hn2 : G.nu - 1 ≠ 0) (A : Fin 12) (a : Dof K) :
    fintAt (IsoClptDonnellBc2.model K) G [] A a = 0 :=
  Generic.fint_zero (ShellJacobian.IsoClptDonnellBc2.ok G hL hr hc hi hn1 hn2) (ShellJacobian.IsoClptDonnellBc2.eLc_zero G) A a

/-- `iso_clpt_donnell_bc2`: at ANY state `cs` (any list of amplitudes with the point values of their degrees of freedom), along ANY direction
`ds`, the integrand of the internal-force component of ANY degree of freedom `(A, a)` is a cubic in the step `t` whose linear
coefficient is the integrand of `(k0L + k0Lᵀ + kLL + kG)[(A, a), ·]` applied to `ds` — the regenerated tangent integrand is the
exact derivative of the regenerated internal-force integrand, for all values of the point variables (`L, r, cos α ≠ 0`).  The laminate is the isotropic one `conecyl.py` builds (`IsoLam`), `ν ≠ ±1`. -/
theorem shell_kT_is_jacobian_iso_clpt_donnell_bc2 (G : Geo K) (hL : G.L ≠ 0) (hr : G.r ≠ 0) (hc : G.cosa ≠ 0) (hi : G.IsoLam) (hn1 : G.nu + 1 ≠ 0) (hn2 : G.nu - 1 ≠ 0) (cs ds : List (Amp 12 K)) (A : Fin 12) (a : Dof K) :
    ∃ R₂ R₃ : K, ∀ t : K,
      fintAt (IsoClptDonnellBc2.model K) G (cs ++ ds.map (Amp.scale t)) A a =
        fintAt (IsoClptDonnellBc2.model K) G cs A a + t * (ds.map fun d => d.c * kTAt (IsoClptDonnellBc2.model K) G cs A a d.ty d.d).sum
          + t ^ 2 * R₂ + t ^ 3 * R₃ :=
  Generic.kT_is_jacobian (ShellJacobian.IsoClptDonnellBc2.ok G hL hr hc hi hn1 hn2) cs ds A trivial (fun _ _ => Or.inl trivial) a

/-- `iso_clpt_donnell_bc2`: the tangent integrand with the roles of the two degrees of freedom exchanged is the same number. -/
theorem shell_kT_integrand_symm_iso_clpt_donnell_bc2 (G : Geo K) (hL : G.L ≠ 0) (hr : G.r ≠ 0) (hc : G.cosa ≠ 0) (hi : G.IsoLam) (hn1 : G.nu + 1 ≠ 0) (hn2 : G.nu - 1 ≠ 0) (cs : List (Amp 12 K)) (A B : Fin 12) (a b : Dof K) :
    kTAt (IsoClptDonnellBc2.model K) G cs A a B b = kTAt (IsoClptDonnellBc2.model K) G cs B b A a :=
  Generic.kT_symm (ShellJacobian.IsoClptDonnellBc2.ok G hL hr hc hi hn1 hn2) cs A B trivial trivial a b

/-! #### iso_clpt_donnell_bc3 -/

/-- `iso_clpt_donnell_bc3`: with no amplitudes the integrand of every component of `calc_fint_0L_L0_LL` vanishes at every point — for every
geometry, laminate and imperfection (`castro = 0`: the imperfection enters only multiplied by amplitudes).  The laminate is the isotropic one `conecyl.py` builds (`IsoLam`), `ν ≠ ±1`. -/
theorem shell_fint_zero_iso_clpt_donnell_bc3 (G : Geo K) (hL : G.L ≠ 0) (hr : G.r ≠ 0) (hc : G.cosa ≠ 0) (hi : G.IsoLam) (hn1 : G.nu + 1 ≠ 0) (hn2 : G.nu - 1 ≠ 0) (A : Fin 12) (a : Dof K) :
    fintAt (IsoClptDonnellBc3.model K) G [] A a = 0 :=
  Generic.fint_zero (ShellJacobian.IsoClptDonnellBc3.ok G hL hr hc hi hn1 hn2) (ShellJacobian.IsoClptDonnellBc3.eLc_zero G) A a

/-- `iso_clpt_donnell_bc3`: at ANY state `cs` (any list of amplitudes with the point values of their degrees of freedom), along ANY direction
`ds`, the integrand of the internal-force component of ANY degree of freedom `(A, a)` is a cubic in the step `t` whose linear
coefficient is the integrand of `(k0L + k0Lᵀ + kLL + kG)[(A, a), ·]` applied to `ds` — the regenerated tangent integrand is the
exact derivative of the regenerated internal-force integrand, for all values of the point variables (`L, r, cos α ≠ 0`).  The laminate is the isotropic one `conecyl.py` builds (`IsoLam`), `ν ≠ ±1`. -/
theorem shell_kT_is_jacobian_iso_clpt_donnell_bc3 (G : Geo K) (hL : G.L ≠ 0) (hr : G.r ≠ 0) (hc : G.cosa ≠ 0) (hi : G.IsoLam) (hn1 : G.nu + 1 ≠ 0) (hn2 : G.nu - 1 ≠ 0) (cs ds : List (Amp 12 K)) (A : Fin 12) (a : Dof K) :
    ∃ R₂ R₃ : K, ∀ t : K,
      fintAt (IsoClptDonnellBc3.model K) G (cs ++ ds.map (Amp.scale t)) A a =
        fintAt (IsoClptDonnellBc3.model K) G cs A a + t * (ds.map fun d => d.c * kTAt (IsoClptDonnellBc3.model K) G cs A a d.ty d.d).sum
          + t ^ 2 * R₂ + t ^ 3 * R₃ :=
  Generic.kT_is_jacobian (ShellJacobian.IsoClptDonnellBc3.ok G hL hr hc hi hn1 hn2) cs ds A trivial (fun _ _ => Or.inl trivial) a

/-- `iso_clpt_donnell_bc3`: the tangent integrand with the roles of the two degrees of freedom exchanged is the same number. -/
theorem shell_kT_integrand_symm_iso_clpt_donnell_bc3 (G : Geo K) (hL : G.L ≠ 0) (hr : G.r ≠ 0) (hc : G.cosa ≠ 0) (hi : G.IsoLam) (hn1 : G.nu + 1 ≠ 0) (hn2 : G.nu - 1 ≠ 0) (cs : List (Amp 12 K)) (A B : Fin 12) (a b : Dof K) :
    kTAt (IsoClptDonnellBc3.model K) G cs A a B b = kTAt (IsoClptDonnellBc3.model K) G cs B b A a :=
  Generic.kT_symm (ShellJacobian.IsoClptDonnellBc3.ok G hL hr hc hi hn1 hn2) cs A B trivial trivial a b

/-! #### clpt_sanders_bc1 -/

/-- `clpt_sanders_bc1`: with no amplitudes the integrand of every component of `calc_fint_0L_L0_LL` vanishes at every point — for every
geometry, laminate and imperfection (`castro = 0`: the imperfection enters only multiplied by amplitudes). -/
theorem shell_fint_zero_clpt_sanders_bc1 (G : Geo K) (hL : G.L ≠ 0) (hr : G.r ≠ 0) (hc : G.cosa ≠ 0) (A : Fin 12) (a : Dof K) :
    fintAt (ClptSandersBc1.model K) G [] A a = 0 :=
  Generic.fint_zero (ShellJacobian.ClptSandersBc1.ok G hL hr hc) (ShellJacobian.ClptSandersBc1.eLc_zero G) A a

/-- `clpt_sanders_bc1`: at ANY state `cs` (any list of amplitudes with the point values of their degrees of freedom), along ANY direction
`ds`, the integrand of the internal-force component of ANY degree of freedom `(A, a)` is a cubic in the step `t` whose linear
coefficient is the integrand of `(k0L + k0Lᵀ + kLL + kG)[(A, a), ·]` applied to `ds` — the regenerated tangent integrand is the
exact derivative of the regenerated internal-force integrand, for all values of the point variables (`L, r, cos α ≠ 0`).
PARTIAL: all degree-of-freedom types except type 2, the load-asymmetry amplitude `c[2]` (always prescribed: `conecyl.py` refuses
`pdLA = False`), as row and as direction; for row 2 see `…_counterexample`. -/
theorem shell_kT_is_jacobian_clpt_sanders_bc1_partial (G : Geo K) (hL : G.L ≠ 0) (hr : G.r ≠ 0) (hc : G.cosa ≠ 0) (cs ds : List (Amp 12 K)) (A : Fin 12) (hA : A ≠ 2) (hds : ∀ d ∈ ds, d.ty ≠ 2 ∨ d.c = 0) (a : Dof K) :
    ∃ R₂ R₃ : K, ∀ t : K,
      fintAt (ClptSandersBc1.model K) G (cs ++ ds.map (Amp.scale t)) A a =
        fintAt (ClptSandersBc1.model K) G cs A a + t * (ds.map fun d => d.c * kTAt (ClptSandersBc1.model K) G cs A a d.ty d.d).sum
          + t ^ 2 * R₂ + t ^ 3 * R₃ :=
  Generic.kT_is_jacobian (ShellJacobian.ClptSandersBc1.ok G hL hr hc) cs ds A hA hds a

/-- `clpt_sanders_bc1`: the tangent integrand with the roles of the two degrees of freedom exchanged is the same number.
PARTIAL: all degree-of-freedom types except type 2, the load-asymmetry amplitude `c[2]` (always prescribed: `conecyl.py` refuses
`pdLA = False`), for both degrees of freedom. -/
theorem shell_kT_integrand_symm_clpt_sanders_bc1_partial (G : Geo K) (hL : G.L ≠ 0) (hr : G.r ≠ 0) (hc : G.cosa ≠ 0) (cs : List (Amp 12 K)) (A B : Fin 12) (hA : A ≠ 2) (hB : B ≠ 2) (a b : Dof K) :
    kTAt (ClptSandersBc1.model K) G cs A a B b = kTAt (ClptSandersBc1.model K) G cs B b A a :=
  Generic.kT_symm (ShellJacobian.ClptSandersBc1.ok G hL hr hc) cs A B hA hB a b

/-! #### clpt_sanders_bc2 -/

/-- `clpt_sanders_bc2`: with no amplitudes the integrand of every component of `calc_fint_0L_L0_LL` vanishes at every point — for every
geometry, laminate and imperfection (`castro = 0`: the imperfection enters only multiplied by amplitudes). -/
theorem shell_fint_zero_clpt_sanders_bc2 (G : Geo K) (hL : G.L ≠ 0) (hr : G.r ≠ 0) (hc : G.cosa ≠ 0) (A : Fin 12) (a : Dof K) :
    fintAt (ClptSandersBc2.model K) G [] A a = 0 :=
  Generic.fint_zero (ShellJacobian.ClptSandersBc2.ok G hL hr hc) (ShellJacobian.ClptSandersBc2.eLc_zero G) A a

/-- `clpt_sanders_bc2`: at ANY state `cs` (any list of amplitudes with the point values of their degrees of freedom), along ANY direction
`ds`, the integrand of the internal-force component of ANY degree of freedom `(A, a)` is a cubic in the step `t` whose linear
coefficient is the integrand of `(k0L + k0Lᵀ + kLL + kG)[(A, a), ·]` applied to `ds` — the regenerated tangent integrand is the
exact derivative of the regenerated internal-force integrand, for all values of the point variables (`L, r, cos α ≠ 0`).
PARTIAL: all degree-of-freedom types except type 2, the load-asymmetry amplitude `c[2]` (always prescribed: `conecyl.py` refuses
`pdLA = False`), as row and as direction; for row 2 see `…_counterexample`. -/
theorem shell_kT_is_jacobian_clpt_sanders_bc2_partial (G : Geo K) (hL : G.L ≠ 0) (hr : G.r ≠ 0) (hc : G.cosa ≠ 0) (cs ds : List (Amp 12 K)) (A : Fin 12) (hA : A ≠ 2) (hds : ∀ d ∈ ds, d.ty ≠ 2 ∨ d.c = 0) (a : Dof K) :
    ∃ R₂ R₃ : K, ∀ t : K,
      fintAt (ClptSandersBc2.model K) G (cs ++ ds.map (Amp.scale t)) A a =
        fintAt (ClptSandersBc2.model K) G cs A a + t * (ds.map fun d => d.c * kTAt (ClptSandersBc2.model K) G cs A a d.ty d.d).sum
          + t ^ 2 * R₂ + t ^ 3 * R₃ :=
  Generic.kT_is_jacobian (ShellJacobian.ClptSandersBc2.ok G hL hr hc) cs ds A hA hds a

/-- `clpt_sanders_bc2`: the tangent integrand with the roles of the two degrees of freedom exchanged is the same number.
PARTIAL: all degree-of-freedom types except type 2, the load-asymmetry amplitude `c[2]` (always prescribed: `conecyl.py` refuses
`pdLA = False`), for both degrees of freedom. -/
theorem shell_kT_integrand_symm_clpt_sanders_bc2_partial (G : Geo K) (hL : G.L ≠ 0) (hr : G.r ≠ 0) (hc : G.cosa ≠ 0) (cs : List (Amp 12 K)) (A B : Fin 12) (hA : A ≠ 2) (hB : B ≠ 2) (a b : Dof K) :
    kTAt (ClptSandersBc2.model K) G cs A a B b = kTAt (ClptSandersBc2.model K) G cs B b A a :=
  Generic.kT_symm (ShellJacobian.ClptSandersBc2.ok G hL hr hc) cs A B hA hB a b

/-! #### clpt_sanders_bc3 -/

/-- `clpt_sanders_bc3`: with no amplitudes the integrand of every component of `calc_fint_0L_L0_LL` vanishes at every point — for every
geometry, laminate and imperfection (`castro = 0`: the imperfection enters only multiplied by amplitudes). -/
theorem shell_fint_zero_clpt_sanders_bc3 (G : Geo K) (hL : G.L ≠ 0) (hr : G.r ≠ 0) (hc : G.cosa ≠ 0) (A : Fin 12) (a : Dof K) :
    fintAt (ClptSandersBc3.model K) G [] A a = 0 :=
  Generic.fint_zero (ShellJacobian.ClptSandersBc3.ok G hL hr hc) (ShellJacobian.ClptSandersBc3.eLc_zero G) A a

/-- `clpt_sanders_bc3`: at ANY state `cs` (any list of amplitudes with the point values of their degrees of freedom), along ANY direction
`ds`, the integrand of the internal-force component of ANY degree of freedom `(A, a)` is a cubic in the step `t` whose linear
coefficient is the integrand of `(k0L + k0Lᵀ + kLL + kG)[(A, a), ·]` applied to `ds` — the regenerated tangent integrand is the
exact derivative of the regenerated internal-force integrand, for all values of the point variables (`L, r, cos α ≠ 0`).
PARTIAL: all degree-of-freedom types except type 2, the load-asymmetry amplitude `c[2]` (always prescribed: `conecyl.py` refuses
`pdLA = False`), as row and as direction; for row 2 see `…_counterexample`. -/
theorem shell_kT_is_jacobian_clpt_sanders_bc3_partial (G : Geo K) (hL : G.L ≠ 0) (hr : G.r ≠ 0) (hc : G.cosa ≠ 0) (cs ds : List (Amp 12 K)) (A : Fin 12) (hA : A ≠ 2) (hds : ∀ d ∈ ds, d.ty ≠ 2 ∨ d.c = 0) (a : Dof K) :
    ∃ R₂ R₃ : K, ∀ t : K,
      fintAt (ClptSandersBc3.model K) G (cs ++ ds.map (Amp.scale t)) A a =
        fintAt (ClptSandersBc3.model K) G cs A a + t * (ds.map fun d => d.c * kTAt (ClptSandersBc3.model K) G cs A a d.ty d.d).sum
          + t ^ 2 * R₂ + t ^ 3 * R₃ :=
  Generic.kT_is_jacobian (ShellJacobian.ClptSandersBc3.ok G hL hr hc) cs ds A hA hds a

/-- `clpt_sanders_bc3`: the tangent integrand with the roles of the two degrees of freedom exchanged is the same number.
PARTIAL: all degree-of-freedom types except type 2, the load-asymmetry amplitude `c[2]` (always prescribed: `conecyl.py` refuses
`pdLA = False`), for both degrees of freedom. -/
theorem shell_kT_integrand_symm_clpt_sanders_bc3_partial (G : Geo K) (hL : G.L ≠ 0) (hr : G.r ≠ 0) (hc : G.cosa ≠ 0) (cs : List (Amp 12 K)) (A B : Fin 12) (hA : A ≠ 2) (hB : B ≠ 2) (a b : Dof K) :
    kTAt (ClptSandersBc3.model K) G cs A a B b = kTAt (ClptSandersBc3.model K) G cs B b A a :=
  Generic.kT_symm (ShellJacobian.ClptSandersBc3.ok G hL hr hc) cs A B hA hB a b

/-! #### clpt_sanders_bc4 -/

/-- `clpt_sanders_bc4`: with no amplitudes the integrand of every component of `calc_fint_0L_L0_LL` vanishes at every point — for every
geometry, laminate and imperfection (`castro = 0`: the imperfection enters only multiplied by amplitudes). -/
theorem shell_fint_zero_clpt_sanders_bc4 (G : Geo K) (hL : G.L ≠ 0) (hr : G.r ≠ 0) (hc : G.cosa ≠ 0) (A : Fin 12) (a : Dof K) :
    fintAt (ClptSandersBc4.model K) G [] A a = 0 :=
  Generic.fint_zero (ShellJacobian.ClptSandersBc4.ok G hL hr hc) (ShellJacobian.ClptSandersBc4.eLc_zero G) A a

/-- `clpt_sanders_bc4`: at ANY state `cs` (any list of amplitudes with the point values of their degrees of freedom), along ANY direction
`ds`, the integrand of the internal-force component of ANY degree of freedom `(A, a)` is a cubic in the step `t` whose linear
coefficient is the integrand of `(k0L + k0Lᵀ + kLL + kG)[(A, a), ·]` applied to `ds` — the regenerated tangent integrand is the
exact derivative of the regenerated internal-force integrand, for all values of the point variables (`L, r, cos α ≠ 0`).
PARTIAL: all degree-of-freedom types except type 2, the load-asymmetry amplitude `c[2]` (always prescribed: `conecyl.py` refuses
`pdLA = False`), as row and as direction; for row 2 see `…_counterexample`. -/
theorem shell_kT_is_jacobian_clpt_sanders_bc4_partial (G : Geo K) (hL : G.L ≠ 0) (hr : G.r ≠ 0) (hc : G.cosa ≠ 0) (cs ds : List (Amp 12 K)) (A : Fin 12) (hA : A ≠ 2) (hds : ∀ d ∈ ds, d.ty ≠ 2 ∨ d.c = 0) (a : Dof K) :
    ∃ R₂ R₃ : K, ∀ t : K,
      fintAt (ClptSandersBc4.model K) G (cs ++ ds.map (Amp.scale t)) A a =
        fintAt (ClptSandersBc4.model K) G cs A a + t * (ds.map fun d => d.c * kTAt (ClptSandersBc4.model K) G cs A a d.ty d.d).sum
          + t ^ 2 * R₂ + t ^ 3 * R₃ :=
  Generic.kT_is_jacobian (ShellJacobian.ClptSandersBc4.ok G hL hr hc) cs ds A hA hds a

/-- `clpt_sanders_bc4`: the tangent integrand with the roles of the two degrees of freedom exchanged is the same number.
PARTIAL: all degree-of-freedom types except type 2, the load-asymmetry amplitude `c[2]` (always prescribed: `conecyl.py` refuses
`pdLA = False`), for both degrees of freedom. -/
theorem shell_kT_integrand_symm_clpt_sanders_bc4_partial (G : Geo K) (hL : G.L ≠ 0) (hr : G.r ≠ 0) (hc : G.cosa ≠ 0) (cs : List (Amp 12 K)) (A B : Fin 12) (hA : A ≠ 2) (hB : B ≠ 2) (a b : Dof K) :
    kTAt (ClptSandersBc4.model K) G cs A a B b = kTAt (ClptSandersBc4.model K) G cs B b A a :=
  Generic.kT_symm (ShellJacobian.ClptSandersBc4.ok G hL hr hc) cs A B hA hB a b

/-- `clpt_donnell_bc1`, MATRIX LEVEL: for the amplitude layout of the sources (any `m1, m2, n2`), any integration points, any point
geometry / laminate / imperfection and any values of the trigonometric factors, the tangent `kT = k0 + k0L + k0Lᵀ + kLL + kG`
that `_calc_NL_matrices` forms from the kernel outputs at the state `c` is the Jacobian of `fint = fint_NL + k0·c`:
`fint(c + t·d) = fint(c) + t·kT(c)·d + t²·R(t)`.  This discharges the hypothesis `hJ` of `tangent_is_jacobian_glue`
(kernel outputs modelled by `k0Lmat`, `kLLmat`, `kGmat`, `fNLq`: quadrature of the regenerated integrands at the positions
of the regenerated schema). -/
theorem shell_tangent_is_jacobian_clpt_donnell_bc1 (m1 m2 n2 : Nat) (geo : K → K → Geo K) (sinx cosx sint cost : Nat → K → K)
    (pts : List (Pt K)) (hgeo : ∀ p ∈ pts, (geo p.x p.y).L ≠ 0 ∧ (geo p.x p.y).r ≠ 0 ∧ (geo p.x p.y).cosa ≠ 0)
    (k0 : Mat K) (c d : Vec K) :
    ∃ R : K → Vec K, ∀ (t : K) (i : Nat), fint (stdAsm m1 m2 n2 geo sinx cosx sint cost ClptDonnellBc1.schema_k0L ClptDonnellBc1.schema_kLL ClptDonnellBc1.schema_kG).n k0 (fNLq (ClptDonnellBc1.model K) (stdAsm m1 m2 n2 geo sinx cosx sint cost ClptDonnellBc1.schema_k0L ClptDonnellBc1.schema_kLL ClptDonnellBc1.schema_kG).toLayout pts) (fun j => c j + t * d j) i =
        fint (stdAsm m1 m2 n2 geo sinx cosx sint cost ClptDonnellBc1.schema_k0L ClptDonnellBc1.schema_kLL ClptDonnellBc1.schema_kG).n k0 (fNLq (ClptDonnellBc1.model K) (stdAsm m1 m2 n2 geo sinx cosx sint cost ClptDonnellBc1.schema_k0L ClptDonnellBc1.schema_kLL ClptDonnellBc1.schema_kG).toLayout pts) c i
          + t * sumTo (stdAsm m1 m2 n2 geo sinx cosx sint cost ClptDonnellBc1.schema_k0L ClptDonnellBc1.schema_kLL ClptDonnellBc1.schema_kG).n (fun j => kT (asmParts (ClptDonnellBc1.model K) (stdAsm m1 m2 n2 geo sinx cosx sint cost ClptDonnellBc1.schema_k0L ClptDonnellBc1.schema_kLL ClptDonnellBc1.schema_kG) pts k0 c) true true i j * d j)
          + t ^ 2 * R t i := by
  obtain ⟨R, hR⟩ := tangent_is_jacobian_assembled (ClptDonnellBc1.model K) (stdAsm m1 m2 n2 geo sinx cosx sint cost ClptDonnellBc1.schema_k0L ClptDonnellBc1.schema_kLL ClptDonnellBc1.schema_kG) pts ShellJacobian.ClptDonnellBc1.good
    (fun p hp => ShellJacobian.ClptDonnellBc1.ok _ (hgeo p hp).1 (hgeo p hp).2.1 (hgeo p hp).2.2)
    (stdAsm_ok _ ShellJacobian.ClptDonnellBc1.cls_eq _ _ _ _ _ _ _ _ _ _ _) (skipOf_false _ ShellJacobian.ClptDonnellBc1.k0L_noskip) k0 c d (fun _ => Or.inl trivial)
  exact ⟨R, fun t i => hR t i trivial⟩

/-- `clpt_donnell_bc2`, MATRIX LEVEL: for the amplitude layout of the sources (any `m1, m2, n2`), any integration points, any point
geometry / laminate / imperfection and any values of the trigonometric factors, the tangent `kT = k0 + k0L + k0Lᵀ + kLL + kG`
that `_calc_NL_matrices` forms from the kernel outputs at the state `c` is the Jacobian of `fint = fint_NL + k0·c`:
`fint(c + t·d) = fint(c) + t·kT(c)·d + t²·R(t)`.  This discharges the hypothesis `hJ` of `tangent_is_jacobian_glue`
(kernel outputs modelled by `k0Lmat`, `kLLmat`, `kGmat`, `fNLq`: quadrature of the regenerated integrands at the positions
of the regenerated schema). -/
theorem shell_tangent_is_jacobian_clpt_donnell_bc2 (m1 m2 n2 : Nat) (geo : K → K → Geo K) (sinx cosx sint cost : Nat → K → K)
    (pts : List (Pt K)) (hgeo : ∀ p ∈ pts, (geo p.x p.y).L ≠ 0 ∧ (geo p.x p.y).r ≠ 0 ∧ (geo p.x p.y).cosa ≠ 0)
    (k0 : Mat K) (c d : Vec K) :
    ∃ R : K → Vec K, ∀ (t : K) (i : Nat), fint (stdAsm m1 m2 n2 geo sinx cosx sint cost ClptDonnellBc2.schema_k0L ClptDonnellBc2.schema_kLL ClptDonnellBc2.schema_kG).n k0 (fNLq (ClptDonnellBc2.model K) (stdAsm m1 m2 n2 geo sinx cosx sint cost ClptDonnellBc2.schema_k0L ClptDonnellBc2.schema_kLL ClptDonnellBc2.schema_kG).toLayout pts) (fun j => c j + t * d j) i =
        fint (stdAsm m1 m2 n2 geo sinx cosx sint cost ClptDonnellBc2.schema_k0L ClptDonnellBc2.schema_kLL ClptDonnellBc2.schema_kG).n k0 (fNLq (ClptDonnellBc2.model K) (stdAsm m1 m2 n2 geo sinx cosx sint cost ClptDonnellBc2.schema_k0L ClptDonnellBc2.schema_kLL ClptDonnellBc2.schema_kG).toLayout pts) c i
          + t * sumTo (stdAsm m1 m2 n2 geo sinx cosx sint cost ClptDonnellBc2.schema_k0L ClptDonnellBc2.schema_kLL ClptDonnellBc2.schema_kG).n (fun j => kT (asmParts (ClptDonnellBc2.model K) (stdAsm m1 m2 n2 geo sinx cosx sint cost ClptDonnellBc2.schema_k0L ClptDonnellBc2.schema_kLL ClptDonnellBc2.schema_kG) pts k0 c) true true i j * d j)
          + t ^ 2 * R t i := by
  obtain ⟨R, hR⟩ := tangent_is_jacobian_assembled (ClptDonnellBc2.model K) (stdAsm m1 m2 n2 geo sinx cosx sint cost ClptDonnellBc2.schema_k0L ClptDonnellBc2.schema_kLL ClptDonnellBc2.schema_kG) pts ShellJacobian.ClptDonnellBc2.good
    (fun p hp => ShellJacobian.ClptDonnellBc2.ok _ (hgeo p hp).1 (hgeo p hp).2.1 (hgeo p hp).2.2)
    (stdAsm_ok _ ShellJacobian.ClptDonnellBc2.cls_eq _ _ _ _ _ _ _ _ _ _ _) (skipOf_false _ ShellJacobian.ClptDonnellBc2.k0L_noskip) k0 c d (fun _ => Or.inl trivial)
  exact ⟨R, fun t i => hR t i trivial⟩

/-- `clpt_donnell_bc3`, MATRIX LEVEL: for the amplitude layout of the sources (any `m1, m2, n2`), any integration points, any point
geometry / laminate / imperfection and any values of the trigonometric factors, the tangent `kT = k0 + k0L + k0Lᵀ + kLL + kG`
that `_calc_NL_matrices` forms from the kernel outputs at the state `c` is the Jacobian of `fint = fint_NL + k0·c`:
`fint(c + t·d) = fint(c) + t·kT(c)·d + t²·R(t)`.  This discharges the hypothesis `hJ` of `tangent_is_jacobian_glue`
(kernel outputs modelled by `k0Lmat`, `kLLmat`, `kGmat`, `fNLq`: quadrature of the regenerated integrands at the positions
of the regenerated schema). -/
theorem shell_tangent_is_jacobian_clpt_donnell_bc3 (m1 m2 n2 : Nat) (geo : K → K → Geo K) (sinx cosx sint cost : Nat → K → K)
    (pts : List (Pt K)) (hgeo : ∀ p ∈ pts, (geo p.x p.y).L ≠ 0 ∧ (geo p.x p.y).r ≠ 0 ∧ (geo p.x p.y).cosa ≠ 0)
    (k0 : Mat K) (c d : Vec K) :
    ∃ R : K → Vec K, ∀ (t : K) (i : Nat), fint (stdAsm m1 m2 n2 geo sinx cosx sint cost ClptDonnellBc3.schema_k0L ClptDonnellBc3.schema_kLL ClptDonnellBc3.schema_kG).n k0 (fNLq (ClptDonnellBc3.model K) (stdAsm m1 m2 n2 geo sinx cosx sint cost ClptDonnellBc3.schema_k0L ClptDonnellBc3.schema_kLL ClptDonnellBc3.schema_kG).toLayout pts) (fun j => c j + t * d j) i =
        fint (stdAsm m1 m2 n2 geo sinx cosx sint cost ClptDonnellBc3.schema_k0L ClptDonnellBc3.schema_kLL ClptDonnellBc3.schema_kG).n k0 (fNLq (ClptDonnellBc3.model K) (stdAsm m1 m2 n2 geo sinx cosx sint cost ClptDonnellBc3.schema_k0L ClptDonnellBc3.schema_kLL ClptDonnellBc3.schema_kG).toLayout pts) c i
          + t * sumTo (stdAsm m1 m2 n2 geo sinx cosx sint cost ClptDonnellBc3.schema_k0L ClptDonnellBc3.schema_kLL ClptDonnellBc3.schema_kG).n (fun j => kT (asmParts (ClptDonnellBc3.model K) (stdAsm m1 m2 n2 geo sinx cosx sint cost ClptDonnellBc3.schema_k0L ClptDonnellBc3.schema_kLL ClptDonnellBc3.schema_kG) pts k0 c) true true i j * d j)
          + t ^ 2 * R t i := by
  obtain ⟨R, hR⟩ := tangent_is_jacobian_assembled (ClptDonnellBc3.model K) (stdAsm m1 m2 n2 geo sinx cosx sint cost ClptDonnellBc3.schema_k0L ClptDonnellBc3.schema_kLL ClptDonnellBc3.schema_kG) pts ShellJacobian.ClptDonnellBc3.good
    (fun p hp => ShellJacobian.ClptDonnellBc3.ok _ (hgeo p hp).1 (hgeo p hp).2.1 (hgeo p hp).2.2)
    (stdAsm_ok _ ShellJacobian.ClptDonnellBc3.cls_eq _ _ _ _ _ _ _ _ _ _ _) (skipOf_false _ ShellJacobian.ClptDonnellBc3.k0L_noskip) k0 c d (fun _ => Or.inl trivial)
  exact ⟨R, fun t i => hR t i trivial⟩

/-- `clpt_donnell_bc4`, MATRIX LEVEL: for the amplitude layout of the sources (any `m1, m2, n2`), any integration points, any point
geometry / laminate / imperfection and any values of the trigonometric factors, the tangent `kT = k0 + k0L + k0Lᵀ + kLL + kG`
that `_calc_NL_matrices` forms from the kernel outputs at the state `c` is the Jacobian of `fint = fint_NL + k0·c`:
`fint(c + t·d) = fint(c) + t·kT(c)·d + t²·R(t)`.  This discharges the hypothesis `hJ` of `tangent_is_jacobian_glue`
(kernel outputs modelled by `k0Lmat`, `kLLmat`, `kGmat`, `fNLq`: quadrature of the regenerated integrands at the positions
of the regenerated schema). -/
theorem shell_tangent_is_jacobian_clpt_donnell_bc4 (m1 m2 n2 : Nat) (geo : K → K → Geo K) (sinx cosx sint cost : Nat → K → K)
    (pts : List (Pt K)) (hgeo : ∀ p ∈ pts, (geo p.x p.y).L ≠ 0 ∧ (geo p.x p.y).r ≠ 0 ∧ (geo p.x p.y).cosa ≠ 0)
    (k0 : Mat K) (c d : Vec K) :
    ∃ R : K → Vec K, ∀ (t : K) (i : Nat), fint (stdAsm m1 m2 n2 geo sinx cosx sint cost ClptDonnellBc4.schema_k0L ClptDonnellBc4.schema_kLL ClptDonnellBc4.schema_kG).n k0 (fNLq (ClptDonnellBc4.model K) (stdAsm m1 m2 n2 geo sinx cosx sint cost ClptDonnellBc4.schema_k0L ClptDonnellBc4.schema_kLL ClptDonnellBc4.schema_kG).toLayout pts) (fun j => c j + t * d j) i =
        fint (stdAsm m1 m2 n2 geo sinx cosx sint cost ClptDonnellBc4.schema_k0L ClptDonnellBc4.schema_kLL ClptDonnellBc4.schema_kG).n k0 (fNLq (ClptDonnellBc4.model K) (stdAsm m1 m2 n2 geo sinx cosx sint cost ClptDonnellBc4.schema_k0L ClptDonnellBc4.schema_kLL ClptDonnellBc4.schema_kG).toLayout pts) c i
          + t * sumTo (stdAsm m1 m2 n2 geo sinx cosx sint cost ClptDonnellBc4.schema_k0L ClptDonnellBc4.schema_kLL ClptDonnellBc4.schema_kG).n (fun j => kT (asmParts (ClptDonnellBc4.model K) (stdAsm m1 m2 n2 geo sinx cosx sint cost ClptDonnellBc4.schema_k0L ClptDonnellBc4.schema_kLL ClptDonnellBc4.schema_kG) pts k0 c) true true i j * d j)
          + t ^ 2 * R t i := by
  obtain ⟨R, hR⟩ := tangent_is_jacobian_assembled (ClptDonnellBc4.model K) (stdAsm m1 m2 n2 geo sinx cosx sint cost ClptDonnellBc4.schema_k0L ClptDonnellBc4.schema_kLL ClptDonnellBc4.schema_kG) pts ShellJacobian.ClptDonnellBc4.good
    (fun p hp => ShellJacobian.ClptDonnellBc4.ok _ (hgeo p hp).1 (hgeo p hp).2.1 (hgeo p hp).2.2)
    (stdAsm_ok _ ShellJacobian.ClptDonnellBc4.cls_eq _ _ _ _ _ _ _ _ _ _ _) (skipOf_false _ ShellJacobian.ClptDonnellBc4.k0L_noskip) k0 c d (fun _ => Or.inl trivial)
  exact ⟨R, fun t i => hR t i trivial⟩

/-- `iso_clpt_donnell_bc2`, MATRIX LEVEL: for the amplitude layout of the sources (any `m1, m2, n2`), any integration points, any point
geometry / laminate / imperfection and any values of the trigonometric factors, the tangent `kT = k0 + k0L + k0Lᵀ + kLL + kG`
that `_calc_NL_matrices` forms from the kernel outputs at the state `c` is the Jacobian of `fint = fint_NL + k0·c`:
`fint(c + t·d) = fint(c) + t·kT(c)·d + t²·R(t)`.  This discharges the hypothesis `hJ` of `tangent_is_jacobian_glue`
(kernel outputs modelled by `k0Lmat`, `kLLmat`, `kGmat`, `fNLq`: quadrature of the regenerated integrands at the positions
of the regenerated schema). -/
theorem shell_tangent_is_jacobian_iso_clpt_donnell_bc2 (m1 m2 n2 : Nat) (geo : K → K → Geo K) (sinx cosx sint cost : Nat → K → K)
    (pts : List (Pt K)) (hgeo : ∀ p ∈ pts, (geo p.x p.y).L ≠ 0 ∧ (geo p.x p.y).r ≠ 0 ∧ (geo p.x p.y).cosa ≠ 0 ∧ (geo p.x p.y).IsoLam ∧ (geo p.x p.y).nu + 1 ≠ 0 ∧ (geo p.x p.y).nu - 1 ≠ 0)
    (k0 : Mat K) (c d : Vec K) :
    ∃ R : K → Vec K, ∀ (t : K) (i : Nat), fint (stdAsm m1 m2 n2 geo sinx cosx sint cost IsoClptDonnellBc2.schema_k0L IsoClptDonnellBc2.schema_kLL IsoClptDonnellBc2.schema_kG).n k0 (fNLq (IsoClptDonnellBc2.model K) (stdAsm m1 m2 n2 geo sinx cosx sint cost IsoClptDonnellBc2.schema_k0L IsoClptDonnellBc2.schema_kLL IsoClptDonnellBc2.schema_kG).toLayout pts) (fun j => c j + t * d j) i =
        fint (stdAsm m1 m2 n2 geo sinx cosx sint cost IsoClptDonnellBc2.schema_k0L IsoClptDonnellBc2.schema_kLL IsoClptDonnellBc2.schema_kG).n k0 (fNLq (IsoClptDonnellBc2.model K) (stdAsm m1 m2 n2 geo sinx cosx sint cost IsoClptDonnellBc2.schema_k0L IsoClptDonnellBc2.schema_kLL IsoClptDonnellBc2.schema_kG).toLayout pts) c i
          + t * sumTo (stdAsm m1 m2 n2 geo sinx cosx sint cost IsoClptDonnellBc2.schema_k0L IsoClptDonnellBc2.schema_kLL IsoClptDonnellBc2.schema_kG).n (fun j => kT (asmParts (IsoClptDonnellBc2.model K) (stdAsm m1 m2 n2 geo sinx cosx sint cost IsoClptDonnellBc2.schema_k0L IsoClptDonnellBc2.schema_kLL IsoClptDonnellBc2.schema_kG) pts k0 c) true true i j * d j)
          + t ^ 2 * R t i := by
  obtain ⟨R, hR⟩ := tangent_is_jacobian_assembled (IsoClptDonnellBc2.model K) (stdAsm m1 m2 n2 geo sinx cosx sint cost IsoClptDonnellBc2.schema_k0L IsoClptDonnellBc2.schema_kLL IsoClptDonnellBc2.schema_kG) pts ShellJacobian.IsoClptDonnellBc2.good
    (fun p hp => ShellJacobian.IsoClptDonnellBc2.ok _ (hgeo p hp).1 (hgeo p hp).2.1 (hgeo p hp).2.2.1 (hgeo p hp).2.2.2.1 (hgeo p hp).2.2.2.2.1 (hgeo p hp).2.2.2.2.2)
    (stdAsm_ok _ ShellJacobian.IsoClptDonnellBc2.cls_eq _ _ _ _ _ _ _ _ _ _ _) (skipOf_false _ ShellJacobian.IsoClptDonnellBc2.k0L_noskip) k0 c d (fun _ => Or.inl trivial)
  exact ⟨R, fun t i => hR t i trivial⟩

/-- `iso_clpt_donnell_bc3`, MATRIX LEVEL: for the amplitude layout of the sources (any `m1, m2, n2`), any integration points, any point
geometry / laminate / imperfection and any values of the trigonometric factors, the tangent `kT = k0 + k0L + k0Lᵀ + kLL + kG`
that `_calc_NL_matrices` forms from the kernel outputs at the state `c` is the Jacobian of `fint = fint_NL + k0·c`:
`fint(c + t·d) = fint(c) + t·kT(c)·d + t²·R(t)`.  This discharges the hypothesis `hJ` of `tangent_is_jacobian_glue`
(kernel outputs modelled by `k0Lmat`, `kLLmat`, `kGmat`, `fNLq`: quadrature of the regenerated integrands at the positions
of the regenerated schema). -/
theorem shell_tangent_is_jacobian_iso_clpt_donnell_bc3 (m1 m2 n2 : Nat) (geo : K → K → Geo K) (sinx cosx sint cost : Nat → K → K)
    (pts : List (Pt K)) (hgeo : ∀ p ∈ pts, (geo p.x p.y).L ≠ 0 ∧ (geo p.x p.y).r ≠ 0 ∧ (geo p.x p.y).cosa ≠ 0 ∧ (geo p.x p.y).IsoLam ∧ (geo p.x p.y).nu + 1 ≠ 0 ∧ (geo p.x p.y).nu - 1 ≠ 0)
    (k0 : Mat K) (c d : Vec K) :
    ∃ R : K → Vec K, ∀ (t : K) (i : Nat), fint (stdAsm m1 m2 n2 geo sinx cosx sint cost IsoClptDonnellBc3.schema_k0L IsoClptDonnellBc3.schema_kLL IsoClptDonnellBc3.schema_kG).n k0 (fNLq (IsoClptDonnellBc3.model K) (stdAsm m1 m2 n2 geo sinx cosx sint cost IsoClptDonnellBc3.schema_k0L IsoClptDonnellBc3.schema_kLL IsoClptDonnellBc3.schema_kG).toLayout pts) (fun j => c j + t * d j) i =
        fint (stdAsm m1 m2 n2 geo sinx cosx sint cost IsoClptDonnellBc3.schema_k0L IsoClptDonnellBc3.schema_kLL IsoClptDonnellBc3.schema_kG).n k0 (fNLq (IsoClptDonnellBc3.model K) (stdAsm m1 m2 n2 geo sinx cosx sint cost IsoClptDonnellBc3.schema_k0L IsoClptDonnellBc3.schema_kLL IsoClptDonnellBc3.schema_kG).toLayout pts) c i
          + t * sumTo (stdAsm m1 m2 n2 geo sinx cosx sint cost IsoClptDonnellBc3.schema_k0L IsoClptDonnellBc3.schema_kLL IsoClptDonnellBc3.schema_kG).n (fun j => kT (asmParts (IsoClptDonnellBc3.model K) (stdAsm m1 m2 n2 geo sinx cosx sint cost IsoClptDonnellBc3.schema_k0L IsoClptDonnellBc3.schema_kLL IsoClptDonnellBc3.schema_kG) pts k0 c) true true i j * d j)
          + t ^ 2 * R t i := by
  obtain ⟨R, hR⟩ := tangent_is_jacobian_assembled (IsoClptDonnellBc3.model K) (stdAsm m1 m2 n2 geo sinx cosx sint cost IsoClptDonnellBc3.schema_k0L IsoClptDonnellBc3.schema_kLL IsoClptDonnellBc3.schema_kG) pts ShellJacobian.IsoClptDonnellBc3.good
    (fun p hp => ShellJacobian.IsoClptDonnellBc3.ok _ (hgeo p hp).1 (hgeo p hp).2.1 (hgeo p hp).2.2.1 (hgeo p hp).2.2.2.1 (hgeo p hp).2.2.2.2.1 (hgeo p hp).2.2.2.2.2)
    (stdAsm_ok _ ShellJacobian.IsoClptDonnellBc3.cls_eq _ _ _ _ _ _ _ _ _ _ _) (skipOf_false _ ShellJacobian.IsoClptDonnellBc3.k0L_noskip) k0 c d (fun _ => Or.inl trivial)
  exact ⟨R, fun t i => hR t i trivial⟩

/-- `clpt_sanders_bc1`, MATRIX LEVEL: for the amplitude layout of the sources (any `m1, m2, n2`), any integration points, any point
geometry / laminate / imperfection and any values of the trigonometric factors, the tangent `kT = k0 + k0L + k0Lᵀ + kLL + kG`
that `_calc_NL_matrices` forms from the kernel outputs at the state `c` is the Jacobian of `fint = fint_NL + k0·c`:
`fint(c + t·d) = fint(c) + t·kT(c)·d + t²·R(t)`.  This discharges the hypothesis `hJ` of `tangent_is_jacobian_glue`
(kernel outputs modelled by `k0Lmat`, `kLLmat`, `kGmat`, `fNLq`: quadrature of the regenerated integrands at the positions
of the regenerated schema).
PARTIAL: components and directions of all types except the always-prescribed load-asymmetry amplitude (global index 2). -/
theorem shell_tangent_is_jacobian_clpt_sanders_bc1_partial (m1 m2 n2 : Nat) (geo : K → K → Geo K) (sinx cosx sint cost : Nat → K → K)
    (pts : List (Pt K)) (hgeo : ∀ p ∈ pts, (geo p.x p.y).L ≠ 0 ∧ (geo p.x p.y).r ≠ 0 ∧ (geo p.x p.y).cosa ≠ 0)
    (k0 : Mat K) (c d : Vec K) (hd : ∀ j, stdTy m1 j ≠ 2 ∨ d j = 0) :
    ∃ R : K → Vec K, ∀ (t : K) (i : Nat), stdTy m1 i ≠ 2 →
      fint (stdAsm m1 m2 n2 geo sinx cosx sint cost ClptSandersBc1.schema_k0L ClptSandersBc1.schema_kLL ClptSandersBc1.schema_kG).n k0 (fNLq (ClptSandersBc1.model K) (stdAsm m1 m2 n2 geo sinx cosx sint cost ClptSandersBc1.schema_k0L ClptSandersBc1.schema_kLL ClptSandersBc1.schema_kG).toLayout pts) (fun j => c j + t * d j) i =
        fint (stdAsm m1 m2 n2 geo sinx cosx sint cost ClptSandersBc1.schema_k0L ClptSandersBc1.schema_kLL ClptSandersBc1.schema_kG).n k0 (fNLq (ClptSandersBc1.model K) (stdAsm m1 m2 n2 geo sinx cosx sint cost ClptSandersBc1.schema_k0L ClptSandersBc1.schema_kLL ClptSandersBc1.schema_kG).toLayout pts) c i
          + t * sumTo (stdAsm m1 m2 n2 geo sinx cosx sint cost ClptSandersBc1.schema_k0L ClptSandersBc1.schema_kLL ClptSandersBc1.schema_kG).n (fun j => kT (asmParts (ClptSandersBc1.model K) (stdAsm m1 m2 n2 geo sinx cosx sint cost ClptSandersBc1.schema_k0L ClptSandersBc1.schema_kLL ClptSandersBc1.schema_kG) pts k0 c) true true i j * d j)
          + t ^ 2 * R t i := by
  obtain ⟨R, hR⟩ := tangent_is_jacobian_assembled (ClptSandersBc1.model K) (stdAsm m1 m2 n2 geo sinx cosx sint cost ClptSandersBc1.schema_k0L ClptSandersBc1.schema_kLL ClptSandersBc1.schema_kG) pts ShellJacobian.ClptSandersBc1.good
    (fun p hp => ShellJacobian.ClptSandersBc1.ok _ (hgeo p hp).1 (hgeo p hp).2.1 (hgeo p hp).2.2)
    (stdAsm_ok _ ShellJacobian.ClptSandersBc1.cls_eq _ _ _ _ _ _ _ _ _ _ _) (skipOf_false _ ShellJacobian.ClptSandersBc1.k0L_noskip) k0 c d hd
  exact ⟨R, fun t i hi => hR t i hi⟩

/-- `clpt_sanders_bc3`, MATRIX LEVEL: for the amplitude layout of the sources (any `m1, m2, n2`), any integration points, any point
geometry / laminate / imperfection and any values of the trigonometric factors, the tangent `kT = k0 + k0L + k0Lᵀ + kLL + kG`
that `_calc_NL_matrices` forms from the kernel outputs at the state `c` is the Jacobian of `fint = fint_NL + k0·c`:
`fint(c + t·d) = fint(c) + t·kT(c)·d + t²·R(t)`.  This discharges the hypothesis `hJ` of `tangent_is_jacobian_glue`
(kernel outputs modelled by `k0Lmat`, `kLLmat`, `kGmat`, `fNLq`: quadrature of the regenerated integrands at the positions
of the regenerated schema).
PARTIAL: components and directions of all types except the always-prescribed load-asymmetry amplitude (global index 2); and `kGmat` is evaluated at the
resultants `N₀ + N_L` of `cffint`, which is NOT what `cfN` of `clpt_commons_bc3` hands to `cfkG` (`shell_kernel_inputs_clpt_sanders_bc3_counterexample`). -/
theorem shell_tangent_is_jacobian_clpt_sanders_bc3_partial (m1 m2 n2 : Nat) (geo : K → K → Geo K) (sinx cosx sint cost : Nat → K → K)
    (pts : List (Pt K)) (hgeo : ∀ p ∈ pts, (geo p.x p.y).L ≠ 0 ∧ (geo p.x p.y).r ≠ 0 ∧ (geo p.x p.y).cosa ≠ 0)
    (k0 : Mat K) (c d : Vec K) (hd : ∀ j, stdTy m1 j ≠ 2 ∨ d j = 0) :
    ∃ R : K → Vec K, ∀ (t : K) (i : Nat), stdTy m1 i ≠ 2 →
      fint (stdAsm m1 m2 n2 geo sinx cosx sint cost ClptSandersBc3.schema_k0L ClptSandersBc3.schema_kLL ClptSandersBc3.schema_kG).n k0 (fNLq (ClptSandersBc3.model K) (stdAsm m1 m2 n2 geo sinx cosx sint cost ClptSandersBc3.schema_k0L ClptSandersBc3.schema_kLL ClptSandersBc3.schema_kG).toLayout pts) (fun j => c j + t * d j) i =
        fint (stdAsm m1 m2 n2 geo sinx cosx sint cost ClptSandersBc3.schema_k0L ClptSandersBc3.schema_kLL ClptSandersBc3.schema_kG).n k0 (fNLq (ClptSandersBc3.model K) (stdAsm m1 m2 n2 geo sinx cosx sint cost ClptSandersBc3.schema_k0L ClptSandersBc3.schema_kLL ClptSandersBc3.schema_kG).toLayout pts) c i
          + t * sumTo (stdAsm m1 m2 n2 geo sinx cosx sint cost ClptSandersBc3.schema_k0L ClptSandersBc3.schema_kLL ClptSandersBc3.schema_kG).n (fun j => kT (asmParts (ClptSandersBc3.model K) (stdAsm m1 m2 n2 geo sinx cosx sint cost ClptSandersBc3.schema_k0L ClptSandersBc3.schema_kLL ClptSandersBc3.schema_kG) pts k0 c) true true i j * d j)
          + t ^ 2 * R t i := by
  obtain ⟨R, hR⟩ := tangent_is_jacobian_assembled (ClptSandersBc3.model K) (stdAsm m1 m2 n2 geo sinx cosx sint cost ClptSandersBc3.schema_k0L ClptSandersBc3.schema_kLL ClptSandersBc3.schema_kG) pts ShellJacobian.ClptSandersBc3.good
    (fun p hp => ShellJacobian.ClptSandersBc3.ok _ (hgeo p hp).1 (hgeo p hp).2.1 (hgeo p hp).2.2)
    (stdAsm_ok _ ShellJacobian.ClptSandersBc3.cls_eq _ _ _ _ _ _ _ _ _ _ _) (skipOf_false _ ShellJacobian.ClptSandersBc3.k0L_noskip) k0 c d hd
  exact ⟨R, fun t i hi => hR t i hi⟩

/-- `clpt_sanders_bc4`, MATRIX LEVEL: for the amplitude layout of the sources (any `m1, m2, n2`), any integration points, any point
geometry / laminate / imperfection and any values of the trigonometric factors, the tangent `kT = k0 + k0L + k0Lᵀ + kLL + kG`
that `_calc_NL_matrices` forms from the kernel outputs at the state `c` is the Jacobian of `fint = fint_NL + k0·c`:
`fint(c + t·d) = fint(c) + t·kT(c)·d + t²·R(t)`.  This discharges the hypothesis `hJ` of `tangent_is_jacobian_glue`
(kernel outputs modelled by `k0Lmat`, `kLLmat`, `kGmat`, `fNLq`: quadrature of the regenerated integrands at the positions
of the regenerated schema).
PARTIAL: components and directions of all types except the always-prescribed load-asymmetry amplitude (global index 2). -/
theorem shell_tangent_is_jacobian_clpt_sanders_bc4_partial (m1 m2 n2 : Nat) (geo : K → K → Geo K) (sinx cosx sint cost : Nat → K → K)
    (pts : List (Pt K)) (hgeo : ∀ p ∈ pts, (geo p.x p.y).L ≠ 0 ∧ (geo p.x p.y).r ≠ 0 ∧ (geo p.x p.y).cosa ≠ 0)
    (k0 : Mat K) (c d : Vec K) (hd : ∀ j, stdTy m1 j ≠ 2 ∨ d j = 0) :
    ∃ R : K → Vec K, ∀ (t : K) (i : Nat), stdTy m1 i ≠ 2 →
      fint (stdAsm m1 m2 n2 geo sinx cosx sint cost ClptSandersBc4.schema_k0L ClptSandersBc4.schema_kLL ClptSandersBc4.schema_kG).n k0 (fNLq (ClptSandersBc4.model K) (stdAsm m1 m2 n2 geo sinx cosx sint cost ClptSandersBc4.schema_k0L ClptSandersBc4.schema_kLL ClptSandersBc4.schema_kG).toLayout pts) (fun j => c j + t * d j) i =
        fint (stdAsm m1 m2 n2 geo sinx cosx sint cost ClptSandersBc4.schema_k0L ClptSandersBc4.schema_kLL ClptSandersBc4.schema_kG).n k0 (fNLq (ClptSandersBc4.model K) (stdAsm m1 m2 n2 geo sinx cosx sint cost ClptSandersBc4.schema_k0L ClptSandersBc4.schema_kLL ClptSandersBc4.schema_kG).toLayout pts) c i
          + t * sumTo (stdAsm m1 m2 n2 geo sinx cosx sint cost ClptSandersBc4.schema_k0L ClptSandersBc4.schema_kLL ClptSandersBc4.schema_kG).n (fun j => kT (asmParts (ClptSandersBc4.model K) (stdAsm m1 m2 n2 geo sinx cosx sint cost ClptSandersBc4.schema_k0L ClptSandersBc4.schema_kLL ClptSandersBc4.schema_kG) pts k0 c) true true i j * d j)
          + t ^ 2 * R t i := by
  obtain ⟨R, hR⟩ := tangent_is_jacobian_assembled (ClptSandersBc4.model K) (stdAsm m1 m2 n2 geo sinx cosx sint cost ClptSandersBc4.schema_k0L ClptSandersBc4.schema_kLL ClptSandersBc4.schema_kG) pts ShellJacobian.ClptSandersBc4.good
    (fun p hp => ShellJacobian.ClptSandersBc4.ok _ (hgeo p hp).1 (hgeo p hp).2.1 (hgeo p hp).2.2)
    (stdAsm_ok _ ShellJacobian.ClptSandersBc4.cls_eq _ _ _ _ _ _ _ _ _ _ _) (skipOf_false _ ShellJacobian.ClptSandersBc4.k0L_noskip) k0 c d hd
  exact ⟨R, fun t i hi => hR t i hi⟩

/-- `clpt_donnell_bc1`: the matrix kernels are fed the state of `cffint` — the slopes `cfwx`, `cfwt` of `the commons module` return for `cfk0L` / `cfkLL`
and the membrane resultants `cfN` returns for `cfkG` are, at any amplitudes, the slopes and `N₀ + N_L` that `cffint` accumulates. -/
theorem shell_kernel_inputs_clpt_donnell_bc1 (G : Geo K) (hL : G.L ≠ 0) (hr : G.r ≠ 0) (hc : G.cosa ≠ 0) (cs : List (Amp 12 K)) :
    (ClptDonnellBc1.commons.cmodel K).slopesAt G cs = slopesOf (ClptDonnellBc1.model K) G cs ∧
      (ClptDonnellBc1.commons.cmodel K).resGAt G cs = (resOf (ClptDonnellBc1.model K) G cs).toG :=
  ⟨Generic.commons_slopes (ShellJacobian.ClptDonnellBc1.cok G hL hr hc) cs,
   Generic.commons_resG (ShellJacobian.ClptDonnellBc1.ok G hL hr hc) (ShellJacobian.ClptDonnellBc1.cok G hL hr hc) cs⟩

/-- `clpt_donnell_bc2`: the matrix kernels are fed the state of `cffint` — the slopes `cfwx`, `cfwt` of `the commons module` return for `cfk0L` / `cfkLL`
and the membrane resultants `cfN` returns for `cfkG` are, at any amplitudes, the slopes and `N₀ + N_L` that `cffint` accumulates. -/
theorem shell_kernel_inputs_clpt_donnell_bc2 (G : Geo K) (hL : G.L ≠ 0) (hr : G.r ≠ 0) (hc : G.cosa ≠ 0) (cs : List (Amp 12 K)) :
    (ClptDonnellBc2.commons.cmodel K).slopesAt G cs = slopesOf (ClptDonnellBc2.model K) G cs ∧
      (ClptDonnellBc2.commons.cmodel K).resGAt G cs = (resOf (ClptDonnellBc2.model K) G cs).toG :=
  ⟨Generic.commons_slopes (ShellJacobian.ClptDonnellBc2.cok G hL hr hc) cs,
   Generic.commons_resG (ShellJacobian.ClptDonnellBc2.ok G hL hr hc) (ShellJacobian.ClptDonnellBc2.cok G hL hr hc) cs⟩

/-- `clpt_donnell_bc3`: the matrix kernels are fed the state of `cffint` — the slopes `cfwx`, `cfwt` of `the commons module` return for `cfk0L` / `cfkLL`
and the membrane resultants `cfN` returns for `cfkG` are, at any amplitudes, the slopes and `N₀ + N_L` that `cffint` accumulates. -/
theorem shell_kernel_inputs_clpt_donnell_bc3 (G : Geo K) (hL : G.L ≠ 0) (hr : G.r ≠ 0) (hc : G.cosa ≠ 0) (cs : List (Amp 12 K)) :
    (ClptDonnellBc3.commons.cmodel K).slopesAt G cs = slopesOf (ClptDonnellBc3.model K) G cs ∧
      (ClptDonnellBc3.commons.cmodel K).resGAt G cs = (resOf (ClptDonnellBc3.model K) G cs).toG :=
  ⟨Generic.commons_slopes (ShellJacobian.ClptDonnellBc3.cok G hL hr hc) cs,
   Generic.commons_resG (ShellJacobian.ClptDonnellBc3.ok G hL hr hc) (ShellJacobian.ClptDonnellBc3.cok G hL hr hc) cs⟩

/-- `clpt_donnell_bc4`: the matrix kernels are fed the state of `cffint` — the slopes `cfwx`, `cfwt` of `the commons module` return for `cfk0L` / `cfkLL`
and the membrane resultants `cfN` returns for `cfkG` are, at any amplitudes, the slopes and `N₀ + N_L` that `cffint` accumulates. -/
theorem shell_kernel_inputs_clpt_donnell_bc4 (G : Geo K) (hL : G.L ≠ 0) (hr : G.r ≠ 0) (hc : G.cosa ≠ 0) (cs : List (Amp 12 K)) :
    (ClptDonnellBc4.commons.cmodel K).slopesAt G cs = slopesOf (ClptDonnellBc4.model K) G cs ∧
      (ClptDonnellBc4.commons.cmodel K).resGAt G cs = (resOf (ClptDonnellBc4.model K) G cs).toG :=
  ⟨Generic.commons_slopes (ShellJacobian.ClptDonnellBc4.cok G hL hr hc) cs,
   Generic.commons_resG (ShellJacobian.ClptDonnellBc4.ok G hL hr hc) (ShellJacobian.ClptDonnellBc4.cok G hL hr hc) cs⟩

/-- `iso_clpt_donnell_bc2`: the matrix kernels are fed the state of `cffint` — the slopes `cfwx`, `cfwt` of `the commons module` return for `cfk0L` / `cfkLL`
and the membrane resultants `cfN` returns for `cfkG` are, at any amplitudes, the slopes and `N₀ + N_L` that `cffint` accumulates. -/
theorem shell_kernel_inputs_iso_clpt_donnell_bc2 (G : Geo K) (hL : G.L ≠ 0) (hr : G.r ≠ 0) (hc : G.cosa ≠ 0) (hi : G.IsoLam) (hn1 : G.nu + 1 ≠ 0) (hn2 : G.nu - 1 ≠ 0) (cs : List (Amp 12 K)) :
    (IsoClptDonnellBc2.commons.cmodel K).slopesAt G cs = slopesOf (IsoClptDonnellBc2.model K) G cs ∧
      (IsoClptDonnellBc2.commons.cmodel K).resGAt G cs = (resOf (IsoClptDonnellBc2.model K) G cs).toG :=
  ⟨Generic.commons_slopes (ShellJacobian.IsoClptDonnellBc2.cok G hL hr hc) cs,
   Generic.commons_resG (ShellJacobian.IsoClptDonnellBc2.ok G hL hr hc hi hn1 hn2) (ShellJacobian.IsoClptDonnellBc2.cok G hL hr hc) cs⟩

/-- `iso_clpt_donnell_bc3`: the matrix kernels are fed the state of `cffint` — the slopes `cfwx`, `cfwt` of `the commons module` return for `cfk0L` / `cfkLL`
and the membrane resultants `cfN` returns for `cfkG` are, at any amplitudes, the slopes and `N₀ + N_L` that `cffint` accumulates. -/
theorem shell_kernel_inputs_iso_clpt_donnell_bc3 (G : Geo K) (hL : G.L ≠ 0) (hr : G.r ≠ 0) (hc : G.cosa ≠ 0) (hi : G.IsoLam) (hn1 : G.nu + 1 ≠ 0) (hn2 : G.nu - 1 ≠ 0) (cs : List (Amp 12 K)) :
    (IsoClptDonnellBc3.commons.cmodel K).slopesAt G cs = slopesOf (IsoClptDonnellBc3.model K) G cs ∧
      (IsoClptDonnellBc3.commons.cmodel K).resGAt G cs = (resOf (IsoClptDonnellBc3.model K) G cs).toG :=
  ⟨Generic.commons_slopes (ShellJacobian.IsoClptDonnellBc3.cok G hL hr hc) cs,
   Generic.commons_resG (ShellJacobian.IsoClptDonnellBc3.ok G hL hr hc hi hn1 hn2) (ShellJacobian.IsoClptDonnellBc3.cok G hL hr hc) cs⟩

/-- `clpt_sanders_bc1`: the matrix kernels are fed the state of `cffint` — the slopes `cfwx`, `cfwt`, `cfv` of `the commons module` return for `cfk0L` / `cfkLL`
and the membrane resultants `cfN` returns for `cfkG` are, at any amplitudes, the slopes and `N₀ + N_L` that `cffint` accumulates. -/
theorem shell_kernel_inputs_clpt_sanders_bc1 (G : Geo K) (hL : G.L ≠ 0) (hr : G.r ≠ 0) (hc : G.cosa ≠ 0) (cs : List (Amp 12 K)) :
    (ClptSandersBc1.commons.cmodel K).slopesAt G cs = slopesOf (ClptSandersBc1.model K) G cs ∧
      (ClptSandersBc1.commons.cmodel K).resGAt G cs = (resOf (ClptSandersBc1.model K) G cs).toG :=
  ⟨Generic.commons_slopes (ShellJacobian.ClptSandersBc1.cok G hL hr hc) cs,
   Generic.commons_resG (ShellJacobian.ClptSandersBc1.ok G hL hr hc) (ShellJacobian.ClptSandersBc1.cok G hL hr hc) cs⟩

/-- `clpt_sanders_bc2`: the matrix kernels are fed the state of `cffint` — the slopes `cfwx`, `cfwt`, `cfv` of `the commons module` return for `cfk0L` / `cfkLL`
and the membrane resultants `cfN` returns for `cfkG` are, at any amplitudes, the slopes and `N₀ + N_L` that `cffint` accumulates. -/
theorem shell_kernel_inputs_clpt_sanders_bc2 (G : Geo K) (hL : G.L ≠ 0) (hr : G.r ≠ 0) (hc : G.cosa ≠ 0) (cs : List (Amp 12 K)) :
    (ClptSandersBc2.commons.cmodel K).slopesAt G cs = slopesOf (ClptSandersBc2.model K) G cs ∧
      (ClptSandersBc2.commons.cmodel K).resGAt G cs = (resOf (ClptSandersBc2.model K) G cs).toG :=
  ⟨Generic.commons_slopes (ShellJacobian.ClptSandersBc2.cok G hL hr hc) cs,
   Generic.commons_resG (ShellJacobian.ClptSandersBc2.ok G hL hr hc) (ShellJacobian.ClptSandersBc2.cok G hL hr hc) cs⟩

/-- `clpt_sanders_bc4`: the matrix kernels are fed the state of `cffint` — the slopes `cfwx`, `cfwt`, `cfv` of `the commons module` return for `cfk0L` / `cfkLL`
and the membrane resultants `cfN` returns for `cfkG` are, at any amplitudes, the slopes and `N₀ + N_L` that `cffint` accumulates. -/
theorem shell_kernel_inputs_clpt_sanders_bc4 (G : Geo K) (hL : G.L ≠ 0) (hr : G.r ≠ 0) (hc : G.cosa ≠ 0) (cs : List (Amp 12 K)) :
    (ClptSandersBc4.commons.cmodel K).slopesAt G cs = slopesOf (ClptSandersBc4.model K) G cs ∧
      (ClptSandersBc4.commons.cmodel K).resGAt G cs = (resOf (ClptSandersBc4.model K) G cs).toG :=
  ⟨Generic.commons_slopes (ShellJacobian.ClptSandersBc4.cok G hL hr hc) cs,
   Generic.commons_resG (ShellJacobian.ClptSandersBc4.ok G hL hr hc) (ShellJacobian.ClptSandersBc4.cok G hL hr hc) cs⟩

/-- `clpt_sanders_bc1`, REFUTATION for the load-asymmetry amplitude: at the concrete rational point `wG2` (undeformed state, imperfect
shell) the internal-force integrand of the dof type 2 (`c[2]`) does NOT expand along the dof of type `defectCol2` with the
tangent integrand as linear coefficient — `cfk0L` builds its row 2 with `cos(θ − θ_LA) − 1` where `cffint` has `cos(θ − θ_LA)`.
(Harmless for the analyses `conecyl.py` allows: index 2 is always prescribed.) -/
theorem shell_kT_is_jacobian_clpt_sanders_bc1_counterexample :
    ¬ ∃ R₂ R₃ : ℚ, ∀ t : ℚ,
      fintAt (ClptSandersBc1.model ℚ) ShellJacobian.ClptSandersBc1.wG2 ([] ++ [(⟨ShellJacobian.ClptSandersBc1.defectCol2, ShellJacobian.ClptSandersBc1.wb2, 1⟩ : Amp 12 ℚ)].map (Amp.scale t)) 2 ShellJacobian.ClptSandersBc1.wa2 =
        fintAt (ClptSandersBc1.model ℚ) ShellJacobian.ClptSandersBc1.wG2 [] 2 ShellJacobian.ClptSandersBc1.wa2
          + t * kTAt (ClptSandersBc1.model ℚ) ShellJacobian.ClptSandersBc1.wG2 [] 2 ShellJacobian.ClptSandersBc1.wa2 ShellJacobian.ClptSandersBc1.defectCol2 ShellJacobian.ClptSandersBc1.wb2 + t ^ 2 * R₂ + t ^ 3 * R₃ :=
  Generic.not_jacobian_of_defect (ShellJacobian.ClptSandersBc1.ok _ ShellJacobian.ClptSandersBc1.wG2_ne.1 ShellJacobian.ClptSandersBc1.wG2_ne.2.1 ShellJacobian.ClptSandersBc1.wG2_ne.2.2) [] 2 ShellJacobian.ClptSandersBc1.defectCol2 (by decide) ShellJacobian.ClptSandersBc1.wa2 ShellJacobian.ClptSandersBc1.wb2
    ShellJacobian.ClptSandersBc1.k0L_defect_2

/-- `clpt_sanders_bc2`, REFUTATION for the load-asymmetry amplitude: at the concrete rational point `wG2` (undeformed state, imperfect
shell) the internal-force integrand of the dof type 2 (`c[2]`) does NOT expand along the dof of type `defectCol2` with the
tangent integrand as linear coefficient — `cfk0L` builds its row 2 with `cos(θ − θ_LA) − 1` where `cffint` has `cos(θ − θ_LA)`.
(Harmless for the analyses `conecyl.py` allows: index 2 is always prescribed.) -/
theorem shell_kT_is_jacobian_clpt_sanders_bc2_counterexample :
    ¬ ∃ R₂ R₃ : ℚ, ∀ t : ℚ,
      fintAt (ClptSandersBc2.model ℚ) ShellJacobian.ClptSandersBc2.wG2 ([] ++ [(⟨ShellJacobian.ClptSandersBc2.defectCol2, ShellJacobian.ClptSandersBc2.wb2, 1⟩ : Amp 12 ℚ)].map (Amp.scale t)) 2 ShellJacobian.ClptSandersBc2.wa2 =
        fintAt (ClptSandersBc2.model ℚ) ShellJacobian.ClptSandersBc2.wG2 [] 2 ShellJacobian.ClptSandersBc2.wa2
          + t * kTAt (ClptSandersBc2.model ℚ) ShellJacobian.ClptSandersBc2.wG2 [] 2 ShellJacobian.ClptSandersBc2.wa2 ShellJacobian.ClptSandersBc2.defectCol2 ShellJacobian.ClptSandersBc2.wb2 + t ^ 2 * R₂ + t ^ 3 * R₃ :=
  Generic.not_jacobian_of_defect (ShellJacobian.ClptSandersBc2.ok _ ShellJacobian.ClptSandersBc2.wG2_ne.1 ShellJacobian.ClptSandersBc2.wG2_ne.2.1 ShellJacobian.ClptSandersBc2.wG2_ne.2.2) [] 2 ShellJacobian.ClptSandersBc2.defectCol2 (by decide) ShellJacobian.ClptSandersBc2.wa2 ShellJacobian.ClptSandersBc2.wb2
    ShellJacobian.ClptSandersBc2.k0L_defect_2

/-- `clpt_sanders_bc3`, REFUTATION for the load-asymmetry amplitude: at the concrete rational point `wG2` (undeformed state, imperfect
shell) the internal-force integrand of the dof type 2 (`c[2]`) does NOT expand along the dof of type `defectCol2` with the
tangent integrand as linear coefficient — `cfk0L` builds its row 2 with `cos(θ − θ_LA) − 1` where `cffint` has `cos(θ − θ_LA)`.
(Harmless for the analyses `conecyl.py` allows: index 2 is always prescribed.) -/
theorem shell_kT_is_jacobian_clpt_sanders_bc3_counterexample :
    ¬ ∃ R₂ R₃ : ℚ, ∀ t : ℚ,
      fintAt (ClptSandersBc3.model ℚ) ShellJacobian.ClptSandersBc3.wG2 ([] ++ [(⟨ShellJacobian.ClptSandersBc3.defectCol2, ShellJacobian.ClptSandersBc3.wb2, 1⟩ : Amp 12 ℚ)].map (Amp.scale t)) 2 ShellJacobian.ClptSandersBc3.wa2 =
        fintAt (ClptSandersBc3.model ℚ) ShellJacobian.ClptSandersBc3.wG2 [] 2 ShellJacobian.ClptSandersBc3.wa2
          + t * kTAt (ClptSandersBc3.model ℚ) ShellJacobian.ClptSandersBc3.wG2 [] 2 ShellJacobian.ClptSandersBc3.wa2 ShellJacobian.ClptSandersBc3.defectCol2 ShellJacobian.ClptSandersBc3.wb2 + t ^ 2 * R₂ + t ^ 3 * R₃ :=
  Generic.not_jacobian_of_defect (ShellJacobian.ClptSandersBc3.ok _ ShellJacobian.ClptSandersBc3.wG2_ne.1 ShellJacobian.ClptSandersBc3.wG2_ne.2.1 ShellJacobian.ClptSandersBc3.wG2_ne.2.2) [] 2 ShellJacobian.ClptSandersBc3.defectCol2 (by decide) ShellJacobian.ClptSandersBc3.wa2 ShellJacobian.ClptSandersBc3.wb2
    ShellJacobian.ClptSandersBc3.k0L_defect_2

/-- `clpt_sanders_bc4`, REFUTATION for the load-asymmetry amplitude: at the concrete rational point `wG2` (undeformed state, imperfect
shell) the internal-force integrand of the dof type 2 (`c[2]`) does NOT expand along the dof of type `defectCol2` with the
tangent integrand as linear coefficient — `cfk0L` builds its row 2 with `cos(θ − θ_LA) − 1` where `cffint` has `cos(θ − θ_LA)`.
(Harmless for the analyses `conecyl.py` allows: index 2 is always prescribed.) -/
theorem shell_kT_is_jacobian_clpt_sanders_bc4_counterexample :
    ¬ ∃ R₂ R₃ : ℚ, ∀ t : ℚ,
      fintAt (ClptSandersBc4.model ℚ) ShellJacobian.ClptSandersBc4.wG2 ([] ++ [(⟨ShellJacobian.ClptSandersBc4.defectCol2, ShellJacobian.ClptSandersBc4.wb2, 1⟩ : Amp 12 ℚ)].map (Amp.scale t)) 2 ShellJacobian.ClptSandersBc4.wa2 =
        fintAt (ClptSandersBc4.model ℚ) ShellJacobian.ClptSandersBc4.wG2 [] 2 ShellJacobian.ClptSandersBc4.wa2
          + t * kTAt (ClptSandersBc4.model ℚ) ShellJacobian.ClptSandersBc4.wG2 [] 2 ShellJacobian.ClptSandersBc4.wa2 ShellJacobian.ClptSandersBc4.defectCol2 ShellJacobian.ClptSandersBc4.wb2 + t ^ 2 * R₂ + t ^ 3 * R₃ :=
  Generic.not_jacobian_of_defect (ShellJacobian.ClptSandersBc4.ok _ ShellJacobian.ClptSandersBc4.wG2_ne.1 ShellJacobian.ClptSandersBc4.wG2_ne.2.1 ShellJacobian.ClptSandersBc4.wG2_ne.2.2) [] 2 ShellJacobian.ClptSandersBc4.defectCol2 (by decide) ShellJacobian.ClptSandersBc4.wa2 ShellJacobian.ClptSandersBc4.wb2
    ShellJacobian.ClptSandersBc4.k0L_defect_2


/-- `clpt_sanders_bc2`, MATRIX LEVEL for what the pointwise theorems give: IF `calc_k0L` did not skip, the assembled tangent would
be the Jacobian (same statement as for the other Sanders models, with the skip flags of `k0L` set to "none").
PARTIAL: not about the matrices the source returns — see the counterexample below. -/
theorem shell_tangent_is_jacobian_clpt_sanders_bc2_partial (m1 m2 n2 : Nat) (geo : K → K → Geo K) (sinx cosx sint cost : Nat → K → K)
    (pts : List (Pt K)) (hgeo : ∀ p ∈ pts, (geo p.x p.y).L ≠ 0 ∧ (geo p.x p.y).r ≠ 0 ∧ (geo p.x p.y).cosa ≠ 0)
    (k0 : Mat K) (c d : Vec K) (hd : ∀ j, stdTy m1 j ≠ 2 ∨ d j = 0) :
    ∃ R : K → Vec K, ∀ (t : K) (i : Nat), stdTy m1 i ≠ 2 →
      fint (stdAsm m1 m2 n2 geo sinx cosx sint cost [] ClptSandersBc2.schema_kLL ClptSandersBc2.schema_kG).n k0
          (fNLq (ClptSandersBc2.model K) (stdAsm m1 m2 n2 geo sinx cosx sint cost [] ClptSandersBc2.schema_kLL ClptSandersBc2.schema_kG).toLayout pts)
          (fun j => c j + t * d j) i =
        fint (stdAsm m1 m2 n2 geo sinx cosx sint cost [] ClptSandersBc2.schema_kLL ClptSandersBc2.schema_kG).n k0
          (fNLq (ClptSandersBc2.model K) (stdAsm m1 m2 n2 geo sinx cosx sint cost [] ClptSandersBc2.schema_kLL ClptSandersBc2.schema_kG).toLayout pts) c i
          + t * sumTo (stdAsm m1 m2 n2 geo sinx cosx sint cost [] ClptSandersBc2.schema_kLL ClptSandersBc2.schema_kG).n
              (fun j => kT (asmParts (ClptSandersBc2.model K)
                (stdAsm m1 m2 n2 geo sinx cosx sint cost [] ClptSandersBc2.schema_kLL ClptSandersBc2.schema_kG) pts k0 c) true true i j * d j)
          + t ^ 2 * R t i := by
  obtain ⟨R, hR⟩ := tangent_is_jacobian_assembled (ClptSandersBc2.model K)
    (stdAsm m1 m2 n2 geo sinx cosx sint cost [] ClptSandersBc2.schema_kLL ClptSandersBc2.schema_kG) pts ShellJacobian.ClptSandersBc2.good
    (fun p hp => ShellJacobian.ClptSandersBc2.ok _ (hgeo p hp).1 (hgeo p hp).2.1 (hgeo p hp).2.2)
    (stdAsm_ok _ ShellJacobian.ClptSandersBc2.cls_eq _ _ _ _ _ _ _ _ _ _ _) (skipOf_false _ (by simp)) k0 c d hd
  exact ⟨R, fun t i hi => hR t i hi⟩

/-- `clpt_sanders_bc2`, REFUTATION at the matrix level: `calc_k0L` / `cfk0L` of this module carry the `if row > col: continue` of
the symmetric kernels in their blocks 11 and 22, but `k0L` is not symmetric and `_calc_NL_matrices` uses `k0L + k0Lᵀ` without
`make_symmetric`.  Concrete instance (`m1 = 3`, one integration point, the rational point `wG2`, trigonometric factors 1,
undeformed imperfect shell): the entry (9, 8) of `k0L + k0Lᵀ + make_symmetric(kLL) + make_symmetric(kG)` — row: `u`-amplitude of
the term `i1 = 2`, column: `w`-amplitude of the term `i1 = 1`, both free — differs from the quadrature of the tangent
integrand, i.e. (by `shell_kT_is_jacobian_clpt_sanders_bc2_partial`) from the derivative of the internal force. -/
theorem shell_tangent_matrix_clpt_sanders_bc2_counterexample :
    k0Lmat (ClptSandersBc2.model ℚ)
        (stdAsm 3 0 0 (fun _ _ => ShellJacobian.ClptSandersBc2.wG2) (fun _ _ => 1) (fun _ _ => 1) (fun _ _ => 1) (fun _ _ => 1)
          ClptSandersBc2.schema_k0L ClptSandersBc2.schema_kLL ClptSandersBc2.schema_kG) [⟨0, 0, 1, 1⟩] (fun _ => 0) 9 8
      + k0Lmat (ClptSandersBc2.model ℚ)
        (stdAsm 3 0 0 (fun _ _ => ShellJacobian.ClptSandersBc2.wG2) (fun _ _ => 1) (fun _ _ => 1) (fun _ _ => 1) (fun _ _ => 1)
          ClptSandersBc2.schema_k0L ClptSandersBc2.schema_kLL ClptSandersBc2.schema_kG) [⟨0, 0, 1, 1⟩] (fun _ => 0) 8 9
      + sym (kLLmat (ClptSandersBc2.model ℚ)
        (stdAsm 3 0 0 (fun _ _ => ShellJacobian.ClptSandersBc2.wG2) (fun _ _ => 1) (fun _ _ => 1) (fun _ _ => 1) (fun _ _ => 1)
          ClptSandersBc2.schema_k0L ClptSandersBc2.schema_kLL ClptSandersBc2.schema_kG) [⟨0, 0, 1, 1⟩] (fun _ => 0)) 9 8
      + sym (kGmat (ClptSandersBc2.model ℚ)
        (stdAsm 3 0 0 (fun _ _ => ShellJacobian.ClptSandersBc2.wG2) (fun _ _ => 1) (fun _ _ => 1) (fun _ _ => 1) (fun _ _ => 1)
          ClptSandersBc2.schema_k0L ClptSandersBc2.schema_kLL ClptSandersBc2.schema_kG) [⟨0, 0, 1, 1⟩] (fun _ => 0)) 9 8
      ≠ Jq (ClptSandersBc2.model ℚ)
        (stdAsm 3 0 0 (fun _ _ => ShellJacobian.ClptSandersBc2.wG2) (fun _ _ => 1) (fun _ _ => 1) (fun _ _ => 1) (fun _ _ => 1)
          ClptSandersBc2.schema_k0L ClptSandersBc2.schema_kLL ClptSandersBc2.schema_kG).toLayout [⟨0, 0, 1, 1⟩] (fun _ => 0) 9 8 := by
  have hok : ∀ p ∈ ([⟨0, 0, 1, 1⟩] : List (Pt ℚ)), ModelOK (ClptSandersBc2.model ℚ)
      ((stdAsm 3 0 0 (fun _ _ => ShellJacobian.ClptSandersBc2.wG2) (fun _ _ => (1 : ℚ)) (fun _ _ => 1) (fun _ _ => 1) (fun _ _ => 1)
        ClptSandersBc2.schema_k0L ClptSandersBc2.schema_kLL ClptSandersBc2.schema_kG).geo p.x p.y) ShellJacobian.ClptSandersBc2.good :=
    fun _ _ => ShellJacobian.ClptSandersBc2.ok _ ShellJacobian.ClptSandersBc2.wG2_ne.1 ShellJacobian.ClptSandersBc2.wG2_ne.2.1
      ShellJacobian.ClptSandersBc2.wG2_ne.2.2
  rw [asm_defect _ _ _ _ hok (stdAsm_ok _ ShellJacobian.ClptSandersBc2.cls_eq _ _ _ _ _ _ _ _ _ _ _) _ 9 8 (by decide) (by decide)]
  intro h
  have hz := sub_eq_self.mp h
  revert hz
  simp only [List.map_cons, List.map_nil, List.sum_cons, List.sum_nil, slopesOf_amps_zero]
  have e9 : stdTy 3 9 = 3 := by decide
  have e8 : stdTy 3 8 = 5 := by decide
  show ¬ ((1 : ℚ) * (ClptSandersBc2.model ℚ).k0L (stdTy 3 9) (stdTy 3 8) ShellJacobian.ClptSandersBc2.wG2 ⟨0, 0, 0⟩
      (stdDof 3 0 (fun _ _ => 1) (fun _ _ => 1) (fun _ _ => 1) (fun _ _ => 1) 9 0 0)
      (stdDof 3 0 (fun _ _ => 1) (fun _ _ => 1) (fun _ _ => 1) (fun _ _ => 1) 8 0 0) + 0 = 0)
  rw [e9, e8]
  simp only [stdDof, shell_tab, shell_nl, ShellJacobian.ClptSandersBc2.wG2]
  norm_num

/-- `clpt_sanders_bc3`, REFUTATION of the kernel-input tie: `cfstrain_sanders` of `clpt_commons_bc3.pyx` (through which `cfN` computes
the resultants for `cfkG`) gives the `u`-sine amplitude of an `(i2, j2)` term (type 6) NO contribution to `γ_xθ`, while `cffint` of
`clpt_sanders_bc3_nonlinear.pyx` has `c[col+0]·cos(j2 θ)·j2·sin(i2 π x/L)/r` (concrete rational point `cwG`): the geometric
stiffness is evaluated at other membrane resultants than the internal force — the tangent is not its Jacobian. -/
theorem shell_kernel_inputs_clpt_sanders_bc3_counterexample :
    (ClptSandersBc3.commons.cmodel ℚ).e ShellJacobian.ClptSandersBc3.cwA ShellJacobian.ClptSandersBc3.cwp ShellJacobian.ClptSandersBc3.cwG
        ShellJacobian.ClptSandersBc3.cwS ShellJacobian.ClptSandersBc3.cwd ≠
      (ClptSandersBc3.model ℚ).e0 ShellJacobian.ClptSandersBc3.cwA ShellJacobian.ClptSandersBc3.cwp ShellJacobian.ClptSandersBc3.cwG
          ShellJacobian.ClptSandersBc3.cwd
        + (ClptSandersBc3.model ℚ).eL ShellJacobian.ClptSandersBc3.cwA ShellJacobian.ClptSandersBc3.cwp ShellJacobian.ClptSandersBc3.cwG
          ShellJacobian.ClptSandersBc3.cwS ShellJacobian.ClptSandersBc3.cwd :=
  ShellJacobian.ClptSandersBc3.commons_defect

/-- `fsdt_donnell_bc1`, REFUTATION (regenerated terms, 8 strains / 18 degree-of-freedom types, vocabulary `Core/ShellNLSpec8.lean`): at the
rational point `wG`, undeformed state of an imperfect shell, the internal-force integrand of the `u`-amplitude of an `i1` term
(type 3) does not depend on the `w`-amplitude of an `i1` term (type 5) to first order, yet the tangent integrand there is 30:
the tangent is not the Jacobian.  Cause (exact evaluation of the translated source, `tools/translate/gen_shell_jacobian.py`):
in the `i1` block `cffint` forms `w,x` from `c[col+2]` but the non-linear strains `ε_xx^L, γ_xθ^L` from `c[col+3]` with the
COSINE-series factor `−i1 π sin(i1 π x/L)/L`, while `cfk0L / cfkLL / cfkG` use `c[col+2]` with `i1 π cos(i1 π x/L)/L`: the
structural identities `k0L`, `kLL`, `kG`, reciprocity fail for every pair involving the types 5, 6 (and 12, 13).  This is the
recorded finding `C17-kT-not-jacobian-fsdt_donnell_bc1`. -/
theorem shell_kT_is_jacobian_fsdt_donnell_bc1_counterexample :
    ¬ ∃ R₂ R₃ : ℚ, ∀ t : ℚ,
      fintAt8 (FsdtDonnellBc1.model ℚ) ShellJacobian.FsdtDonnellBc1.wG
          ([] ++ [(⟨ShellJacobian.FsdtDonnellBc1.wB, ShellJacobian.FsdtDonnellBc1.wb, 1⟩ : Amp 18 ℚ)].map (Amp.scale t))
          ShellJacobian.FsdtDonnellBc1.wA ShellJacobian.FsdtDonnellBc1.wa =
        fintAt8 (FsdtDonnellBc1.model ℚ) ShellJacobian.FsdtDonnellBc1.wG [] ShellJacobian.FsdtDonnellBc1.wA ShellJacobian.FsdtDonnellBc1.wa
          + t * kTAt8 (FsdtDonnellBc1.model ℚ) ShellJacobian.FsdtDonnellBc1.wG [] ShellJacobian.FsdtDonnellBc1.wA
              ShellJacobian.FsdtDonnellBc1.wa ShellJacobian.FsdtDonnellBc1.wB ShellJacobian.FsdtDonnellBc1.wb
          + t ^ 2 * R₂ + t ^ 3 * R₃ :=
  ShellJacobian.FsdtDonnellBc1.not_jacobian

/-- `fsdt_donnell_bcn`, REFUTATION: as for `fsdt_donnell_bc1` (same defect of the `i1` block); in addition `cfwx`, `cfwt` of
`fsdt_commons_bcn` return other slopes than `cffint` accumulates for the types 12, 13 (validation V: `calc_k0L`, `calc_kLL` of the
compiled module differ from the kernels evaluated at the slopes of `cffint` by 100 %).  Recorded finding
`C17-kT-not-jacobian-fsdt_donnell_bcn`. -/
theorem shell_kT_is_jacobian_fsdt_donnell_bcn_counterexample :
    ¬ ∃ R₂ R₃ : ℚ, ∀ t : ℚ,
      fintAt8 (FsdtDonnellBcn.model ℚ) ShellJacobian.FsdtDonnellBcn.wG
          ([] ++ [(⟨ShellJacobian.FsdtDonnellBcn.wB, ShellJacobian.FsdtDonnellBcn.wb, 1⟩ : Amp 18 ℚ)].map (Amp.scale t))
          ShellJacobian.FsdtDonnellBcn.wA ShellJacobian.FsdtDonnellBcn.wa =
        fintAt8 (FsdtDonnellBcn.model ℚ) ShellJacobian.FsdtDonnellBcn.wG [] ShellJacobian.FsdtDonnellBcn.wA ShellJacobian.FsdtDonnellBcn.wa
          + t * kTAt8 (FsdtDonnellBcn.model ℚ) ShellJacobian.FsdtDonnellBcn.wG [] ShellJacobian.FsdtDonnellBcn.wA
              ShellJacobian.FsdtDonnellBcn.wa ShellJacobian.FsdtDonnellBcn.wB ShellJacobian.FsdtDonnellBcn.wb
          + t ^ 2 * R₂ + t ^ 3 * R₃ :=
  ShellJacobian.FsdtDonnellBcn.not_jacobian

/-- Schema facts, decided on the regenerated data: which `calc_k0L` skip `row > col` (only `clpt_sanders_bc2`, in blocks 11 and 22). -/
theorem shell_k0L_schema_skips :
    (∀ b ∈ ClptDonnellBc1.schema_k0L, b.2.2.1 = false) ∧ (∀ b ∈ ClptDonnellBc2.schema_k0L, b.2.2.1 = false) ∧
    (∀ b ∈ ClptDonnellBc3.schema_k0L, b.2.2.1 = false) ∧ (∀ b ∈ ClptDonnellBc4.schema_k0L, b.2.2.1 = false) ∧
    (∀ b ∈ IsoClptDonnellBc2.schema_k0L, b.2.2.1 = false) ∧ (∀ b ∈ IsoClptDonnellBc3.schema_k0L, b.2.2.1 = false) ∧
    (∀ b ∈ ClptSandersBc1.schema_k0L, b.2.2.1 = false) ∧ (∀ b ∈ ClptSandersBc3.schema_k0L, b.2.2.1 = false) ∧
    (∀ b ∈ ClptSandersBc4.schema_k0L, b.2.2.1 = false) ∧
    skipOf ClptSandersBc2.schema_k0L 1 1 = true ∧ skipOf ClptSandersBc2.schema_k0L 2 2 = true := by
  decide

end Stage2

end Compmech.ShellNL.C17
