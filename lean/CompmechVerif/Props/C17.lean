/-
C17 — complete-shell non-linear tangent stiffness = Jacobian of the internal force (glue level) and independence of the
number of integration threads.

Only property theorems live here; helper lemmas are in `Model/ShellNLLemmas.lean`.  They are about the hand-written model
`Model/ShellNL.lean` of `ConeCyl._calc_NL_matrices / calc_kT / calc_fint` and of `integratev`, tied to the running Python by
`tools/props/C17.py` (the full vectors handed to every compiled kernel are recorded and compared with the model's; `kT`
re-assembled from the recorded kernel outputs; `integratev` through the compiled test integrand for 1..8 threads).

What is NOT proved: that the compiled integrands `cfk0L, cfkLL, cfkG, cffint` satisfy the pointwise Jacobian relation
(`hJ` below is a hypothesis).  It is evaluated on the implementation for every non-linear-capable model (exact polynomial
finite differences of `calc_fint` against `calc_kT`), and the models for which it fails on the unchanged tree are recorded in
`known_findings.json`.
-/
import CompmechVerif.Model.ShellNLLemmas

namespace Compmech.ShellNL.C17
open Compmech.ShellNL Compmech.Integrate

variable {K : Type} [Field K]

/-- Thread-count independence of the vector-valued integration, trapezoid rule: for every grid, every integrand of the
accumulate form `out = beta*out + alpha*g(x, y)` and every `num_cores ≥ 1` (also more threads than points),
`integratev` returns the plain quadrature sum `Σ alpha·g` — the result does not depend on `num_cores` (exact arithmetic). -/
theorem integratev_thread_invariant_trapz (g : K → K → K) (xmin xmax : K) (nx : Nat) (ymin ymax : K) (ny : Nat)
    (cores : Nat) (hc : 1 ≤ cores) :
    integratev g (trapz2dPoints xmin xmax nx ymin ymax ny) cores = quad (trapz2dPoints xmin xmax nx ymin ymax ny) g := by
  rw [integratev_eq_sum g _ (trapz2d_beta_one xmin xmax nx ymin ymax ny) cores hc]
  unfold quad
  congr 1
  apply List.map_congr_left
  intro p hp
  rw [trapz2d_beta_one xmin xmax nx ymin ymax ny p hp, mul_one]

/-- … and Simpson's rule (including the odd → even bump of the grid sizes). -/
theorem integratev_thread_invariant_simps (g : K → K → K) (xmin xmax : K) (nx : Nat) (ymin ymax : K) (ny : Nat)
    (cores : Nat) (hc : 1 ≤ cores) :
    integratev g (simps2dPoints xmin xmax nx ymin ymax ny) cores = quad (simps2dPoints xmin xmax nx ymin ymax ny) g := by
  rw [integratev_eq_sum g _ (simps2d_beta_one xmin xmax nx ymin ymax ny) cores hc]
  unfold quad
  congr 1
  apply List.map_congr_left
  intro p hp
  rw [simps2d_beta_one xmin xmax nx ymin ymax ny p hp, mul_one]

/-- Hence any two thread counts give the same result, for both rules. -/
theorem integratev_cores_agree (g : K → K → K) (pts : List (Pt K)) (h : ∀ p ∈ pts, p.beta = 1) (c1 c2 : Nat)
    (h1 : 1 ≤ c1) (h2 : 1 ≤ c2) : integratev g pts c1 = integratev g pts c2 := by
  rw [integratev_eq_sum g pts h c1 h1, integratev_eq_sum g pts h c2 h2]

/-- The assembled tangent `kT = k0 + k0L + k0Lᵀ + kLL + kG` is symmetric whatever the kernels returned for `k0L`, `kLL`, `kG`
(the last two go through `make_symmetric`), for both settings of `with_k0L` / `with_kLL`, given the symmetric `k0` of
`_calc_linear_matrices` (C16 `linear_matrices_symmetric`). -/
theorem kT_symmetric (p : Parts K) (withK0L withKLL : Bool) (h0 : ∀ i j, p.k0 i j = p.k0 j i) (i j : Nat) :
    kT p withK0L withKLL i j = kT p withK0L withKLL j i :=
  kT_symm_aux p withK0L withKLL h0 i j

/-- `kT = kL + kG` with the stored `kL`, `kG` (what the non-linear eigenvalue analyses read). -/
theorem kT_eq_kL_add_kG (p : Parts K) (a b : Bool) (i j : Nat) : kT p a b i j = kL p a b i j + sym p.kG i j := by
  unfold kT kL; ring

/-- Glue-level Jacobian: IF the kernel part of the internal force expands along every direction `d` as
`fNL(c + t·d) = fNL(c) + t·J(c)·d + t²·R` with `J(c) = k0L + k0Lᵀ + kLL + kG` at `c` (hypothesis `hJ` on the compiled
integrands), THEN the assembled internal force `fint = fNL + k0·c` expands with the assembled tangent `kT(c)`:
`fint(c + t·d) = fint(c) + t·kT(c)·d + t²·R` for all `t` — the tangent is the Jacobian of the internal force. -/
theorem tangent_is_jacobian_glue (n : Nat) (p : Parts K) (fNL : Vec K → Vec K) (c d : Vec K) (R : K → Vec K)
    (hJ : ∀ t i, fNL (fun j => c j + t * d j) i =
      fNL c i + t * sumTo n (fun j => (p.k0L i j + p.k0L j i + sym p.kLL i j + sym p.kG i j) * d j) + t ^ 2 * R t i)
    (t : K) (i : Nat) :
    fint n p.k0 fNL (fun j => c j + t * d j) i =
      fint n p.k0 fNL c i + t * sumTo n (fun j => kT p true true i j * d j) + t ^ 2 * R t i := by
  unfold fint
  rw [hJ t i]
  have e1 : sumTo n (fun j => p.k0 i j * (c j + t * d j)) =
      sumTo n (fun j => p.k0 i j * c j) + t * sumTo n (fun j => p.k0 i j * d j) := by
    rw [← sumTo_mul, ← sumTo_add]; congr 1; funext j; ring
  have e2 : sumTo n (fun j => kT p true true i j * d j) =
      sumTo n (fun j => p.k0 i j * d j)
        + sumTo n (fun j => (p.k0L i j + p.k0L j i + sym p.kLL i j + sym p.kG i j) * d j) := by
    rw [← sumTo_add]; congr 1; funext j; unfold kT; simp only [if_true]; ring
  rw [e1, e2]; ring

/-- The internal force of the undeformed perfect shell is zero as soon as the kernel part vanishes there. -/
theorem fint_zero (n : Nat) (k0 : Mat K) (fNL : Vec K → Vec K) (h : ∀ i, fNL (fun _ => 0) i = 0) (i : Nat) :
    fint n k0 fNL (fun _ => 0) i = 0 := by
  unfold fint
  rw [h i, zero_add]
  unfold sumTo
  simp only [mul_zero]
  induction n with
  | zero => simp
  | succ n ih => rw [List.range_succ, List.map_append, List.sum_append, ih]; simp

/-- `fint − k0·c` is exactly the kernel part (so `fint → k0·c` as the non-linear part vanishes). -/
theorem fint_minus_linear (n : Nat) (k0 : Mat K) (fNL : Vec K → Vec K) (c : Vec K) (i : Nat) :
    fint n k0 fNL c i - sumTo n (fun j => k0 i j * c j) = fNL c i := by
  unfold fint; ring

/-- `calc_kT(c, inc)` and `calc_fint(c, inc)` evaluate the kernels at the SAME full vector `calc_full_c(c, inc)` (prescribed
amplitudes scaled by the load level): the tangent belongs to the state whose internal force is computed. -/
theorem tangent_and_force_same_state (E : List Nat) (inc : K) (c : Vec K) : kTState E inc c = fintState E inc c := rfl

/-- at full load the state is `c` itself -/
theorem state_at_full_load (E : List Nat) (c : Vec K) : kTState E (1 : K) c = c := by
  funext i; unfold kTState fullC; split_ifs <;> simp

/-! Non-vacuity -/
example : integratev (fun x y => x + y) (trapz2dPoints (0 : ℚ) 1 3 0 1 2) 4 =
    quad (trapz2dPoints (0 : ℚ) 1 3 0 1 2) (fun x y => x + y) :=
  integratev_thread_invariant_trapz _ _ _ _ _ _ _ 4 (by norm_num)

end Compmech.ShellNL.C17
