/-
C18 — Shell loads, prescribed amplitudes, partitioning (complete cones / cylinders, `compmech/conecyl/conecyl.py`).

Only property theorems live here; helper lemmas are in `Model/ConeCylGlueLemmas.lean`.  Every theorem is about the
hand-written model `Model/ConeCylGlue.lean` of `ConeCyl._rebuild / exclude_dofs_matrix / calc_full_c / calc_fext /
static`, which is tied to the running Python by the correspondence check `tools/props/C18.py` (every case: model and
implementation agree on geometry, `Nxxtop`, the four blocks, both branches of `calc_full_c`, `fext`, and on what
`static` hands to the solver).

Vocabulary (defined in the model / lemma files, all computable):
* `Coo.toFun l i j`  entry of the matrix a COO list denotes (duplicates add);
* `up E p`           position in the FULL amplitude vector of the reduced index `p` when the strictly ascending list `E`
                     is prescribed (`up_characterisation`: the increasing enumeration of the complement of `E`);
* `sumTo n f`        `Σ_{j<n} f j`;
* `ptShape fs q`     `Σ_forces (fx·g_u + fθ·g_v + fz·g_w)` at amplitude `q`, `g` = the rows written by the compiled `fg`;
* `axShape a q`, `prShape a q`  shapes of the axial edge load and of a unit pressure in `fext_tmp`;
* `constPart a i`, `incPart a i` the load-factor independent / proportional parts of entry `i` of `fext`;
* `WF a`             shape conditions on the data (`E` strictly ascending and in range, `dofs ∈ {3,5}`, `g` arrays
                     `dofs × size`).

Findings (each: `…_partial` = what the code does, `…_counterexample` = kernel-checked witness; listed in
`known_findings.json`): a force-controlled torque is applied as one point force; harmonics of `Nxxtop` are dropped
unless the model NAME contains `bc2`/`bc4`; a reduced matrix with null rows that carry load.  Two former findings were
repaired in /repo (`fix:` commits 0bf93e4 `kkk` block, 7b8ae8e load-asymmetry term) and their theorems are now stated
at full strength (`blocks_entrywise`, `static_rhs`), the former witnesses kept as positive instances.
-/
import CompmechVerif.Model.ConeCylGlueLemmas

namespace Compmech.ConeCyl.C18
open Compmech.ConeCyl

/-! ## derived geometry -/

section geometry
variable {K : Type} [Field K] [DecidableEq K]

/-- For EVERY subset of `(r1, r2, H, L)` that does not give both `H` and `L` (Python truthiness of the four attributes
included), whenever `_rebuild` succeeds the derived geometry is consistent: `r1 = r2 + L·sinα` and `H = L·cosα`.
Only `cosα ≠ 0` is needed (not even `sin² + cos² = 1`). -/
theorem geometry_consistent (g : GeomIn K) (sina cosa : K) (hc : cosa ≠ 0)
    (hHL : ¬ (truthy g.H = true ∧ truthy g.L = true)) (o : Geom K) (h : rebuildGeom g sina cosa = .ok o) :
    o.r1 = o.r2 + o.L * sina ∧ o.H = o.L * cosa :=
  geometry_consistent_aux g sina cosa hc hHL o h

/-- All admissible descriptions of one shell agree: take a shell with `r1 = r2 + L·sinα`, `H = L·cosα` (all four
non-zero) and hand `_rebuild` ANY subset of the four numbers that contains a radius and either a length or both radii
(`sinα ≠ 0` then): the result is exactly `(r1, r2, H, L)`.  (`b1 … bL` say which attributes were given.) -/
theorem geometry_all_subsets_agree (r1 r2 H L sina cosa : K) (hc : cosa ≠ 0) (h1 : r1 ≠ 0) (h2 : r2 ≠ 0)
    (hH : H ≠ 0) (hL : L ≠ 0) (hr : r1 = r2 + L * sina) (hh : H = L * cosa) (b1 b2 bH bL : Bool)
    (hadm : (b1 = true ∨ b2 = true) ∧ (bH = true ∨ bL = true ∨ (b1 = true ∧ b2 = true ∧ sina ≠ 0))) :
    rebuildGeom ⟨if b1 then some r1 else none, if b2 then some r2 else none, if bH then some H else none,
      if bL then some L else none⟩ sina cosa = .ok ⟨r1, r2, H, L⟩ :=
  geometry_subsets_agree_aux r1 r2 H L sina cosa hc h1 h2 hH hL hr hh b1 b2 bH bL hadm

/-- Python truthiness: a top radius given as `0.0` is treated exactly like one that was not given (so a cone closed at
the apex cannot be described through `r2 = 0`), except in the one case where `r1 - r2` is evaluated. -/
theorem falsy_zero_is_absent (r1 H L : Option K) (sina cosa : K) :
    rebuildGeom ⟨r1, some 0, H, L⟩ sina cosa = rebuildGeom ⟨r1, none, H, L⟩ sina cosa ∨
      (∃ a, r1 = some a ∧ truthy H = false ∧ truthy L = false) :=
  falsy_zero_is_absent_aux r1 H L sina cosa

/-- `Nxxtop[0]` derived from `Fc` is the meridional edge load in axial equilibrium with `Fc`
(`Nxxtop[0]·2π r2·cosα = Fc`, which is also the value `_calc_linear_matrices` recovers), all harmonics are zero. -/
theorem Nxxtop_from_Fc (n2 : Nat) (Fc pi r2 cosa : K) (h2 : (2 : K) ≠ 0) (hpi : pi ≠ 0) (hr : r2 ≠ 0)
    (hc : cosa ≠ 0) (a : List K) (h : rebuildNxxtop n2 .none (some Fc) none none pi r2 cosa = .ok a) :
    a.getD 0 0 = Fc / (2 * pi * r2 * cosa) ∧ fcFromNxxtop (a.getD 0 0) pi r2 cosa = Fc ∧
      (∀ i, 0 < i → a.getD i 0 = 0) ∧ a.length = 2 * n2 + 1 :=
  Nxxtop_from_Fc_aux n2 Fc pi r2 cosa h2 hpi hr hc a h

/-- The prescribed sets the API admits: `pdLA` must be on, so amplitude 2 is always prescribed (with value `LA`), 0 iff
`pdC`, 1 iff `pdT`; the list is strictly ascending, inside `{0,1,2}`, and as long as the list of values. -/
theorem excludedDofs_admitted (pdC pdT : Bool) (uTM thetaT LA : K) :
    ∃ E ck, excludedDofs pdC pdT true uTM thetaT LA = some (E, ck) ∧ E.Pairwise (· < ·) ∧ 2 ∈ E ∧
      ck.length = E.length ∧ (∀ e ∈ E, e < 3) ∧ (0 ∈ E ↔ pdC = true) ∧ (1 ∈ E ↔ pdT = true) ∧
      (E.zip ck).getLast? = some (2, LA) :=
  excludedDofs_admitted_aux pdC pdT uTM thetaT LA

end geometry

/-! ## removing and re-inserting the prescribed amplitudes -/

/-- `up E` is the increasing enumeration of the amplitudes that are NOT prescribed: strictly monotone, never hits `E`,
reaches everything outside `E`, and is the identity below the first prescribed amplitude. -/
theorem up_characterisation (E : List Nat) (h : E.Pairwise (· < ·)) :
    (∀ p q, p < q → up E p < up E q) ∧ (∀ p, up E p ∉ E) ∧ (∀ q, q ∉ E → ∃ p, up E p = q) ∧
      (∀ p, (∀ e ∈ E, p < e) → up E p = p) :=
  ⟨fun _ _ hpq => up_strictMono E hpq, up_not_mem h, up_surj h, fun _ hp => up_of_lt_all hp⟩

section partition
variable {K : Type} [AddCommMonoid K]

/-- `kuu` is exactly the sub-matrix of the free amplitudes, for every COO list (duplicates included), every size and
every strictly ascending prescribed set: the index shifting of the two loops is right. -/
theorem kuu_entry (num0 n : Nat) (E : List Nat) (h : E.Pairwise (· < ·)) (k : Coo K) (i j : Nat) :
    (excludeDofsMatrix num0 E n k).kuu.toFun i j = k.toFun (up E i) (up E j) :=
  kuu_entry_aux num0 n E h k i j

/-- What the other three blocks are.  `kuk` = rows of the free amplitudes × the first `num0` columns (so its columns
at prescribed amplitudes are `K[free, prescribed]`, which is how `calc_fext` uses them); `kku` likewise transposed;
`kkk` = the prescribed × prescribed block `K[E, E]` — together with `kuu_entry` the documented partition
`k = |kkk kku; kuk kuu|` (prescribed amplitudes inside the first `num0`). -/
theorem blocks_entrywise (num0 n : Nat) (E : List Nat) (h : E.Pairwise (· < ·)) (hnum : ∀ e ∈ E, e < num0)
    (k : Coo K) (i j : Nat) :
    let b := excludeDofsMatrix num0 E n k
    b.kuk.toFun i j = (if j < num0 then k.toFun (up E i) j else 0) ∧
    b.kku.toFun i j = (if i < num0 then k.toFun i (up E j) else 0) ∧
    b.kkk.toFun i j = (if h : i < E.length ∧ j < E.length then k.toFun (E[i]'h.1) (E[j]'h.2) else 0) ∧
    b.shapeUU = (n - E.length, n - E.length) ∧ b.shapeUK = (n - E.length, num0) ∧
    b.shapeKU = (num0, n - E.length) ∧ b.shapeKK = (E.length, E.length) :=
  ⟨kuk_entry_aux num0 n E h k i j, kku_entry_aux num0 n E h k i j, kkk_entry_aux num0 n E h hnum k i j,
    (shapes_aux num0 n E k).1, (shapes_aux num0 n E k).2.1, (shapes_aux num0 n E k).2.2.1, (shapes_aux num0 n E k).2.2.2⟩

end partition

/-- The former witness of the `kkk` defect (known finding until `fix:` 0bf93e4): for `diag(1,2,3)` with the default
prescribed set `{1, 2}` the block is 2×2 with `kkk₀₀ = K₁₁ = 2`, `kkk₁₁ = K₂₂ = 3` (the code used to return `[[K₀₀]]`). -/
theorem kkk_prescribed_block_instance :
    let k : Coo ℚ := [(0, 0, 1), (1, 1, 2), (2, 2, 3)]
    let E : List Nat := [1, 2]
    (excludeDofsMatrix 3 E 3 k).shapeKK = (2, 2) ∧
      (excludeDofsMatrix 3 E 3 k).kkk.toFun 0 0 = 2 ∧ (excludeDofsMatrix 3 E 3 k).kkk.toFun 1 1 = 3 ∧
      (excludeDofsMatrix 3 E 3 k).kkk.toFun 0 1 = 0 :=
  kkk_instance_aux

section fullc
variable {K : Type} [Field K]

/-- Excluding and re-inserting are inverse book-keeping operations (second branch of `calc_full_c`): for every
strictly ascending prescribed set with as many values, every load factor and every reduced vector,
(a) deleting the prescribed positions of `calc_full_c(cu, inc)` gives `cu` back;
(b) the free amplitudes sit, in order, at the positions `up E p`;
(c) every prescribed position `e` carries `inc·ck_e`;
(d) the length is `len(cu) + len(E)`. -/
theorem exclude_insert_inverse (size : Nat) (E : List Nat) (ck : List K) (inc : K) (cu : List K)
    (hasc : E.Pairwise (· < ·)) (hck : ck.length = E.length) (hne : cu.length ≠ size)
    (hb : ∀ e ∈ E, e < cu.length + E.length) :
    npDelete E (calcFullC size E ck inc cu) = cu ∧
    (∀ p, (calcFullC size E ck inc cu)[up E p]? = cu[p]?) ∧
    (∀ q ∈ E.zip ck, (calcFullC size E ck inc cu)[q.1]? = some (inc * q.2)) ∧
    (calcFullC size E ck inc cu).length = cu.length + E.length :=
  ⟨delete_fullC_aux size E ck inc cu hasc hck hne, fullC_free_aux size E ck inc cu hasc hck hne,
    fullC_prescribed_aux size E ck inc cu hasc hck hne hb, fullC_length_aux size E ck inc cu hasc hck hne hb⟩

/-- First branch of `calc_full_c`: a vector that already has full size keeps its free entries and has exactly its
prescribed entries multiplied by `inc` (so `uvw(c, inc=1)` and `calc_fint(c_full)` see `c` unchanged at `inc = 1`). -/
theorem full_size_vector_scaled (size : Nat) (E : List Nat) (hnd : E.Nodup) (ck : List K) (inc : K) (c : List K)
    (hsize : c.length = size) (i : Nat) :
    (calcFullC size E ck inc c)[i]? = (fun a => if i ∈ E then a * inc else a) <$> c[i]? :=
  fullC_fullsize_aux size E hnd ck inc c hsize i

/-- `np.delete` on vectors reads the entries at the positions `up E i`. -/
theorem delete_entry (E : List Nat) (hasc : E.Pairwise (· < ·)) (v : List K) (i : Nat) :
    (npDelete E v).getD i 0 = v.getD (up E i) 0 :=
  npDelete_getD hasc v i

/-- The reduced linear system: if the solver returns `cu` with `K_uu·cu = f_u − K_uk·(inc·ck)` — the solver is a
hypothesis — then the FULL vector `calc_full_c(cu, inc)` satisfies every row of `K c = f` that belongs to a free
amplitude.  For every COO matrix, size, strictly ascending prescribed set inside the first `num0` amplitudes. -/
theorem reduced_system (num0 n : Nat) (E : List Nat) (ck : List K) (inc : K) (k : Coo K) (cu fu : List K)
    (hasc : E.Pairwise (· < ·)) (hb : ∀ e ∈ E, e < n) (hnum : ∀ e ∈ E, e < num0) (hck : ck.length = E.length)
    (hcu : cu.length + E.length = n) (hne : E ≠ [])
    (hsolve : ∀ i, i < cu.length →
      sumTo cu.length (fun j => (excludeDofsMatrix num0 E n k).kuu.toFun i j * cu.getD j 0) =
        fu.getD i 0 - ((E.zip ck).map fun q => (excludeDofsMatrix num0 E n k).kuk.toFun i q.1 * (inc * q.2)).sum) :
    ∀ i, i < cu.length →
      sumTo n (fun j => k.toFun (up E i) j * (calcFullC n E ck inc cu).getD j 0) = fu.getD i 0 :=
  reduced_system_aux num0 n E ck inc k cu fu hasc hb hnum hck hcu hne hsolve

end fullc

/-! ## the external force vector -/

section fext
variable {K : Type} [Field K] [DecidableEq K]

/-- Entry-wise closed form of `calc_fext(inc)`, and the scaling by the load factor: every entry is
`constPart + inc·incPart`, where `constPart` collects the constant point forces, `P` and `T`, and `incPart` the
incremented point forces, the edge load `Nxxtop` (hence `Fc`), `P_inc`, `T_inc`, and the prescribed end shortening /
end rotation / load-asymmetry terms `−uTM·K_uk[:,0]`, `−thetaTrad·K_uk[:,1]`, `−LA·K_uk[:,2]`; neither depends on `inc`. -/
theorem fext_constant_plus_inc_times_incremental (a : FextIn K) (hw : WF a) (f : List K) (h : calcFext a = .ok f) :
    f.length = a.size - a.E.length ∧
      ∀ i, i < a.size - a.E.length → f.getD i 0 = constPart a i + a.inc * incPart a i :=
  fext_const_inc_aux a hw f h

/-- Hence `fext` is affine in the load factor. -/
theorem fext_affine_in_load_factor (a : FextIn K) (hw : WF a) (t : K) (f0 f1 ft : List K)
    (e0 : calcFext { a with inc := 0 } = .ok f0) (e1 : calcFext { a with inc := 1 } = .ok f1)
    (et : calcFext { a with inc := t } = .ok ft) (i : Nat) (hi : i < a.size - a.E.length) :
    ft.getD i 0 = f0.getD i 0 + t * (f1.getD i 0 - f0.getD i 0) :=
  fext_affine_aux a hw t f0 f1 ft e0 e1 et i hi

/-- `fext` is additive in the loads (same shell, model, prescribed set, load factor): superposing two load sets
(point forces collected, `Nxxtop`, `P`, `P_inc`, `T`, `T_inc`, `uTM`, `thetaTrad`, `LA` added) adds the vectors. -/
theorem fext_additive_in_loads (fr : FextIn K) (x y : Loads K) (hx : WF (withLoads fr x)) (hy : WF (withLoads fr y))
    (fx fy fxy : List K) (ex : calcFext (withLoads fr x) = .ok fx) (ey : calcFext (withLoads fr y) = .ok fy)
    (exy : calcFext (withLoads fr (x.add y)) = .ok fxy) (i : Nat) (hi : i < fr.size - fr.E.length) :
    fxy.getD i 0 = fx.getD i 0 + fy.getD i 0 :=
  fext_additive_aux fr x y hx hy fx fy fxy ex ey exy i hi

/-- … and homogeneous: scaling every load by `c` scales `fext` by `c`. -/
theorem fext_homogeneous_in_loads (fr : FextIn K) (c : K) (x : Loads K) (hx : WF (withLoads fr x))
    (fx fcx : List K) (ex : calcFext (withLoads fr x) = .ok fx)
    (ecx : calcFext (withLoads fr (x.smul c)) = .ok fcx) (i : Nat) (hi : i < fr.size - fr.E.length) :
    fcx.getD i 0 = c * fx.getD i 0 :=
  fext_homogeneous_aux fr c x hx fx fcx ex ecx i hi

/-- Virtual work of the point forces: for every amplitude vector `c` that vanishes at the prescribed positions,
`Σ_i (point-force part of fext)_i · c_{up E i}` equals `Σ_forces (fx·u + fθ·v + fz·w)` with `u, v, w` the displacement
at the point of the force, `Σ_q g[r][q]·c_q` (`g` = what the compiled `fg` wrote there; that `g·c` is the package's own
`uvw` is checked numerically for every case). -/
theorem point_forces_virtual_work (size : Nat) (E : List Nat) (hasc : E.Pairwise (· < ·)) (hb : ∀ e ∈ E, e < size)
    (fs : List (PointForce K)) (c : Nat → K) (hc : ∀ e ∈ E, c e = 0) :
    sumTo (size - E.length) (fun i => ptShape fs (up E i) * c (up E i)) =
      (fs.map fun f => f.fx * disp size f.g 0 c + f.ft * disp size f.g 1 c + f.fz * disp size f.g 2 c).sum :=
  point_forces_virtual_work_aux size E hasc hb fs c hc

/-- The scratch vector `fext_tmp` is `inc·(axial edge load shape) + (P + inc·P_inc)·(pressure shape)`; the pressure
shape loads exactly the axisymmetric `w` amplitudes of half-wave number `i1 ≥ 1` with `pressureCoef L r2 sinα i1`
(CLPT models; nothing for the others). -/
theorem fext_tmp_entry (a : FextIn K) (Ptot : K) :
    (fextTmp a Ptot).length = a.size ∧
      ∀ q, q < a.size → (fextTmp a Ptot).getD q 0 = a.inc * axShape a q + Ptot * prShape a q :=
  fext_tmp_entry_aux a Ptot

/-- Torque, force controlled (what the code does): the torque enters as the tangential point force `T/r2` at
`(x, θ) = (0, 0)`.  If `v(0,0)` moves only with amplitude 1 (`g00[1] = r2·δ_{q,1}`: the bc1 / bc2 fields) this is
`T·δ_{q,1}`, the virtual work of the torque against the end rotation `c₁`. -/
theorem fext_torque_partial (a : FextIn K) (hr : a.r2 ≠ 0) (hpdT : a.pdT = false)
    (hg : ∀ q, rowAt a.g00 1 q = if q = 1 then a.r2 else 0) (i : Nat) :
    constPart a i + a.inc * incPart a i =
      (ptShape a.forces (up a.E i) + a.P * prShape a (up a.E i))
      + a.inc * (ptShape a.forcesInc (up a.E i) + axShape a (up a.E i) + a.Pinc * prShape a (up a.E i)
          - (if 0 ∈ a.E then a.uTM * a.k0uk.toFun i 0 else 0)
          - (if 2 ∈ a.E then a.LA * a.k0uk.toFun i 2 else 0))
      + (a.T + a.inc * a.Tinc) * (if up a.E i = 1 then 1 else 0) :=
  fext_torque_partial_aux a hr hpdT hg i

/-- Refutation of "fext = virtual work of the torque" for fields whose `v` is free at the loaded edge (bc3, bc4, bcn):
with `v(0,0)` also moved by amplitude 3 (a `cos jθ` term, whose mean rotation is zero —
`harmonic_mean_rotation_zero`), `T = 6`, `r2 = 2`: `fext` is `T` at amplitude 1 (right) and `T/r2 = 3 ≠ 0` at
amplitude 3 (reduced index 2). -/
theorem fext_torque_counterexample :
    WF torqueWitness ∧ torqueWitness.pdT = false ∧
      ∃ f, calcFext torqueWitness = .ok f ∧ f.getD 1 0 = torqueWitness.T ∧ f.getD 2 0 = 3 :=
  ⟨torqueWitness_WF, rfl, torque_counterexample_aux⟩

/-- Axial edge load (what the code does): unless the model NAME contains `bc2`/`bc4`, only `Nxxtop[0]` reaches `fext`
(and, never in practice since amplitude 2 is always prescribed, `Nxxtop[2]`): every circumferential harmonic is ignored. -/
theorem fext_axial_partial (a : FextIn K) (h : a.bc24 = false) (q : Nat) :
    axShape a q = (if 0 ∉ a.E then (if q = 0 then a.Nxxtop.getD 0 0 * (2 * a.pi * a.r2) / a.cosa else 0) else 0)
      + (if 2 ∉ a.E then (if q = 2 then a.Nxxtop.getD 2 0 * (2 * a.pi * a.r2) / a.cosa else 0) else 0) :=
  axShape_no_bc24 a h q

end fext

/-- Refutation of "fext = virtual work of the axial edge load" for the `*_bcn` models (u free at the loaded edge, name
without `bc2`/`bc4`): same shell, same field, a pure `sin θ` edge load `Nxxtop = [0, 7, 0]` (`π := 3`, `r2 = 2`): with the
flag the `sin θ` amplitude of `u` receives `7·π·r2 = 42`, without it the whole axial part of `fext` is zero. -/
theorem fext_axial_harmonics_counterexample :
    axShape (harmonicsWitness true) 3 = 42 ∧ (∀ q, axShape (harmonicsWitness false) q = 0) :=
  harmonics_counterexample_aux

/-! ## what `static` solves -/

section static
variable {K : Type} [Field K] [DecidableEq K]

/-- What the solution of ANY system handed to `solve` satisfies: if the solver is exact for `(k0uu, f)`, the rows of the
full system that belong to the free amplitudes read `(K c)_{up E i} = f_i + Σ_{prescribed e} K_uk[i, e]·ck_e`. -/
theorem static_rows (num0 n : Nat) (E : List Nat) (ck : List K) (k : Coo K) (cu f : List K)
    (hasc : E.Pairwise (· < ·)) (hb : ∀ e ∈ E, e < n) (hnum : ∀ e ∈ E, e < num0) (hck : ck.length = E.length)
    (hcu : cu.length + E.length = n) (hne : E ≠ [])
    (hsolve : ∀ i, i < cu.length →
      sumTo cu.length (fun j => (excludeDofsMatrix num0 E n k).kuu.toFun i j * cu.getD j 0) = f.getD i 0) :
    ∀ i, i < cu.length →
      sumTo n (fun j => k.toFun (up E i) j * (calcFullC n E ck 1 cu).getD j 0) =
        f.getD i 0 + ((E.zip ck).map fun q => (excludeDofsMatrix num0 E n k).kuk.toFun i q.1 * q.2).sum :=
  static_rows_aux num0 n E ck k cu f hasc hb hnum hck hcu hne hsolve

/-- The linear static solution satisfies the reduced system with ALL prescribed-displacement terms on the right-hand
side: for the prescribed set and values `_rebuild` produces (`excludedDofs`: `uTM` iff `pdC`, `thetaTrad` iff `pdT`, `LA`
always), `k0uk` the `kuk` block of `K`, and an exact solver for `(k0uu, calc_fext(inc = 1))`, every row of the FULL system
`K c = f` that belongs to a free amplitude holds with `f` = the loads alone (`loadShape`: point forces, axial edge load,
pressure, torque), `c = calc_full_c(cu)`. -/
theorem static_rhs (num0 n : Nat) (pdC pdT : Bool) (k : Coo K) (cu f : List K) (a : FextIn K)
    (E : List Nat) (ck : List K) (hex : excludedDofs pdC pdT true a.uTM a.thetaT a.LA = some (E, ck))
    (haE : a.E = E) (hpdT : a.pdT = pdT) (hk : a.k0uk = (excludeDofsMatrix num0 E n k).kuk) (hn : a.size = n)
    (hnum : 3 ≤ num0) (hw : WF a) (hcu : cu.length + E.length = n)
    (hf : calcFext { a with inc := 1 } = .ok f)
    (hsolve : ∀ i, i < cu.length →
      sumTo cu.length (fun j => (excludeDofsMatrix num0 E n k).kuu.toFun i j * cu.getD j 0) = f.getD i 0) :
    ∀ i, i < cu.length →
      sumTo n (fun j => k.toFun (up E i) j * (calcFullC n E ck 1 cu).getD j 0) = loadShape a i :=
  static_rhs_aux num0 n pdC pdT k cu f a E ck hex haE hpdT hk hn hnum hw hcu hf hsolve

/-- `static` refuses a prescribed end shortening (also for the linear analysis) and models without the
`'linear static'` flag; otherwise it hands `(k0uu, calc_fext(inc = 1))` to the solver and reports `([1], [x])`. -/
theorem static_passes (solve : Coo K → List K → List K) (pdC lin : Bool) (kuu : Coo K) (a : FextIn K) :
    (pdC = true → staticLinear solve pdC lin kuu a = .error .prescribedShortening) ∧
    (pdC = false → lin = false → staticLinear solve pdC lin kuu a = .error .modelNotStatic) ∧
    (pdC = false → lin = true → ∀ f, calcFext { a with inc := 1 } = .ok f →
      staticLinear solve pdC lin kuu a = .ok ((kuu, f), ([1], [solve kuu f]))) :=
  static_passes_aux solve pdC lin kuu a

end static

/-- The former witness of the load-asymmetry defect (known finding until `fix:` 7b8ae8e), now a positive instance of
`static_rhs`: no loads, prescribed rotation 0, `LA = 1`, a matrix that couples amplitude 2 to the free amplitude 3
(`K₃₂ = 5`, `K_uu = I`).  `static` hands `[0, −5]` to the solver and the row of amplitude 3 of the full system holds
(`5·1 + 1·(−5) = 0`; before the repair the right-hand side was `[0, 0]` and the row read `5 = 0`). -/
theorem static_rhs_instance :
    ∃ f, staticLinear (fun _ f => f) false true (excludeDofsMatrix 3 [1, 2] 4 laMatrix).kuu laWitness
        = .ok (((excludeDofsMatrix 3 [1, 2] 4 laMatrix).kuu, f), ([1], [f])) ∧
      f.length = 2 ∧ f.getD 0 0 = 0 ∧ f.getD 1 0 = -5 ∧
      sumTo 4 (fun j => laMatrix.toFun (up [1, 2] 1) j * (calcFullC 4 [1, 2] [0, 1] 1 [0, -5]).getD j 0) = 0 :=
  static_la_instance_aux

/-- The solver hypothesis of `reduced_system` cannot always be met: the (only) free amplitude of
`diag(2, 0, 1)` with amplitudes 0 and 2 prescribed has zero stiffness, so with a load `7` on it NO vector satisfies
`K_uu·c_u = f_u` (what happens for `clpt_donnell_bc2` cones, whose kernel leaves the second-set `v`, `w` amplitudes
without stiffness; `compmech.sparse.solve` then silently returns 0 for them). -/
theorem reduced_system_hypothesis_counterexample :
    let k : Coo ℚ := [(0, 0, 2), (2, 2, 1)]
    (∀ j, (excludeDofsMatrix 3 [0, 2] 3 k).kuu.toFun 0 j = 0) ∧
    (∀ x : List ℚ, sumTo 1 (fun j => (excludeDofsMatrix 3 [0, 2] 3 k).kuu.toFun 0 j * x.getD j 0) ≠ 7) :=
  null_row_counterexample_aux

/-! ## real analysis: the pressure load -/

section real
open Real

/-- The closed form the code adds for the pressure is the surface integral of the shape function over the reference
surface of the cone, `dA = (r2 + x sinα) dθ dx`: for every half-wave number `i ≥ 1`
`∫₀ᴸ∫₀^{2π} sin(iπx/L)(r2 + x sinα) dθ dx = (2L/i)(r2 − (−1)ⁱ(r2 + L sinα))`. -/
theorem pressure_closed_form (i : ℕ) (hi : 1 ≤ i) (L r2 sina : ℝ) (hL : L ≠ 0) :
    ∫ x in (0:ℝ)..L, ∫ _θ in (0:ℝ)..(2 * π), Real.sin (i * π * x / L) * (r2 + x * sina)
      = pressureCoef L r2 sina i :=
  pressure_closed_form_aux i hi L r2 sina hL

/-- Virtual work of a unit pressure against the axisymmetric part `w = Σ_{i1} c_{i1} sin(i1 π x/L)` of the normal
displacement: `∬ w dA = Σ c_{i1}·(the coefficient the code uses)`, the term `i1 = 0` contributing nothing (the code
skips it). -/
theorem pressure_virtual_work (m1 i0 : ℕ) (cw : ℕ → ℝ) (L r2 sina : ℝ) (hL : L ≠ 0) :
    (∫ x in (0:ℝ)..L, ∫ _θ in (0:ℝ)..(2 * π),
        (∑ di ∈ Finset.range m1, cw di * Real.sin ((i0 + di : ℕ) * π * x / L)) * (r2 + x * sina))
      = ∑ di ∈ Finset.range m1, cw di * (if i0 + di = 0 then 0 else pressureCoef L r2 sina (i0 + di)) :=
  pressure_work_aux m1 i0 cw L r2 sina hL

/-- Circumferential harmonics have zero mean: the non-axisymmetric amplitudes receive no pressure load, and the mean
end rotation of a `cos jθ` / `sin jθ` term of `v` is zero (used by the torque finding). -/
theorem harmonic_mean_rotation_zero (j : ℕ) (hj : 1 ≤ j) :
    (∫ θ in (0:ℝ)..(2 * π), Real.cos (j * θ)) = 0 ∧ (∫ θ in (0:ℝ)..(2 * π), Real.sin (j * θ)) = 0 :=
  harmonic_integrals_zero_aux j hj

end real

/-! Non-vacuity: the hypotheses of the main theorems are met by concrete data. -/
example : ([1, 2] : List Nat).Pairwise (· < ·) := by simp
example : WF torqueWitness := torqueWitness_WF
example : WF laWitness ∧ excludedDofs false true true laWitness.uTM laWitness.thetaT laWitness.LA = some ([1, 2], [0, 1]) :=
  ⟨laWitness_WF, rfl⟩
example : rebuildGeom (⟨none, some 250, some 510, none⟩ : GeomIn ℚ) (1 / 10) (99 / 100) =
    .ok ⟨250 + 510 / (99 / 100) * (1 / 10), 250, 510, 510 / (99 / 100)⟩ := by
  simp [rebuildGeom, geomH1, geomL2, geomH3, geomRadii_of_r2, truthy]

end Compmech.ConeCyl.C18
