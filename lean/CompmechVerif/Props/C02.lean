/-
C02 — Panel constitutive stiffness equals the Hessian of the Donnell CLT strain energy.

The models `Gen.<Model>.<kernel>.entry` are REGENERATED from compmech/panel/models/*.pyx on every run
(tools/translate/gen_panel.py); the theorems below are re-checked against what the source says now.
Each theorem is uniform in the series indices (i, j, k, l), the series orders, the geometry, the
laminate, all real values of the 24 edge flags and the placement: `P.J` is an arbitrary
interpretation of the one-dimensional integrals (C10 ties it to the C tables).
`hessian P dx dy ops W α β` = ∂²/∂c_A∂c_B of ½∬_{dx×dy} ε(c)ᵀ W ε(c) dx dy for the operator table `ops`.
-/
import CompmechVerif.Gen.Panel.Plate
import CompmechVerif.Gen.Panel.PlateW
import CompmechVerif.Gen.Panel.CPanel
import CompmechVerif.Gen.Panel.KPanel
import CompmechVerif.Spec.Kinematics
import CompmechVerif.Core.OpSpecTactics
import CompmechVerif.Core.OpSpecLemmas
import CompmechVerif.Spec.WholeMatrix
import CompmechVerif.Spec.WholeMatrixPSD
import CompmechVerif.Spec.PSDExample
import CompmechVerif.Spec.LaminateWeight
import CompmechVerif.Spec.BardellIntegrals
import CompmechVerif.Model.PanelGlueLemmas
import CompmechVerif.Spec.PanelGlueKernels
import CompmechVerif.Spec.PanelGlueKernelsCone
import CompmechVerif.Props.C03
import Mathlib.Tactic.FinCases
import Mathlib.Data.Fintype.Basic

set_option linter.unnecessarySeqFocus false

namespace Compmech.Panel.C02
open Compmech.Panel Compmech.Gen

variable {K : Type} [Field K] [CharZero K]

/-- flat plate, full width -/
theorem k0_entry_eq_hessian_plate (P : PCtx K) (ha : P.a ≠ 0) (hb : P.b ≠ 0) (hF : IsABD P.F)
    (ro co : Fin 3) :
    Plate.fk0.entry ro co P = hessian P .full .full (plateOps P) P.F (fld3 ro) (fld3 co) := by
  fin_cases ro <;> fin_cases co <;> entry_eq_hessian [plateOps] sym hF

/-- flat plate, sub-interval `y1 ≤ y ≤ y2` -/
theorem k0y1y2_entry_eq_hessian_plate (P : PCtx K) (ha : P.a ≠ 0) (hb : P.b ≠ 0) (hF : IsABD P.F)
    (ro co : Fin 3) :
    Plate.fk0y1y2.entry ro co P = hessian P .full .sub (plateOps P) P.F (fld3 ro) (fld3 co) := by
  fin_cases ro <;> fin_cases co <;> entry_eq_hessian [plateOps] sym hF

/-- `w`-only plate model -/
theorem k0_entry_eq_hessian_plate_w (P : PCtx K) (ha : P.a ≠ 0) (hb : P.b ≠ 0) (hF : IsABD P.F)
    (ro co : Fin 1) :
    PlateW.fk0.entry ro co P = hessian P .full .full (plateOps P) P.F (fld1 ro) (fld1 co) := by
  fin_cases ro <;> fin_cases co <;> entry_eq_hessian [plateOps, fld1] sym hF

theorem k0y1y2_entry_eq_hessian_plate_w (P : PCtx K) (ha : P.a ≠ 0) (hb : P.b ≠ 0) (hF : IsABD P.F)
    (ro co : Fin 1) :
    PlateW.fk0y1y2.entry ro co P = hessian P .full .sub (plateOps P) P.F (fld1 ro) (fld1 co) := by
  fin_cases ro <;> fin_cases co <;> entry_eq_hessian [plateOps, fld1] sym hF

/-- cylindrical panel -/
theorem k0_entry_eq_hessian_cpanel (P : PCtx K) (ha : P.a ≠ 0) (hb : P.b ≠ 0) (hr : P.r ≠ 0)
    (hF : IsABD P.F) (ro co : Fin 3) :
    CPanel.fk0.entry ro co P = hessian P .full .full (cpanelOps P) P.F (fld3 ro) (fld3 co) := by
  fin_cases ro <;> fin_cases co <;> entry_eq_hessian [cpanelOps, plateOps] sym hF

theorem k0y1y2_entry_eq_hessian_cpanel (P : PCtx K) (ha : P.a ≠ 0) (hb : P.b ≠ 0) (hr : P.r ≠ 0)
    (hF : IsABD P.F) (ro co : Fin 3) :
    CPanel.fk0y1y2.entry ro co P = hessian P .full .sub (cpanelOps P) P.F (fld3 ro) (fld3 co) := by
  fin_cases ro <;> fin_cases co <;> entry_eq_hessian [cpanelOps, plateOps] sym hF

set_option maxHeartbeats 4000000 in
/-- conical panel: one constant-radius section `[ξ₁, ξ₂]` (the `x` integrals are over that section);
`P.r`, `P.b` are the section's radius and width. -/
theorem k0_entry_eq_hessian_kpanel (P : PCtx K) (ha : P.a ≠ 0) (hb : P.b ≠ 0) (hr : P.r ≠ 0)
    (hF : IsABD P.F) (ro co : Fin 3) :
    KPanel.fk0.entry ro co P = hessian P .sub .full (kpanelOps P) P.F (fld3 ro) (fld3 co) := by
  fin_cases ro <;> fin_cases co <;> entry_eq_hessian [kpanelOps, plateOps] sym hF

set_option maxHeartbeats 4000000 in
theorem k0y1y2_entry_eq_hessian_kpanel (P : PCtx K) (ha : P.a ≠ 0) (hb : P.b ≠ 0) (hr : P.r ≠ 0)
    (hF : IsABD P.F) (ro co : Fin 3) :
    KPanel.fk0y1y2.entry ro co P = hessian P .sub .sub (kpanelOps P) P.F (fld3 ro) (fld3 co) := by
  fin_cases ro <;> fin_cases co <;> entry_eq_hessian [kpanelOps, plateOps] sym hF


/-! ### symmetry of the whole matrix

`P.swap` reads the same one-dimensional integrals with the roles of the row and the column basis function
exchanged (`∫ D^{d₁}φ_A D^{d₂}φ_B` ↦ `∫ D^{d₂}φ_B D^{d₁}φ_A` with `A ↔ B`), i.e. `entry co ro P.swap` is what the
kernel's formula gives for the TRANSPOSED position.  The theorems say `K[r, c] = K[c, r]` for every pair of
degrees of freedom — so mirroring the upper triangle (`finalize_symmetric_matrix`) reproduces exactly the entries the
kernel's own formula assigns to the lower triangle. -/

theorem k0_entry_symm_plate (P : PCtx K) (ha : P.a ≠ 0) (hb : P.b ≠ 0) (hF : IsABD P.F) (ro co : Fin 3) :
    Plate.fk0.entry ro co P = Plate.fk0.entry co ro P.swap := by
  rw [k0_entry_eq_hessian_plate P ha hb hF, k0_entry_eq_hessian_plate P.swap ha hb hF]
  exact (hessian_swap P _ _ (plateOps P) P.F hF.symm _ _).symm

theorem k0y1y2_entry_symm_plate (P : PCtx K) (ha : P.a ≠ 0) (hb : P.b ≠ 0) (hF : IsABD P.F) (ro co : Fin 3) :
    Plate.fk0y1y2.entry ro co P = Plate.fk0y1y2.entry co ro P.swap := by
  rw [k0y1y2_entry_eq_hessian_plate P ha hb hF, k0y1y2_entry_eq_hessian_plate P.swap ha hb hF]
  exact (hessian_swap P _ _ (plateOps P) P.F hF.symm _ _).symm

theorem k0_entry_symm_plate_w (P : PCtx K) (ha : P.a ≠ 0) (hb : P.b ≠ 0) (hF : IsABD P.F) (ro co : Fin 1) :
    PlateW.fk0.entry ro co P = PlateW.fk0.entry co ro P.swap := by
  rw [k0_entry_eq_hessian_plate_w P ha hb hF, k0_entry_eq_hessian_plate_w P.swap ha hb hF]
  exact (hessian_swap P _ _ (plateOps P) P.F hF.symm _ _).symm

theorem k0y1y2_entry_symm_plate_w (P : PCtx K) (ha : P.a ≠ 0) (hb : P.b ≠ 0) (hF : IsABD P.F) (ro co : Fin 1) :
    PlateW.fk0y1y2.entry ro co P = PlateW.fk0y1y2.entry co ro P.swap := by
  rw [k0y1y2_entry_eq_hessian_plate_w P ha hb hF, k0y1y2_entry_eq_hessian_plate_w P.swap ha hb hF]
  exact (hessian_swap P _ _ (plateOps P) P.F hF.symm _ _).symm

theorem k0_entry_symm_cpanel (P : PCtx K) (ha : P.a ≠ 0) (hb : P.b ≠ 0) (hr : P.r ≠ 0) (hF : IsABD P.F) (ro co : Fin 3) :
    CPanel.fk0.entry ro co P = CPanel.fk0.entry co ro P.swap := by
  rw [k0_entry_eq_hessian_cpanel P ha hb hr hF, k0_entry_eq_hessian_cpanel P.swap ha hb hr hF]
  exact (hessian_swap P _ _ (cpanelOps P) P.F hF.symm _ _).symm

theorem k0y1y2_entry_symm_cpanel (P : PCtx K) (ha : P.a ≠ 0) (hb : P.b ≠ 0) (hr : P.r ≠ 0) (hF : IsABD P.F) (ro co : Fin 3) :
    CPanel.fk0y1y2.entry ro co P = CPanel.fk0y1y2.entry co ro P.swap := by
  rw [k0y1y2_entry_eq_hessian_cpanel P ha hb hr hF, k0y1y2_entry_eq_hessian_cpanel P.swap ha hb hr hF]
  exact (hessian_swap P _ _ (cpanelOps P) P.F hF.symm _ _).symm

theorem k0_entry_symm_kpanel (P : PCtx K) (ha : P.a ≠ 0) (hb : P.b ≠ 0) (hr : P.r ≠ 0) (hF : IsABD P.F) (ro co : Fin 3) :
    KPanel.fk0.entry ro co P = KPanel.fk0.entry co ro P.swap := by
  rw [k0_entry_eq_hessian_kpanel P ha hb hr hF, k0_entry_eq_hessian_kpanel P.swap ha hb hr hF]
  exact (hessian_swap P _ _ (kpanelOps P) P.F hF.symm _ _).symm

theorem k0y1y2_entry_symm_kpanel (P : PCtx K) (ha : P.a ≠ 0) (hb : P.b ≠ 0) (hr : P.r ≠ 0) (hF : IsABD P.F) (ro co : Fin 3) :
    KPanel.fk0y1y2.entry ro co P = KPanel.fk0y1y2.entry co ro P.swap := by
  rw [k0y1y2_entry_eq_hessian_kpanel P ha hb hr hF, k0y1y2_entry_eq_hessian_kpanel P.swap ha hb hr hF]
  exact (hessian_swap P _ _ (kpanelOps P) P.F hF.symm _ _).symm


/-! ### the whole matrix (loop nest of Model/PanelLoop.lean + `finalize_symmetric_matrix`)

`I` : the one-dimensional integrals as a function of the series indices (any commutative interpretation; C10 ties it to
the C tables).  For ANY series orders `m, n`, ANY placement `row0 = col0`, at the positions of ANY two degrees of freedom
`(α, i, j)` and `(β, k, l)` — upper or lower triangle — the matrix handed to the user holds the energy Hessian of that
pair; and it is symmetric. -/

open Compmech.Asm in
/-- the regenerated kernels have exactly the modelled loop nest, dof map, skip condition and section geometry -/
theorem loop_nest_standard :
    Plate.fk0.schema = LoopSchema.std 3 none ∧ Plate.fk0y1y2.schema = LoopSchema.stdYX 3 ∧
    PlateW.fk0.schema = LoopSchema.std 1 none ∧ PlateW.fk0y1y2.schema = LoopSchema.stdYX 1 ∧
    CPanel.fk0.schema = LoopSchema.std 3 none ∧ CPanel.fk0y1y2.schema = LoopSchema.stdYX 3 ∧
    KPanel.fk0.schema = LoopSchema.std 3 (some 41) ∧ KPanel.fk0y1y2.schema = LoopSchema.std 3 (some 41) := by
  decide

open Compmech.Asm in
theorem k0_matrix_plate (base : PCtx K) (I : Integrals K) (hI : I.Comm) (ha : base.a ≠ 0) (hb : base.b ≠ 0)
    (hF : IsABD base.F) (m n row0 : Nat) {i k j l : Nat} (hi : i < m) (hk : k < m) (hj : j < n) (hl : l < n)
    (α β : Fin 3) :
    toFun (panelCoo 3 m n row0 Plate.fk0.entry base I) (row0 + 3 * (j * m + i) + α.val)
        (row0 + 3 * (l * m + k) + β.val)
      = hessian (ctxAt base I i k j l) .full .full (plateOps base) base.F (fld3 α) (fld3 β) := by
  rw [panelCoo_entry 3 m n row0 _ base I hI
    (fun ro co i k j l => k0_entry_symm_plate (ctxAt base I i k j l) ha hb hF ro co) hi hk hj hl]
  exact k0_entry_eq_hessian_plate (ctxAt base I i k j l) ha hb hF α β

open Compmech.Asm in
theorem k0y1y2_matrix_plate (base : PCtx K) (I : Integrals K) (hI : I.Comm) (ha : base.a ≠ 0) (hb : base.b ≠ 0)
    (hF : IsABD base.F) (m n row0 : Nat) {i k j l : Nat} (hi : i < m) (hk : k < m) (hj : j < n) (hl : l < n)
    (α β : Fin 3) :
    toFun (panelCooYX 3 m n row0 Plate.fk0y1y2.entry base I) (row0 + 3 * (j * m + i) + α.val)
        (row0 + 3 * (l * m + k) + β.val)
      = hessian (ctxAt base I i k j l) .full .sub (plateOps base) base.F (fld3 α) (fld3 β) := by
  rw [panelCooYX_entry 3 m n row0 _ base I hI
    (fun ro co i k j l => k0y1y2_entry_symm_plate (ctxAt base I i k j l) ha hb hF ro co) hi hk hj hl]
  exact k0y1y2_entry_eq_hessian_plate (ctxAt base I i k j l) ha hb hF α β

open Compmech.Asm in
theorem k0_matrix_plate_w (base : PCtx K) (I : Integrals K) (hI : I.Comm) (ha : base.a ≠ 0) (hb : base.b ≠ 0)
    (hF : IsABD base.F) (m n row0 : Nat) {i k j l : Nat} (hi : i < m) (hk : k < m) (hj : j < n) (hl : l < n)
    (α β : Fin 1) :
    toFun (panelCoo 1 m n row0 PlateW.fk0.entry base I) (row0 + 1 * (j * m + i) + α.val)
        (row0 + 1 * (l * m + k) + β.val)
      = hessian (ctxAt base I i k j l) .full .full (plateOps base) base.F (fld1 α) (fld1 β) := by
  rw [panelCoo_entry 1 m n row0 _ base I hI
    (fun ro co i k j l => k0_entry_symm_plate_w (ctxAt base I i k j l) ha hb hF ro co) hi hk hj hl]
  exact k0_entry_eq_hessian_plate_w (ctxAt base I i k j l) ha hb hF α β

open Compmech.Asm in
theorem k0y1y2_matrix_plate_w (base : PCtx K) (I : Integrals K) (hI : I.Comm) (ha : base.a ≠ 0) (hb : base.b ≠ 0)
    (hF : IsABD base.F) (m n row0 : Nat) {i k j l : Nat} (hi : i < m) (hk : k < m) (hj : j < n) (hl : l < n)
    (α β : Fin 1) :
    toFun (panelCooYX 1 m n row0 PlateW.fk0y1y2.entry base I) (row0 + 1 * (j * m + i) + α.val)
        (row0 + 1 * (l * m + k) + β.val)
      = hessian (ctxAt base I i k j l) .full .sub (plateOps base) base.F (fld1 α) (fld1 β) := by
  rw [panelCooYX_entry 1 m n row0 _ base I hI
    (fun ro co i k j l => k0y1y2_entry_symm_plate_w (ctxAt base I i k j l) ha hb hF ro co) hi hk hj hl]
  exact k0y1y2_entry_eq_hessian_plate_w (ctxAt base I i k j l) ha hb hF α β

open Compmech.Asm in
theorem k0_matrix_cpanel (base : PCtx K) (I : Integrals K) (hI : I.Comm) (ha : base.a ≠ 0) (hb : base.b ≠ 0) (hr : base.r ≠ 0)
    (hF : IsABD base.F) (m n row0 : Nat) {i k j l : Nat} (hi : i < m) (hk : k < m) (hj : j < n) (hl : l < n)
    (α β : Fin 3) :
    toFun (panelCoo 3 m n row0 CPanel.fk0.entry base I) (row0 + 3 * (j * m + i) + α.val)
        (row0 + 3 * (l * m + k) + β.val)
      = hessian (ctxAt base I i k j l) .full .full (cpanelOps base) base.F (fld3 α) (fld3 β) := by
  rw [panelCoo_entry 3 m n row0 _ base I hI
    (fun ro co i k j l => k0_entry_symm_cpanel (ctxAt base I i k j l) ha hb hr hF ro co) hi hk hj hl]
  exact k0_entry_eq_hessian_cpanel (ctxAt base I i k j l) ha hb hr hF α β

open Compmech.Asm in
theorem k0y1y2_matrix_cpanel (base : PCtx K) (I : Integrals K) (hI : I.Comm) (ha : base.a ≠ 0) (hb : base.b ≠ 0) (hr : base.r ≠ 0)
    (hF : IsABD base.F) (m n row0 : Nat) {i k j l : Nat} (hi : i < m) (hk : k < m) (hj : j < n) (hl : l < n)
    (α β : Fin 3) :
    toFun (panelCooYX 3 m n row0 CPanel.fk0y1y2.entry base I) (row0 + 3 * (j * m + i) + α.val)
        (row0 + 3 * (l * m + k) + β.val)
      = hessian (ctxAt base I i k j l) .full .sub (cpanelOps base) base.F (fld3 α) (fld3 β) := by
  rw [panelCooYX_entry 3 m n row0 _ base I hI
    (fun ro co i k j l => k0y1y2_entry_symm_cpanel (ctxAt base I i k j l) ha hb hr hF ro co) hi hk hj hl]
  exact k0y1y2_entry_eq_hessian_cpanel (ctxAt base I i k j l) ha hb hr hF α β

open Compmech.Asm in
/-- every finalized panel stiffness matrix is symmetric -/
theorem k0_matrix_symmetric {num : Nat} (entry : Fin num → Fin num → PCtx K → K) (base : PCtx K) (I : Integrals K)
    (m n row0 r c : Nat) :
    toFun (panelCoo num m n row0 entry base I) r c = toFun (panelCoo num m n row0 entry base I) c r :=
  panelCoo_symmetric num m n row0 entry base I r c

open Compmech.Asm in
/-- conical panel: the matrix is the SUM over the 41 constant-radius sections of the energy Hessians of the sections
(each with the radius of its middle and the matching width: `sectionBase`) -/
theorem k0_matrix_kpanel (base : PCtx K) (I : Nat → Integrals K) (hI : ∀ sec, (I sec).Comm) (s : Nat)
    (ha : base.a ≠ 0) (hb : ∀ sec, (sectionBase base s sec).b ≠ 0) (hr : ∀ sec, (sectionBase base s sec).r ≠ 0)
    (hF : IsABD base.F) (m n row0 : Nat) {i k j l : Nat} (hi : i < m) (hk : k < m) (hj : j < n) (hl : l < n)
    (α β : Fin 3) :
    toFun (conePanelCoo s 3 m n row0 KPanel.fk0.entry base I) (row0 + 3 * (j * m + i) + α.val)
        (row0 + 3 * (l * m + k) + β.val)
      = ((List.range s).map fun sec =>
          hessian (ctxAt (sectionBase base s sec) (I sec) i k j l) .sub .full (kpanelOps (sectionBase base s sec)) base.F
            (fld3 α) (fld3 β)).sum := by
  rw [conePanelCoo_entry s 3 m n row0 _ base I hI
    (fun sec ro co i k j l => k0_entry_symm_kpanel (ctxAt (sectionBase base s sec) (I sec) i k j l) ha (hb sec) (hr sec)
      hF ro co) hi hk hj hl]
  refine congrArg List.sum (List.map_congr_left fun sec _ => ?_)
  exact k0_entry_eq_hessian_kpanel (ctxAt (sectionBase base s sec) (I sec) i k j l) ha (hb sec) (hr sec) hF α β

open Compmech.Asm in
/-- conical panel: the matrix is the SUM over the 41 constant-radius sections of the energy Hessians of the sections
(each with the radius of its middle and the matching width: `sectionBase`) -/
theorem k0y1y2_matrix_kpanel (base : PCtx K) (I : Nat → Integrals K) (hI : ∀ sec, (I sec).Comm) (s : Nat)
    (ha : base.a ≠ 0) (hb : ∀ sec, (sectionBase base s sec).b ≠ 0) (hr : ∀ sec, (sectionBase base s sec).r ≠ 0)
    (hF : IsABD base.F) (m n row0 : Nat) {i k j l : Nat} (hi : i < m) (hk : k < m) (hj : j < n) (hl : l < n)
    (α β : Fin 3) :
    toFun (conePanelCoo s 3 m n row0 KPanel.fk0y1y2.entry base I) (row0 + 3 * (j * m + i) + α.val)
        (row0 + 3 * (l * m + k) + β.val)
      = ((List.range s).map fun sec =>
          hessian (ctxAt (sectionBase base s sec) (I sec) i k j l) .sub .sub (kpanelOps (sectionBase base s sec)) base.F
            (fld3 α) (fld3 β)).sum := by
  rw [conePanelCoo_entry s 3 m n row0 _ base I hI
    (fun sec ro co i k j l => k0y1y2_entry_symm_kpanel (ctxAt (sectionBase base s sec) (I sec) i k j l) ha (hb sec) (hr sec)
      hF ro co) hi hk hj hl]
  refine congrArg List.sum (List.map_congr_left fun sec _ => ?_)
  exact k0y1y2_entry_eq_hessian_kpanel (ctxAt (sectionBase base s sec) (I sec) i k j l) ha (hb sec) (hr sec) hF α β


/-! ### positive semi-definiteness of the whole matrix (over ℝ)

`WeightPSD base.F`: the laminate matrix is positive semi-definite, `eᵀ F e ≥ 0` (C01 `abd_posdef` gives `> 0` for every
stack of admissible plies: `abd_weight_psd` below).  `RealIntegrals I dx dy X Y x₁ x₂ y₁ y₂`: the one-dimensional
integrals ARE integrals — `I .x dx d₁ f₁ i d₂ f₂ k = ∫_{x₁}^{x₂} X d₁ f₁ i · X d₂ f₂ k`, same along y with `Y` — of products of
continuous functions (`X d f i = D^d φ^f_i`), `x₁ ≤ x₂`, `y₁ ≤ y₂`.  Then for ANY series orders `m, n`, ANY placement `row0`
and ANY amplitude vector `v` over the panel's `num·m·n` degrees of freedom (rows `row0 ≤ r < row0 + num·m·n`),
`vᵀ K v ≥ 0` for the finalized matrix `K` the kernel + `finalize_symmetric_matrix` deliver.
(Proof: `vᵀ K v = (ab/4) ∬ ε(v)ᵀ F ε(v)`, Core/OpSpecPSD.lean `hessian_psd`.) -/

open scoped BigOperators

open Compmech.Asm in
/-- flat plate: the constitutive stiffness matrix is positive semi-definite -/
theorem k0_matrix_psd_plate (base : PCtx ℝ) (I : Integrals ℝ) (hI : I.Comm) (ha : base.a ≠ 0) (hb : base.b ≠ 0)
    (hF : IsABD base.F) (hpsd : WeightPSD base.F) (hab : 0 ≤ base.a * base.b)
    (X Y : Nat → Fld → Nat → ℝ → ℝ) (x₁ x₂ y₁ y₂ : ℝ) (hR : RealIntegrals I .full .full X Y x₁ x₂ y₁ y₂)
    (m n row0 : Nat) (v : Nat → ℝ) :
    0 ≤ ∑ r ∈ Finset.range (3 * m * n), ∑ c ∈ Finset.range (3 * m * n),
      v (row0 + r) * toFun (panelCoo 3 m n row0 Plate.fk0.entry base I) (row0 + r) (row0 + c) * v (row0 + c) :=
  matrix_psd_of_hessian _ m n row0 fld3 base I .full .full (plateOps base) base.F
    (fun hi hk hj hl α β => k0_matrix_plate base I hI ha hb hF m n row0 hi hk hj hl α β) X Y x₁ x₂ y₁ y₂ hR hpsd hab v

open Compmech.Asm in
/-- flat plate, sub-interval `y1 ≤ y ≤ y2` (`Y` integrated over `[y₁, y₂] = [η₁, η₂]`) -/
theorem k0y1y2_matrix_psd_plate (base : PCtx ℝ) (I : Integrals ℝ) (hI : I.Comm) (ha : base.a ≠ 0) (hb : base.b ≠ 0)
    (hF : IsABD base.F) (hpsd : WeightPSD base.F) (hab : 0 ≤ base.a * base.b)
    (X Y : Nat → Fld → Nat → ℝ → ℝ) (x₁ x₂ y₁ y₂ : ℝ) (hR : RealIntegrals I .full .sub X Y x₁ x₂ y₁ y₂)
    (m n row0 : Nat) (v : Nat → ℝ) :
    0 ≤ ∑ r ∈ Finset.range (3 * m * n), ∑ c ∈ Finset.range (3 * m * n),
      v (row0 + r) * toFun (panelCooYX 3 m n row0 Plate.fk0y1y2.entry base I) (row0 + r) (row0 + c) * v (row0 + c) :=
  matrix_psd_of_hessian _ m n row0 fld3 base I .full .sub (plateOps base) base.F
    (fun hi hk hj hl α β => k0y1y2_matrix_plate base I hI ha hb hF m n row0 hi hk hj hl α β) X Y x₁ x₂ y₁ y₂ hR hpsd hab v

open Compmech.Asm in
/-- `w`-only plate model -/
theorem k0_matrix_psd_plate_w (base : PCtx ℝ) (I : Integrals ℝ) (hI : I.Comm) (ha : base.a ≠ 0) (hb : base.b ≠ 0)
    (hF : IsABD base.F) (hpsd : WeightPSD base.F) (hab : 0 ≤ base.a * base.b)
    (X Y : Nat → Fld → Nat → ℝ → ℝ) (x₁ x₂ y₁ y₂ : ℝ) (hR : RealIntegrals I .full .full X Y x₁ x₂ y₁ y₂)
    (m n row0 : Nat) (v : Nat → ℝ) :
    0 ≤ ∑ r ∈ Finset.range (1 * m * n), ∑ c ∈ Finset.range (1 * m * n),
      v (row0 + r) * toFun (panelCoo 1 m n row0 PlateW.fk0.entry base I) (row0 + r) (row0 + c) * v (row0 + c) :=
  matrix_psd_of_hessian _ m n row0 fld1 base I .full .full (plateOps base) base.F
    (fun hi hk hj hl α β => k0_matrix_plate_w base I hI ha hb hF m n row0 hi hk hj hl α β) X Y x₁ x₂ y₁ y₂ hR hpsd hab v

open Compmech.Asm in
theorem k0y1y2_matrix_psd_plate_w (base : PCtx ℝ) (I : Integrals ℝ) (hI : I.Comm) (ha : base.a ≠ 0) (hb : base.b ≠ 0)
    (hF : IsABD base.F) (hpsd : WeightPSD base.F) (hab : 0 ≤ base.a * base.b)
    (X Y : Nat → Fld → Nat → ℝ → ℝ) (x₁ x₂ y₁ y₂ : ℝ) (hR : RealIntegrals I .full .sub X Y x₁ x₂ y₁ y₂)
    (m n row0 : Nat) (v : Nat → ℝ) :
    0 ≤ ∑ r ∈ Finset.range (1 * m * n), ∑ c ∈ Finset.range (1 * m * n),
      v (row0 + r) * toFun (panelCooYX 1 m n row0 PlateW.fk0y1y2.entry base I) (row0 + r) (row0 + c) * v (row0 + c) :=
  matrix_psd_of_hessian _ m n row0 fld1 base I .full .sub (plateOps base) base.F
    (fun hi hk hj hl α β => k0y1y2_matrix_plate_w base I hI ha hb hF m n row0 hi hk hj hl α β) X Y x₁ x₂ y₁ y₂ hR hpsd hab v

open Compmech.Asm in
/-- cylindrical panel -/
theorem k0_matrix_psd_cpanel (base : PCtx ℝ) (I : Integrals ℝ) (hI : I.Comm) (ha : base.a ≠ 0) (hb : base.b ≠ 0) (hr : base.r ≠ 0)
    (hF : IsABD base.F) (hpsd : WeightPSD base.F) (hab : 0 ≤ base.a * base.b)
    (X Y : Nat → Fld → Nat → ℝ → ℝ) (x₁ x₂ y₁ y₂ : ℝ) (hR : RealIntegrals I .full .full X Y x₁ x₂ y₁ y₂)
    (m n row0 : Nat) (v : Nat → ℝ) :
    0 ≤ ∑ r ∈ Finset.range (3 * m * n), ∑ c ∈ Finset.range (3 * m * n),
      v (row0 + r) * toFun (panelCoo 3 m n row0 CPanel.fk0.entry base I) (row0 + r) (row0 + c) * v (row0 + c) :=
  matrix_psd_of_hessian _ m n row0 fld3 base I .full .full (cpanelOps base) base.F
    (fun hi hk hj hl α β => k0_matrix_cpanel base I hI ha hb hr hF m n row0 hi hk hj hl α β) X Y x₁ x₂ y₁ y₂ hR hpsd hab v

open Compmech.Asm in
theorem k0y1y2_matrix_psd_cpanel (base : PCtx ℝ) (I : Integrals ℝ) (hI : I.Comm) (ha : base.a ≠ 0) (hb : base.b ≠ 0) (hr : base.r ≠ 0)
    (hF : IsABD base.F) (hpsd : WeightPSD base.F) (hab : 0 ≤ base.a * base.b)
    (X Y : Nat → Fld → Nat → ℝ → ℝ) (x₁ x₂ y₁ y₂ : ℝ) (hR : RealIntegrals I .full .sub X Y x₁ x₂ y₁ y₂)
    (m n row0 : Nat) (v : Nat → ℝ) :
    0 ≤ ∑ r ∈ Finset.range (3 * m * n), ∑ c ∈ Finset.range (3 * m * n),
      v (row0 + r) * toFun (panelCooYX 3 m n row0 CPanel.fk0y1y2.entry base I) (row0 + r) (row0 + c) * v (row0 + c) :=
  matrix_psd_of_hessian _ m n row0 fld3 base I .full .sub (cpanelOps base) base.F
    (fun hi hk hj hl α β => k0y1y2_matrix_cpanel base I hI ha hb hr hF m n row0 hi hk hj hl α β) X Y x₁ x₂ y₁ y₂ hR hpsd hab v

open Compmech.Asm in
/-- conical panel: a finite sum over the constant-radius sections of positive semi-definite forms; section `sec` has its own
integrals (`X sec` over `[x₁ sec, x₂ sec] = [ξ₁, ξ₂]` of the section) and width `(sectionBase base s sec).b` -/
theorem k0_matrix_psd_kpanel (base : PCtx ℝ) (I : Nat → Integrals ℝ) (hI : ∀ sec, (I sec).Comm) (s : Nat)
    (ha : base.a ≠ 0) (hb : ∀ sec, (sectionBase base s sec).b ≠ 0) (hr : ∀ sec, (sectionBase base s sec).r ≠ 0)
    (hF : IsABD base.F) (hpsd : WeightPSD base.F) (hab : ∀ sec, sec < s → 0 ≤ base.a * (sectionBase base s sec).b)
    (X Y : Nat → Nat → Fld → Nat → ℝ → ℝ) (x₁ x₂ y₁ y₂ : Nat → ℝ)
    (hR : ∀ sec, sec < s → RealIntegrals (I sec) .sub .full (X sec) (Y sec) (x₁ sec) (x₂ sec) (y₁ sec) (y₂ sec))
    (m n row0 : Nat) (v : Nat → ℝ) :
    0 ≤ ∑ r ∈ Finset.range (3 * m * n), ∑ c ∈ Finset.range (3 * m * n),
      v (row0 + r) * toFun (conePanelCoo s 3 m n row0 KPanel.fk0.entry base I) (row0 + r) (row0 + c) * v (row0 + c) :=
  matrix_psd_of_hessian_sections _ s m n row0 fld3 (sectionBase base s) I .sub .full
    (fun sec => kpanelOps (sectionBase base s sec)) (fun _ => base.F)
    (fun hi hk hj hl α β => k0_matrix_kpanel base I hI s ha hb hr hF m n row0 hi hk hj hl α β)
    X Y x₁ x₂ y₁ y₂ hR (fun _ _ => hpsd) hab v

open Compmech.Asm in
theorem k0y1y2_matrix_psd_kpanel (base : PCtx ℝ) (I : Nat → Integrals ℝ) (hI : ∀ sec, (I sec).Comm) (s : Nat)
    (ha : base.a ≠ 0) (hb : ∀ sec, (sectionBase base s sec).b ≠ 0) (hr : ∀ sec, (sectionBase base s sec).r ≠ 0)
    (hF : IsABD base.F) (hpsd : WeightPSD base.F) (hab : ∀ sec, sec < s → 0 ≤ base.a * (sectionBase base s sec).b)
    (X Y : Nat → Nat → Fld → Nat → ℝ → ℝ) (x₁ x₂ y₁ y₂ : Nat → ℝ)
    (hR : ∀ sec, sec < s → RealIntegrals (I sec) .sub .sub (X sec) (Y sec) (x₁ sec) (x₂ sec) (y₁ sec) (y₂ sec))
    (m n row0 : Nat) (v : Nat → ℝ) :
    0 ≤ ∑ r ∈ Finset.range (3 * m * n), ∑ c ∈ Finset.range (3 * m * n),
      v (row0 + r) * toFun (conePanelCoo s 3 m n row0 KPanel.fk0y1y2.entry base I) (row0 + r) (row0 + c) * v (row0 + c) :=
  matrix_psd_of_hessian_sections _ s m n row0 fld3 (sectionBase base s) I .sub .sub
    (fun sec => kpanelOps (sectionBase base s sec)) (fun _ => base.F)
    (fun hi hk hj hl α β => k0y1y2_matrix_kpanel base I hI s ha hb hr hF m n row0 hi hk hj hl α β)
    X Y x₁ x₂ y₁ y₂ hR (fun _ _ => hpsd) hab v

open Compmech.Laminate in
/-- The two hypotheses on the weight are what C01 delivers: the `ABD` matrix of EVERY non-empty stack of admissible plies with
positive thicknesses (hypotheses of C01 `abd_posdef`), read as the weight `F[p, q]`, has the `IsABD` shape and is positive
semi-definite (indeed definite). -/
theorem abd_weight_psd (ps : List (PlyIn ℝ)) (ms : List (MatProps ℝ)) (plies : List (Ply ℝ)) (offset : ℝ)
    (hne : ps ≠ [])
    (hlen : ms.length = ps.length)
    (hplies : plies = (List.zip ps ms).map fun pm => ⟨pm.1.t, rotQ pm.1.c pm.1.s (planeStressQ pm.2)⟩)
    (hadm : ∀ m ∈ ms, Admissible m)
    (hcs : ∀ p ∈ ps, p.c ^ 2 + p.s ^ 2 = 1 ∧ 0 < p.t) :
    IsABD (abdWeight (abd plies offset)) ∧ WeightPSD (abdWeight (abd plies offset)) :=
  ⟨abdWeight_isABD _, abdWeight_psd_of_posdef _ (abd_posdef_aux ps ms plies offset hne hlen hplies hadm hcs)⟩

open Compmech.Laminate in
/-- non-vacuity of `abd_weight_psd`: a two-ply unsymmetric stack (angles with `cos, sin = 3/5, 4/5` and `1, 0`) -/
example : ∃ F : Fin 6 → Fin 6 → ℝ, IsABD F ∧ WeightPSD F :=
  let m : MatProps ℝ := ⟨142, 8, 3/10, 5, 5, 3, 8, 3/10, 3/10⟩
  let ps : List (PlyIn ℝ) := [⟨3/5, 4/5, 1/8, []⟩, ⟨1, 0, 1/4, []⟩]
  ⟨_, abd_weight_psd ps [m, m] _ (1/20) (by simp [ps]) rfl rfl
    (by intro m' hm'
        have : m' = m := by simpa [m] using hm'
        subst this
        unfold Admissible MatProps.nu21; norm_num [m])
    (by intro p hp
        simp only [ps, List.mem_cons, List.not_mem_nil, or_false] at hp
        rcases hp with rfl | rfl <;> norm_num)⟩

/-! Non-vacuity: the instance of Spec/PSDExample.lean (`a = b = 2`, `r = 1`, `sin α = −1/2`, identity laminate matrix,
`mu = h = 1`, `d = 1/10`; the integrals of products of the monomials `t^(i+d)` over `[−1, 1]`) meets all hypotheses of every
theorem of this section, for all `m, n, row0, v` (and any number of sections). -/

open Compmech.Asm PSDExample in
example (m n row0 : Nat) (v : Nat → ℝ) :
    0 ≤ ∑ r ∈ Finset.range (3 * m * n), ∑ c ∈ Finset.range (3 * m * n),
      v (row0 + r) * toFun (panelCoo 3 m n row0 Plate.fk0.entry unitBase monoI) (row0 + r) (row0 + c) * v (row0 + c) :=
  k0_matrix_psd_plate unitBase monoI monoI_comm (by norm_num [unitBase]) (by norm_num [unitBase]) unitF_isABD unitF_psd
    (by norm_num [unitBase]) mono mono (-1) 1 (-1) 1 (monoI_real _ _) m n row0 v

open Compmech.Asm PSDExample in
example (m n row0 : Nat) (v : Nat → ℝ) :
    0 ≤ ∑ r ∈ Finset.range (3 * m * n), ∑ c ∈ Finset.range (3 * m * n),
      v (row0 + r) * toFun (panelCooYX 3 m n row0 Plate.fk0y1y2.entry unitBase monoI) (row0 + r) (row0 + c) * v (row0 + c) :=
  k0y1y2_matrix_psd_plate unitBase monoI monoI_comm (by norm_num [unitBase]) (by norm_num [unitBase]) unitF_isABD unitF_psd
    (by norm_num [unitBase]) mono mono (-1) 1 (-1) 1 (monoI_real _ _) m n row0 v

open Compmech.Asm PSDExample in
example (m n row0 : Nat) (v : Nat → ℝ) :
    0 ≤ ∑ r ∈ Finset.range (1 * m * n), ∑ c ∈ Finset.range (1 * m * n),
      v (row0 + r) * toFun (panelCoo 1 m n row0 PlateW.fk0.entry unitBase monoI) (row0 + r) (row0 + c) * v (row0 + c) :=
  k0_matrix_psd_plate_w unitBase monoI monoI_comm (by norm_num [unitBase]) (by norm_num [unitBase]) unitF_isABD unitF_psd
    (by norm_num [unitBase]) mono mono (-1) 1 (-1) 1 (monoI_real _ _) m n row0 v

open Compmech.Asm PSDExample in
example (m n row0 : Nat) (v : Nat → ℝ) :
    0 ≤ ∑ r ∈ Finset.range (1 * m * n), ∑ c ∈ Finset.range (1 * m * n),
      v (row0 + r) * toFun (panelCooYX 1 m n row0 PlateW.fk0y1y2.entry unitBase monoI) (row0 + r) (row0 + c) * v (row0 + c) :=
  k0y1y2_matrix_psd_plate_w unitBase monoI monoI_comm (by norm_num [unitBase]) (by norm_num [unitBase]) unitF_isABD unitF_psd
    (by norm_num [unitBase]) mono mono (-1) 1 (-1) 1 (monoI_real _ _) m n row0 v

open Compmech.Asm PSDExample in
example (m n row0 : Nat) (v : Nat → ℝ) :
    0 ≤ ∑ r ∈ Finset.range (3 * m * n), ∑ c ∈ Finset.range (3 * m * n),
      v (row0 + r) * toFun (panelCoo 3 m n row0 CPanel.fk0.entry unitBase monoI) (row0 + r) (row0 + c) * v (row0 + c) :=
  k0_matrix_psd_cpanel unitBase monoI monoI_comm (by norm_num [unitBase]) (by norm_num [unitBase]) (by norm_num [unitBase]) unitF_isABD unitF_psd
    (by norm_num [unitBase]) mono mono (-1) 1 (-1) 1 (monoI_real _ _) m n row0 v

open Compmech.Asm PSDExample in
example (m n row0 : Nat) (v : Nat → ℝ) :
    0 ≤ ∑ r ∈ Finset.range (3 * m * n), ∑ c ∈ Finset.range (3 * m * n),
      v (row0 + r) * toFun (panelCooYX 3 m n row0 CPanel.fk0y1y2.entry unitBase monoI) (row0 + r) (row0 + c) * v (row0 + c) :=
  k0y1y2_matrix_psd_cpanel unitBase monoI monoI_comm (by norm_num [unitBase]) (by norm_num [unitBase]) (by norm_num [unitBase]) unitF_isABD unitF_psd
    (by norm_num [unitBase]) mono mono (-1) 1 (-1) 1 (monoI_real _ _) m n row0 v

open Compmech.Asm PSDExample in
example (s m n row0 : Nat) (v : Nat → ℝ) :
    0 ≤ ∑ r ∈ Finset.range (3 * m * n), ∑ c ∈ Finset.range (3 * m * n),
      v (row0 + r) * toFun (conePanelCoo s 3 m n row0 KPanel.fk0.entry unitBase fun _ => monoI) (row0 + r) (row0 + c)
        * v (row0 + c) :=
  k0_matrix_psd_kpanel unitBase (fun _ => monoI) (fun _ => monoI_comm) s (by norm_num [unitBase])
    (fun sec => (section_b_pos s sec).ne')
    (fun sec => (section_r_pos s sec).ne') unitF_isABD unitF_psd
    (fun sec _ => mul_nonneg (by norm_num [unitBase]) (section_b_pos s sec).le)
    (fun _ => mono) (fun _ => mono) (fun _ => -1) (fun _ => 1) (fun _ => -1) (fun _ => 1) (fun _ _ => monoI_real _ _)
    m n row0 v

open Compmech.Asm PSDExample in
example (s m n row0 : Nat) (v : Nat → ℝ) :
    0 ≤ ∑ r ∈ Finset.range (3 * m * n), ∑ c ∈ Finset.range (3 * m * n),
      v (row0 + r) * toFun (conePanelCoo s 3 m n row0 KPanel.fk0y1y2.entry unitBase fun _ => monoI) (row0 + r) (row0 + c)
        * v (row0 + c) :=
  k0y1y2_matrix_psd_kpanel unitBase (fun _ => monoI) (fun _ => monoI_comm) s (by norm_num [unitBase])
    (fun sec => (section_b_pos s sec).ne')
    (fun sec => (section_r_pos s sec).ne') unitF_isABD unitF_psd
    (fun sec _ => mul_nonneg (by norm_num [unitBase]) (section_b_pos s sec).le)
    (fun _ => mono) (fun _ => mono) (fun _ => -1) (fun _ => 1) (fun _ => -1) (fun _ => 1) (fun _ _ => monoI_real _ _)
    m n row0 v

/-! ### … instantiated at the package's own basis

`bardellI ξ₁ ξ₂ η₁ η₂` (Spec/BardellIntegrals.lean): the exact REAL integrals of products of (derivatives of) the Bardell polynomials with
unit flags — whole edge, section `[ξ₁, ξ₂]`, strip `[η₁, η₂]`.  For it the hypotheses `I.Comm` and `RealIntegrals` are theorems, so the
positive semi-definiteness of the constitutive stiffness holds for the actual basis of the package with only `a, b (, r) ≠ 0`, `a·b ≥ 0`
and a positive semi-definite laminate matrix (C01 `abd_posdef` through `abd_weight_psd`) left as hypotheses. -/

open Compmech.Asm in
theorem k0_matrix_psd_bardell_plate (base : PCtx ℝ) (ha : base.a ≠ 0) (hb : base.b ≠ 0) (hF : IsABD base.F) (hpsd : WeightPSD base.F)
    (hab : 0 ≤ base.a * base.b) (ξ₁ ξ₂ η₁ η₂ : ℝ) (m n row0 : Nat) (v : Nat → ℝ) :
    0 ≤ ∑ r ∈ Finset.range (3 * m * n), ∑ c ∈ Finset.range (3 * m * n),
      v (row0 + r) * toFun (panelCoo 3 m n row0 Plate.fk0.entry base (bardellI ξ₁ ξ₂ η₁ η₂)) (row0 + r) (row0 + c) * v (row0 + c) :=
  k0_matrix_psd_plate base _ (bardellI_comm ξ₁ ξ₂ η₁ η₂) ha hb hF hpsd hab bfun bfun (-1) 1 (-1) 1
    (bardellI_real_full_full ξ₁ ξ₂ η₁ η₂) m n row0 v

open Compmech.Asm in
theorem k0y1y2_matrix_psd_bardell_plate (base : PCtx ℝ) (ha : base.a ≠ 0) (hb : base.b ≠ 0) (hF : IsABD base.F) (hpsd : WeightPSD base.F)
    (hab : 0 ≤ base.a * base.b) (ξ₁ ξ₂ η₁ η₂ : ℝ) (hη : η₁ ≤ η₂) (m n row0 : Nat) (v : Nat → ℝ) :
    0 ≤ ∑ r ∈ Finset.range (3 * m * n), ∑ c ∈ Finset.range (3 * m * n),
      v (row0 + r) * toFun (panelCooYX 3 m n row0 Plate.fk0y1y2.entry base (bardellI ξ₁ ξ₂ η₁ η₂)) (row0 + r) (row0 + c) * v (row0 + c) :=
  k0y1y2_matrix_psd_plate base _ (bardellI_comm ξ₁ ξ₂ η₁ η₂) ha hb hF hpsd hab bfun bfun (-1) 1 η₁ η₂
    (bardellI_real_full_sub ξ₁ ξ₂ η₁ η₂ hη) m n row0 v

open Compmech.Asm in
theorem k0_matrix_psd_bardell_cpanel (base : PCtx ℝ) (ha : base.a ≠ 0) (hb : base.b ≠ 0) (hr : base.r ≠ 0) (hF : IsABD base.F)
    (hpsd : WeightPSD base.F) (hab : 0 ≤ base.a * base.b) (ξ₁ ξ₂ η₁ η₂ : ℝ) (m n row0 : Nat) (v : Nat → ℝ) :
    0 ≤ ∑ r ∈ Finset.range (3 * m * n), ∑ c ∈ Finset.range (3 * m * n),
      v (row0 + r) * toFun (panelCoo 3 m n row0 CPanel.fk0.entry base (bardellI ξ₁ ξ₂ η₁ η₂)) (row0 + r) (row0 + c) * v (row0 + c) :=
  k0_matrix_psd_cpanel base _ (bardellI_comm ξ₁ ξ₂ η₁ η₂) ha hb hr hF hpsd hab bfun bfun (-1) 1 (-1) 1
    (bardellI_real_full_full ξ₁ ξ₂ η₁ η₂) m n row0 v

open Compmech.Asm in
theorem k0y1y2_matrix_psd_bardell_cpanel (base : PCtx ℝ) (ha : base.a ≠ 0) (hb : base.b ≠ 0) (hr : base.r ≠ 0) (hF : IsABD base.F)
    (hpsd : WeightPSD base.F) (hab : 0 ≤ base.a * base.b) (ξ₁ ξ₂ η₁ η₂ : ℝ) (hη : η₁ ≤ η₂) (m n row0 : Nat) (v : Nat → ℝ) :
    0 ≤ ∑ r ∈ Finset.range (3 * m * n), ∑ c ∈ Finset.range (3 * m * n),
      v (row0 + r) * toFun (panelCooYX 3 m n row0 CPanel.fk0y1y2.entry base (bardellI ξ₁ ξ₂ η₁ η₂)) (row0 + r) (row0 + c) * v (row0 + c) :=
  k0y1y2_matrix_psd_cpanel base _ (bardellI_comm ξ₁ ξ₂ η₁ η₂) ha hb hr hF hpsd hab bfun bfun (-1) 1 η₁ η₂
    (bardellI_real_full_sub ξ₁ ξ₂ η₁ η₂ hη) m n row0 v

open Compmech.Asm in
/-- conical panel: section `sec` integrates over `[ξ₁ sec, ξ₂ sec] × [−1, 1]` with its own constant radius -/
theorem k0_matrix_psd_bardell_kpanel (base : PCtx ℝ) (s : Nat) (ha : base.a ≠ 0) (hb : ∀ sec, (sectionBase base s sec).b ≠ 0)
    (hr : ∀ sec, (sectionBase base s sec).r ≠ 0) (hF : IsABD base.F) (hpsd : WeightPSD base.F)
    (hab : ∀ sec, sec < s → 0 ≤ base.a * (sectionBase base s sec).b)
    (ξ₁ ξ₂ : Nat → ℝ) (hξ : ∀ sec, sec < s → ξ₁ sec ≤ ξ₂ sec) (η₁ η₂ : ℝ) (m n row0 : Nat) (v : Nat → ℝ) :
    0 ≤ ∑ r ∈ Finset.range (3 * m * n), ∑ c ∈ Finset.range (3 * m * n),
      v (row0 + r) * toFun (conePanelCoo s 3 m n row0 KPanel.fk0.entry base fun sec => bardellI (ξ₁ sec) (ξ₂ sec) η₁ η₂)
        (row0 + r) (row0 + c) * v (row0 + c) :=
  k0_matrix_psd_kpanel base _ (fun sec => bardellI_comm (ξ₁ sec) (ξ₂ sec) η₁ η₂) s ha hb hr hF hpsd hab
    (fun _ => bfun) (fun _ => bfun) ξ₁ ξ₂ (fun _ => -1) (fun _ => 1)
    (fun sec hsec => bardellI_real_sub_full (ξ₁ sec) (ξ₂ sec) η₁ η₂ (hξ sec hsec)) m n row0 v

open Compmech.Asm in
/-- `w`-only plate, Bardell basis (all edges free): `vᵀ K v ≥ 0` for every `v`, every `m, n, row0` -/
theorem k0_matrix_psd_bardell_plate_w (base : PCtx ℝ) (ha : base.a ≠ 0) (hb : base.b ≠ 0) (hF : IsABD base.F) (hpsd : WeightPSD base.F)
    (hab : 0 ≤ base.a * base.b) (ξ₁ ξ₂ η₁ η₂ : ℝ) (m n row0 : Nat) (v : Nat → ℝ) :
    0 ≤ ∑ r ∈ Finset.range (1 * m * n), ∑ c ∈ Finset.range (1 * m * n),
      v (row0 + r) * toFun (panelCoo 1 m n row0 PlateW.fk0.entry base (bardellI ξ₁ ξ₂ η₁ η₂)) (row0 + r) (row0 + c) * v (row0 + c) :=
  k0_matrix_psd_plate_w base _ (bardellI_comm ξ₁ ξ₂ η₁ η₂) ha hb hF hpsd hab bfun bfun (-1) 1 (-1) 1
    (bardellI_real_full_full ξ₁ ξ₂ η₁ η₂) m n row0 v

open Compmech.Asm in
/-- `w`-only plate, strip `[η₁, η₂]` -/
theorem k0y1y2_matrix_psd_bardell_plate_w (base : PCtx ℝ) (ha : base.a ≠ 0) (hb : base.b ≠ 0) (hF : IsABD base.F)
    (hpsd : WeightPSD base.F) (hab : 0 ≤ base.a * base.b) (ξ₁ ξ₂ η₁ η₂ : ℝ) (hη : η₁ ≤ η₂) (m n row0 : Nat) (v : Nat → ℝ) :
    0 ≤ ∑ r ∈ Finset.range (1 * m * n), ∑ c ∈ Finset.range (1 * m * n),
      v (row0 + r) * toFun (panelCooYX 1 m n row0 PlateW.fk0y1y2.entry base (bardellI ξ₁ ξ₂ η₁ η₂)) (row0 + r) (row0 + c) * v (row0 + c) :=
  k0y1y2_matrix_psd_plate_w base _ (bardellI_comm ξ₁ ξ₂ η₁ η₂) ha hb hF hpsd hab bfun bfun (-1) 1 η₁ η₂
    (bardellI_real_full_sub ξ₁ ξ₂ η₁ η₂ hη) m n row0 v

open Compmech.Asm in
/-- conical panel, strip: section `sec` integrates over `[ξ₁ sec, ξ₂ sec] × [η₁, η₂]` with its own constant radius -/
theorem k0y1y2_matrix_psd_bardell_kpanel (base : PCtx ℝ) (s : Nat) (ha : base.a ≠ 0) (hb : ∀ sec, (sectionBase base s sec).b ≠ 0)
    (hr : ∀ sec, (sectionBase base s sec).r ≠ 0) (hF : IsABD base.F) (hpsd : WeightPSD base.F)
    (hab : ∀ sec, sec < s → 0 ≤ base.a * (sectionBase base s sec).b)
    (ξ₁ ξ₂ : Nat → ℝ) (hξ : ∀ sec, sec < s → ξ₁ sec ≤ ξ₂ sec) (η₁ η₂ : ℝ) (hη : η₁ ≤ η₂) (m n row0 : Nat) (v : Nat → ℝ) :
    0 ≤ ∑ r ∈ Finset.range (3 * m * n), ∑ c ∈ Finset.range (3 * m * n),
      v (row0 + r) * toFun (conePanelCoo s 3 m n row0 KPanel.fk0y1y2.entry base fun sec => bardellI (ξ₁ sec) (ξ₂ sec) η₁ η₂)
        (row0 + r) (row0 + c) * v (row0 + c) :=
  k0y1y2_matrix_psd_kpanel base _ (fun sec => bardellI_comm (ξ₁ sec) (ξ₂ sec) η₁ η₂) s ha hb hr hF hpsd hab
    (fun _ => bfun) (fun _ => bfun) ξ₁ ξ₂ (fun _ => η₁) (fun _ => η₂)
    (fun sec hsec => bardellI_real_sub_sub (ξ₁ sec) (ξ₂ sec) η₁ η₂ (hξ sec hsec) hη) m n row0 v

open Compmech.Asm PSDExample in
/-- non-vacuity: the conical instance of Spec/PSDExample.lean with the Bardell integrals on 41 sections of equal length
(`ξ₁ sec = 2 sec/41 − 1`) and the strip `η ∈ [−1/2, 1/2]` -/
example (m n row0 : Nat) (v : Nat → ℝ) :
    0 ≤ ∑ r ∈ Finset.range (3 * m * n), ∑ c ∈ Finset.range (3 * m * n),
      v (row0 + r) * toFun (conePanelCoo 41 3 m n row0 KPanel.fk0y1y2.entry unitBase
          fun sec => bardellI (2 * sec / 41 - 1) (2 * (sec + 1) / 41 - 1) (-1 / 2) (1 / 2)) (row0 + r) (row0 + c) * v (row0 + c) :=
  k0y1y2_matrix_psd_bardell_kpanel unitBase 41 (by norm_num [unitBase]) (fun sec => (section_b_pos 41 sec).ne')
    (fun sec => (section_r_pos 41 sec).ne') unitF_isABD unitF_psd
    (fun sec _ => mul_nonneg (by norm_num [unitBase]) (section_b_pos 41 sec).le)
    (fun sec => 2 * sec / 41 - 1) (fun sec => 2 * (sec + 1) / 41 - 1) (fun sec _ => by linarith) (-1 / 2) (1 / 2) (by norm_num)
    m n row0 v

open Compmech.Asm PSDExample in
example (m n row0 : Nat) (v : Nat → ℝ) :
    0 ≤ ∑ r ∈ Finset.range (1 * m * n), ∑ c ∈ Finset.range (1 * m * n),
      v (row0 + r) * toFun (panelCooYX 1 m n row0 PlateW.fk0y1y2.entry unitBase (bardellI 0 0 (-1 / 2) (1 / 2))) (row0 + r) (row0 + c)
        * v (row0 + c) :=
  k0y1y2_matrix_psd_bardell_plate_w unitBase (by norm_num [unitBase]) (by norm_num [unitBase]) unitF_isABD unitF_psd
    (by norm_num [unitBase]) 0 0 (-1 / 2) (1 / 2) (by norm_num) m n row0 v

/-! ### the Python glue of `Panel.calc_k0 / calc_kA / calc_cA` (hand model `Model/PanelGlue.lean`, tied to the running `_panel.py`
by the recorded-kernel-call correspondence of `tools/props/C02.py : glue_correspondence`; `calc_kG0` is in `Props/C03.lean`,
`calc_kM` in `Props/C04.lean`)

For ALL panel states `P` and call arguments `A` (over any linearly ordered field): WHICH kernel is called with WHICH scalar
arguments in which order, and how the results are combined.  Vocabulary (`Model/PanelGlueLemmas.lean`):
`P.onStrip` — both `y1` and `y2` are numbers (`0.0` is a number, `None` is not); `boundsSpec P` = `[y1, y2]` then, `[]` otherwise;
`zeroIfNone` — `None` read as `0.`; `P.nonzeroPreload` — at least one of `Nxx_cte, Nyy_cte, Nxy_cte` is a number different from 0;
`placeSpec k P A` = `[size, row0, col0]` with what the caller passed, else `dofs·m·n`, `0`, `0`; `sig R` — kernel name and
argument list of every recorded call; `g.placement` — the three arguments that follow the panel object in the call `g`. -/

section glue
open Compmech.PanelGlue Compmech.Asm Compmech
variable {F : Type} [Field F] [LinearOrder F]

/-- **`calc_k0` dispatch** (analytic route: no `c`, no `Fnxny`).  Whenever the call succeeds:
the FIRST kernel call is the constitutive kernel of the analytic module — the strip kernel `fk0y1y2` iff BOTH `y1` and `y2` are
given (also when `y1 = 0.0`), with exactly `(y1, y2)` in front, the full-width kernel `fk0` with no bounds otherwise — followed by the
panel and the placement; an initial-stress kernel call follows iff at least one pre-load component is a non-zero number (not: iff
their sum is non-zero), there is at most one, it is on the SAME domain as the constitutive kernel (`fkG0y1y2` with the same bounds
iff strip) and gets `(Nxx_cte, Nyy_cte, Nxy_cte)` IN THIS ORDER with `None` read as `0`; every kernel sees the panel with `r` and
`alpharad` refreshed from the current definition (`None → 0`); the result is the sum of the kernel results, passed through
`finalize_symmetric_matrix` iff `finalize`. -/
theorem calc_k0_dispatch (P : Panel F) (A : Args F) (R : Result F) (hc : A.c = none) (hF : A.fnxny = false)
    (h : (calcK0 P A).res = .ok R) :
    ∃ k c0 pre, (calcK0 P A).post.model = .kind k ∧ R.calls = c0 :: pre ∧
      c0.num = false ∧ (c0.name = .fk0y1y2 ↔ P.onStrip) ∧ (c0.name = .fk0 ↔ ¬ P.onStrip) ∧
      c0.args = boundsSpec P ++ .panel :: placeSpec k P A ∧
      (pre ≠ [] ↔ P.nonzeroPreload) ∧
      (∀ g ∈ pre, pre = [g] ∧ g.num = false ∧ (g.name = .fkG0y1y2 ↔ P.onStrip) ∧ (g.name = .fkG0 ↔ ¬ P.onStrip) ∧
        g.args = boundsSpec P ++ [.q (zeroIfNone P.NxxCte), .q (zeroIfNone P.NyyCte), .q (zeroIfNone P.NxyCte), .panel] ++
          placeSpec k P A) ∧
      (∀ g ∈ R.calls, g.r = some (zeroIfNone P.r) ∧ g.alpharadFrom = some (zeroIfNone P.alphadeg)) ∧
      R.comb = (if A.finalize = true then Comb.fin else id) (if pre = [] then .call 0 else .add (.call 0) (.call 1)) := by
  obtain ⟨k, P3, c0, hsd, hpost, hk, hr, hal, hc0, hR⟩ := calcK0_ok h
  rw [k0Const_analytic k P3 A _ hc hF, placement_eq] at hc0
  injection hc0 with hc0
  have hb : boundsSpec P3 = boundsSpec P := by unfold boundsSpec; rw [hsd.y1, hsd.y2]
  have hpre : preloaded P3 = true ↔ P.nonzeroPreload := by
    rw [preloaded_iff]; unfold Panel.nonzeroPreload; rw [hsd.NxxCte, hsd.NyyCte, hsd.NxyCte]
  have hstrip : ∀ (a b : KName), ((match P3.y1, P3.y2 with | some _, some _ => a | _, _ => b) = a ↔ (P.onStrip ∨ a = b)) := by
    intro a b
    unfold Panel.onStrip
    rw [hsd.y1, hsd.y2]
    cases P.y1 <;> cases P.y2 <;> simp [eq_comm]
  have hstrip' : ∀ (a b : KName), ((match P3.y1, P3.y2 with | some _, some _ => a | _, _ => b) = b ↔ (¬ P.onStrip ∨ a = b)) := by
    intro a b
    unfold Panel.onStrip
    rw [hsd.y1, hsd.y2]
    cases P.y1 <;> cases P.y2 <;> simp
  refine ⟨k, c0, k0Prestress P3 A (sizeSpec k P A), by rw [hpost]; exact hk, by rw [hR], ?_, ?_, ?_, ?_, ?_, ?_, ?_, ?_⟩
  · rw [← hc0]; rfl
  · rw [← hc0]; show (match P3.y1, P3.y2 with | some _, some _ => KName.fk0y1y2 | _, _ => .fk0) = _ ↔ _
    rw [hstrip]; simp
  · rw [← hc0]; show (match P3.y1, P3.y2 with | some _, some _ => KName.fk0y1y2 | _, _ => .fk0) = _ ↔ _
    rw [hstrip']; simp
  · rw [← hc0]; show boundsSpec P3 ++ _ = _
    rw [hb]
  · rw [k0Prestress_spec]
    by_cases hp : preloaded P3 = true
    · simp [hp, hpre.mp hp]
    · simp [hp, mt hpre.mpr hp]
  · intro g hg
    rw [k0Prestress_spec] at hg ⊢
    by_cases hp : preloaded P3 = true
    · simp only [hp, if_true, List.mem_singleton] at hg ⊢
      subst hg
      refine ⟨rfl, rfl, ?_, ?_, ?_⟩
      · show (match P3.y1, P3.y2 with | some _, some _ => KName.fkG0y1y2 | _, _ => .fkG0) = _ ↔ _
        rw [hstrip]; simp
      · show (match P3.y1, P3.y2 with | some _, some _ => KName.fkG0y1y2 | _, _ => .fkG0) = _ ↔ _
        rw [hstrip']; simp
      · show boundsSpec P3 ++ _ ++ _ = _
        rw [hb, hsd.NxxCte, hsd.NyyCte, hsd.NxyCte, placement_eq]
    · simp [hp] at hg
  · intro g hg
    rw [hR] at hg
    simp only [List.mem_cons] at hg
    rcases hg with rfl | hg
    · rw [← hc0]; exact ⟨by show P3.r = _; rw [hr, getD_eq_zeroIfNone], by show P3.alpharadFrom = _; rw [hal, getD_eq_zeroIfNone]⟩
    · rw [k0Prestress_spec] at hg
      by_cases hp : preloaded P3 = true
      · simp only [hp, if_true, List.mem_singleton] at hg
        subst hg
        exact ⟨by show P3.r = _; rw [hr, getD_eq_zeroIfNone], by show P3.alpharadFrom = _; rw [hal, getD_eq_zeroIfNone]⟩
      · simp [hp] at hg
  · rw [hR, k0Prestress_spec]
    by_cases hp : preloaded P3 = true <;> cases A.finalize <;> simp [hp, finWrap, sumCalls]

/-- non-vacuity: the witness panel — strip starting exactly at `y1 = 0.0`, equal and opposite pre-load `(5, −5, None)` whose sum
vanishes, model left to `_rebuild` — gets `fk0y1y2(0, 1/2, panel, 18, 0, 0)` and `fkG0y1y2(0, 1/2, 5, −5, 0, panel, 18, 0, 0)`, and
the result is `finalize(c0 + c1)` -/
example : ∃ R, (calcK0 exPanel {}).res = .ok R ∧
    sig R = [(.fk0y1y2, [.q 0, .q (1 / 2), .panel, .nat 18, .nat 0, .nat 0]),
             (.fkG0y1y2, [.q 0, .q (1 / 2), .q 5, .q (-5), .q 0, .panel, .nat 18, .nat 0, .nat 0])] ∧
    R.comb = .fin (.add (.call 0) (.call 1)) := by
  refine ⟨_, rfl, rfl, ?_⟩
  decide

/-- **`calc_kA` dispatch**: conical panels are rejected (`NotImplementedError`); whenever the call succeeds the model is flat or
cylindrical, the flow direction is `x` or `y`, and with `(beta, gamma, aeromu)` the coefficients of `Model/Piston.lean` — the
user's `beta` with `gamma`, `aeromu` defaulting to 0 when `beta` is given, the Mach route `fromMach` (C19 `coefficients_from_mach`)
otherwise, evaluated with `r` defaulting to 0 — flow along `y` calls `fkAy(beta, panel, placement)` once; flow along `x` calls
`fkAx(beta, gamma, …)` once, except with `finalize` and `gamma ≠ 0`, where the flow term and the curvature term are requested
separately, `fkAx(beta, 0, …)` and `fkAx(0, gamma, …)`, the first completed skew-symmetrically and the second symmetrically. -/
theorem calc_kA_dispatch (P : Panel F) (A : Args F) (q : F) :
    (P.model = .kind .kpanel → (calcKA P A q).res = .error .conical) ∧
    (∀ R, (calcKA P A q).res = .ok R →
      ∃ k cf, P.model = .kind k ∧ k ≠ .kpanel ∧ (P.flow = .x ∨ P.flow = .y) ∧
        Piston.coefs P.beta P.gamma P.aeromu P.mach P.rhoAir P.V P.speedSound (zeroIfNone P.r) q = .ok cf ∧
        (∀ b, P.beta = some b → cf = ⟨b, zeroIfNone P.gamma, zeroIfNone P.aeromu⟩) ∧
        (P.beta = none → Piston.fromMach P.mach P.rhoAir P.V P.speedSound (zeroIfNone P.r) q = .ok cf) ∧
        (∀ g ∈ R.calls, g.num = false ∧ g.r = some (zeroIfNone P.r)) ∧
        (P.flow = .y → sig R = [(.fkAy, [.q cf.beta, .panel] ++ placeSpec k P A)] ∧
          R.comb = if A.finalize = true then .skew (.call 0) else .call 0) ∧
        (P.flow = .x →
          (A.finalize = true ∧ cf.gamma ≠ 0 →
            sig R = [(.fkAx, [.q cf.beta, .q 0, .panel] ++ placeSpec k P A),
                     (.fkAx, [.q 0, .q cf.gamma, .panel] ++ placeSpec k P A)] ∧
            R.comb = .add (.skew (.call 0)) (.fin (.call 1))) ∧
          (¬ (A.finalize = true ∧ cf.gamma ≠ 0) →
            sig R = [(.fkAx, [.q cf.beta, .q cf.gamma, .panel] ++ placeSpec k P A)] ∧
            R.comb = if A.finalize = true then .skew (.call 0) else .call 0))) := by
  constructor
  · intro hm
    simp [calcKA, hm, ModelKind.conical]
  · intro R h
    obtain ⟨k, cf, hk, hcon, hcf, hfl, hcalls, hy, hx⟩ := calcKA_ok h
    refine ⟨k, cf, hk, ?_, ?_, hcf, ?_, ?_, fun g hg => ⟨(hcalls g hg).1, (hcalls g hg).2.1⟩, hy, hx⟩
    · rintro rfl; simp [ModelKind.conical] at hcon
    · cases hf : P.flow <;> simp_all
    · intro b hb
      rw [hb] at hcf
      simp only [Piston.coefs, getD_eq_zeroIfNone] at hcf
      injection hcf with hcf
      exact hcf.symm
    · intro hb
      rw [hb] at hcf
      simpa [Piston.coefs] using hcf

/-- non-vacuity: the witness panel as a cylindrical panel of radius 3 with `beta = 2`, `gamma = 3`, `finalize`: two `fkAx` calls -/
example : ∃ R, (calcKA { exPanel with model := .kind .cpanel, r := some 3 } {} 1).res = .ok R ∧
    sig R = [(.fkAx, [.q 2, .q 0, .panel, .nat 18, .nat 0, .nat 0]), (.fkAx, [.q 0, .q 3, .panel, .nat 18, .nat 0, .nat 0])] ∧
    R.comb = .add (.skew (.call 0)) (.fin (.call 1)) := by
  refine ⟨_, rfl, rfl, ?_⟩
  decide

set_option linter.unusedSectionVars false in
/-- **`calc_cA` dispatch**: the conical model has no damping kernel (`AttributeError`); whenever the call succeeds the panel has a
`size` attribute `s` (created by an earlier `get_size()`), the single call is `fcA(aeromu, panel, s, 0, 0)`, the stored matrix is
`1j` times (the finalized, iff `finalize`) kernel result, nothing is returned and no attribute of the panel changes. -/
theorem calc_cA_dispatch (P : Panel F) (aeromu : F) (fin : Bool) :
    (P.model = .kind .kpanel → (calcCA P aeromu fin).res = .error .noKernel) ∧
    (∀ R, (calcCA P aeromu fin).res = .ok R →
      ∃ s, P.sizeAttr = some s ∧ sig R = [(.fcA, [.q aeromu, .panel, .nat s, .nat 0, .nat 0])] ∧
        R.imag = true ∧ R.returned = false ∧ R.comb = (if fin = true then Comb.fin else id) (.call 0) ∧
        (calcCA P aeromu fin).post = P) := by
  constructor
  · intro hm
    simp [calcCA, hm, ModelAttr.kind?, ModelKind.hasAero]
  · intro R h
    unfold calcCA at h ⊢
    cases hm : P.model.kind? with
    | none => simp [hm] at h
    | some k =>
      simp only [hm] at h ⊢
      cases ha : k.hasAero with
      | false => simp [ha] at h
      | true =>
        simp only [ha] at h ⊢
        cases hs : P.sizeAttr with
        | none => simp [hs] at h
        | some s =>
          simp only [hs] at h ⊢
          injection h with h
          subst h
          cases fin <;> simp [sig, mkCall, finWrap]

/-- **placement**: in every successful `calc_k0`, `calc_kG0`, `calc_kM`, `calc_kA` call — analytic or numerical route — EVERY kernel
call carries, right after the panel object, `size, row0, col0` exactly as the caller passed them, and the defaults `dofs·m·n`
(the `get_size()` of the model `_rebuild` settled on), `0`, `0` for the ones not passed. -/
theorem glue_placement (P : Panel F) (A : Args F) (q : F) :
    (∀ R, (calcK0 P A).res = .ok R →
      ∃ k, (calcK0 P A).post.model = .kind k ∧ ∀ g ∈ R.calls, g.placement = placeSpec k P A) ∧
    (∀ R, (calcKG0 P A).res = .ok R →
      ∃ k, (calcKG0 P A).post.model = .kind k ∧ ∀ g ∈ R.calls, g.placement = placeSpec k P A) ∧
    (∀ R, (calcKM P A).res = .ok R → ∃ k, P.model = .kind k ∧ ∀ g ∈ R.calls, g.placement = placeSpec k P A) ∧
    (∀ R, (calcKA P A q).res = .ok R → ∃ k, P.model = .kind k ∧ ∀ g ∈ R.calls, g.placement = placeSpec k P A) ∧
    (∀ k, placeSpec k P A =
      [.nat (match A.size with | some s => s | none => k.dofs * P.m * P.n),
       .nat (match A.row0 with | some r => r | none => 0), .nat (match A.col0 with | some c => c | none => 0)]) := by
  refine ⟨?_, ?_, ?_, ?_, fun _ => rfl⟩
  · intro R h
    obtain ⟨k, P3, c0, _, hpost, hk, _, _, hc0, hR⟩ := calcK0_ok h
    refine ⟨k, by rw [hpost]; exact hk, ?_⟩
    intro g hg
    rw [hR] at hg
    rw [← placement_eq]
    rcases List.mem_cons.mp hg with rfl | hg
    · exact k0Const_placement k P3 A _ _ hc0
    · exact k0Prestress_placement P3 A _ g hg
  · intro R h
    exact calcKG0_placement h
  · intro R h
    obtain ⟨k, P2, _, _, hk, _, _, _, hR⟩ := calcKM_ok h
    refine ⟨k, hk, ?_⟩
    intro g hg
    rw [hR] at hg
    simp only [List.mem_singleton] at hg
    subst hg
    rw [← placement_eq]
    unfold boundsSpec
    cases P.y1 <;> cases P.y2 <;> simp [KCall.placement, mkCall, afterPanel, placement]
  · intro R h
    obtain ⟨k, cf, hk, _, _, _, hcalls, _, _⟩ := calcKA_ok h
    exact ⟨k, hk, fun g hg => (hcalls g hg).2.2.2⟩

/-- **`calc_k0` = constitutive + initial-stress matrix** (kernels abstract): let `kern` say what each kernel call returns.  If the
finalized result of the constitutive call the dispatch theorem describes is the matrix `E` and the finalized result of the
initial-stress call it describes is `G` (hypotheses discharged for the regenerated kernels by `k0_matrix_*` and `kG0_matrix_*`:
`calc_k0_eq_energy_hessian_plus_prestress_plate/_cpanel` below), then with `finalize` the matrix `calc_k0()` returns is, entry by
entry, `E + G` when some pre-load component is a non-zero number and `E` otherwise. -/
theorem calc_k0_eq_energy_hessian_plus_prestress (P : Panel F) (A : Args F) (R : Result F) (kern : KCall F → Coo F)
    (E G : Nat → Nat → F) (hc : A.c = none) (hF : A.fnxny = false) (hfin : A.finalize = true)
    (h : (calcK0 P A).res = .ok R)
    (hE : ∀ k g, (calcK0 P A).post.model = .kind k → g.num = false → (g.name = .fk0y1y2 ↔ P.onStrip) →
      (g.name = .fk0 ↔ ¬ P.onStrip) → g.args = boundsSpec P ++ .panel :: placeSpec k P A →
      ∀ r c, toFun (finalize (kern g)) r c = E r c)
    (hG : ∀ k g, (calcK0 P A).post.model = .kind k → g.num = false → (g.name = .fkG0y1y2 ↔ P.onStrip) →
      (g.name = .fkG0 ↔ ¬ P.onStrip) →
      g.args = boundsSpec P ++ [.q (zeroIfNone P.NxxCte), .q (zeroIfNone P.NyyCte), .q (zeroIfNone P.NxyCte), .panel] ++
        placeSpec k P A →
      ∀ r c, toFun (finalize (kern g)) r c = G r c)
    (r c : Nat) :
    (P.nonzeroPreload → toFun (R.eval kern) r c = E r c + G r c) ∧
    (¬ P.nonzeroPreload → toFun (R.eval kern) r c = E r c) := by
  obtain ⟨k, c0, pre, hk, hcalls, hn0, hs0, hf0, ha0, hpre, hg, _, _⟩ := calc_k0_dispatch P A R hc hF h
  obtain ⟨c0', pre', hcalls', hev⟩ := calc_k0_eval P A R kern hfin h r c
  rw [hcalls] at hcalls'
  injection hcalls' with e1 e2
  subst e1; subst e2
  rw [hev, hE k c0 hk hn0 hs0 hf0 ha0 r c]
  constructor
  · intro hp
    have hne : pre ≠ [] := hpre.mpr hp
    cases pre with
    | nil => exact absurd rfl hne
    | cons g t =>
      obtain ⟨hsingle, hng, hsg, hfg, hag⟩ := hg g (by simp)
      injection hsingle with _ ht
      subst ht
      simp [hG k g hk hng hsg hfg hag r c]
  · intro hp
    have : pre = [] := by
      by_contra hne
      exact hp (hpre.mp hne)
    subst this
    simp

/-- **`calc_k0` with the regenerated flat-plate kernels** (`panelKern plateTable`: the loop nests over the regenerated entry
expressions, Spec/PanelGlueKernels.lean): with `finalize` and `row0 = col0`, at the positions of ANY two degrees of freedom the matrix
`calc_k0()` returns holds the Hessian of the Donnell strain energy over the panel's OWN domain (`domOf P`: the strip iff both bounds
are given) plus — iff a pre-load component is a non-zero number (`preloaded P`, = `P.nonzeroPreload` by `preloaded_iff`) — the Hessian
of the pre-stress work of `(Nxx_cte, Nyy_cte, Nxy_cte)` (`panelPreload P base`) over the SAME domain.
(`k0_matrix_plate`, `k0y1y2_matrix_plate`, C03 `kG0_matrix_plate`, `kG0y1y2_matrix_plate` instantiate the kernel hypotheses.) -/
theorem calc_k0_eq_energy_hessian_plus_prestress_plate [CharZero F] (P : Panel F) (A : Args F) (R : Result F) (base : PCtx F)
    (I : Integrals F) (hI : I.Comm) (ha : base.a ≠ 0) (hb : base.b ≠ 0) (hABD : IsABD base.F)
    (hc : A.c = none) (hF : A.fnxny = false) (hfin : A.finalize = true) (hplace : A.row0 = A.col0)
    (h : (calcK0 P A).res = .ok R)
    {i k j l : Nat} (hi : i < P.m) (hk : k < P.m) (hj : j < P.n) (hl : l < P.n) (α β : Fin 3) :
    toFun (R.eval (panelKern plateTable base I P.m P.n)) (A.row0.getD 0 + 3 * (j * P.m + i) + α.val)
        (A.row0.getD 0 + 3 * (l * P.m + k) + β.val)
      = hessian (ctxAt base I i k j l) .full (domOf P) (plateOps base) base.F (fld3 α) (fld3 β)
        + (if preloaded P = true then
            hessian (ctxAt (panelPreload P base) I i k j l) .full (domOf P) (gradOps (panelPreload P base))
              (prestressW (panelPreload P base)) (fld3 α) (fld3 β)
           else 0) := by
  rw [calc_k0_panelKern plateTable P A R base I hc hF hfin h hplace]
  have ha' : (panelPreload P base).a ≠ 0 := ha
  have hb' : (panelPreload P base).b ≠ 0 := hb
  unfold cooOf domOf
  rw [plateTable_fk0, plateTable_fk0y1y2, plateTable_fkG0, plateTable_fkG0y1y2]
  cases P.y1 <;> cases P.y2 <;> simp only
  · rw [k0_matrix_plate base I hI ha hb hABD P.m P.n _ hi hk hj hl α β,
      C03.kG0_matrix_plate (panelPreload P base) I hI ha' hb' P.m P.n _ hi hk hj hl α β]
  · rw [k0_matrix_plate base I hI ha hb hABD P.m P.n _ hi hk hj hl α β,
      C03.kG0_matrix_plate (panelPreload P base) I hI ha' hb' P.m P.n _ hi hk hj hl α β]
  · rw [k0_matrix_plate base I hI ha hb hABD P.m P.n _ hi hk hj hl α β,
      C03.kG0_matrix_plate (panelPreload P base) I hI ha' hb' P.m P.n _ hi hk hj hl α β]
  · rw [k0y1y2_matrix_plate base I hI ha hb hABD P.m P.n _ hi hk hj hl α β,
      C03.kG0y1y2_matrix_plate (panelPreload P base) I hI ha' hb' P.m P.n _ hi hk hj hl α β]

/-- the same for the cylindrical panel -/
theorem calc_k0_eq_energy_hessian_plus_prestress_cpanel [CharZero F] (P : Panel F) (A : Args F) (R : Result F) (base : PCtx F)
    (I : Integrals F) (hI : I.Comm) (ha : base.a ≠ 0) (hb : base.b ≠ 0) (hr : base.r ≠ 0) (hABD : IsABD base.F)
    (hc : A.c = none) (hF : A.fnxny = false) (hfin : A.finalize = true) (hplace : A.row0 = A.col0)
    (h : (calcK0 P A).res = .ok R)
    {i k j l : Nat} (hi : i < P.m) (hk : k < P.m) (hj : j < P.n) (hl : l < P.n) (α β : Fin 3) :
    toFun (R.eval (panelKern cpanelTable base I P.m P.n)) (A.row0.getD 0 + 3 * (j * P.m + i) + α.val)
        (A.row0.getD 0 + 3 * (l * P.m + k) + β.val)
      = hessian (ctxAt base I i k j l) .full (domOf P) (cpanelOps base) base.F (fld3 α) (fld3 β)
        + (if preloaded P = true then
            hessian (ctxAt (panelPreload P base) I i k j l) .full (domOf P) (gradOps (panelPreload P base))
              (prestressW (panelPreload P base)) (fld3 α) (fld3 β)
           else 0) := by
  rw [calc_k0_panelKern cpanelTable P A R base I hc hF hfin h hplace]
  have ha' : (panelPreload P base).a ≠ 0 := ha
  have hb' : (panelPreload P base).b ≠ 0 := hb
  unfold cooOf domOf
  rw [cpanelTable_fk0, cpanelTable_fk0y1y2, cpanelTable_fkG0, cpanelTable_fkG0y1y2]
  cases P.y1 <;> cases P.y2 <;> simp only
  · rw [k0_matrix_cpanel base I hI ha hb hr hABD P.m P.n _ hi hk hj hl α β,
      C03.kG0_matrix_cpanel (panelPreload P base) I hI ha' hb' P.m P.n _ hi hk hj hl α β]
  · rw [k0_matrix_cpanel base I hI ha hb hr hABD P.m P.n _ hi hk hj hl α β,
      C03.kG0_matrix_cpanel (panelPreload P base) I hI ha' hb' P.m P.n _ hi hk hj hl α β]
  · rw [k0_matrix_cpanel base I hI ha hb hr hABD P.m P.n _ hi hk hj hl α β,
      C03.kG0_matrix_cpanel (panelPreload P base) I hI ha' hb' P.m P.n _ hi hk hj hl α β]
  · rw [k0y1y2_matrix_cpanel base I hI ha hb hr hABD P.m P.n _ hi hk hj hl α β,
      C03.kG0y1y2_matrix_cpanel (panelPreload P base) I hI ha' hb' P.m P.n _ hi hk hj hl α β]

/-- the same for the `w`-only plate (`plateWTable`, one degree of freedom per pair of series indices) -/
theorem calc_k0_eq_energy_hessian_plus_prestress_platew [CharZero F] (P : Panel F) (A : Args F) (R : Result F) (base : PCtx F)
    (I : Integrals F) (hI : I.Comm) (ha : base.a ≠ 0) (hb : base.b ≠ 0) (hABD : IsABD base.F)
    (hc : A.c = none) (hF : A.fnxny = false) (hfin : A.finalize = true) (hplace : A.row0 = A.col0)
    (h : (calcK0 P A).res = .ok R)
    {i k j l : Nat} (hi : i < P.m) (hk : k < P.m) (hj : j < P.n) (hl : l < P.n) (α β : Fin 1) :
    toFun (R.eval (panelKern plateWTable base I P.m P.n)) (A.row0.getD 0 + 1 * (j * P.m + i) + α.val)
        (A.row0.getD 0 + 1 * (l * P.m + k) + β.val)
      = hessian (ctxAt base I i k j l) .full (domOf P) (plateOps base) base.F (fld1 α) (fld1 β)
        + (if preloaded P = true then
            hessian (ctxAt (panelPreload P base) I i k j l) .full (domOf P) (gradOps (panelPreload P base))
              (prestressW (panelPreload P base)) (fld1 α) (fld1 β)
           else 0) := by
  rw [calc_k0_panelKern plateWTable P A R base I hc hF hfin h hplace]
  have ha' : (panelPreload P base).a ≠ 0 := ha
  have hb' : (panelPreload P base).b ≠ 0 := hb
  unfold cooOf domOf
  rw [plateWTable_fk0, plateWTable_fk0y1y2, plateWTable_fkG0, plateWTable_fkG0y1y2]
  cases P.y1 <;> cases P.y2 <;> simp only
  · rw [k0_matrix_plate_w base I hI ha hb hABD P.m P.n _ hi hk hj hl α β,
      C03.kG0_matrix_plate_w (panelPreload P base) I hI ha' hb' P.m P.n _ hi hk hj hl α β]
  · rw [k0_matrix_plate_w base I hI ha hb hABD P.m P.n _ hi hk hj hl α β,
      C03.kG0_matrix_plate_w (panelPreload P base) I hI ha' hb' P.m P.n _ hi hk hj hl α β]
  · rw [k0_matrix_plate_w base I hI ha hb hABD P.m P.n _ hi hk hj hl α β,
      C03.kG0_matrix_plate_w (panelPreload P base) I hI ha' hb' P.m P.n _ hi hk hj hl α β]
  · rw [k0y1y2_matrix_plate_w base I hI ha hb hABD P.m P.n _ hi hk hj hl α β,
      C03.kG0y1y2_matrix_plate_w (panelPreload P base) I hI ha' hb' P.m P.n _ hi hk hj hl α β]

/-- **`calc_k0` with the regenerated conical-panel kernels** (`conePanelKern s kpanelTable`, Spec/PanelGlueKernelsCone.lean: the loop nest once
per constant-radius section; `s = 41` by `loop_nest_standard`): with `finalize` and `row0 = col0`, at the positions of ANY two degrees of
freedom the matrix `calc_k0()` returns holds the SUM over the sections of the Hessians of the Donnell strain energy of the conical
section (`kpanelOps` with the section's constant radius and width, `sectionBase`) over section × the panel's own `y` domain, plus — iff a
pre-load component is a non-zero number — the sum over the sections of the Hessians of the pre-stress work of
`(Nxx_cte, Nyy_cte, Nxy_cte)` over the same domains. -/
theorem calc_k0_eq_energy_hessian_plus_prestress_kpanel [CharZero F] (s : Nat) (P : Panel F) (A : Args F) (R : Result F)
    (base : PCtx F) (I : Nat → Integrals F) (hI : ∀ sec, (I sec).Comm) (ha : base.a ≠ 0)
    (hb : ∀ sec, (sectionBase base s sec).b ≠ 0) (hr : ∀ sec, (sectionBase base s sec).r ≠ 0) (hABD : IsABD base.F)
    (hc : A.c = none) (hF : A.fnxny = false) (hfin : A.finalize = true) (hplace : A.row0 = A.col0)
    (h : (calcK0 P A).res = .ok R)
    {i k j l : Nat} (hi : i < P.m) (hk : k < P.m) (hj : j < P.n) (hl : l < P.n) (α β : Fin 3) :
    toFun (R.eval (conePanelKern s kpanelTable base I P.m P.n)) (A.row0.getD 0 + 3 * (j * P.m + i) + α.val)
        (A.row0.getD 0 + 3 * (l * P.m + k) + β.val)
      = ((List.range s).map fun sec =>
          hessian (ctxAt (sectionBase base s sec) (I sec) i k j l) .sub (domOf P) (kpanelOps (sectionBase base s sec)) base.F
            (fld3 α) (fld3 β)).sum
        + (if preloaded P = true then
            ((List.range s).map fun sec =>
              hessian (ctxAt (sectionBase (panelPreload P base) s sec) (I sec) i k j l) .sub (domOf P)
                (gradOps (sectionBase (panelPreload P base) s sec)) (prestressW (sectionBase (panelPreload P base) s sec))
                (fld3 α) (fld3 β)).sum
           else 0) := by
  rw [calc_k0_conePanelKern s kpanelTable P A R base I hc hF hfin h hplace]
  have ha' : (panelPreload P base).a ≠ 0 := ha
  have hb' : ∀ sec, (sectionBase (panelPreload P base) s sec).b ≠ 0 := hb
  unfold coneCooOf domOf
  rw [kpanelTable_fk0, kpanelTable_fk0y1y2, kpanelTable_fkG0, kpanelTable_fkG0y1y2]
  cases P.y1 <;> cases P.y2 <;> simp only
  · rw [k0_matrix_kpanel base I hI s ha hb hr hABD P.m P.n _ hi hk hj hl α β,
      C03.kG0_matrix_kpanel (panelPreload P base) I hI s ha' hb' P.m P.n _ hi hk hj hl α β]
  · rw [k0_matrix_kpanel base I hI s ha hb hr hABD P.m P.n _ hi hk hj hl α β,
      C03.kG0_matrix_kpanel (panelPreload P base) I hI s ha' hb' P.m P.n _ hi hk hj hl α β]
  · rw [k0_matrix_kpanel base I hI s ha hb hr hABD P.m P.n _ hi hk hj hl α β,
      C03.kG0_matrix_kpanel (panelPreload P base) I hI s ha' hb' P.m P.n _ hi hk hj hl α β]
  · rw [k0y1y2_matrix_kpanel base I hI s ha hb hr hABD P.m P.n _ hi hk hj hl α β,
      C03.kG0y1y2_matrix_kpanel (panelPreload P base) I hI s ha' hb' P.m P.n _ hi hk hj hl α β]

open GlueExample in
/-- non-vacuity (conical model): the witness panel with `r = 3`, `alphadeg = −30` (model left to `_rebuild`, which selects the conical
model; strip from `y1 = 0.0`; pre-load `(5, −5, None)` whose sum vanishes) on the rational instance of Spec/PanelGlueKernelsCone.lean with
the 41 sections of the source: the call succeeds, the pre-load branch is taken, and every entry is the sum of the two 41-term sums -/
example {i k j l : Nat} (hi : i < conePanelEx.m) (hk : k < conePanelEx.m) (hj : j < conePanelEx.n) (hl : l < conePanelEx.n)
    (α β : Fin 3) :
    ∃ R, (calcK0 conePanelEx {}).res = .ok R ∧ (calcK0 conePanelEx {}).post.model = .kind .kpanel ∧
      preloaded conePanelEx = true ∧ domOf conePanelEx = .sub ∧
      toFun (R.eval (conePanelKern 41 kpanelTable qBase (fun _ => qI) conePanelEx.m conePanelEx.n))
          ((({} : Args ℚ).row0.getD 0) + 3 * (j * conePanelEx.m + i) + α.val)
          ((({} : Args ℚ).row0.getD 0) + 3 * (l * conePanelEx.m + k) + β.val)
        = ((List.range 41).map fun sec =>
            hessian (ctxAt (sectionBase qBase 41 sec) qI i k j l) .sub (domOf conePanelEx) (kpanelOps (sectionBase qBase 41 sec))
              qBase.F (fld3 α) (fld3 β)).sum
          + (if preloaded conePanelEx = true then
              ((List.range 41).map fun sec =>
                hessian (ctxAt (sectionBase (panelPreload conePanelEx qBase) 41 sec) qI i k j l) .sub (domOf conePanelEx)
                  (gradOps (sectionBase (panelPreload conePanelEx qBase) 41 sec))
                  (prestressW (sectionBase (panelPreload conePanelEx qBase) 41 sec)) (fld3 α) (fld3 β)).sum
             else 0) :=
  ⟨_, rfl, rfl, by decide, rfl,
    calc_k0_eq_energy_hessian_plus_prestress_kpanel 41 conePanelEx {} _ qBase (fun _ => qI) (fun _ => qI_comm)
      (by norm_num [qBase]) (fun sec => (qBase_section_b_pos 41 sec).ne') (fun sec => (qBase_section_r_pos 41 sec).ne') qF_isABD
      rfl rfl rfl rfl rfl hi hk hj hl α β⟩

end glue

end Compmech.Panel.C02
