/-
C02 — Panel constitutive stiffness equals the Hessian of the Donnell CLT strain energy.

The models `Gen.<Model>.<kernel>.entry` are REGENERATED from compmech/panel/models/*.pyx on every run
(tools/translate/gen_panel.py); the theorems below are re-checked against what the source says now.
Each theorem is uniform in the series indices (i, j, k, l), the series orders, the geometry, the
laminate, all real values of the 24 edge flags and the placement: `P.J` is an arbitrary
interpretation of the one-dimensional integrals (C10 ties it to the C tables).
`hessian P dx dy ops W α β` = ∂²/∂c_A∂c_B of ½∬_{dx×dy} ε(c)ᵀ W ε(c) dx dy for the operator table `ops`.
-/
import CompmechVerif.Gen.Panel.Plate
import CompmechVerif.Gen.Panel.PlateW
import CompmechVerif.Gen.Panel.CPanel
import CompmechVerif.Gen.Panel.KPanel
import CompmechVerif.Spec.Kinematics
import CompmechVerif.Core.OpSpecTactics
import Mathlib.Tactic.FinCases
import Mathlib.Data.Fintype.Basic

set_option linter.unnecessarySeqFocus false

namespace Compmech.Panel.C02
open Compmech.Panel Compmech.Gen

variable {K : Type} [Field K] [CharZero K]

/-- flat plate, full width -/
theorem k0_entry_eq_hessian_plate (P : PCtx K) (ha : P.a ≠ 0) (hb : P.b ≠ 0) (hF : IsABD P.F)
    (ro co : Fin 3) :
    Plate.fk0.entry ro co P = hessian P .full .full (plateOps P) P.F (fld3 ro) (fld3 co) := by
  fin_cases ro <;> fin_cases co <;> entry_eq_hessian [plateOps] sym hF

/-- flat plate, sub-interval `y1 ≤ y ≤ y2` -/
theorem k0y1y2_entry_eq_hessian_plate (P : PCtx K) (ha : P.a ≠ 0) (hb : P.b ≠ 0) (hF : IsABD P.F)
    (ro co : Fin 3) :
    Plate.fk0y1y2.entry ro co P = hessian P .full .sub (plateOps P) P.F (fld3 ro) (fld3 co) := by
  fin_cases ro <;> fin_cases co <;> entry_eq_hessian [plateOps] sym hF

/-- `w`-only plate model -/
theorem k0_entry_eq_hessian_plate_w (P : PCtx K) (ha : P.a ≠ 0) (hb : P.b ≠ 0) (hF : IsABD P.F)
    (ro co : Fin 1) :
    PlateW.fk0.entry ro co P = hessian P .full .full (plateOps P) P.F (fld1 ro) (fld1 co) := by
  fin_cases ro <;> fin_cases co <;> entry_eq_hessian [plateOps, fld1] sym hF

theorem k0y1y2_entry_eq_hessian_plate_w (P : PCtx K) (ha : P.a ≠ 0) (hb : P.b ≠ 0) (hF : IsABD P.F)
    (ro co : Fin 1) :
    PlateW.fk0y1y2.entry ro co P = hessian P .full .sub (plateOps P) P.F (fld1 ro) (fld1 co) := by
  fin_cases ro <;> fin_cases co <;> entry_eq_hessian [plateOps, fld1] sym hF

/-- cylindrical panel -/
theorem k0_entry_eq_hessian_cpanel (P : PCtx K) (ha : P.a ≠ 0) (hb : P.b ≠ 0) (hr : P.r ≠ 0)
    (hF : IsABD P.F) (ro co : Fin 3) :
    CPanel.fk0.entry ro co P = hessian P .full .full (cpanelOps P) P.F (fld3 ro) (fld3 co) := by
  fin_cases ro <;> fin_cases co <;> entry_eq_hessian [cpanelOps, plateOps] sym hF

theorem k0y1y2_entry_eq_hessian_cpanel (P : PCtx K) (ha : P.a ≠ 0) (hb : P.b ≠ 0) (hr : P.r ≠ 0)
    (hF : IsABD P.F) (ro co : Fin 3) :
    CPanel.fk0y1y2.entry ro co P = hessian P .full .sub (cpanelOps P) P.F (fld3 ro) (fld3 co) := by
  fin_cases ro <;> fin_cases co <;> entry_eq_hessian [cpanelOps, plateOps] sym hF

set_option maxHeartbeats 4000000 in
/-- conical panel: one constant-radius section `[ξ₁, ξ₂]` (the `x` integrals are over that section);
`P.r`, `P.b` are the section's radius and width. -/
theorem k0_entry_eq_hessian_kpanel (P : PCtx K) (ha : P.a ≠ 0) (hb : P.b ≠ 0) (hr : P.r ≠ 0)
    (hF : IsABD P.F) (ro co : Fin 3) :
    KPanel.fk0.entry ro co P = hessian P .sub .full (kpanelOps P) P.F (fld3 ro) (fld3 co) := by
  fin_cases ro <;> fin_cases co <;> entry_eq_hessian [kpanelOps, plateOps] sym hF

set_option maxHeartbeats 4000000 in
theorem k0y1y2_entry_eq_hessian_kpanel (P : PCtx K) (ha : P.a ≠ 0) (hb : P.b ≠ 0) (hr : P.r ≠ 0)
    (hF : IsABD P.F) (ro co : Fin 3) :
    KPanel.fk0y1y2.entry ro co P = hessian P .sub .sub (kpanelOps P) P.F (fld3 ro) (fld3 co) := by
  fin_cases ro <;> fin_cases co <;> entry_eq_hessian [kpanelOps, plateOps] sym hF

end Compmech.Panel.C02
