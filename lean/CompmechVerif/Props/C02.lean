/-
C02 — Panel constitutive stiffness equals the Hessian of the Donnell CLT strain energy.

The models `Gen.<Model>.<kernel>.entry` are REGENERATED from compmech/panel/models/*.pyx on every run
(tools/translate/gen_panel.py); the theorems below are re-checked against what the source says now.
Each theorem is uniform in the series indices (i, j, k, l), the series orders, the geometry, the
laminate, all real values of the 24 edge flags and the placement: `P.J` is an arbitrary
interpretation of the one-dimensional integrals (C10 ties it to the C tables).
`hessian P dx dy ops W α β` = ∂²/∂c_A∂c_B of ½∬_{dx×dy} ε(c)ᵀ W ε(c) dx dy for the operator table `ops`.
-/
import CompmechVerif.Gen.Panel.Plate
import CompmechVerif.Gen.Panel.PlateW
import CompmechVerif.Gen.Panel.CPanel
import CompmechVerif.Gen.Panel.KPanel
import CompmechVerif.Spec.Kinematics
import CompmechVerif.Core.OpSpecTactics
import CompmechVerif.Core.OpSpecLemmas
import CompmechVerif.Spec.WholeMatrix
import CompmechVerif.Spec.WholeMatrixPSD
import CompmechVerif.Spec.PSDExample
import CompmechVerif.Spec.LaminateWeight
import CompmechVerif.Spec.BardellIntegrals
import Mathlib.Tactic.FinCases
import Mathlib.Data.Fintype.Basic

set_option linter.unnecessarySeqFocus false

namespace Compmech.Panel.C02
open Compmech.Panel Compmech.Gen

variable {K : Type} [Field K] [CharZero K]

/-- flat plate, full width -/
theorem k0_entry_eq_hessian_plate (P : PCtx K) (ha : P.a ≠ 0) (hb : P.b ≠ 0) (hF : IsABD P.F)
    (ro co : Fin 3) :
    Plate.fk0.entry ro co P = hessian P .full .full (plateOps P) P.F (fld3 ro) (fld3 co) := by
  fin_cases ro <;> fin_cases co <;> entry_eq_hessian [plateOps] sym hF

/-- flat plate, sub-interval `y1 ≤ y ≤ y2` -/
theorem k0y1y2_entry_eq_hessian_plate (P : PCtx K) (ha : P.a ≠ 0) (hb : P.b ≠ 0) (hF : IsABD P.F)
    (ro co : Fin 3) :
    Plate.fk0y1y2.entry ro co P = hessian P .full .sub (plateOps P) P.F (fld3 ro) (fld3 co) := by
  fin_cases ro <;> fin_cases co <;> entry_eq_hessian [plateOps] sym hF

/-- `w`-only plate model -/
theorem k0_entry_eq_hessian_plate_w (P : PCtx K) (ha : P.a ≠ 0) (hb : P.b ≠ 0) (hF : IsABD P.F)
    (ro co : Fin 1) :
    PlateW.fk0.entry ro co P = hessian P .full .full (plateOps P) P.F (fld1 ro) (fld1 co) := by
  fin_cases ro <;> fin_cases co <;> entry_eq_hessian [plateOps, fld1] sym hF

theorem k0y1y2_entry_eq_hessian_plate_w (P : PCtx K) (ha : P.a ≠ 0) (hb : P.b ≠ 0) (hF : IsABD P.F)
    (ro co : Fin 1) :
    PlateW.fk0y1y2.entry ro co P = hessian P .full .sub (plateOps P) P.F (fld1 ro) (fld1 co) := by
  fin_cases ro <;> fin_cases co <;> entry_eq_hessian [plateOps, fld1] sym hF

/-- cylindrical panel -/
theorem k0_entry_eq_hessian_cpanel (P : PCtx K) (ha : P.a ≠ 0) (hb : P.b ≠ 0) (hr : P.r ≠ 0)
    (hF : IsABD P.F) (ro co : Fin 3) :
    CPanel.fk0.entry ro co P = hessian P .full .full (cpanelOps P) P.F (fld3 ro) (fld3 co) := by
  fin_cases ro <;> fin_cases co <;> entry_eq_hessian [cpanelOps, plateOps] sym hF

theorem k0y1y2_entry_eq_hessian_cpanel (P : PCtx K) (ha : P.a ≠ 0) (hb : P.b ≠ 0) (hr : P.r ≠ 0)
    (hF : IsABD P.F) (ro co : Fin 3) :
    CPanel.fk0y1y2.entry ro co P = hessian P .full .sub (cpanelOps P) P.F (fld3 ro) (fld3 co) := by
  fin_cases ro <;> fin_cases co <;> entry_eq_hessian [cpanelOps, plateOps] sym hF

set_option maxHeartbeats 4000000 in
/-- conical panel: one constant-radius section `[ξ₁, ξ₂]` (the `x` integrals are over that section);
`P.r`, `P.b` are the section's radius and width. -/
theorem k0_entry_eq_hessian_kpanel (P : PCtx K) (ha : P.a ≠ 0) (hb : P.b ≠ 0) (hr : P.r ≠ 0)
    (hF : IsABD P.F) (ro co : Fin 3) :
    KPanel.fk0.entry ro co P = hessian P .sub .full (kpanelOps P) P.F (fld3 ro) (fld3 co) := by
  fin_cases ro <;> fin_cases co <;> entry_eq_hessian [kpanelOps, plateOps] sym hF

set_option maxHeartbeats 4000000 in
theorem k0y1y2_entry_eq_hessian_kpanel (P : PCtx K) (ha : P.a ≠ 0) (hb : P.b ≠ 0) (hr : P.r ≠ 0)
    (hF : IsABD P.F) (ro co : Fin 3) :
    KPanel.fk0y1y2.entry ro co P = hessian P .sub .sub (kpanelOps P) P.F (fld3 ro) (fld3 co) := by
  fin_cases ro <;> fin_cases co <;> entry_eq_hessian [kpanelOps, plateOps] sym hF


/-! ### symmetry of the whole matrix

`P.swap` reads the same one-dimensional integrals with the roles of the row and the column basis function
exchanged (`∫ D^{d₁}φ_A D^{d₂}φ_B` ↦ `∫ D^{d₂}φ_B D^{d₁}φ_A` with `A ↔ B`), i.e. `entry co ro P.swap` is what the
kernel's formula gives for the TRANSPOSED position.  The theorems say `K[r, c] = K[c, r]` for every pair of
degrees of freedom — so mirroring the upper triangle (`finalize_symmetric_matrix`) reproduces exactly the entries the
kernel's own formula assigns to the lower triangle. -/

theorem k0_entry_symm_plate (P : PCtx K) (ha : P.a ≠ 0) (hb : P.b ≠ 0) (hF : IsABD P.F) (ro co : Fin 3) :
    Plate.fk0.entry ro co P = Plate.fk0.entry co ro P.swap := by
  rw [k0_entry_eq_hessian_plate P ha hb hF, k0_entry_eq_hessian_plate P.swap ha hb hF]
  exact (hessian_swap P _ _ (plateOps P) P.F hF.symm _ _).symm

theorem k0y1y2_entry_symm_plate (P : PCtx K) (ha : P.a ≠ 0) (hb : P.b ≠ 0) (hF : IsABD P.F) (ro co : Fin 3) :
    Plate.fk0y1y2.entry ro co P = Plate.fk0y1y2.entry co ro P.swap := by
  rw [k0y1y2_entry_eq_hessian_plate P ha hb hF, k0y1y2_entry_eq_hessian_plate P.swap ha hb hF]
  exact (hessian_swap P _ _ (plateOps P) P.F hF.symm _ _).symm

theorem k0_entry_symm_plate_w (P : PCtx K) (ha : P.a ≠ 0) (hb : P.b ≠ 0) (hF : IsABD P.F) (ro co : Fin 1) :
    PlateW.fk0.entry ro co P = PlateW.fk0.entry co ro P.swap := by
  rw [k0_entry_eq_hessian_plate_w P ha hb hF, k0_entry_eq_hessian_plate_w P.swap ha hb hF]
  exact (hessian_swap P _ _ (plateOps P) P.F hF.symm _ _).symm

theorem k0y1y2_entry_symm_plate_w (P : PCtx K) (ha : P.a ≠ 0) (hb : P.b ≠ 0) (hF : IsABD P.F) (ro co : Fin 1) :
    PlateW.fk0y1y2.entry ro co P = PlateW.fk0y1y2.entry co ro P.swap := by
  rw [k0y1y2_entry_eq_hessian_plate_w P ha hb hF, k0y1y2_entry_eq_hessian_plate_w P.swap ha hb hF]
  exact (hessian_swap P _ _ (plateOps P) P.F hF.symm _ _).symm

theorem k0_entry_symm_cpanel (P : PCtx K) (ha : P.a ≠ 0) (hb : P.b ≠ 0) (hr : P.r ≠ 0) (hF : IsABD P.F) (ro co : Fin 3) :
    CPanel.fk0.entry ro co P = CPanel.fk0.entry co ro P.swap := by
  rw [k0_entry_eq_hessian_cpanel P ha hb hr hF, k0_entry_eq_hessian_cpanel P.swap ha hb hr hF]
  exact (hessian_swap P _ _ (cpanelOps P) P.F hF.symm _ _).symm

theorem k0y1y2_entry_symm_cpanel (P : PCtx K) (ha : P.a ≠ 0) (hb : P.b ≠ 0) (hr : P.r ≠ 0) (hF : IsABD P.F) (ro co : Fin 3) :
    CPanel.fk0y1y2.entry ro co P = CPanel.fk0y1y2.entry co ro P.swap := by
  rw [k0y1y2_entry_eq_hessian_cpanel P ha hb hr hF, k0y1y2_entry_eq_hessian_cpanel P.swap ha hb hr hF]
  exact (hessian_swap P _ _ (cpanelOps P) P.F hF.symm _ _).symm

theorem k0_entry_symm_kpanel (P : PCtx K) (ha : P.a ≠ 0) (hb : P.b ≠ 0) (hr : P.r ≠ 0) (hF : IsABD P.F) (ro co : Fin 3) :
    KPanel.fk0.entry ro co P = KPanel.fk0.entry co ro P.swap := by
  rw [k0_entry_eq_hessian_kpanel P ha hb hr hF, k0_entry_eq_hessian_kpanel P.swap ha hb hr hF]
  exact (hessian_swap P _ _ (kpanelOps P) P.F hF.symm _ _).symm

theorem k0y1y2_entry_symm_kpanel (P : PCtx K) (ha : P.a ≠ 0) (hb : P.b ≠ 0) (hr : P.r ≠ 0) (hF : IsABD P.F) (ro co : Fin 3) :
    KPanel.fk0y1y2.entry ro co P = KPanel.fk0y1y2.entry co ro P.swap := by
  rw [k0y1y2_entry_eq_hessian_kpanel P ha hb hr hF, k0y1y2_entry_eq_hessian_kpanel P.swap ha hb hr hF]
  exact (hessian_swap P _ _ (kpanelOps P) P.F hF.symm _ _).symm


/-! ### the whole matrix (loop nest of Model/PanelLoop.lean + `finalize_symmetric_matrix`)

`I` : the one-dimensional integrals as a function of the series indices (any commutative interpretation; C10 ties it to
the C tables).  For ANY series orders `m, n`, ANY placement `row0 = col0`, at the positions of ANY two degrees of freedom
`(α, i, j)` and `(β, k, l)` — upper or lower triangle — the matrix handed to the user holds the energy Hessian of that
pair; and it is symmetric. -/

open Compmech.Asm in
/-- the regenerated kernels have exactly the modelled loop nest, dof map, skip condition and section geometry -/
theorem loop_nest_standard :
    Plate.fk0.schema = LoopSchema.std 3 none ∧ Plate.fk0y1y2.schema = LoopSchema.stdYX 3 ∧
    PlateW.fk0.schema = LoopSchema.std 1 none ∧ PlateW.fk0y1y2.schema = LoopSchema.stdYX 1 ∧
    CPanel.fk0.schema = LoopSchema.std 3 none ∧ CPanel.fk0y1y2.schema = LoopSchema.stdYX 3 ∧
    KPanel.fk0.schema = LoopSchema.std 3 (some 41) ∧ KPanel.fk0y1y2.schema = LoopSchema.std 3 (some 41) := by
  decide

open Compmech.Asm in
theorem k0_matrix_plate (base : PCtx K) (I : Integrals K) (hI : I.Comm) (ha : base.a ≠ 0) (hb : base.b ≠ 0)
    (hF : IsABD base.F) (m n row0 : Nat) {i k j l : Nat} (hi : i < m) (hk : k < m) (hj : j < n) (hl : l < n)
    (α β : Fin 3) :
    toFun (panelCoo 3 m n row0 Plate.fk0.entry base I) (row0 + 3 * (j * m + i) + α.val)
        (row0 + 3 * (l * m + k) + β.val)
      = hessian (ctxAt base I i k j l) .full .full (plateOps base) base.F (fld3 α) (fld3 β) := by
  rw [panelCoo_entry 3 m n row0 _ base I hI
    (fun ro co i k j l => k0_entry_symm_plate (ctxAt base I i k j l) ha hb hF ro co) hi hk hj hl]
  exact k0_entry_eq_hessian_plate (ctxAt base I i k j l) ha hb hF α β

open Compmech.Asm in
theorem k0y1y2_matrix_plate (base : PCtx K) (I : Integrals K) (hI : I.Comm) (ha : base.a ≠ 0) (hb : base.b ≠ 0)
    (hF : IsABD base.F) (m n row0 : Nat) {i k j l : Nat} (hi : i < m) (hk : k < m) (hj : j < n) (hl : l < n)
    (α β : Fin 3) :
    toFun (panelCooYX 3 m n row0 Plate.fk0y1y2.entry base I) (row0 + 3 * (j * m + i) + α.val)
        (row0 + 3 * (l * m + k) + β.val)
      = hessian (ctxAt base I i k j l) .full .sub (plateOps base) base.F (fld3 α) (fld3 β) := by
  rw [panelCooYX_entry 3 m n row0 _ base I hI
    (fun ro co i k j l => k0y1y2_entry_symm_plate (ctxAt base I i k j l) ha hb hF ro co) hi hk hj hl]
  exact k0y1y2_entry_eq_hessian_plate (ctxAt base I i k j l) ha hb hF α β

open Compmech.Asm in
theorem k0_matrix_plate_w (base : PCtx K) (I : Integrals K) (hI : I.Comm) (ha : base.a ≠ 0) (hb : base.b ≠ 0)
    (hF : IsABD base.F) (m n row0 : Nat) {i k j l : Nat} (hi : i < m) (hk : k < m) (hj : j < n) (hl : l < n)
    (α β : Fin 1) :
    toFun (panelCoo 1 m n row0 PlateW.fk0.entry base I) (row0 + 1 * (j * m + i) + α.val)
        (row0 + 1 * (l * m + k) + β.val)
      = hessian (ctxAt base I i k j l) .full .full (plateOps base) base.F (fld1 α) (fld1 β) := by
  rw [panelCoo_entry 1 m n row0 _ base I hI
    (fun ro co i k j l => k0_entry_symm_plate_w (ctxAt base I i k j l) ha hb hF ro co) hi hk hj hl]
  exact k0_entry_eq_hessian_plate_w (ctxAt base I i k j l) ha hb hF α β

open Compmech.Asm in
theorem k0y1y2_matrix_plate_w (base : PCtx K) (I : Integrals K) (hI : I.Comm) (ha : base.a ≠ 0) (hb : base.b ≠ 0)
    (hF : IsABD base.F) (m n row0 : Nat) {i k j l : Nat} (hi : i < m) (hk : k < m) (hj : j < n) (hl : l < n)
    (α β : Fin 1) :
    toFun (panelCooYX 1 m n row0 PlateW.fk0y1y2.entry base I) (row0 + 1 * (j * m + i) + α.val)
        (row0 + 1 * (l * m + k) + β.val)
      = hessian (ctxAt base I i k j l) .full .sub (plateOps base) base.F (fld1 α) (fld1 β) := by
  rw [panelCooYX_entry 1 m n row0 _ base I hI
    (fun ro co i k j l => k0y1y2_entry_symm_plate_w (ctxAt base I i k j l) ha hb hF ro co) hi hk hj hl]
  exact k0y1y2_entry_eq_hessian_plate_w (ctxAt base I i k j l) ha hb hF α β

open Compmech.Asm in
theorem k0_matrix_cpanel (base : PCtx K) (I : Integrals K) (hI : I.Comm) (ha : base.a ≠ 0) (hb : base.b ≠ 0) (hr : base.r ≠ 0)
    (hF : IsABD base.F) (m n row0 : Nat) {i k j l : Nat} (hi : i < m) (hk : k < m) (hj : j < n) (hl : l < n)
    (α β : Fin 3) :
    toFun (panelCoo 3 m n row0 CPanel.fk0.entry base I) (row0 + 3 * (j * m + i) + α.val)
        (row0 + 3 * (l * m + k) + β.val)
      = hessian (ctxAt base I i k j l) .full .full (cpanelOps base) base.F (fld3 α) (fld3 β) := by
  rw [panelCoo_entry 3 m n row0 _ base I hI
    (fun ro co i k j l => k0_entry_symm_cpanel (ctxAt base I i k j l) ha hb hr hF ro co) hi hk hj hl]
  exact k0_entry_eq_hessian_cpanel (ctxAt base I i k j l) ha hb hr hF α β

open Compmech.Asm in
theorem k0y1y2_matrix_cpanel (base : PCtx K) (I : Integrals K) (hI : I.Comm) (ha : base.a ≠ 0) (hb : base.b ≠ 0) (hr : base.r ≠ 0)
    (hF : IsABD base.F) (m n row0 : Nat) {i k j l : Nat} (hi : i < m) (hk : k < m) (hj : j < n) (hl : l < n)
    (α β : Fin 3) :
    toFun (panelCooYX 3 m n row0 CPanel.fk0y1y2.entry base I) (row0 + 3 * (j * m + i) + α.val)
        (row0 + 3 * (l * m + k) + β.val)
      = hessian (ctxAt base I i k j l) .full .sub (cpanelOps base) base.F (fld3 α) (fld3 β) := by
  rw [panelCooYX_entry 3 m n row0 _ base I hI
    (fun ro co i k j l => k0y1y2_entry_symm_cpanel (ctxAt base I i k j l) ha hb hr hF ro co) hi hk hj hl]
  exact k0y1y2_entry_eq_hessian_cpanel (ctxAt base I i k j l) ha hb hr hF α β

open Compmech.Asm in
/-- every finalized panel stiffness matrix is symmetric -/
theorem k0_matrix_symmetric {num : Nat} (entry : Fin num → Fin num → PCtx K → K) (base : PCtx K) (I : Integrals K)
    (m n row0 r c : Nat) :
    toFun (panelCoo num m n row0 entry base I) r c = toFun (panelCoo num m n row0 entry base I) c r :=
  panelCoo_symmetric num m n row0 entry base I r c

open Compmech.Asm in
/-- conical panel: the matrix is the SUM over the 41 constant-radius sections of the energy Hessians of the sections
(each with the radius of its middle and the matching width: `sectionBase`) -/
theorem k0_matrix_kpanel (base : PCtx K) (I : Nat → Integrals K) (hI : ∀ sec, (I sec).Comm) (s : Nat)
    (ha : base.a ≠ 0) (hb : ∀ sec, (sectionBase base s sec).b ≠ 0) (hr : ∀ sec, (sectionBase base s sec).r ≠ 0)
    (hF : IsABD base.F) (m n row0 : Nat) {i k j l : Nat} (hi : i < m) (hk : k < m) (hj : j < n) (hl : l < n)
    (α β : Fin 3) :
    toFun (conePanelCoo s 3 m n row0 KPanel.fk0.entry base I) (row0 + 3 * (j * m + i) + α.val)
        (row0 + 3 * (l * m + k) + β.val)
      = ((List.range s).map fun sec =>
          hessian (ctxAt (sectionBase base s sec) (I sec) i k j l) .sub .full (kpanelOps (sectionBase base s sec)) base.F
            (fld3 α) (fld3 β)).sum := by
  rw [conePanelCoo_entry s 3 m n row0 _ base I hI
    (fun sec ro co i k j l => k0_entry_symm_kpanel (ctxAt (sectionBase base s sec) (I sec) i k j l) ha (hb sec) (hr sec)
      hF ro co) hi hk hj hl]
  refine congrArg List.sum (List.map_congr_left fun sec _ => ?_)
  exact k0_entry_eq_hessian_kpanel (ctxAt (sectionBase base s sec) (I sec) i k j l) ha (hb sec) (hr sec) hF α β

open Compmech.Asm in
/-- conical panel: the matrix is the SUM over the 41 constant-radius sections of the energy Hessians of the sections
(each with the radius of its middle and the matching width: `sectionBase`) -/
theorem k0y1y2_matrix_kpanel (base : PCtx K) (I : Nat → Integrals K) (hI : ∀ sec, (I sec).Comm) (s : Nat)
    (ha : base.a ≠ 0) (hb : ∀ sec, (sectionBase base s sec).b ≠ 0) (hr : ∀ sec, (sectionBase base s sec).r ≠ 0)
    (hF : IsABD base.F) (m n row0 : Nat) {i k j l : Nat} (hi : i < m) (hk : k < m) (hj : j < n) (hl : l < n)
    (α β : Fin 3) :
    toFun (conePanelCoo s 3 m n row0 KPanel.fk0y1y2.entry base I) (row0 + 3 * (j * m + i) + α.val)
        (row0 + 3 * (l * m + k) + β.val)
      = ((List.range s).map fun sec =>
          hessian (ctxAt (sectionBase base s sec) (I sec) i k j l) .sub .sub (kpanelOps (sectionBase base s sec)) base.F
            (fld3 α) (fld3 β)).sum := by
  rw [conePanelCoo_entry s 3 m n row0 _ base I hI
    (fun sec ro co i k j l => k0y1y2_entry_symm_kpanel (ctxAt (sectionBase base s sec) (I sec) i k j l) ha (hb sec) (hr sec)
      hF ro co) hi hk hj hl]
  refine congrArg List.sum (List.map_congr_left fun sec _ => ?_)
  exact k0y1y2_entry_eq_hessian_kpanel (ctxAt (sectionBase base s sec) (I sec) i k j l) ha (hb sec) (hr sec) hF α β


/-! ### positive semi-definiteness of the whole matrix (over ℝ)

`WeightPSD base.F`: the laminate matrix is positive semi-definite, `eᵀ F e ≥ 0` (C01 `abd_posdef` gives `> 0` for every
stack of admissible plies: `abd_weight_psd` below).  `RealIntegrals I dx dy X Y x₁ x₂ y₁ y₂`: the one-dimensional
integrals ARE integrals — `I .x dx d₁ f₁ i d₂ f₂ k = ∫_{x₁}^{x₂} X d₁ f₁ i · X d₂ f₂ k`, same along y with `Y` — of products of
continuous functions (`X d f i = D^d φ^f_i`), `x₁ ≤ x₂`, `y₁ ≤ y₂`.  Then for ANY series orders `m, n`, ANY placement `row0`
and ANY amplitude vector `v` over the panel's `num·m·n` degrees of freedom (rows `row0 ≤ r < row0 + num·m·n`),
`vᵀ K v ≥ 0` for the finalized matrix `K` the kernel + `finalize_symmetric_matrix` deliver.
(Proof: `vᵀ K v = (ab/4) ∬ ε(v)ᵀ F ε(v)`, Core/OpSpecPSD.lean `hessian_psd`.) -/

open scoped BigOperators

open Compmech.Asm in
/-- flat plate: the constitutive stiffness matrix is positive semi-definite -/
theorem k0_matrix_psd_plate (base : PCtx ℝ) (I : Integrals ℝ) (hI : I.Comm) (ha : base.a ≠ 0) (hb : base.b ≠ 0)
    (hF : IsABD base.F) (hpsd : WeightPSD base.F) (hab : 0 ≤ base.a * base.b)
    (X Y : Nat → Fld → Nat → ℝ → ℝ) (x₁ x₂ y₁ y₂ : ℝ) (hR : RealIntegrals I .full .full X Y x₁ x₂ y₁ y₂)
    (m n row0 : Nat) (v : Nat → ℝ) :
    0 ≤ ∑ r ∈ Finset.range (3 * m * n), ∑ c ∈ Finset.range (3 * m * n),
      v (row0 + r) * toFun (panelCoo 3 m n row0 Plate.fk0.entry base I) (row0 + r) (row0 + c) * v (row0 + c) :=
  matrix_psd_of_hessian _ m n row0 fld3 base I .full .full (plateOps base) base.F
    (fun hi hk hj hl α β => k0_matrix_plate base I hI ha hb hF m n row0 hi hk hj hl α β) X Y x₁ x₂ y₁ y₂ hR hpsd hab v

open Compmech.Asm in
/-- flat plate, sub-interval `y1 ≤ y ≤ y2` (`Y` integrated over `[y₁, y₂] = [η₁, η₂]`) -/
theorem k0y1y2_matrix_psd_plate (base : PCtx ℝ) (I : Integrals ℝ) (hI : I.Comm) (ha : base.a ≠ 0) (hb : base.b ≠ 0)
    (hF : IsABD base.F) (hpsd : WeightPSD base.F) (hab : 0 ≤ base.a * base.b)
    (X Y : Nat → Fld → Nat → ℝ → ℝ) (x₁ x₂ y₁ y₂ : ℝ) (hR : RealIntegrals I .full .sub X Y x₁ x₂ y₁ y₂)
    (m n row0 : Nat) (v : Nat → ℝ) :
    0 ≤ ∑ r ∈ Finset.range (3 * m * n), ∑ c ∈ Finset.range (3 * m * n),
      v (row0 + r) * toFun (panelCooYX 3 m n row0 Plate.fk0y1y2.entry base I) (row0 + r) (row0 + c) * v (row0 + c) :=
  matrix_psd_of_hessian _ m n row0 fld3 base I .full .sub (plateOps base) base.F
    (fun hi hk hj hl α β => k0y1y2_matrix_plate base I hI ha hb hF m n row0 hi hk hj hl α β) X Y x₁ x₂ y₁ y₂ hR hpsd hab v

open Compmech.Asm in
/-- `w`-only plate model -/
theorem k0_matrix_psd_plate_w (base : PCtx ℝ) (I : Integrals ℝ) (hI : I.Comm) (ha : base.a ≠ 0) (hb : base.b ≠ 0)
    (hF : IsABD base.F) (hpsd : WeightPSD base.F) (hab : 0 ≤ base.a * base.b)
    (X Y : Nat → Fld → Nat → ℝ → ℝ) (x₁ x₂ y₁ y₂ : ℝ) (hR : RealIntegrals I .full .full X Y x₁ x₂ y₁ y₂)
    (m n row0 : Nat) (v : Nat → ℝ) :
    0 ≤ ∑ r ∈ Finset.range (1 * m * n), ∑ c ∈ Finset.range (1 * m * n),
      v (row0 + r) * toFun (panelCoo 1 m n row0 PlateW.fk0.entry base I) (row0 + r) (row0 + c) * v (row0 + c) :=
  matrix_psd_of_hessian _ m n row0 fld1 base I .full .full (plateOps base) base.F
    (fun hi hk hj hl α β => k0_matrix_plate_w base I hI ha hb hF m n row0 hi hk hj hl α β) X Y x₁ x₂ y₁ y₂ hR hpsd hab v

open Compmech.Asm in
theorem k0y1y2_matrix_psd_plate_w (base : PCtx ℝ) (I : Integrals ℝ) (hI : I.Comm) (ha : base.a ≠ 0) (hb : base.b ≠ 0)
    (hF : IsABD base.F) (hpsd : WeightPSD base.F) (hab : 0 ≤ base.a * base.b)
    (X Y : Nat → Fld → Nat → ℝ → ℝ) (x₁ x₂ y₁ y₂ : ℝ) (hR : RealIntegrals I .full .sub X Y x₁ x₂ y₁ y₂)
    (m n row0 : Nat) (v : Nat → ℝ) :
    0 ≤ ∑ r ∈ Finset.range (1 * m * n), ∑ c ∈ Finset.range (1 * m * n),
      v (row0 + r) * toFun (panelCooYX 1 m n row0 PlateW.fk0y1y2.entry base I) (row0 + r) (row0 + c) * v (row0 + c) :=
  matrix_psd_of_hessian _ m n row0 fld1 base I .full .sub (plateOps base) base.F
    (fun hi hk hj hl α β => k0y1y2_matrix_plate_w base I hI ha hb hF m n row0 hi hk hj hl α β) X Y x₁ x₂ y₁ y₂ hR hpsd hab v

open Compmech.Asm in
/-- cylindrical panel -/
theorem k0_matrix_psd_cpanel (base : PCtx ℝ) (I : Integrals ℝ) (hI : I.Comm) (ha : base.a ≠ 0) (hb : base.b ≠ 0) (hr : base.r ≠ 0)
    (hF : IsABD base.F) (hpsd : WeightPSD base.F) (hab : 0 ≤ base.a * base.b)
    (X Y : Nat → Fld → Nat → ℝ → ℝ) (x₁ x₂ y₁ y₂ : ℝ) (hR : RealIntegrals I .full .full X Y x₁ x₂ y₁ y₂)
    (m n row0 : Nat) (v : Nat → ℝ) :
    0 ≤ ∑ r ∈ Finset.range (3 * m * n), ∑ c ∈ Finset.range (3 * m * n),
      v (row0 + r) * toFun (panelCoo 3 m n row0 CPanel.fk0.entry base I) (row0 + r) (row0 + c) * v (row0 + c) :=
  matrix_psd_of_hessian _ m n row0 fld3 base I .full .full (cpanelOps base) base.F
    (fun hi hk hj hl α β => k0_matrix_cpanel base I hI ha hb hr hF m n row0 hi hk hj hl α β) X Y x₁ x₂ y₁ y₂ hR hpsd hab v

open Compmech.Asm in
theorem k0y1y2_matrix_psd_cpanel (base : PCtx ℝ) (I : Integrals ℝ) (hI : I.Comm) (ha : base.a ≠ 0) (hb : base.b ≠ 0) (hr : base.r ≠ 0)
    (hF : IsABD base.F) (hpsd : WeightPSD base.F) (hab : 0 ≤ base.a * base.b)
    (X Y : Nat → Fld → Nat → ℝ → ℝ) (x₁ x₂ y₁ y₂ : ℝ) (hR : RealIntegrals I .full .sub X Y x₁ x₂ y₁ y₂)
    (m n row0 : Nat) (v : Nat → ℝ) :
    0 ≤ ∑ r ∈ Finset.range (3 * m * n), ∑ c ∈ Finset.range (3 * m * n),
      v (row0 + r) * toFun (panelCooYX 3 m n row0 CPanel.fk0y1y2.entry base I) (row0 + r) (row0 + c) * v (row0 + c) :=
  matrix_psd_of_hessian _ m n row0 fld3 base I .full .sub (cpanelOps base) base.F
    (fun hi hk hj hl α β => k0y1y2_matrix_cpanel base I hI ha hb hr hF m n row0 hi hk hj hl α β) X Y x₁ x₂ y₁ y₂ hR hpsd hab v

open Compmech.Asm in
/-- conical panel: a finite sum over the constant-radius sections of positive semi-definite forms; section `sec` has its own
integrals (`X sec` over `[x₁ sec, x₂ sec] = [ξ₁, ξ₂]` of the section) and width `(sectionBase base s sec).b` -/
theorem k0_matrix_psd_kpanel (base : PCtx ℝ) (I : Nat → Integrals ℝ) (hI : ∀ sec, (I sec).Comm) (s : Nat)
    (ha : base.a ≠ 0) (hb : ∀ sec, (sectionBase base s sec).b ≠ 0) (hr : ∀ sec, (sectionBase base s sec).r ≠ 0)
    (hF : IsABD base.F) (hpsd : WeightPSD base.F) (hab : ∀ sec, sec < s → 0 ≤ base.a * (sectionBase base s sec).b)
    (X Y : Nat → Nat → Fld → Nat → ℝ → ℝ) (x₁ x₂ y₁ y₂ : Nat → ℝ)
    (hR : ∀ sec, sec < s → RealIntegrals (I sec) .sub .full (X sec) (Y sec) (x₁ sec) (x₂ sec) (y₁ sec) (y₂ sec))
    (m n row0 : Nat) (v : Nat → ℝ) :
    0 ≤ ∑ r ∈ Finset.range (3 * m * n), ∑ c ∈ Finset.range (3 * m * n),
      v (row0 + r) * toFun (conePanelCoo s 3 m n row0 KPanel.fk0.entry base I) (row0 + r) (row0 + c) * v (row0 + c) :=
  matrix_psd_of_hessian_sections _ s m n row0 fld3 (sectionBase base s) I .sub .full
    (fun sec => kpanelOps (sectionBase base s sec)) (fun _ => base.F)
    (fun hi hk hj hl α β => k0_matrix_kpanel base I hI s ha hb hr hF m n row0 hi hk hj hl α β)
    X Y x₁ x₂ y₁ y₂ hR (fun _ _ => hpsd) hab v

open Compmech.Asm in
theorem k0y1y2_matrix_psd_kpanel (base : PCtx ℝ) (I : Nat → Integrals ℝ) (hI : ∀ sec, (I sec).Comm) (s : Nat)
    (ha : base.a ≠ 0) (hb : ∀ sec, (sectionBase base s sec).b ≠ 0) (hr : ∀ sec, (sectionBase base s sec).r ≠ 0)
    (hF : IsABD base.F) (hpsd : WeightPSD base.F) (hab : ∀ sec, sec < s → 0 ≤ base.a * (sectionBase base s sec).b)
    (X Y : Nat → Nat → Fld → Nat → ℝ → ℝ) (x₁ x₂ y₁ y₂ : Nat → ℝ)
    (hR : ∀ sec, sec < s → RealIntegrals (I sec) .sub .sub (X sec) (Y sec) (x₁ sec) (x₂ sec) (y₁ sec) (y₂ sec))
    (m n row0 : Nat) (v : Nat → ℝ) :
    0 ≤ ∑ r ∈ Finset.range (3 * m * n), ∑ c ∈ Finset.range (3 * m * n),
      v (row0 + r) * toFun (conePanelCoo s 3 m n row0 KPanel.fk0y1y2.entry base I) (row0 + r) (row0 + c) * v (row0 + c) :=
  matrix_psd_of_hessian_sections _ s m n row0 fld3 (sectionBase base s) I .sub .sub
    (fun sec => kpanelOps (sectionBase base s sec)) (fun _ => base.F)
    (fun hi hk hj hl α β => k0y1y2_matrix_kpanel base I hI s ha hb hr hF m n row0 hi hk hj hl α β)
    X Y x₁ x₂ y₁ y₂ hR (fun _ _ => hpsd) hab v

open Compmech.Laminate in
/-- The two hypotheses on the weight are what C01 delivers: the `ABD` matrix of EVERY non-empty stack of admissible plies with
positive thicknesses (hypotheses of C01 `abd_posdef`), read as the weight `F[p, q]`, has the `IsABD` shape and is positive
semi-definite (indeed definite). -/
theorem abd_weight_psd (ps : List (PlyIn ℝ)) (ms : List (MatProps ℝ)) (plies : List (Ply ℝ)) (offset : ℝ)
    (hne : ps ≠ [])
    (hlen : ms.length = ps.length)
    (hplies : plies = (List.zip ps ms).map fun pm => ⟨pm.1.t, rotQ pm.1.c pm.1.s (planeStressQ pm.2)⟩)
    (hadm : ∀ m ∈ ms, Admissible m)
    (hcs : ∀ p ∈ ps, p.c ^ 2 + p.s ^ 2 = 1 ∧ 0 < p.t) :
    IsABD (abdWeight (abd plies offset)) ∧ WeightPSD (abdWeight (abd plies offset)) :=
  ⟨abdWeight_isABD _, abdWeight_psd_of_posdef _ (abd_posdef_aux ps ms plies offset hne hlen hplies hadm hcs)⟩

open Compmech.Laminate in
/-- non-vacuity of `abd_weight_psd`: a two-ply unsymmetric stack (angles with `cos, sin = 3/5, 4/5` and `1, 0`) -/
example : ∃ F : Fin 6 → Fin 6 → ℝ, IsABD F ∧ WeightPSD F :=
  let m : MatProps ℝ := ⟨142, 8, 3/10, 5, 5, 3, 8, 3/10, 3/10⟩
  let ps : List (PlyIn ℝ) := [⟨3/5, 4/5, 1/8, []⟩, ⟨1, 0, 1/4, []⟩]
  ⟨_, abd_weight_psd ps [m, m] _ (1/20) (by simp [ps]) rfl rfl
    (by intro m' hm'
        have : m' = m := by simpa [m] using hm'
        subst this
        unfold Admissible MatProps.nu21; norm_num [m])
    (by intro p hp
        simp only [ps, List.mem_cons, List.not_mem_nil, or_false] at hp
        rcases hp with rfl | rfl <;> norm_num)⟩

/-! Non-vacuity: the instance of Spec/PSDExample.lean (`a = b = 2`, `r = 1`, `sin α = −1/2`, identity laminate matrix,
`mu = h = 1`, `d = 1/10`; the integrals of products of the monomials `t^(i+d)` over `[−1, 1]`) meets all hypotheses of every
theorem of this section, for all `m, n, row0, v` (and any number of sections). -/

open Compmech.Asm PSDExample in
example (m n row0 : Nat) (v : Nat → ℝ) :
    0 ≤ ∑ r ∈ Finset.range (3 * m * n), ∑ c ∈ Finset.range (3 * m * n),
      v (row0 + r) * toFun (panelCoo 3 m n row0 Plate.fk0.entry unitBase monoI) (row0 + r) (row0 + c) * v (row0 + c) :=
  k0_matrix_psd_plate unitBase monoI monoI_comm (by norm_num [unitBase]) (by norm_num [unitBase]) unitF_isABD unitF_psd
    (by norm_num [unitBase]) mono mono (-1) 1 (-1) 1 (monoI_real _ _) m n row0 v

open Compmech.Asm PSDExample in
example (m n row0 : Nat) (v : Nat → ℝ) :
    0 ≤ ∑ r ∈ Finset.range (3 * m * n), ∑ c ∈ Finset.range (3 * m * n),
      v (row0 + r) * toFun (panelCooYX 3 m n row0 Plate.fk0y1y2.entry unitBase monoI) (row0 + r) (row0 + c) * v (row0 + c) :=
  k0y1y2_matrix_psd_plate unitBase monoI monoI_comm (by norm_num [unitBase]) (by norm_num [unitBase]) unitF_isABD unitF_psd
    (by norm_num [unitBase]) mono mono (-1) 1 (-1) 1 (monoI_real _ _) m n row0 v

open Compmech.Asm PSDExample in
example (m n row0 : Nat) (v : Nat → ℝ) :
    0 ≤ ∑ r ∈ Finset.range (1 * m * n), ∑ c ∈ Finset.range (1 * m * n),
      v (row0 + r) * toFun (panelCoo 1 m n row0 PlateW.fk0.entry unitBase monoI) (row0 + r) (row0 + c) * v (row0 + c) :=
  k0_matrix_psd_plate_w unitBase monoI monoI_comm (by norm_num [unitBase]) (by norm_num [unitBase]) unitF_isABD unitF_psd
    (by norm_num [unitBase]) mono mono (-1) 1 (-1) 1 (monoI_real _ _) m n row0 v

open Compmech.Asm PSDExample in
example (m n row0 : Nat) (v : Nat → ℝ) :
    0 ≤ ∑ r ∈ Finset.range (1 * m * n), ∑ c ∈ Finset.range (1 * m * n),
      v (row0 + r) * toFun (panelCooYX 1 m n row0 PlateW.fk0y1y2.entry unitBase monoI) (row0 + r) (row0 + c) * v (row0 + c) :=
  k0y1y2_matrix_psd_plate_w unitBase monoI monoI_comm (by norm_num [unitBase]) (by norm_num [unitBase]) unitF_isABD unitF_psd
    (by norm_num [unitBase]) mono mono (-1) 1 (-1) 1 (monoI_real _ _) m n row0 v

open Compmech.Asm PSDExample in
example (m n row0 : Nat) (v : Nat → ℝ) :
    0 ≤ ∑ r ∈ Finset.range (3 * m * n), ∑ c ∈ Finset.range (3 * m * n),
      v (row0 + r) * toFun (panelCoo 3 m n row0 CPanel.fk0.entry unitBase monoI) (row0 + r) (row0 + c) * v (row0 + c) :=
  k0_matrix_psd_cpanel unitBase monoI monoI_comm (by norm_num [unitBase]) (by norm_num [unitBase]) (by norm_num [unitBase]) unitF_isABD unitF_psd
    (by norm_num [unitBase]) mono mono (-1) 1 (-1) 1 (monoI_real _ _) m n row0 v

open Compmech.Asm PSDExample in
example (m n row0 : Nat) (v : Nat → ℝ) :
    0 ≤ ∑ r ∈ Finset.range (3 * m * n), ∑ c ∈ Finset.range (3 * m * n),
      v (row0 + r) * toFun (panelCooYX 3 m n row0 CPanel.fk0y1y2.entry unitBase monoI) (row0 + r) (row0 + c) * v (row0 + c) :=
  k0y1y2_matrix_psd_cpanel unitBase monoI monoI_comm (by norm_num [unitBase]) (by norm_num [unitBase]) (by norm_num [unitBase]) unitF_isABD unitF_psd
    (by norm_num [unitBase]) mono mono (-1) 1 (-1) 1 (monoI_real _ _) m n row0 v

open Compmech.Asm PSDExample in
example (s m n row0 : Nat) (v : Nat → ℝ) :
    0 ≤ ∑ r ∈ Finset.range (3 * m * n), ∑ c ∈ Finset.range (3 * m * n),
      v (row0 + r) * toFun (conePanelCoo s 3 m n row0 KPanel.fk0.entry unitBase fun _ => monoI) (row0 + r) (row0 + c)
        * v (row0 + c) :=
  k0_matrix_psd_kpanel unitBase (fun _ => monoI) (fun _ => monoI_comm) s (by norm_num [unitBase])
    (fun sec => (section_b_pos s sec).ne')
    (fun sec => (section_r_pos s sec).ne') unitF_isABD unitF_psd
    (fun sec _ => mul_nonneg (by norm_num [unitBase]) (section_b_pos s sec).le)
    (fun _ => mono) (fun _ => mono) (fun _ => -1) (fun _ => 1) (fun _ => -1) (fun _ => 1) (fun _ _ => monoI_real _ _)
    m n row0 v

open Compmech.Asm PSDExample in
example (s m n row0 : Nat) (v : Nat → ℝ) :
    0 ≤ ∑ r ∈ Finset.range (3 * m * n), ∑ c ∈ Finset.range (3 * m * n),
      v (row0 + r) * toFun (conePanelCoo s 3 m n row0 KPanel.fk0y1y2.entry unitBase fun _ => monoI) (row0 + r) (row0 + c)
        * v (row0 + c) :=
  k0y1y2_matrix_psd_kpanel unitBase (fun _ => monoI) (fun _ => monoI_comm) s (by norm_num [unitBase])
    (fun sec => (section_b_pos s sec).ne')
    (fun sec => (section_r_pos s sec).ne') unitF_isABD unitF_psd
    (fun sec _ => mul_nonneg (by norm_num [unitBase]) (section_b_pos s sec).le)
    (fun _ => mono) (fun _ => mono) (fun _ => -1) (fun _ => 1) (fun _ => -1) (fun _ => 1) (fun _ _ => monoI_real _ _)
    m n row0 v

/-! ### … instantiated at the package's own basis

`bardellI ξ₁ ξ₂ η₁ η₂` (Spec/BardellIntegrals.lean): the exact REAL integrals of products of (derivatives of) the Bardell polynomials with
unit flags — whole edge, section `[ξ₁, ξ₂]`, strip `[η₁, η₂]`.  For it the hypotheses `I.Comm` and `RealIntegrals` are theorems, so the
positive semi-definiteness of the constitutive stiffness holds for the actual basis of the package with only `a, b (, r) ≠ 0`, `a·b ≥ 0`
and a positive semi-definite laminate matrix (C01 `abd_posdef` through `abd_weight_psd`) left as hypotheses. -/

open Compmech.Asm in
theorem k0_matrix_psd_bardell_plate (base : PCtx ℝ) (ha : base.a ≠ 0) (hb : base.b ≠ 0) (hF : IsABD base.F) (hpsd : WeightPSD base.F)
    (hab : 0 ≤ base.a * base.b) (ξ₁ ξ₂ η₁ η₂ : ℝ) (m n row0 : Nat) (v : Nat → ℝ) :
    0 ≤ ∑ r ∈ Finset.range (3 * m * n), ∑ c ∈ Finset.range (3 * m * n),
      v (row0 + r) * toFun (panelCoo 3 m n row0 Plate.fk0.entry base (bardellI ξ₁ ξ₂ η₁ η₂)) (row0 + r) (row0 + c) * v (row0 + c) :=
  k0_matrix_psd_plate base _ (bardellI_comm ξ₁ ξ₂ η₁ η₂) ha hb hF hpsd hab bfun bfun (-1) 1 (-1) 1
    (bardellI_real_full_full ξ₁ ξ₂ η₁ η₂) m n row0 v

open Compmech.Asm in
theorem k0y1y2_matrix_psd_bardell_plate (base : PCtx ℝ) (ha : base.a ≠ 0) (hb : base.b ≠ 0) (hF : IsABD base.F) (hpsd : WeightPSD base.F)
    (hab : 0 ≤ base.a * base.b) (ξ₁ ξ₂ η₁ η₂ : ℝ) (hη : η₁ ≤ η₂) (m n row0 : Nat) (v : Nat → ℝ) :
    0 ≤ ∑ r ∈ Finset.range (3 * m * n), ∑ c ∈ Finset.range (3 * m * n),
      v (row0 + r) * toFun (panelCooYX 3 m n row0 Plate.fk0y1y2.entry base (bardellI ξ₁ ξ₂ η₁ η₂)) (row0 + r) (row0 + c) * v (row0 + c) :=
  k0y1y2_matrix_psd_plate base _ (bardellI_comm ξ₁ ξ₂ η₁ η₂) ha hb hF hpsd hab bfun bfun (-1) 1 η₁ η₂
    (bardellI_real_full_sub ξ₁ ξ₂ η₁ η₂ hη) m n row0 v

open Compmech.Asm in
theorem k0_matrix_psd_bardell_cpanel (base : PCtx ℝ) (ha : base.a ≠ 0) (hb : base.b ≠ 0) (hr : base.r ≠ 0) (hF : IsABD base.F)
    (hpsd : WeightPSD base.F) (hab : 0 ≤ base.a * base.b) (ξ₁ ξ₂ η₁ η₂ : ℝ) (m n row0 : Nat) (v : Nat → ℝ) :
    0 ≤ ∑ r ∈ Finset.range (3 * m * n), ∑ c ∈ Finset.range (3 * m * n),
      v (row0 + r) * toFun (panelCoo 3 m n row0 CPanel.fk0.entry base (bardellI ξ₁ ξ₂ η₁ η₂)) (row0 + r) (row0 + c) * v (row0 + c) :=
  k0_matrix_psd_cpanel base _ (bardellI_comm ξ₁ ξ₂ η₁ η₂) ha hb hr hF hpsd hab bfun bfun (-1) 1 (-1) 1
    (bardellI_real_full_full ξ₁ ξ₂ η₁ η₂) m n row0 v

open Compmech.Asm in
theorem k0y1y2_matrix_psd_bardell_cpanel (base : PCtx ℝ) (ha : base.a ≠ 0) (hb : base.b ≠ 0) (hr : base.r ≠ 0) (hF : IsABD base.F)
    (hpsd : WeightPSD base.F) (hab : 0 ≤ base.a * base.b) (ξ₁ ξ₂ η₁ η₂ : ℝ) (hη : η₁ ≤ η₂) (m n row0 : Nat) (v : Nat → ℝ) :
    0 ≤ ∑ r ∈ Finset.range (3 * m * n), ∑ c ∈ Finset.range (3 * m * n),
      v (row0 + r) * toFun (panelCooYX 3 m n row0 CPanel.fk0y1y2.entry base (bardellI ξ₁ ξ₂ η₁ η₂)) (row0 + r) (row0 + c) * v (row0 + c) :=
  k0y1y2_matrix_psd_cpanel base _ (bardellI_comm ξ₁ ξ₂ η₁ η₂) ha hb hr hF hpsd hab bfun bfun (-1) 1 η₁ η₂
    (bardellI_real_full_sub ξ₁ ξ₂ η₁ η₂ hη) m n row0 v

open Compmech.Asm in
/-- conical panel: section `sec` integrates over `[ξ₁ sec, ξ₂ sec] × [−1, 1]` with its own constant radius -/
theorem k0_matrix_psd_bardell_kpanel (base : PCtx ℝ) (s : Nat) (ha : base.a ≠ 0) (hb : ∀ sec, (sectionBase base s sec).b ≠ 0)
    (hr : ∀ sec, (sectionBase base s sec).r ≠ 0) (hF : IsABD base.F) (hpsd : WeightPSD base.F)
    (hab : ∀ sec, sec < s → 0 ≤ base.a * (sectionBase base s sec).b)
    (ξ₁ ξ₂ : Nat → ℝ) (hξ : ∀ sec, sec < s → ξ₁ sec ≤ ξ₂ sec) (η₁ η₂ : ℝ) (m n row0 : Nat) (v : Nat → ℝ) :
    0 ≤ ∑ r ∈ Finset.range (3 * m * n), ∑ c ∈ Finset.range (3 * m * n),
      v (row0 + r) * toFun (conePanelCoo s 3 m n row0 KPanel.fk0.entry base fun sec => bardellI (ξ₁ sec) (ξ₂ sec) η₁ η₂)
        (row0 + r) (row0 + c) * v (row0 + c) :=
  k0_matrix_psd_kpanel base _ (fun sec => bardellI_comm (ξ₁ sec) (ξ₂ sec) η₁ η₂) s ha hb hr hF hpsd hab
    (fun _ => bfun) (fun _ => bfun) ξ₁ ξ₂ (fun _ => -1) (fun _ => 1)
    (fun sec hsec => bardellI_real_sub_full (ξ₁ sec) (ξ₂ sec) η₁ η₂ (hξ sec hsec)) m n row0 v

end Compmech.Panel.C02
