/-
C02 — Panel constitutive stiffness equals the Hessian of the Donnell CLT strain energy.

The models `Gen.<Model>.<kernel>.entry` are REGENERATED from compmech/panel/models/*.pyx on every run
(tools/translate/gen_panel.py); the theorems below are re-checked against what the source says now.
Each theorem is uniform in the series indices (i, j, k, l), the series orders, the geometry, the
laminate, all real values of the 24 edge flags and the placement: `P.J` is an arbitrary
interpretation of the one-dimensional integrals (C10 ties it to the C tables).
`hessian P dx dy ops W α β` = ∂²/∂c_A∂c_B of ½∬_{dx×dy} ε(c)ᵀ W ε(c) dx dy for the operator table `ops`.
-/
import CompmechVerif.Gen.Panel.Plate
import CompmechVerif.Gen.Panel.PlateW
import CompmechVerif.Gen.Panel.CPanel
import CompmechVerif.Gen.Panel.KPanel
import CompmechVerif.Spec.Kinematics
import CompmechVerif.Core.OpSpecTactics
import CompmechVerif.Core.OpSpecLemmas
import Mathlib.Tactic.FinCases
import Mathlib.Data.Fintype.Basic

set_option linter.unnecessarySeqFocus false

namespace Compmech.Panel.C02
open Compmech.Panel Compmech.Gen

variable {K : Type} [Field K] [CharZero K]

/-- flat plate, full width -/
theorem k0_entry_eq_hessian_plate (P : PCtx K) (ha : P.a ≠ 0) (hb : P.b ≠ 0) (hF : IsABD P.F)
    (ro co : Fin 3) :
    Plate.fk0.entry ro co P = hessian P .full .full (plateOps P) P.F (fld3 ro) (fld3 co) := by
  fin_cases ro <;> fin_cases co <;> entry_eq_hessian [plateOps] sym hF

/-- flat plate, sub-interval `y1 ≤ y ≤ y2` -/
theorem k0y1y2_entry_eq_hessian_plate (P : PCtx K) (ha : P.a ≠ 0) (hb : P.b ≠ 0) (hF : IsABD P.F)
    (ro co : Fin 3) :
    Plate.fk0y1y2.entry ro co P = hessian P .full .sub (plateOps P) P.F (fld3 ro) (fld3 co) := by
  fin_cases ro <;> fin_cases co <;> entry_eq_hessian [plateOps] sym hF

/-- `w`-only plate model -/
theorem k0_entry_eq_hessian_plate_w (P : PCtx K) (ha : P.a ≠ 0) (hb : P.b ≠ 0) (hF : IsABD P.F)
    (ro co : Fin 1) :
    PlateW.fk0.entry ro co P = hessian P .full .full (plateOps P) P.F (fld1 ro) (fld1 co) := by
  fin_cases ro <;> fin_cases co <;> entry_eq_hessian [plateOps, fld1] sym hF

theorem k0y1y2_entry_eq_hessian_plate_w (P : PCtx K) (ha : P.a ≠ 0) (hb : P.b ≠ 0) (hF : IsABD P.F)
    (ro co : Fin 1) :
    PlateW.fk0y1y2.entry ro co P = hessian P .full .sub (plateOps P) P.F (fld1 ro) (fld1 co) := by
  fin_cases ro <;> fin_cases co <;> entry_eq_hessian [plateOps, fld1] sym hF

/-- cylindrical panel -/
theorem k0_entry_eq_hessian_cpanel (P : PCtx K) (ha : P.a ≠ 0) (hb : P.b ≠ 0) (hr : P.r ≠ 0)
    (hF : IsABD P.F) (ro co : Fin 3) :
    CPanel.fk0.entry ro co P = hessian P .full .full (cpanelOps P) P.F (fld3 ro) (fld3 co) := by
  fin_cases ro <;> fin_cases co <;> entry_eq_hessian [cpanelOps, plateOps] sym hF

theorem k0y1y2_entry_eq_hessian_cpanel (P : PCtx K) (ha : P.a ≠ 0) (hb : P.b ≠ 0) (hr : P.r ≠ 0)
    (hF : IsABD P.F) (ro co : Fin 3) :
    CPanel.fk0y1y2.entry ro co P = hessian P .full .sub (cpanelOps P) P.F (fld3 ro) (fld3 co) := by
  fin_cases ro <;> fin_cases co <;> entry_eq_hessian [cpanelOps, plateOps] sym hF

set_option maxHeartbeats 4000000 in
/-- conical panel: one constant-radius section `[ξ₁, ξ₂]` (the `x` integrals are over that section);
`P.r`, `P.b` are the section's radius and width. -/
theorem k0_entry_eq_hessian_kpanel (P : PCtx K) (ha : P.a ≠ 0) (hb : P.b ≠ 0) (hr : P.r ≠ 0)
    (hF : IsABD P.F) (ro co : Fin 3) :
    KPanel.fk0.entry ro co P = hessian P .sub .full (kpanelOps P) P.F (fld3 ro) (fld3 co) := by
  fin_cases ro <;> fin_cases co <;> entry_eq_hessian [kpanelOps, plateOps] sym hF

set_option maxHeartbeats 4000000 in
theorem k0y1y2_entry_eq_hessian_kpanel (P : PCtx K) (ha : P.a ≠ 0) (hb : P.b ≠ 0) (hr : P.r ≠ 0)
    (hF : IsABD P.F) (ro co : Fin 3) :
    KPanel.fk0y1y2.entry ro co P = hessian P .sub .sub (kpanelOps P) P.F (fld3 ro) (fld3 co) := by
  fin_cases ro <;> fin_cases co <;> entry_eq_hessian [kpanelOps, plateOps] sym hF


/-! ### symmetry of the whole matrix

`P.swap` reads the same one-dimensional integrals with the roles of the row and the column basis function
exchanged (`∫ D^{d₁}φ_A D^{d₂}φ_B` ↦ `∫ D^{d₂}φ_B D^{d₁}φ_A` with `A ↔ B`), i.e. `entry co ro P.swap` is what the
kernel's formula gives for the TRANSPOSED position.  The theorems say `K[r, c] = K[c, r]` for every pair of
degrees of freedom — so mirroring the upper triangle (`finalize_symmetric_matrix`) reproduces exactly the entries the
kernel's own formula assigns to the lower triangle. -/

theorem k0_entry_symm_plate (P : PCtx K) (ha : P.a ≠ 0) (hb : P.b ≠ 0) (hF : IsABD P.F) (ro co : Fin 3) :
    Plate.fk0.entry ro co P = Plate.fk0.entry co ro P.swap := by
  rw [k0_entry_eq_hessian_plate P ha hb hF, k0_entry_eq_hessian_plate P.swap ha hb hF]
  exact (hessian_swap P _ _ (plateOps P) P.F hF.symm _ _).symm

theorem k0y1y2_entry_symm_plate (P : PCtx K) (ha : P.a ≠ 0) (hb : P.b ≠ 0) (hF : IsABD P.F) (ro co : Fin 3) :
    Plate.fk0y1y2.entry ro co P = Plate.fk0y1y2.entry co ro P.swap := by
  rw [k0y1y2_entry_eq_hessian_plate P ha hb hF, k0y1y2_entry_eq_hessian_plate P.swap ha hb hF]
  exact (hessian_swap P _ _ (plateOps P) P.F hF.symm _ _).symm

theorem k0_entry_symm_plate_w (P : PCtx K) (ha : P.a ≠ 0) (hb : P.b ≠ 0) (hF : IsABD P.F) (ro co : Fin 1) :
    PlateW.fk0.entry ro co P = PlateW.fk0.entry co ro P.swap := by
  rw [k0_entry_eq_hessian_plate_w P ha hb hF, k0_entry_eq_hessian_plate_w P.swap ha hb hF]
  exact (hessian_swap P _ _ (plateOps P) P.F hF.symm _ _).symm

theorem k0y1y2_entry_symm_plate_w (P : PCtx K) (ha : P.a ≠ 0) (hb : P.b ≠ 0) (hF : IsABD P.F) (ro co : Fin 1) :
    PlateW.fk0y1y2.entry ro co P = PlateW.fk0y1y2.entry co ro P.swap := by
  rw [k0y1y2_entry_eq_hessian_plate_w P ha hb hF, k0y1y2_entry_eq_hessian_plate_w P.swap ha hb hF]
  exact (hessian_swap P _ _ (plateOps P) P.F hF.symm _ _).symm

theorem k0_entry_symm_cpanel (P : PCtx K) (ha : P.a ≠ 0) (hb : P.b ≠ 0) (hr : P.r ≠ 0) (hF : IsABD P.F) (ro co : Fin 3) :
    CPanel.fk0.entry ro co P = CPanel.fk0.entry co ro P.swap := by
  rw [k0_entry_eq_hessian_cpanel P ha hb hr hF, k0_entry_eq_hessian_cpanel P.swap ha hb hr hF]
  exact (hessian_swap P _ _ (cpanelOps P) P.F hF.symm _ _).symm

theorem k0y1y2_entry_symm_cpanel (P : PCtx K) (ha : P.a ≠ 0) (hb : P.b ≠ 0) (hr : P.r ≠ 0) (hF : IsABD P.F) (ro co : Fin 3) :
    CPanel.fk0y1y2.entry ro co P = CPanel.fk0y1y2.entry co ro P.swap := by
  rw [k0y1y2_entry_eq_hessian_cpanel P ha hb hr hF, k0y1y2_entry_eq_hessian_cpanel P.swap ha hb hr hF]
  exact (hessian_swap P _ _ (cpanelOps P) P.F hF.symm _ _).symm

theorem k0_entry_symm_kpanel (P : PCtx K) (ha : P.a ≠ 0) (hb : P.b ≠ 0) (hr : P.r ≠ 0) (hF : IsABD P.F) (ro co : Fin 3) :
    KPanel.fk0.entry ro co P = KPanel.fk0.entry co ro P.swap := by
  rw [k0_entry_eq_hessian_kpanel P ha hb hr hF, k0_entry_eq_hessian_kpanel P.swap ha hb hr hF]
  exact (hessian_swap P _ _ (kpanelOps P) P.F hF.symm _ _).symm

theorem k0y1y2_entry_symm_kpanel (P : PCtx K) (ha : P.a ≠ 0) (hb : P.b ≠ 0) (hr : P.r ≠ 0) (hF : IsABD P.F) (ro co : Fin 3) :
    KPanel.fk0y1y2.entry ro co P = KPanel.fk0y1y2.entry co ro P.swap := by
  rw [k0y1y2_entry_eq_hessian_kpanel P ha hb hr hF, k0y1y2_entry_eq_hessian_kpanel P.swap ha hb hr hF]
  exact (hessian_swap P _ _ (kpanelOps P) P.F hF.symm _ _).symm

end Compmech.Panel.C02
