/-
C15 — Ritz eigenvalues are upper bounds that can only improve when terms are added (algebraic half).
The closed-form clause (lower bound by / convergence to the double-sine solutions) is a statement about the
continuum problem and is NOT decided here (see DESIGN.md section 6); tools/props/C15.py evaluates it numerically
for the record, labelled a test.

Second part of the file (from `eigenvalues_eq_minmax` on): the Courant–Fischer theorem is no longer assumed.
`Spec/CourantFischer.lean` proves it from Mathlib's spectral theorem — for the standard symmetric problem, for the
generalised pencil `K v = λ M v` with `M` positive definite, and for the buckling pencil `(K + λ KG) v = 0` with `K`
positive definite — and `Spec/RitzNesting.lean` shows that the finalized `(m, n)` panel matrix IS the principal
sub-matrix of the `(m', n')` one.  What remains outside: that LAPACK / ARPACK return these eigenvalues (numerical
contract of C05/C06), and that the matrices handed to the solver are positive definite (hypothesis of the property).
-/
import CompmechVerif.Spec.Ritz
import CompmechVerif.Spec.CourantFischer
import CompmechVerif.Spec.RitzNesting
import CompmechVerif.Gen.Panel.Plate
import CompmechVerif.Props.C02
import CompmechVerif.Props.C03
import CompmechVerif.Props.C04
import Mathlib.Tactic.Ring
import Mathlib.Tactic.Linarith
import Mathlib.Tactic.FinCases

namespace Compmech.Ritz.C15
open Compmech.Ritz

/-- the dof map is injective on the admissible index ranges: every amplitude has its own position -/
theorem dofIndex_injective (num m : ℕ) (hnum : 0 < num) {α i j α' i' j' : ℕ}
    (hα : α < num) (hα' : α' < num) (hi : i < m) (hi' : i' < m)
    (h : dofIndex num m α i j = dofIndex num m α' i' j') : α = α' ∧ i = i' ∧ j = j' := by
  unfold dofIndex at h
  have h1 : α = α' := by
    have := congrArg (· % num) h
    simp only [Nat.mul_add_mod] at this
    rwa [Nat.mod_eq_of_lt hα, Nat.mod_eq_of_lt hα'] at this
  subst h1
  have h2 : j * m + i = j' * m + i' := by
    have := Nat.add_right_cancel h
    exact Nat.eq_of_mul_eq_mul_left hnum this
  have h3 : i = i' := by
    have := congrArg (· % m) h2
    simp only [Nat.mul_add_mod_self_right] at this
    rwa [Nat.mod_eq_of_lt hi, Nat.mod_eq_of_lt hi'] at this
  subst h3
  have hm : 0 < m := Nat.lt_of_le_of_lt (Nat.zero_le _) hi
  have h4 : j * m = j' * m := Nat.add_right_cancel h2
  exact ⟨rfl, rfl, Nat.eq_of_mul_eq_mul_right hm h4⟩

/-- Nesting: the amplitudes of an `(m, n)` model are amplitudes of every `(m', n')` model with `m ≤ m'`, `n ≤ n'`
(same field, same series indices); since no generated entry mentions `m` or `n` (the entry functions
`Gen.*.entry ro co P` take only the integrals of the two basis functions involved), the `(m, n)` matrices are the
principal sub-matrices of the `(m', n')` ones along this embedding. -/
theorem embedding_in_range (num m n m' n' : ℕ) (hm : m ≤ m') (hn : n ≤ n') {α i j : ℕ}
    (hα : α < num) (hi : i < m) (hj : j < n) :
    dofIndex num m' α i j < num * m' * n' := by
  unfold dofIndex
  have hi' : i < m' := lt_of_lt_of_le hi hm
  have hj' : j < n' := lt_of_lt_of_le hj hn
  have h1 : j * m' + i < n' * m' := by
    calc j * m' + i < j * m' + m' := by omega
      _ = (j + 1) * m' := by ring
      _ ≤ n' * m' := Nat.mul_le_mul_right _ hj'
  calc num * (j * m' + i) + α < num * (j * m' + i) + num := by omega
    _ = num * (j * m' + i + 1) := by ring
    _ ≤ num * (n' * m') := Nat.mul_le_mul_left _ h1
    _ = num * m' * n' := by ring

/-- the generated stiffness entry is the same function of the two basis functions whatever the series orders:
it has no `m`, `n` argument (this is a statement about the regenerated model: a source edit that makes an entry
depend on `m` or `n` changes the signature of `entry` and breaks this theorem) -/
theorem entries_independent_of_series_order {K : Type} [Field K] (P : Compmech.Panel.PCtx K) (ro co : Fin 3)
    (m n m' n' : ℕ) :
    (fun (_ : ℕ × ℕ) => Compmech.Gen.Plate.fk0.entry ro co P) (m, n) =
      (fun (_ : ℕ × ℕ) => Compmech.Gen.Plate.fk0.entry ro co P) (m', n') := rfl

variable {E : Type*} [AddCommGroup E] [Module ℝ E]

/-- Min–max monotonicity: enlarging the trial space can only lower (never raise) every min–max value — for ANY
Rayleigh quotient (buckling: `xᵀKx / xᵀ(−KG)x`; vibration: `xᵀKx / xᵀMx`), any `k`, any nested spaces. -/
theorem minmax_monotone (R : E → EReal) (k : ℕ) {V V' : Submodule ℝ E} (h : V' ≤ V) :
    minmax R k V ≤ minmax R k V' := by
  unfold minmax
  refine le_iInf fun W' => ?_
  exact iInf_le_of_le ⟨W'.1, ⟨le_trans W'.2.1 h, W'.2.2⟩⟩ le_rfl

/-- chain form: along any increasing sequence of trial spaces the min–max values are non-increasing -/
theorem minmax_chain (R : E → EReal) (k : ℕ) (V : ℕ → Submodule ℝ E) (hV : Monotone V) :
    Antitone fun s => minmax R k (V s) :=
  fun _ _ hab => minmax_monotone R k (hV hab)

/-! ### Courant–Fischer proved: the eigenvalues ARE the min–max values

Vocabulary (`Spec/CourantFischer.lean`): `ascEigenvalues hA k` — the `k`-th smallest (0-based, with multiplicity)
eigenvalue of the real symmetric matrix `A`, taken from Mathlib's spectral theorem; `genEigenvalues hK hM k` — the
same for the pencil `K v = λ M v` (`K` symmetric, `M` positive definite; `Matrix.PosDef M` is "symmetric and
`0 < vᵀ M v` for `v ≠ 0`", `Matrix.posDef_iff_dotProduct_mulVec`); `bucklingMultiplier hKG hK k` — the `k`-th smallest
positive `λ` with `(K + λ KG) v = 0`, `K` positive definite; `pencilRayleigh K M v = (vᵀKv)/(vᵀMv)`. -/

section CourantFischer

open Matrix

variable {N N' : ℕ}

/-- The sorted eigenvalues of a real symmetric matrix are the min–max values `Spec/Ritz.minmax` defines: `λ_k` is the
infimum over the `(k+1)`-dimensional subspaces of the supremum of the Rayleigh quotient `(vᵀAv)/(vᵀv)` over their
non-zero vectors.  (Courant–Fischer, formerly assumed.) -/
theorem eigenvalues_eq_minmax {A : Matrix (Fin N) (Fin N) ℝ} (hA : A.IsHermitian) (k : Fin N) :
    ((ascEigenvalues hA k : ℝ) : EReal) = minmax (pencilRayleigh A 1) ((k : ℕ) + 1) ⊤ :=
  (minmax_eq_ascEigenvalues hA k).symm

/-- The two halves in elementary form: a `(k+1)`-dimensional subspace on which `vᵀAv ≤ λ_k vᵀv`, and in every
`(k+1)`-dimensional subspace a non-zero vector with `vᵀAv ≥ λ_k vᵀv`. -/
theorem eigenvalues_minmax_halves {A : Matrix (Fin N) (Fin N) ℝ} (hA : A.IsHermitian) (k : Fin N) :
    (∃ W : Submodule ℝ (Fin N → ℝ), Module.finrank ℝ W = (k : ℕ) + 1 ∧
        ∀ v ∈ W, v ⬝ᵥ A *ᵥ v ≤ ascEigenvalues hA k * (v ⬝ᵥ v)) ∧
      ∀ W : Submodule ℝ (Fin N → ℝ), Module.finrank ℝ W = (k : ℕ) + 1 →
        ∃ v ∈ W, v ≠ 0 ∧ ascEigenvalues hA k * (v ⬝ᵥ v) ≤ v ⬝ᵥ A *ᵥ v :=
  ⟨exists_subspace_quad_le hA k, exists_vector_quad_ge hA k⟩

/-- The ascending list is the spectrum: it is sorted, each member has an eigenvector, and every eigenvalue (of any
non-zero eigenvector) is a member — so it is what a correct symmetric eigensolver returns, sorted. -/
theorem eigenvalues_are_the_spectrum {A : Matrix (Fin N) (Fin N) ℝ} (hA : A.IsHermitian) :
    Monotone (ascEigenvalues hA) ∧
      (∀ k, ∃ v : Fin N → ℝ, v ≠ 0 ∧ A *ᵥ v = ascEigenvalues hA k • v) ∧
      ∀ (μ : ℝ) (v : Fin N → ℝ), v ≠ 0 → A *ᵥ v = μ • v → ∃ k, ascEigenvalues hA k = μ :=
  ⟨ascEigenvalues_monotone hA, ascEigenvalues_exists_eigenvector hA,
    fun _ _ hv h => exists_ascEigenvalues_eq_of_eigenvector hA hv h⟩

/-- Cauchy interlacing, the side C15 needs: the `k`-th smallest eigenvalue of a real symmetric matrix does not exceed
the `k`-th smallest eigenvalue of any of its principal sub-matrices. -/
theorem cauchy_interlacing_lower {A : Matrix (Fin N') (Fin N') ℝ} (hA : A.IsHermitian) {e : Fin N → Fin N'}
    (he : Function.Injective e) (k : Fin N) :
    ascEigenvalues hA (Fin.castLE (le_of_injective he) k) ≤ ascEigenvalues (hA.submatrix e) k :=
  ascEigenvalues_le_submatrix hA he (hA.submatrix e) k

/-- The same for the generalised pencil `K v = λ M v`, `M` positive definite: the sorted generalised eigenvalues are
the min–max values of `(vᵀKv)/(vᵀMv)`. -/
theorem pencil_eigenvalues_eq_minmax {K M : Matrix (Fin N) (Fin N) ℝ} (hK : K.IsHermitian) (hM : M.PosDef)
    (k : Fin N) :
    ((genEigenvalues hK hM k : ℝ) : EReal) = minmax (pencilRayleigh K M) ((k : ℕ) + 1) ⊤ :=
  (minmax_eq_genEigenvalues hK hM k).symm

/-- The generalised eigenvalues are the solutions of the pencil equation: sorted, each with a mode `K v = λ_k M v`,
`v ≠ 0`, and every `μ` with `K v = μ M v` for some `v ≠ 0` is in the list; with `M = 1` they are the ordinary ones. -/
theorem pencil_eigenvalues_are_the_spectrum {K M : Matrix (Fin N) (Fin N) ℝ} (hK : K.IsHermitian)
    (hM : M.PosDef) :
    Monotone (genEigenvalues hK hM) ∧
      (∀ k, ∃ v : Fin N → ℝ, v ≠ 0 ∧ K *ᵥ v = genEigenvalues hK hM k • M *ᵥ v) ∧
      (∀ (μ : ℝ) (v : Fin N → ℝ), v ≠ 0 → K *ᵥ v = μ • M *ᵥ v → ∃ k, genEigenvalues hK hM k = μ) ∧
      ∀ k, genEigenvalues hK (PosDef.one : (1 : Matrix (Fin N) (Fin N) ℝ).PosDef) k = ascEigenvalues hK k :=
  ⟨genEigenvalues_monotone hK hM, genEigenvalues_exists_eigenvector hK hM,
    fun _ _ hv h => exists_genEigenvalues_eq_of_eigenvector hK hM hv h, genEigenvalues_one hK⟩

/-- One-sided interlacing for the generalised pencil: the `k`-th smallest generalised eigenvalue of `(K, M)` does not
exceed that of a principal sub-pencil (which is again symmetric / positive definite). -/
theorem pencil_interlacing_lower {K M : Matrix (Fin N') (Fin N') ℝ} (hK : K.IsHermitian) (hM : M.PosDef)
    {e : Fin N → Fin N'} (he : Function.Injective e) (k : Fin N) :
    genEigenvalues hK hM (Fin.castLE (le_of_injective he) k)
      ≤ genEigenvalues (hK.submatrix e) (hM.submatrix he) k :=
  genEigenvalues_le_submatrix hK hM he (hK.submatrix e) (hM.submatrix he) k

/-- Buckling pencil `(K + λ KG) v = 0`, `K` positive definite: the positive multipliers are `−1/ν` for the negative
generalised eigenvalues `ν` of `KG v = ν K v`; `bucklingMultiplier … k` (defined when `ν_k < 0`) is positive, has a
buckling mode, the list is ascending, and every positive multiplier occurs in it. -/
theorem buckling_multipliers_are_the_spectrum {K KG : Matrix (Fin N) (Fin N) ℝ} (hKG : KG.IsHermitian)
    (hK : K.PosDef) :
    (∀ k, genEigenvalues hKG hK k < 0 →
        0 < bucklingMultiplier hKG hK k ∧
          (∃ v : Fin N → ℝ, v ≠ 0 ∧ (K + bucklingMultiplier hKG hK k • KG) *ᵥ v = 0) ∧
          ∀ i, i ≤ k → bucklingMultiplier hKG hK i ≤ bucklingMultiplier hKG hK k) ∧
      ∀ (lam : ℝ) (v : Fin N → ℝ), 0 < lam → v ≠ 0 → (K + lam • KG) *ᵥ v = 0 →
        ∃ k, genEigenvalues hKG hK k < 0 ∧ bucklingMultiplier hKG hK k = lam :=
  ⟨fun k hneg => ⟨bucklingMultiplier_pos hKG hK k hneg, bucklingMultiplier_exists_mode hKG hK k hneg,
      fun _ hik => bucklingMultiplier_mono hKG hK hik hneg⟩,
    fun _ _ hlam hv h => exists_bucklingMultiplier_eq hKG hK hlam hv h⟩

/-- Buckling multipliers of a principal sub-pencil: if the sub-pencil has at least `k+1` positive multipliers then so
has the full pencil, and the `k`-th smallest positive multiplier of the full pencil is no larger. -/
theorem buckling_interlacing_lower {K KG : Matrix (Fin N') (Fin N') ℝ} (hKG : KG.IsHermitian) (hK : K.PosDef)
    {e : Fin N → Fin N'} (he : Function.Injective e) (k : Fin N)
    (hneg : genEigenvalues (hKG.submatrix e) (hK.submatrix he) k < 0) :
    genEigenvalues hKG hK (Fin.castLE (le_of_injective he) k) < 0 ∧
      bucklingMultiplier hKG hK (Fin.castLE (le_of_injective he) k)
        ≤ bucklingMultiplier (hKG.submatrix e) (hK.submatrix he) k :=
  bucklingMultiplier_le_submatrix hKG hK he (hKG.submatrix e) (hK.submatrix he) k hneg

end CourantFischer

/-! ### the panel matrices: nesting and monotone Ritz eigenvalues

`panelMatrix num m n entry base I` (`Spec/RitzNesting.lean`) is the finalized COO matrix of the modelled loop nest with
the regenerated entry expressions (`Spec/WholeMatrix.panelCoo`, placed at `row0 = 0`) as a real square matrix of order
`num·m·n`; `embedIndex num hm hn` moves the amplitude `(α, i, j)` from `num·(j·m + i) + α` to `num·(j·m' + i) + α`. -/

section Panels

open Matrix Compmech.Panel Compmech.Gen

/-- Nesting, now a statement about the whole finalized matrices: for `m ≤ m'`, `n ≤ n'` the `(m, n)` matrix of a kernel
whose entries are symmetric under exchange of the two basis functions is the principal sub-matrix of the `(m', n')`
matrix along the (injective) index embedding. -/
theorem nested_principal_submatrix (num : ℕ) {m n m' n' : ℕ} (hm : m ≤ m') (hn : n ≤ n')
    (entry : Fin num → Fin num → PCtx ℝ → ℝ) (base : PCtx ℝ) (I : Integrals ℝ) (hI : I.Comm)
    (hsym : ∀ ro co i k j l, entry ro co (ctxAt base I i k j l) = entry co ro (ctxAt base I i k j l).swap) :
    Function.Injective (embedIndex num hm hn) ∧
      panelMatrix num m n entry base I =
        (panelMatrix num m' n' entry base I).submatrix (embedIndex num hm hn) (embedIndex num hm hn) :=
  ⟨embedIndex_injective num hm hn, panelMatrix_nested num hm hn entry base I hI hsym⟩

/-- Standard symmetric problem on the panel matrices, WITHOUT the Courant–Fischer assumption: the `k`-th smallest
eigenvalue of the `(m, n)` matrix is at least the `k`-th smallest eigenvalue of the `(m', n')` matrix. -/
theorem ritz_eigenvalues_monotone (num : ℕ) {m n m' n' : ℕ} (hm : m ≤ m') (hn : n ≤ n')
    (entry : Fin num → Fin num → PCtx ℝ → ℝ) (base : PCtx ℝ) (I : Integrals ℝ) (hI : I.Comm)
    (hsym : ∀ ro co i k j l, entry ro co (ctxAt base I i k j l) = entry co ro (ctxAt base I i k j l).swap)
    (k : Fin (num * m * n)) :
    ascEigenvalues (panelMatrix_isHermitian num m' n' entry base I) (Fin.castLE (size_le num hm hn) k)
      ≤ ascEigenvalues (panelMatrix_isHermitian num m n entry base I) k := by
  have h := cauchy_interlacing_lower (panelMatrix_isHermitian num m' n' entry base I)
    (embedIndex_injective num hm hn) k
  rwa [ascEigenvalues_congr (panelMatrix_nested num hm hn entry base I hI hsym).symm _
    (panelMatrix_isHermitian num m n entry base I)] at h

/-- Natural frequencies (`K v = ω² M v`), any two symmetric kernels, mass matrix of the larger model positive definite:
the `k`-th smallest `ω²` of the `(m, n)` model is at least that of the `(m', n')` model. -/
theorem ritz_frequencies_monotone (num : ℕ) {m n m' n' : ℕ} (hm : m ≤ m') (hn : n ≤ n')
    (entryK entryM : Fin num → Fin num → PCtx ℝ → ℝ) (base : PCtx ℝ) (I : Integrals ℝ) (hI : I.Comm)
    (hsymK : ∀ ro co i k j l, entryK ro co (ctxAt base I i k j l) = entryK co ro (ctxAt base I i k j l).swap)
    (hsymM : ∀ ro co i k j l, entryM ro co (ctxAt base I i k j l) = entryM co ro (ctxAt base I i k j l).swap)
    (hMpd : (panelMatrix num m' n' entryM base I).PosDef) (k : Fin (num * m * n)) :
    genEigenvalues (panelMatrix_isHermitian num m' n' entryK base I) hMpd (Fin.castLE (size_le num hm hn) k)
      ≤ genEigenvalues (panelMatrix_isHermitian num m n entryK base I)
          (panelMatrix_posDef_of_le num hm hn entryM base I hI hsymM hMpd) k := by
  have h := pencil_interlacing_lower (panelMatrix_isHermitian num m' n' entryK base I) hMpd
    (embedIndex_injective num hm hn) k
  rwa [genEigenvalues_congr (panelMatrix_nested num hm hn entryK base I hI hsymK).symm
    (panelMatrix_nested num hm hn entryM base I hI hsymM).symm _ _
    (panelMatrix_isHermitian num m n entryK base I)
    (panelMatrix_posDef_of_le num hm hn entryM base I hI hsymM hMpd)] at h

/-- Linear buckling (`(K + λ KG) v = 0`), constitutive stiffness of the larger model positive definite: if the `(m, n)`
model has at least `k+1` positive multipliers, so has the `(m', n')` model, and its `k`-th smallest positive multiplier
is no larger. -/
theorem ritz_buckling_monotone (num : ℕ) {m n m' n' : ℕ} (hm : m ≤ m') (hn : n ≤ n')
    (entryK entryG : Fin num → Fin num → PCtx ℝ → ℝ) (base : PCtx ℝ) (I : Integrals ℝ) (hI : I.Comm)
    (hsymK : ∀ ro co i k j l, entryK ro co (ctxAt base I i k j l) = entryK co ro (ctxAt base I i k j l).swap)
    (hsymG : ∀ ro co i k j l, entryG ro co (ctxAt base I i k j l) = entryG co ro (ctxAt base I i k j l).swap)
    (hKpd : (panelMatrix num m' n' entryK base I).PosDef) (k : Fin (num * m * n))
    (hneg : genEigenvalues (panelMatrix_isHermitian num m n entryG base I)
      (panelMatrix_posDef_of_le num hm hn entryK base I hI hsymK hKpd) k < 0) :
    genEigenvalues (panelMatrix_isHermitian num m' n' entryG base I) hKpd (Fin.castLE (size_le num hm hn) k) < 0 ∧
      bucklingMultiplier (panelMatrix_isHermitian num m' n' entryG base I) hKpd (Fin.castLE (size_le num hm hn) k)
        ≤ bucklingMultiplier (panelMatrix_isHermitian num m n entryG base I)
            (panelMatrix_posDef_of_le num hm hn entryK base I hI hsymK hKpd) k := by
  have hc := genEigenvalues_congr (panelMatrix_nested num hm hn entryG base I hI hsymG)
    (panelMatrix_nested num hm hn entryK base I hI hsymK)
    (panelMatrix_isHermitian num m n entryG base I)
    (panelMatrix_posDef_of_le num hm hn entryK base I hI hsymK hKpd)
    ((panelMatrix_isHermitian num m' n' entryG base I).submatrix (embedIndex num hm hn))
    (hKpd.submatrix (embedIndex_injective num hm hn)) k
  have h := buckling_interlacing_lower (panelMatrix_isHermitian num m' n' entryG base I) hKpd
    (embedIndex_injective num hm hn) k (hc ▸ hneg)
  refine ⟨h.1, ?_⟩
  have h2 := h.2
  unfold bucklingMultiplier at h2 ⊢
  rwa [← hc] at h2

/-- Flat plate (`plate_clt_donnell_bardell`), natural frequencies, on the REGENERATED kernels `fk0`, `fkM`: adding terms
never raises any `ω²_k` — the symmetry hypotheses are discharged by C02 `k0_entry_symm_plate` and C04 `kM_symm_plate`. -/
theorem plate_frequencies_monotone {m n m' n' : ℕ} (hm : m ≤ m') (hn : n ≤ n') (base : PCtx ℝ) (I : Integrals ℝ)
    (hI : I.Comm) (ha : base.a ≠ 0) (hb : base.b ≠ 0) (hF : IsABD base.F)
    (hMpd : (panelMatrix 3 m' n' Plate.fkM.entry base I).PosDef) (k : Fin (3 * m * n)) :
    genEigenvalues (panelMatrix_isHermitian 3 m' n' Plate.fk0.entry base I) hMpd (Fin.castLE (size_le 3 hm hn) k)
      ≤ genEigenvalues (panelMatrix_isHermitian 3 m n Plate.fk0.entry base I)
          (panelMatrix_posDef_of_le 3 hm hn Plate.fkM.entry base I hI
            (fun ro co i k j l => Compmech.Panel.C04.kM_symm_plate (ctxAt base I i k j l) ha hb ro co) hMpd) k :=
  ritz_frequencies_monotone 3 hm hn Plate.fk0.entry Plate.fkM.entry base I hI
    (fun ro co i k j l => Compmech.Panel.C02.k0_entry_symm_plate (ctxAt base I i k j l) ha hb hF ro co)
    (fun ro co i k j l => Compmech.Panel.C04.kM_symm_plate (ctxAt base I i k j l) ha hb ro co) hMpd k

/-- Flat plate, linear buckling under constant pre-stress, on the REGENERATED kernels `fk0`, `fkG0`. -/
theorem plate_buckling_monotone {m n m' n' : ℕ} (hm : m ≤ m') (hn : n ≤ n') (base : PCtx ℝ) (I : Integrals ℝ)
    (hI : I.Comm) (ha : base.a ≠ 0) (hb : base.b ≠ 0) (hF : IsABD base.F)
    (hKpd : (panelMatrix 3 m' n' Plate.fk0.entry base I).PosDef) (k : Fin (3 * m * n))
    (hneg : genEigenvalues (panelMatrix_isHermitian 3 m n Plate.fkG0.entry base I)
      (panelMatrix_posDef_of_le 3 hm hn Plate.fk0.entry base I hI
        (fun ro co i k j l => Compmech.Panel.C02.k0_entry_symm_plate (ctxAt base I i k j l) ha hb hF ro co) hKpd) k < 0) :
    genEigenvalues (panelMatrix_isHermitian 3 m' n' Plate.fkG0.entry base I) hKpd (Fin.castLE (size_le 3 hm hn) k) < 0 ∧
      bucklingMultiplier (panelMatrix_isHermitian 3 m' n' Plate.fkG0.entry base I) hKpd
          (Fin.castLE (size_le 3 hm hn) k)
        ≤ bucklingMultiplier (panelMatrix_isHermitian 3 m n Plate.fkG0.entry base I)
            (panelMatrix_posDef_of_le 3 hm hn Plate.fk0.entry base I hI
              (fun ro co i k j l => Compmech.Panel.C02.k0_entry_symm_plate (ctxAt base I i k j l) ha hb hF ro co)
              hKpd) k :=
  ritz_buckling_monotone 3 hm hn Plate.fk0.entry Plate.fkG0.entry base I hI
    (fun ro co i k j l => Compmech.Panel.C02.k0_entry_symm_plate (ctxAt base I i k j l) ha hb hF ro co)
    (fun ro co i k j l => Compmech.Panel.C03.kG0_symm_plate (ctxAt base I i k j l) ha hb ro co) hKpd k hneg

/-! #### sub-interval kernels and conical panels: nesting and monotone Ritz eigenvalues

`panelMatrixYX` (`Spec/RitzNesting.lean`): the finalized matrix of a `*y1y2` kernel of the flat / cylindrical models (loops nested
`j, l, i, k`; equal to `panelMatrix` of the same entries, `panelMatrixYX_eq`).  `conePanelMatrix s …`: the finalized matrix of a
conical-panel kernel, whose entries are SUMS over the `s` constant-radius sections (`conePanelCoo_entry`); nesting holds section by
section (no section's entry expression has an `m`, `n` argument), hence for the sums. -/

/-- Nesting for the sub-interval kernels: the `(m, n)` strip matrix is the principal sub-matrix of the `(m', n')` strip matrix along
the injective index embedding. -/
theorem nested_principal_submatrix_strip (num : ℕ) {m n m' n' : ℕ} (hm : m ≤ m') (hn : n ≤ n')
    (entry : Fin num → Fin num → PCtx ℝ → ℝ) (base : PCtx ℝ) (I : Integrals ℝ) (hI : I.Comm)
    (hsym : ∀ ro co i k j l, entry ro co (ctxAt base I i k j l) = entry co ro (ctxAt base I i k j l).swap) :
    Function.Injective (embedIndex num hm hn) ∧
      panelMatrixYX num m n entry base I =
        (panelMatrixYX num m' n' entry base I).submatrix (embedIndex num hm hn) (embedIndex num hm hn) :=
  ⟨embedIndex_injective num hm hn, panelMatrixYX_nested num hm hn entry base I hI hsym⟩

/-- Nesting for the conical panel: every section's entries are symmetric under exchange of the two basis functions ⇒ the `(m, n)`
matrix (sum over the sections) is the principal sub-matrix of the `(m', n')` matrix. -/
theorem nested_principal_submatrix_cone (s num : ℕ) {m n m' n' : ℕ} (hm : m ≤ m') (hn : n ≤ n')
    (entry : Fin num → Fin num → PCtx ℝ → ℝ) (base : PCtx ℝ) (I : ℕ → Integrals ℝ) (hI : ∀ sec, (I sec).Comm)
    (hsym : ∀ sec ro co i k j l, entry ro co (ctxAt (sectionBase base s sec) (I sec) i k j l)
      = entry co ro (ctxAt (sectionBase base s sec) (I sec) i k j l).swap) :
    Function.Injective (embedIndex num hm hn) ∧
      conePanelMatrix s num m n entry base I =
        (conePanelMatrix s num m' n' entry base I).submatrix (embedIndex num hm hn) (embedIndex num hm hn) :=
  ⟨embedIndex_injective num hm hn, conePanelMatrix_nested s num hm hn entry base I hI hsym⟩

/-- Standard symmetric problem, sub-interval kernels: `λ_k` of the `(m', n')` matrix `≤ λ_k` of the `(m, n)` matrix. -/
theorem ritz_eigenvalues_monotone_strip (num : ℕ) {m n m' n' : ℕ} (hm : m ≤ m') (hn : n ≤ n')
    (entry : Fin num → Fin num → PCtx ℝ → ℝ) (base : PCtx ℝ) (I : Integrals ℝ) (hI : I.Comm)
    (hsym : ∀ ro co i k j l, entry ro co (ctxAt base I i k j l) = entry co ro (ctxAt base I i k j l).swap)
    (k : Fin (num * m * n)) :
    ascEigenvalues (panelMatrixYX_isHermitian num m' n' entry base I) (Fin.castLE (size_le num hm hn) k)
      ≤ ascEigenvalues (panelMatrixYX_isHermitian num m n entry base I) k :=
  nested_ascEigenvalues_le (embedIndex_injective num hm hn) (panelMatrixYX_nested num hm hn entry base I hI hsym) _ _ k

/-- Natural frequencies, sub-interval kernels (any two kernels with symmetric entries, mass matrix of the larger model positive
definite): the `k`-th smallest `ω²` of the `(m, n)` model is at least that of the `(m', n')` model. -/
theorem ritz_frequencies_monotone_strip (num : ℕ) {m n m' n' : ℕ} (hm : m ≤ m') (hn : n ≤ n')
    (entryK entryM : Fin num → Fin num → PCtx ℝ → ℝ) (base : PCtx ℝ) (I : Integrals ℝ) (hI : I.Comm)
    (hsymK : ∀ ro co i k j l, entryK ro co (ctxAt base I i k j l) = entryK co ro (ctxAt base I i k j l).swap)
    (hsymM : ∀ ro co i k j l, entryM ro co (ctxAt base I i k j l) = entryM co ro (ctxAt base I i k j l).swap)
    (hMpd : (panelMatrixYX num m' n' entryM base I).PosDef) (k : Fin (num * m * n)) :
    genEigenvalues (panelMatrixYX_isHermitian num m' n' entryK base I) hMpd (Fin.castLE (size_le num hm hn) k)
      ≤ genEigenvalues (panelMatrixYX_isHermitian num m n entryK base I)
          (panelMatrixYX_posDef_of_le num hm hn entryM base I hI hsymM hMpd) k :=
  nested_genEigenvalues_le (embedIndex_injective num hm hn) (panelMatrixYX_nested num hm hn entryK base I hI hsymK)
    (panelMatrixYX_nested num hm hn entryM base I hI hsymM) _ _ _ hMpd k

/-- Linear buckling, sub-interval kernels (constitutive stiffness of the larger model positive definite). -/
theorem ritz_buckling_monotone_strip (num : ℕ) {m n m' n' : ℕ} (hm : m ≤ m') (hn : n ≤ n')
    (entryK entryG : Fin num → Fin num → PCtx ℝ → ℝ) (base : PCtx ℝ) (I : Integrals ℝ) (hI : I.Comm)
    (hsymK : ∀ ro co i k j l, entryK ro co (ctxAt base I i k j l) = entryK co ro (ctxAt base I i k j l).swap)
    (hsymG : ∀ ro co i k j l, entryG ro co (ctxAt base I i k j l) = entryG co ro (ctxAt base I i k j l).swap)
    (hKpd : (panelMatrixYX num m' n' entryK base I).PosDef) (k : Fin (num * m * n))
    (hneg : genEigenvalues (panelMatrixYX_isHermitian num m n entryG base I)
      (panelMatrixYX_posDef_of_le num hm hn entryK base I hI hsymK hKpd) k < 0) :
    genEigenvalues (panelMatrixYX_isHermitian num m' n' entryG base I) hKpd (Fin.castLE (size_le num hm hn) k) < 0 ∧
      bucklingMultiplier (panelMatrixYX_isHermitian num m' n' entryG base I) hKpd (Fin.castLE (size_le num hm hn) k)
        ≤ bucklingMultiplier (panelMatrixYX_isHermitian num m n entryG base I)
            (panelMatrixYX_posDef_of_le num hm hn entryK base I hI hsymK hKpd) k :=
  nested_bucklingMultiplier_le (embedIndex_injective num hm hn) (panelMatrixYX_nested num hm hn entryG base I hI hsymG)
    (panelMatrixYX_nested num hm hn entryK base I hI hsymK) _ _ _ hKpd k hneg

/-- Standard symmetric problem, conical panel. -/
theorem ritz_eigenvalues_monotone_cone (s num : ℕ) {m n m' n' : ℕ} (hm : m ≤ m') (hn : n ≤ n')
    (entry : Fin num → Fin num → PCtx ℝ → ℝ) (base : PCtx ℝ) (I : ℕ → Integrals ℝ) (hI : ∀ sec, (I sec).Comm)
    (hsym : ∀ sec ro co i k j l, entry ro co (ctxAt (sectionBase base s sec) (I sec) i k j l)
      = entry co ro (ctxAt (sectionBase base s sec) (I sec) i k j l).swap)
    (k : Fin (num * m * n)) :
    ascEigenvalues (conePanelMatrix_isHermitian s num m' n' entry base I) (Fin.castLE (size_le num hm hn) k)
      ≤ ascEigenvalues (conePanelMatrix_isHermitian s num m n entry base I) k :=
  nested_ascEigenvalues_le (embedIndex_injective num hm hn) (conePanelMatrix_nested s num hm hn entry base I hI hsym) _ _ k

/-- Natural frequencies, conical panel (any two kernels whose section entries are symmetric; mass matrix of the larger model positive
definite). -/
theorem ritz_frequencies_monotone_cone (s num : ℕ) {m n m' n' : ℕ} (hm : m ≤ m') (hn : n ≤ n')
    (entryK entryM : Fin num → Fin num → PCtx ℝ → ℝ) (base : PCtx ℝ) (I : ℕ → Integrals ℝ) (hI : ∀ sec, (I sec).Comm)
    (hsymK : ∀ sec ro co i k j l, entryK ro co (ctxAt (sectionBase base s sec) (I sec) i k j l)
      = entryK co ro (ctxAt (sectionBase base s sec) (I sec) i k j l).swap)
    (hsymM : ∀ sec ro co i k j l, entryM ro co (ctxAt (sectionBase base s sec) (I sec) i k j l)
      = entryM co ro (ctxAt (sectionBase base s sec) (I sec) i k j l).swap)
    (hMpd : (conePanelMatrix s num m' n' entryM base I).PosDef) (k : Fin (num * m * n)) :
    genEigenvalues (conePanelMatrix_isHermitian s num m' n' entryK base I) hMpd (Fin.castLE (size_le num hm hn) k)
      ≤ genEigenvalues (conePanelMatrix_isHermitian s num m n entryK base I)
          (conePanelMatrix_posDef_of_le s num hm hn entryM base I hI hsymM hMpd) k :=
  nested_genEigenvalues_le (embedIndex_injective num hm hn) (conePanelMatrix_nested s num hm hn entryK base I hI hsymK)
    (conePanelMatrix_nested s num hm hn entryM base I hI hsymM) _ _ _ hMpd k

/-- Linear buckling, conical panel (constitutive stiffness of the larger model positive definite). -/
theorem ritz_buckling_monotone_cone (s num : ℕ) {m n m' n' : ℕ} (hm : m ≤ m') (hn : n ≤ n')
    (entryK entryG : Fin num → Fin num → PCtx ℝ → ℝ) (base : PCtx ℝ) (I : ℕ → Integrals ℝ) (hI : ∀ sec, (I sec).Comm)
    (hsymK : ∀ sec ro co i k j l, entryK ro co (ctxAt (sectionBase base s sec) (I sec) i k j l)
      = entryK co ro (ctxAt (sectionBase base s sec) (I sec) i k j l).swap)
    (hsymG : ∀ sec ro co i k j l, entryG ro co (ctxAt (sectionBase base s sec) (I sec) i k j l)
      = entryG co ro (ctxAt (sectionBase base s sec) (I sec) i k j l).swap)
    (hKpd : (conePanelMatrix s num m' n' entryK base I).PosDef) (k : Fin (num * m * n))
    (hneg : genEigenvalues (conePanelMatrix_isHermitian s num m n entryG base I)
      (conePanelMatrix_posDef_of_le s num hm hn entryK base I hI hsymK hKpd) k < 0) :
    genEigenvalues (conePanelMatrix_isHermitian s num m' n' entryG base I) hKpd (Fin.castLE (size_le num hm hn) k) < 0 ∧
      bucklingMultiplier (conePanelMatrix_isHermitian s num m' n' entryG base I) hKpd (Fin.castLE (size_le num hm hn) k)
        ≤ bucklingMultiplier (conePanelMatrix_isHermitian s num m n entryG base I)
            (conePanelMatrix_posDef_of_le s num hm hn entryK base I hI hsymK hKpd) k :=
  nested_bucklingMultiplier_le (embedIndex_injective num hm hn) (conePanelMatrix_nested s num hm hn entryG base I hI hsymG)
    (conePanelMatrix_nested s num hm hn entryK base I hI hsymK) _ _ _ hKpd k hneg

/-! #### … on the REGENERATED kernels of every analytic panel model (full width, strip, conical) -/

/-- Cylindrical panel (`cpanel_clt_donnell_bardell`), natural frequencies, on the REGENERATED kernels `fk0`, `fkM`: adding terms never raises any `ω²_k`
(mass matrix of the larger model positive definite); the symmetry hypotheses are discharged by C02 / C04. -/
theorem cpanel_frequencies_monotone {m n m' n' : ℕ} (hm : m ≤ m') (hn : n ≤ n') (base : PCtx ℝ) (I : Integrals ℝ)
    (hI : I.Comm) (ha : base.a ≠ 0) (hb : base.b ≠ 0) (hr : base.r ≠ 0) (hF : IsABD base.F)
    (hMpd : (panelMatrix 3 m' n' CPanel.fkM.entry base I).PosDef) (k : Fin (3 * m * n)) :
    genEigenvalues (panelMatrix_isHermitian 3 m' n' CPanel.fk0.entry base I) hMpd (Fin.castLE (size_le 3 hm hn) k)
      ≤ genEigenvalues (panelMatrix_isHermitian 3 m n CPanel.fk0.entry base I)
          (panelMatrix_posDef_of_le 3 hm hn CPanel.fkM.entry base I hI
            (fun ro co i k j l => Compmech.Panel.C04.kM_symm_cpanel (ctxAt base I i k j l) ha hb ro co) hMpd) k :=
  ritz_frequencies_monotone 3 hm hn CPanel.fk0.entry CPanel.fkM.entry base I hI
    (fun ro co i k j l => Compmech.Panel.C02.k0_entry_symm_cpanel (ctxAt base I i k j l) ha hb hr hF ro co)
    (fun ro co i k j l => Compmech.Panel.C04.kM_symm_cpanel (ctxAt base I i k j l) ha hb ro co) hMpd k

/-- Cylindrical panel (`cpanel_clt_donnell_bardell`), linear buckling under constant pre-stress, on the REGENERATED kernels `fk0`, `fkG0`: if the `(m, n)` model has at
least `k+1` positive multipliers so has the `(m', n')` model and its `k`-th smallest is no larger (constitutive stiffness of the larger
model positive definite); symmetry from C02 / C03. -/
theorem cpanel_buckling_monotone {m n m' n' : ℕ} (hm : m ≤ m') (hn : n ≤ n') (base : PCtx ℝ) (I : Integrals ℝ)
    (hI : I.Comm) (ha : base.a ≠ 0) (hb : base.b ≠ 0) (hr : base.r ≠ 0) (hF : IsABD base.F)
    (hKpd : (panelMatrix 3 m' n' CPanel.fk0.entry base I).PosDef) (k : Fin (3 * m * n))
    (hneg : genEigenvalues (panelMatrix_isHermitian 3 m n CPanel.fkG0.entry base I)
      (panelMatrix_posDef_of_le 3 hm hn CPanel.fk0.entry base I hI
        (fun ro co i k j l => Compmech.Panel.C02.k0_entry_symm_cpanel (ctxAt base I i k j l) ha hb hr hF ro co) hKpd) k < 0) :
    genEigenvalues (panelMatrix_isHermitian 3 m' n' CPanel.fkG0.entry base I) hKpd (Fin.castLE (size_le 3 hm hn) k) < 0 ∧
      bucklingMultiplier (panelMatrix_isHermitian 3 m' n' CPanel.fkG0.entry base I) hKpd
          (Fin.castLE (size_le 3 hm hn) k)
        ≤ bucklingMultiplier (panelMatrix_isHermitian 3 m n CPanel.fkG0.entry base I)
            (panelMatrix_posDef_of_le 3 hm hn CPanel.fk0.entry base I hI
              (fun ro co i k j l => Compmech.Panel.C02.k0_entry_symm_cpanel (ctxAt base I i k j l) ha hb hr hF ro co)
              hKpd) k :=
  ritz_buckling_monotone 3 hm hn CPanel.fk0.entry CPanel.fkG0.entry base I hI
    (fun ro co i k j l => Compmech.Panel.C02.k0_entry_symm_cpanel (ctxAt base I i k j l) ha hb hr hF ro co)
    (fun ro co i k j l => Compmech.Panel.C03.kG0_symm_cpanel (ctxAt base I i k j l) ha hb ro co) hKpd k hneg

/-- `w`-only plate (`plate_clt_donnell_bardell_w`, one degree of freedom per pair of series indices), natural frequencies, on the REGENERATED kernels `fk0`, `fkM`: adding terms never raises any `ω²_k`
(mass matrix of the larger model positive definite); the symmetry hypotheses are discharged by C02 / C04. -/
theorem platew_frequencies_monotone {m n m' n' : ℕ} (hm : m ≤ m') (hn : n ≤ n') (base : PCtx ℝ) (I : Integrals ℝ)
    (hI : I.Comm) (ha : base.a ≠ 0) (hb : base.b ≠ 0) (hF : IsABD base.F)
    (hMpd : (panelMatrix 1 m' n' PlateW.fkM.entry base I).PosDef) (k : Fin (1 * m * n)) :
    genEigenvalues (panelMatrix_isHermitian 1 m' n' PlateW.fk0.entry base I) hMpd (Fin.castLE (size_le 1 hm hn) k)
      ≤ genEigenvalues (panelMatrix_isHermitian 1 m n PlateW.fk0.entry base I)
          (panelMatrix_posDef_of_le 1 hm hn PlateW.fkM.entry base I hI
            (fun ro co i k j l => Compmech.Panel.C04.kM_symm_platew (ctxAt base I i k j l) ha hb ro co) hMpd) k :=
  ritz_frequencies_monotone 1 hm hn PlateW.fk0.entry PlateW.fkM.entry base I hI
    (fun ro co i k j l => Compmech.Panel.C02.k0_entry_symm_plate_w (ctxAt base I i k j l) ha hb hF ro co)
    (fun ro co i k j l => Compmech.Panel.C04.kM_symm_platew (ctxAt base I i k j l) ha hb ro co) hMpd k

/-- `w`-only plate (`plate_clt_donnell_bardell_w`, one degree of freedom per pair of series indices), linear buckling under constant pre-stress, on the REGENERATED kernels `fk0`, `fkG0`: if the `(m, n)` model has at
least `k+1` positive multipliers so has the `(m', n')` model and its `k`-th smallest is no larger (constitutive stiffness of the larger
model positive definite); symmetry from C02 / C03. -/
theorem platew_buckling_monotone {m n m' n' : ℕ} (hm : m ≤ m') (hn : n ≤ n') (base : PCtx ℝ) (I : Integrals ℝ)
    (hI : I.Comm) (ha : base.a ≠ 0) (hb : base.b ≠ 0) (hF : IsABD base.F)
    (hKpd : (panelMatrix 1 m' n' PlateW.fk0.entry base I).PosDef) (k : Fin (1 * m * n))
    (hneg : genEigenvalues (panelMatrix_isHermitian 1 m n PlateW.fkG0.entry base I)
      (panelMatrix_posDef_of_le 1 hm hn PlateW.fk0.entry base I hI
        (fun ro co i k j l => Compmech.Panel.C02.k0_entry_symm_plate_w (ctxAt base I i k j l) ha hb hF ro co) hKpd) k < 0) :
    genEigenvalues (panelMatrix_isHermitian 1 m' n' PlateW.fkG0.entry base I) hKpd (Fin.castLE (size_le 1 hm hn) k) < 0 ∧
      bucklingMultiplier (panelMatrix_isHermitian 1 m' n' PlateW.fkG0.entry base I) hKpd
          (Fin.castLE (size_le 1 hm hn) k)
        ≤ bucklingMultiplier (panelMatrix_isHermitian 1 m n PlateW.fkG0.entry base I)
            (panelMatrix_posDef_of_le 1 hm hn PlateW.fk0.entry base I hI
              (fun ro co i k j l => Compmech.Panel.C02.k0_entry_symm_plate_w (ctxAt base I i k j l) ha hb hF ro co)
              hKpd) k :=
  ritz_buckling_monotone 1 hm hn PlateW.fk0.entry PlateW.fkG0.entry base I hI
    (fun ro co i k j l => Compmech.Panel.C02.k0_entry_symm_plate_w (ctxAt base I i k j l) ha hb hF ro co)
    (fun ro co i k j l => Compmech.Panel.C03.kG0_symm_plate_w (ctxAt base I i k j l) ha hb ro co) hKpd k hneg

/-- Flat plate, natural frequencies, on the REGENERATED sub-interval kernels `fk0y1y2`, `fkMy1y2` (strip `y1 ≤ y ≤ y2`): adding terms never raises any `ω²_k`
(mass matrix of the larger model positive definite); the symmetry hypotheses are discharged by C02 / C04. -/
theorem plate_strip_frequencies_monotone {m n m' n' : ℕ} (hm : m ≤ m') (hn : n ≤ n') (base : PCtx ℝ) (I : Integrals ℝ)
    (hI : I.Comm) (ha : base.a ≠ 0) (hb : base.b ≠ 0) (hF : IsABD base.F)
    (hMpd : (panelMatrixYX 3 m' n' Plate.fkMy1y2.entry base I).PosDef) (k : Fin (3 * m * n)) :
    genEigenvalues (panelMatrixYX_isHermitian 3 m' n' Plate.fk0y1y2.entry base I) hMpd (Fin.castLE (size_le 3 hm hn) k)
      ≤ genEigenvalues (panelMatrixYX_isHermitian 3 m n Plate.fk0y1y2.entry base I)
          (panelMatrixYX_posDef_of_le 3 hm hn Plate.fkMy1y2.entry base I hI
            (fun ro co i k j l => Compmech.Panel.C04.kMy1y2_symm_plate (ctxAt base I i k j l) ha hb ro co) hMpd) k :=
  ritz_frequencies_monotone_strip 3 hm hn Plate.fk0y1y2.entry Plate.fkMy1y2.entry base I hI
    (fun ro co i k j l => Compmech.Panel.C02.k0y1y2_entry_symm_plate (ctxAt base I i k j l) ha hb hF ro co)
    (fun ro co i k j l => Compmech.Panel.C04.kMy1y2_symm_plate (ctxAt base I i k j l) ha hb ro co) hMpd k

/-- Flat plate, linear buckling under constant pre-stress, on the REGENERATED sub-interval kernels `fk0y1y2`, `fkG0y1y2` (strip `y1 ≤ y ≤ y2`): if the `(m, n)` model has at
least `k+1` positive multipliers so has the `(m', n')` model and its `k`-th smallest is no larger (constitutive stiffness of the larger
model positive definite); symmetry from C02 / C03. -/
theorem plate_strip_buckling_monotone {m n m' n' : ℕ} (hm : m ≤ m') (hn : n ≤ n') (base : PCtx ℝ) (I : Integrals ℝ)
    (hI : I.Comm) (ha : base.a ≠ 0) (hb : base.b ≠ 0) (hF : IsABD base.F)
    (hKpd : (panelMatrixYX 3 m' n' Plate.fk0y1y2.entry base I).PosDef) (k : Fin (3 * m * n))
    (hneg : genEigenvalues (panelMatrixYX_isHermitian 3 m n Plate.fkG0y1y2.entry base I)
      (panelMatrixYX_posDef_of_le 3 hm hn Plate.fk0y1y2.entry base I hI
        (fun ro co i k j l => Compmech.Panel.C02.k0y1y2_entry_symm_plate (ctxAt base I i k j l) ha hb hF ro co) hKpd) k < 0) :
    genEigenvalues (panelMatrixYX_isHermitian 3 m' n' Plate.fkG0y1y2.entry base I) hKpd (Fin.castLE (size_le 3 hm hn) k) < 0 ∧
      bucklingMultiplier (panelMatrixYX_isHermitian 3 m' n' Plate.fkG0y1y2.entry base I) hKpd
          (Fin.castLE (size_le 3 hm hn) k)
        ≤ bucklingMultiplier (panelMatrixYX_isHermitian 3 m n Plate.fkG0y1y2.entry base I)
            (panelMatrixYX_posDef_of_le 3 hm hn Plate.fk0y1y2.entry base I hI
              (fun ro co i k j l => Compmech.Panel.C02.k0y1y2_entry_symm_plate (ctxAt base I i k j l) ha hb hF ro co)
              hKpd) k :=
  ritz_buckling_monotone_strip 3 hm hn Plate.fk0y1y2.entry Plate.fkG0y1y2.entry base I hI
    (fun ro co i k j l => Compmech.Panel.C02.k0y1y2_entry_symm_plate (ctxAt base I i k j l) ha hb hF ro co)
    (fun ro co i k j l => Compmech.Panel.C03.kG0y1y2_symm_plate (ctxAt base I i k j l) ha hb ro co) hKpd k hneg

/-- Cylindrical panel (`cpanel_clt_donnell_bardell`), natural frequencies, on the REGENERATED sub-interval kernels `fk0y1y2`, `fkMy1y2` (strip `y1 ≤ y ≤ y2`): adding terms never raises any `ω²_k`
(mass matrix of the larger model positive definite); the symmetry hypotheses are discharged by C02 / C04. -/
theorem cpanel_strip_frequencies_monotone {m n m' n' : ℕ} (hm : m ≤ m') (hn : n ≤ n') (base : PCtx ℝ) (I : Integrals ℝ)
    (hI : I.Comm) (ha : base.a ≠ 0) (hb : base.b ≠ 0) (hr : base.r ≠ 0) (hF : IsABD base.F)
    (hMpd : (panelMatrixYX 3 m' n' CPanel.fkMy1y2.entry base I).PosDef) (k : Fin (3 * m * n)) :
    genEigenvalues (panelMatrixYX_isHermitian 3 m' n' CPanel.fk0y1y2.entry base I) hMpd (Fin.castLE (size_le 3 hm hn) k)
      ≤ genEigenvalues (panelMatrixYX_isHermitian 3 m n CPanel.fk0y1y2.entry base I)
          (panelMatrixYX_posDef_of_le 3 hm hn CPanel.fkMy1y2.entry base I hI
            (fun ro co i k j l => Compmech.Panel.C04.kMy1y2_symm_cpanel (ctxAt base I i k j l) ha hb ro co) hMpd) k :=
  ritz_frequencies_monotone_strip 3 hm hn CPanel.fk0y1y2.entry CPanel.fkMy1y2.entry base I hI
    (fun ro co i k j l => Compmech.Panel.C02.k0y1y2_entry_symm_cpanel (ctxAt base I i k j l) ha hb hr hF ro co)
    (fun ro co i k j l => Compmech.Panel.C04.kMy1y2_symm_cpanel (ctxAt base I i k j l) ha hb ro co) hMpd k

/-- Cylindrical panel (`cpanel_clt_donnell_bardell`), linear buckling under constant pre-stress, on the REGENERATED sub-interval kernels `fk0y1y2`, `fkG0y1y2` (strip `y1 ≤ y ≤ y2`): if the `(m, n)` model has at
least `k+1` positive multipliers so has the `(m', n')` model and its `k`-th smallest is no larger (constitutive stiffness of the larger
model positive definite); symmetry from C02 / C03. -/
theorem cpanel_strip_buckling_monotone {m n m' n' : ℕ} (hm : m ≤ m') (hn : n ≤ n') (base : PCtx ℝ) (I : Integrals ℝ)
    (hI : I.Comm) (ha : base.a ≠ 0) (hb : base.b ≠ 0) (hr : base.r ≠ 0) (hF : IsABD base.F)
    (hKpd : (panelMatrixYX 3 m' n' CPanel.fk0y1y2.entry base I).PosDef) (k : Fin (3 * m * n))
    (hneg : genEigenvalues (panelMatrixYX_isHermitian 3 m n CPanel.fkG0y1y2.entry base I)
      (panelMatrixYX_posDef_of_le 3 hm hn CPanel.fk0y1y2.entry base I hI
        (fun ro co i k j l => Compmech.Panel.C02.k0y1y2_entry_symm_cpanel (ctxAt base I i k j l) ha hb hr hF ro co) hKpd) k < 0) :
    genEigenvalues (panelMatrixYX_isHermitian 3 m' n' CPanel.fkG0y1y2.entry base I) hKpd (Fin.castLE (size_le 3 hm hn) k) < 0 ∧
      bucklingMultiplier (panelMatrixYX_isHermitian 3 m' n' CPanel.fkG0y1y2.entry base I) hKpd
          (Fin.castLE (size_le 3 hm hn) k)
        ≤ bucklingMultiplier (panelMatrixYX_isHermitian 3 m n CPanel.fkG0y1y2.entry base I)
            (panelMatrixYX_posDef_of_le 3 hm hn CPanel.fk0y1y2.entry base I hI
              (fun ro co i k j l => Compmech.Panel.C02.k0y1y2_entry_symm_cpanel (ctxAt base I i k j l) ha hb hr hF ro co)
              hKpd) k :=
  ritz_buckling_monotone_strip 3 hm hn CPanel.fk0y1y2.entry CPanel.fkG0y1y2.entry base I hI
    (fun ro co i k j l => Compmech.Panel.C02.k0y1y2_entry_symm_cpanel (ctxAt base I i k j l) ha hb hr hF ro co)
    (fun ro co i k j l => Compmech.Panel.C03.kG0y1y2_symm_cpanel (ctxAt base I i k j l) ha hb ro co) hKpd k hneg

/-- `w`-only plate (`plate_clt_donnell_bardell_w`, one degree of freedom per pair of series indices), natural frequencies, on the REGENERATED sub-interval kernels `fk0y1y2`, `fkMy1y2` (strip `y1 ≤ y ≤ y2`): adding terms never raises any `ω²_k`
(mass matrix of the larger model positive definite); the symmetry hypotheses are discharged by C02 / C04. -/
theorem platew_strip_frequencies_monotone {m n m' n' : ℕ} (hm : m ≤ m') (hn : n ≤ n') (base : PCtx ℝ) (I : Integrals ℝ)
    (hI : I.Comm) (ha : base.a ≠ 0) (hb : base.b ≠ 0) (hF : IsABD base.F)
    (hMpd : (panelMatrixYX 1 m' n' PlateW.fkMy1y2.entry base I).PosDef) (k : Fin (1 * m * n)) :
    genEigenvalues (panelMatrixYX_isHermitian 1 m' n' PlateW.fk0y1y2.entry base I) hMpd (Fin.castLE (size_le 1 hm hn) k)
      ≤ genEigenvalues (panelMatrixYX_isHermitian 1 m n PlateW.fk0y1y2.entry base I)
          (panelMatrixYX_posDef_of_le 1 hm hn PlateW.fkMy1y2.entry base I hI
            (fun ro co i k j l => Compmech.Panel.C04.kMy1y2_symm_platew (ctxAt base I i k j l) ha hb ro co) hMpd) k :=
  ritz_frequencies_monotone_strip 1 hm hn PlateW.fk0y1y2.entry PlateW.fkMy1y2.entry base I hI
    (fun ro co i k j l => Compmech.Panel.C02.k0y1y2_entry_symm_plate_w (ctxAt base I i k j l) ha hb hF ro co)
    (fun ro co i k j l => Compmech.Panel.C04.kMy1y2_symm_platew (ctxAt base I i k j l) ha hb ro co) hMpd k

/-- `w`-only plate (`plate_clt_donnell_bardell_w`, one degree of freedom per pair of series indices), linear buckling under constant pre-stress, on the REGENERATED sub-interval kernels `fk0y1y2`, `fkG0y1y2` (strip `y1 ≤ y ≤ y2`): if the `(m, n)` model has at
least `k+1` positive multipliers so has the `(m', n')` model and its `k`-th smallest is no larger (constitutive stiffness of the larger
model positive definite); symmetry from C02 / C03. -/
theorem platew_strip_buckling_monotone {m n m' n' : ℕ} (hm : m ≤ m') (hn : n ≤ n') (base : PCtx ℝ) (I : Integrals ℝ)
    (hI : I.Comm) (ha : base.a ≠ 0) (hb : base.b ≠ 0) (hF : IsABD base.F)
    (hKpd : (panelMatrixYX 1 m' n' PlateW.fk0y1y2.entry base I).PosDef) (k : Fin (1 * m * n))
    (hneg : genEigenvalues (panelMatrixYX_isHermitian 1 m n PlateW.fkG0y1y2.entry base I)
      (panelMatrixYX_posDef_of_le 1 hm hn PlateW.fk0y1y2.entry base I hI
        (fun ro co i k j l => Compmech.Panel.C02.k0y1y2_entry_symm_plate_w (ctxAt base I i k j l) ha hb hF ro co) hKpd) k < 0) :
    genEigenvalues (panelMatrixYX_isHermitian 1 m' n' PlateW.fkG0y1y2.entry base I) hKpd (Fin.castLE (size_le 1 hm hn) k) < 0 ∧
      bucklingMultiplier (panelMatrixYX_isHermitian 1 m' n' PlateW.fkG0y1y2.entry base I) hKpd
          (Fin.castLE (size_le 1 hm hn) k)
        ≤ bucklingMultiplier (panelMatrixYX_isHermitian 1 m n PlateW.fkG0y1y2.entry base I)
            (panelMatrixYX_posDef_of_le 1 hm hn PlateW.fk0y1y2.entry base I hI
              (fun ro co i k j l => Compmech.Panel.C02.k0y1y2_entry_symm_plate_w (ctxAt base I i k j l) ha hb hF ro co)
              hKpd) k :=
  ritz_buckling_monotone_strip 1 hm hn PlateW.fk0y1y2.entry PlateW.fkG0y1y2.entry base I hI
    (fun ro co i k j l => Compmech.Panel.C02.k0y1y2_entry_symm_plate_w (ctxAt base I i k j l) ha hb hF ro co)
    (fun ro co i k j l => Compmech.Panel.C03.kG0y1y2_symm_plate_w (ctxAt base I i k j l) ha hb ro co) hKpd k hneg

/-- Conical panel (`kpanel_clt_donnell_bardell`; `s` constant-radius sections — the regenerated schema says `s = 41` —, each with
its own radius / width `sectionBase base s sec` and its own integrals `I sec`), natural frequencies, on the REGENERATED kernels `fk0`, `fkM`:
adding terms never raises any `ω²_k` (mass matrix of the larger model positive definite). -/
theorem kpanel_frequencies_monotone (s : ℕ) {m n m' n' : ℕ} (hm : m ≤ m') (hn : n ≤ n') (base : PCtx ℝ)
    (I : ℕ → Integrals ℝ) (hI : ∀ sec, (I sec).Comm) (ha : base.a ≠ 0) (hb : ∀ sec, (sectionBase base s sec).b ≠ 0) (hr : ∀ sec, (sectionBase base s sec).r ≠ 0)
    (hF : IsABD base.F)
    (hMpd : (conePanelMatrix s 3 m' n' KPanel.fkM.entry base I).PosDef) (k : Fin (3 * m * n)) :
    genEigenvalues (conePanelMatrix_isHermitian s 3 m' n' KPanel.fk0.entry base I) hMpd (Fin.castLE (size_le 3 hm hn) k)
      ≤ genEigenvalues (conePanelMatrix_isHermitian s 3 m n KPanel.fk0.entry base I)
          (conePanelMatrix_posDef_of_le s 3 hm hn KPanel.fkM.entry base I hI
            (fun sec ro co i k j l => Compmech.Panel.C04.kM_symm_kpanel (ctxAt (sectionBase base s sec) (I sec) i k j l) ha (hb sec) ro co) hMpd) k :=
  ritz_frequencies_monotone_cone s 3 hm hn KPanel.fk0.entry KPanel.fkM.entry base I hI
    (fun sec ro co i k j l => Compmech.Panel.C02.k0_entry_symm_kpanel (ctxAt (sectionBase base s sec) (I sec) i k j l) ha (hb sec) (hr sec) hF ro co)
    (fun sec ro co i k j l => Compmech.Panel.C04.kM_symm_kpanel (ctxAt (sectionBase base s sec) (I sec) i k j l) ha (hb sec) ro co) hMpd k

/-- Conical panel, linear buckling under constant pre-stress, on the REGENERATED kernels `fk0`, `fkG0`. -/
theorem kpanel_buckling_monotone (s : ℕ) {m n m' n' : ℕ} (hm : m ≤ m') (hn : n ≤ n') (base : PCtx ℝ)
    (I : ℕ → Integrals ℝ) (hI : ∀ sec, (I sec).Comm) (ha : base.a ≠ 0) (hb : ∀ sec, (sectionBase base s sec).b ≠ 0) (hr : ∀ sec, (sectionBase base s sec).r ≠ 0)
    (hF : IsABD base.F)
    (hKpd : (conePanelMatrix s 3 m' n' KPanel.fk0.entry base I).PosDef) (k : Fin (3 * m * n))
    (hneg : genEigenvalues (conePanelMatrix_isHermitian s 3 m n KPanel.fkG0.entry base I)
      (conePanelMatrix_posDef_of_le s 3 hm hn KPanel.fk0.entry base I hI
        (fun sec ro co i k j l => Compmech.Panel.C02.k0_entry_symm_kpanel (ctxAt (sectionBase base s sec) (I sec) i k j l) ha (hb sec) (hr sec) hF ro co) hKpd) k < 0) :
    genEigenvalues (conePanelMatrix_isHermitian s 3 m' n' KPanel.fkG0.entry base I) hKpd (Fin.castLE (size_le 3 hm hn) k) < 0 ∧
      bucklingMultiplier (conePanelMatrix_isHermitian s 3 m' n' KPanel.fkG0.entry base I) hKpd
          (Fin.castLE (size_le 3 hm hn) k)
        ≤ bucklingMultiplier (conePanelMatrix_isHermitian s 3 m n KPanel.fkG0.entry base I)
            (conePanelMatrix_posDef_of_le s 3 hm hn KPanel.fk0.entry base I hI
              (fun sec ro co i k j l => Compmech.Panel.C02.k0_entry_symm_kpanel (ctxAt (sectionBase base s sec) (I sec) i k j l) ha (hb sec) (hr sec) hF ro co)
              hKpd) k :=
  ritz_buckling_monotone_cone s 3 hm hn KPanel.fk0.entry KPanel.fkG0.entry base I hI
    (fun sec ro co i k j l => Compmech.Panel.C02.k0_entry_symm_kpanel (ctxAt (sectionBase base s sec) (I sec) i k j l) ha (hb sec) (hr sec) hF ro co)
    (fun sec ro co i k j l => Compmech.Panel.C03.kG0_symm_kpanel (ctxAt (sectionBase base s sec) (I sec) i k j l) ha (hb sec) ro co) hKpd k hneg

/-- Conical panel (`kpanel_clt_donnell_bardell`; `s` constant-radius sections — the regenerated schema says `s = 41` —, each with
its own radius / width `sectionBase base s sec` and its own integrals `I sec`), natural frequencies, on the REGENERATED sub-interval kernels `fk0y1y2`, `fkMy1y2`:
adding terms never raises any `ω²_k` (mass matrix of the larger model positive definite). -/
theorem kpanel_strip_frequencies_monotone (s : ℕ) {m n m' n' : ℕ} (hm : m ≤ m') (hn : n ≤ n') (base : PCtx ℝ)
    (I : ℕ → Integrals ℝ) (hI : ∀ sec, (I sec).Comm) (ha : base.a ≠ 0) (hb : ∀ sec, (sectionBase base s sec).b ≠ 0) (hr : ∀ sec, (sectionBase base s sec).r ≠ 0)
    (hF : IsABD base.F)
    (hMpd : (conePanelMatrix s 3 m' n' KPanel.fkMy1y2.entry base I).PosDef) (k : Fin (3 * m * n)) :
    genEigenvalues (conePanelMatrix_isHermitian s 3 m' n' KPanel.fk0y1y2.entry base I) hMpd (Fin.castLE (size_le 3 hm hn) k)
      ≤ genEigenvalues (conePanelMatrix_isHermitian s 3 m n KPanel.fk0y1y2.entry base I)
          (conePanelMatrix_posDef_of_le s 3 hm hn KPanel.fkMy1y2.entry base I hI
            (fun sec ro co i k j l => Compmech.Panel.C04.kMy1y2_symm_kpanel (ctxAt (sectionBase base s sec) (I sec) i k j l) ha (hb sec) ro co) hMpd) k :=
  ritz_frequencies_monotone_cone s 3 hm hn KPanel.fk0y1y2.entry KPanel.fkMy1y2.entry base I hI
    (fun sec ro co i k j l => Compmech.Panel.C02.k0y1y2_entry_symm_kpanel (ctxAt (sectionBase base s sec) (I sec) i k j l) ha (hb sec) (hr sec) hF ro co)
    (fun sec ro co i k j l => Compmech.Panel.C04.kMy1y2_symm_kpanel (ctxAt (sectionBase base s sec) (I sec) i k j l) ha (hb sec) ro co) hMpd k

/-- Conical panel, linear buckling under constant pre-stress, on the REGENERATED sub-interval kernels `fk0y1y2`, `fkG0y1y2`. -/
theorem kpanel_strip_buckling_monotone (s : ℕ) {m n m' n' : ℕ} (hm : m ≤ m') (hn : n ≤ n') (base : PCtx ℝ)
    (I : ℕ → Integrals ℝ) (hI : ∀ sec, (I sec).Comm) (ha : base.a ≠ 0) (hb : ∀ sec, (sectionBase base s sec).b ≠ 0) (hr : ∀ sec, (sectionBase base s sec).r ≠ 0)
    (hF : IsABD base.F)
    (hKpd : (conePanelMatrix s 3 m' n' KPanel.fk0y1y2.entry base I).PosDef) (k : Fin (3 * m * n))
    (hneg : genEigenvalues (conePanelMatrix_isHermitian s 3 m n KPanel.fkG0y1y2.entry base I)
      (conePanelMatrix_posDef_of_le s 3 hm hn KPanel.fk0y1y2.entry base I hI
        (fun sec ro co i k j l => Compmech.Panel.C02.k0y1y2_entry_symm_kpanel (ctxAt (sectionBase base s sec) (I sec) i k j l) ha (hb sec) (hr sec) hF ro co) hKpd) k < 0) :
    genEigenvalues (conePanelMatrix_isHermitian s 3 m' n' KPanel.fkG0y1y2.entry base I) hKpd (Fin.castLE (size_le 3 hm hn) k) < 0 ∧
      bucklingMultiplier (conePanelMatrix_isHermitian s 3 m' n' KPanel.fkG0y1y2.entry base I) hKpd
          (Fin.castLE (size_le 3 hm hn) k)
        ≤ bucklingMultiplier (conePanelMatrix_isHermitian s 3 m n KPanel.fkG0y1y2.entry base I)
            (conePanelMatrix_posDef_of_le s 3 hm hn KPanel.fk0y1y2.entry base I hI
              (fun sec ro co i k j l => Compmech.Panel.C02.k0y1y2_entry_symm_kpanel (ctxAt (sectionBase base s sec) (I sec) i k j l) ha (hb sec) (hr sec) hF ro co)
              hKpd) k :=
  ritz_buckling_monotone_cone s 3 hm hn KPanel.fk0y1y2.entry KPanel.fkG0y1y2.entry base I hI
    (fun sec ro co i k j l => Compmech.Panel.C02.k0y1y2_entry_symm_kpanel (ctxAt (sectionBase base s sec) (I sec) i k j l) ha (hb sec) (hr sec) hF ro co)
    (fun sec ro co i k j l => Compmech.Panel.C03.kG0y1y2_symm_kpanel (ctxAt (sectionBase base s sec) (I sec) i k j l) ha (hb sec) ro co) hKpd k hneg

end Panels

/-! ### Non-vacuity: concrete instances -/

section NonVacuity

open Matrix

/-- the 3×3 second-difference matrix and its leading 2×2 principal sub-matrix: both are symmetric, the index map is
injective, and the theorems give numbers — the 2×2 block has eigenvalues exactly `1` (mode `(1, 1)`) and `3` (mode
`(1, −1)`), hence the two smallest eigenvalues of the 3×3 matrix (`2 − √2`, `2`) are `≤ 1` and `≤ 3` -/
example : ∃ (hA : (!![2, -1, 0; -1, 2, -1; 0, -1, 2] : Matrix (Fin 3) (Fin 3) ℝ).IsHermitian)
    (hB : (!![2, -1; -1, 2] : Matrix (Fin 2) (Fin 2) ℝ).IsHermitian),
    ascEigenvalues hB 0 = 1 ∧ ascEigenvalues hB 1 = 3 ∧
      ascEigenvalues hA 0 ≤ 1 ∧ ascEigenvalues hA 1 ≤ 3 := by
  have hA : (!![2, -1, 0; -1, 2, -1; 0, -1, 2] : Matrix (Fin 3) (Fin 3) ℝ).IsHermitian :=
    IsHermitian.ext fun i j => by fin_cases i <;> fin_cases j <;> simp
  have hB : (!![2, -1; -1, 2] : Matrix (Fin 2) (Fin 2) ℝ).IsHermitian :=
    IsHermitian.ext fun i j => by fin_cases i <;> fin_cases j <;> simp
  have he : Function.Injective (Fin.castLE (by norm_num : 2 ≤ 3)) := Fin.castLE_injective _
  have hsub : (!![2, -1; -1, 2] : Matrix (Fin 2) (Fin 2) ℝ) =
      (!![2, -1, 0; -1, 2, -1; 0, -1, 2] : Matrix (Fin 3) (Fin 3) ℝ).submatrix
        (Fin.castLE (by norm_num : 2 ≤ 3)) (Fin.castLE (by norm_num : 2 ≤ 3)) := by
    ext i j; fin_cases i <;> fin_cases j <;> simp [Fin.castLE]
  -- the spectrum of the 2×2 block
  obtain ⟨k1, hk1⟩ := exists_ascEigenvalues_eq_of_eigenvector hB (μ := 1) (v := ![1, 1])
    (by intro h; have := congrFun h 0; simp at this)
    (by ext i; fin_cases i <;> simp [mulVec, dotProduct, Fin.sum_univ_two] <;> norm_num)
  obtain ⟨k3, hk3⟩ := exists_ascEigenvalues_eq_of_eigenvector hB (μ := 3) (v := ![1, -1])
    (by intro h; have := congrFun h 0; simp at this)
    (by ext i; fin_cases i <;> simp [mulVec, dotProduct, Fin.sum_univ_two] <;> norm_num)
  have hmono := ascEigenvalues_monotone hB
  have h0 : ascEigenvalues hB 0 = 1 ∧ ascEigenvalues hB 1 = 3 := by
    fin_cases k1 <;> fin_cases k3 <;> simp only [Fin.zero_eta, Fin.mk_one, Fin.isValue] at hk1 hk3
    · linarith
    · exact ⟨hk1, hk3⟩
    · have := hmono (show (0 : Fin 2) ≤ 1 by decide); linarith
    · linarith
  have hint := fun k => cauchy_interlacing_lower hA he k
  have hc := fun k => ascEigenvalues_congr hsub hB (hA.submatrix _) k
  refine ⟨hA, hB, h0.1, h0.2, ?_, ?_⟩
  · have := hint 0; rw [← hc 0, h0.1] at this; exact this
  · have := hint 1; rw [← hc 1, h0.2] at this; exact this

/-- generalised pencil: the same stiffness with the lumped mass matrix `diag(1, 2, 3)` (positive definite) and the
leading 2×2 sub-pencil -/
example : ∃ (hK : (!![2, -1, 0; -1, 2, -1; 0, -1, 2] : Matrix (Fin 3) (Fin 3) ℝ).IsHermitian)
    (hM : (diagonal ![1, 2, 3] : Matrix (Fin 3) (Fin 3) ℝ).PosDef)
    (he : Function.Injective (Fin.castLE (by norm_num : 2 ≤ 3))), ∀ k : Fin 2,
      genEigenvalues hK hM (Fin.castLE (le_of_injective he) k)
        ≤ genEigenvalues (hK.submatrix (Fin.castLE (by norm_num : 2 ≤ 3))) (hM.submatrix he) k := by
  have hK : (!![2, -1, 0; -1, 2, -1; 0, -1, 2] : Matrix (Fin 3) (Fin 3) ℝ).IsHermitian :=
    IsHermitian.ext fun i j => by fin_cases i <;> fin_cases j <;> simp
  have hM : (diagonal ![1, 2, 3] : Matrix (Fin 3) (Fin 3) ℝ).PosDef :=
    PosDef.diagonal fun i => by fin_cases i <;> simp
  exact ⟨hK, hM, Fin.castLE_injective _, fun k => pencil_interlacing_lower hK hM (Fin.castLE_injective _) k⟩

open Compmech.Panel Compmech.Gen Compmech.Panel.PSDExample in
/-- the regenerated plate stiffness kernel on the instance of `Spec/PSDExample.lean` (`a = b = 2`, identity laminate
matrix, integrals of monomials): going from `(1, 1)` to `(2, 3)` terms lowers (never raises) each of the three
eigenvalues of the `(1, 1)` matrix -/
example (k : Fin (3 * 1 * 1)) :
    ascEigenvalues (panelMatrix_isHermitian 3 2 3 Plate.fk0.entry unitBase monoI)
        (Fin.castLE (size_le 3 (by norm_num : 1 ≤ 2) (by norm_num : 1 ≤ 3)) k)
      ≤ ascEigenvalues (panelMatrix_isHermitian 3 1 1 Plate.fk0.entry unitBase monoI) k :=
  ritz_eigenvalues_monotone 3 (by norm_num) (by norm_num) Plate.fk0.entry unitBase monoI monoI_comm
    (fun ro co i k j l => Compmech.Panel.C02.k0_entry_symm_plate (ctxAt unitBase monoI i k j l)
      (show unitBase.a ≠ 0 by norm_num [unitBase]) (show unitBase.b ≠ 0 by norm_num [unitBase]) unitF_isABD ro co) k

open Compmech.Panel Compmech.Gen Compmech.Panel.PSDExample in
/-- the regenerated CYLINDRICAL-panel stiffness kernel on the instance of `Spec/PSDExample.lean` (`r = 1`): `(1, 1)` → `(2, 3)` terms -/
example (k : Fin (3 * 1 * 1)) :
    ascEigenvalues (panelMatrix_isHermitian 3 2 3 CPanel.fk0.entry unitBase monoI)
        (Fin.castLE (size_le 3 (by norm_num : 1 ≤ 2) (by norm_num : 1 ≤ 3)) k)
      ≤ ascEigenvalues (panelMatrix_isHermitian 3 1 1 CPanel.fk0.entry unitBase monoI) k :=
  ritz_eigenvalues_monotone 3 (by norm_num) (by norm_num) CPanel.fk0.entry unitBase monoI monoI_comm
    (fun ro co i k j l => Compmech.Panel.C02.k0_entry_symm_cpanel (ctxAt unitBase monoI i k j l)
      (show unitBase.a ≠ 0 by norm_num [unitBase]) (show unitBase.b ≠ 0 by norm_num [unitBase])
      (show unitBase.r ≠ 0 by norm_num [unitBase]) unitF_isABD ro co) k

open Compmech.Panel Compmech.Gen Compmech.Panel.PSDExample in
/-- the `w`-only plate, strip kernel `fk0y1y2`: `(1, 1)` → `(2, 3)` terms (one eigenvalue) -/
example (k : Fin (1 * 1 * 1)) :
    ascEigenvalues (panelMatrixYX_isHermitian 1 2 3 PlateW.fk0y1y2.entry unitBase monoI)
        (Fin.castLE (size_le 1 (by norm_num : 1 ≤ 2) (by norm_num : 1 ≤ 3)) k)
      ≤ ascEigenvalues (panelMatrixYX_isHermitian 1 1 1 PlateW.fk0y1y2.entry unitBase monoI) k :=
  ritz_eigenvalues_monotone_strip 1 (by norm_num) (by norm_num) PlateW.fk0y1y2.entry unitBase monoI monoI_comm
    (fun ro co i k j l => Compmech.Panel.C02.k0y1y2_entry_symm_plate_w (ctxAt unitBase monoI i k j l)
      (show unitBase.a ≠ 0 by norm_num [unitBase]) (show unitBase.b ≠ 0 by norm_num [unitBase]) unitF_isABD ro co) k

open Compmech.Panel Compmech.Gen Compmech.Panel.PSDExample in
/-- the regenerated CONICAL-panel stiffness kernel with the 41 sections of the source on the same instance (`sin α = −1/2`, every section
has positive radius and width: `section_r_pos`, `section_b_pos`): `(1, 1)` → `(2, 3)` terms -/
example (k : Fin (3 * 1 * 1)) :
    ascEigenvalues (conePanelMatrix_isHermitian 41 3 2 3 KPanel.fk0.entry unitBase fun _ => monoI)
        (Fin.castLE (size_le 3 (by norm_num : 1 ≤ 2) (by norm_num : 1 ≤ 3)) k)
      ≤ ascEigenvalues (conePanelMatrix_isHermitian 41 3 1 1 KPanel.fk0.entry unitBase fun _ => monoI) k :=
  ritz_eigenvalues_monotone_cone 41 3 (by norm_num) (by norm_num) KPanel.fk0.entry unitBase (fun _ => monoI)
    (fun _ => monoI_comm)
    (fun sec ro co i k j l => Compmech.Panel.C02.k0_entry_symm_kpanel (ctxAt (sectionBase unitBase 41 sec) monoI i k j l)
      (show unitBase.a ≠ 0 by norm_num [unitBase]) (section_b_pos 41 sec).ne' (section_r_pos 41 sec).ne' unitF_isABD ro co) k

end NonVacuity

end Compmech.Ritz.C15
