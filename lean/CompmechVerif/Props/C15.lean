/-
C15 — Ritz eigenvalues are upper bounds that can only improve when terms are added (algebraic half).
The closed-form clause (lower bound by / convergence to the double-sine solutions) is a statement about the
continuum problem and is NOT decided here (see DESIGN.md section 6); tools/props/C15.py evaluates it numerically
for the record, labelled a test.
-/
import CompmechVerif.Spec.Ritz
import CompmechVerif.Gen.Panel.Plate
import Mathlib.Tactic.Ring
import Mathlib.Tactic.Linarith

namespace Compmech.Ritz.C15
open Compmech.Ritz

/-- the dof map is injective on the admissible index ranges: every amplitude has its own position -/
theorem dofIndex_injective (num m : ℕ) (hnum : 0 < num) {α i j α' i' j' : ℕ}
    (hα : α < num) (hα' : α' < num) (hi : i < m) (hi' : i' < m)
    (h : dofIndex num m α i j = dofIndex num m α' i' j') : α = α' ∧ i = i' ∧ j = j' := by
  unfold dofIndex at h
  have h1 : α = α' := by
    have := congrArg (· % num) h
    simp only [Nat.mul_add_mod] at this
    rwa [Nat.mod_eq_of_lt hα, Nat.mod_eq_of_lt hα'] at this
  subst h1
  have h2 : j * m + i = j' * m + i' := by
    have := Nat.add_right_cancel h
    exact Nat.eq_of_mul_eq_mul_left hnum this
  have h3 : i = i' := by
    have := congrArg (· % m) h2
    simp only [Nat.mul_add_mod_self_right] at this
    rwa [Nat.mod_eq_of_lt hi, Nat.mod_eq_of_lt hi'] at this
  subst h3
  have hm : 0 < m := Nat.lt_of_le_of_lt (Nat.zero_le _) hi
  have h4 : j * m = j' * m := Nat.add_right_cancel h2
  exact ⟨rfl, rfl, Nat.eq_of_mul_eq_mul_right hm h4⟩

/-- Nesting: the amplitudes of an `(m, n)` model are amplitudes of every `(m', n')` model with `m ≤ m'`, `n ≤ n'`
(same field, same series indices); since no generated entry mentions `m` or `n` (the entry functions
`Gen.*.entry ro co P` take only the integrals of the two basis functions involved), the `(m, n)` matrices are the
principal sub-matrices of the `(m', n')` ones along this embedding. -/
theorem embedding_in_range (num m n m' n' : ℕ) (hm : m ≤ m') (hn : n ≤ n') {α i j : ℕ}
    (hα : α < num) (hi : i < m) (hj : j < n) :
    dofIndex num m' α i j < num * m' * n' := by
  unfold dofIndex
  have hi' : i < m' := lt_of_lt_of_le hi hm
  have hj' : j < n' := lt_of_lt_of_le hj hn
  have h1 : j * m' + i < n' * m' := by
    calc j * m' + i < j * m' + m' := by omega
      _ = (j + 1) * m' := by ring
      _ ≤ n' * m' := Nat.mul_le_mul_right _ hj'
  calc num * (j * m' + i) + α < num * (j * m' + i) + num := by omega
    _ = num * (j * m' + i + 1) := by ring
    _ ≤ num * (n' * m') := Nat.mul_le_mul_left _ h1
    _ = num * m' * n' := by ring

/-- the generated stiffness entry is the same function of the two basis functions whatever the series orders:
it has no `m`, `n` argument (this is a statement about the regenerated model: a source edit that makes an entry
depend on `m` or `n` changes the signature of `entry` and breaks this theorem) -/
theorem entries_independent_of_series_order {K : Type} [Field K] (P : Compmech.Panel.PCtx K) (ro co : Fin 3)
    (m n m' n' : ℕ) :
    (fun (_ : ℕ × ℕ) => Compmech.Gen.Plate.fk0.entry ro co P) (m, n) =
      (fun (_ : ℕ × ℕ) => Compmech.Gen.Plate.fk0.entry ro co P) (m', n') := rfl

variable {E : Type*} [AddCommGroup E] [Module ℝ E]

/-- Min–max monotonicity: enlarging the trial space can only lower (never raise) every min–max value — for ANY
Rayleigh quotient (buckling: `xᵀKx / xᵀ(−KG)x`; vibration: `xᵀKx / xᵀMx`), any `k`, any nested spaces. -/
theorem minmax_monotone (R : E → EReal) (k : ℕ) {V V' : Submodule ℝ E} (h : V' ≤ V) :
    minmax R k V ≤ minmax R k V' := by
  unfold minmax
  refine le_iInf fun W' => ?_
  exact iInf_le_of_le ⟨W'.1, ⟨le_trans W'.2.1 h, W'.2.2⟩⟩ le_rfl

/-- chain form: along any increasing sequence of trial spaces the min–max values are non-increasing -/
theorem minmax_chain (R : E → EReal) (k : ℕ) (V : ℕ → Submodule ℝ E) (hV : Monotone V) :
    Antitone fun s => minmax R k (V s) :=
  fun _ _ hab => minmax_monotone R k (hV hab)

end Compmech.Ritz.C15
