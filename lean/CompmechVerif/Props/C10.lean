/-
C10 — Bardell functions, integral tables, quadrature tables.  ONLY property theorems here.

Data  : `Gen/CTables/*.lean`, regenerated from /repo/compmech/lib/src/*.c on every run (translator T).
Exact : `Bardell/Basis.lean` (closed formula), `Bardell/Exact.lean` (exact integrals, fraction-free).
Checks: `Bardell/Check.lean`, `Bardell/Gauss.lean`; every check is decided by the kernel
        (`decide +kernel`) in the generated `Gen/CTables/*Check.lean` modules, one theorem per table row.
Tolerances (relative, per coefficient; fixed, calibrated on the unchanged tables — see `Bardell/Check.lean`,
`Bardell/Gauss.lean`): function and full-interval tables 5·10⁻¹⁵, `_12` and `_c0c1` tables 10⁻¹³,
Gauss moments 2·10⁻¹⁵ (binary64 reading) and 4·10⁻⁵³ (decimal reading).

`checkE tn td e want den = true` means: the normal form of the C expression `e` has exactly the monomials
of `want` (exact zero pattern, exact flag monomial) and each coefficient `c/10^s` satisfies
`|c/10^s − w/den| ≤ tn/td·|w/den|`.  Its meaning for *values* is `checkE_sound` (Core/CExprLemmas.lean);
the second half of this file lifts every table theorem to a statement about the value of the C expression
for all arguments and flags (`E.eval env e`; the variable numbering is that of the translator:
function tables `0 = xi, 2..5 = xi1t, xi1r, xi2t, xi2r`; two-index tables `2..5 = x1t, x1r, x2t, x2r`,
`6..9 = y1t, y1r, y2t, y2r`, `_12`: `1 = xi1, 0 = xi2`, `_c0c1`: `1 = c0, 0 = c1`).
-/
import CompmechVerif.Bardell.Lifts
import CompmechVerif.Bardell.MapLifts
import CompmechVerif.Model.IntegrateLemmas
import CompmechVerif.Gen.CTables.FuncCheck
import CompmechVerif.Gen.CTables.FullFfCheck
import CompmechVerif.Gen.CTables.FullFfxiCheck
import CompmechVerif.Gen.CTables.FullFfxixiCheck
import CompmechVerif.Gen.CTables.FullFxifxiCheck
import CompmechVerif.Gen.CTables.FullFxifxixiCheck
import CompmechVerif.Gen.CTables.FullFxixifxixiCheck
import CompmechVerif.Gen.CTables.SubFfAll
import CompmechVerif.Gen.CTables.SubFfxiAll
import CompmechVerif.Gen.CTables.SubFfxixiAll
import CompmechVerif.Gen.CTables.SubFxifxiAll
import CompmechVerif.Gen.CTables.SubFxifxixiAll
import CompmechVerif.Gen.CTables.SubFxixifxixiAll
import CompmechVerif.Gen.CTables.MapFfAll
import CompmechVerif.Gen.CTables.MapFfxiAll
import CompmechVerif.Gen.CTables.MapFxifAll
import CompmechVerif.Gen.CTables.MapFxifxiAll
import CompmechVerif.Gen.CTables.MapFxixifxixiAll
import CompmechVerif.Gen.CTables.LegGaussAll

set_option linter.unusedSectionVars false

namespace Compmech.C10.Props
open Compmech.C10

/-! ## The exact side is Bardell's closed formula (`theory/func/bardell/bardell.py`) -/

/-- functions `u_{r−1}`, `r ≥ 5`: the coefficient of `ξ^e`, `e = r−2n−1`, stored fraction-free as `bnum r e / bden r`,
is `(−1)ⁿ (2r−2n−7)!! / (2ⁿ n! (r−2n−1)!)`  (`oddDF m = (2m−1)!!`, so `oddDF (r−n−3) = (2r−2n−7)!!`, `oddDF 0 = (−1)!! = 1`);
coefficients of the other parity are `0` by definition of `bnum`. -/
theorem bardell_closed_formula (r n e : Nat) (h : e + 2 * n + 1 = r) :
    ((bnum r e : Int) : ℚ) / (bden r : ℚ) =
      (-1) ^ n * (oddDF (r - n - 3) : ℚ) / ((2 : ℚ) ^ n * (fact n : ℚ) * (fact e : ℚ)) :=
  bnum_closed_formula r n e h

/-- the first four functions are the cubic Hermite functions (to be multiplied by their edge flags) -/
theorem bardell_hermite (x : ℚ) :
    (basis 0).eval x = 1 / 2 - 3 / 4 * x + 1 / 4 * x ^ 3 ∧
    (basis 1).eval x = 1 / 8 - 1 / 8 * x - 1 / 8 * x ^ 2 + 1 / 8 * x ^ 3 ∧
    (basis 2).eval x = 1 / 2 + 3 / 4 * x - 1 / 4 * x ^ 3 ∧
    (basis 3).eval x = -1 / 8 - 1 / 8 * x + 1 / 8 * x ^ 2 + 1 / 8 * x ^ 3 :=
  hermite_eval x

/-! ## Function tables (`bardell_functions.c`) -/

/-- `calc_f`: for every `i < 30` the C expression has exactly the monomials of `flag_i · D^0 u_i(ξ)` (flag only
for `i < 4`) with every coefficient within 5·10⁻¹⁵ (relative) of the exact one. -/
theorem func_calc_f_ok (i : Nat) (hi : i < 30) :
    checkE tolFuncN tolFuncD (entry1 Gen.Func.calc_f i) (funcWant 0 i).1 (funcWant 0 i).2 = true := by
  have h := checkRow_entry1 Gen.Func.calc_f_ok (i := i) (by rw [funcWantRow_length]; exact hi)
  rwa [funcWantRow_get] at h

/-- `calc_fxi`: for every `i < 30` the C expression has exactly the monomials of `flag_i · D^1 u_i(ξ)` (flag only
for `i < 4`) with every coefficient within 5·10⁻¹⁵ (relative) of the exact one. -/
theorem func_calc_fxi_ok (i : Nat) (hi : i < 30) :
    checkE tolFuncN tolFuncD (entry1 Gen.Func.calc_fxi i) (funcWant 1 i).1 (funcWant 1 i).2 = true := by
  have h := checkRow_entry1 Gen.Func.calc_fxi_ok (i := i) (by rw [funcWantRow_length]; exact hi)
  rwa [funcWantRow_get] at h

/-- `calc_fxixi`: for every `i < 30` the C expression has exactly the monomials of `flag_i · D^2 u_i(ξ)` (flag only
for `i < 4`) with every coefficient within 5·10⁻¹⁵ (relative) of the exact one. -/
theorem func_calc_fxixi_ok (i : Nat) (hi : i < 30) :
    checkE tolFuncN tolFuncD (entry1 Gen.Func.calc_fxixi i) (funcWant 2 i).1 (funcWant 2 i).2 = true := by
  have h := checkRow_entry1 Gen.Func.calc_fxixi_ok (i := i) (by rw [funcWantRow_length]; exact hi)
  rwa [funcWantRow_get] at h

/-- `calc_vec_f`: for every `i < 30` the C expression has exactly the monomials of `flag_i · D^0 u_i(ξ)` (flag only
for `i < 4`) with every coefficient within 5·10⁻¹⁵ (relative) of the exact one. -/
theorem func_calc_vec_f_ok (i : Nat) (hi : i < 30) :
    checkE tolFuncN tolFuncD (entry1 Gen.Func.calc_vec_f i) (funcWant 0 i).1 (funcWant 0 i).2 = true := by
  have h := checkRow_entry1 Gen.Func.calc_vec_f_ok (i := i) (by rw [funcWantRow_length]; exact hi)
  rwa [funcWantRow_get] at h

/-- `calc_vec_fxi`: for every `i < 30` the C expression has exactly the monomials of `flag_i · D^1 u_i(ξ)` (flag only
for `i < 4`) with every coefficient within 5·10⁻¹⁵ (relative) of the exact one. -/
theorem func_calc_vec_fxi_ok (i : Nat) (hi : i < 30) :
    checkE tolFuncN tolFuncD (entry1 Gen.Func.calc_vec_fxi i) (funcWant 1 i).1 (funcWant 1 i).2 = true := by
  have h := checkRow_entry1 Gen.Func.calc_vec_fxi_ok (i := i) (by rw [funcWantRow_length]; exact hi)
  rwa [funcWantRow_get] at h

/-- `calc_vec_fxixi`: for every `i < 30` the C expression has exactly the monomials of `flag_i · D^2 u_i(ξ)` (flag only
for `i < 4`) with every coefficient within 5·10⁻¹⁵ (relative) of the exact one. -/
theorem func_calc_vec_fxixi_ok (i : Nat) (hi : i < 30) :
    checkE tolFuncN tolFuncD (entry1 Gen.Func.calc_vec_fxixi i) (funcWant 2 i).1 (funcWant 2 i).2 = true := by
  have h := checkRow_entry1 Gen.Func.calc_vec_fxixi_ok (i := i) (by rw [funcWantRow_length]; exact hi)
  rwa [funcWantRow_get] at h

/-! ## Full-interval tables (`bardell.c`) -/

/-- `integral_ff(i, j, flags)`: for all `i, j < 30` the entry is the single monomial `x-flag_i · y-flag_j`
(flags only for indices `< 4`) times a constant within 5·10⁻¹⁵ (relative) of `∫_{-1}^{1} D^0 u_i · D^0 u_j`,
and it is exactly `0` (no monomial at all) where that integral vanishes. -/
theorem full_ff_ok (i j : Nat) (hi : i < 30) (hj : j < 30) :
    checkE tolFuncN tolFuncD (entry Gen.FullFf.rows i j)
      (fullWant (flagKey2 i j) (dbasis 0 i).num (dbasis 0 j).num)
      ((dbasis 0 i).den * (dbasis 0 j).den * intL) = true := by
  have h := checkRows_entry Gen.FullFf.ok (i := i) (j := j) (by rw [Gen.FullFf.rows_length]; exact hi)
    (by rw [fullWantRow_length]; exact hj)
  rwa [fullWantRow_get] at h

/-- `integral_ffxi(i, j, flags)`: for all `i, j < 30` the entry is the single monomial `x-flag_i · y-flag_j`
(flags only for indices `< 4`) times a constant within 5·10⁻¹⁵ (relative) of `∫_{-1}^{1} D^0 u_i · D^1 u_j`,
and it is exactly `0` (no monomial at all) where that integral vanishes. -/
theorem full_ffxi_ok (i j : Nat) (hi : i < 30) (hj : j < 30) :
    checkE tolFuncN tolFuncD (entry Gen.FullFfxi.rows i j)
      (fullWant (flagKey2 i j) (dbasis 0 i).num (dbasis 1 j).num)
      ((dbasis 0 i).den * (dbasis 1 j).den * intL) = true := by
  have h := checkRows_entry Gen.FullFfxi.ok (i := i) (j := j) (by rw [Gen.FullFfxi.rows_length]; exact hi)
    (by rw [fullWantRow_length]; exact hj)
  rwa [fullWantRow_get] at h

/-- `integral_ffxixi(i, j, flags)`: for all `i, j < 30` the entry is the single monomial `x-flag_i · y-flag_j`
(flags only for indices `< 4`) times a constant within 5·10⁻¹⁵ (relative) of `∫_{-1}^{1} D^0 u_i · D^2 u_j`,
and it is exactly `0` (no monomial at all) where that integral vanishes. -/
theorem full_ffxixi_ok (i j : Nat) (hi : i < 30) (hj : j < 30) :
    checkE tolFuncN tolFuncD (entry Gen.FullFfxixi.rows i j)
      (fullWant (flagKey2 i j) (dbasis 0 i).num (dbasis 2 j).num)
      ((dbasis 0 i).den * (dbasis 2 j).den * intL) = true := by
  have h := checkRows_entry Gen.FullFfxixi.ok (i := i) (j := j) (by rw [Gen.FullFfxixi.rows_length]; exact hi)
    (by rw [fullWantRow_length]; exact hj)
  rwa [fullWantRow_get] at h

/-- `integral_fxifxi(i, j, flags)`: for all `i, j < 30` the entry is the single monomial `x-flag_i · y-flag_j`
(flags only for indices `< 4`) times a constant within 5·10⁻¹⁵ (relative) of `∫_{-1}^{1} D^1 u_i · D^1 u_j`,
and it is exactly `0` (no monomial at all) where that integral vanishes. -/
theorem full_fxifxi_ok (i j : Nat) (hi : i < 30) (hj : j < 30) :
    checkE tolFuncN tolFuncD (entry Gen.FullFxifxi.rows i j)
      (fullWant (flagKey2 i j) (dbasis 1 i).num (dbasis 1 j).num)
      ((dbasis 1 i).den * (dbasis 1 j).den * intL) = true := by
  have h := checkRows_entry Gen.FullFxifxi.ok (i := i) (j := j) (by rw [Gen.FullFxifxi.rows_length]; exact hi)
    (by rw [fullWantRow_length]; exact hj)
  rwa [fullWantRow_get] at h

/-- `integral_fxifxixi(i, j, flags)`: for all `i, j < 30` the entry is the single monomial `x-flag_i · y-flag_j`
(flags only for indices `< 4`) times a constant within 5·10⁻¹⁵ (relative) of `∫_{-1}^{1} D^1 u_i · D^2 u_j`,
and it is exactly `0` (no monomial at all) where that integral vanishes. -/
theorem full_fxifxixi_ok (i j : Nat) (hi : i < 30) (hj : j < 30) :
    checkE tolFuncN tolFuncD (entry Gen.FullFxifxixi.rows i j)
      (fullWant (flagKey2 i j) (dbasis 1 i).num (dbasis 2 j).num)
      ((dbasis 1 i).den * (dbasis 2 j).den * intL) = true := by
  have h := checkRows_entry Gen.FullFxifxixi.ok (i := i) (j := j) (by rw [Gen.FullFxifxixi.rows_length]; exact hi)
    (by rw [fullWantRow_length]; exact hj)
  rwa [fullWantRow_get] at h

/-- `integral_fxixifxixi(i, j, flags)`: for all `i, j < 30` the entry is the single monomial `x-flag_i · y-flag_j`
(flags only for indices `< 4`) times a constant within 5·10⁻¹⁵ (relative) of `∫_{-1}^{1} D^2 u_i · D^2 u_j`,
and it is exactly `0` (no monomial at all) where that integral vanishes. -/
theorem full_fxixifxixi_ok (i j : Nat) (hi : i < 30) (hj : j < 30) :
    checkE tolFuncN tolFuncD (entry Gen.FullFxixifxixi.rows i j)
      (fullWant (flagKey2 i j) (dbasis 2 i).num (dbasis 2 j).num)
      ((dbasis 2 i).den * (dbasis 2 j).den * intL) = true := by
  have h := checkRows_entry Gen.FullFxixifxixi.ok (i := i) (j := j) (by rw [Gen.FullFxixifxixi.rows_length]; exact hi)
    (by rw [fullWantRow_length]; exact hj)
  rwa [fullWantRow_get] at h

/-! ## Sub-interval tables (`bardell_integral_*_12.c`) -/

/-- `integral_ff_12(xi1, xi2, i, j, flags)`: for all `i, j < 30` the entry, normalised to a polynomial in
`(xi1, xi2, flags)`, has exactly the monomials of `flag_i·flag_j·(A(xi2) − A(xi1))`, `A` the antiderivative of
`D^0 u_i · D^0 u_j`, each coefficient within 10⁻¹³ (relative). -/
theorem sub_ff_ok (i j : Nat) (hi : i < 30) (hj : j < 30) :
    checkE tolSubN tolSubD (entry Gen.SubFfAll.rows i j)
      (subWant (flagKey2 i j) (toTerms (dbasis 0 i).num) (toTerms (dbasis 0 j).num))
      ((dbasis 0 i).den * (dbasis 0 j).den * intL) = true := by
  have h := checkRows_entry Gen.SubFfAll.ok (i := i) (j := j) (by rw [Gen.SubFfAll.rows_length]; exact hi)
    (by rw [subWantRow_length]; exact hj)
  rwa [subWantRow_get] at h

/-- `integral_ffxi_12(xi1, xi2, i, j, flags)`: for all `i, j < 30` the entry, normalised to a polynomial in
`(xi1, xi2, flags)`, has exactly the monomials of `flag_i·flag_j·(A(xi2) − A(xi1))`, `A` the antiderivative of
`D^0 u_i · D^1 u_j`, each coefficient within 10⁻¹³ (relative). -/
theorem sub_ffxi_ok (i j : Nat) (hi : i < 30) (hj : j < 30) :
    checkE tolSubN tolSubD (entry Gen.SubFfxiAll.rows i j)
      (subWant (flagKey2 i j) (toTerms (dbasis 0 i).num) (toTerms (dbasis 1 j).num))
      ((dbasis 0 i).den * (dbasis 1 j).den * intL) = true := by
  have h := checkRows_entry Gen.SubFfxiAll.ok (i := i) (j := j) (by rw [Gen.SubFfxiAll.rows_length]; exact hi)
    (by rw [subWantRow_length]; exact hj)
  rwa [subWantRow_get] at h

/-- `integral_ffxixi_12(xi1, xi2, i, j, flags)`: for all `i, j < 30` the entry, normalised to a polynomial in
`(xi1, xi2, flags)`, has exactly the monomials of `flag_i·flag_j·(A(xi2) − A(xi1))`, `A` the antiderivative of
`D^0 u_i · D^2 u_j`, each coefficient within 10⁻¹³ (relative). -/
theorem sub_ffxixi_ok (i j : Nat) (hi : i < 30) (hj : j < 30) :
    checkE tolSubN tolSubD (entry Gen.SubFfxixiAll.rows i j)
      (subWant (flagKey2 i j) (toTerms (dbasis 0 i).num) (toTerms (dbasis 2 j).num))
      ((dbasis 0 i).den * (dbasis 2 j).den * intL) = true := by
  have h := checkRows_entry Gen.SubFfxixiAll.ok (i := i) (j := j) (by rw [Gen.SubFfxixiAll.rows_length]; exact hi)
    (by rw [subWantRow_length]; exact hj)
  rwa [subWantRow_get] at h

/-- `integral_fxifxi_12(xi1, xi2, i, j, flags)`: for all `i, j < 30` the entry, normalised to a polynomial in
`(xi1, xi2, flags)`, has exactly the monomials of `flag_i·flag_j·(A(xi2) − A(xi1))`, `A` the antiderivative of
`D^1 u_i · D^1 u_j`, each coefficient within 10⁻¹³ (relative). -/
theorem sub_fxifxi_ok (i j : Nat) (hi : i < 30) (hj : j < 30) :
    checkE tolSubN tolSubD (entry Gen.SubFxifxiAll.rows i j)
      (subWant (flagKey2 i j) (toTerms (dbasis 1 i).num) (toTerms (dbasis 1 j).num))
      ((dbasis 1 i).den * (dbasis 1 j).den * intL) = true := by
  have h := checkRows_entry Gen.SubFxifxiAll.ok (i := i) (j := j) (by rw [Gen.SubFxifxiAll.rows_length]; exact hi)
    (by rw [subWantRow_length]; exact hj)
  rwa [subWantRow_get] at h

/-- `integral_fxifxixi_12(xi1, xi2, i, j, flags)`: for all `i, j < 30` the entry, normalised to a polynomial in
`(xi1, xi2, flags)`, has exactly the monomials of `flag_i·flag_j·(A(xi2) − A(xi1))`, `A` the antiderivative of
`D^1 u_i · D^2 u_j`, each coefficient within 10⁻¹³ (relative). -/
theorem sub_fxifxixi_ok (i j : Nat) (hi : i < 30) (hj : j < 30) :
    checkE tolSubN tolSubD (entry Gen.SubFxifxixiAll.rows i j)
      (subWant (flagKey2 i j) (toTerms (dbasis 1 i).num) (toTerms (dbasis 2 j).num))
      ((dbasis 1 i).den * (dbasis 2 j).den * intL) = true := by
  have h := checkRows_entry Gen.SubFxifxixiAll.ok (i := i) (j := j) (by rw [Gen.SubFxifxixiAll.rows_length]; exact hi)
    (by rw [subWantRow_length]; exact hj)
  rwa [subWantRow_get] at h

/-- `integral_fxixifxixi_12(xi1, xi2, i, j, flags)`: for all `i, j < 30` the entry, normalised to a polynomial in
`(xi1, xi2, flags)`, has exactly the monomials of `flag_i·flag_j·(A(xi2) − A(xi1))`, `A` the antiderivative of
`D^2 u_i · D^2 u_j`, each coefficient within 10⁻¹³ (relative). -/
theorem sub_fxixifxixi_ok (i j : Nat) (hi : i < 30) (hj : j < 30) :
    checkE tolSubN tolSubD (entry Gen.SubFxixifxixiAll.rows i j)
      (subWant (flagKey2 i j) (toTerms (dbasis 2 i).num) (toTerms (dbasis 2 j).num))
      ((dbasis 2 i).den * (dbasis 2 j).den * intL) = true := by
  have h := checkRows_entry Gen.SubFxixifxixiAll.ok (i := i) (j := j) (by rw [Gen.SubFxixifxixiAll.rows_length]; exact hi)
    (by rw [subWantRow_length]; exact hj)
  rwa [subWantRow_get] at h

/-! ## Mapped-argument tables (`bardell_integral_*_c0c1.c`) -/

/-- `integral_ff_c0c1(c0, c1, i, j, flags)`: for all `i, j < 30` the entry, normalised to a polynomial in
`(c0, c1, flags)`, has exactly the monomials of the binomial expansion of
`flag_i·flag_j·∫_{-1}^{1} D^0 u_i(ξ) · D^0 u_j(c0 + c1·ξ) dξ`, each coefficient within 10⁻¹³ (relative). -/
theorem map_ff_ok (i j : Nat) (hi : i < 30) (hj : j < 30) :
    checkE tolSubN tolSubD (entry Gen.MapFfAll.rows i j)
      (mapWant (flagKey2 i j) (mus (dbasis 0 i).num) (dbasis 0 j).num)
      ((dbasis 0 i).den * (dbasis 0 j).den * intL) = true := by
  have h := checkRows_entry Gen.MapFfAll.ok (i := i) (j := j) (by rw [Gen.MapFfAll.rows_length]; exact hi)
    (by rw [mapWantRow_length]; exact hj)
  rwa [mapWantRow_get] at h

/-- `integral_ffxi_c0c1(c0, c1, i, j, flags)`: for all `i, j < 30` the entry, normalised to a polynomial in
`(c0, c1, flags)`, has exactly the monomials of the binomial expansion of
`flag_i·flag_j·∫_{-1}^{1} D^0 u_i(ξ) · D^1 u_j(c0 + c1·ξ) dξ`, each coefficient within 10⁻¹³ (relative). -/
theorem map_ffxi_ok (i j : Nat) (hi : i < 30) (hj : j < 30) :
    checkE tolSubN tolSubD (entry Gen.MapFfxiAll.rows i j)
      (mapWant (flagKey2 i j) (mus (dbasis 0 i).num) (dbasis 1 j).num)
      ((dbasis 0 i).den * (dbasis 1 j).den * intL) = true := by
  have h := checkRows_entry Gen.MapFfxiAll.ok (i := i) (j := j) (by rw [Gen.MapFfxiAll.rows_length]; exact hi)
    (by rw [mapWantRow_length]; exact hj)
  rwa [mapWantRow_get] at h

/-- `integral_fxif_c0c1(c0, c1, i, j, flags)`: for all `i, j < 30` the entry, normalised to a polynomial in
`(c0, c1, flags)`, has exactly the monomials of the binomial expansion of
`flag_i·flag_j·∫_{-1}^{1} D^1 u_i(ξ) · D^0 u_j(c0 + c1·ξ) dξ`, each coefficient within 10⁻¹³ (relative). -/
theorem map_fxif_ok (i j : Nat) (hi : i < 30) (hj : j < 30) :
    checkE tolSubN tolSubD (entry Gen.MapFxifAll.rows i j)
      (mapWant (flagKey2 i j) (mus (dbasis 1 i).num) (dbasis 0 j).num)
      ((dbasis 1 i).den * (dbasis 0 j).den * intL) = true := by
  have h := checkRows_entry Gen.MapFxifAll.ok (i := i) (j := j) (by rw [Gen.MapFxifAll.rows_length]; exact hi)
    (by rw [mapWantRow_length]; exact hj)
  rwa [mapWantRow_get] at h

/-- `integral_fxifxi_c0c1(c0, c1, i, j, flags)`: for all `i, j < 30` the entry, normalised to a polynomial in
`(c0, c1, flags)`, has exactly the monomials of the binomial expansion of
`flag_i·flag_j·∫_{-1}^{1} D^1 u_i(ξ) · D^1 u_j(c0 + c1·ξ) dξ`, each coefficient within 10⁻¹³ (relative). -/
theorem map_fxifxi_ok (i j : Nat) (hi : i < 30) (hj : j < 30) :
    checkE tolSubN tolSubD (entry Gen.MapFxifxiAll.rows i j)
      (mapWant (flagKey2 i j) (mus (dbasis 1 i).num) (dbasis 1 j).num)
      ((dbasis 1 i).den * (dbasis 1 j).den * intL) = true := by
  have h := checkRows_entry Gen.MapFxifxiAll.ok (i := i) (j := j) (by rw [Gen.MapFxifxiAll.rows_length]; exact hi)
    (by rw [mapWantRow_length]; exact hj)
  rwa [mapWantRow_get] at h

/-- `integral_fxixifxixi_c0c1(c0, c1, i, j, flags)`: for all `i, j < 30` the entry, normalised to a polynomial in
`(c0, c1, flags)`, has exactly the monomials of the binomial expansion of
`flag_i·flag_j·∫_{-1}^{1} D^2 u_i(ξ) · D^2 u_j(c0 + c1·ξ) dξ`, each coefficient within 10⁻¹³ (relative). -/
theorem map_fxixifxixi_ok (i j : Nat) (hi : i < 30) (hj : j < 30) :
    checkE tolSubN tolSubD (entry Gen.MapFxixifxixiAll.rows i j)
      (mapWant (flagKey2 i j) (mus (dbasis 2 i).num) (dbasis 2 j).num)
      ((dbasis 2 i).den * (dbasis 2 j).den * intL) = true := by
  have h := checkRows_entry Gen.MapFxixifxixiAll.ok (i := i) (j := j) (by rw [Gen.MapFxixifxixiAll.rows_length]; exact hi)
    (by rw [mapWantRow_length]; exact hj)
  rwa [mapWantRow_get] at h

/-! ## Gauss–Legendre table (`legendre_gauss_quadrature.c`) -/

/-- For every order `2 ≤ n ≤ 64` the table has a `case n` with `n` points and `n` weights such that, both for
the decimal literals as written and for their binary64 roundings (computed in `roundB64` on exact rationals):
the nodes are strictly increasing inside `(−1, 1)` and symmetric, the weights positive and symmetric, and
every moment `Σ wᵢ xᵢᵏ`, `k ≤ 2n−1`, is within 2·10⁻¹⁵ (binary64) resp. 4·10⁻⁵³ (decimal) of `∫_{-1}^{1} ξᵏ dξ`. -/
theorem leggauss_ok (n : Nat) (h2 : 2 ≤ n) (h64 : n ≤ 64) :
    ∃ pts wts, (n, pts, wts) ∈ Gen.LegGauss.table ∧
      gaussB64Ok tolB64N tolB64D n pts wts = true ∧ gaussDecOk tolDecN tolDecD n pts wts = true := by
  have hmem : n ∈ Gen.LegGauss.table.map (fun t => t.1) := by
    rw [Gen.LegGaussAll.orders, List.mem_range']
    exact ⟨n - 2, by omega, by omega⟩
  obtain ⟨t, ht, rfl⟩ := List.mem_map.1 hmem
  have hc := casesOk_mem Gen.LegGaussAll.ok t ht
  simp only [caseOk, Bool.and_eq_true] at hc
  exact ⟨t.2.1, t.2.2, ht, hc.1, hc.2⟩

/-- **Gauss–Legendre exactness for polynomials** (real form, binary64 reading — the numbers the compiled code uses):
for every supported order `2 ≤ n ≤ 64` and every real polynomial `p(ξ) = Σ_{k<2n} a_k ξ^k` (degree `≤ 2n−1`),
`|Σ_i w_i·p(x_i) − ∫_{-1}^{1} p| ≤ 2·10⁻¹⁵·Σ_k |a_k|`. -/
theorem leggauss_exact_poly (n : Nat) (h2 : 2 ≤ n) (h64 : n ≤ 64) :
    ∃ pts wts, (n, pts, wts) ∈ Gen.LegGauss.table ∧
      ∀ a : List ℝ, a.length ≤ 2 * n →
        |gaussQuadB64 pts wts (fun x => polyFrom x 0 a) - ∫ x in (-1 : ℝ)..1, polyFrom x 0 a| * 10 ^ 15 ≤ 2 * norm1 a := by
  obtain ⟨pts, wts, hm, hb, _⟩ := leggauss_ok n h2 h64
  refine ⟨pts, wts, hm, fun a ha => ?_⟩
  have := gaussB64Ok_poly (K := ℝ) (by norm_num [tolB64D]) hb a ha
  rw [← integFrom_eq_integral]
  have h1 : ((tolB64D : Nat) : ℝ) = 10 ^ 15 := by norm_num [tolB64D]
  have h2' : ((tolB64N : Nat) : ℝ) = 2 := by norm_num [tolB64N]
  rw [h1, h2'] at this
  exact this

/-- the table has no other orders -/
theorem leggauss_orders : Gen.LegGauss.table.map (fun t => t.1) = List.range' 2 63 := Gen.LegGaussAll.orders

/-! ## Lifted statements: values of the C expressions for all arguments

`(dbasis d i).eval ξ` is the exact `D^d u_i(ξ)` (closed formula, `Bardell/Basis.lean`); integrals are
Mathlib's interval integrals over `ℝ` (`Bardell/IntegralLemmas.lean`). -/

section lifted
open intervalIntegral
variable {K : Type} [Field K] [LinearOrder K] [IsStrictOrderedRing K]

/-- `calc_f`, every `i < 30`, every `ξ` and flags, in every ordered field: with `a_k` the integer numerators of
`D^0 u_i` over `den`, `|C(i, ξ, flags)·den − flag_i·Σ a_k ξ^k|·10¹⁵ ≤ 5·|flag_i|·Σ |a_k||ξ|^k`
(`flag_i` only for `i < 4`).  For `|ξ| ≤ 1` the right-hand sum is at most the 1-norm of the coefficients. -/
theorem func_calc_f_value (i : Nat) (hi : i < 30) (env : Nat → K) :
    |(entry1 Gen.Func.calc_f i).eval env * ((dbasis 0 i).den : K) - flag1 env i * evalP (env 0) (dbasis 0 i).num|
        * (10 : K) ^ 15 ≤ 5 * (|flag1 env i| * absEvalP (env 0) (dbasis 0 i).num) :=
  func_value hi (func_calc_f_ok i hi) env

/-- `calc_fxi`, every `i < 30`, every `ξ` and flags, in every ordered field: with `a_k` the integer numerators of
`D^1 u_i` over `den`, `|C(i, ξ, flags)·den − flag_i·Σ a_k ξ^k|·10¹⁵ ≤ 5·|flag_i|·Σ |a_k||ξ|^k`
(`flag_i` only for `i < 4`).  For `|ξ| ≤ 1` the right-hand sum is at most the 1-norm of the coefficients. -/
theorem func_calc_fxi_value (i : Nat) (hi : i < 30) (env : Nat → K) :
    |(entry1 Gen.Func.calc_fxi i).eval env * ((dbasis 1 i).den : K) - flag1 env i * evalP (env 0) (dbasis 1 i).num|
        * (10 : K) ^ 15 ≤ 5 * (|flag1 env i| * absEvalP (env 0) (dbasis 1 i).num) :=
  func_value hi (func_calc_fxi_ok i hi) env

/-- `calc_fxixi`, every `i < 30`, every `ξ` and flags, in every ordered field: with `a_k` the integer numerators of
`D^2 u_i` over `den`, `|C(i, ξ, flags)·den − flag_i·Σ a_k ξ^k|·10¹⁵ ≤ 5·|flag_i|·Σ |a_k||ξ|^k`
(`flag_i` only for `i < 4`).  For `|ξ| ≤ 1` the right-hand sum is at most the 1-norm of the coefficients. -/
theorem func_calc_fxixi_value (i : Nat) (hi : i < 30) (env : Nat → K) :
    |(entry1 Gen.Func.calc_fxixi i).eval env * ((dbasis 2 i).den : K) - flag1 env i * evalP (env 0) (dbasis 2 i).num|
        * (10 : K) ^ 15 ≤ 5 * (|flag1 env i| * absEvalP (env 0) (dbasis 2 i).num) :=
  func_value hi (func_calc_fxixi_ok i hi) env

/-- `calc_vec_f`, every `i < 30`, every `ξ` and flags, in every ordered field: with `a_k` the integer numerators of
`D^0 u_i` over `den`, `|C(i, ξ, flags)·den − flag_i·Σ a_k ξ^k|·10¹⁵ ≤ 5·|flag_i|·Σ |a_k||ξ|^k`
(`flag_i` only for `i < 4`).  For `|ξ| ≤ 1` the right-hand sum is at most the 1-norm of the coefficients. -/
theorem func_calc_vec_f_value (i : Nat) (hi : i < 30) (env : Nat → K) :
    |(entry1 Gen.Func.calc_vec_f i).eval env * ((dbasis 0 i).den : K) - flag1 env i * evalP (env 0) (dbasis 0 i).num|
        * (10 : K) ^ 15 ≤ 5 * (|flag1 env i| * absEvalP (env 0) (dbasis 0 i).num) :=
  func_value hi (func_calc_vec_f_ok i hi) env

/-- `calc_vec_fxi`, every `i < 30`, every `ξ` and flags, in every ordered field: with `a_k` the integer numerators of
`D^1 u_i` over `den`, `|C(i, ξ, flags)·den − flag_i·Σ a_k ξ^k|·10¹⁵ ≤ 5·|flag_i|·Σ |a_k||ξ|^k`
(`flag_i` only for `i < 4`).  For `|ξ| ≤ 1` the right-hand sum is at most the 1-norm of the coefficients. -/
theorem func_calc_vec_fxi_value (i : Nat) (hi : i < 30) (env : Nat → K) :
    |(entry1 Gen.Func.calc_vec_fxi i).eval env * ((dbasis 1 i).den : K) - flag1 env i * evalP (env 0) (dbasis 1 i).num|
        * (10 : K) ^ 15 ≤ 5 * (|flag1 env i| * absEvalP (env 0) (dbasis 1 i).num) :=
  func_value hi (func_calc_vec_fxi_ok i hi) env

/-- `calc_vec_fxixi`, every `i < 30`, every `ξ` and flags, in every ordered field: with `a_k` the integer numerators of
`D^2 u_i` over `den`, `|C(i, ξ, flags)·den − flag_i·Σ a_k ξ^k|·10¹⁵ ≤ 5·|flag_i|·Σ |a_k||ξ|^k`
(`flag_i` only for `i < 4`).  For `|ξ| ≤ 1` the right-hand sum is at most the 1-norm of the coefficients. -/
theorem func_calc_vec_fxixi_value (i : Nat) (hi : i < 30) (env : Nat → K) :
    |(entry1 Gen.Func.calc_vec_fxixi i).eval env * ((dbasis 2 i).den : K) - flag1 env i * evalP (env 0) (dbasis 2 i).num|
        * (10 : K) ^ 15 ≤ 5 * (|flag1 env i| * absEvalP (env 0) (dbasis 2 i).num) :=
  func_value hi (func_calc_vec_fxixi_ok i hi) env

/-- `integral_ff(i, j, flags)` for all `i, j < 30` and all real flags is within 5·10⁻¹⁵ (relative) of
`x-flag_i · y-flag_j · ∫_{-1}^{1} D^0 u_i(x) · D^0 u_j(x) dx` (in particular exactly `0` where the integral is `0`). -/
theorem full_ff_integral (i j : Nat) (hi : i < 30) (hj : j < 30) (env : Nat → ℝ) :
    |(entry Gen.FullFf.rows i j).eval env
        - flagX env i * flagY env j * ∫ x in (-1 : ℝ)..1, (dbasis 0 i).eval x * (dbasis 0 j).eval x|
      ≤ 5 / 10 ^ 15 * |flagX env i * flagY env j * ∫ x in (-1 : ℝ)..1, (dbasis 0 i).eval x * (dbasis 0 j).eval x| :=
  full_value_real hi hj (full_ff_ok i j hi hj) env

/-- `integral_ffxi(i, j, flags)` for all `i, j < 30` and all real flags is within 5·10⁻¹⁵ (relative) of
`x-flag_i · y-flag_j · ∫_{-1}^{1} D^0 u_i(x) · D^1 u_j(x) dx` (in particular exactly `0` where the integral is `0`). -/
theorem full_ffxi_integral (i j : Nat) (hi : i < 30) (hj : j < 30) (env : Nat → ℝ) :
    |(entry Gen.FullFfxi.rows i j).eval env
        - flagX env i * flagY env j * ∫ x in (-1 : ℝ)..1, (dbasis 0 i).eval x * (dbasis 1 j).eval x|
      ≤ 5 / 10 ^ 15 * |flagX env i * flagY env j * ∫ x in (-1 : ℝ)..1, (dbasis 0 i).eval x * (dbasis 1 j).eval x| :=
  full_value_real hi hj (full_ffxi_ok i j hi hj) env

/-- `integral_ffxixi(i, j, flags)` for all `i, j < 30` and all real flags is within 5·10⁻¹⁵ (relative) of
`x-flag_i · y-flag_j · ∫_{-1}^{1} D^0 u_i(x) · D^2 u_j(x) dx` (in particular exactly `0` where the integral is `0`). -/
theorem full_ffxixi_integral (i j : Nat) (hi : i < 30) (hj : j < 30) (env : Nat → ℝ) :
    |(entry Gen.FullFfxixi.rows i j).eval env
        - flagX env i * flagY env j * ∫ x in (-1 : ℝ)..1, (dbasis 0 i).eval x * (dbasis 2 j).eval x|
      ≤ 5 / 10 ^ 15 * |flagX env i * flagY env j * ∫ x in (-1 : ℝ)..1, (dbasis 0 i).eval x * (dbasis 2 j).eval x| :=
  full_value_real hi hj (full_ffxixi_ok i j hi hj) env

/-- `integral_fxifxi(i, j, flags)` for all `i, j < 30` and all real flags is within 5·10⁻¹⁵ (relative) of
`x-flag_i · y-flag_j · ∫_{-1}^{1} D^1 u_i(x) · D^1 u_j(x) dx` (in particular exactly `0` where the integral is `0`). -/
theorem full_fxifxi_integral (i j : Nat) (hi : i < 30) (hj : j < 30) (env : Nat → ℝ) :
    |(entry Gen.FullFxifxi.rows i j).eval env
        - flagX env i * flagY env j * ∫ x in (-1 : ℝ)..1, (dbasis 1 i).eval x * (dbasis 1 j).eval x|
      ≤ 5 / 10 ^ 15 * |flagX env i * flagY env j * ∫ x in (-1 : ℝ)..1, (dbasis 1 i).eval x * (dbasis 1 j).eval x| :=
  full_value_real hi hj (full_fxifxi_ok i j hi hj) env

/-- `integral_fxifxixi(i, j, flags)` for all `i, j < 30` and all real flags is within 5·10⁻¹⁵ (relative) of
`x-flag_i · y-flag_j · ∫_{-1}^{1} D^1 u_i(x) · D^2 u_j(x) dx` (in particular exactly `0` where the integral is `0`). -/
theorem full_fxifxixi_integral (i j : Nat) (hi : i < 30) (hj : j < 30) (env : Nat → ℝ) :
    |(entry Gen.FullFxifxixi.rows i j).eval env
        - flagX env i * flagY env j * ∫ x in (-1 : ℝ)..1, (dbasis 1 i).eval x * (dbasis 2 j).eval x|
      ≤ 5 / 10 ^ 15 * |flagX env i * flagY env j * ∫ x in (-1 : ℝ)..1, (dbasis 1 i).eval x * (dbasis 2 j).eval x| :=
  full_value_real hi hj (full_fxifxixi_ok i j hi hj) env

/-- `integral_fxixifxixi(i, j, flags)` for all `i, j < 30` and all real flags is within 5·10⁻¹⁵ (relative) of
`x-flag_i · y-flag_j · ∫_{-1}^{1} D^2 u_i(x) · D^2 u_j(x) dx` (in particular exactly `0` where the integral is `0`). -/
theorem full_fxixifxixi_integral (i j : Nat) (hi : i < 30) (hj : j < 30) (env : Nat → ℝ) :
    |(entry Gen.FullFxixifxixi.rows i j).eval env
        - flagX env i * flagY env j * ∫ x in (-1 : ℝ)..1, (dbasis 2 i).eval x * (dbasis 2 j).eval x|
      ≤ 5 / 10 ^ 15 * |flagX env i * flagY env j * ∫ x in (-1 : ℝ)..1, (dbasis 2 i).eval x * (dbasis 2 j).eval x| :=
  full_value_real hi hj (full_fxixifxixi_ok i j hi hj) env

/-- `integral_ff_12(xi1, xi2, i, j, flags)` for all `i, j < 30`, all real `xi1 = env 1`, `xi2 = env 0` and flags is
within `10⁻¹³ · |flags| · (|A|(xi2) + |A|(xi1))` of `x-flag_i · y-flag_j · ∫_{xi1}^{xi2} D^0 u_i · D^0 u_j`, where `|A|`
is the antiderivative of the product with coefficients and argument replaced by their moduli. -/
theorem sub_ff_integral (i j : Nat) (hi : i < 30) (hj : j < 30) (env : Nat → ℝ) :
    |(entry Gen.SubFfAll.rows i j).eval env
        - flagX env i * flagY env j * ∫ x in (env 1)..(env 0), (dbasis 0 i).eval x * (dbasis 0 j).eval x|
      ≤ 1 / 10 ^ 13 * (|flagX env i * flagY env j| *
          (absAntiOf (env 0) (mulTerms (toTerms (dbasis 0 i).num) (toTerms (dbasis 0 j).num))
            + absAntiOf (env 1) (mulTerms (toTerms (dbasis 0 i).num) (toTerms (dbasis 0 j).num)))
          / (((dbasis 0 i).den : ℝ) * ((dbasis 0 j).den : ℝ))) :=
  sub_value_real hi hj (sub_ff_ok i j hi hj) env

/-- `integral_ffxi_12(xi1, xi2, i, j, flags)` for all `i, j < 30`, all real `xi1 = env 1`, `xi2 = env 0` and flags is
within `10⁻¹³ · |flags| · (|A|(xi2) + |A|(xi1))` of `x-flag_i · y-flag_j · ∫_{xi1}^{xi2} D^0 u_i · D^1 u_j`, where `|A|`
is the antiderivative of the product with coefficients and argument replaced by their moduli. -/
theorem sub_ffxi_integral (i j : Nat) (hi : i < 30) (hj : j < 30) (env : Nat → ℝ) :
    |(entry Gen.SubFfxiAll.rows i j).eval env
        - flagX env i * flagY env j * ∫ x in (env 1)..(env 0), (dbasis 0 i).eval x * (dbasis 1 j).eval x|
      ≤ 1 / 10 ^ 13 * (|flagX env i * flagY env j| *
          (absAntiOf (env 0) (mulTerms (toTerms (dbasis 0 i).num) (toTerms (dbasis 1 j).num))
            + absAntiOf (env 1) (mulTerms (toTerms (dbasis 0 i).num) (toTerms (dbasis 1 j).num)))
          / (((dbasis 0 i).den : ℝ) * ((dbasis 1 j).den : ℝ))) :=
  sub_value_real hi hj (sub_ffxi_ok i j hi hj) env

/-- `integral_ffxixi_12(xi1, xi2, i, j, flags)` for all `i, j < 30`, all real `xi1 = env 1`, `xi2 = env 0` and flags is
within `10⁻¹³ · |flags| · (|A|(xi2) + |A|(xi1))` of `x-flag_i · y-flag_j · ∫_{xi1}^{xi2} D^0 u_i · D^2 u_j`, where `|A|`
is the antiderivative of the product with coefficients and argument replaced by their moduli. -/
theorem sub_ffxixi_integral (i j : Nat) (hi : i < 30) (hj : j < 30) (env : Nat → ℝ) :
    |(entry Gen.SubFfxixiAll.rows i j).eval env
        - flagX env i * flagY env j * ∫ x in (env 1)..(env 0), (dbasis 0 i).eval x * (dbasis 2 j).eval x|
      ≤ 1 / 10 ^ 13 * (|flagX env i * flagY env j| *
          (absAntiOf (env 0) (mulTerms (toTerms (dbasis 0 i).num) (toTerms (dbasis 2 j).num))
            + absAntiOf (env 1) (mulTerms (toTerms (dbasis 0 i).num) (toTerms (dbasis 2 j).num)))
          / (((dbasis 0 i).den : ℝ) * ((dbasis 2 j).den : ℝ))) :=
  sub_value_real hi hj (sub_ffxixi_ok i j hi hj) env

/-- `integral_fxifxi_12(xi1, xi2, i, j, flags)` for all `i, j < 30`, all real `xi1 = env 1`, `xi2 = env 0` and flags is
within `10⁻¹³ · |flags| · (|A|(xi2) + |A|(xi1))` of `x-flag_i · y-flag_j · ∫_{xi1}^{xi2} D^1 u_i · D^1 u_j`, where `|A|`
is the antiderivative of the product with coefficients and argument replaced by their moduli. -/
theorem sub_fxifxi_integral (i j : Nat) (hi : i < 30) (hj : j < 30) (env : Nat → ℝ) :
    |(entry Gen.SubFxifxiAll.rows i j).eval env
        - flagX env i * flagY env j * ∫ x in (env 1)..(env 0), (dbasis 1 i).eval x * (dbasis 1 j).eval x|
      ≤ 1 / 10 ^ 13 * (|flagX env i * flagY env j| *
          (absAntiOf (env 0) (mulTerms (toTerms (dbasis 1 i).num) (toTerms (dbasis 1 j).num))
            + absAntiOf (env 1) (mulTerms (toTerms (dbasis 1 i).num) (toTerms (dbasis 1 j).num)))
          / (((dbasis 1 i).den : ℝ) * ((dbasis 1 j).den : ℝ))) :=
  sub_value_real hi hj (sub_fxifxi_ok i j hi hj) env

/-- `integral_fxifxixi_12(xi1, xi2, i, j, flags)` for all `i, j < 30`, all real `xi1 = env 1`, `xi2 = env 0` and flags is
within `10⁻¹³ · |flags| · (|A|(xi2) + |A|(xi1))` of `x-flag_i · y-flag_j · ∫_{xi1}^{xi2} D^1 u_i · D^2 u_j`, where `|A|`
is the antiderivative of the product with coefficients and argument replaced by their moduli. -/
theorem sub_fxifxixi_integral (i j : Nat) (hi : i < 30) (hj : j < 30) (env : Nat → ℝ) :
    |(entry Gen.SubFxifxixiAll.rows i j).eval env
        - flagX env i * flagY env j * ∫ x in (env 1)..(env 0), (dbasis 1 i).eval x * (dbasis 2 j).eval x|
      ≤ 1 / 10 ^ 13 * (|flagX env i * flagY env j| *
          (absAntiOf (env 0) (mulTerms (toTerms (dbasis 1 i).num) (toTerms (dbasis 2 j).num))
            + absAntiOf (env 1) (mulTerms (toTerms (dbasis 1 i).num) (toTerms (dbasis 2 j).num)))
          / (((dbasis 1 i).den : ℝ) * ((dbasis 2 j).den : ℝ))) :=
  sub_value_real hi hj (sub_fxifxixi_ok i j hi hj) env

/-- `integral_fxixifxixi_12(xi1, xi2, i, j, flags)` for all `i, j < 30`, all real `xi1 = env 1`, `xi2 = env 0` and flags is
within `10⁻¹³ · |flags| · (|A|(xi2) + |A|(xi1))` of `x-flag_i · y-flag_j · ∫_{xi1}^{xi2} D^2 u_i · D^2 u_j`, where `|A|`
is the antiderivative of the product with coefficients and argument replaced by their moduli. -/
theorem sub_fxixifxixi_integral (i j : Nat) (hi : i < 30) (hj : j < 30) (env : Nat → ℝ) :
    |(entry Gen.SubFxixifxixiAll.rows i j).eval env
        - flagX env i * flagY env j * ∫ x in (env 1)..(env 0), (dbasis 2 i).eval x * (dbasis 2 j).eval x|
      ≤ 1 / 10 ^ 13 * (|flagX env i * flagY env j| *
          (absAntiOf (env 0) (mulTerms (toTerms (dbasis 2 i).num) (toTerms (dbasis 2 j).num))
            + absAntiOf (env 1) (mulTerms (toTerms (dbasis 2 i).num) (toTerms (dbasis 2 j).num)))
          / (((dbasis 2 i).den : ℝ) * ((dbasis 2 j).den : ℝ))) :=
  sub_value_real hi hj (sub_fxixifxixi_ok i j hi hj) env

/-- PARTIAL (value level): `integral_ff_c0c1(c0, c1, i, j, flags)` is within `10⁻¹³·Σ|wanted coefficient|·|monomial|`
of the polynomial `mapWant` in `(c0, c1, flags)`.  `mapWant` is *defined* as the binomial expansion
`Σ_{a,t} (D^0 u_j)_{a+t}·C(a+t,t)·(∫_{-1}^{1} D^0 u_i(ξ)·ξ^t dξ)·c0^a·c1^t` times the flag monomial; that this
expansion equals `∫_{-1}^{1} D^0 u_i(ξ)·D^0 u_j(c0 + c1·ξ) dξ` is proved in `Bardell/MapLemmas.lean`
(`evalTerms_mapWant_real`), and the FULL statement against that integral is now `map_ff_integral` below; this
intermediate form (valid in every ordered field) is kept. -/
theorem map_ff_value_partial (i j : Nat) (hi : i < 30) (hj : j < 30) (env : Nat → K) :
    |(entry Gen.MapFfAll.rows i j).eval env * (((dbasis 0 i).den * (dbasis 0 j).den * intL : Nat) : K)
        - evalTerms env (mapWant (flagKey2 i j) (mus (dbasis 0 i).num) (dbasis 0 j).num)| * ((tolSubD : Nat) : K)
      ≤ ((tolSubN : Nat) : K) * absTerms env (mapWant (flagKey2 i j) (mus (dbasis 0 i).num) (dbasis 0 j).num) :=
  checkE_sound (map_ff_ok i j hi hj) env

/-- PARTIAL (value level): `integral_ffxi_c0c1(c0, c1, i, j, flags)` is within `10⁻¹³·Σ|wanted coefficient|·|monomial|`
of the polynomial `mapWant` in `(c0, c1, flags)`.  `mapWant` is *defined* as the binomial expansion
`Σ_{a,t} (D^1 u_j)_{a+t}·C(a+t,t)·(∫_{-1}^{1} D^0 u_i(ξ)·ξ^t dξ)·c0^a·c1^t` times the flag monomial; that this
expansion equals `∫_{-1}^{1} D^0 u_i(ξ)·D^1 u_j(c0 + c1·ξ) dξ` is proved in `Bardell/MapLemmas.lean`
(`evalTerms_mapWant_real`), and the FULL statement against that integral is now `map_ffxi_integral` below; this
intermediate form (valid in every ordered field) is kept. -/
theorem map_ffxi_value_partial (i j : Nat) (hi : i < 30) (hj : j < 30) (env : Nat → K) :
    |(entry Gen.MapFfxiAll.rows i j).eval env * (((dbasis 0 i).den * (dbasis 1 j).den * intL : Nat) : K)
        - evalTerms env (mapWant (flagKey2 i j) (mus (dbasis 0 i).num) (dbasis 1 j).num)| * ((tolSubD : Nat) : K)
      ≤ ((tolSubN : Nat) : K) * absTerms env (mapWant (flagKey2 i j) (mus (dbasis 0 i).num) (dbasis 1 j).num) :=
  checkE_sound (map_ffxi_ok i j hi hj) env

/-- PARTIAL (value level): `integral_fxif_c0c1(c0, c1, i, j, flags)` is within `10⁻¹³·Σ|wanted coefficient|·|monomial|`
of the polynomial `mapWant` in `(c0, c1, flags)`.  `mapWant` is *defined* as the binomial expansion
`Σ_{a,t} (D^0 u_j)_{a+t}·C(a+t,t)·(∫_{-1}^{1} D^1 u_i(ξ)·ξ^t dξ)·c0^a·c1^t` times the flag monomial; that this
expansion equals `∫_{-1}^{1} D^1 u_i(ξ)·D^0 u_j(c0 + c1·ξ) dξ` is proved in `Bardell/MapLemmas.lean`
(`evalTerms_mapWant_real`), and the FULL statement against that integral is now `map_fxif_integral` below; this
intermediate form (valid in every ordered field) is kept. -/
theorem map_fxif_value_partial (i j : Nat) (hi : i < 30) (hj : j < 30) (env : Nat → K) :
    |(entry Gen.MapFxifAll.rows i j).eval env * (((dbasis 1 i).den * (dbasis 0 j).den * intL : Nat) : K)
        - evalTerms env (mapWant (flagKey2 i j) (mus (dbasis 1 i).num) (dbasis 0 j).num)| * ((tolSubD : Nat) : K)
      ≤ ((tolSubN : Nat) : K) * absTerms env (mapWant (flagKey2 i j) (mus (dbasis 1 i).num) (dbasis 0 j).num) :=
  checkE_sound (map_fxif_ok i j hi hj) env

/-- PARTIAL (value level): `integral_fxifxi_c0c1(c0, c1, i, j, flags)` is within `10⁻¹³·Σ|wanted coefficient|·|monomial|`
of the polynomial `mapWant` in `(c0, c1, flags)`.  `mapWant` is *defined* as the binomial expansion
`Σ_{a,t} (D^1 u_j)_{a+t}·C(a+t,t)·(∫_{-1}^{1} D^1 u_i(ξ)·ξ^t dξ)·c0^a·c1^t` times the flag monomial; that this
expansion equals `∫_{-1}^{1} D^1 u_i(ξ)·D^1 u_j(c0 + c1·ξ) dξ` is proved in `Bardell/MapLemmas.lean`
(`evalTerms_mapWant_real`), and the FULL statement against that integral is now `map_fxifxi_integral` below; this
intermediate form (valid in every ordered field) is kept. -/
theorem map_fxifxi_value_partial (i j : Nat) (hi : i < 30) (hj : j < 30) (env : Nat → K) :
    |(entry Gen.MapFxifxiAll.rows i j).eval env * (((dbasis 1 i).den * (dbasis 1 j).den * intL : Nat) : K)
        - evalTerms env (mapWant (flagKey2 i j) (mus (dbasis 1 i).num) (dbasis 1 j).num)| * ((tolSubD : Nat) : K)
      ≤ ((tolSubN : Nat) : K) * absTerms env (mapWant (flagKey2 i j) (mus (dbasis 1 i).num) (dbasis 1 j).num) :=
  checkE_sound (map_fxifxi_ok i j hi hj) env

/-- PARTIAL (value level): `integral_fxixifxixi_c0c1(c0, c1, i, j, flags)` is within `10⁻¹³·Σ|wanted coefficient|·|monomial|`
of the polynomial `mapWant` in `(c0, c1, flags)`.  `mapWant` is *defined* as the binomial expansion
`Σ_{a,t} (D^2 u_j)_{a+t}·C(a+t,t)·(∫_{-1}^{1} D^2 u_i(ξ)·ξ^t dξ)·c0^a·c1^t` times the flag monomial; that this
expansion equals `∫_{-1}^{1} D^2 u_i(ξ)·D^2 u_j(c0 + c1·ξ) dξ` is proved in `Bardell/MapLemmas.lean`
(`evalTerms_mapWant_real`), and the FULL statement against that integral is now `map_fxixifxixi_integral` below; this
intermediate form (valid in every ordered field) is kept. -/
theorem map_fxixifxixi_value_partial (i j : Nat) (hi : i < 30) (hj : j < 30) (env : Nat → K) :
    |(entry Gen.MapFxixifxixiAll.rows i j).eval env * (((dbasis 2 i).den * (dbasis 2 j).den * intL : Nat) : K)
        - evalTerms env (mapWant (flagKey2 i j) (mus (dbasis 2 i).num) (dbasis 2 j).num)| * ((tolSubD : Nat) : K)
      ≤ ((tolSubN : Nat) : K) * absTerms env (mapWant (flagKey2 i j) (mus (dbasis 2 i).num) (dbasis 2 j).num) :=
  checkE_sound (map_fxixifxixi_ok i j hi hj) env

/-- `integral_ff_c0c1(c0, c1, i, j, flags)` for all `i, j < 30`, all real `c0 = env 1`, `c1 = env 0` and flags is
within `10⁻¹³ · |flags| · absMapOf c0 c1 p q / (dp·dq)` of
`x-flag_i · y-flag_j · ∫_{-1}^{1} D^0 u_i(ξ) · D^0 u_j(c0 + c1·ξ) dξ`, where `p/dp = D^0 u_i`, `q/dq = D^0 u_j` (integer numerators
over the explicit denominators) and `absMapOf c0 c1 p q = Σ_m |q_m| · Σ_{k≤m} |c0|^k · |c1|^(m−k) · C(m,k) · |∫_{-1}^{1} p(ξ)·ξ^(m−k) dξ|`
is the binomial expansion of the integral with every term replaced by its modulus. -/
theorem map_ff_integral (i j : Nat) (hi : i < 30) (hj : j < 30) (env : Nat → ℝ) :
    |(entry Gen.MapFfAll.rows i j).eval env
        - flagX env i * flagY env j *
          ∫ x in (-1 : ℝ)..1, (dbasis 0 i).eval x * (dbasis 0 j).eval (env 1 + env 0 * x)|
      ≤ 1 / 10 ^ 13 * (|flagX env i * flagY env j| * absMapOf (env 1) (env 0) (dbasis 0 i).num (dbasis 0 j).num
          / (((dbasis 0 i).den : ℝ) * ((dbasis 0 j).den : ℝ))) :=
  map_value_real hi hj (map_ff_ok i j hi hj) env

/-- `integral_ffxi_c0c1(c0, c1, i, j, flags)` for all `i, j < 30`, all real `c0 = env 1`, `c1 = env 0` and flags is
within `10⁻¹³ · |flags| · absMapOf c0 c1 p q / (dp·dq)` of
`x-flag_i · y-flag_j · ∫_{-1}^{1} D^0 u_i(ξ) · D^1 u_j(c0 + c1·ξ) dξ`, where `p/dp = D^0 u_i`, `q/dq = D^1 u_j` (integer numerators
over the explicit denominators) and `absMapOf c0 c1 p q = Σ_m |q_m| · Σ_{k≤m} |c0|^k · |c1|^(m−k) · C(m,k) · |∫_{-1}^{1} p(ξ)·ξ^(m−k) dξ|`
is the binomial expansion of the integral with every term replaced by its modulus. -/
theorem map_ffxi_integral (i j : Nat) (hi : i < 30) (hj : j < 30) (env : Nat → ℝ) :
    |(entry Gen.MapFfxiAll.rows i j).eval env
        - flagX env i * flagY env j *
          ∫ x in (-1 : ℝ)..1, (dbasis 0 i).eval x * (dbasis 1 j).eval (env 1 + env 0 * x)|
      ≤ 1 / 10 ^ 13 * (|flagX env i * flagY env j| * absMapOf (env 1) (env 0) (dbasis 0 i).num (dbasis 1 j).num
          / (((dbasis 0 i).den : ℝ) * ((dbasis 1 j).den : ℝ))) :=
  map_value_real hi hj (map_ffxi_ok i j hi hj) env

/-- `integral_fxif_c0c1(c0, c1, i, j, flags)` for all `i, j < 30`, all real `c0 = env 1`, `c1 = env 0` and flags is
within `10⁻¹³ · |flags| · absMapOf c0 c1 p q / (dp·dq)` of
`x-flag_i · y-flag_j · ∫_{-1}^{1} D^1 u_i(ξ) · D^0 u_j(c0 + c1·ξ) dξ`, where `p/dp = D^1 u_i`, `q/dq = D^0 u_j` (integer numerators
over the explicit denominators) and `absMapOf c0 c1 p q = Σ_m |q_m| · Σ_{k≤m} |c0|^k · |c1|^(m−k) · C(m,k) · |∫_{-1}^{1} p(ξ)·ξ^(m−k) dξ|`
is the binomial expansion of the integral with every term replaced by its modulus. -/
theorem map_fxif_integral (i j : Nat) (hi : i < 30) (hj : j < 30) (env : Nat → ℝ) :
    |(entry Gen.MapFxifAll.rows i j).eval env
        - flagX env i * flagY env j *
          ∫ x in (-1 : ℝ)..1, (dbasis 1 i).eval x * (dbasis 0 j).eval (env 1 + env 0 * x)|
      ≤ 1 / 10 ^ 13 * (|flagX env i * flagY env j| * absMapOf (env 1) (env 0) (dbasis 1 i).num (dbasis 0 j).num
          / (((dbasis 1 i).den : ℝ) * ((dbasis 0 j).den : ℝ))) :=
  map_value_real hi hj (map_fxif_ok i j hi hj) env

/-- `integral_fxifxi_c0c1(c0, c1, i, j, flags)` for all `i, j < 30`, all real `c0 = env 1`, `c1 = env 0` and flags is
within `10⁻¹³ · |flags| · absMapOf c0 c1 p q / (dp·dq)` of
`x-flag_i · y-flag_j · ∫_{-1}^{1} D^1 u_i(ξ) · D^1 u_j(c0 + c1·ξ) dξ`, where `p/dp = D^1 u_i`, `q/dq = D^1 u_j` (integer numerators
over the explicit denominators) and `absMapOf c0 c1 p q = Σ_m |q_m| · Σ_{k≤m} |c0|^k · |c1|^(m−k) · C(m,k) · |∫_{-1}^{1} p(ξ)·ξ^(m−k) dξ|`
is the binomial expansion of the integral with every term replaced by its modulus. -/
theorem map_fxifxi_integral (i j : Nat) (hi : i < 30) (hj : j < 30) (env : Nat → ℝ) :
    |(entry Gen.MapFxifxiAll.rows i j).eval env
        - flagX env i * flagY env j *
          ∫ x in (-1 : ℝ)..1, (dbasis 1 i).eval x * (dbasis 1 j).eval (env 1 + env 0 * x)|
      ≤ 1 / 10 ^ 13 * (|flagX env i * flagY env j| * absMapOf (env 1) (env 0) (dbasis 1 i).num (dbasis 1 j).num
          / (((dbasis 1 i).den : ℝ) * ((dbasis 1 j).den : ℝ))) :=
  map_value_real hi hj (map_fxifxi_ok i j hi hj) env

/-- `integral_fxixifxixi_c0c1(c0, c1, i, j, flags)` for all `i, j < 30`, all real `c0 = env 1`, `c1 = env 0` and flags is
within `10⁻¹³ · |flags| · absMapOf c0 c1 p q / (dp·dq)` of
`x-flag_i · y-flag_j · ∫_{-1}^{1} D^2 u_i(ξ) · D^2 u_j(c0 + c1·ξ) dξ`, where `p/dp = D^2 u_i`, `q/dq = D^2 u_j` (integer numerators
over the explicit denominators) and `absMapOf c0 c1 p q = Σ_m |q_m| · Σ_{k≤m} |c0|^k · |c1|^(m−k) · C(m,k) · |∫_{-1}^{1} p(ξ)·ξ^(m−k) dξ|`
is the binomial expansion of the integral with every term replaced by its modulus. -/
theorem map_fxixifxixi_integral (i j : Nat) (hi : i < 30) (hj : j < 30) (env : Nat → ℝ) :
    |(entry Gen.MapFxixifxixiAll.rows i j).eval env
        - flagX env i * flagY env j *
          ∫ x in (-1 : ℝ)..1, (dbasis 2 i).eval x * (dbasis 2 j).eval (env 1 + env 0 * x)|
      ≤ 1 / 10 ^ 13 * (|flagX env i * flagY env j| * absMapOf (env 1) (env 0) (dbasis 2 i).num (dbasis 2 j).num
          / (((dbasis 2 i).den : ℝ) * ((dbasis 2 j).den : ℝ))) :=
  map_value_real hi hj (map_fxixifxixi_ok i j hi hj) env

end lifted

/-! ## Trapezoid and Simpson point sets (`integrate.pyx`, hand model `Model/Integrate.lean`)

For **all** grid sizes (induction in `Model/IntegrateLemmas.lean`), in every field of characteristic 0.
`quad pts f = Σ alphas·betas·f(xs2, ys2)`; `sumTo n g = Σ_{i<n} g i`. -/

section integrate
open Compmech.Integrate
variable {F : Type} [Field F] [CharZero F]

/-- `trapz_quad(nx)`, `nx ≥ 2`: `Σ weights[i]·(a + b·xis[i]) = 2a = ∫_{-1}^{1} (a + bξ) dξ` — exact for linear
integrands, weights summing to the length `2` of the reference interval (`a = 1, b = 0`). -/
theorem trapz_exact_linear (nx : Nat) (hnx : 2 ≤ nx) (a b : F) :
    sumTo nx (fun i => trapzW nx i * (a + b * trapzXi nx i)) = 2 * a :=
  trapz_quad_exact_linear nx hnx a b

/-- `trapz2d_points`, `nx, ny ≥ 2`: exact for every bilinear integrand `a + bx + cy + dxy` on the rectangle -/
theorem trapz2d_exact_linear (xmin xmax : F) (nx : Nat) (ymin ymax : F) (ny : Nat) (hnx : 2 ≤ nx) (hny : 2 ≤ ny)
    (a b c d : F) :
    quad (trapz2dPoints xmin xmax nx ymin ymax ny) (fun x y => a + b * x + c * y + d * x * y) =
      (xmax - xmin) * (ymax - ymin) *
        (a + b * ((xmin + xmax) / 2) + c * ((ymin + ymax) / 2) + d * ((xmin + xmax) / 2) * ((ymin + ymax) / 2)) :=
  trapz2d_exact_bilinear xmin xmax nx ymin ymax ny hnx hny a b c d

/-- `trapz2d_points`: the weights `alphas·betas` sum to the domain area -/
theorem trapz2d_weights_sum_area (xmin xmax : F) (nx : Nat) (ymin ymax : F) (ny : Nat) (hnx : 2 ≤ nx) (hny : 2 ≤ ny) :
    quad (trapz2dPoints xmin xmax nx ymin ymax ny) (fun _ _ => 1) = (xmax - xmin) * (ymax - ymin) :=
  Integrate.trapz2d_weights_sum_area xmin xmax nx ymin ymax ny hnx hny

/-- `simps2d_points`: the corner / edge / interior enumeration of the code is the tensor product of two composite
Simpson rules `simpS` (for any product integrand) -/
theorem simps2d_is_tensor_rule (xmin xmax : F) (nx0 : Nat) (ymin ymax : F) (ny0 : Nat) (p q : F → F) :
    quad (simps2dPoints xmin xmax nx0 ymin ymax ny0) (fun x y => p x * q y) =
      (1 / 9 * ((xmax - xmin) / (2 * (halfUp nx0 : F))) * ((ymax - ymin) / (2 * (halfUp ny0 : F)))) *
        simpS (halfUp nx0) (fun i => p (linspace xmin xmax (halfUp nx0) i)) *
        simpS (halfUp ny0) (fun j => q (linspace ymin ymax (halfUp ny0) j)) :=
  simps2d_eq_tensor xmin xmax nx0 ymin ymax ny0 p q

/-- `simps2d_points`, any requested `nx0, ny0 ≥ 1` (odd counts are bumped to even): exact for `p(x)·q(y)` with cubic
`p, q`, the right-hand side being the product of the exact 1-D integrals (`quartic` = antiderivative of `cubic`);
by linearity of `quad` (`quad_add`, `quad_smul`) hence for every bicubic polynomial. -/
theorem simps2d_exact_cubic (xmin xmax : F) (nx0 : Nat) (ymin ymax : F) (ny0 : Nat) (hnx : 1 ≤ nx0) (hny : 1 ≤ ny0)
    (a0 a1 a2 a3 b0 b1 b2 b3 : F) :
    quad (simps2dPoints xmin xmax nx0 ymin ymax ny0) (fun x y => cubic a0 a1 a2 a3 x * cubic b0 b1 b2 b3 y) =
      (quartic a0 a1 a2 a3 xmax - quartic a0 a1 a2 a3 xmin) * (quartic b0 b1 b2 b3 ymax - quartic b0 b1 b2 b3 ymin) :=
  Integrate.simps2d_exact_cubic xmin xmax nx0 ymin ymax ny0 hnx hny a0 a1 a2 a3 b0 b1 b2 b3

/-- `simps2d_points`: the weights sum to the domain area -/
theorem simps2d_weights_sum_area (xmin xmax : F) (nx0 : Nat) (ymin ymax : F) (ny0 : Nat) (hnx : 1 ≤ nx0) (hny : 1 ≤ ny0) :
    quad (simps2dPoints xmin xmax nx0 ymin ymax ny0) (fun _ _ => 1) = (xmax - xmin) * (ymax - ymin) :=
  Integrate.simps2d_weights_sum_area xmin xmax nx0 ymin ymax ny0 hnx hny

/-- the quadrature sum is linear in the integrand -/
theorem quad_linear (pts : List (Pt F)) (c : F) (f g : F → F → F) :
    quad pts (fun x y => c * f x y + g x y) = c * quad pts f + quad pts g := by
  rw [quad_add pts (fun x y => c * f x y) g, quad_smul]

end integrate

/-! ## Non-vacuity -/

/-- the exact side is not trivial: `∫_{-1}^{1} u₀²  = 26/35` -/
example : jnum (dbasis 0 0).num (dbasis 0 0).num * 35 = 26 * ((dbasis 0 0).den * (dbasis 0 0).den * intL : Nat) := by
  decide +kernel

/-- the checker rejects a wrong table entry: `integral_ff(0,0)` with its literal replaced by `0.75` -/
example : checkE tolFuncN tolFuncD (.prod [.lit 75 2, .var 2, .var 6])
    (fullWant (flagKey2 0 0) (dbasis 0 0).num (dbasis 0 0).num) ((dbasis 0 0).den * (dbasis 0 0).den * intL) = false := by
  decide +kernel

/-- …and accepts the real one, `0.742857142857143*x1t*y1t` -/
example : checkE tolFuncN tolFuncD (.prod [.lit 742857142857143 15, .var 2, .var 6])
    (fullWant (flagKey2 0 0) (dbasis 0 0).num (dbasis 0 0).num) ((dbasis 0 0).den * (dbasis 0 0).den * intL) = true := by
  decide +kernel

/-- the checker rejects a wrong flag (`y2t` instead of `y1t`) -/
example : checkE tolFuncN tolFuncD (.prod [.lit 742857142857143 15, .var 2, .var 8])
    (fullWant (flagKey2 0 0) (dbasis 0 0).num (dbasis 0 0).num) ((dbasis 0 0).den * (dbasis 0 0).den * intL) = false := by
  decide +kernel

/-- the mapped-argument theorem at a concrete pair, flags resolved (`u₀` carries the flag `x1t = env 2`, `u₄` none):
`integral_ff_c0c1(c0, c1, 0, 4, …)` against `x1t · ∫_{-1}^{1} u₀(ξ)·u₄(c0 + c1·ξ) dξ` -/
example (env : Nat → ℝ) :
    |(entry Gen.MapFfAll.rows 0 4).eval env
        - env 2 * ∫ x in (-1 : ℝ)..1, (dbasis 0 0).eval x * (dbasis 0 4).eval (env 1 + env 0 * x)|
      ≤ 1 / 10 ^ 13 * (|env 2| * absMapOf (env 1) (env 0) (dbasis 0 0).num (dbasis 0 4).num
          / (((dbasis 0 0).den : ℝ) * ((dbasis 0 4).den : ℝ))) := by
  simpa [flagX, flagY] using map_ff_integral 0 4 (by norm_num) (by norm_num) env

/-- the exact side of the mapped-argument tables is not trivial: `∫_{-1}^{1} u₀ = 1`, `∫_{-1}^{1} u₀·ξ = −2/5`
(`(mus p)[t] = intL·∫ p·ξ^t` with `p = 8·u₀`), and `diags[4][3] = C(7,3) = 35` -/
example : (mus (dbasis 0 0).num).getD 0 0 = 8 * (intL : Int) ∧ (mus (dbasis 0 0).num).getD 1 0 * 5 = -(16 * (intL : Int))
    ∧ (diags.getD 4 []).getD 3 0 = 35 := by
  decide +kernel

end Compmech.C10.Props
