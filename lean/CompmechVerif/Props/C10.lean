/-
C10 — Bardell functions, integral tables, quadrature tables.  ONLY property theorems here.

Data  : `Gen/CTables/*.lean`, regenerated from /repo/compmech/lib/src/*.c on every run (translator T).
Exact : `Bardell/Basis.lean` (closed formula), `Bardell/Exact.lean` (exact integrals, fraction-free).
Checks: `Bardell/Check.lean`, `Bardell/Gauss.lean`; every check is decided by the kernel
        (`decide +kernel`) in the generated `Gen/CTables/*Check.lean` modules, one theorem per table row.
Tolerances (relative, per coefficient; fixed, calibrated on the unchanged tables — see `Bardell/Check.lean`,
`Bardell/Gauss.lean`): function and full-interval tables 5·10⁻¹⁵, `_12` and `_c0c1` tables 10⁻¹³,
Gauss moments 2·10⁻¹⁵ (binary64 reading) and 4·10⁻⁵³ (decimal reading).

`checkE tn td e want den = true` means: the normal form of the C expression `e` has exactly the monomials
of `want` (exact zero pattern, exact flag monomial) and each coefficient `c/10^s` satisfies
`|c/10^s − w/den| ≤ tn/td·|w/den|`.  Its meaning for *values* is `CExprLemmas.checkE_sound` (lifted
theorems at the end of this file).
-/
import CompmechVerif.Bardell.CheckLemmas
import CompmechVerif.Gen.CTables.FuncCheck
import CompmechVerif.Gen.CTables.FullFfCheck
import CompmechVerif.Gen.CTables.FullFfxiCheck
import CompmechVerif.Gen.CTables.FullFfxixiCheck
import CompmechVerif.Gen.CTables.FullFxifxiCheck
import CompmechVerif.Gen.CTables.FullFxifxixiCheck
import CompmechVerif.Gen.CTables.FullFxixifxixiCheck
import CompmechVerif.Gen.CTables.SubFfAll
import CompmechVerif.Gen.CTables.SubFfxiAll
import CompmechVerif.Gen.CTables.SubFfxixiAll
import CompmechVerif.Gen.CTables.SubFxifxiAll
import CompmechVerif.Gen.CTables.SubFxifxixiAll
import CompmechVerif.Gen.CTables.SubFxixifxixiAll
import CompmechVerif.Gen.CTables.MapFfAll
import CompmechVerif.Gen.CTables.MapFfxiAll
import CompmechVerif.Gen.CTables.MapFxifAll
import CompmechVerif.Gen.CTables.MapFxifxiAll
import CompmechVerif.Gen.CTables.MapFxixifxixiAll
import CompmechVerif.Gen.CTables.LegGaussAll

namespace Compmech.C10.Props
open Compmech.C10

/-! ## Function tables (`bardell_functions.c`) -/

/-- `calc_f`: for every `i < 30` the C expression has exactly the monomials of `flag_i · D^0 u_i(ξ)` (flag only
for `i < 4`) with every coefficient within 5·10⁻¹⁵ (relative) of the exact one. -/
theorem func_calc_f_ok (i : Nat) (hi : i < 30) :
    checkE tolFuncN tolFuncD (entry1 Gen.Func.calc_f i) (funcWant 0 i).1 (funcWant 0 i).2 = true := by
  have h := checkRow_entry1 Gen.Func.calc_f_ok (i := i) (by rw [funcWantRow_length]; exact hi)
  rwa [funcWantRow_get] at h

/-- `calc_fxi`: for every `i < 30` the C expression has exactly the monomials of `flag_i · D^1 u_i(ξ)` (flag only
for `i < 4`) with every coefficient within 5·10⁻¹⁵ (relative) of the exact one. -/
theorem func_calc_fxi_ok (i : Nat) (hi : i < 30) :
    checkE tolFuncN tolFuncD (entry1 Gen.Func.calc_fxi i) (funcWant 1 i).1 (funcWant 1 i).2 = true := by
  have h := checkRow_entry1 Gen.Func.calc_fxi_ok (i := i) (by rw [funcWantRow_length]; exact hi)
  rwa [funcWantRow_get] at h

/-- `calc_fxixi`: for every `i < 30` the C expression has exactly the monomials of `flag_i · D^2 u_i(ξ)` (flag only
for `i < 4`) with every coefficient within 5·10⁻¹⁵ (relative) of the exact one. -/
theorem func_calc_fxixi_ok (i : Nat) (hi : i < 30) :
    checkE tolFuncN tolFuncD (entry1 Gen.Func.calc_fxixi i) (funcWant 2 i).1 (funcWant 2 i).2 = true := by
  have h := checkRow_entry1 Gen.Func.calc_fxixi_ok (i := i) (by rw [funcWantRow_length]; exact hi)
  rwa [funcWantRow_get] at h

/-- `calc_vec_f`: for every `i < 30` the C expression has exactly the monomials of `flag_i · D^0 u_i(ξ)` (flag only
for `i < 4`) with every coefficient within 5·10⁻¹⁵ (relative) of the exact one. -/
theorem func_calc_vec_f_ok (i : Nat) (hi : i < 30) :
    checkE tolFuncN tolFuncD (entry1 Gen.Func.calc_vec_f i) (funcWant 0 i).1 (funcWant 0 i).2 = true := by
  have h := checkRow_entry1 Gen.Func.calc_vec_f_ok (i := i) (by rw [funcWantRow_length]; exact hi)
  rwa [funcWantRow_get] at h

/-- `calc_vec_fxi`: for every `i < 30` the C expression has exactly the monomials of `flag_i · D^1 u_i(ξ)` (flag only
for `i < 4`) with every coefficient within 5·10⁻¹⁵ (relative) of the exact one. -/
theorem func_calc_vec_fxi_ok (i : Nat) (hi : i < 30) :
    checkE tolFuncN tolFuncD (entry1 Gen.Func.calc_vec_fxi i) (funcWant 1 i).1 (funcWant 1 i).2 = true := by
  have h := checkRow_entry1 Gen.Func.calc_vec_fxi_ok (i := i) (by rw [funcWantRow_length]; exact hi)
  rwa [funcWantRow_get] at h

/-- `calc_vec_fxixi`: for every `i < 30` the C expression has exactly the monomials of `flag_i · D^2 u_i(ξ)` (flag only
for `i < 4`) with every coefficient within 5·10⁻¹⁵ (relative) of the exact one. -/
theorem func_calc_vec_fxixi_ok (i : Nat) (hi : i < 30) :
    checkE tolFuncN tolFuncD (entry1 Gen.Func.calc_vec_fxixi i) (funcWant 2 i).1 (funcWant 2 i).2 = true := by
  have h := checkRow_entry1 Gen.Func.calc_vec_fxixi_ok (i := i) (by rw [funcWantRow_length]; exact hi)
  rwa [funcWantRow_get] at h

/-! ## Full-interval tables (`bardell.c`) -/

/-- `integral_ff(i, j, flags)`: for all `i, j < 30` the entry is the single monomial `x-flag_i · y-flag_j`
(flags only for indices `< 4`) times a constant within 5·10⁻¹⁵ (relative) of `∫_{-1}^{1} D^0 u_i · D^0 u_j`,
and it is exactly `0` (no monomial at all) where that integral vanishes. -/
theorem full_ff_ok (i j : Nat) (hi : i < 30) (hj : j < 30) :
    checkE tolFuncN tolFuncD (entry Gen.FullFf.rows i j)
      (fullWant (flagKey2 i j) (dbasis 0 i).num (dbasis 0 j).num)
      ((dbasis 0 i).den * (dbasis 0 j).den * intL) = true := by
  have h := checkRows_entry Gen.FullFf.ok (i := i) (j := j) (by rw [Gen.FullFf.rows_length]; exact hi)
    (by rw [fullWantRow_length]; exact hj)
  rwa [fullWantRow_get] at h

/-- `integral_ffxi(i, j, flags)`: for all `i, j < 30` the entry is the single monomial `x-flag_i · y-flag_j`
(flags only for indices `< 4`) times a constant within 5·10⁻¹⁵ (relative) of `∫_{-1}^{1} D^0 u_i · D^1 u_j`,
and it is exactly `0` (no monomial at all) where that integral vanishes. -/
theorem full_ffxi_ok (i j : Nat) (hi : i < 30) (hj : j < 30) :
    checkE tolFuncN tolFuncD (entry Gen.FullFfxi.rows i j)
      (fullWant (flagKey2 i j) (dbasis 0 i).num (dbasis 1 j).num)
      ((dbasis 0 i).den * (dbasis 1 j).den * intL) = true := by
  have h := checkRows_entry Gen.FullFfxi.ok (i := i) (j := j) (by rw [Gen.FullFfxi.rows_length]; exact hi)
    (by rw [fullWantRow_length]; exact hj)
  rwa [fullWantRow_get] at h

/-- `integral_ffxixi(i, j, flags)`: for all `i, j < 30` the entry is the single monomial `x-flag_i · y-flag_j`
(flags only for indices `< 4`) times a constant within 5·10⁻¹⁵ (relative) of `∫_{-1}^{1} D^0 u_i · D^2 u_j`,
and it is exactly `0` (no monomial at all) where that integral vanishes. -/
theorem full_ffxixi_ok (i j : Nat) (hi : i < 30) (hj : j < 30) :
    checkE tolFuncN tolFuncD (entry Gen.FullFfxixi.rows i j)
      (fullWant (flagKey2 i j) (dbasis 0 i).num (dbasis 2 j).num)
      ((dbasis 0 i).den * (dbasis 2 j).den * intL) = true := by
  have h := checkRows_entry Gen.FullFfxixi.ok (i := i) (j := j) (by rw [Gen.FullFfxixi.rows_length]; exact hi)
    (by rw [fullWantRow_length]; exact hj)
  rwa [fullWantRow_get] at h

/-- `integral_fxifxi(i, j, flags)`: for all `i, j < 30` the entry is the single monomial `x-flag_i · y-flag_j`
(flags only for indices `< 4`) times a constant within 5·10⁻¹⁵ (relative) of `∫_{-1}^{1} D^1 u_i · D^1 u_j`,
and it is exactly `0` (no monomial at all) where that integral vanishes. -/
theorem full_fxifxi_ok (i j : Nat) (hi : i < 30) (hj : j < 30) :
    checkE tolFuncN tolFuncD (entry Gen.FullFxifxi.rows i j)
      (fullWant (flagKey2 i j) (dbasis 1 i).num (dbasis 1 j).num)
      ((dbasis 1 i).den * (dbasis 1 j).den * intL) = true := by
  have h := checkRows_entry Gen.FullFxifxi.ok (i := i) (j := j) (by rw [Gen.FullFxifxi.rows_length]; exact hi)
    (by rw [fullWantRow_length]; exact hj)
  rwa [fullWantRow_get] at h

/-- `integral_fxifxixi(i, j, flags)`: for all `i, j < 30` the entry is the single monomial `x-flag_i · y-flag_j`
(flags only for indices `< 4`) times a constant within 5·10⁻¹⁵ (relative) of `∫_{-1}^{1} D^1 u_i · D^2 u_j`,
and it is exactly `0` (no monomial at all) where that integral vanishes. -/
theorem full_fxifxixi_ok (i j : Nat) (hi : i < 30) (hj : j < 30) :
    checkE tolFuncN tolFuncD (entry Gen.FullFxifxixi.rows i j)
      (fullWant (flagKey2 i j) (dbasis 1 i).num (dbasis 2 j).num)
      ((dbasis 1 i).den * (dbasis 2 j).den * intL) = true := by
  have h := checkRows_entry Gen.FullFxifxixi.ok (i := i) (j := j) (by rw [Gen.FullFxifxixi.rows_length]; exact hi)
    (by rw [fullWantRow_length]; exact hj)
  rwa [fullWantRow_get] at h

/-- `integral_fxixifxixi(i, j, flags)`: for all `i, j < 30` the entry is the single monomial `x-flag_i · y-flag_j`
(flags only for indices `< 4`) times a constant within 5·10⁻¹⁵ (relative) of `∫_{-1}^{1} D^2 u_i · D^2 u_j`,
and it is exactly `0` (no monomial at all) where that integral vanishes. -/
theorem full_fxixifxixi_ok (i j : Nat) (hi : i < 30) (hj : j < 30) :
    checkE tolFuncN tolFuncD (entry Gen.FullFxixifxixi.rows i j)
      (fullWant (flagKey2 i j) (dbasis 2 i).num (dbasis 2 j).num)
      ((dbasis 2 i).den * (dbasis 2 j).den * intL) = true := by
  have h := checkRows_entry Gen.FullFxixifxixi.ok (i := i) (j := j) (by rw [Gen.FullFxixifxixi.rows_length]; exact hi)
    (by rw [fullWantRow_length]; exact hj)
  rwa [fullWantRow_get] at h

/-! ## Sub-interval tables (`bardell_integral_*_12.c`) -/

/-- `integral_ff_12(xi1, xi2, i, j, flags)`: for all `i, j < 30` the entry, normalised to a polynomial in
`(xi1, xi2, flags)`, has exactly the monomials of `flag_i·flag_j·(A(xi2) − A(xi1))`, `A` the antiderivative of
`D^0 u_i · D^0 u_j`, each coefficient within 10⁻¹³ (relative). -/
theorem sub_ff_ok (i j : Nat) (hi : i < 30) (hj : j < 30) :
    checkE tolSubN tolSubD (entry Gen.SubFfAll.rows i j)
      (subWant (flagKey2 i j) (toTerms (dbasis 0 i).num) (toTerms (dbasis 0 j).num))
      ((dbasis 0 i).den * (dbasis 0 j).den * intL) = true := by
  have h := checkRows_entry Gen.SubFfAll.ok (i := i) (j := j) (by rw [Gen.SubFfAll.rows_length]; exact hi)
    (by rw [subWantRow_length]; exact hj)
  rwa [subWantRow_get] at h

/-- `integral_ffxi_12(xi1, xi2, i, j, flags)`: for all `i, j < 30` the entry, normalised to a polynomial in
`(xi1, xi2, flags)`, has exactly the monomials of `flag_i·flag_j·(A(xi2) − A(xi1))`, `A` the antiderivative of
`D^0 u_i · D^1 u_j`, each coefficient within 10⁻¹³ (relative). -/
theorem sub_ffxi_ok (i j : Nat) (hi : i < 30) (hj : j < 30) :
    checkE tolSubN tolSubD (entry Gen.SubFfxiAll.rows i j)
      (subWant (flagKey2 i j) (toTerms (dbasis 0 i).num) (toTerms (dbasis 1 j).num))
      ((dbasis 0 i).den * (dbasis 1 j).den * intL) = true := by
  have h := checkRows_entry Gen.SubFfxiAll.ok (i := i) (j := j) (by rw [Gen.SubFfxiAll.rows_length]; exact hi)
    (by rw [subWantRow_length]; exact hj)
  rwa [subWantRow_get] at h

/-- `integral_ffxixi_12(xi1, xi2, i, j, flags)`: for all `i, j < 30` the entry, normalised to a polynomial in
`(xi1, xi2, flags)`, has exactly the monomials of `flag_i·flag_j·(A(xi2) − A(xi1))`, `A` the antiderivative of
`D^0 u_i · D^2 u_j`, each coefficient within 10⁻¹³ (relative). -/
theorem sub_ffxixi_ok (i j : Nat) (hi : i < 30) (hj : j < 30) :
    checkE tolSubN tolSubD (entry Gen.SubFfxixiAll.rows i j)
      (subWant (flagKey2 i j) (toTerms (dbasis 0 i).num) (toTerms (dbasis 2 j).num))
      ((dbasis 0 i).den * (dbasis 2 j).den * intL) = true := by
  have h := checkRows_entry Gen.SubFfxixiAll.ok (i := i) (j := j) (by rw [Gen.SubFfxixiAll.rows_length]; exact hi)
    (by rw [subWantRow_length]; exact hj)
  rwa [subWantRow_get] at h

/-- `integral_fxifxi_12(xi1, xi2, i, j, flags)`: for all `i, j < 30` the entry, normalised to a polynomial in
`(xi1, xi2, flags)`, has exactly the monomials of `flag_i·flag_j·(A(xi2) − A(xi1))`, `A` the antiderivative of
`D^1 u_i · D^1 u_j`, each coefficient within 10⁻¹³ (relative). -/
theorem sub_fxifxi_ok (i j : Nat) (hi : i < 30) (hj : j < 30) :
    checkE tolSubN tolSubD (entry Gen.SubFxifxiAll.rows i j)
      (subWant (flagKey2 i j) (toTerms (dbasis 1 i).num) (toTerms (dbasis 1 j).num))
      ((dbasis 1 i).den * (dbasis 1 j).den * intL) = true := by
  have h := checkRows_entry Gen.SubFxifxiAll.ok (i := i) (j := j) (by rw [Gen.SubFxifxiAll.rows_length]; exact hi)
    (by rw [subWantRow_length]; exact hj)
  rwa [subWantRow_get] at h

/-- `integral_fxifxixi_12(xi1, xi2, i, j, flags)`: for all `i, j < 30` the entry, normalised to a polynomial in
`(xi1, xi2, flags)`, has exactly the monomials of `flag_i·flag_j·(A(xi2) − A(xi1))`, `A` the antiderivative of
`D^1 u_i · D^2 u_j`, each coefficient within 10⁻¹³ (relative). -/
theorem sub_fxifxixi_ok (i j : Nat) (hi : i < 30) (hj : j < 30) :
    checkE tolSubN tolSubD (entry Gen.SubFxifxixiAll.rows i j)
      (subWant (flagKey2 i j) (toTerms (dbasis 1 i).num) (toTerms (dbasis 2 j).num))
      ((dbasis 1 i).den * (dbasis 2 j).den * intL) = true := by
  have h := checkRows_entry Gen.SubFxifxixiAll.ok (i := i) (j := j) (by rw [Gen.SubFxifxixiAll.rows_length]; exact hi)
    (by rw [subWantRow_length]; exact hj)
  rwa [subWantRow_get] at h

/-- `integral_fxixifxixi_12(xi1, xi2, i, j, flags)`: for all `i, j < 30` the entry, normalised to a polynomial in
`(xi1, xi2, flags)`, has exactly the monomials of `flag_i·flag_j·(A(xi2) − A(xi1))`, `A` the antiderivative of
`D^2 u_i · D^2 u_j`, each coefficient within 10⁻¹³ (relative). -/
theorem sub_fxixifxixi_ok (i j : Nat) (hi : i < 30) (hj : j < 30) :
    checkE tolSubN tolSubD (entry Gen.SubFxixifxixiAll.rows i j)
      (subWant (flagKey2 i j) (toTerms (dbasis 2 i).num) (toTerms (dbasis 2 j).num))
      ((dbasis 2 i).den * (dbasis 2 j).den * intL) = true := by
  have h := checkRows_entry Gen.SubFxixifxixiAll.ok (i := i) (j := j) (by rw [Gen.SubFxixifxixiAll.rows_length]; exact hi)
    (by rw [subWantRow_length]; exact hj)
  rwa [subWantRow_get] at h

/-! ## Mapped-argument tables (`bardell_integral_*_c0c1.c`) -/

/-- `integral_ff_c0c1(c0, c1, i, j, flags)`: for all `i, j < 30` the entry, normalised to a polynomial in
`(c0, c1, flags)`, has exactly the monomials of the binomial expansion of
`flag_i·flag_j·∫_{-1}^{1} D^0 u_i(ξ) · D^0 u_j(c0 + c1·ξ) dξ`, each coefficient within 10⁻¹³ (relative). -/
theorem map_ff_ok (i j : Nat) (hi : i < 30) (hj : j < 30) :
    checkE tolSubN tolSubD (entry Gen.MapFfAll.rows i j)
      (mapWant (flagKey2 i j) (mus (dbasis 0 i).num) (dbasis 0 j).num)
      ((dbasis 0 i).den * (dbasis 0 j).den * intL) = true := by
  have h := checkRows_entry Gen.MapFfAll.ok (i := i) (j := j) (by rw [Gen.MapFfAll.rows_length]; exact hi)
    (by rw [mapWantRow_length]; exact hj)
  rwa [mapWantRow_get] at h

/-- `integral_ffxi_c0c1(c0, c1, i, j, flags)`: for all `i, j < 30` the entry, normalised to a polynomial in
`(c0, c1, flags)`, has exactly the monomials of the binomial expansion of
`flag_i·flag_j·∫_{-1}^{1} D^0 u_i(ξ) · D^1 u_j(c0 + c1·ξ) dξ`, each coefficient within 10⁻¹³ (relative). -/
theorem map_ffxi_ok (i j : Nat) (hi : i < 30) (hj : j < 30) :
    checkE tolSubN tolSubD (entry Gen.MapFfxiAll.rows i j)
      (mapWant (flagKey2 i j) (mus (dbasis 0 i).num) (dbasis 1 j).num)
      ((dbasis 0 i).den * (dbasis 1 j).den * intL) = true := by
  have h := checkRows_entry Gen.MapFfxiAll.ok (i := i) (j := j) (by rw [Gen.MapFfxiAll.rows_length]; exact hi)
    (by rw [mapWantRow_length]; exact hj)
  rwa [mapWantRow_get] at h

/-- `integral_fxif_c0c1(c0, c1, i, j, flags)`: for all `i, j < 30` the entry, normalised to a polynomial in
`(c0, c1, flags)`, has exactly the monomials of the binomial expansion of
`flag_i·flag_j·∫_{-1}^{1} D^1 u_i(ξ) · D^0 u_j(c0 + c1·ξ) dξ`, each coefficient within 10⁻¹³ (relative). -/
theorem map_fxif_ok (i j : Nat) (hi : i < 30) (hj : j < 30) :
    checkE tolSubN tolSubD (entry Gen.MapFxifAll.rows i j)
      (mapWant (flagKey2 i j) (mus (dbasis 1 i).num) (dbasis 0 j).num)
      ((dbasis 1 i).den * (dbasis 0 j).den * intL) = true := by
  have h := checkRows_entry Gen.MapFxifAll.ok (i := i) (j := j) (by rw [Gen.MapFxifAll.rows_length]; exact hi)
    (by rw [mapWantRow_length]; exact hj)
  rwa [mapWantRow_get] at h

/-- `integral_fxifxi_c0c1(c0, c1, i, j, flags)`: for all `i, j < 30` the entry, normalised to a polynomial in
`(c0, c1, flags)`, has exactly the monomials of the binomial expansion of
`flag_i·flag_j·∫_{-1}^{1} D^1 u_i(ξ) · D^1 u_j(c0 + c1·ξ) dξ`, each coefficient within 10⁻¹³ (relative). -/
theorem map_fxifxi_ok (i j : Nat) (hi : i < 30) (hj : j < 30) :
    checkE tolSubN tolSubD (entry Gen.MapFxifxiAll.rows i j)
      (mapWant (flagKey2 i j) (mus (dbasis 1 i).num) (dbasis 1 j).num)
      ((dbasis 1 i).den * (dbasis 1 j).den * intL) = true := by
  have h := checkRows_entry Gen.MapFxifxiAll.ok (i := i) (j := j) (by rw [Gen.MapFxifxiAll.rows_length]; exact hi)
    (by rw [mapWantRow_length]; exact hj)
  rwa [mapWantRow_get] at h

/-- `integral_fxixifxixi_c0c1(c0, c1, i, j, flags)`: for all `i, j < 30` the entry, normalised to a polynomial in
`(c0, c1, flags)`, has exactly the monomials of the binomial expansion of
`flag_i·flag_j·∫_{-1}^{1} D^2 u_i(ξ) · D^2 u_j(c0 + c1·ξ) dξ`, each coefficient within 10⁻¹³ (relative). -/
theorem map_fxixifxixi_ok (i j : Nat) (hi : i < 30) (hj : j < 30) :
    checkE tolSubN tolSubD (entry Gen.MapFxixifxixiAll.rows i j)
      (mapWant (flagKey2 i j) (mus (dbasis 2 i).num) (dbasis 2 j).num)
      ((dbasis 2 i).den * (dbasis 2 j).den * intL) = true := by
  have h := checkRows_entry Gen.MapFxixifxixiAll.ok (i := i) (j := j) (by rw [Gen.MapFxixifxixiAll.rows_length]; exact hi)
    (by rw [mapWantRow_length]; exact hj)
  rwa [mapWantRow_get] at h

/-! ## Gauss–Legendre table (`legendre_gauss_quadrature.c`) -/

/-- For every order `2 ≤ n ≤ 64` the table has a `case n` with `n` points and `n` weights such that, both for
the decimal literals as written and for their binary64 roundings (computed in `roundB64` on exact rationals):
the nodes are strictly increasing inside `(−1, 1)` and symmetric, the weights positive and symmetric, and
every moment `Σ wᵢ xᵢᵏ`, `k ≤ 2n−1`, is within 2·10⁻¹⁵ (binary64) resp. 4·10⁻⁵³ (decimal) of `∫_{-1}^{1} ξᵏ dξ`. -/
theorem leggauss_ok (n : Nat) (h2 : 2 ≤ n) (h64 : n ≤ 64) :
    ∃ pts wts, (n, pts, wts) ∈ Gen.LegGauss.table ∧
      gaussB64Ok tolB64N tolB64D n pts wts = true ∧ gaussDecOk tolDecN tolDecD n pts wts = true := by
  have hmem : n ∈ Gen.LegGauss.table.map (fun t => t.1) := by
    rw [Gen.LegGaussAll.orders, List.mem_range']
    exact ⟨n - 2, by omega, by omega⟩
  obtain ⟨t, ht, rfl⟩ := List.mem_map.1 hmem
  have hc := casesOk_mem Gen.LegGaussAll.ok t ht
  simp only [caseOk, Bool.and_eq_true] at hc
  exact ⟨t.2.1, t.2.2, ht, hc.1, hc.2⟩

/-- the table has no other orders -/
theorem leggauss_orders : Gen.LegGauss.table.map (fun t => t.1) = List.range' 2 63 := Gen.LegGaussAll.orders

/-! ## Non-vacuity -/

/-- the exact side is not trivial: `∫_{-1}^{1} u₀²  = 26/35` -/
example : jnum (dbasis 0 0).num (dbasis 0 0).num * 35 = 26 * ((dbasis 0 0).den * (dbasis 0 0).den * intL : Nat) := by
  decide +kernel

/-- the checker rejects a wrong table entry: `integral_ff(0,0)` with its literal replaced by `0.75` -/
example : checkE tolFuncN tolFuncD (.prod [.lit 75 2, .var 2, .var 6])
    (fullWant (flagKey2 0 0) (dbasis 0 0).num (dbasis 0 0).num) ((dbasis 0 0).den * (dbasis 0 0).den * intL) = false := by
  decide +kernel

/-- …and accepts the real one, `0.742857142857143*x1t*y1t` -/
example : checkE tolFuncN tolFuncD (.prod [.lit 742857142857143 15, .var 2, .var 6])
    (fullWant (flagKey2 0 0) (dbasis 0 0).num (dbasis 0 0).num) ((dbasis 0 0).den * (dbasis 0 0).den * intL) = true := by
  decide +kernel

/-- the checker rejects a wrong flag (`y2t` instead of `y1t`) -/
example : checkE tolFuncN tolFuncD (.prod [.lit 742857142857143 15, .var 2, .var 8])
    (fullWant (flagKey2 0 0) (dbasis 0 0).num (dbasis 0 0).num) ((dbasis 0 0).den * (dbasis 0 0).den * intL) = false := by
  decide +kernel

end Compmech.C10.Props
