/-
C14 — equivalent descriptions of one structure give identical matrices.
All statements are about the kernel models REGENERATED from the .pyx sources (Gen/Panel/*; the last part, numerically
integrated = analytic at the undeformed state, also Gen/PanelNum/* and the Gauss–Legendre table Gen/CTables/LegGauss*).
-/
import CompmechVerif.Gen.Panel.Plate
import CompmechVerif.Gen.Panel.PlateW
import CompmechVerif.Gen.Panel.CPanel
import CompmechVerif.Gen.Panel.KPanel
import CompmechVerif.Spec.Equivalences
import CompmechVerif.Spec.GaussBardell
import CompmechVerif.Gen.PanelNum.Plate
import CompmechVerif.Gen.PanelNum.CPanel
import CompmechVerif.Props.C02
import CompmechVerif.Props.C08
import CompmechVerif.Core.OpSpecTactics
import Mathlib.Tactic.FinCases
import Mathlib.Data.Fintype.Basic

set_option linter.unnecessarySeqFocus false

namespace Compmech.Panel.C14
open Compmech.Panel Compmech.Gen

set_option linter.unusedSectionVars false
set_option linter.unusedSimpArgs false

variable {K : Type} [Field K] [CharZero K]

/-! ### conical panel with zero semi-vertex angle = cylindrical panel -/

/-- per constant-radius section: with `sin α = 0`, `cos α = 1` every conical entry is the cylindrical entry
with the x-integrals read on the section -/
theorem kpanel_alpha0_eq_cpanel_k0 (P Q : PCtx K) (h : SameIntegralsSubFull P Q)
    (ha : P.a = Q.a) (hb : P.b = Q.b) (hr : P.r = Q.r) (hF : P.F = Q.F) (hs : P.sina = 0) (hc : P.cosa = 1)
    (ro co : Fin 3) : KPanel.fk0.entry ro co P = CPanel.fk0.entry ro co Q := by
  obtain ⟨hx, hy⟩ := h
  fin_cases ro <;> fin_cases co <;>
    simp only [Fin.reduceFinMk, Fin.isValue, Fin.zero_eta, Fin.mk_one, panel_entry, hx, hy, ha, hb, hr, hF, hs, hc] <;> ring

theorem kpanel_alpha0_eq_cpanel_kG0 (P Q : PCtx K) (h : SameIntegralsSubFull P Q)
    (ha : P.a = Q.a) (hb : P.b = Q.b) (hN : P.Nxx = Q.Nxx ∧ P.Nyy = Q.Nyy ∧ P.Nxy = Q.Nxy)
    (ro co : Fin 3) : KPanel.fkG0.entry ro co P = CPanel.fkG0.entry ro co Q := by
  obtain ⟨hx, hy⟩ := h
  obtain ⟨h1, h2, h3⟩ := hN
  fin_cases ro <;> fin_cases co <;> simp only [Fin.reduceFinMk, Fin.isValue, Fin.zero_eta, Fin.mk_one, panel_entry, hx, hy, ha, hb, h1, h2, h3]

theorem kpanel_alpha0_eq_cpanel_kM (P Q : PCtx K) (h : SameIntegralsSubFull P Q)
    (ha : P.a = Q.a) (hb : P.b = Q.b) (hm : P.mu = Q.mu ∧ P.h = Q.h ∧ P.d = Q.d)
    (ro co : Fin 3) : KPanel.fkM.entry ro co P = CPanel.fkM.entry ro co Q := by
  obtain ⟨hx, hy⟩ := h
  obtain ⟨h1, h2, h3⟩ := hm
  fin_cases ro <;> fin_cases co <;> simp only [Fin.reduceFinMk, Fin.isValue, Fin.zero_eta, Fin.mk_one, panel_entry, hx, hy, ha, hb, h1, h2, h3]

/-- every conical entry is ADDITIVE in the family of x-integrals (each monomial contains exactly one
x-integral), so summing the entries over sections of equal radius equals the entry at the summed
integrals; with the additivity of the sub-interval integrals over a partition (C10) the 41 sections of
a zero-angle cone telescope to the full-length cylinder. -/
theorem kpanel_k0_additive_in_x_integrals (P : PCtx K) (J₁ J₂ : Dom → Nat → Fld → Idx → Nat → Fld → Idx → K)
    (ro co : Fin 3) :
    KPanel.fk0.entry ro co (P.withJx fun d a b c e f g => J₁ d a b c e f g + J₂ d a b c e f g) =
      KPanel.fk0.entry ro co (P.withJx J₁) + KPanel.fk0.entry ro co (P.withJx J₂) := by
  fin_cases ro <;> fin_cases co <;> simp only [Fin.reduceFinMk, Fin.isValue, Fin.zero_eta, Fin.mk_one, panel_entry, PCtx.withJx] <;> ring

/-! ### cylindrical panel of large radius tends to the flat plate: exact expansion in 1/r -/

/-- `cpanel(r) = plate + (1/r)·X + (1/r²)·Y` with `X`, `Y` independent of `r` (read off at `r = ±1`) -/
theorem cpanel_expansion_in_inverse_radius (P : PCtx K) (ha : P.a ≠ 0) (hb : P.b ≠ 0) (hr : P.r ≠ 0)
    (ro co : Fin 3) :
    CPanel.fk0.entry ro co P =
      Plate.fk0.entry ro co P
        + 1 / P.r * ((CPanel.fk0.entry ro co { P with r := 1 } - CPanel.fk0.entry ro co { P with r := -1 }) / 2)
        + 1 / P.r ^ 2 * ((CPanel.fk0.entry ro co { P with r := 1 } + CPanel.fk0.entry ro co { P with r := -1 }) / 2
            - Plate.fk0.entry ro co P) := by
  fin_cases ro <;> fin_cases co <;> simp only [Fin.reduceFinMk, Fin.isValue, Fin.zero_eta, Fin.mk_one, panel_entry] <;> field_simp <;> ring

theorem cpanel_kG0_eq_plate (P : PCtx K) (ro co : Fin 3) :
    CPanel.fkG0.entry ro co P = Plate.fkG0.entry ro co P := by
  fin_cases ro <;> fin_cases co <;> simp only [Fin.reduceFinMk, Fin.isValue, Fin.zero_eta, Fin.mk_one, panel_entry]

theorem cpanel_kM_eq_plate (P : PCtx K) (ro co : Fin 3) :
    CPanel.fkM.entry ro co P = Plate.fkM.entry ro co P := by
  fin_cases ro <;> fin_cases co <;> simp only [Fin.reduceFinMk, Fin.isValue, Fin.zero_eta, Fin.mk_one, panel_entry]

/-! ### the w-only plate model is the out-of-plane block of the full plate model -/

theorem plate_w_eq_w_block_k0 (P : PCtx K) : PlateW.fk0.entry 0 0 P = Plate.fk0.entry 2 2 P := by
  simp only [Fin.reduceFinMk, Fin.isValue, Fin.zero_eta, Fin.mk_one, panel_entry]

theorem plate_w_eq_w_block_k0y1y2 (P : PCtx K) : PlateW.fk0y1y2.entry 0 0 P = Plate.fk0y1y2.entry 2 2 P := by
  simp only [Fin.reduceFinMk, Fin.isValue, Fin.zero_eta, Fin.mk_one, panel_entry]

theorem plate_w_eq_w_block_kG0 (P : PCtx K) : PlateW.fkG0.entry 0 0 P = Plate.fkG0.entry 2 2 P := by
  simp only [Fin.reduceFinMk, Fin.isValue, Fin.zero_eta, Fin.mk_one, panel_entry]

theorem plate_w_eq_w_block_kA (P : PCtx K) :
    PlateW.fkAx.entry 0 0 P = Plate.fkAx.entry 2 2 P ∧ PlateW.fkAy.entry 0 0 P = Plate.fkAy.entry 2 2 P ∧
      PlateW.fcA.entry 0 0 P = Plate.fcA.entry 2 2 P := by
  refine ⟨?_, ?_, ?_⟩ <;> simp only [Fin.reduceFinMk, Fin.isValue, Fin.zero_eta, Fin.mk_one, panel_entry]

/-! ### exchanging the roles of x and y -/

/-- the stiffness entry of the exchanged description at exchanged degrees of freedom is the original entry:
the two stiffness matrices are permutation-congruent, hence have the same spectrum -/
theorem axis_exchange_k0 (P : PCtx K) (hF : IsABD P.F) (ro co : Fin 3) :
    Plate.fk0.entry (exch3 ro) (exch3 co) P.exchange = Plate.fk0.entry ro co P := by
  obtain ⟨h10, h20, h30, h40, h50, h21, h31, h41, h51, h32, h42, h52, h43, h53, h54⟩ :=
    sym6_rewrites _ hF.symm
  have hb12 := hF.b12
  have hb16 := hF.b16
  have hb26 := hF.b26
  fin_cases ro <;> fin_cases co <;>
    simp only [Fin.reduceFinMk, Fin.isValue, Fin.zero_eta, Fin.mk_one, panel_entry, PCtx.exchange, exch3, exch6, exchFld, h10, h20, h30, h40, h50, h21, h31, h41, h51,
      h32, h42, h52, h43, h53, h54, hb12, hb16, hb26] <;> ring

theorem axis_exchange_kG0 (P : PCtx K) (ro co : Fin 3) :
    Plate.fkG0.entry (exch3 ro) (exch3 co) P.exchange = Plate.fkG0.entry ro co P := by
  fin_cases ro <;> fin_cases co <;> simp only [Fin.reduceFinMk, Fin.isValue, Fin.zero_eta, Fin.mk_one, panel_entry, PCtx.exchange, exch3, exch6, exchFld] <;> ring

theorem axis_exchange_kM (P : PCtx K) (ro co : Fin 3) :
    Plate.fkM.entry (exch3 ro) (exch3 co) P.exchange = Plate.fkM.entry ro co P := by
  fin_cases ro <;> fin_cases co <;> simp only [Fin.reduceFinMk, Fin.isValue, Fin.zero_eta, Fin.mk_one, panel_entry, PCtx.exchange, exch3, exch6, exchFld] <;> ring

/-! ### geometric similarity: lengths × s, moduli × e, density × q -/

theorem similarity_k0 (P : PCtx K) (s e q : K) (hs : s ≠ 0) (ha : P.a ≠ 0) (hb : P.b ≠ 0) (hr : P.r ≠ 0)
    (ro co : Fin 3) :
    CPanel.fk0.entry ro co (P.scale s e q) = e * s * CPanel.fk0.entry ro co P := by
  fin_cases ro <;> fin_cases co <;> simp [Fin.reduceFinMk, panel_entry, PCtx.scale] <;> field_simp <;> ring

theorem similarity_kG0 (P : PCtx K) (s e q : K) (hs : s ≠ 0) (ha : P.a ≠ 0) (hb : P.b ≠ 0) (ro co : Fin 3) :
    CPanel.fkG0.entry ro co (P.scale s e q) = CPanel.fkG0.entry ro co P := by
  fin_cases ro <;> fin_cases co <;> simp [Fin.reduceFinMk, panel_entry, PCtx.scale] <;> field_simp

theorem similarity_kM (P : PCtx K) (s e q : K) (hs : s ≠ 0) (ha : P.a ≠ 0) (hb : P.b ≠ 0) (ro co : Fin 3) :
    CPanel.fkM.entry ro co (P.scale s e q) = q * s ^ 3 * CPanel.fkM.entry ro co P := by
  fin_cases ro <;> fin_cases co <;> simp [Fin.reduceFinMk, panel_entry, PCtx.scale] <;> field_simp <;> ring

/-! ### numerically integrated kernels at the undeformed state = analytic kernels: the WHOLE tensor quadrature

`T : TensorRule` is any tensor-product rule (abscissae, weights, basis values at the abscissae); `X g h` is the context
the loop body of `fkL_num` sees at the point `(g, h)` (`T.Family X`: weight `wx_g·wy_h`, x-values depending on `g` only,
y-values on `h` only); `T.sum` adds over all points in the loop order of the kernel; `T.quadCtx base` is `base` with every
one-dimensional integral replaced by its quadrature `Σ_g wx_g·E_g·E_g` (`Spec/GaussLift.lean`). -/

omit [CharZero K] in
/-- the analytic stiffness depends on the laminate table only through the 18 entries `A11 … D66` it reads
(`abdOf F`: the ABD matrix with these entries) -/
theorem k0_reads_abd_plate (P : PCtx K) (ro co : Fin 3) :
    Plate.fk0.entry ro co P = Plate.fk0.entry ro co { P with F := abdOf P.F } := by
  fin_cases ro <;> fin_cases co <;> rfl

omit [CharZero K] in
theorem k0_reads_abd_cpanel (P : PCtx K) (ro co : Fin 3) :
    CPanel.fk0.entry ro co P = CPanel.fk0.entry ro co { P with F := abdOf P.F } := by
  fin_cases ro <;> fin_cases co <;> rfl

/-- **flat plate, any field, any tensor rule, any laminate table, any series indices and edge flags**: if every
integration point has the panel dimensions and the laminate table of `base`, the SUM over all points of the `fkL_num`
integrand at the undeformed state (`wxi = weta = 0`) IS the analytic `fk0` entry evaluated with the quadrature integrals
— an exact algebraic identity (no tolerance).  What remains between "numerical" and "analytic" is only the difference
between the quadrature integrals and the true ones (`num_at_zero_eq_analytic_plate_tabulated`). -/
theorem num_at_zero_eq_analytic_plate {ιx ιy : Type} (T : TensorRule K ιx ιy) (X : ιx → ιy → NCtx K) (hX : T.Family X)
    (base : PCtx K) (hgeo : ∀ g h, (X g h).a = base.a ∧ (X g h).b = base.b ∧ (X g h).F = base.F)
    (ha : base.a ≠ 0) (hb : base.b ≠ 0) (ro co : Fin 3) :
    T.sum (fun g h => PanelNum.Plate.fkL_num.entry ro co { X g h with wxi := 0, weta := 0 })
      = Plate.fk0.entry ro co (T.quadCtx base) := by
  have h1 : ∀ g h, PanelNum.Plate.fkL_num.entry ro co { X g h with wxi := 0, weta := 0 }
      = (X g h).weight * Plate.fk0.entry ro co (X g h).toP := fun g h =>
    C08.kL_at_zero_eq_k0_plate (X g h) (by rw [(hgeo g h).1]; exact ha) (by rw [(hgeo g h).2.1]; exact hb) ro co
  rw [T.sum_congr h1, T.sum_weight_mul hX, k0_reads_abd_plate (T.quadCtx base)]
  have hP := hX.toP.withF fun _ _ => abdOf base.F
  have e : ∀ g h, Plate.fk0.entry ro co (X g h).toP
      = Plate.fk0.entry ro co { (X g h).toP with F := abdOf base.F } := by
    intro g h
    rw [k0_reads_abd_plate (X g h).toP]
    simp only [NCtx.toP, (hgeo g h).2.2]
  rw [T.wsum_congr e]
  refine T.wsum_of_eq_hessian hP { base with F := abdOf base.F } (fun g h => (hgeo g h).1) (fun g h => (hgeo g h).2.1)
    .full .full (plateOps base) (abdOf base.F) (fld3 ro) (fld3 co) (Plate.fk0.entry ro co) (fun g h => ?_) ?_
  · rw [C02.k0_entry_eq_hessian_plate _ (by show (X g h).a ≠ 0; rw [(hgeo g h).1]; exact ha)
      (by show (X g h).b ≠ 0; rw [(hgeo g h).2.1]; exact hb) (isABD_abdOf _)]
    rw [plateOps_congr (Q := base) (hgeo g h).1 (hgeo g h).2.1]
  · exact C02.k0_entry_eq_hessian_plate (T.quadCtx { base with F := abdOf base.F }) ha hb (isABD_abdOf _) ro co

/-- **cylindrical panel**: the same with the radius of `base` at every point -/
theorem num_at_zero_eq_analytic_cpanel {ιx ιy : Type} (T : TensorRule K ιx ιy) (X : ιx → ιy → NCtx K) (hX : T.Family X)
    (base : PCtx K)
    (hgeo : ∀ g h, (X g h).a = base.a ∧ (X g h).b = base.b ∧ (X g h).r = base.r ∧ (X g h).F = base.F)
    (ha : base.a ≠ 0) (hb : base.b ≠ 0) (hr : base.r ≠ 0) (ro co : Fin 3) :
    T.sum (fun g h => PanelNum.CPanel.fkL_num.entry ro co { X g h with wxi := 0, weta := 0 })
      = CPanel.fk0.entry ro co (T.quadCtx base) := by
  have h1 : ∀ g h, PanelNum.CPanel.fkL_num.entry ro co { X g h with wxi := 0, weta := 0 }
      = (X g h).weight * CPanel.fk0.entry ro co (X g h).toP := fun g h =>
    C08.kL_at_zero_eq_k0_cpanel (X g h) (by rw [(hgeo g h).1]; exact ha) (by rw [(hgeo g h).2.1]; exact hb)
      (by rw [(hgeo g h).2.2.1]; exact hr) ro co
  rw [T.sum_congr h1, T.sum_weight_mul hX, k0_reads_abd_cpanel (T.quadCtx base)]
  have hP := hX.toP.withF fun _ _ => abdOf base.F
  have e : ∀ g h, CPanel.fk0.entry ro co (X g h).toP
      = CPanel.fk0.entry ro co { (X g h).toP with F := abdOf base.F } := by
    intro g h
    rw [k0_reads_abd_cpanel (X g h).toP]
    simp only [NCtx.toP, (hgeo g h).2.2.2]
  rw [T.wsum_congr e]
  refine T.wsum_of_eq_hessian hP { base with F := abdOf base.F } (fun g h => (hgeo g h).1) (fun g h => (hgeo g h).2.1)
    .full .full (cpanelOps base) (abdOf base.F) (fld3 ro) (fld3 co) (CPanel.fk0.entry ro co) (fun g h => ?_) ?_
  · rw [C02.k0_entry_eq_hessian_cpanel _ (by show (X g h).a ≠ 0; rw [(hgeo g h).1]; exact ha)
      (by show (X g h).b ≠ 0; rw [(hgeo g h).2.1]; exact hb) (by show (X g h).r ≠ 0; rw [(hgeo g h).2.2.1]; exact hr)
      (isABD_abdOf _)]
    rw [cpanelOps_congr (Q := base) (hgeo g h).1 (hgeo g h).2.1 (hgeo g h).2.2.1]
  · exact C02.k0_entry_eq_hessian_cpanel (T.quadCtx { base with F := abdOf base.F }) ha hb hr (isABD_abdOf _) ro co

/-! #### the tabulated Gauss–Legendre rules and the Bardell functions (over ℝ)

`(nx, ptsx, wtsx)`, `(ny, ptsy, wtsy)` are ANY two cases of the regenerated table of `leggauss_quad`; the abscissae are the
binary64 roundings of the literals (`gaussRuleB64`, list of `(node, weight)`); the basis values at a node are
`flag · D^d u_a(node)` with the exact Bardell polynomials (`bardellRule`; `fl dir f t`, `t < 4`: the four edge flags of
field `f` in direction `dir`; `(i, j)` / `(k, l)`: series indices of the row / column degree of freedom).
`ctxAt base I i k j l` is the context of the analytic kernels for these indices with the integral family `I`
(`Spec/WholeMatrix.lean`, the same as in the whole-matrix theorems of C02/C03). -/

section tabulated
open Compmech.C10

/-- **flat plate, tabulated rules.**  (1) The sum over the `nx × ny` Gauss points of the `fkL_num` integrand at the
undeformed state is the analytic `fk0` entry for the same series indices evaluated with the quadrature integrals
`quadIntegrals` (exactly).  (2) If both rules have at least 4 points and more points than the series indices involved
(`4 ≤ nx`, `i, k < nx`, `4 ≤ ny`, `j, l < ny` — for series orders `m, n`: `nx ≥ max m 4`, `ny ≥ max n 4`; the bound 4 comes
from the cubic Hermite functions, whose products have degree 6 even when `m < 4`), every integral the entry reads is
within the C10 tolerance `2·10⁻¹⁵·quadScale` of the real integral `flag·flag·∫_{-1}^{1} D^{d₁}u_a·D^{d₂}u_b`. -/
theorem num_at_zero_eq_analytic_plate_tabulated {nx ny : Nat} {ptsx wtsx ptsy wtsy : List Lit}
    (hx : (nx, ptsx, wtsx) ∈ C10.Gen.LegGauss.table) (hy : (ny, ptsy, wtsy) ∈ C10.Gen.LegGauss.table)
    (fl : Dir → Fld → Nat → ℝ) (i k j l : Nat) (base : PCtx ℝ) (ha : base.a ≠ 0) (hb : base.b ≠ 0)
    (X : ℝ × ℝ → ℝ × ℝ → NCtx ℝ)
    (hX : (bardellRule (gaussRuleB64 ptsx wtsx) (gaussRuleB64 ptsy wtsy) fl i k j l).Family X)
    (hgeo : ∀ g h, (X g h).a = base.a ∧ (X g h).b = base.b ∧ (X g h).F = base.F) (ro co : Fin 3) :
    (bardellRule (gaussRuleB64 ptsx wtsx) (gaussRuleB64 ptsy wtsy) fl i k j l).sum
        (fun g h => PanelNum.Plate.fkL_num.entry ro co { X g h with wxi := 0, weta := 0 })
      = Plate.fk0.entry ro co (ctxAt base (quadIntegrals (gaussRuleB64 ptsx wtsx) (gaussRuleB64 ptsy wtsy) fl) i k j l)
    ∧ (4 ≤ nx ∧ i < nx ∧ k < nx → 4 ≤ ny ∧ j < ny ∧ l < ny →
        ∀ (dir : Dir) (d₁ : Nat) (f₁ : Fld) (a : Idx) (d₂ : Nat) (f₂ : Fld) (b : Idx),
          |(ctxAt base (quadIntegrals (gaussRuleB64 ptsx wtsx) (gaussRuleB64 ptsy wtsy) fl) i k j l).J dir .full d₁ f₁ a d₂ f₂ b
              - (ctxAt base (exactIntegrals fl) i k j l).J dir .full d₁ f₁ a d₂ f₂ b| * 10 ^ 15
            ≤ 2 * quadScale fl dir d₁ f₁ (pick dir a i k j l) d₂ f₂ (pick dir b i k j l)) := by
  refine ⟨?_, fun hxo hyo => ctxAt_quad_close hx hy fl base hxo hyo⟩
  rw [num_at_zero_eq_analytic_plate _ X hX base hgeo ha hb ro co, bardellRule_quadCtx]

/-- **cylindrical panel, tabulated rules** -/
theorem num_at_zero_eq_analytic_cpanel_tabulated {nx ny : Nat} {ptsx wtsx ptsy wtsy : List Lit}
    (hx : (nx, ptsx, wtsx) ∈ C10.Gen.LegGauss.table) (hy : (ny, ptsy, wtsy) ∈ C10.Gen.LegGauss.table)
    (fl : Dir → Fld → Nat → ℝ) (i k j l : Nat) (base : PCtx ℝ) (ha : base.a ≠ 0) (hb : base.b ≠ 0) (hr : base.r ≠ 0)
    (X : ℝ × ℝ → ℝ × ℝ → NCtx ℝ)
    (hX : (bardellRule (gaussRuleB64 ptsx wtsx) (gaussRuleB64 ptsy wtsy) fl i k j l).Family X)
    (hgeo : ∀ g h, (X g h).a = base.a ∧ (X g h).b = base.b ∧ (X g h).r = base.r ∧ (X g h).F = base.F) (ro co : Fin 3) :
    (bardellRule (gaussRuleB64 ptsx wtsx) (gaussRuleB64 ptsy wtsy) fl i k j l).sum
        (fun g h => PanelNum.CPanel.fkL_num.entry ro co { X g h with wxi := 0, weta := 0 })
      = CPanel.fk0.entry ro co (ctxAt base (quadIntegrals (gaussRuleB64 ptsx wtsx) (gaussRuleB64 ptsy wtsy) fl) i k j l)
    ∧ (4 ≤ nx ∧ i < nx ∧ k < nx → 4 ≤ ny ∧ j < ny ∧ l < ny →
        ∀ (dir : Dir) (d₁ : Nat) (f₁ : Fld) (a : Idx) (d₂ : Nat) (f₂ : Fld) (b : Idx),
          |(ctxAt base (quadIntegrals (gaussRuleB64 ptsx wtsx) (gaussRuleB64 ptsy wtsy) fl) i k j l).J dir .full d₁ f₁ a d₂ f₂ b
              - (ctxAt base (exactIntegrals fl) i k j l).J dir .full d₁ f₁ a d₂ f₂ b| * 10 ^ 15
            ≤ 2 * quadScale fl dir d₁ f₁ (pick dir a i k j l) d₂ f₂ (pick dir b i k j l)) := by
  refine ⟨?_, fun hxo hyo => ctxAt_quad_close hx hy fl base hxo hyo⟩
  rw [num_at_zero_eq_analytic_cpanel _ X hX base hgeo ha hb hr ro co, bardellRule_quadCtx]

end tabulated

/-! #### non-vacuity -/

/-- the hypotheses of `num_at_zero_eq_analytic_plate` are satisfiable for EVERY rule and every template point: the
points `T.point X0 g h` (weight `wx_g·wy_h`, values of the rule, everything else from `X0`) form a family -/
example {ιx ιy : Type} (T : TensorRule ℚ ιx ιy) (X0 : NCtx ℚ) (ha : X0.a ≠ 0) (hb : X0.b ≠ 0) (ro co : Fin 3) :
    T.sum (fun g h => PanelNum.Plate.fkL_num.entry ro co { T.point X0 g h with wxi := 0, weta := 0 })
      = Plate.fk0.entry ro co (T.quadCtx X0.toP) :=
  num_at_zero_eq_analytic_plate T (T.point X0) (T.family_point X0) X0.toP (fun _ _ => ⟨rfl, rfl, rfl⟩) ha hb ro co

example {ιx ιy : Type} (T : TensorRule ℚ ιx ιy) (X0 : NCtx ℚ) (ha : X0.a ≠ 0) (hb : X0.b ≠ 0) (hr : X0.r ≠ 0)
    (ro co : Fin 3) :
    T.sum (fun g h => PanelNum.CPanel.fkL_num.entry ro co { T.point X0 g h with wxi := 0, weta := 0 })
      = CPanel.fk0.entry ro co (T.quadCtx X0.toP) :=
  num_at_zero_eq_analytic_cpanel T (T.point X0) (T.family_point X0) X0.toP (fun _ _ => ⟨rfl, rfl, rfl, rfl⟩) ha hb hr ro co

/-- the identity is not `0 = 0`: one point of weight 3, `D¹φ^u = 2` along x and `D⁰φ^u = 5` along y for both degrees of
freedom, `A11 = 7`, `a = b = 1`: the `(u, u)` entry is `3 · 7 · 2·2 · 5·5 = 2100` on both sides -/
example :
    let T : TensorRule ℚ Unit Unit :=
      ⟨[()], [()], fun _ => 3, fun _ => 1, fun _ d _ _ => if d = 1 then 2 else 0, fun _ d _ _ => if d = 0 then 5 else 0⟩
    let X0 : NCtx ℚ := ⟨1, 1, 1, fun p q => if p = 0 ∧ q = 0 then 7 else 0, 0, 0, 0, 0, 0, 0, 0, 0, 0, 0, 0, 0, 0, 0, 0,
      fun _ => 0, fun _ _ _ _ => 0⟩
    T.sum (fun g h => PanelNum.Plate.fkL_num.entry 0 0 { T.point X0 g h with wxi := 0, weta := 0 }) = 2100 ∧
      Plate.fk0.entry 0 0 (T.quadCtx X0.toP) = 2100 := by
  constructor <;> simp [TensorRule.sum, TensorRule.point, TensorRule.quadCtx, TensorRule.Jq, NCtx.toP, panel_entry] <;> norm_num

/-- the tabulated theorem applies to the 4-point rule along x and the 5-point rule along y with the first hierarchical
function (`i = k = j = l = 4` would need 5 points along x; here `i = k = 3`, `j = l = 4`) -/
example (fl : Dir → Fld → Nat → ℝ) (base : PCtx ℝ) (ha : base.a ≠ 0) (hb : base.b ≠ 0) (X0 : NCtx ℝ)
    (h0 : X0.a = base.a ∧ X0.b = base.b ∧ X0.F = base.F) (dir : Dir) (d₁ d₂ : Nat) (f₁ f₂ : Fld) (a b : Idx) :
    |(ctxAt base (quadIntegrals (C10.gaussRuleB64 C10.Gen.LegGauss.points_4 C10.Gen.LegGauss.weights_4)
          (C10.gaussRuleB64 C10.Gen.LegGauss.points_5 C10.Gen.LegGauss.weights_5) fl) 3 3 4 4).J dir .full d₁ f₁ a d₂ f₂ b
        - (ctxAt base (exactIntegrals fl) 3 3 4 4).J dir .full d₁ f₁ a d₂ f₂ b| * 10 ^ 15
      ≤ 2 * quadScale fl dir d₁ f₁ (pick dir a 3 3 4 4) d₂ f₂ (pick dir b 3 3 4 4) :=
  (num_at_zero_eq_analytic_plate_tabulated (nx := 4) (ny := 5) (by simp [C10.Gen.LegGauss.table])
    (by simp [C10.Gen.LegGauss.table]) fl 3 3 4 4 base ha hb _ (TensorRule.family_point _ X0)
    (fun _ _ => h0) 0 0).2 (by omega) (by omega) dir d₁ f₁ a d₂ f₂ b

end Compmech.Panel.C14
