/-
C14 — equivalent descriptions of one structure give identical matrices.
All statements are about the kernel models REGENERATED from the .pyx sources (Gen/Panel/*).
-/
import CompmechVerif.Gen.Panel.Plate
import CompmechVerif.Gen.Panel.PlateW
import CompmechVerif.Gen.Panel.CPanel
import CompmechVerif.Gen.Panel.KPanel
import CompmechVerif.Spec.Equivalences
import CompmechVerif.Core.OpSpecTactics
import Mathlib.Tactic.FinCases
import Mathlib.Data.Fintype.Basic

set_option linter.unnecessarySeqFocus false

namespace Compmech.Panel.C14
open Compmech.Panel Compmech.Gen

set_option linter.unusedSectionVars false
set_option linter.unusedSimpArgs false

variable {K : Type} [Field K] [CharZero K]

/-! ### conical panel with zero semi-vertex angle = cylindrical panel -/

/-- per constant-radius section: with `sin α = 0`, `cos α = 1` every conical entry is the cylindrical entry
with the x-integrals read on the section -/
theorem kpanel_alpha0_eq_cpanel_k0 (P Q : PCtx K) (h : SameIntegralsSubFull P Q)
    (ha : P.a = Q.a) (hb : P.b = Q.b) (hr : P.r = Q.r) (hF : P.F = Q.F) (hs : P.sina = 0) (hc : P.cosa = 1)
    (ro co : Fin 3) : KPanel.fk0.entry ro co P = CPanel.fk0.entry ro co Q := by
  obtain ⟨hx, hy⟩ := h
  fin_cases ro <;> fin_cases co <;>
    simp only [Fin.reduceFinMk, Fin.isValue, Fin.zero_eta, Fin.mk_one, panel_entry, hx, hy, ha, hb, hr, hF, hs, hc] <;> ring

theorem kpanel_alpha0_eq_cpanel_kG0 (P Q : PCtx K) (h : SameIntegralsSubFull P Q)
    (ha : P.a = Q.a) (hb : P.b = Q.b) (hN : P.Nxx = Q.Nxx ∧ P.Nyy = Q.Nyy ∧ P.Nxy = Q.Nxy)
    (ro co : Fin 3) : KPanel.fkG0.entry ro co P = CPanel.fkG0.entry ro co Q := by
  obtain ⟨hx, hy⟩ := h
  obtain ⟨h1, h2, h3⟩ := hN
  fin_cases ro <;> fin_cases co <;> simp only [Fin.reduceFinMk, Fin.isValue, Fin.zero_eta, Fin.mk_one, panel_entry, hx, hy, ha, hb, h1, h2, h3]

theorem kpanel_alpha0_eq_cpanel_kM (P Q : PCtx K) (h : SameIntegralsSubFull P Q)
    (ha : P.a = Q.a) (hb : P.b = Q.b) (hm : P.mu = Q.mu ∧ P.h = Q.h ∧ P.d = Q.d)
    (ro co : Fin 3) : KPanel.fkM.entry ro co P = CPanel.fkM.entry ro co Q := by
  obtain ⟨hx, hy⟩ := h
  obtain ⟨h1, h2, h3⟩ := hm
  fin_cases ro <;> fin_cases co <;> simp only [Fin.reduceFinMk, Fin.isValue, Fin.zero_eta, Fin.mk_one, panel_entry, hx, hy, ha, hb, h1, h2, h3]

/-- every conical entry is ADDITIVE in the family of x-integrals (each monomial contains exactly one
x-integral), so summing the entries over sections of equal radius equals the entry at the summed
integrals; with the additivity of the sub-interval integrals over a partition (C10) the 41 sections of
a zero-angle cone telescope to the full-length cylinder. -/
theorem kpanel_k0_additive_in_x_integrals (P : PCtx K) (J₁ J₂ : Dom → Nat → Fld → Idx → Nat → Fld → Idx → K)
    (ro co : Fin 3) :
    KPanel.fk0.entry ro co (P.withJx fun d a b c e f g => J₁ d a b c e f g + J₂ d a b c e f g) =
      KPanel.fk0.entry ro co (P.withJx J₁) + KPanel.fk0.entry ro co (P.withJx J₂) := by
  fin_cases ro <;> fin_cases co <;> simp only [Fin.reduceFinMk, Fin.isValue, Fin.zero_eta, Fin.mk_one, panel_entry, PCtx.withJx] <;> ring

/-! ### cylindrical panel of large radius tends to the flat plate: exact expansion in 1/r -/

/-- `cpanel(r) = plate + (1/r)·X + (1/r²)·Y` with `X`, `Y` independent of `r` (read off at `r = ±1`) -/
theorem cpanel_expansion_in_inverse_radius (P : PCtx K) (ha : P.a ≠ 0) (hb : P.b ≠ 0) (hr : P.r ≠ 0)
    (ro co : Fin 3) :
    CPanel.fk0.entry ro co P =
      Plate.fk0.entry ro co P
        + 1 / P.r * ((CPanel.fk0.entry ro co { P with r := 1 } - CPanel.fk0.entry ro co { P with r := -1 }) / 2)
        + 1 / P.r ^ 2 * ((CPanel.fk0.entry ro co { P with r := 1 } + CPanel.fk0.entry ro co { P with r := -1 }) / 2
            - Plate.fk0.entry ro co P) := by
  fin_cases ro <;> fin_cases co <;> simp only [Fin.reduceFinMk, Fin.isValue, Fin.zero_eta, Fin.mk_one, panel_entry] <;> field_simp <;> ring

theorem cpanel_kG0_eq_plate (P : PCtx K) (ro co : Fin 3) :
    CPanel.fkG0.entry ro co P = Plate.fkG0.entry ro co P := by
  fin_cases ro <;> fin_cases co <;> simp only [Fin.reduceFinMk, Fin.isValue, Fin.zero_eta, Fin.mk_one, panel_entry]

theorem cpanel_kM_eq_plate (P : PCtx K) (ro co : Fin 3) :
    CPanel.fkM.entry ro co P = Plate.fkM.entry ro co P := by
  fin_cases ro <;> fin_cases co <;> simp only [Fin.reduceFinMk, Fin.isValue, Fin.zero_eta, Fin.mk_one, panel_entry]

/-! ### the w-only plate model is the out-of-plane block of the full plate model -/

theorem plate_w_eq_w_block_k0 (P : PCtx K) : PlateW.fk0.entry 0 0 P = Plate.fk0.entry 2 2 P := by
  simp only [Fin.reduceFinMk, Fin.isValue, Fin.zero_eta, Fin.mk_one, panel_entry]

theorem plate_w_eq_w_block_k0y1y2 (P : PCtx K) : PlateW.fk0y1y2.entry 0 0 P = Plate.fk0y1y2.entry 2 2 P := by
  simp only [Fin.reduceFinMk, Fin.isValue, Fin.zero_eta, Fin.mk_one, panel_entry]

theorem plate_w_eq_w_block_kG0 (P : PCtx K) : PlateW.fkG0.entry 0 0 P = Plate.fkG0.entry 2 2 P := by
  simp only [Fin.reduceFinMk, Fin.isValue, Fin.zero_eta, Fin.mk_one, panel_entry]

theorem plate_w_eq_w_block_kA (P : PCtx K) :
    PlateW.fkAx.entry 0 0 P = Plate.fkAx.entry 2 2 P ∧ PlateW.fkAy.entry 0 0 P = Plate.fkAy.entry 2 2 P ∧
      PlateW.fcA.entry 0 0 P = Plate.fcA.entry 2 2 P := by
  refine ⟨?_, ?_, ?_⟩ <;> simp only [Fin.reduceFinMk, Fin.isValue, Fin.zero_eta, Fin.mk_one, panel_entry]

/-! ### exchanging the roles of x and y -/

/-- the stiffness entry of the exchanged description at exchanged degrees of freedom is the original entry:
the two stiffness matrices are permutation-congruent, hence have the same spectrum -/
theorem axis_exchange_k0 (P : PCtx K) (hF : IsABD P.F) (ro co : Fin 3) :
    Plate.fk0.entry (exch3 ro) (exch3 co) P.exchange = Plate.fk0.entry ro co P := by
  obtain ⟨h10, h20, h30, h40, h50, h21, h31, h41, h51, h32, h42, h52, h43, h53, h54⟩ :=
    sym6_rewrites _ hF.symm
  have hb12 := hF.b12
  have hb16 := hF.b16
  have hb26 := hF.b26
  fin_cases ro <;> fin_cases co <;>
    simp only [Fin.reduceFinMk, Fin.isValue, Fin.zero_eta, Fin.mk_one, panel_entry, PCtx.exchange, exch3, exch6, exchFld, h10, h20, h30, h40, h50, h21, h31, h41, h51,
      h32, h42, h52, h43, h53, h54, hb12, hb16, hb26] <;> ring

theorem axis_exchange_kG0 (P : PCtx K) (ro co : Fin 3) :
    Plate.fkG0.entry (exch3 ro) (exch3 co) P.exchange = Plate.fkG0.entry ro co P := by
  fin_cases ro <;> fin_cases co <;> simp only [Fin.reduceFinMk, Fin.isValue, Fin.zero_eta, Fin.mk_one, panel_entry, PCtx.exchange, exch3, exch6, exchFld] <;> ring

theorem axis_exchange_kM (P : PCtx K) (ro co : Fin 3) :
    Plate.fkM.entry (exch3 ro) (exch3 co) P.exchange = Plate.fkM.entry ro co P := by
  fin_cases ro <;> fin_cases co <;> simp only [Fin.reduceFinMk, Fin.isValue, Fin.zero_eta, Fin.mk_one, panel_entry, PCtx.exchange, exch3, exch6, exchFld] <;> ring

/-! ### geometric similarity: lengths × s, moduli × e, density × q -/

theorem similarity_k0 (P : PCtx K) (s e q : K) (hs : s ≠ 0) (ha : P.a ≠ 0) (hb : P.b ≠ 0) (hr : P.r ≠ 0)
    (ro co : Fin 3) :
    CPanel.fk0.entry ro co (P.scale s e q) = e * s * CPanel.fk0.entry ro co P := by
  fin_cases ro <;> fin_cases co <;> simp [Fin.reduceFinMk, panel_entry, PCtx.scale] <;> field_simp <;> ring

theorem similarity_kG0 (P : PCtx K) (s e q : K) (hs : s ≠ 0) (ha : P.a ≠ 0) (hb : P.b ≠ 0) (ro co : Fin 3) :
    CPanel.fkG0.entry ro co (P.scale s e q) = CPanel.fkG0.entry ro co P := by
  fin_cases ro <;> fin_cases co <;> simp [Fin.reduceFinMk, panel_entry, PCtx.scale] <;> field_simp

theorem similarity_kM (P : PCtx K) (s e q : K) (hs : s ≠ 0) (ha : P.a ≠ 0) (hb : P.b ≠ 0) (ro co : Fin 3) :
    CPanel.fkM.entry ro co (P.scale s e q) = q * s ^ 3 * CPanel.fkM.entry ro co P := by
  fin_cases ro <;> fin_cases co <;> simp [Fin.reduceFinMk, panel_entry, PCtx.scale] <;> field_simp <;> ring

end Compmech.Panel.C14
