/-
C01 — Laminate ABD/ABDE matrices are the through-thickness integral of rotated ply stiffness.
Only property theorems live here; helper lemmas are in `Spec/RotationLemmas.lean` and `Spec/LaminationLemmas.lean`.
Every theorem is about `Model/Laminate.lean` / `Model/LaminationParams.lean`, which are tied to
compmech/composite/*.py by the correspondence harness `tools/props/C01.py`.
-/
import CompmechVerif.Spec.LaminationLemmas

namespace Compmech.Laminate.C01
open Compmech.Laminate

section algebraic
variable {K : Type} [Field K] [CharZero K]

/-- `rotStrain` really is tensor rotation `R e Rᵀ` of the symmetric strain tensor. -/
theorem rotStrain_eq_tensor (c s : K) (e : V3 K) :
    !![c, s; -s, c] * !![e.x, e.g / 2; e.g / 2, e.y] * (!![c, s; -s, c] : Matrix (Fin 2) (Fin 2) K).transpose
      = !![(rotStrain c s e).x, (rotStrain c s e).g / 2; (rotStrain c s e).g / 2, (rotStrain c s e).y] :=
  rotStrain_eq_tensor_aux c s e

/-- The nine closed formulas of `Lamina.rebuild` are tensor rotation of the ply stiffness:
the energy density of the rotated matrix at a laminate-axes strain equals the energy density
of the ply matrix at the strain seen in ply axes — for *all* `c, s` (in particular this fixes
`sin³cos` vs `sin cos³`, the factors 2 and 4, and every sign). -/
theorem rotQ_eq_tensor_rotation (c s : K) (q : Q9 K) (e : V3 K) :
    quad3 (rotQ c s q) e = quad3 q.ortho (rotStrain c s e) :=
  rotQ_energy c s q e

/-- Same for the transverse-shear block (`γyz, γxz` rotate as a vector). -/
theorem rotQ_shear_eq_rotation (c s : K) (q : Q9 K) (g4 g5 : K) :
    quad2 (rotQ c s q) g4 g5 = quad2 q.ortho (c * g4 - s * g5) (s * g4 + c * g5) :=
  rotQ_shear_energy c s q g4 g5

/-- A symmetric matrix is determined by its quadratic form, so the two theorems above pin down
all nine entries of `rotQ`. -/
theorem quad_determines (q q' : Q9 K)
    (h3 : ∀ e, quad3 q e = quad3 q' e) (h2 : ∀ g4 g5, quad2 q g4 g5 = quad2 q' g4 g5) : q = q' :=
  quad_determines_aux q q' h3 h2

/-- Moving the reference surface by `d`: `A` unchanged, `B' = B + d·A`, `D' = D + 2d·B + d²·A`
— for every ply list and offset. -/
theorem abd_offset_shift (plies : List (Ply K)) (offset d : K) :
    (abd plies (offset + d)).A = (abd plies offset).A ∧
    (abd plies (offset + d)).B = (abd plies offset).B.add (Q9.smul d (abd plies offset).A) ∧
    (abd plies (offset + d)).D =
      ((abd plies offset).D.add (Q9.smul (2 * d) (abd plies offset).B)).add
        (Q9.smul (d ^ 2) (abd plies offset).A) :=
  abd_offset_shift_aux plies offset d

/-- A mid-plane-symmetric stack (palindromic list of plies) without offset has `B = 0`. -/
theorem symmetric_stack_B_zero (plies : List (Ply K)) (h : plies.reverse = plies) :
    (abd plies 0).B = Q9.zero :=
  symmetric_stack_B_zero_aux plies h

/-- `A` does not depend on the ply order. -/
theorem A_perm_invariant (plies plies' : List (Ply K)) (h : plies.Perm plies') (o o' : K) :
    (abd plies o).A = (abd plies' o').A :=
  A_perm_invariant_aux plies plies' h o o'

/-- Mirroring one ply angle (θ ↦ −θ, i.e. `s ↦ −s`) flips the sign of the 16, 26, 45 entries only. -/
theorem rotQ_mirror (c s : K) (q : Q9 K) : rotQ c (-s) q = (rotQ c s q).mirror :=
  rotQ_mirror_aux c s q

/-- Mirroring every ply of a laminate flips exactly the 16/26/45 entries of `A, B, D`. -/
theorem mirror_angles (plies : List (Ply K)) (offset : K) :
    let m := abd (plies.map fun p => ⟨p.t, p.QL.mirror⟩) offset
    m.A = (abd plies offset).A.mirror ∧ m.B = (abd plies offset).B.mirror ∧
      m.D = (abd plies offset).D.mirror :=
  mirror_angles_aux plies offset

/-- Turning one ply by 90° (`(c, s) ↦ (−s, c)`) exchanges the 1 and 2 (and 4 and 5) axes. -/
theorem rotQ_turn90 (c s : K) (q : Q9 K) : rotQ (-s) c q = (rotQ c s q).turn90 :=
  rotQ_turn90_aux c s q

/-- Turning every ply by 90° permutes / sign-flips the entries of `A, B, D` in the same way. -/
theorem rotate_90 (plies : List (Ply K)) (offset : K) :
    let m := abd (plies.map fun p => ⟨p.t, p.QL.turn90⟩) offset
    m.A = (abd plies offset).A.turn90 ∧ m.B = (abd plies offset).B.turn90 ∧
      m.D = (abd plies offset).D.turn90 :=
  rotate_90_aux plies offset

/-- The reported 6×6 matrix is symmetric. -/
theorem abd_symm (plies : List (Ply K)) (offset : K) : (abdMatrix (abd plies offset)).IsSymm :=
  abd_symm_aux plies offset

/-- The uniform argument form (`plyt`, `laminaprop`) equals the per-ply form with repeated values. -/
theorem uniform_eq_perply [DecidableEq K] (cs : List (K × K)) (t : K) (p : List K) (offset : K)
    (ht : t ≠ 0) (hp : p ≠ []) (hcs : cs ≠ []) :
    readStack cs (some t) (some p) [] [] offset =
      readStack cs none none (cs.map fun _ => t) (cs.map fun _ => p) offset :=
  uniform_eq_perply_aux cs t p offset ht hp hcs

end algebraic

section real

/-- `A, B, D` (and `E`, which is the 44/45/55 part of `A`) are the through-thickness integrals
with weights `1, z, z²` of the rotated ply matrices, the plies stacked from `-t/2 + offset`. -/
theorem abd_eq_integral (plies : List (Ply ℝ)) (offset : ℝ) :
    let h0 := -(thickness plies) / 2 + offset
    (abd plies offset).A = integralSpec (fun _ => 1) h0 plies ∧
    (abd plies offset).B = integralSpec (fun z => z) h0 plies ∧
    (abd plies offset).D = integralSpec (fun z => z ^ 2) h0 plies :=
  abd_eq_integral_aux plies offset

/-- Plane-stress ply stiffness is positive definite for admissible constants. -/
theorem planeStressQ_posdef (m : MatProps ℝ) (hm : Admissible m) (e : V3 ℝ)
    (he : e.x ≠ 0 ∨ e.y ≠ 0 ∨ e.g ≠ 0) : 0 < quad3 (planeStressQ m) e :=
  planeStressQ_posdef_aux m hm e he

/-- `ABD` is positive definite for every non-empty stack of admissible plies with positive
thicknesses at angles on the unit circle, for any offset. -/
theorem abd_posdef (ps : List (PlyIn ℝ)) (ms : List (MatProps ℝ)) (plies : List (Ply ℝ)) (offset : ℝ)
    (hne : ps ≠ [])
    (hlen : ms.length = ps.length)
    (hplies : plies = (List.zip ps ms).map fun pm => ⟨pm.1.t, rotQ pm.1.c pm.1.s (planeStressQ pm.2)⟩)
    (hadm : ∀ m ∈ ms, Admissible m)
    (hcs : ∀ p ∈ ps, p.c ^ 2 + p.s ^ 2 = 1 ∧ 0 < p.t)
    (e k : V3 ℝ) (hek : e.x ≠ 0 ∨ e.y ≠ 0 ∨ e.g ≠ 0 ∨ k.x ≠ 0 ∨ k.y ≠ 0 ∨ k.g ≠ 0) :
    0 < quadABD (abd plies offset) e k :=
  abd_posdef_aux ps ms plies offset hne hlen hplies hadm hcs e k hek

/-- The transverse-shear matrix `E` is positive definite under the same hypotheses. -/
theorem E_posdef (ps : List (PlyIn ℝ)) (ms : List (MatProps ℝ)) (plies : List (Ply ℝ)) (offset : ℝ)
    (hne : ps ≠ [])
    (hlen : ms.length = ps.length)
    (hplies : plies = (List.zip ps ms).map fun pm => ⟨pm.1.t, rotQ pm.1.c pm.1.s (planeStressQ pm.2)⟩)
    (hadm : ∀ m ∈ ms, Admissible m)
    (hcs : ∀ p ∈ ps, p.c ^ 2 + p.s ^ 2 = 1 ∧ 0 < p.t)
    (g4 g5 : ℝ) (hg : g4 ≠ 0 ∨ g5 ≠ 0) :
    0 < quad2 (abd plies offset).A g4 g5 :=
  E_posdef_aux ps ms plies offset hne hlen hplies hadm hcs g4 g5 hg

/-- `quadABD` is the quadratic form of the reported 6×6 matrix. -/
theorem quadABD_eq_matrix (a : Acc ℝ) (e k : V3 ℝ) :
    quadABD a e k =
      dotProduct ![e.x, e.y, e.g, k.x, k.y, k.g] ((abdMatrix a).mulVec ![e.x, e.y, e.g, k.x, k.y, k.g]) :=
  quadABD_eq_matrix_aux a e k

end real

/-! ## The `Laminate` object: lamination parameters, `force_*`, equivalent moduli
(`Model/LaminationParams.lean`; `Lam` is the object, every method returns the object it leaves and the exception it
raises, if any). -/

section lamination
variable {K : Type} [Field K] [CharZero K]

/-- The invariants identity behind the lamination-parameter formulas, for the array `matobj.u` as `MatLamina.rebuild`
builds it: when `nu31 = nu32 = 0` (e.g. `nu13 = nu23 = 0`) the nine closed formulas of `Lamina.rebuild` are
`Γ0 + Γ1 cos 2θ + Γ2 sin 2θ + Γ3 cos 4θ + Γ4 sin 4θ` with `u1 … u7` of the ply material, for every angle
(`c² + s² = 1`; the double-angle values are derived from `c, s`). -/
theorem rotQ_eq_invariants (m : MatProps K) (c s : K) (hcs : c ^ 2 + s ^ 2 = 1) (he1 : m.e1 ≠ 0)
    (h31 : m.nu31 = 0) (h32 : m.nu32 = 0) :
    rotQ c s (planeStressQ m) = lpFormula (invariants m) (trigOf c s).toXi := by
  rw [invariants_eq_planeInvariants m he1 h31 h32]
  exact rotQ_eq_planeInvariants c s _ hcs

/-- The same identity FAILS for the material `read_laminaprop` builds from the documented isotropic tuple `(E, E, nu)`
(`= (1, 1, 1/4)`; the completion sets `nu13 = nu23 = nu`): `matobj.u` is built from the THREE-dimensional stiffnesses
(`u1 + u2 + u3 = c11 = 6/5`), the ply matrix from the plane-stress ones (`Q11 = 16/15`). -/
theorem rotQ_eq_invariants_counterexample :
    readLaminaprop [(1 : ℚ), 1, 1 / 4] = some mIso ∧
    rotQ (1 : ℚ) 0 (planeStressQ mIso) ≠ lpFormula (invariants mIso) (trigOf 1 0).toXi :=
  ⟨mIso_read, fun h => rotQ_eq_invariants_counterexample_aux (congrArg Q9.q11 h)⟩

/-- On a laminate built by `read_stack` (plies without the attributes `cos2t, sin2t, cos4t, sin4t`: `Lamina.rebuild`
never sets them), `calc_lamination_parameters` raises `AttributeError` as soon as there is a ply; it has overwritten
`t` and nothing else.  (So on the real objects the round trip below can only be run after the caller has set the four
attributes and `lam.matobj` by hand.) -/
theorem calc_lamination_parameters_raises [DecidableEq K] (cs : List (K × K)) (plyt : Option K)
    (laminaprop : Option (List K)) (plyts : List K) (laminaprops : List (List K)) (offset : K) (L : Lam K)
    (h : readStackLam cs plyt laminaprop plyts laminaprops offset = .ok L) (hne : L.plies ≠ [])
    (hT : lthickness L.plies ≠ 0) :
    L.calcLaminationParameters = ({ L with t := some (lthickness L.plies) }, some .attributeError) ∧
    L.matobj = none ∧ L.calcABDEFromLP = (L, some .attributeError) := by
  obtain ⟨h1, h2, _⟩ := readStackLam_no_trig cs plyt laminaprop plyts laminaprops offset L h
  refine ⟨calc_lamination_parameters_raises_aux L hne h1 hT, h2, ?_⟩
  simp only [Lam.calcABDEFromLP, h2]

/-- Round trip, the true part, ANY offset.  A stack of ONE material `m` with `nu31 = nu32 = 0`, any angles
(`c_k² + s_k² = 1`), any ply thicknesses with non-zero sum, the plies carrying the double-angle attributes and
`lam.matobj = m`: `calc_lamination_parameters` followed by `calc_ABDE_from_lamination_parameters` raises nothing and reports
* `A` = the `A` of `calc_constitutive_matrix` (the through-thickness integral) — for every offset `d`;
* `B` = that `B` MINUS `d·t·Γ0`, `D` = that `D` MINUS `d²·t·Γ0` (`Γ0` the isotropic part `u1, u4, u5` of the ply
  matrix): `xiB[0] = 0` and `xiD[0] = 1` are hard-coded, i.e. `z` is measured from the mid-plane;
* `E = [[E55, E45], [E45, E44]]`: the transverse-shear integral with its two directions EXCHANGED with respect to the
  `E = [[E44, E45], [E45, E55]]` of `calc_constitutive_matrix`;
* `ABD`, `ABDE` assembled from these blocks. -/
theorem lp_roundtrip_offset_partial [DecidableEq K] (m : MatProps K) (cst : List (K × K × K)) (L : Lam K)
    (he1 : m.e1 ≠ 0) (h31 : m.nu31 = 0) (h32 : m.nu32 = 0)
    (hcs : ∀ x ∈ cst, x.1 ^ 2 + x.2.1 ^ 2 = 1)
    (hplies : L.plies = cst.map (mkLPly m)) (hT : lthickness L.plies ≠ 0) (hm : L.matobj = some m) :
    let S := abd (L.plies.map LPly.toPly) L.offset
    let R := L.calcLaminationParameters.1.calcABDEFromLP.1
    let QB := S.B.add (Q9.smul (-(L.offset * lthickness L.plies)) (gamma0 (invariants m)))
    let QD := S.D.add (Q9.smul (-(L.offset ^ 2 * lthickness L.plies)) (gamma0 (invariants m)))
    L.calcLaminationParameters.2 = none ∧ L.calcLaminationParameters.1.calcABDEFromLP.2 = none ∧
    R.t = some (lthickness L.plies) ∧
    R.A = some (sym3 S.A) ∧ R.B = some (sym3 QB) ∧ R.D = some (sym3 QD) ∧ R.E = some (shearSwapped S.A) ∧
    R.ABD = some (block6 (sym3 S.A) (sym3 QB) (sym3 QB) (sym3 QD)) ∧
    R.ABDE = some (block8 (block6 (sym3 S.A) (sym3 QB) (sym3 QB) (sym3 QD)) (shearSwapped S.A)) :=
  lp_roundtrip_offset_partial_aux m cst L he1 h31 h32 hcs hplies hT hm

/-- Round trip at offset 0 (the offset for which the formulas are right): under the hypotheses above,
`t, A, B, D, ABD` after the lamination-parameter route are EXACTLY what `calc_constitutive_matrix` reports for the same
object; `E` is that `E` with its two directions exchanged. -/
theorem lp_roundtrip_partial [DecidableEq K] (m : MatProps K) (cst : List (K × K × K)) (L : Lam K)
    (he1 : m.e1 ≠ 0) (h31 : m.nu31 = 0) (h32 : m.nu32 = 0)
    (hcs : ∀ x ∈ cst, x.1 ^ 2 + x.2.1 ^ 2 = 1)
    (hplies : L.plies = cst.map (mkLPly m)) (hT : lthickness L.plies ≠ 0) (hm : L.matobj = some m)
    (hoff : L.offset = 0) :
    let R := L.calcLaminationParameters.1.calcABDEFromLP.1
    let C := L.calcConstitutiveMatrix
    L.calcLaminationParameters.2 = none ∧ L.calcLaminationParameters.1.calcABDEFromLP.2 = none ∧
    R.t = C.t ∧ R.A = C.A ∧ R.B = C.B ∧ R.D = C.D ∧ R.ABD = C.ABD ∧
    R.E = some (shearSwapped (abd (L.plies.map LPly.toPly) 0).A) ∧
    C.E = some (shearBlock (abd (L.plies.map LPly.toPly) 0).A) := by
  intro R C
  obtain ⟨h1, h2, ht, hA, hB, hD, hE, hM, _⟩ := lp_roundtrip_offset_partial_aux m cst L he1 h31 h32 hcs hplies hT hm
  obtain ⟨ct, cA, cB, cD, cE, cM, _⟩ := calcConstitutiveMatrix_fields L
  have z1 : ∀ q g : Q9 K, q.add (Q9.smul (-(L.offset * lthickness L.plies)) g) = q := by
    intro q g; rw [hoff]; ext <;> simp only [Q9.add, Q9.smul] <;> ring
  have z2 : ∀ q g : Q9 K, q.add (Q9.smul (-(L.offset ^ 2 * lthickness L.plies)) g) = q := by
    intro q g; rw [hoff]; ext <;> simp only [Q9.add, Q9.smul] <;> ring
  rw [z1] at hB hM
  rw [z2] at hD hM
  rw [hoff] at hA hB hD hE hM cA cB cD cE cM
  exact ⟨h1, h2, by rw [ht, ct], by rw [hA, cA], by rw [hB, cB], by rw [hD, cD], by rw [hM, cM], hE, cE⟩

/-- Offset clause refuted: under the hypotheses of the round trip, as soon as the offset is not zero (and `u1 ≠ 0`),
the `B` reported by the lamination-parameter route is NOT the `B` of `calc_constitutive_matrix`. -/
theorem lp_roundtrip_offset_counterexample [DecidableEq K] (m : MatProps K) (cst : List (K × K × K)) (L : Lam K)
    (he1 : m.e1 ≠ 0) (h31 : m.nu31 = 0) (h32 : m.nu32 = 0)
    (hcs : ∀ x ∈ cst, x.1 ^ 2 + x.2.1 ^ 2 = 1)
    (hplies : L.plies = cst.map (mkLPly m)) (hT : lthickness L.plies ≠ 0) (hm : L.matobj = some m)
    (hd : L.offset ≠ 0) (hu1 : (invariants m).u1 ≠ 0) :
    L.calcLaminationParameters.1.calcABDEFromLP.1.B ≠ L.calcConstitutiveMatrix.B :=
  lp_roundtrip_offset_counterexample_aux m cst L he1 h31 h32 hcs hplies hT hm hd hu1

/-- `E` clause refuted: whenever the two transverse-shear integrals `E44 ≠ E55` differ (e.g. one ply at 0° with
`g13 ≠ g23`), the `E` of the lamination-parameter route is NOT the `E` of `calc_constitutive_matrix`. -/
theorem lp_roundtrip_E_counterexample [DecidableEq K] (m : MatProps K) (cst : List (K × K × K)) (L : Lam K)
    (he1 : m.e1 ≠ 0) (h31 : m.nu31 = 0) (h32 : m.nu32 = 0)
    (hcs : ∀ x ∈ cst, x.1 ^ 2 + x.2.1 ^ 2 = 1)
    (hplies : L.plies = cst.map (mkLPly m)) (hT : lthickness L.plies ≠ 0) (hm : L.matobj = some m)
    (hne : (abd (L.plies.map LPly.toPly) L.offset).A.q44 ≠ (abd (L.plies.map LPly.toPly) L.offset).A.q55) :
    L.calcLaminationParameters.1.calcABDEFromLP.1.E ≠ L.calcConstitutiveMatrix.E :=
  lp_roundtrip_E_counterexample_aux m cst L he1 h31 h32 hcs hplies hT hm hne

/-- Material clause refuted on a concrete witness: ONE ply at 0°, thickness 1, no offset, of the isotropic material
`(E, E, nu) = (1, 1, 1/4)` as `read_laminaprop` completes it (`nu13 = nu23 = 1/4`): the lamination-parameter route
reports `A11 = 6/5`, `calc_constitutive_matrix` reports `A11 = 16/15`. -/
theorem lp_roundtrip_material_counterexample :
    readLaminaprop [(1 : ℚ), 1, 1 / 4] = some mIso ∧
    lamIso.calcLaminationParameters.1.calcABDEFromLP.1.A ≠ lamIso.calcConstitutiveMatrix.A :=
  ⟨mIso_read, lp_roundtrip_material_counterexample_aux⟩

/-- Mixed materials refuted on a concrete witness: two plies at 0° of two planar materials (`e1 = 1` and `e1 = 2`),
`lam.matobj` the first: the lamination-parameter route reports `A11 = 2`, the stack has `A11 = 3`. -/
theorem lp_roundtrip_mixed_counterexample :
    lamMixed.calcLaminationParameters.1.calcABDEFromLP.1.A ≠ lamMixed.calcConstitutiveMatrix.A :=
  lp_roundtrip_mixed_counterexample_aux

/-- `force_orthotropic` on an object without offset whose six matrices exist: raises nothing; in `A`, `B`, `D` exactly
the entries coupling a direct component with the shear component — (1,3), (2,3), (3,1), (3,2) — become 0 and every
other entry is unchanged; in `ABD` exactly the sixteen entries coupling `{ε_x, ε_y, κ_x, κ_y}` with `{γ_xy, κ_xy}`, in
`ABDE` the same sixteen; `E`, `t`, the lamination parameters, plies and material are untouched. -/
theorem force_orthotropic_spec [DecidableEq K] (L : Lam K) (A B D : Mat 3 K) (M : Mat 6 K) (M8 : Mat 8 K)
    (hoff : L.offset = 0) (hA : L.A = some A) (hB : L.B = some B) (hD : L.D = some D)
    (hM : L.ABD = some M) (hM8 : L.ABDE = some M8) :
    L.forceOrthotropic.2 = none ∧
    L.forceOrthotropic.1.A = some (fun i j => if shearCoupling i j then 0 else A i j) ∧
    L.forceOrthotropic.1.B = some (fun i j => if shearCoupling i j then 0 else B i j) ∧
    L.forceOrthotropic.1.D = some (fun i j => if shearCoupling i j then 0 else D i j) ∧
    L.forceOrthotropic.1.ABD = some (fun i j => if shearCoupling i j then 0 else M i j) ∧
    L.forceOrthotropic.1.ABDE =
      some (fun i j => if i.val < 6 ∧ j.val < 6 ∧ shearCoupling i j then 0 else M8 i j) ∧
    L.forceOrthotropic.1.E = L.E ∧ L.forceOrthotropic.1.t = L.t ∧ L.forceOrthotropic.1.offset = L.offset ∧
    L.forceOrthotropic.1.xiA = L.xiA ∧ L.forceOrthotropic.1.xiB = L.xiB ∧ L.forceOrthotropic.1.xiD = L.xiD ∧
    L.forceOrthotropic.1.xiE = L.xiE ∧ L.forceOrthotropic.1.plies = L.plies ∧
    L.forceOrthotropic.1.matobj = L.matobj :=
  force_orthotropic_spec_aux L A B D M M8 hoff hA hB hD hM hM8

/-- With an offset `force_orthotropic` raises `RuntimeError` and changes nothing. -/
theorem force_orthotropic_offset [DecidableEq K] (L : Lam K) (hoff : L.offset ≠ 0) :
    L.forceOrthotropic = (L, some .runtimeError) :=
  force_orthotropic_offset_aux L hoff

/-- `ABD` and `ABDE` stay consistent with the blocks: zeroing the couplings in an assembled `[[A, B], [C, D]]` is
assembling the zeroed blocks (and likewise for the 8×8 matrix); a symmetric matrix stays symmetric. -/
theorem force_orthotropic_consistent (A B C D : Mat 3 K) (E : Mat 2 K) (M : Mat 6 K)
    (hsym : ∀ i j, M i j = M j i) :
    (fun i j => if shearCoupling i j then 0 else block6 A B C D i j) =
      block6 (fun i j => if shearCoupling i j then 0 else A i j) (fun i j => if shearCoupling i j then 0 else B i j)
        (fun i j => if shearCoupling i j then 0 else C i j) (fun i j => if shearCoupling i j then 0 else D i j) ∧
    (fun i j => if i.val < 6 ∧ j.val < 6 ∧ shearCoupling i j then 0 else block8 M E i j) =
      block8 (fun i j => if shearCoupling i j then 0 else M i j) E ∧
    ∀ i j : Fin 6, (if shearCoupling i j then 0 else M i j) = (if shearCoupling j i then 0 else M j i) :=
  ⟨dropShearCoupling_block6 A B C D, dropShearCoupling_block8 M E, dropShearCoupling_symm M hsym⟩

/-- `force_symmetric` on an object without offset: raises nothing; `B` becomes the zero matrix, the two coupling
blocks of `ABD` and of `ABDE` become zero, `A`, `D`, `E`, `t` are untouched (and so is `B_general`). -/
theorem force_symmetric_spec [DecidableEq K] (L : Lam K) (A B C D : Mat 3 K) (E : Mat 2 K)
    (hoff : L.offset = 0) (hM : L.ABD = some (block6 A B C D))
    (hM8 : L.ABDE = some (block8 (block6 A B C D) E)) :
    L.forceSymmetric.2 = none ∧
    L.forceSymmetric.1.B = some (fun _ _ => 0) ∧
    L.forceSymmetric.1.ABD = some (block6 A (fun _ _ => 0) (fun _ _ => 0) D) ∧
    L.forceSymmetric.1.ABDE = some (block8 (block6 A (fun _ _ => 0) (fun _ _ => 0) D) E) ∧
    L.forceSymmetric.1.A = L.A ∧ L.forceSymmetric.1.D = L.D ∧ L.forceSymmetric.1.E = L.E ∧
    L.forceSymmetric.1.t = L.t ∧ L.forceSymmetric.1.BG = L.BG :=
  force_symmetric_spec_aux L A B C D E hoff hM hM8

/-- With an offset `force_symmetric` raises `RuntimeError` and changes nothing. -/
theorem force_symmetric_offset [DecidableEq K] (L : Lam K) (hoff : L.offset ≠ 0) :
    L.forceSymmetric = (L, some .runtimeError) :=
  force_symmetric_offset_aux L hoff

/-- `force_symmetric` gives what a symmetric stack gives: on a mid-plane-symmetric stack without offset it changes
none of `A, B, D, E, ABD, ABDE` as `calc_constitutive_matrix` reported them (`B` was already zero). -/
theorem force_symmetric_noop_on_symmetric_stack [DecidableEq K] (L : Lam K) (hoff : L.offset = 0)
    (hsym : (L.plies.map LPly.toPly).reverse = L.plies.map LPly.toPly) :
    L.calcConstitutiveMatrix.forceSymmetric.2 = none ∧
    L.calcConstitutiveMatrix.forceSymmetric.1.A = L.calcConstitutiveMatrix.A ∧
    L.calcConstitutiveMatrix.forceSymmetric.1.B = L.calcConstitutiveMatrix.B ∧
    L.calcConstitutiveMatrix.forceSymmetric.1.D = L.calcConstitutiveMatrix.D ∧
    L.calcConstitutiveMatrix.forceSymmetric.1.E = L.calcConstitutiveMatrix.E ∧
    L.calcConstitutiveMatrix.forceSymmetric.1.ABD = L.calcConstitutiveMatrix.ABD ∧
    L.calcConstitutiveMatrix.forceSymmetric.1.ABDE = L.calcConstitutiveMatrix.ABDE :=
  force_symmetric_noop_aux L hoff hsym

/-- `force_balanced_LP` where `calc_ABDE_from_lamination_parameters` can run: `xiA` becomes `[1, xiA1, 0, xiA3, 0]`; the
new `A` has `A16 = A26 = 0` and — if `xiA[0]` was 1 — the same `A11, A12, A22, A66` as the old parameters give;
`B`, `D`, `E` are recomputed from the unchanged `xiB, xiD, xiE`. -/
theorem force_balanced_LP_spec (L : Lam K) (m : MatProps K) (t : K) (x xiB xiD xiE : Xi K)
    (hm : L.matobj = some m) (ht : L.t = some t) (hA : L.xiA = some x) (hB : L.xiB = some xiB)
    (hD : L.xiD = some xiD) (hE : L.xiE = some xiE) :
    let Q := lpFormula (invariants m) (Xi.smul t ⟨1, x.x1, 0, x.x3, 0⟩)
    let Q0 := lpFormula (invariants m) (Xi.smul t x)
    L.forceBalancedLP.2 = none ∧ L.forceBalancedLP.1.xiA = some ⟨1, x.x1, 0, x.x3, 0⟩ ∧
    L.forceBalancedLP.1.A = some (sym3 Q) ∧ Q.q16 = 0 ∧ Q.q26 = 0 ∧
    (x.x0 = 1 → Q.q11 = Q0.q11 ∧ Q.q12 = Q0.q12 ∧ Q.q22 = Q0.q22 ∧ Q.q66 = Q0.q66) ∧
    L.forceBalancedLP.1.B = L.calcABDEFromLP.1.B ∧ L.forceBalancedLP.1.D = L.calcABDEFromLP.1.D ∧
    L.forceBalancedLP.1.E = L.calcABDEFromLP.1.E ∧
    L.forceBalancedLP.1.ABD = some (block6 (sym3 Q) (sym3 (lpFormula (invariants m) (Xi.smul (t ^ 2 / 4) xiB)))
      (sym3 (lpFormula (invariants m) (Xi.smul (t ^ 2 / 4) xiB)))
      (sym3 (lpFormula (invariants m) (Xi.smul (t ^ 3 / 12) xiD)))) :=
  force_balanced_LP_spec_aux L m t x xiB xiD xiE hm ht hA hB hD hE

/-- `force_balanced_LP` forces what a balanced stack has: if every ply is accompanied by one of equal thickness at the
opposite angle, the weighted sums of `sin 2θ` and `sin 4θ` — `xiA2`, `xiA4` up to the factor `1/t` — vanish. -/
theorem balanced_stack_xiA (l : List (K × Trig K)) (h : K) :
    (xsum wA h (l ++ l.map mirrorT)).x2 = 0 ∧ (xsum wA h (l ++ l.map mirrorT)).x4 = 0 :=
  balanced_stack_xiA_aux l h

/-- … on the object: for a balanced stack (plies carrying the double-angle attributes, listed as `l` followed by the
mirror images of `l`) `calc_lamination_parameters` produces `xiA = [1, xiA1, 0, xiA3, 0]`, which `force_balanced_LP`
leaves as it is. -/
theorem balanced_stack_calc_xiA [DecidableEq K] (L : Lam K) (l : List (K × Trig K))
    (hts : plyTrigs L.plies = some (l ++ l.map mirrorT)) (hT : lthickness L.plies ≠ 0) :
    ∃ x : Xi K, L.calcLaminationParameters.1.xiA = some x ∧ x.x0 = 1 ∧ x.x2 = 0 ∧ x.x4 = 0 ∧
      (⟨1, x.x1, 0, x.x3, 0⟩ : Xi K) = x :=
  balanced_stack_calc_xiA_aux L l hts hT

/-- `force_symmetric_LP` where `calc_ABDE_from_lamination_parameters` can run: `xiB` becomes zero, the new `B` is the
zero matrix, `A`, `D`, `E` are the lamination-parameter formulas at the unchanged `xiA, xiD, xiE`, and `ABD`, `ABDE`
are assembled with zero coupling blocks. -/
theorem force_symmetric_LP_spec (L : Lam K) (m : MatProps K) (t : K) (xiA xiD xiE : Xi K)
    (hm : L.matobj = some m) (ht : L.t = some t) (hA : L.xiA = some xiA) (hD : L.xiD = some xiD)
    (hE : L.xiE = some xiE) :
    L.forceSymmetricLP.2 = none ∧ L.forceSymmetricLP.1.xiB = some ⟨0, 0, 0, 0, 0⟩ ∧
    L.forceSymmetricLP.1.B = some (fun _ _ => 0) ∧
    L.forceSymmetricLP.1.A = some (sym3 (lpFormula (invariants m) (Xi.smul t xiA))) ∧
    L.forceSymmetricLP.1.D = some (sym3 (lpFormula (invariants m) (Xi.smul (t ^ 3 / 12) xiD))) ∧
    L.forceSymmetricLP.1.E = some (shearSwapped (lpFormula (invariants m) (Xi.smul t xiE))) ∧
    L.forceSymmetricLP.1.ABD = some (block6 (sym3 (lpFormula (invariants m) (Xi.smul t xiA))) (fun _ _ => 0)
      (fun _ _ => 0) (sym3 (lpFormula (invariants m) (Xi.smul (t ^ 3 / 12) xiD)))) ∧
    L.forceSymmetricLP.1.ABDE = some (block8 (block6 (sym3 (lpFormula (invariants m) (Xi.smul t xiA)))
      (fun _ _ => 0) (fun _ _ => 0) (sym3 (lpFormula (invariants m) (Xi.smul (t ^ 3 / 12) xiD))))
      (shearSwapped (lpFormula (invariants m) (Xi.smul t xiE)))) :=
  force_symmetric_LP_spec_aux L m t xiA xiD xiE hm ht hA hD hE

/-- `force_symmetric_LP` forces what a symmetric stack has: for a mid-plane-symmetric sequence of (thickness, angle)
without offset all five weighted sums behind `xiB` vanish. -/
theorem symmetric_stack_xiB (ts : List (K × Trig K)) (h : ts.reverse = ts) :
    xsum wB (-(tsum ts) / 2 + 0) ts = Xi.zero :=
  symmetric_stack_xiB_aux ts h

/-- … on the object: for a mid-plane-symmetric stack without offset `calc_lamination_parameters` produces
`xiB = 0`, the value `force_symmetric_LP` assigns. -/
theorem symmetric_stack_calc_xiB [DecidableEq K] (L : Lam K) (ts : List (K × Trig K))
    (hts : plyTrigs L.plies = some ts) (hsym : ts.reverse = ts) (hoff : L.offset = 0)
    (hT : lthickness L.plies ≠ 0) :
    L.calcLaminationParameters.1.xiB = some ⟨0, 0, 0, 0, 0⟩ :=
  symmetric_stack_calc_xiB_aux L ts hts hsym hoff hT

/-- `read_lamination_parameters(thickness, laminaprop, xiA1 … xiE4)` (when `read_laminaprop` accepts the tuple): the
laminate it returns has `t = thickness`, no offset, no plies, and its matrices are the lamination-parameter formulas
`lpFormula` (written out in `Spec/Lamination.lean`) with the invariants `u1 … u7` of the material at
`t·(1, xiA)`, `t²/4·(0, xiB)`, `t³/12·(1, xiD)`, `t·(1, xiE)`; `E = [[E55, E45], [E45, E44]]`; `ABD`, `ABDE` assembled
from these blocks. -/
theorem read_lamination_parameters_spec (th : K) (lp : List K) (m : MatProps K) (a b d e : Xi4 K)
    (hlp : readLaminaprop lp = some m) :
    ∃ R : Lam K, readLaminationParameters th lp a b d e = some (R, none) ∧
      R.t = some th ∧ R.offset = 0 ∧ R.plies = [] ∧ R.matobj = some m ∧
      R.A = some (sym3 (lpFormula (invariants m) (Xi.smul th ⟨1, a.x1, a.x2, a.x3, a.x4⟩))) ∧
      R.B = some (sym3 (lpFormula (invariants m) (Xi.smul (th ^ 2 / 4) ⟨0, b.x1, b.x2, b.x3, b.x4⟩))) ∧
      R.D = some (sym3 (lpFormula (invariants m) (Xi.smul (th ^ 3 / 12) ⟨1, d.x1, d.x2, d.x3, d.x4⟩))) ∧
      R.E = some (shearSwapped (lpFormula (invariants m) (Xi.smul th ⟨1, e.x1, e.x2, e.x3, e.x4⟩))) ∧
      R.ABD = some (block6
        (sym3 (lpFormula (invariants m) (Xi.smul th ⟨1, a.x1, a.x2, a.x3, a.x4⟩)))
        (sym3 (lpFormula (invariants m) (Xi.smul (th ^ 2 / 4) ⟨0, b.x1, b.x2, b.x3, b.x4⟩)))
        (sym3 (lpFormula (invariants m) (Xi.smul (th ^ 2 / 4) ⟨0, b.x1, b.x2, b.x3, b.x4⟩)))
        (sym3 (lpFormula (invariants m) (Xi.smul (th ^ 3 / 12) ⟨1, d.x1, d.x2, d.x3, d.x4⟩)))) ∧
      R.ABDE = some (block8 (block6
        (sym3 (lpFormula (invariants m) (Xi.smul th ⟨1, a.x1, a.x2, a.x3, a.x4⟩)))
        (sym3 (lpFormula (invariants m) (Xi.smul (th ^ 2 / 4) ⟨0, b.x1, b.x2, b.x3, b.x4⟩)))
        (sym3 (lpFormula (invariants m) (Xi.smul (th ^ 2 / 4) ⟨0, b.x1, b.x2, b.x3, b.x4⟩)))
        (sym3 (lpFormula (invariants m) (Xi.smul (th ^ 3 / 12) ⟨1, d.x1, d.x2, d.x3, d.x4⟩))))
        (shearSwapped (lpFormula (invariants m) (Xi.smul th ⟨1, e.x1, e.x2, e.x3, e.x4⟩)))) :=
  read_lamination_parameters_spec_aux th lp m a b d e hlp

/-- Corollary of the round trip: fed with the thickness and the sixteen parameters that `calc_lamination_parameters`
computes for a single-material stack without offset (material with `nu31 = nu32 = 0`, angles on the unit circle),
`read_lamination_parameters` returns a laminate with the `t, A, B, D, ABD` of that stack's
`calc_constitutive_matrix` — and `E` with its two directions exchanged. -/
theorem read_lamination_parameters_of_stack [DecidableEq K] (m : MatProps K) (lp : List K)
    (cst : List (K × K × K)) (L : Lam K) (hlp : readLaminaprop lp = some m)
    (he1 : m.e1 ≠ 0) (h31 : m.nu31 = 0) (h32 : m.nu32 = 0)
    (hcs : ∀ x ∈ cst, x.1 ^ 2 + x.2.1 ^ 2 = 1)
    (hplies : L.plies = cst.map (mkLPly m)) (hT : lthickness L.plies ≠ 0) (hoff : L.offset = 0)
    (xa xb xd xe : Xi K)
    (hxa : L.calcLaminationParameters.1.xiA = some xa) (hxb : L.calcLaminationParameters.1.xiB = some xb)
    (hxd : L.calcLaminationParameters.1.xiD = some xd) (hxe : L.calcLaminationParameters.1.xiE = some xe) :
    ∃ R : Lam K, readLaminationParameters (lthickness L.plies) lp ⟨xa.x1, xa.x2, xa.x3, xa.x4⟩
        ⟨xb.x1, xb.x2, xb.x3, xb.x4⟩ ⟨xd.x1, xd.x2, xd.x3, xd.x4⟩ ⟨xe.x1, xe.x2, xe.x3, xe.x4⟩ = some (R, none) ∧
      R.t = L.calcConstitutiveMatrix.t ∧ R.A = L.calcConstitutiveMatrix.A ∧ R.B = L.calcConstitutiveMatrix.B ∧
      R.D = L.calcConstitutiveMatrix.D ∧ R.ABD = L.calcConstitutiveMatrix.ABD ∧
      R.E = some (shearSwapped (abd (L.plies.map LPly.toPly) L.offset).A) :=
  read_lamination_parameters_of_stack_aux m lp cst L hlp he1 h31 h32 hcs hplies hT hoff xa xb xd xe hxa hxb hxd hxe

/-- `calc_equivalent_modulus` where it does not raise (`ABD` exists, `np.linalg.inv` returns `AI`, `t` is set):
`e1 = 1/(t·AI[0,0])`, `e2 = 1/(t·AI[1,1])`, `g12 = 1/(t·AI[2,2])`, `nu12 = −AI[0,1]/AI[0,0]`,
`nu21 = −AI[0,1]/AI[1,1]` with `AI` the inverse of the FULL 6×6 matrix; no matrix is changed. -/
theorem equivalent_modulus_spec (inv : Mat 6 K → Option (Mat 6 K)) (L : Lam K) (M AI : Mat 6 K) (t : K)
    (hM : L.ABD = some M) (hinv : inv M = some AI) (ht : L.t = some t) :
    (L.calcEquivalentModulus inv).2 = none ∧
    (L.calcEquivalentModulus inv).1.e1 = some (1 / (t * AI 0 0)) ∧
    (L.calcEquivalentModulus inv).1.e2 = some (1 / (t * AI 1 1)) ∧
    (L.calcEquivalentModulus inv).1.g12 = some (1 / (t * AI 2 2)) ∧
    (L.calcEquivalentModulus inv).1.nu12 = some (-AI 0 1 / AI 0 0) ∧
    (L.calcEquivalentModulus inv).1.nu21 = some (-AI 0 1 / AI 1 1) ∧
    (L.calcEquivalentModulus inv).1.A = L.A ∧ (L.calcEquivalentModulus inv).1.B = L.B ∧
    (L.calcEquivalentModulus inv).1.D = L.D ∧ (L.calcEquivalentModulus inv).1.E = L.E ∧
    (L.calcEquivalentModulus inv).1.ABD = L.ABD ∧ (L.calcEquivalentModulus inv).1.ABDE = L.ABDE :=
  equivalent_modulus_spec_aux inv L M AI t hM hinv ht

/-- When the coupling blocks of `ABD` vanish, the 3×3 block `AI[0:3, 0:3]` that `calc_equivalent_modulus` reads is a
right inverse of `A` (genuine matrix products): the constants are then those of `(A/t)⁻¹`.  (With `B ≠ 0` they are
those of the inverse of the Schur complement `A − B D⁻¹ B`, not of `A`.) -/
theorem equivalent_modulus_uses_inverse_of_A (A D : Mat 3 K) (AI : Mat 6 K)
    (h : Matrix.of (block6 A (fun _ _ => 0) (fun _ _ => 0) D) * Matrix.of AI = 1) :
    Matrix.of A * Matrix.of (fun (i j : Fin 3) => AI ⟨i.val, by omega⟩ ⟨j.val, by omega⟩) = 1 :=
  inverse_block_of_uncoupled A D AI h

/-- A single unrotated (`c = 1, s = 0`) orthotropic ply without offset, `np.linalg.inv` returning a right inverse:
`calc_equivalent_modulus` after `calc_constitutive_matrix` returns the ply's own `e1, e2, g12, nu12, nu21`. -/
theorem equivalent_modulus_single_ply (inv : Mat 6 K → Option (Mat 6 K)) (L : Lam K) (m : MatProps K) (t : K)
    (hplies : L.plies.map LPly.toPly = [⟨t, rotQ 1 0 (planeStressQ m)⟩]) (hoff : L.offset = 0)
    (ht : t ≠ 0) (he1 : m.e1 ≠ 0) (he2 : m.e2 ≠ 0) (hg : m.g12 ≠ 0) (hd : 1 - m.nu12 * m.nu21 ≠ 0)
    (M AI : Mat 6 K) (hM : L.calcConstitutiveMatrix.ABD = some M) (hinv : inv M = some AI)
    (hprod : Matrix.of M * Matrix.of AI = 1) :
    (L.calcConstitutiveMatrix.calcEquivalentModulus inv).2 = none ∧
    (L.calcConstitutiveMatrix.calcEquivalentModulus inv).1.e1 = some m.e1 ∧
    (L.calcConstitutiveMatrix.calcEquivalentModulus inv).1.e2 = some m.e2 ∧
    (L.calcConstitutiveMatrix.calcEquivalentModulus inv).1.g12 = some m.g12 ∧
    (L.calcConstitutiveMatrix.calcEquivalentModulus inv).1.nu12 = some m.nu12 ∧
    (L.calcConstitutiveMatrix.calcEquivalentModulus inv).1.nu21 = some m.nu21 :=
  equivalent_modulus_single_ply_aux inv L m t hplies hoff ht he1 he2 hg hd M AI hM hinv hprod

end lamination

section lamination_real

/-- Positive definiteness survives `force_orthotropic`: for ANY 6×6 matrix with `xᵀ M x > 0` for all `x ≠ 0`, the
matrix with the direct–shear couplings zeroed is positive definite as well (it is the average of `M` and of the
matrix of the mirrored laminate). -/
theorem force_orthotropic_posdef (M : Mat 6 ℝ) (h : PosDef6 M) :
    PosDef6 (fun i j => if shearCoupling i j then 0 else M i j) :=
  force_orthotropic_posdef_aux M h

/-- … in particular for admissible plies: a non-empty stack of admissible plies with positive thicknesses at angles
on the unit circle, no offset; after `calc_constitutive_matrix` and `force_orthotropic` (which raises nothing) the
reported `ABD` is positive definite and symmetric. -/
theorem force_orthotropic_posdef_stack (L : Lam ℝ) (ps : List (PlyIn ℝ)) (ms : List (MatProps ℝ))
    (hoff : L.offset = 0) (hne : ps ≠ []) (hlen : ms.length = ps.length)
    (hplies : L.plies.map LPly.toPly =
      (List.zip ps ms).map fun pm => ⟨pm.1.t, rotQ pm.1.c pm.1.s (planeStressQ pm.2)⟩)
    (hadm : ∀ m ∈ ms, Admissible m) (hcs : ∀ p ∈ ps, p.c ^ 2 + p.s ^ 2 = 1 ∧ 0 < p.t) :
    L.calcConstitutiveMatrix.forceOrthotropic.2 = none ∧
    ∃ M, L.calcConstitutiveMatrix.forceOrthotropic.1.ABD = some M ∧ PosDef6 M ∧ ∀ i j, M i j = M j i :=
  force_orthotropic_posdef_stack_aux L ps ms hoff hne hlen hplies hadm hcs

/-- Positive definiteness survives `force_symmetric` as well (zeroing the two coupling blocks). -/
theorem force_symmetric_posdef (M : Mat 6 ℝ) (h : PosDef6 M) : PosDef6 (zeroCoupling M) :=
  force_symmetric_posdef_aux M h

end lamination_real

/-! Non-vacuity of the lamination-parameter theorems. -/

/-- the hypotheses of `lp_roundtrip_offset_partial`, `…_offset_counterexample`, `…_E_counterexample` hold for a
concrete one-ply laminate (planar material, offset 1, `g13 ≠ g23`) -/
example :
    mPlanar.e1 ≠ 0 ∧ mPlanar.nu31 = 0 ∧ mPlanar.nu32 = 0 ∧
    (∀ x ∈ [((1:ℚ), (0:ℚ), (1:ℚ))], x.1 ^ 2 + x.2.1 ^ 2 = 1) ∧
    lamOffset.plies = [((1:ℚ), (0:ℚ), (1:ℚ))].map (mkLPly mPlanar) ∧ lthickness lamOffset.plies ≠ 0 ∧
    lamOffset.matobj = some mPlanar ∧ lamOffset.offset ≠ 0 ∧ (invariants mPlanar).u1 ≠ 0 ∧
    (abd (lamOffset.plies.map LPly.toPly) lamOffset.offset).A.q44 ≠
      (abd (lamOffset.plies.map LPly.toPly) lamOffset.offset).A.q55 := lamOffset_hyps

/-- `rotQ_eq_invariants`, `lp_roundtrip_partial`: a planar material exists (`mPlanar`: `nu13 = nu23 = 0`) -/
example : mPlanar.e1 ≠ 0 ∧ mPlanar.nu31 = 0 ∧ mPlanar.nu32 = 0 :=
  ⟨lamOffset_hyps.1, lamOffset_hyps.2.1, lamOffset_hyps.2.2.1⟩

/-- `force_orthotropic_spec`, `force_symmetric_spec`: the object `calc_constitutive_matrix` leaves has all six
matrices and — for a laminate without offset — offset 0. -/
example (L : Lam ℚ) (h : L.offset = 0) :
    L.calcConstitutiveMatrix.offset = 0 ∧ L.calcConstitutiveMatrix.A.isSome ∧ L.calcConstitutiveMatrix.ABD.isSome ∧
      L.calcConstitutiveMatrix.ABDE.isSome := ⟨h, rfl, rfl, rfl⟩

/-- `balanced_stack_calc_xiA`, `symmetric_stack_calc_xiB`: a two-ply stack `[+θ, −θ]` resp. `[θ, θ]` (`cos θ = 3/5`)
meets the hypotheses. -/
example :
    plyTrigs ([⟨1, Q9.zero, some (trigOf (3/5) (4/5))⟩, ⟨1, Q9.zero, some (mirrorT (1, trigOf (3/5) (4/5))).2⟩] :
      List (LPly ℚ)) = some ([((1:ℚ), trigOf (3/5) (4/5))] ++ [((1:ℚ), trigOf (3/5) (4/5))].map mirrorT) ∧
    lthickness ([⟨1, Q9.zero, some (trigOf (3/5) (4/5))⟩, ⟨1, Q9.zero, some (mirrorT (1, trigOf (3/5) (4/5))).2⟩] :
      List (LPly ℚ)) ≠ 0 ∧
    [((1:ℚ), trigOf (3/5 : ℚ) (4/5)), ((1:ℚ), trigOf (3/5 : ℚ) (4/5))].reverse =
      [((1:ℚ), trigOf (3/5 : ℚ) (4/5)), ((1:ℚ), trigOf (3/5 : ℚ) (4/5))] := by
  refine ⟨rfl, ?_, rfl⟩
  norm_num [lthickness]

/-- `force_orthotropic_posdef`: the identity matrix is positive definite. -/
example : PosDef6 (fun i j => if i = j then (1 : ℝ) else 0) := by
  intro x hx
  have : qform6 (fun i j => if i = j then (1 : ℝ) else 0) x = ∑ i, x i ^ 2 := by
    simp [qform6_expand, Finset.sum_ite_eq, sq]
  rw [this]
  obtain ⟨i, hi⟩ : ∃ i, x i ≠ 0 := by
    by_contra hall
    exact hx (funext fun i => by simpa using fun h => hall ⟨i, h⟩)
  exact Finset.sum_pos' (fun j _ => sq_nonneg _) ⟨i, Finset.mem_univ _, by positivity⟩

/-- `read_lamination_parameters_spec`, `force_*_LP_spec`: `read_laminaprop` accepts the isotropic tuple, and the
object `read_lamination_parameters` returns has material, thickness and the four parameter vectors. -/
example : readLaminaprop [(1 : ℚ), 1, 1 / 4] = some mIso := mIso_read

/-- `equivalent_modulus_single_ply`: a right inverse exists for the one-ply `ABD` of the material `mOne`, thickness 1
(`ABD = diag(1,1,1,1/12,1/12,1/12)`, inverse `diag(1,1,1,12,12,12)`). -/
example : Matrix.of (block6 (sym3 (Q9.smul (1:ℚ) (rotQ 1 0 (planeStressQ mOne)))) (sym3 Q9.zero) (sym3 Q9.zero)
      (sym3 (Q9.smul ((1:ℚ) ^ 3 / 12) (rotQ 1 0 (planeStressQ mOne))))) *
    Matrix.of (fun i j : Fin 6 => if i = j then (if i.val < 3 then (1:ℚ) else 12) else 0) = 1 := by
  have hq : rotQ (1:ℚ) 0 (planeStressQ mOne) = ⟨1, 0, 1, 0, 0, 1, 1, 0, 1⟩ := by
    ext <;> norm_num [rotQ, planeStressQ, mOne, MatProps.nu21]
  rw [hq]
  ext i j
  fin_cases i <;> fin_cases j <;>
    norm_num [Matrix.mul_apply, Fin.sum_univ_six, block6, sym3, mat3, Q9.smul, Q9.zero, Matrix.one_apply]

/-! Non-vacuity: a concrete 3-ply unsymmetric stack meets the hypotheses of `abd_posdef`. -/
example : Admissible (⟨142, 8, 3/10, 5, 5, 3, 8, 3/10, 3/10⟩ : MatProps ℝ) := by
  unfold Admissible MatProps.nu21; norm_num

example : ((3/5 : ℝ)) ^ 2 + (4/5) ^ 2 = 1 ∧ (0:ℝ) < 1/8 := by norm_num

end Compmech.Laminate.C01
