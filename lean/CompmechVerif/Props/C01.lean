/-
C01 — Laminate ABD/ABDE matrices are the through-thickness integral of rotated ply stiffness.
Only property theorems live here; helper lemmas are in `Spec/RotationLemmas.lean`.
Every theorem is about `Model/Laminate.lean`, which is tied to compmech/composite/*.py by the
correspondence harness `tools/props/C01.py`.
-/
import CompmechVerif.Spec.RotationLemmas

namespace Compmech.Laminate.C01
open Compmech.Laminate

section algebraic
variable {K : Type} [Field K] [CharZero K]

/-- `rotStrain` really is tensor rotation `R e Rᵀ` of the symmetric strain tensor. -/
theorem rotStrain_eq_tensor (c s : K) (e : V3 K) :
    !![c, s; -s, c] * !![e.x, e.g / 2; e.g / 2, e.y] * (!![c, s; -s, c] : Matrix (Fin 2) (Fin 2) K).transpose
      = !![(rotStrain c s e).x, (rotStrain c s e).g / 2; (rotStrain c s e).g / 2, (rotStrain c s e).y] :=
  rotStrain_eq_tensor_aux c s e

/-- The nine closed formulas of `Lamina.rebuild` are tensor rotation of the ply stiffness:
the energy density of the rotated matrix at a laminate-axes strain equals the energy density
of the ply matrix at the strain seen in ply axes — for *all* `c, s` (in particular this fixes
`sin³cos` vs `sin cos³`, the factors 2 and 4, and every sign). -/
theorem rotQ_eq_tensor_rotation (c s : K) (q : Q9 K) (e : V3 K) :
    quad3 (rotQ c s q) e = quad3 q.ortho (rotStrain c s e) :=
  rotQ_energy c s q e

/-- Same for the transverse-shear block (`γyz, γxz` rotate as a vector). -/
theorem rotQ_shear_eq_rotation (c s : K) (q : Q9 K) (g4 g5 : K) :
    quad2 (rotQ c s q) g4 g5 = quad2 q.ortho (c * g4 - s * g5) (s * g4 + c * g5) :=
  rotQ_shear_energy c s q g4 g5

/-- A symmetric matrix is determined by its quadratic form, so the two theorems above pin down
all nine entries of `rotQ`. -/
theorem quad_determines (q q' : Q9 K)
    (h3 : ∀ e, quad3 q e = quad3 q' e) (h2 : ∀ g4 g5, quad2 q g4 g5 = quad2 q' g4 g5) : q = q' :=
  quad_determines_aux q q' h3 h2

/-- Moving the reference surface by `d`: `A` unchanged, `B' = B + d·A`, `D' = D + 2d·B + d²·A`
— for every ply list and offset. -/
theorem abd_offset_shift (plies : List (Ply K)) (offset d : K) :
    (abd plies (offset + d)).A = (abd plies offset).A ∧
    (abd plies (offset + d)).B = (abd plies offset).B.add (Q9.smul d (abd plies offset).A) ∧
    (abd plies (offset + d)).D =
      ((abd plies offset).D.add (Q9.smul (2 * d) (abd plies offset).B)).add
        (Q9.smul (d ^ 2) (abd plies offset).A) :=
  abd_offset_shift_aux plies offset d

/-- A mid-plane-symmetric stack (palindromic list of plies) without offset has `B = 0`. -/
theorem symmetric_stack_B_zero (plies : List (Ply K)) (h : plies.reverse = plies) :
    (abd plies 0).B = Q9.zero :=
  symmetric_stack_B_zero_aux plies h

/-- `A` does not depend on the ply order. -/
theorem A_perm_invariant (plies plies' : List (Ply K)) (h : plies.Perm plies') (o o' : K) :
    (abd plies o).A = (abd plies' o').A :=
  A_perm_invariant_aux plies plies' h o o'

/-- Mirroring one ply angle (θ ↦ −θ, i.e. `s ↦ −s`) flips the sign of the 16, 26, 45 entries only. -/
theorem rotQ_mirror (c s : K) (q : Q9 K) : rotQ c (-s) q = (rotQ c s q).mirror :=
  rotQ_mirror_aux c s q

/-- Mirroring every ply of a laminate flips exactly the 16/26/45 entries of `A, B, D`. -/
theorem mirror_angles (plies : List (Ply K)) (offset : K) :
    let m := abd (plies.map fun p => ⟨p.t, p.QL.mirror⟩) offset
    m.A = (abd plies offset).A.mirror ∧ m.B = (abd plies offset).B.mirror ∧
      m.D = (abd plies offset).D.mirror :=
  mirror_angles_aux plies offset

/-- Turning one ply by 90° (`(c, s) ↦ (−s, c)`) exchanges the 1 and 2 (and 4 and 5) axes. -/
theorem rotQ_turn90 (c s : K) (q : Q9 K) : rotQ (-s) c q = (rotQ c s q).turn90 :=
  rotQ_turn90_aux c s q

/-- Turning every ply by 90° permutes / sign-flips the entries of `A, B, D` in the same way. -/
theorem rotate_90 (plies : List (Ply K)) (offset : K) :
    let m := abd (plies.map fun p => ⟨p.t, p.QL.turn90⟩) offset
    m.A = (abd plies offset).A.turn90 ∧ m.B = (abd plies offset).B.turn90 ∧
      m.D = (abd plies offset).D.turn90 :=
  rotate_90_aux plies offset

/-- The reported 6×6 matrix is symmetric. -/
theorem abd_symm (plies : List (Ply K)) (offset : K) : (abdMatrix (abd plies offset)).IsSymm :=
  abd_symm_aux plies offset

/-- The uniform argument form (`plyt`, `laminaprop`) equals the per-ply form with repeated values. -/
theorem uniform_eq_perply [DecidableEq K] (cs : List (K × K)) (t : K) (p : List K) (offset : K)
    (ht : t ≠ 0) (hp : p ≠ []) (hcs : cs ≠ []) :
    readStack cs (some t) (some p) [] [] offset =
      readStack cs none none (cs.map fun _ => t) (cs.map fun _ => p) offset :=
  uniform_eq_perply_aux cs t p offset ht hp hcs

end algebraic

section real

/-- `A, B, D` (and `E`, which is the 44/45/55 part of `A`) are the through-thickness integrals
with weights `1, z, z²` of the rotated ply matrices, the plies stacked from `-t/2 + offset`. -/
theorem abd_eq_integral (plies : List (Ply ℝ)) (offset : ℝ) :
    let h0 := -(thickness plies) / 2 + offset
    (abd plies offset).A = integralSpec (fun _ => 1) h0 plies ∧
    (abd plies offset).B = integralSpec (fun z => z) h0 plies ∧
    (abd plies offset).D = integralSpec (fun z => z ^ 2) h0 plies :=
  abd_eq_integral_aux plies offset

/-- Plane-stress ply stiffness is positive definite for admissible constants. -/
theorem planeStressQ_posdef (m : MatProps ℝ) (hm : Admissible m) (e : V3 ℝ)
    (he : e.x ≠ 0 ∨ e.y ≠ 0 ∨ e.g ≠ 0) : 0 < quad3 (planeStressQ m) e :=
  planeStressQ_posdef_aux m hm e he

/-- `ABD` is positive definite for every non-empty stack of admissible plies with positive
thicknesses at angles on the unit circle, for any offset. -/
theorem abd_posdef (ps : List (PlyIn ℝ)) (ms : List (MatProps ℝ)) (plies : List (Ply ℝ)) (offset : ℝ)
    (hne : ps ≠ [])
    (hlen : ms.length = ps.length)
    (hplies : plies = (List.zip ps ms).map fun pm => ⟨pm.1.t, rotQ pm.1.c pm.1.s (planeStressQ pm.2)⟩)
    (hadm : ∀ m ∈ ms, Admissible m)
    (hcs : ∀ p ∈ ps, p.c ^ 2 + p.s ^ 2 = 1 ∧ 0 < p.t)
    (e k : V3 ℝ) (hek : e.x ≠ 0 ∨ e.y ≠ 0 ∨ e.g ≠ 0 ∨ k.x ≠ 0 ∨ k.y ≠ 0 ∨ k.g ≠ 0) :
    0 < quadABD (abd plies offset) e k :=
  abd_posdef_aux ps ms plies offset hne hlen hplies hadm hcs e k hek

/-- The transverse-shear matrix `E` is positive definite under the same hypotheses. -/
theorem E_posdef (ps : List (PlyIn ℝ)) (ms : List (MatProps ℝ)) (plies : List (Ply ℝ)) (offset : ℝ)
    (hne : ps ≠ [])
    (hlen : ms.length = ps.length)
    (hplies : plies = (List.zip ps ms).map fun pm => ⟨pm.1.t, rotQ pm.1.c pm.1.s (planeStressQ pm.2)⟩)
    (hadm : ∀ m ∈ ms, Admissible m)
    (hcs : ∀ p ∈ ps, p.c ^ 2 + p.s ^ 2 = 1 ∧ 0 < p.t)
    (g4 g5 : ℝ) (hg : g4 ≠ 0 ∨ g5 ≠ 0) :
    0 < quad2 (abd plies offset).A g4 g5 :=
  E_posdef_aux ps ms plies offset hne hlen hplies hadm hcs g4 g5 hg

/-- `quadABD` is the quadratic form of the reported 6×6 matrix. -/
theorem quadABD_eq_matrix (a : Acc ℝ) (e k : V3 ℝ) :
    quadABD a e k =
      dotProduct ![e.x, e.y, e.g, k.x, k.y, k.g] ((abdMatrix a).mulVec ![e.x, e.y, e.g, k.x, k.y, k.g]) :=
  quadABD_eq_matrix_aux a e k

end real

/-! Non-vacuity: a concrete 3-ply unsymmetric stack meets the hypotheses of `abd_posdef`. -/
example : Admissible (⟨142, 8, 3/10, 5, 5, 3, 8, 3/10, 3/10⟩ : MatProps ℝ) := by
  unfold Admissible MatProps.nu21; norm_num

example : ((3/5 : ℝ)) ^ 2 + (4/5) ^ 2 = 1 ∧ (0:ℝ) < 1/8 := by norm_num

end Compmech.Laminate.C01
