/-
C16 — complete-shell (cone / cylinder) linear matrices.

The kernel models `Compmech.Gen.CC.<Model>.<fn>_e<k> : CCV K → K` (one per entry statement of fk0, fk0_cyl, fk0edges, fkG0,
fkG0_cyl of the 17 `*_linear.pyx` modules) are REGENERATED from the source on every run (tools/translate/gen_conecyl.py), and so
are the per-position theorem files next to them:

  Gen/ConeCyl/<Model>Lin.lean   T1  every geometric-stiffness entry is linear in (Fc, P, T)            — all entries, all models
  Gen/ConeCyl/<Model>Cyl.lean   T3  cone kernel at sin α = 0, cos α = 1 over [0, L] (`atEnds`) = cylinder kernel, position by
                                    position (`fk0_at_ends_<n>`, `fkG0_at_ends_<n>`)                    — every position at which it is true
  Gen/ConeCyl/<Iso>Iso.lean     T2  isotropic short-cut kernel = general kernel on the isotropic laminate (`isoLam`)
                                    (`fk0_iso_<n>`, `fk0_cyl_iso_<n>`; `trig` positions via `trigParam`)

Positions at which an identity is FALSE for the current source carry no theorem; the check reports them with the exact
rational witness (VIOLATION unless listed in known_findings.json: the stale index of the isotropic k0_01 block, and the cone
kernels of fsdt_donnell_bcn / fsdt_sanders_bcn).  Positions listed in tools/translate/conecyl_unproved.json are covered by the
exact rational evaluation only.

This file holds the statements that do not depend on the entry list: the per-model aggregates of T1, what linearity gives
(`combined_load_split_adds_up`, `kG0_linear_combination`), the symmetry produced by `make_symmetric`, the telescoping of
constant-radius sections, and the real-analysis facts that justify `atEnds` and `trigParam`.
-/
import CompmechVerif.Gen.ConeCyl.ClptDonnellBc1Cyl
import CompmechVerif.Gen.ConeCyl.ClptDonnellBc1Lin
import CompmechVerif.Gen.ConeCyl.ClptDonnellBc2Cyl
import CompmechVerif.Gen.ConeCyl.ClptDonnellBc2Lin
import CompmechVerif.Gen.ConeCyl.ClptDonnellBc3Cyl
import CompmechVerif.Gen.ConeCyl.ClptDonnellBc3Lin
import CompmechVerif.Gen.ConeCyl.ClptDonnellBc4Cyl
import CompmechVerif.Gen.ConeCyl.ClptDonnellBc4Lin
import CompmechVerif.Gen.ConeCyl.ClptDonnellBcnCyl
import CompmechVerif.Gen.ConeCyl.ClptDonnellBcnLin
import CompmechVerif.Gen.ConeCyl.ClptSandersBc1Cyl
import CompmechVerif.Gen.ConeCyl.ClptSandersBc1Lin
import CompmechVerif.Gen.ConeCyl.ClptSandersBc2Cyl
import CompmechVerif.Gen.ConeCyl.ClptSandersBc2Lin
import CompmechVerif.Gen.ConeCyl.ClptSandersBc3Cyl
import CompmechVerif.Gen.ConeCyl.ClptSandersBc3Lin
import CompmechVerif.Gen.ConeCyl.ClptSandersBc4Cyl
import CompmechVerif.Gen.ConeCyl.ClptSandersBc4Lin
import CompmechVerif.Gen.ConeCyl.IsoClptDonnellBc2Cyl
import CompmechVerif.Gen.ConeCyl.IsoClptDonnellBc2Iso
import CompmechVerif.Gen.ConeCyl.IsoClptDonnellBc3Cyl
import CompmechVerif.Gen.ConeCyl.IsoClptDonnellBc3Iso
import CompmechVerif.Gen.ConeCyl.FsdtDonnellBc1Cyl
import CompmechVerif.Gen.ConeCyl.FsdtDonnellBc1Lin
import CompmechVerif.Gen.ConeCyl.FsdtDonnellBc2Cyl
import CompmechVerif.Gen.ConeCyl.FsdtDonnellBc2Lin
import CompmechVerif.Gen.ConeCyl.FsdtDonnellBc3Cyl
import CompmechVerif.Gen.ConeCyl.FsdtDonnellBc3Lin
import CompmechVerif.Gen.ConeCyl.FsdtDonnellBc4Cyl
import CompmechVerif.Gen.ConeCyl.FsdtDonnellBc4Lin
import CompmechVerif.Gen.ConeCyl.FsdtDonnellBcnCyl
import CompmechVerif.Gen.ConeCyl.FsdtDonnellBcnLin
import CompmechVerif.Gen.ConeCyl.FsdtSandersBcnCyl
import CompmechVerif.Gen.ConeCyl.FsdtSandersBcnLin
import CompmechVerif.Model.AssemblyLemmas
import Mathlib.Analysis.SpecialFunctions.Trigonometric.Basic

namespace Compmech.CC.C16
open Compmech.CC Compmech.Gen.CC

section linear
variable {K : Type} [Field K]

/-! ### T1: the geometric stiffness is linear in the load triple — every entry of every model (cone and cylinder kernels) -/

theorem kG0_linear_in_loads_ClptDonnellBc1 :
    (∀ e ∈ (ClptDonnellBc1.fkG0_entries : List (CCV K → K)), LinearInLoads e) ∧
    (∀ e ∈ (ClptDonnellBc1.fkG0_cyl_entries : List (CCV K → K)), LinearInLoads e) :=
  ⟨ClptDonnellBc1.fkG0_linear_all, ClptDonnellBc1.fkG0_cyl_linear_all⟩

theorem kG0_linear_in_loads_ClptDonnellBc2 :
    (∀ e ∈ (ClptDonnellBc2.fkG0_entries : List (CCV K → K)), LinearInLoads e) ∧
    (∀ e ∈ (ClptDonnellBc2.fkG0_cyl_entries : List (CCV K → K)), LinearInLoads e) :=
  ⟨ClptDonnellBc2.fkG0_linear_all, ClptDonnellBc2.fkG0_cyl_linear_all⟩

theorem kG0_linear_in_loads_ClptDonnellBc3 :
    (∀ e ∈ (ClptDonnellBc3.fkG0_entries : List (CCV K → K)), LinearInLoads e) ∧
    (∀ e ∈ (ClptDonnellBc3.fkG0_cyl_entries : List (CCV K → K)), LinearInLoads e) :=
  ⟨ClptDonnellBc3.fkG0_linear_all, ClptDonnellBc3.fkG0_cyl_linear_all⟩

theorem kG0_linear_in_loads_ClptDonnellBc4 :
    (∀ e ∈ (ClptDonnellBc4.fkG0_entries : List (CCV K → K)), LinearInLoads e) ∧
    (∀ e ∈ (ClptDonnellBc4.fkG0_cyl_entries : List (CCV K → K)), LinearInLoads e) :=
  ⟨ClptDonnellBc4.fkG0_linear_all, ClptDonnellBc4.fkG0_cyl_linear_all⟩

theorem kG0_linear_in_loads_ClptDonnellBcn :
    (∀ e ∈ (ClptDonnellBcn.fkG0_entries : List (CCV K → K)), LinearInLoads e) ∧
    (∀ e ∈ (ClptDonnellBcn.fkG0_cyl_entries : List (CCV K → K)), LinearInLoads e) :=
  ⟨ClptDonnellBcn.fkG0_linear_all, ClptDonnellBcn.fkG0_cyl_linear_all⟩

theorem kG0_linear_in_loads_ClptSandersBc1 :
    (∀ e ∈ (ClptSandersBc1.fkG0_entries : List (CCV K → K)), LinearInLoads e) ∧
    (∀ e ∈ (ClptSandersBc1.fkG0_cyl_entries : List (CCV K → K)), LinearInLoads e) :=
  ⟨ClptSandersBc1.fkG0_linear_all, ClptSandersBc1.fkG0_cyl_linear_all⟩

theorem kG0_linear_in_loads_ClptSandersBc2 :
    (∀ e ∈ (ClptSandersBc2.fkG0_entries : List (CCV K → K)), LinearInLoads e) ∧
    (∀ e ∈ (ClptSandersBc2.fkG0_cyl_entries : List (CCV K → K)), LinearInLoads e) :=
  ⟨ClptSandersBc2.fkG0_linear_all, ClptSandersBc2.fkG0_cyl_linear_all⟩

theorem kG0_linear_in_loads_ClptSandersBc3 :
    (∀ e ∈ (ClptSandersBc3.fkG0_entries : List (CCV K → K)), LinearInLoads e) ∧
    (∀ e ∈ (ClptSandersBc3.fkG0_cyl_entries : List (CCV K → K)), LinearInLoads e) :=
  ⟨ClptSandersBc3.fkG0_linear_all, ClptSandersBc3.fkG0_cyl_linear_all⟩

theorem kG0_linear_in_loads_ClptSandersBc4 :
    (∀ e ∈ (ClptSandersBc4.fkG0_entries : List (CCV K → K)), LinearInLoads e) ∧
    (∀ e ∈ (ClptSandersBc4.fkG0_cyl_entries : List (CCV K → K)), LinearInLoads e) :=
  ⟨ClptSandersBc4.fkG0_linear_all, ClptSandersBc4.fkG0_cyl_linear_all⟩

theorem kG0_linear_in_loads_FsdtDonnellBc1 :
    (∀ e ∈ (FsdtDonnellBc1.fkG0_entries : List (CCV K → K)), LinearInLoads e) ∧
    (∀ e ∈ (FsdtDonnellBc1.fkG0_cyl_entries : List (CCV K → K)), LinearInLoads e) :=
  ⟨FsdtDonnellBc1.fkG0_linear_all, FsdtDonnellBc1.fkG0_cyl_linear_all⟩

theorem kG0_linear_in_loads_FsdtDonnellBc2 :
    (∀ e ∈ (FsdtDonnellBc2.fkG0_entries : List (CCV K → K)), LinearInLoads e) ∧
    (∀ e ∈ (FsdtDonnellBc2.fkG0_cyl_entries : List (CCV K → K)), LinearInLoads e) :=
  ⟨FsdtDonnellBc2.fkG0_linear_all, FsdtDonnellBc2.fkG0_cyl_linear_all⟩

theorem kG0_linear_in_loads_FsdtDonnellBc3 :
    (∀ e ∈ (FsdtDonnellBc3.fkG0_entries : List (CCV K → K)), LinearInLoads e) ∧
    (∀ e ∈ (FsdtDonnellBc3.fkG0_cyl_entries : List (CCV K → K)), LinearInLoads e) :=
  ⟨FsdtDonnellBc3.fkG0_linear_all, FsdtDonnellBc3.fkG0_cyl_linear_all⟩

theorem kG0_linear_in_loads_FsdtDonnellBc4 :
    (∀ e ∈ (FsdtDonnellBc4.fkG0_entries : List (CCV K → K)), LinearInLoads e) ∧
    (∀ e ∈ (FsdtDonnellBc4.fkG0_cyl_entries : List (CCV K → K)), LinearInLoads e) :=
  ⟨FsdtDonnellBc4.fkG0_linear_all, FsdtDonnellBc4.fkG0_cyl_linear_all⟩

theorem kG0_linear_in_loads_FsdtDonnellBcn :
    (∀ e ∈ (FsdtDonnellBcn.fkG0_entries : List (CCV K → K)), LinearInLoads e) ∧
    (∀ e ∈ (FsdtDonnellBcn.fkG0_cyl_entries : List (CCV K → K)), LinearInLoads e) :=
  ⟨FsdtDonnellBcn.fkG0_linear_all, FsdtDonnellBcn.fkG0_cyl_linear_all⟩

theorem kG0_linear_in_loads_FsdtSandersBcn :
    (∀ e ∈ (FsdtSandersBcn.fkG0_entries : List (CCV K → K)), LinearInLoads e) ∧
    (∀ e ∈ (FsdtSandersBcn.fkG0_cyl_entries : List (CCV K → K)), LinearInLoads e) :=
  ⟨FsdtSandersBcn.fkG0_linear_all, FsdtSandersBcn.fkG0_cyl_linear_all⟩

/-- What linearity gives, entry by entry: the combined-load split adds up,
`kG0(Fc, P, T) = kG0(Fc, 0, 0) + kG0(0, P, 0) + kG0(0, 0, T)` (what `_calc_linear_matrices(combined_load_case=…)` stores as
`kG0_Fc + kG0_P + kG0_T`). -/
theorem combined_load_split_adds_up (e : CCV K → K) (h : LinearInLoads e) (v : CCV K) (Fc P T : K) :
    e (withLoads v Fc P T) = e (withLoads v Fc 0 0) + e (withLoads v 0 P 0) + e (withLoads v 0 0 T) :=
  h.split v Fc P T

/-- … and the matrix of a linear combination of two load triples is the linear combination of the matrices. -/
theorem kG0_linear_combination (e : CCV K → K) (h : LinearInLoads e) (v : CCV K) (s t a b c a' b' c' : K) :
    e (withLoads v (s * a + t * a') (s * b + t * b') (s * c + t * c')) =
      s * e (withLoads v a b c) + t * e (withLoads v a' b' c') :=
  h.combine v s t a b c a' b' c'

/-- `make_symmetric` (applied by `_calc_linear_matrices` to k0, kG0 and the three split matrices) returns a symmetric
matrix whatever the kernel wrote, for every COO list. -/
theorem linear_matrices_symmetric (l : Compmech.Asm.Coo K) (i j : Nat) :
    Compmech.Asm.toFun (Compmech.Asm.makeSymmetric l) i j = Compmech.Asm.toFun (Compmech.Asm.makeSymmetric l) j i := by
  rw [Compmech.Asm.toFun_makeSymmetric, Compmech.Asm.toFun_makeSymmetric]
  rcases Nat.lt_trichotomy i j with h | h | h
  · rw [if_pos (Nat.le_of_lt h), if_neg (Nat.not_le_of_gt h)]
  · subst h; rfl
  · rw [if_neg (Nat.not_le_of_gt h), if_pos (Nat.le_of_lt h)]

/-- Constant-radius sections telescope: if a section entry is a difference of a primitive, `e(xa, xb) = G(xb) − G(xa)`, the sum
over the `s` sections `x_k … x_{k+1}` is the single-section value on `[x_0, x_s]` — for every `s` and every subdivision. -/
theorem sections_telescope (G : K → K) (x : Nat → K) (s : Nat) :
    ((List.range s).map fun k => G (x (k + 1)) - G (x k)).sum = G (x s) - G (x 0) := by
  induction s with
  | zero => simp
  | succ n ih => rw [List.range_succ, List.map_append, List.sum_append, ih]; simp

end linear

/-! ### real analysis behind `atEnds` and `trigParam` -/

section real
open Real

/-- The values `atEnds` assigns to the trigonometric atoms are the values of the real functions at `xa = 0`, `xb = L` for an
integer half-wave number `i`: `sin(iπ·0/L) = 0`, `cos(iπ·0/L) = 1`, `sin(iπ·L/L) = 0`, `cos(iπ·L/L) = (−1)^i`, and for the
`(xa ± xb)` and double-angle atoms `sin(iπ(0 ± L)/L) = 0`, `cos(iπ(0 ± L)/L) = (−1)^i`, `sin(2iπ) = 0`, `cos(2iπ) = 1`. -/
theorem atEnds_sound (i : ℤ) (L : ℝ) (hL : L ≠ 0) :
    Real.sin (π * i * 0 / L) = 0 ∧ Real.cos (π * i * 0 / L) = 1 ∧
    Real.sin (π * i * L / L) = 0 ∧ Real.cos (π * i * L / L) = (-1) ^ i ∧
    Real.sin (π * i * (0 + L) / L) = 0 ∧ Real.cos (π * i * (0 + L) / L) = (-1) ^ i ∧
    Real.sin (π * i * (0 - L) / L) = 0 ∧ Real.cos (π * i * (0 - L) / L) = (-1) ^ i ∧
    Real.sin (2 * π * i * L / L) = 0 ∧ Real.cos (2 * π * i * L / L) = 1 := by
  have e1 : π * i * L / L = i * π := by field_simp
  have e2 : π * i * (0 + L) / L = i * π := by rw [zero_add]; exact e1
  have e3 : π * i * (0 - L) / L = -(i * π) := by rw [zero_sub, mul_neg, neg_div, e1]
  have e4 : 2 * π * i * L / L = i * (2 * π) := by field_simp
  refine ⟨by simp, by simp, ?_, ?_, ?_, ?_, ?_, ?_, ?_, ?_⟩
  · rw [e1]; exact Real.sin_int_mul_pi i
  · rw [e1]; exact Real.cos_int_mul_pi i
  · rw [e2]; exact Real.sin_int_mul_pi i
  · rw [e2]; exact Real.cos_int_mul_pi i
  · rw [e3, Real.sin_neg, Real.sin_int_mul_pi, neg_zero]
  · rw [e3, Real.cos_neg]; exact Real.cos_int_mul_pi i
  · rw [e4, show (i : ℝ) * (2 * π) = ((2 * i : ℤ) : ℝ) * π by push_cast; ring]; exact Real.sin_int_mul_pi _
  · rw [e4]; exact Real.cos_int_mul_two_pi i

/-- `(−1)^i` squares to one: the hypothesis `sg² = 1` of `EndsHyp` is met by the real signs. -/
theorem sign_sq (i : ℤ) : (((-1 : ℝ)) ^ i) ^ 2 = 1 := by
  rw [← zpow_natCast, ← zpow_mul, mul_comm, zpow_mul]
  norm_num

/-- Every real angle is reached by the half-angle parametrisation of `trigParam`, with parameters that are never both zero:
an identity proved for all `(p, q)` with `p² + q² ≠ 0` holds for `sin θ`, `cos θ` of every `θ`. -/
theorem trigParam_sound (θ : ℝ) :
    Real.sin θ = hsin (Real.sin (θ / 2)) (Real.cos (θ / 2)) ∧ Real.cos θ = hcos (Real.sin (θ / 2)) (Real.cos (θ / 2)) ∧
      Real.sin (θ / 2) ^ 2 + Real.cos (θ / 2) ^ 2 ≠ 0 := by
  have h1 : Real.sin (θ / 2) ^ 2 + Real.cos (θ / 2) ^ 2 = 1 := Real.sin_sq_add_cos_sq (θ / 2)
  refine ⟨?_, ?_, by rw [h1]; exact one_ne_zero⟩
  · unfold hsin; rw [h1, div_one]
    have := Real.sin_two_mul (θ / 2)
    rw [show 2 * (θ / 2) = θ by ring] at this
    rw [this]
  · unfold hcos; rw [h1, div_one]
    have := Real.cos_sq' (θ / 2)
    have h2 := Real.cos_two_mul (θ / 2)
    rw [show 2 * (θ / 2) = θ by ring] at h2
    rw [h2]; nlinarith [h1]

/-- the addition / duplication formulas `trigParam` uses for the `(xa ± xb)` and double-angle atoms are those of the real functions -/
theorem compound_atoms_sound (a b : ℝ) :
    Real.sin (a + b) = sinAdd (Real.sin a) (Real.cos a) (Real.sin b) (Real.cos b) ∧
    Real.cos (a + b) = cosAdd (Real.sin a) (Real.cos a) (Real.sin b) (Real.cos b) ∧
    Real.sin (a - b) = sinSub (Real.sin a) (Real.cos a) (Real.sin b) (Real.cos b) ∧
    Real.cos (a - b) = cosSub (Real.sin a) (Real.cos a) (Real.sin b) (Real.cos b) ∧
    Real.sin (2 * a) = sinDbl (Real.sin a) (Real.cos a) ∧ Real.cos (2 * a) = cosDbl (Real.sin a) (Real.cos a) := by
  refine ⟨Real.sin_add a b, Real.cos_add a b, Real.sin_sub a b, Real.cos_sub a b, Real.sin_two_mul a, ?_⟩
  unfold cosDbl; rw [Real.cos_two_mul, Real.sin_sq]; ring

end real

/-! Non-vacuity: the side conditions are met by concrete data. -/
example : ∃ v : CCV ℚ, EndsHyp v ∧ IsoHyp v ∧ TrigHyp v :=
  ⟨{ CCV.const (1 : ℚ) with nu := 1 / 3 }, by norm_num [EndsHyp, CCV.const], by norm_num [IsoHyp, CCV.const],
    by norm_num [TrigHyp, CCV.const]⟩

end Compmech.CC.C16
