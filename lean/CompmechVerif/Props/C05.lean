/-
C05 — linear buckling: every returned (multiplier, mode) solves (K + λ·KG)·v = 0 on the full space with
zeros on stiffness-less amplitudes; ascending positive multipliers; sparse/dense agreement; load scaling.

Only property theorems live here; helper lemmas are in `Model/EigPostLemmas.lean`.  Every theorem is about
`Model/EigPost.lean` (`lb`, `usedCols`, `assignRows`, `scatterFrom`), tied to
compmech/analysis/linear_buckling.py, compmech/sparse.py : remove_null_cols and Panel.lb by the differential
correspondence of `tools/props/C05.py`.  The external solvers `eigsh`/`eigh` are parameters: their recorded
contract is `SolverOK` (validated on every sample by the harness, not verified).
All theorems hold for EVERY size `n`, every `num_eigvalues`, every matrix and every solver output.
-/
import CompmechVerif.Model.EigPostLemmas
import CompmechVerif.Model.ConeLbLemmas

namespace Compmech.EigPost.C05
open Compmech.EigPost

/-- Scatter correctness on all three paths (sparse direct, sparse fallback after `remove_null_cols`, dense).
If `lb` returns, `K` is symmetric, amplitudes without stiffness carry no geometric stiffness, and the solver
output the result was built from satisfies its contract on the (reduced) pencil `KG w = μ K w`, then every
returned pair `(λ, v)` with finite `λ` has `v` of full length, `(K + λ·KG)·v = 0` in every one of the `n`
rows, and `v = 0` on every amplitude that `remove_null_cols` removed. -/
theorem lb_pairs {K : Type} [Field K] [DecidableEq K] (n num : Nat) (kMin sparse : Bool) (Kc : Coo K)
    (Gf : Nat → Nat → K) (first second : Option (Out K K)) (o : Out (Option K) K)
    (hret : (lb n num kMin sparse Kc first second).2 = .ok o)
    (hsym : ∀ i j, Kc.toFun i j = Kc.toFun j i)
    (hnull : ∀ i j, i < n → i ∉ usedCols n Kc → Gf i j = 0)
    (hdirect : sparse = true → first.isSome → usedCols n Kc = List.range n)
    (hsolver : ∀ idx raw, lbSource n sparse Kc first second = some (idx, raw) →
      SolverOK Gf Kc.toFun idx raw) :
    ∀ (c : Nat) (lam : K) (x : List K), o.vals[c]? = some (some lam) → o.vecs.cols[c]? = some x →
      x.length = n ∧ (∀ i < n, dotFrom (fun j => Kc.toFun i j + lam * Gf i j) 0 x = 0) ∧
      (∀ i < n, i ∉ usedCols n Kc → x.getD i 0 = 0) :=
  lb_pairs_aux n num kMin sparse Kc Gf first second o hret hsym hnull hdirect hsolver

/-- the removed amplitudes are exactly the null columns of `K`; the kept ones are listed in strictly
ascending order and lie in range (so the scatter walk is numpy's `eigvecs[used_cols, :] = …`). -/
theorem removed_iff_null_column {K : Type} [Field K] [DecidableEq K] (n : Nat) (Kc : Coo K) :
    (∀ j < n, j ∉ usedCols n Kc ↔ ∀ t ∈ Kc, t.2.1 = j → t.2.2 = 0) ∧
    (usedCols n Kc).Pairwise (· < ·) ∧ ∀ u ∈ usedCols n Kc, u < n :=
  ⟨fun j hj => removed_iff_null_column_aux n Kc j hj, usedCols_sorted n Kc, usedCols_lt n Kc⟩

/-- sparse path, first `eigsh` call succeeded: the solver output is returned as is (no allocation, hence
no shape error), with `λ = -1/μ`. -/
theorem lb_sparse_direct_returns {K : Type} [Field K] [DecidableEq K] (n num : Nat) (kMin : Bool)
    (Kc : Coo K) (o : Out K K) (second : Option (Out K K)) :
    (lb n num kMin true Kc (some o) second).2 = .ok ⟨negInvVals o.vals, o.vecs⟩ :=
  lb_sparse_direct_aux n num kMin Kc o second

/-- TOTALITY of the repaired glue (/repo 3692045: the mode array is allocated with the number of columns
delivered): for EVERY size `n`, every `num_eigvalues`, every matrix and every number of delivered columns,
`lb` returns on all three paths.  The only residual precondition is the solver's own: the call the result
is built from returned, with one row per active amplitude (`hrows`). -/
theorem lb_shapes_total {K : Type} [Field K] [DecidableEq K] (n num : Nat) (kMin : Bool) (Kc : Coo K)
    (o : Out K K) (other : Option (Out K K)) (hrows : o.vecs.rows = (usedCols n Kc).length) :
    (∃ r, (lb n num kMin true Kc (some o) other).2 = .ok r) ∧
    (∃ r, (lb n num kMin true Kc none (some o)).2 = .ok r) ∧
    (∃ r, (lb n num kMin false Kc (some o) other).2 = .ok r) :=
  lb_shapes_total_aux n num kMin Kc o other hrows

/-- what is returned on the reduced paths: `n` rows; as many modes as the solver delivered (sparse fallback)
resp. `min(num_eigvalues, #delivered)` (dense); `λ` for every delivered `μ`. -/
theorem lb_result_shape {K : Type} [Field K] [DecidableEq K] (n num : Nat) (kMin : Bool) (Kc : Coo K)
    (o : Out K K) (other : Option (Out K K)) (r : Out (Option K) K) :
    ((lb n num kMin true Kc none (some o)).2 = .ok r → r.vecs.rows = n ∧ r.vecs.ncols = o.vecs.ncols ∧
      r.vals.length = o.vals.length) ∧
    ((lb n num kMin false Kc (some o) other).2 = .ok r → r.vecs.rows = n ∧
      r.vecs.ncols = min num o.vecs.ncols ∧ r.vals.length = o.vals.length) :=
  lb_result_shape_aux n num kMin Kc o other r

/-- The residual precondition is met by the glue itself (/repo d870371: `k = min(k, N-1)` after
`remove_null_cols`): ARPACK needs `0 < k < N`; the first request `k = min(num, n-2)` and the re-capped second
request (`analysis.lb` and `Panel.lb`) are inside that range whenever `num ≥ 1`, `n ≥ 3` and at least two
amplitudes are active. -/
theorem lb_requests_in_arpack_range (n num nred : Nat) (hnum : 1 ≤ num) (hn : 3 ≤ n) (hred : 2 ≤ nred) :
    (0 < lbK n num true ∧ lbK n num true < n) ∧
    (0 < lbK2 n num true nred ∧ lbK2 n num true nred < nred) ∧
    (0 < lbK2 n num false nred ∧ lbK2 n num false nred < nred) :=
  lb_requests_in_range_aux n num nred hnum hn hred

/-- Regression instances of the two repaired defects: dense path, 6 active amplitudes, default 25 requested
→ 6 modes; sparse fallback, 8 amplitudes one null, default 25 → the 6 delivered modes; 8 amplitudes two null,
6 requested → requests `k = 6` then `k = 5 < 6 active`. -/
theorem lb_repaired_instances_return :
    ((lb 6 25 true false (cexDiag 6 []) (some ⟨List.replicate 6 (-1), cexBlock 6 6⟩) none).2.toOption.map
      fun r => r.vecs.shape) = some (6, 6) ∧
    ((lb 8 25 true true (cexDiag 8 [3]) none (some ⟨List.replicate 6 (-1), cexBlock 7 6⟩)).2.toOption.map
      fun r => r.vecs.shape) = some (8, 6) ∧
    (lb 8 6 true true (cexDiag 8 [2, 3]) none none).1.map (·.k) = [some 6, some 5] :=
  lb_repaired_instances

/-- `λ = -1/μ` order lemma: solver values `μ` ascending and all negative (destabilising reference load) give
multipliers `λ` ascending and all positive. -/
theorem multipliers_ascending_positive {K : Type} [Field K] [LinearOrder K] [IsStrictOrderedRing K]
    (mus : List K) (hs : mus.Pairwise (· < ·)) (hneg : ∀ μ ∈ mus, μ < 0) :
    (mus.map fun μ => -1 / μ).Pairwise (· < ·) ∧ ∀ lam ∈ mus.map (fun μ => -1 / μ), 0 < lam :=
  negInv_sorted_aux mus hs hneg

/-- ... hence the FIRST multiplier returned is the critical one: it is positive and no other returned multiplier is smaller. -/
theorem first_multiplier_is_critical {K : Type} [Field K] [LinearOrder K] [IsStrictOrderedRing K]
    (μ0 : K) (mus : List K) (hs : (μ0 :: mus).Pairwise (· < ·)) (hneg : ∀ μ ∈ μ0 :: mus, μ < 0) :
    0 < -1 / μ0 ∧ ∀ lam ∈ (μ0 :: mus).map (fun μ => -1 / μ), -1 / μ0 ≤ lam := by
  obtain ⟨hp, hpos⟩ := multipliers_ascending_positive (μ0 :: mus) hs hneg
  refine ⟨hpos _ (by simp), ?_⟩
  intro lam hl
  simp only [List.map_cons, List.pairwise_cons] at hp
  simp only [List.map_cons, List.mem_cons] at hl
  rcases hl with rfl | hl
  · exact le_refl _
  · exact le_of_lt (hp.1 lam hl)
/-- the quantity `eigsh(sigma=1, mode='cayley', which='SM')` minimises, in terms of the multiplier:
`ν = (μ+1)/(μ-1)` at `μ = -1/λ` is `-(λ-1)/(λ+1)`. -/
theorem cayley_transform {K : Type} [Field K] {lam : K} (h0 : lam ≠ 0) (h1 : lam + 1 ≠ 0) :
    (-1 / lam + 1) / (-1 / lam - 1) = -((lam - 1) / (lam + 1)) :=
  cayley_of_lam h0 h1

/-- Shift-invert selection lemma.  For a sub-critical reference load (no multiplier in `(0, 1]`), a value `ls`
whose `|ν|` does not exceed that of a positive multiplier `ln` is itself a positive multiplier with
`ls ≤ ln`: the `k` values of smallest `|ν|` are the `k` smallest positive multipliers (negative ones have
`|ν| > 1`, positive ones `|ν| < 1`, increasing in `λ` on `λ ≥ 1`). -/
theorem cayley_selects_smallest_positive {K : Type} [Field K] [LinearOrder K] [IsStrictOrderedRing K]
    {ls ln : K} (hs : ls < 0 ∨ 1 < ls) (hs1 : ls + 1 ≠ 0) (hn : 1 < ln)
    (hsel : |(ls - 1) / (ls + 1)| ≤ |(ln - 1) / (ln + 1)|) : 1 < ls ∧ ls ≤ ln :=
  cayley_select_aux hs hs1 hn hsel

/-- sparse/dense agreement: the ascending list of the `k` lowest elements of a set is unique, so two paths
that both return "the `k` smallest positive multipliers, ascending" return the same values. -/
theorem ascending_lowest_unique {K : Type} [LinearOrder K] (l₁ l₂ : List K) (S : K → Prop)
    (h₁ : l₁.Pairwise (· < ·)) (h₂ : l₂.Pairwise (· < ·)) (hl : l₁.length = l₂.length)
    (hS₁ : ∀ a ∈ l₁, S a) (hS₂ : ∀ a ∈ l₂, S a)
    (hc₁ : ∀ a ∈ l₁, ∀ s, S s → s < a → s ∈ l₁) (hc₂ : ∀ a ∈ l₂, ∀ s, S s → s < a → s ∈ l₂) : l₁ = l₂ :=
  ascending_lowest_unique_aux l₁ l₂ S h₁ h₂ hl hS₁ hS₂ hc₁ hc₂

/-- scaling the reference load by `s` (`KG ↦ s·KG`) divides the multiplier of every mode by `s`. -/
theorem lb_scale {K : Type} [Field K] (Kf Gf : Nat → Nat → K) (s lam : K) (hs : s ≠ 0) (v : List K) (i : Nat)
    (h : dotFrom (fun j => Kf i j + lam * Gf i j) 0 v = 0) :
    dotFrom (fun j => Kf i j + lam / s * (s * Gf i j)) 0 v = 0 :=
  lb_scale_aux Kf Gf s lam hs v i h

/-! Non-vacuity of `lb_pairs`: `K = diag(1, 0, 2)`, `KG = diag(-1, 0, -1)`, dense path; `eigh` on the active
amplitudes `{0, 2}` returns `μ = (-1, -1/2)` with the unit vectors; all hypotheses hold and `lb` returns
`λ = (1, 2)`. -/
example :
    let Kc : Coo ℚ := [(0, 0, 1), (2, 2, 2)]
    let Gf : Nat → Nat → ℚ := fun i j => if i = j ∧ (i = 0 ∨ i = 2) then -1 else 0
    let raw : Out ℚ ℚ := ⟨[-1, -1 / 2], ⟨2, [[1, 0], [0, 1]]⟩⟩
    (lb 3 2 true false Kc (some raw) none).2 = .ok ⟨[some 1, some 2], ⟨3, [[1, 0, 0], [0, 0, 1]]⟩⟩ ∧
    usedCols 3 Kc = [0, 2] ∧ SolverOK Gf Kc.toFun [0, 2] raw := by
  refine ⟨by decide +kernel, by decide +kernel, ⟨rfl, rfl, ?_⟩⟩
  intro c μ w h1 h2
  match c with
  | 0 =>
    simp only [List.getElem?_cons_zero, Option.some.injEq] at h1 h2
    subst h1 h2
    exact ⟨rfl, by decide +kernel⟩
  | 1 =>
    simp only [List.getElem?_cons_succ, List.getElem?_cons_zero, Option.some.injEq] at h1 h2
    subst h1 h2
    exact ⟨rfl, by decide +kernel⟩
  | c + 2 => simp at h1

/-! ### `ConeCyl.lb` (Model/ConeLb.lean): the third copy of the glue — sliced matrices, uncapped request, a third attempt in
`buckling` mode, `pos` zero rows stacked on top -/

/-- every `(λ, v)` that `ConeCyl.lb` stores is `pos` zeros (the prescribed amplitudes) followed by a vector `y` that solves
`(M + λ·A)·y = 0` in every row of the sliced pencil and vanishes on the amplitudes `remove_null_cols` removed — on all three
paths (direct, fallback in `cayley` mode, fallback in `buckling` mode), for every size, `pos`, `num_eigvalues` and every
solver output that meets the `eigsh` contract (`num` columns, `SolverOK`) -/
theorem cone_lb_pairs {K : Type} [Field K] [DecidableEq K] (nred pos num : Nat) (Mc : Coo K) (Gf : Nat → Nat → K)
    (first second third : Option (Out K K)) (oc : Out (Option K) K)
    (hret : (coneLb nred pos num Mc first second third).2 = .ok oc)
    (hsym : ∀ i j, Mc.toFun i j = Mc.toFun j i)
    (hnull : ∀ i j, i < nred → i ∉ usedCols nred Mc → Gf i j = 0)
    (hdirect : first.isSome → usedCols nred Mc = List.range nred)
    (hcols : ∀ o, first = none → coneSrc second third = some o → o.vecs.ncols = num)
    (hsolver : ∀ idx raw, lbSource nred true Mc first (coneSrc second third) = some (idx, raw) →
      SolverOK Gf Mc.toFun idx raw) :
    ∀ (c : Nat) (lam : K) (x : List K), oc.vals[c]? = some (some lam) → oc.vecs.cols[c]? = some x →
      ∃ y, x = List.replicate pos 0 ++ y ∧ y.length = nred ∧
        (∀ i < nred, dotFrom (fun j => Mc.toFun i j + lam * Gf i j) 0 y = 0) ∧
        (∀ i < nred, i ∉ usedCols nred Mc → y.getD i 0 = 0) := by
  -- the call whose output is used
  have hsrc : ∃ o, (match first with | some o => some o | none => coneSrc second third) = some o := by
    cases first with
    | some o1 => exact ⟨o1, rfl⟩
    | none =>
      cases hs : coneSrc second third with
      | some o => exact ⟨o, rfl⟩
      | none =>
        exfalso
        unfold coneSrc at hs
        cases second <;> cases third <;> simp_all [coneLb]
  obtain ⟨o, ho⟩ := hsrc
  have hc : first = none → o.vecs.ncols = num := by
    intro hf
    subst hf
    exact hcols o rfl ho
  rw [coneLb_eq_lb_then_vstack nred pos num Mc first second third o ho hc] at hret
  cases hl : (lb nred num false true Mc first (coneSrc second third)).2 with
  | error e => rw [hl] at hret; cases hret
  | ok ol =>
    rw [hl] at hret
    simp only [Except.bind] at hret
    cases hv : vstackZeros pos num ol.vecs with
    | error e => rw [hv] at hret; cases hret
    | ok e =>
      rw [hv] at hret
      simp only [Except.map] at hret
      injection hret with hret
      subst hret
      intro c lam x hlam hx
      obtain ⟨y, hy, hxy⟩ := vstackZeros_col pos num ol.vecs e hv c x hx
      have := lb_pairs_aux nred num false true Mc Gf first (coneSrc second third) ol hl hsym hnull
        (fun _ h => hdirect h) hsolver c lam y hlam hy
      exact ⟨y, hxy, this⟩

/-- which matrices form the pencil for each `combined_load_case` (0 = none): the stiffness side is `k0` plus the geometric
matrix of the load that is held FIXED, the load side is the geometric matrix of the load that is scaled -/
theorem cone_lb_pencil :
    coneLbPencil 0 = some ([.k0], .kG0) ∧ coneLbPencil 1 = some ([.k0, .kG0_T], .kG0_Fc) ∧
    coneLbPencil 2 = some ([.k0, .kG0_P], .kG0_Fc) ∧ coneLbPencil 3 = some ([.k0, .kG0_Fc], .kG0_T) :=
  ⟨rfl, rfl, rfl, rfl⟩

end Compmech.EigPost.C05
