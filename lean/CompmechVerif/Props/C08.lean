/-
C08 — internal force = gradient of the (Donnell / von Kármán) strain energy; tangent = its exact Jacobian.
Pointwise content of fkL_num, fkG_num, calc_fint REGENERATED from *_num.pyx on every run; Gauss summation is
linear, so every statement lifts to the sums over integration points (exactness of the rule: C10).

ASSEMBLY LEVEL (last section): `PanelAssembly.calc_kT / calc_fint` as modelled in `Model/Assembly.lean` (`calcK0 true`, `calcFint`:
panel parts placed at their ranges, `+ k0_conn`, `+ k0_conn · c`; tied to the running code by the recorded-component correspondence of
`tools/props/C13.py` and the assembly streams of `tools/props/C08.py`).  Helper lemmas: `Spec/AssemblyJacobian.lean`.  The panel-level
statement enters as a HYPOTHESIS on each panel (its tangent matrix is the derivative of its own internal force w.r.t. its own slice of
the amplitude vector); `assembly_tangent_is_jacobian_gauss` discharges it with the panel theorems above for panels whose force and
tangent entries have the Gauss-point form those theorems are stated in (`Spec/AssemblyGauss.lean` says what that form assumes).
-/
import CompmechVerif.Spec.NonlinearPoint
import CompmechVerif.Spec.Jacobian.PlateU
import CompmechVerif.Spec.Jacobian.PlateV
import CompmechVerif.Spec.Jacobian.PlateW
import CompmechVerif.Spec.Jacobian.CPanelU
import CompmechVerif.Spec.Jacobian.CPanelV
import CompmechVerif.Spec.Jacobian.CPanelW
import Mathlib.Analysis.Calculus.Deriv.Pow
import Mathlib.Analysis.Calculus.Deriv.Add
import Mathlib.Analysis.Calculus.Deriv.Mul
import CompmechVerif.Gen.Panel.Plate
import CompmechVerif.Gen.Panel.CPanel
import CompmechVerif.Core.OpSpecTactics
import CompmechVerif.Core.OpSpecLemmas
import Mathlib.Tactic.FinCases
import Mathlib.Data.Fintype.Basic
import CompmechVerif.Spec.AssemblyJacobian
import CompmechVerif.Spec.AssemblyGauss

set_option linter.unnecessarySeqFocus false
set_option linter.unusedSectionVars false
set_option linter.unusedSimpArgs false

namespace Compmech.Panel

/-- `num_eq [unfold lemmas] sym hF` -/
syntax "num_eq " "[" Lean.Parser.Tactic.simpLemma,* "]" " sym " term : tactic
macro_rules
  | `(tactic| num_eq [$ls,*] sym $hF) => `(tactic|
      (obtain ⟨h10, h20, h30, h40, h50, h21, h31, h41, h51, h32, h42, h52, h43, h53, h54⟩ :=
         sym6_rewrites _ (IsABD.symm $hF)
       have hb12 := IsABD.b12 $hF
       have hb16 := IsABD.b16 $hF
       have hb26 := IsABD.b26 $hF
       simp only [Fin.reduceFinMk, Fin.isValue, Fin.zero_eta, Fin.mk_one, panel_entry, $ls,*, hessian, pairInt, fld3,
         NCtx.toP, nlOps, vkOps, dofB, NCtx.S, NCtx.eps, List.finRange, List.map, List.sum_cons, List.sum_nil,
         List.append, List.cons_append, List.nil_append, List.map_cons, List.map_nil]
       simp only [List.ofFn, Fin.foldr, Fin.foldr.loop, List.map, List.sum_cons, List.sum_nil,
         h10, h20, h30, h40, h50, h21, h31, h41, h51, h32, h42, h52, h43, h53, h54, hb12, hb16, hb26,
         mul_zero, zero_mul, add_zero, zero_add]
       try simp
       try simp only [h10, h20, h30, h40, h50, h21, h31, h41, h51, h32, h42, h52, h43, h53, h54, hb12, hb16, hb26]
       try field_simp
       try ring
       try simp))

namespace C08
open Compmech.Gen.PanelNum Compmech.Gen

variable {K : Type} [Field K] [CharZero K]

/-! ### the pieces -/

/-- the stress resultants are the laminate matrix times the strains of the point -/
theorem resultants_eq_F_strain_plate (X : NCtx K) (hF : IsABD X.F) :
    Plate.calc_fint.def_Nxx X = ((List.finRange 6).map fun q => X.F 0 q * X.eps q).sum ∧
    Plate.calc_fint.def_Nyy X = ((List.finRange 6).map fun q => X.F 1 q * X.eps q).sum ∧
    Plate.calc_fint.def_Nxy X = ((List.finRange 6).map fun q => X.F 2 q * X.eps q).sum ∧
    Plate.calc_fint.def_Mxx X = ((List.finRange 6).map fun q => X.F 3 q * X.eps q).sum ∧
    Plate.calc_fint.def_Myy X = ((List.finRange 6).map fun q => X.F 4 q * X.eps q).sum ∧
    Plate.calc_fint.def_Mxy X = ((List.finRange 6).map fun q => X.F 5 q * X.eps q).sum := by
  refine ⟨?_, ?_, ?_, ?_, ?_, ?_⟩ <;> num_eq [fld3] sym hF

/-- the quadratic slope terms added to the membrane strains are Donnell's `½ w,x²`, `½ w,y²`, `w,x w,y`
of the WHOLE series (`w,x = (2/a) wxi`, `w,y = (2/b) weta`) — in contrast to the field-recovery kernel (C11) -/
theorem quadratic_terms_plate (X : NCtx K) (ha : X.a ≠ 0) (hb : X.b ≠ 0) :
    Plate.calc_fint.add_exx X = 1 / 2 * (2 / X.a * X.wxi) ^ 2 ∧
    Plate.calc_fint.add_eyy X = 1 / 2 * (2 / X.b * X.weta) ^ 2 ∧
    Plate.calc_fint.add_gxy X = (2 / X.a * X.wxi) * (2 / X.b * X.weta) := by
  refine ⟨?_, ?_, ?_⟩ <;> simp only [panel_entry] <;> field_simp <;> ring

/-- internal-force integrand of a degree of freedom = weight × (ab/4) × resultants · strain variation of that
degree of freedom (linear Donnell part + von Kármán part at the current slopes): the energy gradient -/
theorem fint_is_gradient_plate (X : NCtx K) (ha : X.a ≠ 0) (hb : X.b ≠ 0) (α : Fin 3) :
    (match α with | 0 => Plate.calc_fint.fint0 X | 1 => Plate.calc_fint.fint1 X | 2 => Plate.calc_fint.fint2 X) =
      X.weight * (X.a * X.b / 4 *
        ((List.finRange 6).map fun p => X.S p * dofB X (nlOps X (plateOps X.toP)) .A (fld3 α) p).sum) := by
  fin_cases α <;>
    simp only [Fin.reduceFinMk, Fin.isValue, Fin.zero_eta, Fin.mk_one, panel_entry, fld3, NCtx.toP, nlOps, vkOps,
      dofB, NCtx.S, plateOps, List.finRange, List.ofFn, Fin.foldr, Fin.foldr.loop, List.map, List.sum_cons,
      List.sum_nil, List.append, List.cons_append, List.nil_append] <;>
    field_simp <;> ring

theorem fint_is_gradient_cpanel (X : NCtx K) (ha : X.a ≠ 0) (hb : X.b ≠ 0) (hr : X.r ≠ 0) (α : Fin 3) :
    (match α with | 0 => CPanel.calc_fint.fint0 X | 1 => CPanel.calc_fint.fint1 X | 2 => CPanel.calc_fint.fint2 X) =
      X.weight * (X.a * X.b / 4 *
        ((List.finRange 6).map fun p => X.S p * dofB X (nlOps X (cpanelOps X.toP)) .A (fld3 α) p).sum) := by
  fin_cases α <;>
    simp only [Fin.reduceFinMk, Fin.isValue, Fin.zero_eta, Fin.mk_one, panel_entry, fld3, NCtx.toP, nlOps, vkOps,
      dofB, NCtx.S, cpanelOps, plateOps, List.finRange, List.ofFn, Fin.foldr, Fin.foldr.loop, List.map, List.sum_cons,
      List.sum_nil, List.append, List.cons_append, List.nil_append] <;>
    field_simp <;> ring

set_option maxHeartbeats 1600000 in
/-- `kL` integrand = weight × Hessian form with the non-linear strain-variation operator on both sides -/
theorem kL_entry_plate (X : NCtx K) (ha : X.a ≠ 0) (hb : X.b ≠ 0) (hF : IsABD X.F) (ro co : Fin 3) :
    Plate.fkL_num.entry ro co X =
      X.weight * hessian X.toP .full .full (nlOps X (plateOps X.toP)) X.F (fld3 ro) (fld3 co) := by
  fin_cases ro <;> fin_cases co <;> num_eq [plateOps] sym hF

set_option maxHeartbeats 1600000 in
theorem kL_entry_cpanel (X : NCtx K) (ha : X.a ≠ 0) (hb : X.b ≠ 0) (hr : X.r ≠ 0) (hF : IsABD X.F)
    (ro co : Fin 3) :
    CPanel.fkL_num.entry ro co X =
      X.weight * hessian X.toP .full .full (nlOps X (cpanelOps X.toP)) X.F (fld3 ro) (fld3 co) := by
  fin_cases ro <;> fin_cases co <;> num_eq [cpanelOps, plateOps] sym hF

/-- `kG` integrand = weight × Hessian of the pre-stress work with the resultants of the point (C03, state based) -/
theorem kG_entry_plate (X : NCtx K) (ha : X.a ≠ 0) (hb : X.b ≠ 0) (ro co : Fin 3) :
    Plate.fkG_num.entry ro co X =
      X.weight * hessian X.toP .full .full (gradOps X.toP) (prestressW X.toP) (fld3 ro) (fld3 co) := by
  fin_cases ro <;> fin_cases co <;>
    simp only [Fin.reduceFinMk, Fin.isValue, Fin.zero_eta, Fin.mk_one, panel_entry, fld3, NCtx.toP, hessian, pairInt,
      gradOps, prestressW, List.finRange, List.ofFn, Fin.foldr, Fin.foldr.loop, List.map, List.sum_cons, List.sum_nil,
      mul_zero, zero_mul, add_zero, zero_add] <;>
    (try simp) <;> (try field_simp) <;> (try ring) <;> (try simp)

theorem kG_entry_cpanel (X : NCtx K) (ha : X.a ≠ 0) (hb : X.b ≠ 0) (ro co : Fin 3) :
    CPanel.fkG_num.entry ro co X =
      X.weight * hessian X.toP .full .full (gradOps X.toP) (prestressW X.toP) (fld3 ro) (fld3 co) := by
  fin_cases ro <;> fin_cases co <;>
    simp only [Fin.reduceFinMk, Fin.isValue, Fin.zero_eta, Fin.mk_one, panel_entry, fld3, NCtx.toP, hessian, pairInt,
      gradOps, prestressW, List.finRange, List.ofFn, Fin.foldr, Fin.foldr.loop, List.map, List.sum_cons, List.sum_nil,
      mul_zero, zero_mul, add_zero, zero_add] <;>
    (try simp) <;> (try field_simp) <;> (try ring) <;> (try simp)

/-- at the undeformed state the `kL` integrand is the ANALYTIC kernel's entry read on the point values
(so the Gauss sum of fkL_num at c = 0 is the quadrature of fk0: C14 numeric = analytic) -/
theorem kL_at_zero_eq_k0_plate (X : NCtx K) (ha : X.a ≠ 0) (hb : X.b ≠ 0) (ro co : Fin 3) :
    Plate.fkL_num.entry ro co { X with wxi := 0, weta := 0 } = X.weight * Gen.Plate.fk0.entry ro co X.toP := by
  fin_cases ro <;> fin_cases co <;>
    simp only [Fin.reduceFinMk, Fin.isValue, Fin.zero_eta, Fin.mk_one, panel_entry, NCtx.toP] <;> field_simp <;> ring

theorem kL_at_zero_eq_k0_cpanel (X : NCtx K) (ha : X.a ≠ 0) (hb : X.b ≠ 0) (hr : X.r ≠ 0) (ro co : Fin 3) :
    CPanel.fkL_num.entry ro co { X with wxi := 0, weta := 0 } = X.weight * Gen.CPanel.fk0.entry ro co X.toP := by
  fin_cases ro <;> fin_cases co <;>
    simp only [Fin.reduceFinMk, Fin.isValue, Fin.zero_eta, Fin.mk_one, panel_entry, NCtx.toP] <;> field_simp <;> ring

/-- the internal force vanishes at the undeformed state -/
theorem fint_zero_plate (X : NCtx K) (α : Fin 3) :
    PlateNum.fint X ⟨fun _ => 0, 0, 0⟩ α = 0 := by
  fin_cases α <;> simp [PlateNum.fint, PlateNum.withState, panel_entry]

theorem fint_zero_cpanel (X : NCtx K) (α : Fin 3) :
    CPanelNum.fint X ⟨fun _ => 0, 0, 0⟩ α = 0 := by
  fin_cases α <;> simp [CPanelNum.fint, CPanelNum.withState, panel_entry]

/-! ### tangent = exact Jacobian of the internal force -/

/-- Adding `t` times ANY degree of freedom `B` (field `β`) to the amplitudes changes the internal-force integrand
of ANY degree of freedom `A` (field `α`) by `t·(kL + kG)_{AB} + t²R₂ + t³R₃`, `R₂`, `R₃` independent of `t`:
the tangent stiffness returned at a state is the exact derivative of the internal force at that state —
for every state (linear strains, slopes), laminate, geometry, point values. -/
theorem kT_is_jacobian_plate (X : NCtx K) (ha : X.a ≠ 0) (hb : X.b ≠ 0) (s : PtState K) (α β : Fin 3) :
    ∃ R₂ R₃ : K, ∀ t : K,
      PlateNum.fint X (s.perturb X (plateOps X.toP) (fld3 β) t) α =
        PlateNum.fint X s α
        + t * (Plate.fkL_num.entry α β { X with wxi := s.wxi, weta := s.weta }
                + Plate.fkG_num.entry α β (PlateNum.withState X s))
        + t ^ 2 * R₂ + t ^ 3 * R₃ := by
  fin_cases α <;> fin_cases β
  · exact ⟨_, _, fun t => Jacobian.plate_0_0 X ha hb s t⟩
  · exact ⟨_, _, fun t => Jacobian.plate_0_1 X ha hb s t⟩
  · exact ⟨_, _, fun t => Jacobian.plate_0_2 X ha hb s t⟩
  · exact ⟨_, _, fun t => Jacobian.plate_1_0 X ha hb s t⟩
  · exact ⟨_, _, fun t => Jacobian.plate_1_1 X ha hb s t⟩
  · exact ⟨_, _, fun t => Jacobian.plate_1_2 X ha hb s t⟩
  · exact ⟨_, _, fun t => Jacobian.plate_2_0 X ha hb s t⟩
  · exact ⟨_, _, fun t => Jacobian.plate_2_1 X ha hb s t⟩
  · exact ⟨_, _, fun t => Jacobian.plate_2_2 X ha hb s t⟩

theorem kT_is_jacobian_cpanel (X : NCtx K) (ha : X.a ≠ 0) (hb : X.b ≠ 0) (hr : X.r ≠ 0) (s : PtState K)
    (α β : Fin 3) :
    ∃ R₂ R₃ : K, ∀ t : K,
      CPanelNum.fint X (s.perturb X (cpanelOps X.toP) (fld3 β) t) α =
        CPanelNum.fint X s α
        + t * (CPanel.fkL_num.entry α β { X with wxi := s.wxi, weta := s.weta }
                + CPanel.fkG_num.entry α β (CPanelNum.withState X s))
        + t ^ 2 * R₂ + t ^ 3 * R₃ := by
  fin_cases α <;> fin_cases β
  · exact ⟨_, _, fun t => Jacobian.cpanel_0_0 X ha hb hr s t⟩
  · exact ⟨_, _, fun t => Jacobian.cpanel_0_1 X ha hb hr s t⟩
  · exact ⟨_, _, fun t => Jacobian.cpanel_0_2 X ha hb hr s t⟩
  · exact ⟨_, _, fun t => Jacobian.cpanel_1_0 X ha hb hr s t⟩
  · exact ⟨_, _, fun t => Jacobian.cpanel_1_1 X ha hb hr s t⟩
  · exact ⟨_, _, fun t => Jacobian.cpanel_1_2 X ha hb hr s t⟩
  · exact ⟨_, _, fun t => Jacobian.cpanel_2_0 X ha hb hr s t⟩
  · exact ⟨_, _, fun t => Jacobian.cpanel_2_1 X ha hb hr s t⟩
  · exact ⟨_, _, fun t => Jacobian.cpanel_2_2 X ha hb hr s t⟩

end C08

/-- a function that is a cubic polynomial in `t` has the linear coefficient as derivative at 0 -/
theorem hasDerivAt_of_cubic (f : ℝ → ℝ) (c₀ c₁ c₂ c₃ : ℝ) (h : ∀ t, f t = c₀ + t * c₁ + t ^ 2 * c₂ + t ^ 3 * c₃) :
    HasDerivAt f c₁ 0 := by
  have hf : f = fun t => c₀ + t * c₁ + t ^ 2 * c₂ + t ^ 3 * c₃ := funext h
  rw [hf]
  have h1 : HasDerivAt (fun t : ℝ => t * c₁) c₁ 0 := by simpa using (hasDerivAt_id (0 : ℝ)).mul_const c₁
  have h2 : HasDerivAt (fun t : ℝ => t ^ 2 * c₂) 0 0 := by
    simpa using ((hasDerivAt_pow 2 (0 : ℝ)).mul_const c₂)
  have h3 : HasDerivAt (fun t : ℝ => t ^ 3 * c₃) 0 0 := by
    simpa using ((hasDerivAt_pow 3 (0 : ℝ)).mul_const c₃)
  have h0 : HasDerivAt (fun _ : ℝ => c₀) 0 0 := hasDerivAt_const 0 c₀
  have := ((h0.fun_add h1).fun_add h2).fun_add h3
  have e : (0 + c₁ + 0 + 0 : ℝ) = c₁ := by ring
  rw [e] at this
  exact this

namespace C08
open Compmech.Gen.PanelNum

/-- over the reals: the tangent entry IS the derivative of the internal force w.r.t. the amplitude -/
theorem kT_is_derivative_plate (X : NCtx ℝ) (ha : X.a ≠ 0) (hb : X.b ≠ 0) (s : PtState ℝ) (α β : Fin 3) :
    HasDerivAt (fun t : ℝ => PlateNum.fint X (s.perturb X (plateOps X.toP) (fld3 β) t) α)
      (Plate.fkL_num.entry α β { X with wxi := s.wxi, weta := s.weta }
        + Plate.fkG_num.entry α β (PlateNum.withState X s)) 0 := by
  obtain ⟨R₂, R₃, h⟩ := kT_is_jacobian_plate X ha hb s α β
  exact hasDerivAt_of_cubic _ _ _ R₂ R₃ h

theorem kT_is_derivative_cpanel (X : NCtx ℝ) (ha : X.a ≠ 0) (hb : X.b ≠ 0) (hr : X.r ≠ 0) (s : PtState ℝ)
    (α β : Fin 3) :
    HasDerivAt (fun t : ℝ => CPanelNum.fint X (s.perturb X (cpanelOps X.toP) (fld3 β) t) α)
      (CPanel.fkL_num.entry α β { X with wxi := s.wxi, weta := s.weta }
        + CPanel.fkG_num.entry α β (CPanelNum.withState X s)) 0 := by
  obtain ⟨R₂, R₃, h⟩ := kT_is_jacobian_cpanel X ha hb hr s α β
  exact hasDerivAt_of_cubic _ _ _ R₂ R₃ h

end C08

/-! ### symmetry of the tangent, and the lift from one point to the Gauss sum -/

namespace C08
open Compmech.Gen.PanelNum Compmech.Gen
variable {K : Type} [Field K] [CharZero K]

/-- the point with the roles of the row and the column degree of freedom exchanged -/
def NCtx.swap (X : NCtx K) : NCtx K := { X with E := fun dir d f i => X.E dir d f i.swap }

omit [CharZero K] in
theorem toP_swap (X : NCtx K) : (NCtx.swap X).toP = X.toP.swap := by
  simp only [NCtx.swap, NCtx.toP, PCtx.swap, Idx.swap]
  congr 1
  funext dir _ d₁ f₁ i₁ d₂ f₂ i₂
  exact mul_comm _ _

/-- the tangent stiffness integrand `kL + kG` at ANY state is symmetric: the `(B, A)` entry (computed by the same
generated formulas with the roles of the two degrees of freedom exchanged) equals the `(A, B)` entry -/
theorem kT_symm_plate (X : NCtx K) (ha : X.a ≠ 0) (hb : X.b ≠ 0) (hF : IsABD X.F) (ro co : Fin 3) :
    Plate.fkL_num.entry ro co X + Plate.fkG_num.entry ro co X =
      Plate.fkL_num.entry co ro (NCtx.swap X) + Plate.fkG_num.entry co ro (NCtx.swap X) := by
  rw [kL_entry_plate X ha hb hF, kG_entry_plate X ha hb, kL_entry_plate (NCtx.swap X) ha hb hF,
    kG_entry_plate (NCtx.swap X) ha hb, toP_swap]
  have h1 := hessian_swap X.toP .full .full (nlOps X (plateOps X.toP)) X.F hF.symm (fld3 ro) (fld3 co)
  have h2 := hessian_swap X.toP .full .full (gradOps X.toP) (prestressW X.toP)
    (fun p q => by fin_cases p <;> fin_cases q <;> rfl) (fld3 ro) (fld3 co)
  rw [← h1, ← h2]
  rfl

theorem kT_symm_cpanel (X : NCtx K) (ha : X.a ≠ 0) (hb : X.b ≠ 0) (hr : X.r ≠ 0) (hF : IsABD X.F) (ro co : Fin 3) :
    CPanel.fkL_num.entry ro co X + CPanel.fkG_num.entry ro co X =
      CPanel.fkL_num.entry co ro (NCtx.swap X) + CPanel.fkG_num.entry co ro (NCtx.swap X) := by
  rw [kL_entry_cpanel X ha hb hr hF, kG_entry_cpanel X ha hb, kL_entry_cpanel (NCtx.swap X) ha hb hr hF,
    kG_entry_cpanel (NCtx.swap X) ha hb, toP_swap]
  have h1 := hessian_swap X.toP .full .full (nlOps X (cpanelOps X.toP)) X.F hF.symm (fld3 ro) (fld3 co)
  have h2 := hessian_swap X.toP .full .full (gradOps X.toP) (prestressW X.toP)
    (fun p q => by fin_cases p <;> fin_cases q <;> rfl) (fld3 ro) (fld3 co)
  rw [← h1, ← h2]
  rfl

end C08

/-- a finite sum of functions each differentiable at 0 has the sum of the derivatives as derivative -/
theorem hasDerivAt_list_sum {ι : Type} (l : List ι) (f : ι → ℝ → ℝ) (k : ι → ℝ)
    (h : ∀ p ∈ l, HasDerivAt (f p) (k p) 0) :
    HasDerivAt (fun t => (l.map fun p => f p t).sum) (l.map k).sum 0 := by
  induction l with
  | nil => simpa using hasDerivAt_const (0:ℝ) (0:ℝ)
  | cons p ps ih =>
    simp only [List.map_cons, List.sum_cons]
    exact (h p (by simp)).fun_add (ih fun q hq => h q (by simp [hq]))

namespace C08
open Compmech.Gen.PanelNum

/-- THE WHOLE QUADRATURE: for any list of integration points (each with its own basis values, weight, laminate and
state), the sum over the points of the tangent integrands is the derivative of the sum over the points of the
internal-force integrands with respect to the amplitude of degree of freedom `B` — i.e. the assembled `kT[A, B]` is
`∂ fint[A] / ∂ c_B` exactly, whatever the number and position of the points. -/
theorem kT_is_derivative_gauss_sum_plate (pts : List (NCtx ℝ × PtState ℝ))
    (hpts : ∀ p ∈ pts, p.1.a ≠ 0 ∧ p.1.b ≠ 0) (α β : Fin 3) :
    HasDerivAt
      (fun t : ℝ => (pts.map fun p => PlateNum.fint p.1 (p.2.perturb p.1 (plateOps p.1.toP) (fld3 β) t) α).sum)
      (pts.map fun p => Plate.fkL_num.entry α β { p.1 with wxi := p.2.wxi, weta := p.2.weta }
        + Plate.fkG_num.entry α β (PlateNum.withState p.1 p.2)).sum 0 :=
  hasDerivAt_list_sum pts _ _ fun p hp => kT_is_derivative_plate p.1 (hpts p hp).1 (hpts p hp).2 p.2 α β

theorem kT_is_derivative_gauss_sum_cpanel (pts : List (NCtx ℝ × PtState ℝ))
    (hpts : ∀ p ∈ pts, p.1.a ≠ 0 ∧ p.1.b ≠ 0 ∧ p.1.r ≠ 0) (α β : Fin 3) :
    HasDerivAt
      (fun t : ℝ => (pts.map fun p => CPanelNum.fint p.1 (p.2.perturb p.1 (cpanelOps p.1.toP) (fld3 β) t) α).sum)
      (pts.map fun p => CPanel.fkL_num.entry α β { p.1 with wxi := p.2.wxi, weta := p.2.weta }
        + CPanel.fkG_num.entry α β (CPanelNum.withState p.1 p.2)).sum 0 :=
  hasDerivAt_list_sum pts _ _ fun p hp =>
    kT_is_derivative_cpanel p.1 (hpts p hp).1 (hpts p hp).2.1 (hpts p hp).2.2 p.2 α β

end C08

/-! ### assemblies of panels joined by penalty connections

Notation (`Spec/AssemblyJacobian.lean`, all on top of `Model/Assembly.lean`): `ps` the list of `(m, n)` of the panels; `sizeAt ps k = 3 m n`;
`slice ps k c = c[col_start : col_end]` of panel `k`; `fP k x` the panel's internal force vector and `kP k x` its unfinalized
(`finalize=False`, upper triangle) tangent COO list at the slice `x`; `asmFint ps fP conns c = calcFint ps (panel forces at c) conns c`;
`asmKT ps kP conns c = calcK0 true ps (panel tangents at c) conns`; `axpy c t d = c + t d`; `unitVec n j = e_j`; `zeroVec n = 0`. -/

namespace C08
open Compmech.Asm
open scoped BigOperators

/-- ASSEMBLED TANGENT = JACOBIAN OF THE ASSEMBLED INTERNAL FORCE, for ANY list of panels (any series orders), ANY list of connections (any
kernels' results, any order of the two panels), at ANY state `c`, along ANY direction `d`: if for every panel the derivative at `t = 0` of its
own internal force along its own slice of `d` is its own (finalized) tangent matrix times that slice — the panel-level statement —, then
`d/dt calc_fint(c + t d)_i |_{t=0} = (calc_kT(c) · d)_i` for every row `i`, where `calc_fint` is "placed panel forces + `k0_conn · c`" and
`calc_kT` is "finalized placed panel tangents + finalized connection matrix" of the model.  (`hlen`: a panel returns a vector of its own
size; `hw`: a panel's matrix has no entry outside its own `3 m n × 3 m n` block.) -/
theorem assembly_tangent_is_jacobian (ps : List (Nat × Nat)) (fP : Nat → List ℝ → List ℝ)
    (kP : Nat → List ℝ → Coo ℝ) (conns : List (Conn ℝ)) (c d : List ℝ)
    (hc : c.length = getSize ps) (hd : d.length = getSize ps)
    (hlen : ∀ k, k < ps.length → ∀ x : List ℝ, x.length = sizeAt ps k → (fP k x).length = sizeAt ps k)
    (hw : ∀ k, k < ps.length → Within (sizeAt ps k) (sizeAt ps k) (kP k (slice ps k c)))
    (hP : ∀ k, k < ps.length → ∀ a, a < sizeAt ps k →
      HasDerivAt (fun t : ℝ => (fP k (axpy (slice ps k c) t (slice ps k d))).getD a 0)
        (∑ b ∈ Finset.range (sizeAt ps k), toFun (finalize (kP k (slice ps k c))) a b * (slice ps k d).getD b 0) 0)
    (i : Nat) (hi : i < getSize ps) :
    HasDerivAt (fun t : ℝ => (asmFint ps fP conns (axpy c t d)).getD i 0)
      (∑ j ∈ Finset.range (getSize ps), toFun (asmKT ps kP conns c) i j * d.getD j 0) 0 :=
  assembly_tangent_is_jacobian_aux ps fP kP conns c d hc hd hlen hw hP i hi

/-- the same entry by entry, with the panel hypothesis in the form the panel theorems have (`∂ fint_a / ∂ c_b` = entry `(a, b)` of the panel's
tangent, `a, b` the panel's own indices): entry `(i, j)` of the assembled tangent is the partial derivative of entry `i` of the assembled
internal force w.r.t. amplitude `j` — including the pairs `(i, j)` in DIFFERENT panels, where only the connection matrix contributes. -/
theorem assembly_tangent_entry_is_partial_derivative (ps : List (Nat × Nat)) (fP : Nat → List ℝ → List ℝ)
    (kP : Nat → List ℝ → Coo ℝ) (conns : List (Conn ℝ)) (c : List ℝ)
    (hc : c.length = getSize ps)
    (hlen : ∀ k, k < ps.length → ∀ x : List ℝ, x.length = sizeAt ps k → (fP k x).length = sizeAt ps k)
    (hw : ∀ k, k < ps.length → Within (sizeAt ps k) (sizeAt ps k) (kP k (slice ps k c)))
    (hP : ∀ k, k < ps.length → ∀ a b, a < sizeAt ps k → b < sizeAt ps k →
      HasDerivAt (fun t : ℝ => (fP k (axpy (slice ps k c) t (unitVec (sizeAt ps k) b))).getD a 0)
        (toFun (finalize (kP k (slice ps k c))) a b) 0)
    (i j : Nat) (hi : i < getSize ps) (hj : j < getSize ps) :
    HasDerivAt (fun t : ℝ => (asmFint ps fP conns (axpy c t (unitVec (getSize ps) j))).getD i 0)
      (toFun (asmKT ps kP conns c) i j) 0 :=
  assembly_tangent_entry_aux ps fP kP conns c hc hlen hw hP i j hi hj

/-- … with the panel hypothesis DISCHARGED by the panel theorems `kT_is_derivative_gauss_sum_plate / _cpanel`: a mixed assembly of flat
(`cyl k = false`) and cylindrical (`cyl k = true`) panels whose internal-force and tangent entries are the Gauss sums of the regenerated
integrands (`PlateGaussPair` / `CPanelGaussPair` of Spec/AssemblyGauss.lean: what is assumed there is the accumulation of the point state
over the degrees of freedom and the dof map, not any derivative). -/
theorem assembly_tangent_is_jacobian_gauss (ps : List (Nat × Nat)) (cyl : Nat → Bool) (fP : Nat → List ℝ → List ℝ)
    (kP : Nat → List ℝ → Coo ℝ) (conns : List (Conn ℝ)) (c : List ℝ)
    (hc : c.length = getSize ps)
    (hlen : ∀ k, k < ps.length → ∀ x : List ℝ, x.length = sizeAt ps k → (fP k x).length = sizeAt ps k)
    (hw : ∀ k, k < ps.length → Within (sizeAt ps k) (sizeAt ps k) (kP k (slice ps k c)))
    (hG : ∀ k, k < ps.length → ∀ a b, a < sizeAt ps k → b < sizeAt ps k →
      if cyl k then
        CPanelGaussPair (fun t : ℝ => (fP k (axpy (slice ps k c) t (unitVec (sizeAt ps k) b))).getD a 0)
          (toFun (finalize (kP k (slice ps k c))) a b) (fieldOf a) (fieldOf b)
      else
        PlateGaussPair (fun t : ℝ => (fP k (axpy (slice ps k c) t (unitVec (sizeAt ps k) b))).getD a 0)
          (toFun (finalize (kP k (slice ps k c))) a b) (fieldOf a) (fieldOf b))
    (i j : Nat) (hi : i < getSize ps) (hj : j < getSize ps) :
    HasDerivAt (fun t : ℝ => (asmFint ps fP conns (axpy c t (unitVec (getSize ps) j))).getD i 0)
      (toFun (asmKT ps kP conns c) i j) 0 := by
  refine assembly_tangent_entry_aux ps fP kP conns c hc hlen hw ?_ i j hi hj
  intro k hk a b ha hb
  have h := hG k hk a b ha hb
  by_cases hcyl : cyl k = true
  · rw [if_pos hcyl] at h
    obtain ⟨pts, hpts, hf, hkab⟩ := h
    rw [funext hf, hkab]
    exact kT_is_derivative_gauss_sum_cpanel pts hpts (fieldOf a) (fieldOf b)
  · rw [if_neg hcyl] at h
    obtain ⟨pts, hpts, hf, hkab⟩ := h
    rw [funext hf, hkab]
    exact kT_is_derivative_gauss_sum_plate pts hpts (fieldOf a) (fieldOf b)

/-- the assembled tangent is SYMMETRIC at every state, for any panels and connections.  No hypothesis on the panel tangents is needed: the
model (like the code) takes the upper triangle of the placed panel parts and of the placed connection blocks and mirrors it
(`finalize_symmetric_matrix`), so each panel's tangent matrix `finalize (kP k x)` — the one the Jacobian hypothesis is about — is symmetric
by construction (`kT_symm_plate/_cpanel` say that this mirroring loses nothing). -/
theorem assembly_tangent_symm {K : Type} [Field K] (ps : List (Nat × Nat)) (kP : Nat → List K → Coo K)
    (conns : List (Conn K)) (c : List K) (i j : Nat) :
    toFun (asmKT ps kP conns c) i j = toFun (asmKT ps kP conns c) j i :=
  asmKT_symm ps kP conns c i j

/-- `fint(0) = 0` for the assembly: if every panel's internal force vanishes at the undeformed state (`fint_zero_plate/_cpanel` for the
integrands), the assembled internal force at `c = 0` is the zero vector — the connection part `k0_conn · 0` vanishes for any connections. -/
theorem assembly_fint_zero {K : Type} [Field K] (ps : List (Nat × Nat)) (fP : Nat → List K → List K)
    (conns : List (Conn K))
    (hz : ∀ k, k < ps.length → fP k (zeroVec (sizeAt ps k)) = zeroVec (sizeAt ps k)) :
    asmFint ps fP conns (zeroVec (getSize ps)) = zeroVec (getSize ps) :=
  asmFint_zero_aux ps fP conns hz

/-- LINEAR PART of the assembled internal force: if at the undeformed state every panel's tangent matrix is, entry by entry, its linear stiffness
`K0_k` (`kL_at_zero_eq_k0_*` and `kG = 0` there) and is the derivative of the panel's force there, then along every direction `d`
`d/dt calc_fint(t d)_i |_{t=0} = ((K0 + K_conn) d)_i` with `K0 + K_conn = calc_k0()` of the assembly (`calcK0 true` of the panels' linear
stiffnesses and the same connections): together with `assembly_fint_zero`, `fint(t d) = t (K0 + K_conn) d + o(t)`. -/
theorem assembly_fint_linear_part (ps : List (Nat × Nat)) (fP : Nat → List ℝ → List ℝ)
    (kP : Nat → List ℝ → Coo ℝ) (k0P : Nat → Coo ℝ) (conns : List (Conn ℝ)) (d : List ℝ)
    (hd : d.length = getSize ps)
    (hlen : ∀ k, k < ps.length → ∀ x : List ℝ, x.length = sizeAt ps k → (fP k x).length = sizeAt ps k)
    (hw : ∀ k, k < ps.length → Within (sizeAt ps k) (sizeAt ps k) (kP k (zeroVec (sizeAt ps k))))
    (hw0 : ∀ k, k < ps.length → Within (sizeAt ps k) (sizeAt ps k) (k0P k))
    (h0 : ∀ k, k < ps.length → ∀ a b, a < sizeAt ps k → b < sizeAt ps k →
      toFun (finalize (kP k (zeroVec (sizeAt ps k)))) a b = toFun (finalize (k0P k)) a b)
    (hP : ∀ k, k < ps.length → ∀ a, a < sizeAt ps k →
      HasDerivAt (fun t : ℝ => (fP k (axpy (zeroVec (sizeAt ps k)) t (slice ps k d))).getD a 0)
        (∑ b ∈ Finset.range (sizeAt ps k),
          toFun (finalize (kP k (zeroVec (sizeAt ps k)))) a b * (slice ps k d).getD b 0) 0)
    (i : Nat) (hi : i < getSize ps) :
    HasDerivAt (fun t : ℝ => (asmFint ps fP conns (axpy (zeroVec (getSize ps)) t d)).getD i 0)
      (∑ j ∈ Finset.range (getSize ps),
        toFun (calcK0 true ps ((List.range ps.length).map k0P) conns) i j * d.getD j 0) 0 :=
  asmFint_linear_part_aux ps fP kP k0P conns d hd hlen hw hw0 h0 hP i hi

/-- … and exactly, for LINEAR panels (`fint_k(x) = K0_k x`): `calc_fint(c) = (K0 + K_conn) c`, any field. -/
theorem assembly_fint_linear {K : Type} [Field K] (ps : List (Nat × Nat)) (k0P : Nat → Coo K)
    (fP : Nat → List K → List K) (conns : List (Conn K)) (c : List K) (hc : c.length = getSize ps)
    (hw : ∀ k, k < ps.length → Within (sizeAt ps k) (sizeAt ps k) (k0P k))
    (hlin : ∀ k, k < ps.length → ∀ x : List K, x.length = sizeAt ps k →
      fP k x = (List.range (sizeAt ps k)).map fun a =>
        ∑ b ∈ Finset.range (sizeAt ps k), toFun (finalize (k0P k)) a b * x.getD b 0)
    (i : Nat) (hi : i < getSize ps) :
    (asmFint ps fP conns c).getD i 0 =
      ∑ j ∈ Finset.range (getSize ps),
        toFun (calcK0 true ps ((List.range ps.length).map k0P) conns) i j * c.getD j 0 :=
  asmFint_linear_aux ps k0P fP conns c hc hw hlin i hi

/-! #### non-vacuity: every hypothesis instantiated (`AsmJacExample` of Spec/AssemblyJacobian.lean)

two panels with `m = n = 1` (three amplitudes each), cubic internal force `fint_a = x_a³ + x_a` with tangent `3 x_a² + 1`, one connection
listed with `p1` after `p2` -/

open AsmJacExample in
example (c d : List ℝ) (hc : c.length = 6) (hd : d.length = 6) (i : Nat) (hi : i < 6) :
    HasDerivAt (fun t : ℝ => (asmFint ps2 cubF conn2 (axpy c t d)).getD i 0)
      (∑ j ∈ Finset.range 6, toFun (asmKT ps2 cubK conn2 c) i j * d.getD j 0) 0 :=
  assembly_tangent_is_jacobian ps2 cubF cubK conn2 c d hc hd
    (fun k hk x hx => cub_len k x _ hx)
    (fun k hk => by rw [sz k hk]; exact cub_within k _)
    (fun k hk a ha => by
      rw [sz k hk] at ha ⊢
      exact cub_hasDerivAt k _ _ (by rw [length_slice ps2 k hk c hc, length_slice ps2 k hk d hd]) a ha) i hi

open AsmJacExample in
/-- … and the coupling really is in the assembled tangent: `∂ fint_0 / ∂ c_3 = −2` (amplitude 0 of the first panel, amplitude 0 of the second) -/
example : toFun (asmKT ps2 cubK conn2 [1, 2, 3, 4, 5, 6]) 0 3 = -2 ∧
    toFun (asmKT ps2 cubK conn2 [1, 2, 3, 4, 5, 6]) 3 0 = -2 ∧
    toFun (asmKT ps2 cubK conn2 [1, 2, 3, 4, 5, 6]) 1 1 = 3 * 2 ^ 2 + 1 := by
  simp only [asmKT, calcK0, calcNoConn, k0Conn, finalize, toFun_append, toFun_makeSymmetric, if_true]
  norm_num [toFun, placeAll, panelBlocks, panelMats, connAllBlocks, connBlocks, init, initLoop, ps2, conn2, cubK, slice,
    sizeAt, panelSizes, startOf, Block.placed, shift, transpose, List.range_succ]

open AsmJacExample in
/-- entry form: the same assembly, partial derivatives -/
example (c : List ℝ) (hc : c.length = 6) (i j : Nat) (hi : i < 6) (hj : j < 6) :
    HasDerivAt (fun t : ℝ => (asmFint ps2 cubF conn2 (axpy c t (unitVec 6 j))).getD i 0)
      (toFun (asmKT ps2 cubK conn2 c) i j) 0 :=
  assembly_tangent_entry_is_partial_derivative ps2 cubF cubK conn2 c hc
    (fun k hk x hx => cub_len k x _ hx)
    (fun k hk => by rw [sz k hk]; exact cub_within k _)
    (fun k hk a b ha hb => by
      rw [sz k hk] at ha hb ⊢
      exact cub_hasDerivAt_unit k _ (by rw [length_slice ps2 k hk c hc, sz k hk]) a b ha hb) i j hi hj

open AsmJacExample in
/-- `fint(0) = 0` for the connected cubic panels -/
example : asmFint ps2 cubF conn2 (zeroVec 6) = zeroVec 6 :=
  assembly_fint_zero ps2 cubF conn2 (fun k _ => cub_zero k _)

open AsmJacExample in
/-- the linear part of the connected cubic panels: `K0 = identity` on each panel, plus the connection -/
example (d : List ℝ) (hd : d.length = 6) (i : Nat) (hi : i < 6) :
    HasDerivAt (fun t : ℝ => (asmFint ps2 cubF conn2 (axpy (zeroVec 6) t d)).getD i 0)
      (∑ j ∈ Finset.range 6, toFun (calcK0 true ps2 ((List.range 2).map cubK0) conn2) i j * d.getD j 0) 0 :=
  assembly_fint_linear_part ps2 cubF cubK cubK0 conn2 d hd
    (fun k hk x hx => cub_len k x _ hx)
    (fun k hk => by rw [sz k hk]; exact cub_within k _)
    (fun k hk => by rw [sz k hk]; exact cubK0_within k)
    (fun k hk a b _ _ => by rw [sz k hk]; exact cubK_zero k a b)
    (fun k hk a ha => by
      rw [sz k hk] at ha ⊢
      exact cub_hasDerivAt k _ _ (by rw [length_zeroVec, length_slice ps2 k hk d hd, sz k hk]) a ha) i hi

open AsmJacExample in
/-- linear panels joined by the connection: `calc_fint(c) = (K0 + K_conn) c` exactly -/
example (c : List ℝ) (hc : c.length = 6) (i : Nat) (hi : i < 6) :
    (asmFint ps2 linF conn2 c).getD i 0 =
      ∑ j ∈ Finset.range 6, toFun (calcK0 true ps2 ((List.range 2).map cubK0) conn2) i j * c.getD j 0 :=
  assembly_fint_linear ps2 cubK0 linF conn2 c hc (fun k hk => by rw [sz k hk]; exact cubK0_within k)
    (fun _ _ _ _ => rfl) i hi

open AsmJacExample AsmGaussExample in
/-- non-vacuity of `assembly_tangent_is_jacobian_gauss`: two flat panels with `m = n = 1`, each integrated with one point whose state IS
accumulated from the panel's amplitudes (`AsmGaussExample` of Spec/AssemblyGauss.lean: force vector and tangent list are the regenerated
integrands at that state), joined by the connection of `AsmJacExample` — every hypothesis, including the Gauss-point form, is proved -/
example (c : List ℝ) (hc : c.length = 6) (i j : Nat) (hi : i < 6) (hj : j < 6) :
    HasDerivAt (fun t : ℝ => (asmFint ps2 gF conn2 (axpy c t (unitVec 6 j))).getD i 0)
      (toFun (asmKT ps2 gK conn2 c) i j) 0 :=
  assembly_tangent_is_jacobian_gauss ps2 (fun _ => false) gF gK conn2 c hc
    (fun k hk x _ => by rw [sz k hk]; exact gF_len k x)
    (fun k hk => by rw [sz k hk]; exact gK_within k _)
    (fun k hk a b ha hb => by
      rw [sz k hk] at ha hb ⊢
      simp only [Bool.false_eq_true, if_false]
      exact gauss_pair k _ (by rw [length_slice ps2 k hk c hc, sz k hk]) a b ha hb) i j hi hj

end C08

end Compmech.Panel
