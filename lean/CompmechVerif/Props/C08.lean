/-
C08 — internal force = gradient of the (Donnell / von Kármán) strain energy; tangent = its exact Jacobian.
Pointwise content of fkL_num, fkG_num, calc_fint REGENERATED from *_num.pyx on every run; Gauss summation is
linear, so every statement lifts to the sums over integration points (exactness of the rule: C10).
-/
import CompmechVerif.Spec.NonlinearPoint
import CompmechVerif.Spec.Jacobian.PlateU
import CompmechVerif.Spec.Jacobian.PlateV
import CompmechVerif.Spec.Jacobian.PlateW
import CompmechVerif.Spec.Jacobian.CPanelU
import CompmechVerif.Spec.Jacobian.CPanelV
import CompmechVerif.Spec.Jacobian.CPanelW
import Mathlib.Analysis.Calculus.Deriv.Pow
import Mathlib.Analysis.Calculus.Deriv.Add
import Mathlib.Analysis.Calculus.Deriv.Mul
import CompmechVerif.Gen.Panel.Plate
import CompmechVerif.Gen.Panel.CPanel
import CompmechVerif.Core.OpSpecTactics
import CompmechVerif.Core.OpSpecLemmas
import Mathlib.Tactic.FinCases
import Mathlib.Data.Fintype.Basic

set_option linter.unnecessarySeqFocus false
set_option linter.unusedSectionVars false
set_option linter.unusedSimpArgs false

namespace Compmech.Panel

/-- `num_eq [unfold lemmas] sym hF` -/
syntax "num_eq " "[" Lean.Parser.Tactic.simpLemma,* "]" " sym " term : tactic
macro_rules
  | `(tactic| num_eq [$ls,*] sym $hF) => `(tactic|
      (obtain ⟨h10, h20, h30, h40, h50, h21, h31, h41, h51, h32, h42, h52, h43, h53, h54⟩ :=
         sym6_rewrites _ (IsABD.symm $hF)
       have hb12 := IsABD.b12 $hF
       have hb16 := IsABD.b16 $hF
       have hb26 := IsABD.b26 $hF
       simp only [Fin.reduceFinMk, Fin.isValue, Fin.zero_eta, Fin.mk_one, panel_entry, $ls,*, hessian, pairInt, fld3,
         NCtx.toP, nlOps, vkOps, dofB, NCtx.S, NCtx.eps, List.finRange, List.map, List.sum_cons, List.sum_nil,
         List.append, List.cons_append, List.nil_append, List.map_cons, List.map_nil]
       simp only [List.ofFn, Fin.foldr, Fin.foldr.loop, List.map, List.sum_cons, List.sum_nil,
         h10, h20, h30, h40, h50, h21, h31, h41, h51, h32, h42, h52, h43, h53, h54, hb12, hb16, hb26,
         mul_zero, zero_mul, add_zero, zero_add]
       try simp
       try simp only [h10, h20, h30, h40, h50, h21, h31, h41, h51, h32, h42, h52, h43, h53, h54, hb12, hb16, hb26]
       try field_simp
       try ring
       try simp))

namespace C08
open Compmech.Gen.PanelNum Compmech.Gen

variable {K : Type} [Field K] [CharZero K]

/-! ### the pieces -/

/-- the stress resultants are the laminate matrix times the strains of the point -/
theorem resultants_eq_F_strain_plate (X : NCtx K) (hF : IsABD X.F) :
    Plate.calc_fint.def_Nxx X = ((List.finRange 6).map fun q => X.F 0 q * X.eps q).sum ∧
    Plate.calc_fint.def_Nyy X = ((List.finRange 6).map fun q => X.F 1 q * X.eps q).sum ∧
    Plate.calc_fint.def_Nxy X = ((List.finRange 6).map fun q => X.F 2 q * X.eps q).sum ∧
    Plate.calc_fint.def_Mxx X = ((List.finRange 6).map fun q => X.F 3 q * X.eps q).sum ∧
    Plate.calc_fint.def_Myy X = ((List.finRange 6).map fun q => X.F 4 q * X.eps q).sum ∧
    Plate.calc_fint.def_Mxy X = ((List.finRange 6).map fun q => X.F 5 q * X.eps q).sum := by
  refine ⟨?_, ?_, ?_, ?_, ?_, ?_⟩ <;> num_eq [fld3] sym hF

/-- the quadratic slope terms added to the membrane strains are Donnell's `½ w,x²`, `½ w,y²`, `w,x w,y`
of the WHOLE series (`w,x = (2/a) wxi`, `w,y = (2/b) weta`) — in contrast to the field-recovery kernel (C11) -/
theorem quadratic_terms_plate (X : NCtx K) (ha : X.a ≠ 0) (hb : X.b ≠ 0) :
    Plate.calc_fint.add_exx X = 1 / 2 * (2 / X.a * X.wxi) ^ 2 ∧
    Plate.calc_fint.add_eyy X = 1 / 2 * (2 / X.b * X.weta) ^ 2 ∧
    Plate.calc_fint.add_gxy X = (2 / X.a * X.wxi) * (2 / X.b * X.weta) := by
  refine ⟨?_, ?_, ?_⟩ <;> simp only [panel_entry] <;> field_simp <;> ring

/-- internal-force integrand of a degree of freedom = weight × (ab/4) × resultants · strain variation of that
degree of freedom (linear Donnell part + von Kármán part at the current slopes): the energy gradient -/
theorem fint_is_gradient_plate (X : NCtx K) (ha : X.a ≠ 0) (hb : X.b ≠ 0) (α : Fin 3) :
    (match α with | 0 => Plate.calc_fint.fint0 X | 1 => Plate.calc_fint.fint1 X | 2 => Plate.calc_fint.fint2 X) =
      X.weight * (X.a * X.b / 4 *
        ((List.finRange 6).map fun p => X.S p * dofB X (nlOps X (plateOps X.toP)) .A (fld3 α) p).sum) := by
  fin_cases α <;>
    simp only [Fin.reduceFinMk, Fin.isValue, Fin.zero_eta, Fin.mk_one, panel_entry, fld3, NCtx.toP, nlOps, vkOps,
      dofB, NCtx.S, plateOps, List.finRange, List.ofFn, Fin.foldr, Fin.foldr.loop, List.map, List.sum_cons,
      List.sum_nil, List.append, List.cons_append, List.nil_append] <;>
    field_simp <;> ring

theorem fint_is_gradient_cpanel (X : NCtx K) (ha : X.a ≠ 0) (hb : X.b ≠ 0) (hr : X.r ≠ 0) (α : Fin 3) :
    (match α with | 0 => CPanel.calc_fint.fint0 X | 1 => CPanel.calc_fint.fint1 X | 2 => CPanel.calc_fint.fint2 X) =
      X.weight * (X.a * X.b / 4 *
        ((List.finRange 6).map fun p => X.S p * dofB X (nlOps X (cpanelOps X.toP)) .A (fld3 α) p).sum) := by
  fin_cases α <;>
    simp only [Fin.reduceFinMk, Fin.isValue, Fin.zero_eta, Fin.mk_one, panel_entry, fld3, NCtx.toP, nlOps, vkOps,
      dofB, NCtx.S, cpanelOps, plateOps, List.finRange, List.ofFn, Fin.foldr, Fin.foldr.loop, List.map, List.sum_cons,
      List.sum_nil, List.append, List.cons_append, List.nil_append] <;>
    field_simp <;> ring

set_option maxHeartbeats 1600000 in
/-- `kL` integrand = weight × Hessian form with the non-linear strain-variation operator on both sides -/
theorem kL_entry_plate (X : NCtx K) (ha : X.a ≠ 0) (hb : X.b ≠ 0) (hF : IsABD X.F) (ro co : Fin 3) :
    Plate.fkL_num.entry ro co X =
      X.weight * hessian X.toP .full .full (nlOps X (plateOps X.toP)) X.F (fld3 ro) (fld3 co) := by
  fin_cases ro <;> fin_cases co <;> num_eq [plateOps] sym hF

set_option maxHeartbeats 1600000 in
theorem kL_entry_cpanel (X : NCtx K) (ha : X.a ≠ 0) (hb : X.b ≠ 0) (hr : X.r ≠ 0) (hF : IsABD X.F)
    (ro co : Fin 3) :
    CPanel.fkL_num.entry ro co X =
      X.weight * hessian X.toP .full .full (nlOps X (cpanelOps X.toP)) X.F (fld3 ro) (fld3 co) := by
  fin_cases ro <;> fin_cases co <;> num_eq [cpanelOps, plateOps] sym hF

/-- `kG` integrand = weight × Hessian of the pre-stress work with the resultants of the point (C03, state based) -/
theorem kG_entry_plate (X : NCtx K) (ha : X.a ≠ 0) (hb : X.b ≠ 0) (ro co : Fin 3) :
    Plate.fkG_num.entry ro co X =
      X.weight * hessian X.toP .full .full (gradOps X.toP) (prestressW X.toP) (fld3 ro) (fld3 co) := by
  fin_cases ro <;> fin_cases co <;>
    simp only [Fin.reduceFinMk, Fin.isValue, Fin.zero_eta, Fin.mk_one, panel_entry, fld3, NCtx.toP, hessian, pairInt,
      gradOps, prestressW, List.finRange, List.ofFn, Fin.foldr, Fin.foldr.loop, List.map, List.sum_cons, List.sum_nil,
      mul_zero, zero_mul, add_zero, zero_add] <;>
    (try simp) <;> (try field_simp) <;> (try ring) <;> (try simp)

theorem kG_entry_cpanel (X : NCtx K) (ha : X.a ≠ 0) (hb : X.b ≠ 0) (ro co : Fin 3) :
    CPanel.fkG_num.entry ro co X =
      X.weight * hessian X.toP .full .full (gradOps X.toP) (prestressW X.toP) (fld3 ro) (fld3 co) := by
  fin_cases ro <;> fin_cases co <;>
    simp only [Fin.reduceFinMk, Fin.isValue, Fin.zero_eta, Fin.mk_one, panel_entry, fld3, NCtx.toP, hessian, pairInt,
      gradOps, prestressW, List.finRange, List.ofFn, Fin.foldr, Fin.foldr.loop, List.map, List.sum_cons, List.sum_nil,
      mul_zero, zero_mul, add_zero, zero_add] <;>
    (try simp) <;> (try field_simp) <;> (try ring) <;> (try simp)

/-- at the undeformed state the `kL` integrand is the ANALYTIC kernel's entry read on the point values
(so the Gauss sum of fkL_num at c = 0 is the quadrature of fk0: C14 numeric = analytic) -/
theorem kL_at_zero_eq_k0_plate (X : NCtx K) (ha : X.a ≠ 0) (hb : X.b ≠ 0) (ro co : Fin 3) :
    Plate.fkL_num.entry ro co { X with wxi := 0, weta := 0 } = X.weight * Gen.Plate.fk0.entry ro co X.toP := by
  fin_cases ro <;> fin_cases co <;>
    simp only [Fin.reduceFinMk, Fin.isValue, Fin.zero_eta, Fin.mk_one, panel_entry, NCtx.toP] <;> field_simp <;> ring

theorem kL_at_zero_eq_k0_cpanel (X : NCtx K) (ha : X.a ≠ 0) (hb : X.b ≠ 0) (hr : X.r ≠ 0) (ro co : Fin 3) :
    CPanel.fkL_num.entry ro co { X with wxi := 0, weta := 0 } = X.weight * Gen.CPanel.fk0.entry ro co X.toP := by
  fin_cases ro <;> fin_cases co <;>
    simp only [Fin.reduceFinMk, Fin.isValue, Fin.zero_eta, Fin.mk_one, panel_entry, NCtx.toP] <;> field_simp <;> ring

/-- the internal force vanishes at the undeformed state -/
theorem fint_zero_plate (X : NCtx K) (α : Fin 3) :
    PlateNum.fint X ⟨fun _ => 0, 0, 0⟩ α = 0 := by
  fin_cases α <;> simp [PlateNum.fint, PlateNum.withState, panel_entry]

theorem fint_zero_cpanel (X : NCtx K) (α : Fin 3) :
    CPanelNum.fint X ⟨fun _ => 0, 0, 0⟩ α = 0 := by
  fin_cases α <;> simp [CPanelNum.fint, CPanelNum.withState, panel_entry]

/-! ### tangent = exact Jacobian of the internal force -/

/-- Adding `t` times ANY degree of freedom `B` (field `β`) to the amplitudes changes the internal-force integrand
of ANY degree of freedom `A` (field `α`) by `t·(kL + kG)_{AB} + t²R₂ + t³R₃`, `R₂`, `R₃` independent of `t`:
the tangent stiffness returned at a state is the exact derivative of the internal force at that state —
for every state (linear strains, slopes), laminate, geometry, point values. -/
theorem kT_is_jacobian_plate (X : NCtx K) (ha : X.a ≠ 0) (hb : X.b ≠ 0) (s : PtState K) (α β : Fin 3) :
    ∃ R₂ R₃ : K, ∀ t : K,
      PlateNum.fint X (s.perturb X (plateOps X.toP) (fld3 β) t) α =
        PlateNum.fint X s α
        + t * (Plate.fkL_num.entry α β { X with wxi := s.wxi, weta := s.weta }
                + Plate.fkG_num.entry α β (PlateNum.withState X s))
        + t ^ 2 * R₂ + t ^ 3 * R₃ := by
  fin_cases α <;> fin_cases β
  · exact ⟨_, _, fun t => Jacobian.plate_0_0 X ha hb s t⟩
  · exact ⟨_, _, fun t => Jacobian.plate_0_1 X ha hb s t⟩
  · exact ⟨_, _, fun t => Jacobian.plate_0_2 X ha hb s t⟩
  · exact ⟨_, _, fun t => Jacobian.plate_1_0 X ha hb s t⟩
  · exact ⟨_, _, fun t => Jacobian.plate_1_1 X ha hb s t⟩
  · exact ⟨_, _, fun t => Jacobian.plate_1_2 X ha hb s t⟩
  · exact ⟨_, _, fun t => Jacobian.plate_2_0 X ha hb s t⟩
  · exact ⟨_, _, fun t => Jacobian.plate_2_1 X ha hb s t⟩
  · exact ⟨_, _, fun t => Jacobian.plate_2_2 X ha hb s t⟩

theorem kT_is_jacobian_cpanel (X : NCtx K) (ha : X.a ≠ 0) (hb : X.b ≠ 0) (hr : X.r ≠ 0) (s : PtState K)
    (α β : Fin 3) :
    ∃ R₂ R₃ : K, ∀ t : K,
      CPanelNum.fint X (s.perturb X (cpanelOps X.toP) (fld3 β) t) α =
        CPanelNum.fint X s α
        + t * (CPanel.fkL_num.entry α β { X with wxi := s.wxi, weta := s.weta }
                + CPanel.fkG_num.entry α β (CPanelNum.withState X s))
        + t ^ 2 * R₂ + t ^ 3 * R₃ := by
  fin_cases α <;> fin_cases β
  · exact ⟨_, _, fun t => Jacobian.cpanel_0_0 X ha hb hr s t⟩
  · exact ⟨_, _, fun t => Jacobian.cpanel_0_1 X ha hb hr s t⟩
  · exact ⟨_, _, fun t => Jacobian.cpanel_0_2 X ha hb hr s t⟩
  · exact ⟨_, _, fun t => Jacobian.cpanel_1_0 X ha hb hr s t⟩
  · exact ⟨_, _, fun t => Jacobian.cpanel_1_1 X ha hb hr s t⟩
  · exact ⟨_, _, fun t => Jacobian.cpanel_1_2 X ha hb hr s t⟩
  · exact ⟨_, _, fun t => Jacobian.cpanel_2_0 X ha hb hr s t⟩
  · exact ⟨_, _, fun t => Jacobian.cpanel_2_1 X ha hb hr s t⟩
  · exact ⟨_, _, fun t => Jacobian.cpanel_2_2 X ha hb hr s t⟩

end C08

/-- a function that is a cubic polynomial in `t` has the linear coefficient as derivative at 0 -/
theorem hasDerivAt_of_cubic (f : ℝ → ℝ) (c₀ c₁ c₂ c₃ : ℝ) (h : ∀ t, f t = c₀ + t * c₁ + t ^ 2 * c₂ + t ^ 3 * c₃) :
    HasDerivAt f c₁ 0 := by
  have hf : f = fun t => c₀ + t * c₁ + t ^ 2 * c₂ + t ^ 3 * c₃ := funext h
  rw [hf]
  have h1 : HasDerivAt (fun t : ℝ => t * c₁) c₁ 0 := by simpa using (hasDerivAt_id (0 : ℝ)).mul_const c₁
  have h2 : HasDerivAt (fun t : ℝ => t ^ 2 * c₂) 0 0 := by
    simpa using ((hasDerivAt_pow 2 (0 : ℝ)).mul_const c₂)
  have h3 : HasDerivAt (fun t : ℝ => t ^ 3 * c₃) 0 0 := by
    simpa using ((hasDerivAt_pow 3 (0 : ℝ)).mul_const c₃)
  have h0 : HasDerivAt (fun _ : ℝ => c₀) 0 0 := hasDerivAt_const 0 c₀
  have := ((h0.fun_add h1).fun_add h2).fun_add h3
  have e : (0 + c₁ + 0 + 0 : ℝ) = c₁ := by ring
  rw [e] at this
  exact this

namespace C08
open Compmech.Gen.PanelNum

/-- over the reals: the tangent entry IS the derivative of the internal force w.r.t. the amplitude -/
theorem kT_is_derivative_plate (X : NCtx ℝ) (ha : X.a ≠ 0) (hb : X.b ≠ 0) (s : PtState ℝ) (α β : Fin 3) :
    HasDerivAt (fun t : ℝ => PlateNum.fint X (s.perturb X (plateOps X.toP) (fld3 β) t) α)
      (Plate.fkL_num.entry α β { X with wxi := s.wxi, weta := s.weta }
        + Plate.fkG_num.entry α β (PlateNum.withState X s)) 0 := by
  obtain ⟨R₂, R₃, h⟩ := kT_is_jacobian_plate X ha hb s α β
  exact hasDerivAt_of_cubic _ _ _ R₂ R₃ h

theorem kT_is_derivative_cpanel (X : NCtx ℝ) (ha : X.a ≠ 0) (hb : X.b ≠ 0) (hr : X.r ≠ 0) (s : PtState ℝ)
    (α β : Fin 3) :
    HasDerivAt (fun t : ℝ => CPanelNum.fint X (s.perturb X (cpanelOps X.toP) (fld3 β) t) α)
      (CPanel.fkL_num.entry α β { X with wxi := s.wxi, weta := s.weta }
        + CPanel.fkG_num.entry α β (CPanelNum.withState X s)) 0 := by
  obtain ⟨R₂, R₃, h⟩ := kT_is_jacobian_cpanel X ha hb hr s α β
  exact hasDerivAt_of_cubic _ _ _ R₂ R₃ h

end C08

/-! ### symmetry of the tangent, and the lift from one point to the Gauss sum -/

namespace C08
open Compmech.Gen.PanelNum Compmech.Gen
variable {K : Type} [Field K] [CharZero K]

/-- the point with the roles of the row and the column degree of freedom exchanged -/
def NCtx.swap (X : NCtx K) : NCtx K := { X with E := fun dir d f i => X.E dir d f i.swap }

omit [CharZero K] in
theorem toP_swap (X : NCtx K) : (NCtx.swap X).toP = X.toP.swap := by
  simp only [NCtx.swap, NCtx.toP, PCtx.swap, Idx.swap]
  congr 1
  funext dir _ d₁ f₁ i₁ d₂ f₂ i₂
  exact mul_comm _ _

/-- the tangent stiffness integrand `kL + kG` at ANY state is symmetric: the `(B, A)` entry (computed by the same
generated formulas with the roles of the two degrees of freedom exchanged) equals the `(A, B)` entry -/
theorem kT_symm_plate (X : NCtx K) (ha : X.a ≠ 0) (hb : X.b ≠ 0) (hF : IsABD X.F) (ro co : Fin 3) :
    Plate.fkL_num.entry ro co X + Plate.fkG_num.entry ro co X =
      Plate.fkL_num.entry co ro (NCtx.swap X) + Plate.fkG_num.entry co ro (NCtx.swap X) := by
  rw [kL_entry_plate X ha hb hF, kG_entry_plate X ha hb, kL_entry_plate (NCtx.swap X) ha hb hF,
    kG_entry_plate (NCtx.swap X) ha hb, toP_swap]
  have h1 := hessian_swap X.toP .full .full (nlOps X (plateOps X.toP)) X.F hF.symm (fld3 ro) (fld3 co)
  have h2 := hessian_swap X.toP .full .full (gradOps X.toP) (prestressW X.toP)
    (fun p q => by fin_cases p <;> fin_cases q <;> rfl) (fld3 ro) (fld3 co)
  rw [← h1, ← h2]
  rfl

theorem kT_symm_cpanel (X : NCtx K) (ha : X.a ≠ 0) (hb : X.b ≠ 0) (hr : X.r ≠ 0) (hF : IsABD X.F) (ro co : Fin 3) :
    CPanel.fkL_num.entry ro co X + CPanel.fkG_num.entry ro co X =
      CPanel.fkL_num.entry co ro (NCtx.swap X) + CPanel.fkG_num.entry co ro (NCtx.swap X) := by
  rw [kL_entry_cpanel X ha hb hr hF, kG_entry_cpanel X ha hb, kL_entry_cpanel (NCtx.swap X) ha hb hr hF,
    kG_entry_cpanel (NCtx.swap X) ha hb, toP_swap]
  have h1 := hessian_swap X.toP .full .full (nlOps X (cpanelOps X.toP)) X.F hF.symm (fld3 ro) (fld3 co)
  have h2 := hessian_swap X.toP .full .full (gradOps X.toP) (prestressW X.toP)
    (fun p q => by fin_cases p <;> fin_cases q <;> rfl) (fld3 ro) (fld3 co)
  rw [← h1, ← h2]
  rfl

end C08

/-- a finite sum of functions each differentiable at 0 has the sum of the derivatives as derivative -/
theorem hasDerivAt_list_sum {ι : Type} (l : List ι) (f : ι → ℝ → ℝ) (k : ι → ℝ)
    (h : ∀ p ∈ l, HasDerivAt (f p) (k p) 0) :
    HasDerivAt (fun t => (l.map fun p => f p t).sum) (l.map k).sum 0 := by
  induction l with
  | nil => simpa using hasDerivAt_const (0:ℝ) (0:ℝ)
  | cons p ps ih =>
    simp only [List.map_cons, List.sum_cons]
    exact (h p (by simp)).fun_add (ih fun q hq => h q (by simp [hq]))

namespace C08
open Compmech.Gen.PanelNum

/-- THE WHOLE QUADRATURE: for any list of integration points (each with its own basis values, weight, laminate and
state), the sum over the points of the tangent integrands is the derivative of the sum over the points of the
internal-force integrands with respect to the amplitude of degree of freedom `B` — i.e. the assembled `kT[A, B]` is
`∂ fint[A] / ∂ c_B` exactly, whatever the number and position of the points. -/
theorem kT_is_derivative_gauss_sum_plate (pts : List (NCtx ℝ × PtState ℝ))
    (hpts : ∀ p ∈ pts, p.1.a ≠ 0 ∧ p.1.b ≠ 0) (α β : Fin 3) :
    HasDerivAt
      (fun t : ℝ => (pts.map fun p => PlateNum.fint p.1 (p.2.perturb p.1 (plateOps p.1.toP) (fld3 β) t) α).sum)
      (pts.map fun p => Plate.fkL_num.entry α β { p.1 with wxi := p.2.wxi, weta := p.2.weta }
        + Plate.fkG_num.entry α β (PlateNum.withState p.1 p.2)).sum 0 :=
  hasDerivAt_list_sum pts _ _ fun p hp => kT_is_derivative_plate p.1 (hpts p hp).1 (hpts p hp).2 p.2 α β

theorem kT_is_derivative_gauss_sum_cpanel (pts : List (NCtx ℝ × PtState ℝ))
    (hpts : ∀ p ∈ pts, p.1.a ≠ 0 ∧ p.1.b ≠ 0 ∧ p.1.r ≠ 0) (α β : Fin 3) :
    HasDerivAt
      (fun t : ℝ => (pts.map fun p => CPanelNum.fint p.1 (p.2.perturb p.1 (cpanelOps p.1.toP) (fld3 β) t) α).sum)
      (pts.map fun p => CPanel.fkL_num.entry α β { p.1 with wxi := p.2.wxi, weta := p.2.weta }
        + CPanel.fkG_num.entry α β (CPanelNum.withState p.1 p.2)).sum 0 :=
  hasDerivAt_list_sum pts _ _ fun p hp =>
    kT_is_derivative_cpanel p.1 (hpts p hp).1 (hpts p hp).2.1 (hpts p hp).2.2 p.2 α β

end C08

end Compmech.Panel
