/-
C08 — internal force = gradient of the (Donnell / von Kármán) strain energy; tangent = its exact Jacobian.
Pointwise content of fkL_num, fkG_num, calc_fint REGENERATED from *_num.pyx on every run; Gauss summation is
linear, so every statement lifts to the sums over integration points (exactness of the rule: C10).

ASSEMBLY LEVEL (last section): `PanelAssembly.calc_kT / calc_fint` as modelled in `Model/Assembly.lean` (`calcK0 true`, `calcFint`:
panel parts placed at their ranges, `+ k0_conn`, `+ k0_conn · c`; tied to the running code by the recorded-component correspondence of
`tools/props/C13.py` and the assembly streams of `tools/props/C08.py`).  Helper lemmas: `Spec/AssemblyJacobian.lean`.  The panel-level
statement enters as a HYPOTHESIS on each panel (its tangent matrix is the derivative of its own internal force w.r.t. its own slice of
the amplitude vector); `assembly_tangent_is_jacobian_gauss` discharges it with the panel theorems above for panels whose force and
tangent entries have the Gauss-point form those theorems are stated in (`Spec/AssemblyGauss.lean` says what that form assumes).

GLUE OF ONE PANEL (very last section): `Panel.calc_kT(c=…)` and `Panel.calc_fint(c, …)` as modelled in `Model/PanelGlue.lean` (`calcKT`,
`calcFint`; helpers `Model/PanelGlueLemmas.lean`; tie: recorded-kernel-call correspondence `tools/props/C02.py : glue_correspondence`, methods
`kT` and `fint`): `calc_kT_dispatch`, `calc_fint_dispatch`, `calc_fint_rejects`, `calc_kT_fint_consistent`, `calc_fint_zero_state`,
`panel_tangent_is_jacobian_glue`, and its instances with the kernel hypothesis discharged by the panel theorems,
`panel_tangent_is_jacobian_glue_plate / _cpanel` (non-vacuity: `GlueJacExample`).
-/
import CompmechVerif.Spec.NonlinearPoint
import CompmechVerif.Spec.Jacobian.PlateU
import CompmechVerif.Spec.Jacobian.PlateV
import CompmechVerif.Spec.Jacobian.PlateW
import CompmechVerif.Spec.Jacobian.CPanelU
import CompmechVerif.Spec.Jacobian.CPanelV
import CompmechVerif.Spec.Jacobian.CPanelW
import Mathlib.Analysis.Calculus.Deriv.Pow
import Mathlib.Analysis.Calculus.Deriv.Add
import Mathlib.Analysis.Calculus.Deriv.Mul
import CompmechVerif.Gen.Panel.Plate
import CompmechVerif.Gen.Panel.CPanel
import CompmechVerif.Core.OpSpecTactics
import CompmechVerif.Core.OpSpecLemmas
import Mathlib.Tactic.FinCases
import Mathlib.Data.Fintype.Basic
import CompmechVerif.Spec.AssemblyJacobian
import CompmechVerif.Spec.AssemblyGauss
import CompmechVerif.Model.PanelGlueLemmas

set_option linter.unnecessarySeqFocus false
set_option linter.unusedSectionVars false
set_option linter.unusedSimpArgs false

namespace Compmech.Panel

/-- `num_eq [unfold lemmas] sym hF` -/
syntax "num_eq " "[" Lean.Parser.Tactic.simpLemma,* "]" " sym " term : tactic
macro_rules
  | `(tactic| num_eq [$ls,*] sym $hF) => `(tactic|
      (obtain ⟨h10, h20, h30, h40, h50, h21, h31, h41, h51, h32, h42, h52, h43, h53, h54⟩ :=
         sym6_rewrites _ (IsABD.symm $hF)
       have hb12 := IsABD.b12 $hF
       have hb16 := IsABD.b16 $hF
       have hb26 := IsABD.b26 $hF
       simp only [Fin.reduceFinMk, Fin.isValue, Fin.zero_eta, Fin.mk_one, panel_entry, $ls,*, hessian, pairInt, fld3,
         NCtx.toP, nlOps, vkOps, dofB, NCtx.S, NCtx.eps, List.finRange, List.map, List.sum_cons, List.sum_nil,
         List.append, List.cons_append, List.nil_append, List.map_cons, List.map_nil]
       simp only [List.ofFn, Fin.foldr, Fin.foldr.loop, List.map, List.sum_cons, List.sum_nil,
         h10, h20, h30, h40, h50, h21, h31, h41, h51, h32, h42, h52, h43, h53, h54, hb12, hb16, hb26,
         mul_zero, zero_mul, add_zero, zero_add]
       try simp
       try simp only [h10, h20, h30, h40, h50, h21, h31, h41, h51, h32, h42, h52, h43, h53, h54, hb12, hb16, hb26]
       try field_simp
       try ring
       try simp))

namespace C08
open Compmech.Gen.PanelNum Compmech.Gen

variable {K : Type} [Field K] [CharZero K]

/-! ### the pieces -/

/-- the stress resultants are the laminate matrix times the strains of the point -/
theorem resultants_eq_F_strain_plate (X : NCtx K) (hF : IsABD X.F) :
    Plate.calc_fint.def_Nxx X = ((List.finRange 6).map fun q => X.F 0 q * X.eps q).sum ∧
    Plate.calc_fint.def_Nyy X = ((List.finRange 6).map fun q => X.F 1 q * X.eps q).sum ∧
    Plate.calc_fint.def_Nxy X = ((List.finRange 6).map fun q => X.F 2 q * X.eps q).sum ∧
    Plate.calc_fint.def_Mxx X = ((List.finRange 6).map fun q => X.F 3 q * X.eps q).sum ∧
    Plate.calc_fint.def_Myy X = ((List.finRange 6).map fun q => X.F 4 q * X.eps q).sum ∧
    Plate.calc_fint.def_Mxy X = ((List.finRange 6).map fun q => X.F 5 q * X.eps q).sum := by
  refine ⟨?_, ?_, ?_, ?_, ?_, ?_⟩ <;> num_eq [fld3] sym hF

/-- the quadratic slope terms added to the membrane strains are Donnell's `½ w,x²`, `½ w,y²`, `w,x w,y`
of the WHOLE series (`w,x = (2/a) wxi`, `w,y = (2/b) weta`) — in contrast to the field-recovery kernel (C11) -/
theorem quadratic_terms_plate (X : NCtx K) (ha : X.a ≠ 0) (hb : X.b ≠ 0) :
    Plate.calc_fint.add_exx X = 1 / 2 * (2 / X.a * X.wxi) ^ 2 ∧
    Plate.calc_fint.add_eyy X = 1 / 2 * (2 / X.b * X.weta) ^ 2 ∧
    Plate.calc_fint.add_gxy X = (2 / X.a * X.wxi) * (2 / X.b * X.weta) := by
  refine ⟨?_, ?_, ?_⟩ <;> simp only [panel_entry] <;> field_simp <;> ring

/-- internal-force integrand of a degree of freedom = weight × (ab/4) × resultants · strain variation of that
degree of freedom (linear Donnell part + von Kármán part at the current slopes): the energy gradient -/
theorem fint_is_gradient_plate (X : NCtx K) (ha : X.a ≠ 0) (hb : X.b ≠ 0) (α : Fin 3) :
    (match α with | 0 => Plate.calc_fint.fint0 X | 1 => Plate.calc_fint.fint1 X | 2 => Plate.calc_fint.fint2 X) =
      X.weight * (X.a * X.b / 4 *
        ((List.finRange 6).map fun p => X.S p * dofB X (nlOps X (plateOps X.toP)) .A (fld3 α) p).sum) := by
  fin_cases α <;>
    simp only [Fin.reduceFinMk, Fin.isValue, Fin.zero_eta, Fin.mk_one, panel_entry, fld3, NCtx.toP, nlOps, vkOps,
      dofB, NCtx.S, plateOps, List.finRange, List.ofFn, Fin.foldr, Fin.foldr.loop, List.map, List.sum_cons,
      List.sum_nil, List.append, List.cons_append, List.nil_append] <;>
    field_simp <;> ring

theorem fint_is_gradient_cpanel (X : NCtx K) (ha : X.a ≠ 0) (hb : X.b ≠ 0) (hr : X.r ≠ 0) (α : Fin 3) :
    (match α with | 0 => CPanel.calc_fint.fint0 X | 1 => CPanel.calc_fint.fint1 X | 2 => CPanel.calc_fint.fint2 X) =
      X.weight * (X.a * X.b / 4 *
        ((List.finRange 6).map fun p => X.S p * dofB X (nlOps X (cpanelOps X.toP)) .A (fld3 α) p).sum) := by
  fin_cases α <;>
    simp only [Fin.reduceFinMk, Fin.isValue, Fin.zero_eta, Fin.mk_one, panel_entry, fld3, NCtx.toP, nlOps, vkOps,
      dofB, NCtx.S, cpanelOps, plateOps, List.finRange, List.ofFn, Fin.foldr, Fin.foldr.loop, List.map, List.sum_cons,
      List.sum_nil, List.append, List.cons_append, List.nil_append] <;>
    field_simp <;> ring

set_option maxHeartbeats 1600000 in
/-- `kL` integrand = weight × Hessian form with the non-linear strain-variation operator on both sides -/
theorem kL_entry_plate (X : NCtx K) (ha : X.a ≠ 0) (hb : X.b ≠ 0) (hF : IsABD X.F) (ro co : Fin 3) :
    Plate.fkL_num.entry ro co X =
      X.weight * hessian X.toP .full .full (nlOps X (plateOps X.toP)) X.F (fld3 ro) (fld3 co) := by
  fin_cases ro <;> fin_cases co <;> num_eq [plateOps] sym hF

set_option maxHeartbeats 1600000 in
theorem kL_entry_cpanel (X : NCtx K) (ha : X.a ≠ 0) (hb : X.b ≠ 0) (hr : X.r ≠ 0) (hF : IsABD X.F)
    (ro co : Fin 3) :
    CPanel.fkL_num.entry ro co X =
      X.weight * hessian X.toP .full .full (nlOps X (cpanelOps X.toP)) X.F (fld3 ro) (fld3 co) := by
  fin_cases ro <;> fin_cases co <;> num_eq [cpanelOps, plateOps] sym hF

/-- `kG` integrand = weight × Hessian of the pre-stress work with the resultants of the point (C03, state based) -/
theorem kG_entry_plate (X : NCtx K) (ha : X.a ≠ 0) (hb : X.b ≠ 0) (ro co : Fin 3) :
    Plate.fkG_num.entry ro co X =
      X.weight * hessian X.toP .full .full (gradOps X.toP) (prestressW X.toP) (fld3 ro) (fld3 co) := by
  fin_cases ro <;> fin_cases co <;>
    simp only [Fin.reduceFinMk, Fin.isValue, Fin.zero_eta, Fin.mk_one, panel_entry, fld3, NCtx.toP, hessian, pairInt,
      gradOps, prestressW, List.finRange, List.ofFn, Fin.foldr, Fin.foldr.loop, List.map, List.sum_cons, List.sum_nil,
      mul_zero, zero_mul, add_zero, zero_add] <;>
    (try simp) <;> (try field_simp) <;> (try ring) <;> (try simp)

theorem kG_entry_cpanel (X : NCtx K) (ha : X.a ≠ 0) (hb : X.b ≠ 0) (ro co : Fin 3) :
    CPanel.fkG_num.entry ro co X =
      X.weight * hessian X.toP .full .full (gradOps X.toP) (prestressW X.toP) (fld3 ro) (fld3 co) := by
  fin_cases ro <;> fin_cases co <;>
    simp only [Fin.reduceFinMk, Fin.isValue, Fin.zero_eta, Fin.mk_one, panel_entry, fld3, NCtx.toP, hessian, pairInt,
      gradOps, prestressW, List.finRange, List.ofFn, Fin.foldr, Fin.foldr.loop, List.map, List.sum_cons, List.sum_nil,
      mul_zero, zero_mul, add_zero, zero_add] <;>
    (try simp) <;> (try field_simp) <;> (try ring) <;> (try simp)

/-- at the undeformed state the `kL` integrand is the ANALYTIC kernel's entry read on the point values
(so the Gauss sum of fkL_num at c = 0 is the quadrature of fk0: C14 numeric = analytic) -/
theorem kL_at_zero_eq_k0_plate (X : NCtx K) (ha : X.a ≠ 0) (hb : X.b ≠ 0) (ro co : Fin 3) :
    Plate.fkL_num.entry ro co { X with wxi := 0, weta := 0 } = X.weight * Gen.Plate.fk0.entry ro co X.toP := by
  fin_cases ro <;> fin_cases co <;>
    simp only [Fin.reduceFinMk, Fin.isValue, Fin.zero_eta, Fin.mk_one, panel_entry, NCtx.toP] <;> field_simp <;> ring

theorem kL_at_zero_eq_k0_cpanel (X : NCtx K) (ha : X.a ≠ 0) (hb : X.b ≠ 0) (hr : X.r ≠ 0) (ro co : Fin 3) :
    CPanel.fkL_num.entry ro co { X with wxi := 0, weta := 0 } = X.weight * Gen.CPanel.fk0.entry ro co X.toP := by
  fin_cases ro <;> fin_cases co <;>
    simp only [Fin.reduceFinMk, Fin.isValue, Fin.zero_eta, Fin.mk_one, panel_entry, NCtx.toP] <;> field_simp <;> ring

/-- the internal force vanishes at the undeformed state -/
theorem fint_zero_plate (X : NCtx K) (α : Fin 3) :
    PlateNum.fint X ⟨fun _ => 0, 0, 0⟩ α = 0 := by
  fin_cases α <;> simp [PlateNum.fint, PlateNum.withState, panel_entry]

theorem fint_zero_cpanel (X : NCtx K) (α : Fin 3) :
    CPanelNum.fint X ⟨fun _ => 0, 0, 0⟩ α = 0 := by
  fin_cases α <;> simp [CPanelNum.fint, CPanelNum.withState, panel_entry]

/-! ### tangent = exact Jacobian of the internal force -/

/-- Adding `t` times ANY degree of freedom `B` (field `β`) to the amplitudes changes the internal-force integrand
of ANY degree of freedom `A` (field `α`) by `t·(kL + kG)_{AB} + t²R₂ + t³R₃`, `R₂`, `R₃` independent of `t`:
the tangent stiffness returned at a state is the exact derivative of the internal force at that state —
for every state (linear strains, slopes), laminate, geometry, point values. -/
theorem kT_is_jacobian_plate (X : NCtx K) (ha : X.a ≠ 0) (hb : X.b ≠ 0) (s : PtState K) (α β : Fin 3) :
    ∃ R₂ R₃ : K, ∀ t : K,
      PlateNum.fint X (s.perturb X (plateOps X.toP) (fld3 β) t) α =
        PlateNum.fint X s α
        + t * (Plate.fkL_num.entry α β { X with wxi := s.wxi, weta := s.weta }
                + Plate.fkG_num.entry α β (PlateNum.withState X s))
        + t ^ 2 * R₂ + t ^ 3 * R₃ := by
  fin_cases α <;> fin_cases β
  · exact ⟨_, _, fun t => Jacobian.plate_0_0 X ha hb s t⟩
  · exact ⟨_, _, fun t => Jacobian.plate_0_1 X ha hb s t⟩
  · exact ⟨_, _, fun t => Jacobian.plate_0_2 X ha hb s t⟩
  · exact ⟨_, _, fun t => Jacobian.plate_1_0 X ha hb s t⟩
  · exact ⟨_, _, fun t => Jacobian.plate_1_1 X ha hb s t⟩
  · exact ⟨_, _, fun t => Jacobian.plate_1_2 X ha hb s t⟩
  · exact ⟨_, _, fun t => Jacobian.plate_2_0 X ha hb s t⟩
  · exact ⟨_, _, fun t => Jacobian.plate_2_1 X ha hb s t⟩
  · exact ⟨_, _, fun t => Jacobian.plate_2_2 X ha hb s t⟩

theorem kT_is_jacobian_cpanel (X : NCtx K) (ha : X.a ≠ 0) (hb : X.b ≠ 0) (hr : X.r ≠ 0) (s : PtState K)
    (α β : Fin 3) :
    ∃ R₂ R₃ : K, ∀ t : K,
      CPanelNum.fint X (s.perturb X (cpanelOps X.toP) (fld3 β) t) α =
        CPanelNum.fint X s α
        + t * (CPanel.fkL_num.entry α β { X with wxi := s.wxi, weta := s.weta }
                + CPanel.fkG_num.entry α β (CPanelNum.withState X s))
        + t ^ 2 * R₂ + t ^ 3 * R₃ := by
  fin_cases α <;> fin_cases β
  · exact ⟨_, _, fun t => Jacobian.cpanel_0_0 X ha hb hr s t⟩
  · exact ⟨_, _, fun t => Jacobian.cpanel_0_1 X ha hb hr s t⟩
  · exact ⟨_, _, fun t => Jacobian.cpanel_0_2 X ha hb hr s t⟩
  · exact ⟨_, _, fun t => Jacobian.cpanel_1_0 X ha hb hr s t⟩
  · exact ⟨_, _, fun t => Jacobian.cpanel_1_1 X ha hb hr s t⟩
  · exact ⟨_, _, fun t => Jacobian.cpanel_1_2 X ha hb hr s t⟩
  · exact ⟨_, _, fun t => Jacobian.cpanel_2_0 X ha hb hr s t⟩
  · exact ⟨_, _, fun t => Jacobian.cpanel_2_1 X ha hb hr s t⟩
  · exact ⟨_, _, fun t => Jacobian.cpanel_2_2 X ha hb hr s t⟩

end C08

/-- a function that is a cubic polynomial in `t` has the linear coefficient as derivative at 0 -/
theorem hasDerivAt_of_cubic (f : ℝ → ℝ) (c₀ c₁ c₂ c₃ : ℝ) (h : ∀ t, f t = c₀ + t * c₁ + t ^ 2 * c₂ + t ^ 3 * c₃) :
    HasDerivAt f c₁ 0 := by
  have hf : f = fun t => c₀ + t * c₁ + t ^ 2 * c₂ + t ^ 3 * c₃ := funext h
  rw [hf]
  have h1 : HasDerivAt (fun t : ℝ => t * c₁) c₁ 0 := by simpa using (hasDerivAt_id (0 : ℝ)).mul_const c₁
  have h2 : HasDerivAt (fun t : ℝ => t ^ 2 * c₂) 0 0 := by
    simpa using ((hasDerivAt_pow 2 (0 : ℝ)).mul_const c₂)
  have h3 : HasDerivAt (fun t : ℝ => t ^ 3 * c₃) 0 0 := by
    simpa using ((hasDerivAt_pow 3 (0 : ℝ)).mul_const c₃)
  have h0 : HasDerivAt (fun _ : ℝ => c₀) 0 0 := hasDerivAt_const 0 c₀
  have := ((h0.fun_add h1).fun_add h2).fun_add h3
  have e : (0 + c₁ + 0 + 0 : ℝ) = c₁ := by ring
  rw [e] at this
  exact this

namespace C08
open Compmech.Gen.PanelNum

/-- over the reals: the tangent entry IS the derivative of the internal force w.r.t. the amplitude -/
theorem kT_is_derivative_plate (X : NCtx ℝ) (ha : X.a ≠ 0) (hb : X.b ≠ 0) (s : PtState ℝ) (α β : Fin 3) :
    HasDerivAt (fun t : ℝ => PlateNum.fint X (s.perturb X (plateOps X.toP) (fld3 β) t) α)
      (Plate.fkL_num.entry α β { X with wxi := s.wxi, weta := s.weta }
        + Plate.fkG_num.entry α β (PlateNum.withState X s)) 0 := by
  obtain ⟨R₂, R₃, h⟩ := kT_is_jacobian_plate X ha hb s α β
  exact hasDerivAt_of_cubic _ _ _ R₂ R₃ h

theorem kT_is_derivative_cpanel (X : NCtx ℝ) (ha : X.a ≠ 0) (hb : X.b ≠ 0) (hr : X.r ≠ 0) (s : PtState ℝ)
    (α β : Fin 3) :
    HasDerivAt (fun t : ℝ => CPanelNum.fint X (s.perturb X (cpanelOps X.toP) (fld3 β) t) α)
      (CPanel.fkL_num.entry α β { X with wxi := s.wxi, weta := s.weta }
        + CPanel.fkG_num.entry α β (CPanelNum.withState X s)) 0 := by
  obtain ⟨R₂, R₃, h⟩ := kT_is_jacobian_cpanel X ha hb hr s α β
  exact hasDerivAt_of_cubic _ _ _ R₂ R₃ h

end C08

/-! ### symmetry of the tangent, and the lift from one point to the Gauss sum -/

namespace C08
open Compmech.Gen.PanelNum Compmech.Gen
variable {K : Type} [Field K] [CharZero K]

/-- the point with the roles of the row and the column degree of freedom exchanged -/
def NCtx.swap (X : NCtx K) : NCtx K := { X with E := fun dir d f i => X.E dir d f i.swap }

omit [CharZero K] in
theorem toP_swap (X : NCtx K) : (NCtx.swap X).toP = X.toP.swap := by
  simp only [NCtx.swap, NCtx.toP, PCtx.swap, Idx.swap]
  congr 1
  funext dir _ d₁ f₁ i₁ d₂ f₂ i₂
  exact mul_comm _ _

/-- the tangent stiffness integrand `kL + kG` at ANY state is symmetric: the `(B, A)` entry (computed by the same
generated formulas with the roles of the two degrees of freedom exchanged) equals the `(A, B)` entry -/
theorem kT_symm_plate (X : NCtx K) (ha : X.a ≠ 0) (hb : X.b ≠ 0) (hF : IsABD X.F) (ro co : Fin 3) :
    Plate.fkL_num.entry ro co X + Plate.fkG_num.entry ro co X =
      Plate.fkL_num.entry co ro (NCtx.swap X) + Plate.fkG_num.entry co ro (NCtx.swap X) := by
  rw [kL_entry_plate X ha hb hF, kG_entry_plate X ha hb, kL_entry_plate (NCtx.swap X) ha hb hF,
    kG_entry_plate (NCtx.swap X) ha hb, toP_swap]
  have h1 := hessian_swap X.toP .full .full (nlOps X (plateOps X.toP)) X.F hF.symm (fld3 ro) (fld3 co)
  have h2 := hessian_swap X.toP .full .full (gradOps X.toP) (prestressW X.toP)
    (fun p q => by fin_cases p <;> fin_cases q <;> rfl) (fld3 ro) (fld3 co)
  rw [← h1, ← h2]
  rfl

theorem kT_symm_cpanel (X : NCtx K) (ha : X.a ≠ 0) (hb : X.b ≠ 0) (hr : X.r ≠ 0) (hF : IsABD X.F) (ro co : Fin 3) :
    CPanel.fkL_num.entry ro co X + CPanel.fkG_num.entry ro co X =
      CPanel.fkL_num.entry co ro (NCtx.swap X) + CPanel.fkG_num.entry co ro (NCtx.swap X) := by
  rw [kL_entry_cpanel X ha hb hr hF, kG_entry_cpanel X ha hb, kL_entry_cpanel (NCtx.swap X) ha hb hr hF,
    kG_entry_cpanel (NCtx.swap X) ha hb, toP_swap]
  have h1 := hessian_swap X.toP .full .full (nlOps X (cpanelOps X.toP)) X.F hF.symm (fld3 ro) (fld3 co)
  have h2 := hessian_swap X.toP .full .full (gradOps X.toP) (prestressW X.toP)
    (fun p q => by fin_cases p <;> fin_cases q <;> rfl) (fld3 ro) (fld3 co)
  rw [← h1, ← h2]
  rfl

end C08

/-- a finite sum of functions each differentiable at 0 has the sum of the derivatives as derivative -/
theorem hasDerivAt_list_sum {ι : Type} (l : List ι) (f : ι → ℝ → ℝ) (k : ι → ℝ)
    (h : ∀ p ∈ l, HasDerivAt (f p) (k p) 0) :
    HasDerivAt (fun t => (l.map fun p => f p t).sum) (l.map k).sum 0 := by
  induction l with
  | nil => simpa using hasDerivAt_const (0:ℝ) (0:ℝ)
  | cons p ps ih =>
    simp only [List.map_cons, List.sum_cons]
    exact (h p (by simp)).fun_add (ih fun q hq => h q (by simp [hq]))

namespace C08
open Compmech.Gen.PanelNum

/-- THE WHOLE QUADRATURE: for any list of integration points (each with its own basis values, weight, laminate and
state), the sum over the points of the tangent integrands is the derivative of the sum over the points of the
internal-force integrands with respect to the amplitude of degree of freedom `B` — i.e. the assembled `kT[A, B]` is
`∂ fint[A] / ∂ c_B` exactly, whatever the number and position of the points. -/
theorem kT_is_derivative_gauss_sum_plate (pts : List (NCtx ℝ × PtState ℝ))
    (hpts : ∀ p ∈ pts, p.1.a ≠ 0 ∧ p.1.b ≠ 0) (α β : Fin 3) :
    HasDerivAt
      (fun t : ℝ => (pts.map fun p => PlateNum.fint p.1 (p.2.perturb p.1 (plateOps p.1.toP) (fld3 β) t) α).sum)
      (pts.map fun p => Plate.fkL_num.entry α β { p.1 with wxi := p.2.wxi, weta := p.2.weta }
        + Plate.fkG_num.entry α β (PlateNum.withState p.1 p.2)).sum 0 :=
  hasDerivAt_list_sum pts _ _ fun p hp => kT_is_derivative_plate p.1 (hpts p hp).1 (hpts p hp).2 p.2 α β

theorem kT_is_derivative_gauss_sum_cpanel (pts : List (NCtx ℝ × PtState ℝ))
    (hpts : ∀ p ∈ pts, p.1.a ≠ 0 ∧ p.1.b ≠ 0 ∧ p.1.r ≠ 0) (α β : Fin 3) :
    HasDerivAt
      (fun t : ℝ => (pts.map fun p => CPanelNum.fint p.1 (p.2.perturb p.1 (cpanelOps p.1.toP) (fld3 β) t) α).sum)
      (pts.map fun p => CPanel.fkL_num.entry α β { p.1 with wxi := p.2.wxi, weta := p.2.weta }
        + CPanel.fkG_num.entry α β (CPanelNum.withState p.1 p.2)).sum 0 :=
  hasDerivAt_list_sum pts _ _ fun p hp =>
    kT_is_derivative_cpanel p.1 (hpts p hp).1 (hpts p hp).2.1 (hpts p hp).2.2 p.2 α β

end C08

/-! ### assemblies of panels joined by penalty connections

Notation (`Spec/AssemblyJacobian.lean`, all on top of `Model/Assembly.lean`): `ps` the list of `(m, n)` of the panels; `sizeAt ps k = 3 m n`;
`slice ps k c = c[col_start : col_end]` of panel `k`; `fP k x` the panel's internal force vector and `kP k x` its unfinalized
(`finalize=False`, upper triangle) tangent COO list at the slice `x`; `asmFint ps fP conns c = calcFint ps (panel forces at c) conns c`;
`asmKT ps kP conns c = calcK0 true ps (panel tangents at c) conns`; `axpy c t d = c + t d`; `unitVec n j = e_j`; `zeroVec n = 0`. -/

namespace C08
open Compmech.Asm
open scoped BigOperators

/-- ASSEMBLED TANGENT = JACOBIAN OF THE ASSEMBLED INTERNAL FORCE, for ANY list of panels (any series orders), ANY list of connections (any
kernels' results, any order of the two panels), at ANY state `c`, along ANY direction `d`: if for every panel the derivative at `t = 0` of its
own internal force along its own slice of `d` is its own (finalized) tangent matrix times that slice — the panel-level statement —, then
`d/dt calc_fint(c + t d)_i |_{t=0} = (calc_kT(c) · d)_i` for every row `i`, where `calc_fint` is "placed panel forces + `k0_conn · c`" and
`calc_kT` is "finalized placed panel tangents + finalized connection matrix" of the model.  (`hlen`: a panel returns a vector of its own
size; `hw`: a panel's matrix has no entry outside its own `3 m n × 3 m n` block.) -/
theorem assembly_tangent_is_jacobian (ps : List (Nat × Nat)) (fP : Nat → List ℝ → List ℝ)
    (kP : Nat → List ℝ → Coo ℝ) (conns : List (Conn ℝ)) (c d : List ℝ)
    (hc : c.length = getSize ps) (hd : d.length = getSize ps)
    (hlen : ∀ k, k < ps.length → ∀ x : List ℝ, x.length = sizeAt ps k → (fP k x).length = sizeAt ps k)
    (hw : ∀ k, k < ps.length → Within (sizeAt ps k) (sizeAt ps k) (kP k (slice ps k c)))
    (hP : ∀ k, k < ps.length → ∀ a, a < sizeAt ps k →
      HasDerivAt (fun t : ℝ => (fP k (axpy (slice ps k c) t (slice ps k d))).getD a 0)
        (∑ b ∈ Finset.range (sizeAt ps k), toFun (finalize (kP k (slice ps k c))) a b * (slice ps k d).getD b 0) 0)
    (i : Nat) (hi : i < getSize ps) :
    HasDerivAt (fun t : ℝ => (asmFint ps fP conns (axpy c t d)).getD i 0)
      (∑ j ∈ Finset.range (getSize ps), toFun (asmKT ps kP conns c) i j * d.getD j 0) 0 :=
  assembly_tangent_is_jacobian_aux ps fP kP conns c d hc hd hlen hw hP i hi

/-- the same entry by entry, with the panel hypothesis in the form the panel theorems have (`∂ fint_a / ∂ c_b` = entry `(a, b)` of the panel's
tangent, `a, b` the panel's own indices): entry `(i, j)` of the assembled tangent is the partial derivative of entry `i` of the assembled
internal force w.r.t. amplitude `j` — including the pairs `(i, j)` in DIFFERENT panels, where only the connection matrix contributes. -/
theorem assembly_tangent_entry_is_partial_derivative (ps : List (Nat × Nat)) (fP : Nat → List ℝ → List ℝ)
    (kP : Nat → List ℝ → Coo ℝ) (conns : List (Conn ℝ)) (c : List ℝ)
    (hc : c.length = getSize ps)
    (hlen : ∀ k, k < ps.length → ∀ x : List ℝ, x.length = sizeAt ps k → (fP k x).length = sizeAt ps k)
    (hw : ∀ k, k < ps.length → Within (sizeAt ps k) (sizeAt ps k) (kP k (slice ps k c)))
    (hP : ∀ k, k < ps.length → ∀ a b, a < sizeAt ps k → b < sizeAt ps k →
      HasDerivAt (fun t : ℝ => (fP k (axpy (slice ps k c) t (unitVec (sizeAt ps k) b))).getD a 0)
        (toFun (finalize (kP k (slice ps k c))) a b) 0)
    (i j : Nat) (hi : i < getSize ps) (hj : j < getSize ps) :
    HasDerivAt (fun t : ℝ => (asmFint ps fP conns (axpy c t (unitVec (getSize ps) j))).getD i 0)
      (toFun (asmKT ps kP conns c) i j) 0 :=
  assembly_tangent_entry_aux ps fP kP conns c hc hlen hw hP i j hi hj

/-- … with the panel hypothesis DISCHARGED by the panel theorems `kT_is_derivative_gauss_sum_plate / _cpanel`: a mixed assembly of flat
(`cyl k = false`) and cylindrical (`cyl k = true`) panels whose internal-force and tangent entries are the Gauss sums of the regenerated
integrands (`PlateGaussPair` / `CPanelGaussPair` of Spec/AssemblyGauss.lean: what is assumed there is the accumulation of the point state
over the degrees of freedom and the dof map, not any derivative). -/
theorem assembly_tangent_is_jacobian_gauss (ps : List (Nat × Nat)) (cyl : Nat → Bool) (fP : Nat → List ℝ → List ℝ)
    (kP : Nat → List ℝ → Coo ℝ) (conns : List (Conn ℝ)) (c : List ℝ)
    (hc : c.length = getSize ps)
    (hlen : ∀ k, k < ps.length → ∀ x : List ℝ, x.length = sizeAt ps k → (fP k x).length = sizeAt ps k)
    (hw : ∀ k, k < ps.length → Within (sizeAt ps k) (sizeAt ps k) (kP k (slice ps k c)))
    (hG : ∀ k, k < ps.length → ∀ a b, a < sizeAt ps k → b < sizeAt ps k →
      if cyl k then
        CPanelGaussPair (fun t : ℝ => (fP k (axpy (slice ps k c) t (unitVec (sizeAt ps k) b))).getD a 0)
          (toFun (finalize (kP k (slice ps k c))) a b) (fieldOf a) (fieldOf b)
      else
        PlateGaussPair (fun t : ℝ => (fP k (axpy (slice ps k c) t (unitVec (sizeAt ps k) b))).getD a 0)
          (toFun (finalize (kP k (slice ps k c))) a b) (fieldOf a) (fieldOf b))
    (i j : Nat) (hi : i < getSize ps) (hj : j < getSize ps) :
    HasDerivAt (fun t : ℝ => (asmFint ps fP conns (axpy c t (unitVec (getSize ps) j))).getD i 0)
      (toFun (asmKT ps kP conns c) i j) 0 := by
  refine assembly_tangent_entry_aux ps fP kP conns c hc hlen hw ?_ i j hi hj
  intro k hk a b ha hb
  have h := hG k hk a b ha hb
  by_cases hcyl : cyl k = true
  · rw [if_pos hcyl] at h
    obtain ⟨pts, hpts, hf, hkab⟩ := h
    rw [funext hf, hkab]
    exact kT_is_derivative_gauss_sum_cpanel pts hpts (fieldOf a) (fieldOf b)
  · rw [if_neg hcyl] at h
    obtain ⟨pts, hpts, hf, hkab⟩ := h
    rw [funext hf, hkab]
    exact kT_is_derivative_gauss_sum_plate pts hpts (fieldOf a) (fieldOf b)

/-- the assembled tangent is SYMMETRIC at every state, for any panels and connections.  No hypothesis on the panel tangents is needed: the
model (like the code) takes the upper triangle of the placed panel parts and of the placed connection blocks and mirrors it
(`finalize_symmetric_matrix`), so each panel's tangent matrix `finalize (kP k x)` — the one the Jacobian hypothesis is about — is symmetric
by construction (`kT_symm_plate/_cpanel` say that this mirroring loses nothing). -/
theorem assembly_tangent_symm {K : Type} [Field K] (ps : List (Nat × Nat)) (kP : Nat → List K → Coo K)
    (conns : List (Conn K)) (c : List K) (i j : Nat) :
    toFun (asmKT ps kP conns c) i j = toFun (asmKT ps kP conns c) j i :=
  asmKT_symm ps kP conns c i j

/-- `fint(0) = 0` for the assembly: if every panel's internal force vanishes at the undeformed state (`fint_zero_plate/_cpanel` for the
integrands), the assembled internal force at `c = 0` is the zero vector — the connection part `k0_conn · 0` vanishes for any connections. -/
theorem assembly_fint_zero {K : Type} [Field K] (ps : List (Nat × Nat)) (fP : Nat → List K → List K)
    (conns : List (Conn K))
    (hz : ∀ k, k < ps.length → fP k (zeroVec (sizeAt ps k)) = zeroVec (sizeAt ps k)) :
    asmFint ps fP conns (zeroVec (getSize ps)) = zeroVec (getSize ps) :=
  asmFint_zero_aux ps fP conns hz

/-- LINEAR PART of the assembled internal force: if at the undeformed state every panel's tangent matrix is, entry by entry, its linear stiffness
`K0_k` (`kL_at_zero_eq_k0_*` and `kG = 0` there) and is the derivative of the panel's force there, then along every direction `d`
`d/dt calc_fint(t d)_i |_{t=0} = ((K0 + K_conn) d)_i` with `K0 + K_conn = calc_k0()` of the assembly (`calcK0 true` of the panels' linear
stiffnesses and the same connections): together with `assembly_fint_zero`, `fint(t d) = t (K0 + K_conn) d + o(t)`. -/
theorem assembly_fint_linear_part (ps : List (Nat × Nat)) (fP : Nat → List ℝ → List ℝ)
    (kP : Nat → List ℝ → Coo ℝ) (k0P : Nat → Coo ℝ) (conns : List (Conn ℝ)) (d : List ℝ)
    (hd : d.length = getSize ps)
    (hlen : ∀ k, k < ps.length → ∀ x : List ℝ, x.length = sizeAt ps k → (fP k x).length = sizeAt ps k)
    (hw : ∀ k, k < ps.length → Within (sizeAt ps k) (sizeAt ps k) (kP k (zeroVec (sizeAt ps k))))
    (hw0 : ∀ k, k < ps.length → Within (sizeAt ps k) (sizeAt ps k) (k0P k))
    (h0 : ∀ k, k < ps.length → ∀ a b, a < sizeAt ps k → b < sizeAt ps k →
      toFun (finalize (kP k (zeroVec (sizeAt ps k)))) a b = toFun (finalize (k0P k)) a b)
    (hP : ∀ k, k < ps.length → ∀ a, a < sizeAt ps k →
      HasDerivAt (fun t : ℝ => (fP k (axpy (zeroVec (sizeAt ps k)) t (slice ps k d))).getD a 0)
        (∑ b ∈ Finset.range (sizeAt ps k),
          toFun (finalize (kP k (zeroVec (sizeAt ps k)))) a b * (slice ps k d).getD b 0) 0)
    (i : Nat) (hi : i < getSize ps) :
    HasDerivAt (fun t : ℝ => (asmFint ps fP conns (axpy (zeroVec (getSize ps)) t d)).getD i 0)
      (∑ j ∈ Finset.range (getSize ps),
        toFun (calcK0 true ps ((List.range ps.length).map k0P) conns) i j * d.getD j 0) 0 :=
  asmFint_linear_part_aux ps fP kP k0P conns d hd hlen hw hw0 h0 hP i hi

/-- … and exactly, for LINEAR panels (`fint_k(x) = K0_k x`): `calc_fint(c) = (K0 + K_conn) c`, any field. -/
theorem assembly_fint_linear {K : Type} [Field K] (ps : List (Nat × Nat)) (k0P : Nat → Coo K)
    (fP : Nat → List K → List K) (conns : List (Conn K)) (c : List K) (hc : c.length = getSize ps)
    (hw : ∀ k, k < ps.length → Within (sizeAt ps k) (sizeAt ps k) (k0P k))
    (hlin : ∀ k, k < ps.length → ∀ x : List K, x.length = sizeAt ps k →
      fP k x = (List.range (sizeAt ps k)).map fun a =>
        ∑ b ∈ Finset.range (sizeAt ps k), toFun (finalize (k0P k)) a b * x.getD b 0)
    (i : Nat) (hi : i < getSize ps) :
    (asmFint ps fP conns c).getD i 0 =
      ∑ j ∈ Finset.range (getSize ps),
        toFun (calcK0 true ps ((List.range ps.length).map k0P) conns) i j * c.getD j 0 :=
  asmFint_linear_aux ps k0P fP conns c hc hw hlin i hi

/-! #### non-vacuity: every hypothesis instantiated (`AsmJacExample` of Spec/AssemblyJacobian.lean)

two panels with `m = n = 1` (three amplitudes each), cubic internal force `fint_a = x_a³ + x_a` with tangent `3 x_a² + 1`, one connection
listed with `p1` after `p2` -/

open AsmJacExample in
example (c d : List ℝ) (hc : c.length = 6) (hd : d.length = 6) (i : Nat) (hi : i < 6) :
    HasDerivAt (fun t : ℝ => (asmFint ps2 cubF conn2 (axpy c t d)).getD i 0)
      (∑ j ∈ Finset.range 6, toFun (asmKT ps2 cubK conn2 c) i j * d.getD j 0) 0 :=
  assembly_tangent_is_jacobian ps2 cubF cubK conn2 c d hc hd
    (fun k hk x hx => cub_len k x _ hx)
    (fun k hk => by rw [sz k hk]; exact cub_within k _)
    (fun k hk a ha => by
      rw [sz k hk] at ha ⊢
      exact cub_hasDerivAt k _ _ (by rw [length_slice ps2 k hk c hc, length_slice ps2 k hk d hd]) a ha) i hi

open AsmJacExample in
/-- … and the coupling really is in the assembled tangent: `∂ fint_0 / ∂ c_3 = −2` (amplitude 0 of the first panel, amplitude 0 of the second) -/
example : toFun (asmKT ps2 cubK conn2 [1, 2, 3, 4, 5, 6]) 0 3 = -2 ∧
    toFun (asmKT ps2 cubK conn2 [1, 2, 3, 4, 5, 6]) 3 0 = -2 ∧
    toFun (asmKT ps2 cubK conn2 [1, 2, 3, 4, 5, 6]) 1 1 = 3 * 2 ^ 2 + 1 := by
  simp only [asmKT, calcK0, calcNoConn, k0Conn, finalize, toFun_append, toFun_makeSymmetric, if_true]
  norm_num [toFun, placeAll, panelBlocks, panelMats, connAllBlocks, connBlocks, init, initLoop, ps2, conn2, cubK, slice,
    sizeAt, panelSizes, startOf, Block.placed, shift, transpose, List.range_succ]

open AsmJacExample in
/-- entry form: the same assembly, partial derivatives -/
example (c : List ℝ) (hc : c.length = 6) (i j : Nat) (hi : i < 6) (hj : j < 6) :
    HasDerivAt (fun t : ℝ => (asmFint ps2 cubF conn2 (axpy c t (unitVec 6 j))).getD i 0)
      (toFun (asmKT ps2 cubK conn2 c) i j) 0 :=
  assembly_tangent_entry_is_partial_derivative ps2 cubF cubK conn2 c hc
    (fun k hk x hx => cub_len k x _ hx)
    (fun k hk => by rw [sz k hk]; exact cub_within k _)
    (fun k hk a b ha hb => by
      rw [sz k hk] at ha hb ⊢
      exact cub_hasDerivAt_unit k _ (by rw [length_slice ps2 k hk c hc, sz k hk]) a b ha hb) i j hi hj

open AsmJacExample in
/-- `fint(0) = 0` for the connected cubic panels -/
example : asmFint ps2 cubF conn2 (zeroVec 6) = zeroVec 6 :=
  assembly_fint_zero ps2 cubF conn2 (fun k _ => cub_zero k _)

open AsmJacExample in
/-- the linear part of the connected cubic panels: `K0 = identity` on each panel, plus the connection -/
example (d : List ℝ) (hd : d.length = 6) (i : Nat) (hi : i < 6) :
    HasDerivAt (fun t : ℝ => (asmFint ps2 cubF conn2 (axpy (zeroVec 6) t d)).getD i 0)
      (∑ j ∈ Finset.range 6, toFun (calcK0 true ps2 ((List.range 2).map cubK0) conn2) i j * d.getD j 0) 0 :=
  assembly_fint_linear_part ps2 cubF cubK cubK0 conn2 d hd
    (fun k hk x hx => cub_len k x _ hx)
    (fun k hk => by rw [sz k hk]; exact cub_within k _)
    (fun k hk => by rw [sz k hk]; exact cubK0_within k)
    (fun k hk a b _ _ => by rw [sz k hk]; exact cubK_zero k a b)
    (fun k hk a ha => by
      rw [sz k hk] at ha ⊢
      exact cub_hasDerivAt k _ _ (by rw [length_zeroVec, length_slice ps2 k hk d hd, sz k hk]) a ha) i hi

open AsmJacExample in
/-- linear panels joined by the connection: `calc_fint(c) = (K0 + K_conn) c` exactly -/
example (c : List ℝ) (hc : c.length = 6) (i : Nat) (hi : i < 6) :
    (asmFint ps2 linF conn2 c).getD i 0 =
      ∑ j ∈ Finset.range 6, toFun (calcK0 true ps2 ((List.range 2).map cubK0) conn2) i j * c.getD j 0 :=
  assembly_fint_linear ps2 cubK0 linF conn2 c hc (fun k hk => by rw [sz k hk]; exact cubK0_within k)
    (fun _ _ _ _ => rfl) i hi

open AsmJacExample AsmGaussExample in
/-- non-vacuity of `assembly_tangent_is_jacobian_gauss`: two flat panels with `m = n = 1`, each integrated with one point whose state IS
accumulated from the panel's amplitudes (`AsmGaussExample` of Spec/AssemblyGauss.lean: force vector and tangent list are the regenerated
integrands at that state), joined by the connection of `AsmJacExample` — every hypothesis, including the Gauss-point form, is proved -/
example (c : List ℝ) (hc : c.length = 6) (i j : Nat) (hi : i < 6) (hj : j < 6) :
    HasDerivAt (fun t : ℝ => (asmFint ps2 gF conn2 (axpy c t (unitVec 6 j))).getD i 0)
      (toFun (asmKT ps2 gK conn2 c) i j) 0 :=
  assembly_tangent_is_jacobian_gauss ps2 (fun _ => false) gF gK conn2 c hc
    (fun k hk x _ => by rw [sz k hk]; exact gF_len k x)
    (fun k hk => by rw [sz k hk]; exact gK_within k _)
    (fun k hk a b ha hb => by
      rw [sz k hk] at ha hb ⊢
      simp only [Bool.false_eq_true, if_false]
      exact gauss_pair k _ (by rw [length_slice ps2 k hk c hc, sz k hk]) a b ha hb) i j hi hj

end C08


/-! ### the Python glue of ONE panel: `Panel.calc_kT(c=…)` and `Panel.calc_fint(c, …)`

Hand model `Model/PanelGlue.lean` (`calcKT`, `calcFint`), tied to the running `_panel.py` by the recorded-kernel-call correspondence of
`tools/props/C02.py : glue_correspondence` (methods `kT`, `fint`).  For ALL panel states `P` and call arguments `A`, over any linearly
ordered field.  Vocabulary (`Model/PanelGlueLemmas.lean`): `fSpec A` - the caller's `Fnxny` iff one was passed, else the panel's own
`self.F`; `quadSpec P A` = `[nx, ny]`, each the argument if passed, else the attribute; `placeSpec k P A` = `[size, row0, col0]` as passed,
else `dofs·m·n, 0, 0`; `col0Spec A`, `row0Spec A` - `col0`, `row0` as passed, else `0`; `zeroIfNone` - `None` read as `0.`; `P.nonzeroPreload` - at least one of
`Nxx_cte, Nyy_cte, Nxy_cte` is a number different from 0; `P.onStrip` - both `y1`, `y2` are numbers; `boundsSpec P` = `[y1, y2]` then. -/

namespace C08
section glue
open Compmech.PanelGlue Compmech.Asm Compmech
variable {F : Type} [Field F] [LinearOrder F]

/-- **`calc_kT` dispatch** (a Ritz vector `c` is passed).  Whenever the call succeeds: the model is flat or cylindrical, the panel is
not restricted to a strip (`y1` and `y2` both `None`), `c` is a 1-D ndarray of the length `size`; the kernel calls are, in this order,
`fkL_num`, then - iff at least one constant pre-load component is a non-zero number, and then exactly once - the analytic initial-stress
kernel `fkG0(Nxx_cte, Nyy_cte, Nxy_cte, panel, size, row0, col0)` (`None` read as `0`), then `fkG_num`; BOTH state-based kernels get the
SAME argument list `(c, Fnxny-or-self.F, panel, size, row0, col0, nx, ny, NLgeom=1)`; every kernel sees `r`, `alpharad` refreshed from
the definition; the result is `finW(fkL_num [+ fkG0]) + finW(fkG_num)`, `finW` = `finalize_symmetric_matrix` iff `finalize`, stored in
`kT`; and with `finalize` the returned matrix is entry by entry `fin(kL) + fin(kG) [+ fin(kG0(N_cte))]` of the kernel results. -/
theorem calc_kT_dispatch (P : Panel F) (A : Args F) (R : Result F) (cv : CArg) (hc : A.c = some cv)
    (h : (calcKT P A).res = .ok R) :
    ∃ k kL pre kG, (calcKT P A).post.model = .kind k ∧ (k = .plate ∨ k = .cpanel) ∧ P.y1 = none ∧ P.y2 = none ∧
      (cv.isArray = true ∧ cv.ndim = 1 ∧ cv.len = sizeSpec k P A) ∧
      R.calls = kL :: (pre ++ [kG]) ∧
      kL.num = true ∧ kL.name = .fkL_num ∧ kG.num = true ∧ kG.name = .fkG_num ∧
      kL.args = [.cGiven, fSpec A, .panel] ++ placeSpec k P A ++ quadSpec P A ++ [.kwNL 1] ∧ kG.args = kL.args ∧
      (pre ≠ [] ↔ P.nonzeroPreload) ∧
      (∀ g ∈ pre, pre = [g] ∧ g.num = false ∧ g.name = .fkG0 ∧
        g.args = [.q (zeroIfNone P.NxxCte), .q (zeroIfNone P.NyyCte), .q (zeroIfNone P.NxyCte), .panel] ++ placeSpec k P A) ∧
      (∀ g ∈ R.calls, g.r = some (zeroIfNone P.r) ∧ g.alpharadFrom = some (zeroIfNone P.alphadeg)) ∧
      R.comb = .add ((if A.finalize = true then Comb.fin else id) (if pre = [] then .call 0 else .add (.call 0) (.call 1)))
        ((if A.finalize = true then Comb.fin else id) (.call (pre.length + 1))) ∧
      R.store = .kT ∧
      (A.finalize = true → ∀ (kern : KCall F → Coo F) (r c : Nat),
        toFun (R.eval kern) r c =
          toFun (finalize (kern kL)) r c + toFun (finalize (kern kG)) r c + (pre.map fun g => toFun (finalize (kern g)) r c).sum) := by
  obtain ⟨k, P3, P4, hsd3, hsd4, hpost, hk4, hn, hy1, hy2, hcc, hr3, hal3, hr4, hal4, hR⟩ := calcKT_ok hc h
  have hpre : preloaded P3 = true ↔ P.nonzeroPreload := by
    rw [preloaded_iff]; unfold Panel.nonzeroPreload; rw [hsd3.NxxCte, hsd3.NyyCte, hsd3.NxyCte]
  have hb : boundsSpec P3 = [] := by unfold boundsSpec; rw [hsd3.y1, hy1]
  have hy1' : P3.y1 = none := by rw [hsd3.y1, hy1]
  have hspec : k0Prestress P3 A (sizeSpec k P A) =
      if preloaded P3 = true then
        [mkCall P3 false .fkG0 ([.q (zeroIfNone P.NxxCte), .q (zeroIfNone P.NyyCte), .q (zeroIfNone P.NxyCte), .panel] ++
          placeSpec k P A)]
      else [] := by
    rw [k0Prestress_spec, hb, hy1', placement_eq, hsd3.NxxCte, hsd3.NyyCte, hsd3.NxyCte]
    simp
  rw [numArgs_spec] at hR
  refine ⟨k, mkCall P3 true .fkL_num ([.cGiven, fSpec A, .panel] ++ placeSpec k P A ++ quadSpec P A ++ [.kwNL 1]),
    k0Prestress P3 A (sizeSpec k P A),
    mkCall P4 true .fkG_num ([.cGiven, fSpec A, .panel] ++ placeSpec k P A ++ quadSpec P A ++ [.kwNL 1]), by rw [hpost]; exact hk4, (hasNum_iff k).mp hn, hy1, hy2, checkC_none hcc,
    by rw [hR], rfl, rfl, rfl, rfl, rfl, rfl, ?_, ?_, ?_, ?_, by rw [hR], ?_⟩
  · rw [hspec]
    by_cases hp : preloaded P3 = true
    · simp [hp, hpre.mp hp]
    · simp [hp, mt hpre.mpr hp]
  · intro g hg
    rw [hspec] at hg ⊢
    by_cases hp : preloaded P3 = true
    · simp only [hp, if_true, List.mem_singleton] at hg ⊢
      subst hg
      exact ⟨rfl, rfl, rfl, by simp [mkCall]⟩
    · simp [hp] at hg
  · intro g hg
    rw [hR] at hg
    simp only [List.mem_cons, List.mem_append, List.mem_singleton, List.not_mem_nil, or_false] at hg
    rcases hg with rfl | hg | rfl
    · exact ⟨by show P3.r = _; rw [hr3, getD_eq_zeroIfNone], by show P3.alpharadFrom = _; rw [hal3, getD_eq_zeroIfNone]⟩
    · rw [hspec] at hg
      by_cases hp : preloaded P3 = true
      · simp only [hp, if_true, List.mem_singleton] at hg
        subst hg
        exact ⟨by show P3.r = _; rw [hr3, getD_eq_zeroIfNone], by show P3.alpharadFrom = _; rw [hal3, getD_eq_zeroIfNone]⟩
      · simp [hp] at hg
    · exact ⟨by show P4.r = _; rw [hr4, getD_eq_zeroIfNone], by show P4.alpharadFrom = _; rw [hal4, getD_eq_zeroIfNone]⟩
  · rw [hR, hspec]
    by_cases hp : preloaded P3 = true <;> cases A.finalize <;> simp [hp, finWrap, sumCalls]
  · intro hfin kern r c
    rw [hR, hspec]
    unfold Result.eval
    by_cases hp : preloaded P3 = true
    · simp only [hp, if_true, hfin, finWrap, List.length_cons, List.length_nil, sumCalls, Comb.eval]
      rw [toFun_append, toFun_finalize_append]
      simp
      ring
    · simp [hp, hfin, finWrap, sumCalls, Comb.eval, toFun_append]

/-- non-vacuity: the witness panel on its full width with the pre-load `(5, −5, None)` (components cancel), `c` of the right size, a
caller's `Fnxny`, `nx = 4`: `fkL_num`, `fkG0(5, −5, 0, …)`, `fkG_num`, both state-based kernels with `(c, Fnxny, P, 18, 0, 0, 4, 3, NLgeom=1)` -/
example : ∃ R, (calcKT { exPanel with y1 := none, y2 := none } { c := some ⟨true, 1, 18⟩, fnxny := true, nx := some 4 }).res = .ok R ∧
    sig R = [(.fkL_num, [.cGiven, .fGiven, .panel, .nat 18, .nat 0, .nat 0, .nat 4, .nat 3, .kwNL 1]),
             (.fkG0, [.q 5, .q (-5), .q 0, .panel, .nat 18, .nat 0, .nat 0]),
             (.fkG_num, [.cGiven, .fGiven, .panel, .nat 18, .nat 0, .nat 0, .nat 4, .nat 3, .kwNL 1])] ∧
    R.comb = .add (.fin (.add (.call 0) (.call 1))) (.fin (.call 2)) := by
  refine ⟨_, rfl, rfl, ?_⟩
  decide

/-- **`calc_fint` dispatch.**  Whenever the call succeeds: the model is flat or cylindrical (a model without numerical module raises
`ValueError`, below), `c` was passed and is at most 1-D, a laminate table is available (`Fnxny` passed, or `self.F` set by an earlier
`calc_k0`); the FIRST kernel call is `matrices_num.calc_fint(c, Fnxny-or-self.F, panel, size, col0, nx, ny)` with the same `Fnxny / nx / ny`
rule as `calc_kT`; an initial-stress kernel call follows iff at least one constant pre-load component is a non-zero number (the guard of
`calc_k0 / calc_kT`), there is at most one, it is `fkG0` - `fkG0y1y2` with the bounds in front iff the panel is a strip - with
`(Nxx_cte, Nyy_cte, Nxy_cte)` in this order, `None` read as `0`, placed at `(size, col0, col0)`; every kernel sees `r`, `alpharad` refreshed;
the returned vector is what the force kernel returned, plus - entry by entry, iff that second call was made -
`finalize_symmetric_matrix(kG0_cte) · c`, and then `len(c) = size`. -/
theorem calc_fint_dispatch (P : Panel F) (A : Args F) (R : VResult F) (h : (calcFint P A).res = .ok R) :
    ∃ k cv f pre, P.model = .kind k ∧ (k = .plate ∨ k = .cpanel) ∧ A.c = some cv ∧ cv.ndim ≤ 1 ∧
      (A.fnxny = true ∨ P.lamSet = true) ∧
      R.calls = f :: pre ∧ f.num = true ∧ f.name = .calc_fint ∧
      f.args = [.cGiven, fSpec A, .panel, .nat (sizeSpec k P A), .nat (col0Spec A)] ++ quadSpec P A ∧
      (pre ≠ [] ↔ P.nonzeroPreload) ∧ (R.prestress = true ↔ P.nonzeroPreload) ∧ (P.nonzeroPreload → cv.len = sizeSpec k P A) ∧
      (∀ g ∈ pre, pre = [g] ∧ g.num = false ∧ (g.name = .fkG0y1y2 ↔ P.onStrip) ∧ (g.name = .fkG0 ↔ ¬ P.onStrip) ∧
        g.args = boundsSpec P ++ [.q (zeroIfNone P.NxxCte), .q (zeroIfNone P.NyyCte), .q (zeroIfNone P.NxyCte), .panel,
          .nat (sizeSpec k P A), .nat (col0Spec A), .nat (col0Spec A)]) ∧
      (∀ g ∈ R.calls, g.r = some (zeroIfNone P.r) ∧ g.alpharadFrom = some (zeroIfNone P.alphadeg)) ∧
      (∀ (kernV : KCall F → List F) (kern : KCall F → Coo F) (c : List F),
        (R.eval kernV kern c).length = (kernV f).length ∧
        ∀ i, i < (kernV f).length →
          (R.eval kernV kern c).getD i 0 = (kernV f).getD i 0 + (pre.map fun g => mulVecAt (finalize (kern g)) c i).sum) := by
  obtain ⟨k, cv, P2, hk, hn, hc, hnd, hF, hsd, hpost, hr, hal, hlen, hR⟩ := calcFint_ok h
  have hpre : preloaded P2 = true ↔ P.nonzeroPreload := by
    rw [preloaded_iff]; unfold Panel.nonzeroPreload; rw [hsd.NxxCte, hsd.NyyCte, hsd.NxyCte]
  have hb : boundsSpec P2 = boundsSpec P := by unfold boundsSpec; rw [hsd.y1, hsd.y2]
  have hspec := k0Prestress_spec P2 { A with row0 := A.col0 } (sizeSpec k P A)
  have hpl : placement { A with row0 := A.col0 } (sizeSpec k P A) =
      ([.nat (sizeSpec k P A), .nat (col0Spec A), .nat (col0Spec A)] : List (Arg F)) := by
    unfold placement col0Spec; cases A.col0 <;> rfl
  rw [hb, hsd.NxxCte, hsd.NyyCte, hsd.NxyCte, hpl] at hspec
  rw [fintArgs_spec] at hR
  obtain ⟨hs1, hs2⟩ := name_strip_iff P P2 hsd .fkG0y1y2 .fkG0 (by decide)
  refine ⟨k, cv, mkCall P2 true .calc_fint ([.cGiven, fSpec A, .panel, .nat (sizeSpec k P A), .nat (col0Spec A)] ++ quadSpec P A),
    k0Prestress P2 { A with row0 := A.col0 } (sizeSpec k P A), hk, (hasNum_iff k).mp hn, hc, hnd, hF, by rw [hR],
    rfl, rfl, rfl, ?_, ?_, fun hp => hlen (hpre.mpr hp), ?_, ?_, ?_⟩
  · rw [hspec]
    by_cases hp : preloaded P2 = true
    · simp [hp, hpre.mp hp]
    · simp [hp, mt hpre.mpr hp]
  · rw [hR]; exact hpre
  · intro g hg
    rw [hspec] at hg ⊢
    by_cases hp : preloaded P2 = true
    · simp only [hp, if_true, List.mem_singleton] at hg ⊢
      subst hg
      exact ⟨rfl, rfl, hs1, hs2, by simp [mkCall]⟩
    · simp [hp] at hg
  · intro g hg
    rw [hR] at hg
    simp only [List.mem_cons] at hg
    rcases hg with rfl | hg
    · exact ⟨by show P2.r = _; rw [hr, getD_eq_zeroIfNone], by show P2.alpharadFrom = _; rw [hal, getD_eq_zeroIfNone]⟩
    · rw [hspec] at hg
      by_cases hp : preloaded P2 = true
      · simp only [hp, if_true, List.mem_singleton] at hg
        subst hg
        exact ⟨by show P2.r = _; rw [hr, getD_eq_zeroIfNone], by show P2.alpharadFrom = _; rw [hal, getD_eq_zeroIfNone]⟩
      · simp [hp] at hg
  · intro kernV kern c
    rw [hR, hspec]
    unfold VResult.eval
    by_cases hp : preloaded P2 = true
    · simp only [hp, if_true]
      refine ⟨by simp, fun i hi => ?_⟩
      rw [getD_map_range _ _ _ _ hi]
      simp
    · simp [hp]

/-- non-vacuity: the witness panel (strip from `y1 = 0.0`, pre-load `(5, −5, None)`) as a flat plate with a laminate, `col0 = 2`, a global
vector of length 20: `calc_fint(c, F, P, 20, 2, 2, 3)` and `fkG0y1y2(0, 1/2, 5, −5, 0, P, 20, 2, 2)`; the returned vector is an ndarray -/
example : ∃ R, (calcFint { exPanel with model := .kind .plate, lamSet := true }
      { c := some ⟨true, 1, 20⟩, size := some 20, col0 := some 2 }).res = .ok R ∧
    R.calls.map (fun g => (g.name, g.args)) =
      [(.calc_fint, [.cGiven, .fOwn, .panel, .nat 20, .nat 2, .nat 2, .nat 3]),
       (.fkG0y1y2, [.q 0, .q (1 / 2), .q 5, .q (-5), .q 0, .panel, .nat 20, .nat 2, .nat 2])] ∧ R.prestress = true := by
  refine ⟨_, rfl, rfl, rfl⟩

set_option linter.unusedSectionVars false in
/-- `calc_fint` on what it cannot serve: no `c` - `TypeError`; `model` `None` or unknown, a model without numerical module (one-field
plate, conical panel) - `ValueError`, the panel untouched; a 2-D `c` and a missing laminate table are rejected at the entry of the
compiled function (`ValueError`); a pre-loaded panel with `len(c) ≠ size` - `ValueError` of the sparse product. -/
theorem calc_fint_rejects (P : Panel F) (A : Args F) :
    (A.c = none → (calcFint P A).res = .error .cMissing ∧ (calcFint P A).post = P) ∧
    (∀ cv, A.c = some cv → (P.model = .unset ∨ P.model = .invalid) →
      (calcFint P A).res = .error .fintModel ∧ (calcFint P A).post = P) ∧
    (∀ cv, A.c = some cv → (P.model = .kind .plateW ∨ P.model = .kind .kpanel) →
      (calcFint P A).res = .error .fintNoNum ∧ (calcFint P A).post = P) ∧
    (∀ cv k, A.c = some cv → P.model = .kind k → k.hasNum = true → 1 < cv.ndim → (calcFint P A).res = .error .cBufferNdim) ∧
    (∀ cv k, A.c = some cv → P.model = .kind k → k.hasNum = true → cv.ndim ≤ 1 → A.fnxny = false → P.lamSet = false →
      (calcFint P A).res = .error .finputShape) ∧
    Err.pyType .cMissing = "TypeError" ∧ Err.pyType .fintModel = "ValueError" ∧ Err.pyType .fintNoNum = "ValueError" ∧
    Err.pyType .cBufferNdim = "ValueError" ∧ Err.pyType .finputShape = "ValueError" ∧ Err.pyType .dotMismatch = "ValueError" := by
  refine ⟨?_, ?_, ?_, ?_, ?_, rfl, rfl, rfl, rfl, rfl, rfl⟩
  · intro hc; simp [PanelGlue.calcFint, hc]
  · rintro cv hc (hm | hm) <;> simp [PanelGlue.calcFint, hc, hm]
  · rintro cv hc (hm | hm) <;> simp [PanelGlue.calcFint, hc, hm, ModelKind.hasNum]
  · intro cv k hc hm hn hnd
    unfold PanelGlue.calcFint
    simp only [hc, hm, hn, ModelKind.hasFint, Bool.not_true, Bool.false_eq_true, if_false]
    cases A.size <;> simp [resolveSize, hnd]
  · intro cv k hc hm hn hnd hf hl
    unfold PanelGlue.calcFint
    simp only [hc, hm, hn, ModelKind.hasFint, Bool.not_true, Bool.false_eq_true, if_false]
    have : ¬ 1 < cv.ndim := by omega
    cases A.size <;> simp [resolveSize, this, hf, refreshGeom, hl]

/-- non-vacuity: the one-field plate has no non-linear kernel -/
example : (calcFint { exPanel with model := .kind .plateW } { c := some ⟨true, 1, 6⟩ }).res = .error .fintNoNum := rfl

/-- **`calc_kT(c, …)` and `calc_fint(c, …)` hand their kernels the same state.**  For every panel state and every argument set for which
BOTH calls succeed: the three state-based kernels `fkL_num`, `fkG_num` (of `calc_kT`) and `calc_fint` get the identical Ritz vector `c`,
the identical laminate table (the caller's `Fnxny`, else `self.F`), the identical `size`, `col0` and the identical numbers of integration
points `nx, ny` (argument, else attribute), `len(c) = size`, and see the same `r`, `alpharad`; the constant pre-load is applied by both
or by neither (iff some `N*_cte` is a non-zero number), through the same analytic kernel `fkG0` with the identical load arguments, placed at
`(row0, col0)` by `calc_kT` and at `(col0, col0)` by `calc_fint` (which has no `row0`) - so for `row0 = col0` the two pre-stress kernel calls
are IDENTICAL calls. -/
theorem calc_kT_fint_consistent (P : Panel F) (A : Args F) (RT : Result F) (RF : VResult F) (cv : CArg) (hc : A.c = some cv)
    (hT : (calcKT P A).res = .ok RT) (hF : (PanelGlue.calcFint P A).res = .ok RF) :
    ∃ kL preT kG f preF size, RT.calls = kL :: (preT ++ [kG]) ∧ RF.calls = f :: preF ∧
      kL.name = .fkL_num ∧ kG.name = .fkG_num ∧ f.name = .calc_fint ∧ kL.num = true ∧ kG.num = true ∧ f.num = true ∧
      kL.args = [.cGiven, fSpec A, .panel, .nat size, .nat (row0Spec A), .nat (col0Spec A)] ++ quadSpec P A ++ [.kwNL 1] ∧
      kG.args = kL.args ∧
      f.args = [.cGiven, fSpec A, .panel, .nat size, .nat (col0Spec A)] ++ quadSpec P A ∧
      cv.len = size ∧
      (∀ g ∈ RT.calls, g.r = f.r ∧ g.alpharadFrom = f.alpharadFrom) ∧
      (∀ g ∈ RF.calls, g.r = f.r ∧ g.alpharadFrom = f.alpharadFrom) ∧
      (preT ≠ [] ↔ P.nonzeroPreload) ∧ (preF ≠ [] ↔ P.nonzeroPreload) ∧ (RF.prestress = true ↔ P.nonzeroPreload) ∧
      (∀ gT ∈ preT, ∀ gF ∈ preF, preT = [gT] ∧ preF = [gF] ∧ gT.num = false ∧ gF.num = false ∧ gT.name = .fkG0 ∧ gF.name = .fkG0 ∧
        gT.args = [.q (zeroIfNone P.NxxCte), .q (zeroIfNone P.NyyCte), .q (zeroIfNone P.NxyCte), .panel,
          .nat size, .nat (row0Spec A), .nat (col0Spec A)] ∧
        gF.args = [.q (zeroIfNone P.NxxCte), .q (zeroIfNone P.NyyCte), .q (zeroIfNone P.NxyCte), .panel,
          .nat size, .nat (col0Spec A), .nat (col0Spec A)]) ∧
      (row0Spec A = col0Spec A → preT = preF) := by
  obtain ⟨k, kL, preT, kG, _, hk, hy1, hy2, ⟨_, _, hlen⟩, hcT, hLn, hLname, hGn, hGname, hLa, hGa, hpT, hgT, hrT, _, _, _⟩ :=
    calc_kT_dispatch P A RT cv hc hT
  obtain ⟨k', cv', f, preF, _, hk', hc', _, _, hcF, hfn, hfname, hfa, hpF, hps, _, hgF, hrF, _⟩ := calc_fint_dispatch P A RF hF
  have hsz : sizeSpec k' P A = sizeSpec k P A := by
    unfold sizeSpec
    rcases hk with rfl | rfl <;> rcases hk' with rfl | rfl <;> rfl
  have hns : ¬ P.onStrip := by
    unfold Panel.onStrip; rw [hy1]; simp
  have hbs : boundsSpec P = [] := by unfold boundsSpec; rw [hy1]
  have hfr : f.r = some (zeroIfNone P.r) ∧ f.alpharadFrom = some (zeroIfNone P.alphadeg) := hrF f (by rw [hcF]; simp)
  have hpair : ∀ gT ∈ preT, ∀ gF ∈ preF, preT = [gT] ∧ preF = [gF] ∧ gT.num = false ∧ gF.num = false ∧ gT.name = .fkG0 ∧
      gF.name = .fkG0 ∧
      gT.args = [.q (zeroIfNone P.NxxCte), .q (zeroIfNone P.NyyCte), .q (zeroIfNone P.NxyCte), .panel,
        .nat (sizeSpec k P A), .nat (row0Spec A), .nat (col0Spec A)] ∧
      gF.args = [.q (zeroIfNone P.NxxCte), .q (zeroIfNone P.NyyCte), .q (zeroIfNone P.NxyCte), .panel,
        .nat (sizeSpec k P A), .nat (col0Spec A), .nat (col0Spec A)] := by
    intro gT hgTm gF hgFm
    obtain ⟨a1, a2, a3, a4⟩ := hgT gT hgTm
    obtain ⟨b1, b2, _, b4, b5⟩ := hgF gF hgFm
    refine ⟨a1, b1, a2, b2, a3, b4.mpr hns, ?_, ?_⟩
    · rw [a4]; rfl
    · rw [b5, hbs, hsz]; rfl
  refine ⟨kL, preT, kG, f, preF, sizeSpec k P A, hcT, hcF, hLname, hGname, hfname, hLn, hGn, hfn, ?_, hGa, ?_, hlen, ?_, ?_, hpT, hpF, hps,
    hpair, ?_⟩
  · rw [hLa]; rfl
  · rw [hfa, hsz]
  · intro g hg; rw [hfr.1, hfr.2]; exact hrT g hg
  · intro g hg; rw [hfr.1, hfr.2]; exact hrF g hg
  · intro hrow
    by_cases hp : P.nonzeroPreload
    · obtain ⟨gT, hgTm⟩ := List.exists_mem_of_ne_nil _ (hpT.mpr hp)
      obtain ⟨gF, hgFm⟩ := List.exists_mem_of_ne_nil _ (hpF.mpr hp)
      obtain ⟨e1, e2, n1, n2, m1, m2, a1, a2⟩ := hpair gT hgTm gF hgFm
      have r1 := hrT gT (by rw [hcT]; simp [hgTm])
      have r2 := hrF gF (by rw [hcF]; simp [hgFm])
      rw [e1, e2]
      congr 1
      cases gT; cases gF
      simp only [KCall.mk.injEq]
      simp only at n1 n2 m1 m2 a1 a2 r1 r2
      rw [hrow] at a1
      exact ⟨n1.trans n2.symm, m1.trans m2.symm, a1.trans a2.symm, r1.1.trans r2.1.symm, r1.2.trans r2.2.symm⟩
    · have t1 : preT = [] := by by_contra hne; exact hp (hpT.mp hne)
      have t2 : preF = [] := by by_contra hne; exact hp (hpF.mp hne)
      rw [t1, t2]

/-- non-vacuity: both calls succeed on the pre-loaded witness panel (full width, laminate present) with the same arguments -/
example : ∃ RT RF, (calcKT { exPanel with y1 := none, y2 := none, model := .kind .plate, lamSet := true }
      { c := some ⟨true, 1, 18⟩, nx := some 4 }).res = .ok RT ∧
    (PanelGlue.calcFint { exPanel with y1 := none, y2 := none, model := .kind .plate, lamSet := true }
      { c := some ⟨true, 1, 18⟩, nx := some 4 }).res = .ok RF ∧ RT.calls.length = 3 ∧ RF.calls.length = 2 :=
  ⟨_, _, rfl, rfl, rfl, rfl⟩

/-- **at the undeformed state the pre-stress part vanishes**: for ANY successful `calc_fint` and any kernel results, with `c = 0` (of any
length) the returned vector is exactly what the force kernel returned - `finalize_symmetric_matrix(kG0_cte) · 0` contributes nothing,
whatever the pre-load; so with `fint_zero_plate / fint_zero_cpanel` (every integrand of the force kernel vanishes at the zero state) the
internal force of a pre-loaded panel vanishes at `c = 0`. -/
theorem calc_fint_zero_state (P : Panel F) (A : Args F) (R : VResult F) (h : (PanelGlue.calcFint P A).res = .ok R) :
    ∃ f pre, R.calls = f :: pre ∧ f.name = .calc_fint ∧
      ∀ (kernV : KCall F → List F) (kern : KCall F → Coo F) (n : Nat),
        R.eval kernV kern (zeroVec n) = kernV f ∧
        (∀ m, kernV f = zeroVec m → R.eval kernV kern (zeroVec n) = zeroVec m) := by
  obtain ⟨k, cv, f, pre, _, _, _, _, _, hcalls, _, hname, _, _, _, _, _, _, hev⟩ := calc_fint_dispatch P A R h
  refine ⟨f, pre, hcalls, hname, fun kernV kern n => ?_⟩
  have key : R.eval kernV kern (zeroVec n) = kernV f := by
    obtain ⟨hl, hv⟩ := hev kernV kern (zeroVec n)
    apply List.ext_getElem hl
    intro i h1 h2
    have := hv i h2
    rw [List.getD_eq_getElem _ _ h1, List.getD_eq_getElem _ _ h2] at this
    rw [this]
    have hz : (pre.map fun g => mulVecAt (finalize (kern g)) (zeroVec n) i).sum = 0 := by
      apply List.sum_eq_zero
      intro x hx
      simp only [List.mem_map] at hx
      obtain ⟨g, _, rfl⟩ := hx
      exact mulVecAt_zeroVec _ _ _
    rw [hz, add_zero]
  exact ⟨key, fun m hm => by rw [key, hm]⟩

/-- non-vacuity: the pre-loaded witness strip; force kernel returning `0`, ANY matrix from the pre-stress kernel -/
example (M : Coo ℚ) : ∃ R, (PanelGlue.calcFint { exPanel with model := .kind .plate, lamSet := true }
      { c := some ⟨true, 1, 18⟩ }).res = .ok R ∧ R.prestress = true ∧
    R.eval (fun _ => zeroVec 18) (fun _ => M) (zeroVec 18) = zeroVec 18 := by
  obtain ⟨f, pre, _, _, hz⟩ := calc_fint_zero_state _ _ _ (rfl : (PanelGlue.calcFint { exPanel with model := .kind .plate, lamSet := true }
      { c := some ⟨true, 1, 18⟩ }).res = .ok _)
  exact ⟨_, rfl, rfl, (hz _ _ 18).2 18 rfl⟩

end glue

/-- **`calc_kT(c)` is the Jacobian of `calc_fint` at `c`, at the level of the glue** (over ℝ).  Kernels are abstract functions of the
recorded call AND of the Ritz vector the call was handed: `kernV g x` the vector of the force kernel, `kern g x` the COO result of a matrix
kernel.  Kernel facts, as explicit hypotheses: `hK` - for the three state-based calls of the two methods (which by
`calc_kT_fint_consistent` carry the same `c`, `Fnxny`, `size`, `col0`, `nx`, `ny`) the derivative of entry `a` of the force kernel along
amplitude `b` is entry `(a, b)` of `fin(fkL_num) + fin(fkG_num)`: this is what `kT_is_derivative_gauss_sum_plate / _cpanel` prove for the
regenerated integrands summed over ANY list of integration points, and it is only meaningful because the rule and the table are the same
on both sides; `hconst` - an analytic kernel does not read the Ritz vector; `hlen` - the force kernel returns a vector of length `n`.
Then for `finalize=True`, `row0 = col0`, `len(c) = n`, every `a, b < n`: the derivative at `t = 0` of entry `a` of
`calc_fint(c + t e_b)` is entry `(a, b)` of `calc_kT(c)` - INCLUDING the constant pre-stress, which enters the force as
`fin(kG0(N_cte)) · c` (linear in `c`) and the tangent as `fin(kG0(N_cte))`, by the same guard and the identical kernel call. -/
theorem panel_tangent_is_jacobian_glue (P : PanelGlue.Panel ℝ) (A : PanelGlue.Args ℝ) (RT : PanelGlue.Result ℝ)
    (RF : PanelGlue.VResult ℝ) (cv : PanelGlue.CArg) (hc : A.c = some cv) (hfin : A.finalize = true)
    (hrow : PanelGlue.row0Spec A = PanelGlue.col0Spec A)
    (hT : (PanelGlue.calcKT P A).res = .ok RT) (hF : (PanelGlue.calcFint P A).res = .ok RF)
    (kernV : PanelGlue.KCall ℝ → List ℝ → List ℝ) (kern : PanelGlue.KCall ℝ → List ℝ → Asm.Coo ℝ) (c : List ℝ) (n : Nat)
    (hcn : c.length = n)
    (hlen : ∀ g x, g.name = .calc_fint → (kernV g x).length = n)
    (hconst : ∀ g, g.num = false → ∀ x y, kern g x = kern g y)
    (hK : ∀ kL ∈ RT.calls, ∀ kG ∈ RT.calls, ∀ f ∈ RF.calls, kL.name = .fkL_num → kG.name = .fkG_num → f.name = .calc_fint →
      ∀ a b, a < n → b < n →
        HasDerivAt (fun t : ℝ => (kernV f (Asm.axpy c t (Asm.unitVec n b))).getD a 0)
          (Asm.toFun (Asm.finalize (kern kL c)) a b + Asm.toFun (Asm.finalize (kern kG c)) a b) 0)
    (a b : Nat) (ha : a < n) (hb : b < n) :
    HasDerivAt
      (fun t : ℝ => (RF.eval (fun g => kernV g (Asm.axpy c t (Asm.unitVec n b))) (fun g => kern g (Asm.axpy c t (Asm.unitVec n b)))
        (Asm.axpy c t (Asm.unitVec n b))).getD a 0)
      (Asm.toFun (RT.eval fun g => kern g c) a b) 0 := by
  obtain ⟨kL, preT, kG, f, preF, size, hcT, hcF, hLname, hGname, hfname, _, _, _, _, _, _, _, _, _, hpT, hpF, _, hpair, hsame⟩ :=
    calc_kT_fint_consistent P A RT RF cv hc hT hF
  have hpre := hsame hrow
  subst hpre
  obtain ⟨_, kL2, pre2, kG2, _, _, _, _, _, hcT2, _, _, _, _, _, _, _, _, _, _, _, hevT⟩ := calc_kT_dispatch P A RT cv hc hT
  have e0 : kL2 = kL ∧ pre2 = preT ∧ kG2 = kG := by
    rw [hcT] at hcT2
    injection hcT2 with x y
    obtain ⟨y1, y2⟩ := List.append_inj' y rfl
    injection y2 with y2
    exact ⟨x.symm, y1.symm, y2.symm⟩
  obtain ⟨rfl, rfl, rfl⟩ := e0
  obtain ⟨_, _, f', pre', _, _, _, _, _, hcF', _, _, _, _, _, _, _, _, hevF⟩ := calc_fint_dispatch P A RF hF
  -- the two decompositions of the same call lists agree
  have e1 : f' = f ∧ pre' = pre2 := by rw [hcF] at hcF'; injection hcF' with x y; exact ⟨x.symm, y.symm⟩
  obtain ⟨rfl, rfl⟩ := e1
  have hder := hK kL2 (by rw [hcT]; simp) kG2 (by rw [hcT]; simp) f' (by rw [hcF]; simp) hLname hGname hfname a b ha hb
  have hfun : (fun t : ℝ => (RF.eval (fun g => kernV g (Asm.axpy c t (Asm.unitVec n b)))
        (fun g => kern g (Asm.axpy c t (Asm.unitVec n b))) (Asm.axpy c t (Asm.unitVec n b))).getD a 0) =
      fun t : ℝ => (kernV f' (Asm.axpy c t (Asm.unitVec n b))).getD a 0 +
        ((pre'.map fun g => Asm.mulVecAt (Asm.finalize (kern g c)) c a).sum +
          t * (pre'.map fun g => Asm.toFun (Asm.finalize (kern g c)) a b).sum) := by
    funext t
    obtain ⟨_, hv⟩ := hevF (fun g => kernV g (Asm.axpy c t (Asm.unitVec n b))) (fun g => kern g (Asm.axpy c t (Asm.unitVec n b)))
      (Asm.axpy c t (Asm.unitVec n b))
    rw [hv a (by rw [hlen f' _ hfname]; exact ha)]
    congr 1
    by_cases hp : P.nonzeroPreload
    · obtain ⟨g, hg⟩ := List.exists_mem_of_ne_nil _ (hpT.mpr hp)
      obtain ⟨e, _, hnum, _⟩ := hpair g hg g hg
      rw [e]
      simp only [List.map_cons, List.map_nil, List.sum_cons, List.sum_nil, add_zero]
      rw [hconst g hnum _ c, Asm.mulVecAt_axpy _ c _ t (by rw [hcn, Asm.length_unitVec]), PanelGlue.mulVecAt_unitVec _ n a b hb]
    · have t1 : pre' = [] := by by_contra hne; exact hp (hpT.mp hne)
      rw [t1]; simp
  rw [hfun, (hevT hfin (fun g => kern g c) a b)]
  have hlin : HasDerivAt (fun t : ℝ => (pre'.map fun g => Asm.mulVecAt (Asm.finalize (kern g c)) c a).sum +
      t * (pre'.map fun g => Asm.toFun (Asm.finalize (kern g c)) a b).sum)
      ((pre'.map fun g => Asm.toFun (Asm.finalize (kern g c)) a b).sum) 0 := by
    have h1 : HasDerivAt (fun t : ℝ => t * (pre'.map fun g => Asm.toFun (Asm.finalize (kern g c)) a b).sum)
        ((pre'.map fun g => Asm.toFun (Asm.finalize (kern g c)) a b).sum) 0 := by
      simpa using (hasDerivAt_id (0 : ℝ)).mul_const ((pre'.map fun g => Asm.toFun (Asm.finalize (kern g c)) a b).sum)
    simpa using (hasDerivAt_const (0 : ℝ) ((pre'.map fun g => Asm.mulVecAt (Asm.finalize (kern g c)) c a).sum)).fun_add h1
  exact hder.fun_add hlin

/-- **… for the FLAT PLATE, with the kernel hypothesis `hK` DISCHARGED by `kT_is_derivative_gauss_sum_plate`.**  Same setting and same
conclusion as `panel_tangent_is_jacobian_glue`; instead of assuming any derivative, what is assumed of the three state-based kernels is
`hG`: their recorded outputs ARE the Gauss sums of the regenerated point integrands (`PlateGaussPair` of Spec/AssemblyGauss.lean, exactly
as in `assembly_tangent_is_jacobian_gauss`) - for every pair of amplitudes `a, b < n` there is a list of integration points (any number,
any positions, each with its basis values, weight, laminate table and accumulated state at `c`, `a ≠ 0`, `b ≠ 0`) such that entry `a` of
the vector returned by `calc_fint(c + t e_b)` is the sum over the points of the regenerated internal-force integrand of the field of `a` at
the state moved by `t` times degree of freedom `b`, and entry `(a, b)` of `fin(fkL_num(c)) + fin(fkG_num(c))` is the sum over the same
points of the regenerated `fkL_num + fkG_num` integrands.  The field of a global index is `(a - col0) mod 3` (the panel's block starts at
`col0`).  Then, for `finalize=True`, `row0 = col0`, `len(c) = n`, whenever BOTH calls succeed: `∂ calc_fint(c)_a / ∂ c_b = calc_kT(c)[a, b]`
for every `a, b < n`, constant pre-stress included.  (`hlen`, `hconst` as before: the force kernel returns `n` entries; an analytic
kernel does not read `c`.) -/
theorem panel_tangent_is_jacobian_glue_plate (P : PanelGlue.Panel ℝ) (A : PanelGlue.Args ℝ) (RT : PanelGlue.Result ℝ)
    (RF : PanelGlue.VResult ℝ) (cv : PanelGlue.CArg) (hc : A.c = some cv) (hfin : A.finalize = true)
    (hrow : PanelGlue.row0Spec A = PanelGlue.col0Spec A)
    (hT : (PanelGlue.calcKT P A).res = .ok RT) (hF : (PanelGlue.calcFint P A).res = .ok RF)
    (kernV : PanelGlue.KCall ℝ → List ℝ → List ℝ) (kern : PanelGlue.KCall ℝ → List ℝ → Asm.Coo ℝ) (c : List ℝ) (n : Nat)
    (hcn : c.length = n)
    (hlen : ∀ g x, g.name = .calc_fint → (kernV g x).length = n)
    (hconst : ∀ g, g.num = false → ∀ x y, kern g x = kern g y)
    (hG : ∀ kL ∈ RT.calls, ∀ kG ∈ RT.calls, ∀ f ∈ RF.calls, kL.name = .fkL_num → kG.name = .fkG_num → f.name = .calc_fint →
      ∀ a b, a < n → b < n →
        PlateGaussPair (fun t : ℝ => (kernV f (Asm.axpy c t (Asm.unitVec n b))).getD a 0)
          (Asm.toFun (Asm.finalize (kern kL c)) a b + Asm.toFun (Asm.finalize (kern kG c)) a b)
          (fieldOf (a - PanelGlue.col0Spec A)) (fieldOf (b - PanelGlue.col0Spec A)))
    (a b : Nat) (ha : a < n) (hb : b < n) :
    HasDerivAt
      (fun t : ℝ => (RF.eval (fun g => kernV g (Asm.axpy c t (Asm.unitVec n b))) (fun g => kern g (Asm.axpy c t (Asm.unitVec n b)))
        (Asm.axpy c t (Asm.unitVec n b))).getD a 0)
      (Asm.toFun (RT.eval fun g => kern g c) a b) 0 := by
  refine panel_tangent_is_jacobian_glue P A RT RF cv hc hfin hrow hT hF kernV kern c n hcn hlen hconst ?_ a b ha hb
  intro kL hkL kG hkG f hf hLname hGname hfname a' b' ha' hb'
  obtain ⟨pts, hpts, hfun, hkab⟩ := hG kL hkL kG hkG f hf hLname hGname hfname a' b' ha' hb'
  rw [funext hfun, hkab]
  exact kT_is_derivative_gauss_sum_plate pts hpts _ _

/-- the cylindrical panel: the same with `CPanelGaussPair` (every point also has `r ≠ 0`) and `kT_is_derivative_gauss_sum_cpanel` -/
theorem panel_tangent_is_jacobian_glue_cpanel (P : PanelGlue.Panel ℝ) (A : PanelGlue.Args ℝ) (RT : PanelGlue.Result ℝ)
    (RF : PanelGlue.VResult ℝ) (cv : PanelGlue.CArg) (hc : A.c = some cv) (hfin : A.finalize = true)
    (hrow : PanelGlue.row0Spec A = PanelGlue.col0Spec A)
    (hT : (PanelGlue.calcKT P A).res = .ok RT) (hF : (PanelGlue.calcFint P A).res = .ok RF)
    (kernV : PanelGlue.KCall ℝ → List ℝ → List ℝ) (kern : PanelGlue.KCall ℝ → List ℝ → Asm.Coo ℝ) (c : List ℝ) (n : Nat)
    (hcn : c.length = n)
    (hlen : ∀ g x, g.name = .calc_fint → (kernV g x).length = n)
    (hconst : ∀ g, g.num = false → ∀ x y, kern g x = kern g y)
    (hG : ∀ kL ∈ RT.calls, ∀ kG ∈ RT.calls, ∀ f ∈ RF.calls, kL.name = .fkL_num → kG.name = .fkG_num → f.name = .calc_fint →
      ∀ a b, a < n → b < n →
        CPanelGaussPair (fun t : ℝ => (kernV f (Asm.axpy c t (Asm.unitVec n b))).getD a 0)
          (Asm.toFun (Asm.finalize (kern kL c)) a b + Asm.toFun (Asm.finalize (kern kG c)) a b)
          (fieldOf (a - PanelGlue.col0Spec A)) (fieldOf (b - PanelGlue.col0Spec A)))
    (a b : Nat) (ha : a < n) (hb : b < n) :
    HasDerivAt
      (fun t : ℝ => (RF.eval (fun g => kernV g (Asm.axpy c t (Asm.unitVec n b))) (fun g => kern g (Asm.axpy c t (Asm.unitVec n b)))
        (Asm.axpy c t (Asm.unitVec n b))).getD a 0)
      (Asm.toFun (RT.eval fun g => kern g c) a b) 0 := by
  refine panel_tangent_is_jacobian_glue P A RT RF cv hc hfin hrow hT hF kernV kern c n hcn hlen hconst ?_ a b ha hb
  intro kL hkL kG hkG f hf hLname hGname hfname a' b' ha' hb'
  obtain ⟨pts, hpts, hfun, hkab⟩ := hG kL hkL kG hkG f hf hLname hGname hfname a' b' ha' hb'
  rw [funext hfun, hkab]
  exact kT_is_derivative_gauss_sum_cpanel pts hpts _ _

/-! #### non-vacuity of the two instantiated glue theorems

The one-point, `m = n = 1` flat panel of `Spec/AssemblyGauss.lean : AsmGaussExample` (`gF`, `gK`, `gauss_pair`: the state of the point is
accumulated from the three amplitudes, force vector and upper-triangle tangent list are the regenerated integrands at that state) behind the
glue of a concrete `Panel` over ℝ with a constant pre-load. -/
namespace GlueJacExample
open Compmech.PanelGlue Compmech.Asm Compmech AsmGaussExample

/-- a flat plate with `m = n = 1` (three amplitudes), full width, constant pre-load `(5, −5, None)`, laminate present -/
def exR : PanelGlue.Panel ℝ :=
  { model := .kind .plate, a := 2, b := 2, r := none, alphadeg := none, alpharadFrom := none, y1 := none, y2 := none,
    offset := 0, mu := none, Nxx := none, Nyy := none, Nxy := none, NxxCte := some 5, NyyCte := some (-5),
    NxyCte := none, flow := .x, beta := none, gamma := none, aeromu := none, mach := none, rhoAir := 0, V := 0,
    speedSound := 1, m := 1, n := 1, nx := 1, ny := 1, sizeAttr := none, forceOrtho := false, stackLen := 1,
    laminapropsSet := false, laminapropSet := true, plytsSet := false, plytSet := true, lamSet := true }

/-- `c` a 1-D ndarray of length 3, everything else defaulted (`finalize=True`, `row0 = col0 = 0`) -/
def exA : PanelGlue.Args ℝ := { c := some ⟨true, 1, 3⟩ }

/-- the force kernel: the regenerated plate integrand at ONE integration point whose state is accumulated from the amplitudes -/
noncomputable def exKernV (_ : KCall ℝ) (x : List ℝ) : List ℝ := gF 0 x

/-- the matrix kernels: `fkL_num` returns the upper triangle of the regenerated `fkL_num + fkG_num` integrands at that point (so `fkG_num`
returns nothing), the analytic pre-stress kernel `fkG0` a constant non-zero matrix -/
noncomputable def exKern (g : KCall ℝ) (x : List ℝ) : Coo ℝ :=
  if g.name = .fkL_num ∧ g.num = true then gK 0 x else if g.name = .fkG0 then [(0, 0, 7), (0, 1, 2)] else []

/-- both calls succeed on it; the `fkL_num` call is a call into the numerical module -/
theorem ex_calls : ∃ RT RF, (calcKT exR exA).res = .ok RT ∧ (PanelGlue.calcFint exR exA).res = .ok RF ∧
    (∀ g ∈ RT.calls, g.name = .fkL_num → g.num = true) ∧ RT.calls.length = 3 ∧ RF.calls.length = 2 ∧ RF.prestress = true := by
  simp [calcKT, PanelGlue.calcK0, calcKG0, rebuild, exR, exA, ModelAttr.kind?, resolveSize, checkC, k0Const, strip?, lamRebuilt,
    refreshGeom, k0Prestress, preloaded, ModelKind.hasNum, PanelGlue.getSize, ModelKind.dofs, PanelGlue.calcFint, ModelKind.hasFint,
    mkCall]

/-- non-vacuity of `panel_tangent_is_jacobian_glue_plate` (hence of `panel_tangent_is_jacobian_glue`): on this pre-loaded plate both calls
succeed (three resp. two kernel calls, the pre-stress product is made), `hlen`, `hconst`, `hG` hold for these kernels at EVERY `c` of length 3,
and the conclusion is a statement about a force that really depends on `c` (cubic) and a non-zero constant pre-stress matrix -/
example : ∃ RT RF, (calcKT exR exA).res = .ok RT ∧ (PanelGlue.calcFint exR exA).res = .ok RF ∧
    RT.calls.length = 3 ∧ RF.calls.length = 2 ∧ RF.prestress = true ∧
    ∀ c : List ℝ, c.length = 3 → ∀ a b, a < 3 → b < 3 →
      HasDerivAt
        (fun t : ℝ => (RF.eval (fun g => exKernV g (axpy c t (unitVec 3 b))) (fun g => exKern g (axpy c t (unitVec 3 b)))
          (axpy c t (unitVec 3 b))).getD a 0)
        (toFun (RT.eval fun g => exKern g c) a b) 0 := by
  obtain ⟨RT, RF, hT, hF, hnum, h3, h2, hp⟩ := ex_calls
  refine ⟨RT, RF, hT, hF, h3, h2, hp, fun c hc a b ha hb => ?_⟩
  refine panel_tangent_is_jacobian_glue_plate exR exA RT RF ⟨true, 1, 3⟩ rfl rfl rfl hT hF exKernV exKern c 3 hc
    (fun _ _ _ => rfl) ?_ ?_ a b ha hb
  · intro g hg x y
    unfold exKern
    simp [hg]
  · intro kL hkL kG _ f _ hLname hGname _ a' b' ha' hb'
    have e1 : exKern kL c = gK 0 c := by unfold exKern; simp [hLname, hnum kL hkL hLname]
    have e2 : exKern kG c = [] := by unfold exKern; simp [hGname]
    have e3 : toFun (finalize ([] : Coo ℝ)) a' b' = 0 := by unfold finalize; rw [toFun_makeSymmetric]; simp [toFun]
    rw [e1, e2, e3, add_zero]
    exact gauss_pair 0 c hc a' b' ha' hb'

/-- the same panel as a cylindrical one of radius 3 -/
def exRc : PanelGlue.Panel ℝ := { exR with model := .kind .cpanel, r := some 3 }

/-- state-based kernels returning zeros (the Gauss sums over NO integration point), a constant non-zero pre-stress matrix -/
noncomputable def exKernV0 (_ : KCall ℝ) (_ : List ℝ) : List ℝ := zeroVec 3
noncomputable def exKern0 (g : KCall ℝ) (_ : List ℝ) : Coo ℝ := if g.name = .fkG0 then [(0, 0, 7), (0, 1, 2)] else []

/-- both calls succeed on the cylindrical panel -/
theorem ex_calls_c : ∃ RT RF, (calcKT exRc exA).res = .ok RT ∧ (PanelGlue.calcFint exRc exA).res = .ok RF ∧
    RT.calls.length = 3 ∧ RF.calls.length = 2 ∧ RF.prestress = true := by
  simp [calcKT, PanelGlue.calcK0, calcKG0, rebuild, exRc, exR, exA, ModelAttr.kind?, resolveSize, checkC, k0Const, strip?, lamRebuilt,
    refreshGeom, k0Prestress, preloaded, ModelKind.hasNum, PanelGlue.getSize, ModelKind.dofs, PanelGlue.calcFint, ModelKind.hasFint,
    mkCall]

/-- non-vacuity of `panel_tangent_is_jacobian_glue_cpanel`: both calls succeed on the pre-loaded cylindrical panel and `hlen`, `hconst`, `hG`
hold (trivially: Gauss sums over the empty list of points; no regenerated one-point cylindrical instance is available in Spec/) -/
example : ∃ RT RF, (calcKT exRc exA).res = .ok RT ∧ (PanelGlue.calcFint exRc exA).res = .ok RF ∧
    RT.calls.length = 3 ∧ RF.calls.length = 2 ∧ RF.prestress = true ∧
    ∀ c : List ℝ, c.length = 3 → ∀ a b, a < 3 → b < 3 →
      HasDerivAt
        (fun t : ℝ => (RF.eval (fun g => exKernV0 g (axpy c t (unitVec 3 b))) (fun g => exKern0 g (axpy c t (unitVec 3 b)))
          (axpy c t (unitVec 3 b))).getD a 0)
        (toFun (RT.eval fun g => exKern0 g c) a b) 0 := by
  obtain ⟨RT, RF, hT, hF, h3, h2, hp⟩ := ex_calls_c
  refine ⟨RT, RF, hT, hF, h3, h2, hp, fun c hc a b ha hb => ?_⟩
  refine panel_tangent_is_jacobian_glue_cpanel exRc exA RT RF ⟨true, 1, 3⟩ rfl rfl rfl hT hF exKernV0 exKern0 c 3 hc
    (fun _ _ _ => by simp [exKernV0, length_zeroVec]) (fun _ _ _ _ => rfl) ?_ a b ha hb
  intro kL _ kG _ f _ hLname hGname _ a' b' ha' hb'
  have e3 : toFun (finalize ([] : Coo ℝ)) a' b' = 0 := by unfold finalize; rw [toFun_makeSymmetric]; simp [toFun]
  refine ⟨[], by simp, fun t => ?_, ?_⟩
  · simp only [exKernV0, zeroVec]; interval_cases a' <;> simp
  · simp [exKern0, hLname, hGname, e3]

end GlueJacExample

end C08

end Compmech.Panel
