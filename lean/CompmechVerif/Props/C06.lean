/-
C06 — frequency analysis: every returned (ω, mode) solves K·v = ω²·M·v on the full space with zeros on the
removed amplitudes; positive, ascending; sparse/dense agreement; mass scaling.

Only property theorems live here; helper lemmas are in `Model/EigPostLemmas.lean`.  Every theorem is about
`Model/EigPost.lean` (`freq`, `sortStep`, `takeIdx`, `reExpand`, `assignRows`), tied to
compmech/analysis/freq.py, compmech/sparse.py and Panel.freq by the differential correspondence of
`tools/props/C06.py`.  `eigs`/`eig`/`numpy.sqrt` are parameters with a recorded contract (validated on every
sample, not verified).  The scalar type `F` of eigenvalues/eigenvectors is any field (ℂ in the code); the real
and imaginary parts used by the sort are arbitrary functions `re im : F → K` into an ordered field.
-/
import CompmechVerif.Model.EigPostLemmas

namespace Compmech.EigPost.C06
open Compmech.EigPost

/-- Scatter correctness (both paths, `sort` on or off, `reduced_dof=False`).  If `freq` returns, the rows of
`K` and `M` outside the kept index list vanish on it, the solver output satisfies its contract on the reduced
pencil (sparse: `K w = z M w`; dense: `-M w = x K w`), `sqrtV` returns square roots and `negInv x · x = -1`,
then every returned pair `(ω, v)` has `v` of full length, `K v = ω² M v` in each of the `n` rows, and `v = 0`
on every removed amplitude. -/
theorem freq_pairs {K : Type} [Field K] [LinearOrder K] [IsStrictOrderedRing K] [FloorRing K] [DecidableEq K]
    {F : Type} [Field F] (n num : Nat) (sparse sort : Bool) (Kc Mc : Coo K) (Kf Mf : Nat → Nat → F)
    (sqrtV : List F → List F) (negInv : F → F) (re im : F → K) (o out : Out F F)
    (hret : (freq n num sparse sort false Kc Mc sqrtV negInv re im (some o)).2 = .ok out)
    (hK : ∀ i, i < n → i ∉ (if sparse then usedCols n Kc else checkCols n Mc) →
      ∀ u ∈ (if sparse then usedCols n Kc else checkCols n Mc), Kf i u = 0)
    (hM : ∀ i, i < n → i ∉ (if sparse then usedCols n Kc else checkCols n Mc) →
      ∀ u ∈ (if sparse then usedCols n Kc else checkCols n Mc), Mf i u = 0)
    (hsolver : if sparse then SolverOK Kf Mf (usedCols n Kc) o
      else SolverOK (fun i j => -Mf i j) Kf (checkCols n Mc) o)
    (hsqrt : ∀ zs, (sqrtV zs).length = zs.length ∧
      ∀ (k : Nat) z ω, zs[k]? = some z → (sqrtV zs)[k]? = some ω → ω * ω = z)
    (hinv : ∀ x ∈ o.vals, negInv x * x = -1) :
    ∀ ω x, (ω, x) ∈ out.vals.zip out.vecs.cols →
      x.length = n ∧ (∀ i < n, dotFrom (Kf i) 0 x = ω * ω * dotFrom (Mf i) 0 x) ∧
      (∀ i < n, i ∉ (if sparse then usedCols n Kc else checkCols n Mc) → x.getD i 0 = 0) :=
  freq_pairs_aux n num sparse sort Kc Mc Kf Mf sqrtV negInv re im o out hret hK hM hsolver hsqrt hinv

/-- the `if sort:` block only permutes the (frequency, mode) pairs and then drops those with real part
`≤ 1e-6`; the number of rows is unchanged. -/
theorem sort_is_permutation {K : Type} [Field K] [LinearOrder K] [IsStrictOrderedRing K] [FloorRing K]
    {F : Type} [Zero F] (re im : F → K) (vals : List F) (vecs : Block F) (out : Out F F)
    (h : sortStep re im vals vecs = .ok out) :
    (out.vals.zip out.vecs.cols).Perm
      ((vals.zip vecs.cols).filter fun p => decide ((1 : K) / 1000000 < re p.1)) ∧
    out.vecs.rows = vecs.rows :=
  sort_perm_aux re im vals vecs out h

/-- after the `if sort:` block the frequencies are ascending in the ROUNDED key
`(rint(10·re), rint(10·im))`, lexicographically. -/
theorem sort_ascending_in_rounded_key {K : Type} [Field K] [LinearOrder K] [IsStrictOrderedRing K]
    [FloorRing K] {F : Type} [Zero F] (re im : F → K) (vals : List F) (vecs : Block F) (out : Out F F)
    (h : sortStep re im vals vecs = .ok out) :
    out.vals.Pairwise fun a b => lexLE (sortKey re im a) (sortKey re im b) = true :=
  sort_sorted_aux re im vals vecs out h

/-- after the `if sort:` block every returned frequency has real part `> 1e-6 > 0`. -/
theorem sorted_frequencies_positive {K : Type} [Field K] [LinearOrder K] [IsStrictOrderedRing K]
    [FloorRing K] {F : Type} [Zero F] (re im : F → K) (vals : List F) (vecs : Block F) (out : Out F F)
    (h : sortStep re im vals vecs = .ok out) : ∀ w ∈ out.vals, (1 : K) / 1000000 < re w :=
  sort_positive_aux re im vals vecs out h

/-- The weaker TRUE order statement (the full one is false: `freq_ascending_counterexample`): if the real
parts entering the sort are pairwise MORE than 0.1 apart, the output is strictly ascending in the true real
part.  (Exactly 0.1 apart is not enough: `rint 1.5 = rint 2.5 = 2`.) -/
theorem freq_ascending_partial {K : Type} [Field K] [LinearOrder K] [IsStrictOrderedRing K] [FloorRing K]
    {F : Type} [Zero F] (re im : F → K) (vals : List F) (vecs : Block F) (out : Out F F)
    (h : sortStep re im vals vecs = .ok out)
    (hsep : vals.Pairwise fun a b => re a + 1 / 10 < re b ∨ re b + 1 / 10 < re a) :
    out.vals.Pairwise fun a b => re a < re b :=
  sort_ascending_partial_aux re im vals vecs out h hsep

/-- How far the order can be off (quantitative companion of the known finding on the rounded sort key): after the
`if sort:` block a frequency never precedes one that is smaller by MORE than 0.1. -/
theorem freq_ascending_within_tenth {K : Type} [Field K] [LinearOrder K] [IsStrictOrderedRing K] [FloorRing K]
    {F : Type} [Zero F] (re im : F → K) (vals : List F) (vecs : Block F) (out : Out F F)
    (h : sortStep re im vals vecs = .ok out) :
    out.vals.Pairwise fun a b => re a ≤ re b + 1 / 10 := by
  refine (sort_ascending_in_rounded_key re im vals vecs out h).imp ?_
  intro a b hab
  have hle : (rint (re a * 10) : K) ≤ (rint (re b * 10) : K) := by
    exact_mod_cast lexLE_fst hab
  have ha := (rint_near (re a * 10)).1
  have hb := (rint_near (re b * 10)).2
  linarith
/-- ... in particular the FIRST returned frequency (the one users read as the fundamental) exceeds no other returned
frequency by more than 0.1. -/
theorem first_frequency_fundamental_within_tenth {K : Type} [Field K] [LinearOrder K] [IsStrictOrderedRing K]
    [FloorRing K] {F : Type} [Zero F] (re im : F → K) (vals : List F) (vecs : Block F) (out : Out F F)
    (h : sortStep re im vals vecs = .ok out) (w0 : F) (rest : List F) (hv : out.vals = w0 :: rest) :
    ∀ w ∈ out.vals, re w0 ≤ re w + 1 / 10 := by
  have hp := freq_ascending_within_tenth re im vals vecs out h
  rw [hv] at hp ⊢
  intro w hw
  rcases List.mem_cons.1 hw with rfl | hw
  · have : (0 : K) < 1 / 10 := by norm_num
    linarith
  · exact (List.pairwise_cons.1 hp).1 w hw
/-- rounding facts behind the two statements above: `rint` (round half to even) is monotone, and separates
arguments more than one unit apart. -/
theorem rint_monotone_and_separating {K : Type} [Field K] [LinearOrder K] [IsStrictOrderedRing K]
    [FloorRing K] (x y : K) : (x ≤ y → rint x ≤ rint y) ∧ (x + 1 < y → rint x < rint y) :=
  ⟨rint_mono, rint_lt_of_add_one_lt⟩

/-- Counter-example to "frequencies ascending": `K = diag(ω²)`, `M = I`,
`ω = (10.04, 10.01, 3, 7, 20, 15)`, dense path, `sort=True`; `eig(-M, K)` returns `x = -1/ω²` with the unit
vectors and `sqrt` the exact roots.  `freq` returns `[3, 7, 10.04, 10.01, 15, 20]`, which is not ascending. -/
theorem freq_ascending_counterexample :
    (freq 6 25 false true false cexK cexM (fun _ => cexOmega) (fun x => -1 / x) id (fun _ => 0) (some cexRes)).2
      = .ok ⟨[3, 7, 1004 / 100, 1001 / 100, 15, 20],
          ⟨6, [2, 3, 0, 1, 5, 4].map fun c => (List.range 6).map fun i => if i = c then 1 else 0⟩⟩ ∧
    (cexRes.vals.map fun x => -1 / x) = cexOmega.map (fun w => w * w) ∧
    ¬ ([3, 7, 1004 / 100, 1001 / 100, 15, 20] : List ℚ).Pairwise (· ≤ ·) :=
  freq_ascending_cex

/-- TOTALITY of the repaired sparse path (/repo 3692045: `zeros((n, peigvecs.shape[1]))`): for every size,
every `num_eigvalues` and every number of delivered columns `freq` returns; residual precondition = the
solver's contract (one row per active amplitude, no more values than vectors). -/
theorem freq_sparse_shapes_total {K : Type} [Field K] [LinearOrder K] [IsStrictOrderedRing K] [FloorRing K]
    [DecidableEq K] {F : Type} [Zero F] (n num : Nat) (sort reduced : Bool) (Kc Mc : Coo K)
    (sqrtV : List F → List F) (negInv : F → F) (re im : F → K) (o : Out F F)
    (hrows : o.vecs.rows = (usedCols n Kc).length) (hvals : (sqrtV o.vals).length ≤ o.vecs.ncols) :
    ∃ r, (freq n num true sort reduced Kc Mc sqrtV negInv re im (some o)).2 = .ok r :=
  freq_sparse_total_aux n num sort reduced Kc Mc sqrtV negInv re im o hrows hvals

/-- The residual precondition is met by the glue itself (/repo d870371: `k = min(k, N-2)` after
`remove_null_cols`): `eigs` needs `0 < k < N-1`, which holds whenever `num ≥ 1`, `n ≥ 3` and at least three
amplitudes are active. -/
theorem freq_request_in_arpack_range (n num nred : Nat) (hnum : 1 ≤ num) (hn : 3 ≤ n) (hred : 3 ≤ nred) :
    0 < freqK n num nred ∧ freqK n num nred < (nred : Int) - 1 :=
  freq_request_in_range_aux n num nred hnum hn hred

/-- Regression instance of the repaired defect: sparse path, 6 amplitudes, default 25 requested: `k = 4`,
the 6×4 block and its 4 frequencies are returned. -/
theorem freq_repaired_instance_returns :
    ((freq 6 25 true true false cexK cexM (fun zs => zs) (fun x => -1 / x) id (fun _ => 0)
      (some ⟨[9, 49, 100, 225], cexBlock 6 4⟩)).2.toOption.map fun r => (r.vecs.shape, r.vals)) =
      some ((6, 4), [9, 49, 100, 225]) :=
  freq_repaired_instance

/-- Refutation of "returned" for EVERY input of the dense `reduced_dof=True` branch with at least two
massive amplitudes: either `column_stack` fails (`r ≡ 2 mod 3`) or `eigvecs[check, :] = peigvecs` assigns
the `2⌊r/3⌋`-row block returned by `eig` to `r` rows.  (`hsq`: `eig` returns as many rows as the reduced
matrices have.) -/
theorem freq_reduced_dof_shapes_counterexample {K : Type} [Field K] [LinearOrder K] [IsStrictOrderedRing K]
    [FloorRing K] [DecidableEq K] {F : Type} [Zero F] (n num : Nat) (sort : Bool) (Kc Mc : Coo K)
    (sqrtV : List F → List F) (negInv : F → F) (re im : F → K) (o : Out F F)
    (h2 : 2 ≤ (checkCols n Mc).length)
    (hsq : ∀ t, takeIdx (checkCols n Mc).length = .ok t → o.vecs.rows = t.length) :
    ∃ e, (freq n num false sort true Kc Mc sqrtV negInv re im (some o)).2 = .error e :=
  freq_reduced_never_aux n num sort Kc Mc sqrtV negInv re im o h2 hsq

/-- `column_stack((i[1::3], i[2::3]))` fails exactly for sizes `≡ 2 (mod 3)`; otherwise `take` has
`2·⌊r/3⌋` entries. -/
theorem take_index_cases (r : Nat) :
    (r % 3 = 2 ∧ takeIdx r = .error (.columnStack ((r + 1) / 3) (r / 3))) ∨
    (r % 3 ≠ 2 ∧ ∃ t, takeIdx r = .ok t ∧ t.length = 2 * (r / 3)) :=
  takeIdx_cases r

/-- the `reduced_dof` re-expansion bookkeeping in isolation: for `3m` amplitudes `take` exists, the allocated
height `3·(2m)//2` is `3m`, the assignment `new_eigvecs[take, :] = eigvecs` succeeds, and reading rows `take`
of the result gives back `eigvecs` (re-expansion is a right inverse of the `take` selection). -/
theorem reduced_expand_inverse {F : Type} [Zero F] (m : Nat) (cols : List (List F))
    (hc : ∀ w ∈ cols, w.length = 2 * m) :
    ∃ t e, takeIdx (3 * m) = .ok t ∧ reExpand t ⟨2 * m, cols⟩ = .ok e ∧ e.rows = 3 * m ∧
      e.cols.map (gather t) = cols :=
  reduced_expand_inverse_aux m cols hc

/-- scaling the mass by `s` (`M ↦ s·M`) scales every frequency by `1/√s`: `ω'² · s = ω²`, same mode. -/
theorem freq_scale_mass {K : Type} [Field K] [DecidableEq K] (Kf Mf : Nat → Nat → K) (s om om' : K)
    (hom : om' * om' * s = om * om) (v : List K) (i : Nat)
    (h : dotFrom (Kf i) 0 v = om * om * dotFrom (Mf i) 0 v) :
    dotFrom (Kf i) 0 v = om' * om' * dotFrom (fun j => s * Mf i j) 0 v :=
  freq_scale_mass_aux Kf Mf s om om' hom v i h

/-- sparse/dense agreement: the ascending list of the `k` lowest elements of a set is unique. -/
theorem ascending_lowest_unique {K : Type} [LinearOrder K] (l₁ l₂ : List K) (S : K → Prop)
    (h₁ : l₁.Pairwise (· < ·)) (h₂ : l₂.Pairwise (· < ·)) (hl : l₁.length = l₂.length)
    (hS₁ : ∀ a ∈ l₁, S a) (hS₂ : ∀ a ∈ l₂, S a)
    (hc₁ : ∀ a ∈ l₁, ∀ s, S s → s < a → s ∈ l₁) (hc₂ : ∀ a ∈ l₂, ∀ s, S s → s < a → s ∈ l₂) : l₁ = l₂ :=
  ascending_lowest_unique_aux l₁ l₂ S h₁ h₂ hl hS₁ hS₂ hc₁ hc₂

/-! Non-vacuity.  `freq_ascending_partial`: the hypothesis holds for `[3, 7, 20, 15]` (keys 30, 70, 200, 150)
and the sorted output is `[3, 7, 15, 20]`.  `reduced_expand_inverse`: `m = 2`, one column `[a,b,c,d]`. -/
example : (sortStep (K := ℚ) (F := ℚ) id (fun _ => 0) [3, 7, 20, 15] ⟨1, [[1], [2], [3], [4]]⟩)
    = .ok ⟨[3, 7, 15, 20], ⟨1, [[1], [2], [4], [3]]⟩⟩ ∧
    ([3, 7, 20, 15] : List ℚ).Pairwise (fun a b => id a + 1 / 10 < id b ∨ id b + 1 / 10 < id a) := by
  refine ⟨by decide +kernel, by decide +kernel⟩

example : takeIdx 6 = .ok [1, 2, 4, 5] ∧
    reExpand [1, 2, 4, 5] (⟨4, [[10, 20, 30, 40]]⟩ : Block ℚ) = .ok ⟨6, [[0, 10, 20, 0, 30, 40]]⟩ := by
  refine ⟨by decide +kernel, by decide +kernel⟩

end Compmech.EigPost.C06
