import CompmechVerif.Model.Static
import CompmechVerif.Model.BayLoads
import Mathlib.Algebra.BigOperators.Ring.Finset
import Mathlib.Algebra.BigOperators.Intervals
import Mathlib.Tactic.Ring
import Mathlib.Tactic.Linarith

namespace Compmech.Static
open Finset

variable {K : Type} [Field K]

theorem sum_placed_mul (col0 n size : ℕ) (h : col0 + n ≤ size) (v c : ℕ → K) :
    ∑ k ∈ range size, placed col0 n v k * c k = ∑ j ∈ range n, v j * c (col0 + j) := by
  rw [← Finset.sum_filter_add_sum_filter_not (range size) (fun k => col0 ≤ k ∧ k < col0 + n)]
  have hz : ∑ k ∈ (range size).filter (fun k => ¬ (col0 ≤ k ∧ k < col0 + n)), placed col0 n v k * c k = 0 := by
    apply Finset.sum_eq_zero
    intro k hk
    simp only [Finset.mem_filter] at hk
    simp [placed, hk.2]
  rw [hz, add_zero]
  apply Finset.sum_bij' (fun k _ => k - col0) (fun j _ => col0 + j)
  · intro k hk; simp only [Finset.mem_filter, Finset.mem_range] at hk ⊢; omega
  · intro j hj; simp only [Finset.mem_filter, Finset.mem_range] at hj ⊢; omega
  · intro k hk; simp only [Finset.mem_filter, Finset.mem_range] at hk; omega
  · intro j hj; omega
  · intro k hk
    simp only [Finset.mem_filter, Finset.mem_range] at hk
    have : col0 + (k - col0) = k := by omega
    simp [placed, hk.2, this]

theorem list_sum_mul_sum {α : Type} (l : List α) (f : α → ℕ → K) (c : ℕ → K) (n : ℕ) (col0 : ℕ) :
    ∑ j ∈ range n, (l.map fun x => f x j).sum * c (col0 + j)
      = (l.map fun x => ∑ j ∈ range n, f x j * c (col0 + j)).sum := by
  induction l with
  | nil => simp
  | cons x xs ih =>
    simp only [List.map_cons, List.sum_cons, add_mul, Finset.sum_add_distrib, ih]

theorem force_at_mul_sum (F : Force K) (n col0 : ℕ) (c : ℕ → K) :
    ∑ j ∈ range n, F.at j * c (col0 + j) = F.work col0 n c := by
  simp only [Force.at, Force.work, Force.disp, Finset.sum_mul, Finset.mul_sum]
  rw [Finset.sum_comm]
  apply Finset.sum_congr rfl
  intro a _
  apply Finset.sum_congr rfl
  intro j _
  ring

theorem fext_dot_c_aux (forces forcesInc : List (Force K)) (inc : K) (col0 n size : ℕ) (h : col0 + n ≤ size)
    (c : ℕ → K) :
    ∑ k ∈ range size, calcFext forces forcesInc inc col0 n k * c k =
      (forces.map fun F => F.work col0 n c).sum + inc * (forcesInc.map fun F => F.work col0 n c).sum := by
  unfold calcFext
  rw [sum_placed_mul col0 n size h]
  simp only [panelFext, add_mul, Finset.sum_add_distrib]
  rw [list_sum_mul_sum forces (fun F j => F.at j) c n col0,
      list_sum_mul_sum forcesInc (fun F j => inc * F.at j) c n col0]
  congr 1
  · congr 1
    apply List.map_congr_left
    intro F _
    exact force_at_mul_sum F n col0 c
  · rw [← List.sum_map_mul_left]
    congr 1
    apply List.map_congr_left
    intro F _
    rw [← force_at_mul_sum F n col0 c, Finset.mul_sum]
    apply Finset.sum_congr rfl
    intro j _; ring

theorem assembly_fext_dot_c_aux (ps : List (PanelLoads K)) (inc : K) (size : ℕ)
    (h : ∀ p ∈ ps, p.col0 + p.n ≤ size) (c : ℕ → K) :
    ∑ k ∈ range size, assemblyFext ps inc k * c k =
      (ps.map fun p => (p.forces.map fun F => F.work p.col0 p.n c).sum
        + inc * (p.forcesInc.map fun F => F.work p.col0 p.n c).sum).sum := by
  induction ps with
  | nil => simp [assemblyFext]
  | cons p ps ih =>
    have hp := h p (List.mem_cons_self)
    have hps : ∀ q ∈ ps, q.col0 + q.n ≤ size := fun q hq => h q (List.mem_cons_of_mem _ hq)
    simp only [assemblyFext, List.map_cons, List.sum_cons, add_mul, Finset.sum_add_distrib] at ih ⊢
    rw [fext_dot_c_aux _ _ _ _ _ _ hp, ih hps]

end Compmech.Static

namespace Compmech.Static
open Finset

variable {K : Type} [Field K]

theorem idxOf?_getElem_of_nodup (l : List ℕ) (h : l.Nodup) (s : ℕ) (hs : s < l.length) :
    l.idxOf? l[s] = some s := by
  induction l generalizing s with
  | nil => simp at hs
  | cons a as ih =>
    cases s with
    | zero => simp [List.idxOf?, List.findIdx?_cons]
    | succ s =>
      have hs' : s < as.length := by simpa using hs
      have hne : as[s] ≠ a := by
        intro he
        have : a ∈ as := he ▸ List.getElem_mem hs'
        exact (List.nodup_cons.mp h).1 this
      have := ih (List.nodup_cons.mp h).2 s hs'
      simp only [List.getElem_cons_succ, List.idxOf?, List.findIdx?_cons] at this ⊢
      have hb : (a == as[s]) = false := by simp [Ne.symm hne]
      simp [hb, this]

theorem scatter_getElem (used : List ℕ) (h : used.Nodup) (px : ℕ → K) (s : ℕ) (hs : s < used.length) :
    scatter used px used[s] = px s := by
  simp [scatter, idxOf?_getElem_of_nodup used h s hs]

theorem scatter_not_mem (used : List ℕ) (px : ℕ → K) (k : ℕ) (hk : k ∉ used) : scatter used px k = 0 := by
  have : used.idxOf? k = none := by
    simp only [List.idxOf?, List.findIdx?_eq_none_iff]
    intro x hx
    have hne : x ≠ k := fun he => hk (he ▸ hx)
    simp [hne]
  simp [scatter, this]

theorem sum_list_getElem (l : List ℕ) (f : ℕ → K) :
    (l.map f).sum = ∑ s ∈ range l.length, f (l.getD s 0) := by
  induction l with
  | nil => simp
  | cons a as ih =>
    rw [List.map_cons, List.sum_cons, List.length_cons, Finset.sum_range_succ', ih]
    simp [add_comm]

/-- the scattered solution satisfies every row of the full system that belongs to a used column, and is zero
on the removed amplitudes — whatever the matrix has in the removed columns -/
theorem solve_sound_aux (A : ℕ → ℕ → K) (b : ℕ → K) (n : ℕ) (used : List ℕ) (hnodup : used.Nodup)
    (hused : ∀ k ∈ used, k < n) (px : ℕ → K)
    (hsol : ∀ r, r < used.length →
      ∑ s ∈ range used.length, A (used.getD r 0) (used.getD s 0) * px s = b (used.getD r 0)) :
    (∀ i ∈ used, ∑ j ∈ range n, A i j * scatter used px j = b i) ∧
      (∀ k, k ∉ used → scatter used px k = 0) := by
  refine ⟨?_, fun k hk => scatter_not_mem used px k hk⟩
  intro i hi
  obtain ⟨r, hr, hri⟩ := List.getElem_of_mem hi
  have hsub : used.toFinset ⊆ range n := by
    intro k hk
    simp only [List.mem_toFinset] at hk
    simp [hused k hk]
  rw [← Finset.sum_subset hsub]
  · rw [List.sum_toFinset _ hnodup, sum_list_getElem]
    have := hsol r hr
    have hgr : used.getD r 0 = used[r] := by simp [List.getD_eq_getElem?_getD, hr]
    rw [hgr, hri] at this
    rw [← this]
    apply Finset.sum_congr rfl
    intro s hs
    have hs' : s < used.length := by simpa using hs
    have hgs : used.getD s 0 = used[s] := by simp [List.getD_eq_getElem?_getD, hs']
    rw [hgs, scatter_getElem used hnodup px s hs']
  · intro k _ hk
    simp only [List.mem_toFinset] at hk
    simp [scatter_not_mem used px k hk]

/-- the scatter is linear in the solver's answer -/
theorem scatter_linear (used : List ℕ) (px py : ℕ → K) (α β : K) (k : ℕ) :
    scatter used (fun s => α * px s + β * py s) k = α * scatter used px k + β * scatter used py k := by
  unfold scatter
  cases used.idxOf? k <;> simp

end Compmech.Static

/-! ### `StiffPanelBay.calc_fext`, `PanelAssembly.calc_fext`, `Analysis.static` (Model/BayLoads.lean) -/

namespace Compmech.Static
open Finset

variable {K : Type} [Field K]

theorem getD_map_range (n : ℕ) (f : ℕ → K) (k : ℕ) (hk : k < n) : ((List.range n).map f).getD k 0 = f k := by
  simp [List.getD_eq_getElem?_getD, hk]

theorem foldl_acc_length (n : ℕ) (fs : List (Force K)) (acc : List K) (h : acc.length = n) :
    (fs.foldl (fun acc F => (List.range n).map fun k => acc.getD k 0 + F.at k) acc).length = n := by
  induction fs generalizing acc with
  | nil => simpa using h
  | cons F fs ih => exact ih _ (by simp)

theorem foldl_acc_getD (n : ℕ) (fs : List (Force K)) (acc : List K) (k : ℕ) (hk : k < n) :
    (fs.foldl (fun acc F => (List.range n).map fun k => acc.getD k 0 + F.at k) acc).getD k 0
      = acc.getD k 0 + (fs.map fun F => F.at k).sum := by
  induction fs generalizing acc with
  | nil => simp
  | cons F fs ih =>
    rw [List.foldl_cons, ih, getD_map_range n _ k hk, List.map_cons, List.sum_cons, add_assoc]

theorem accumulate_length (n : ℕ) (fs : List (Force K)) : (accumulate n fs).length = n :=
  foldl_acc_length n fs _ (by simp)

theorem accumulate_getD (n : ℕ) (fs : List (Force K)) (k : ℕ) (hk : k < n) :
    (accumulate n fs).getD k 0 = (fs.map fun F => F.at k).sum := by
  unfold accumulate
  rw [foldl_acc_getD n fs _ k hk]
  simp [List.getD_eq_getElem?_getD, hk]

/-- `Σ_j l[j] · c[off + j]` -/
def dotFrom (off : ℕ) (l : List K) (c : ℕ → K) : K := ∑ j ∈ range l.length, l.getD j 0 * c (off + j)

theorem dotFrom_append (off : ℕ) (l₁ l₂ : List K) (c : ℕ → K) :
    dotFrom off (l₁ ++ l₂) c = dotFrom off l₁ c + dotFrom (off + l₁.length) l₂ c := by
  unfold dotFrom
  rw [List.length_append, Finset.sum_range_add]
  congr 1
  · apply Finset.sum_congr rfl
    intro j hj
    have hj' : j < l₁.length := by simpa using hj
    rw [List.getD_eq_getElem?_getD, List.getD_eq_getElem?_getD, List.getElem?_append_left hj']
  · apply Finset.sum_congr rfl
    intro j _
    rw [List.getD_eq_getElem?_getD, List.getD_eq_getElem?_getD, List.getElem?_append_right (by omega)]
    have : l₁.length + j - l₁.length = j := by omega
    rw [this, add_assoc]

theorem dotFrom_accumulate (off n : ℕ) (fs : List (Force K)) (c : ℕ → K) :
    dotFrom off (accumulate n fs) c = (fs.map fun F => F.work off n c).sum := by
  unfold dotFrom
  rw [accumulate_length]
  have h1 : ∑ j ∈ range n, (accumulate n fs).getD j 0 * c (off + j)
      = ∑ j ∈ range n, (fs.map fun F => F.at j).sum * c (off + j) := by
    apply Finset.sum_congr rfl
    intro j hj
    rw [accumulate_getD n fs j (by simpa using hj)]
  rw [h1, list_sum_mul_sum fs (fun F j => F.at j) c n off]
  congr 1
  apply List.map_congr_left
  intro F _
  exact force_at_mul_sum F n off c

/-- the vector of one part -/
def PartLoads.vec (p : PartLoads K) : List K := accumulate p.n p.forces

def flatParts (ps : List (PartLoads K)) : List K := (ps.map PartLoads.vec).flatten

theorem flatParts_nil : flatParts ([] : List (PartLoads K)) = [] := rfl

theorem flatParts_cons (p : PartLoads K) (ps : List (PartLoads K)) : flatParts (p :: ps) = p.vec ++ flatParts ps := by
  simp [flatParts]

theorem flatParts_append (ps qs : List (PartLoads K)) : flatParts (ps ++ qs) = flatParts ps ++ flatParts qs := by
  simp [flatParts]

theorem flatParts_length (ps : List (PartLoads K)) : (flatParts ps).length = (ps.map PartLoads.n).sum := by
  induction ps with
  | nil => rfl
  | cons p ps ih => rw [flatParts_cons, List.length_append, ih, PartLoads.vec, accumulate_length]; simp

theorem dotFrom_flatParts (off : ℕ) (ps : List (PartLoads K)) (c : ℕ → K) :
    dotFrom off (flatParts ps) c = partsWork c off ps := by
  induction ps generalizing off with
  | nil => simp [flatParts_nil, dotFrom, partsWork]
  | cons p ps ih =>
    rw [flatParts_cons, dotFrom_append, PartLoads.vec, dotFrom_accumulate, accumulate_length, ih]
    rfl

omit [Field K] in
theorem layoutFrom_append (off : ℕ) (ps qs : List (PartLoads K)) :
    layoutFrom off (ps ++ qs) = layoutFrom off ps ++ layoutFrom (off + (ps.map PartLoads.n).sum) qs := by
  induction ps generalizing off with
  | nil => simp [layoutFrom]
  | cons p ps ih => simp [layoutFrom, ih, add_assoc]

/-- the loop invariant: the vector built so far is the concatenation of the parts placed so far and the log holds their layout -/
def BayInv (st : BayState K) (ps : List (PartLoads K)) : Prop :=
  st.fext = flatParts ps ∧ st.log.map Placed.triple = layoutFrom 0 ps

theorem bayInv_snoc (st : BayState K) (ps : List (PartLoads K)) (h : BayInv st ps) (p : PartLoads K) (tag idx : ℕ) :
    BayInv ⟨st.fext ++ accumulate p.n p.forces, st.log ++ [⟨tag, idx, st.fext.length, p.n, p.forces.length⟩]⟩ (ps ++ [p]) := by
  obtain ⟨h1, h2⟩ := h
  constructor
  · simp [h1, flatParts_append, flatParts_cons, flatParts_nil, PartLoads.vec]
  · simp [h2, layoutFrom_append, layoutFrom, Placed.triple, h1, flatParts_length]

theorem fextBladeLoop_inv (l : List (Option (PartLoads K))) (i : ℕ) (st : BayState K) (ps : List (PartLoads K))
    (h : BayInv st ps) : BayInv (fextBladeLoop l i st) (ps ++ l.filterMap id) := by
  induction l generalizing i st ps with
  | nil => simpa [fextBladeLoop] using h
  | cons x t ih =>
    cases x with
    | none => simpa [fextBladeLoop] using ih (i + 1) st ps h
    | some fl =>
      have := ih (i + 1) _ _ (bayInv_snoc st ps h fl tagBladeFlange i)
      simpa [fextBladeLoop] using this

theorem fextTLoop_inv (l : List (PartLoads K × PartLoads K)) (i : ℕ) (st : BayState K) (ps : List (PartLoads K))
    (h : BayInv st ps) : BayInv (fextTLoop l i st) (ps ++ l.flatMap fun s => [s.1, s.2]) := by
  induction l generalizing i st ps with
  | nil => simpa [fextTLoop] using h
  | cons s t ih =>
    have h1 := bayInv_snoc st ps h s.1 tagTBase i
    have h2 := bayInv_snoc _ _ h1 s.2 tagTFlange i
    have := ih (i + 1) _ _ h2
    simpa [fextTLoop, List.length_append, List.append_assoc] using this

theorem bayRun_inv (b : BayLoads K) : BayInv (bayRun b) b.parts := by
  have h0 : BayInv (⟨accumulate b.skinSize b.forcesSkin, [⟨tagSkin, 0, 0, b.skinSize, b.forcesSkin.length⟩]⟩ : BayState K)
      [⟨b.skinSize, b.forcesSkin, []⟩] := by
    constructor
    · simp [flatParts_cons, flatParts_nil, PartLoads.vec]
    · simp [layoutFrom, Placed.triple]
  have := fextTLoop_inv b.ts 0 _ _ (fextBladeLoop_inv b.b2 0 _ _ h0)
  simpa [bayRun, BayLoads.parts, List.append_assoc] using this

theorem bayFext_eq_flatParts (b : BayLoads K) : bayFext b = flatParts b.parts := (bayRun_inv b).1

theorem bay_fext_dot_c_aux (b : BayLoads K) (c : ℕ → K) :
    ∑ k ∈ range (bayFext b).length, (bayFext b).getD k 0 * c k = partsWork c 0 b.parts := by
  rw [← dotFrom_flatParts, ← bayFext_eq_flatParts]
  simp [dotFrom]

end Compmech.Static

namespace Compmech.Static
open Finset

variable {K : Type} [Field K]

theorem bay_layout_aux (b : BayLoads K) : (bayLayout b).map Placed.triple = layoutFrom 0 b.parts := (bayRun_inv b).2

theorem bayFext_length (b : BayLoads K) : (bayFext b).length = (b.parts.map PartLoads.n).sum := by
  rw [bayFext_eq_flatParts, flatParts_length]

/-! additivity -/

theorem accumulate_append (n : ℕ) (fs gs : List (Force K)) :
    accumulate n (fs ++ gs) = List.zipWith (· + ·) (accumulate n fs) (accumulate n gs) := by
  apply List.ext_getElem
  · simp [accumulate_length]
  · intro k h1 h2
    have hk : k < n := by simpa [accumulate_length] using h1
    have e1 := accumulate_getD n (fs ++ gs) k hk
    have e2 := accumulate_getD n fs k hk
    have e3 := accumulate_getD n gs k hk
    have hl1 : k < (accumulate n fs).length := by simpa [accumulate_length] using hk
    have hl2 : k < (accumulate n gs).length := by simpa [accumulate_length] using hk
    have g1 : (accumulate n (fs ++ gs)).getD k 0 = (accumulate n (fs ++ gs))[k] := by
      simp [List.getD_eq_getElem?_getD, h1]
    have g2 : (accumulate n fs).getD k 0 = (accumulate n fs)[k] := by simp [List.getD_eq_getElem?_getD, hl1]
    have g3 : (accumulate n gs).getD k 0 = (accumulate n gs)[k] := by simp [List.getD_eq_getElem?_getD, hl2]
    rw [List.getElem_zipWith, ← g1, ← g2, ← g3, e1, e2, e3]
    simp

theorem vec_add (p q : PartLoads K) (h : p.n = q.n) : (p.add q).vec = List.zipWith (· + ·) p.vec q.vec := by
  simp only [PartLoads.vec, PartLoads.add]
  rw [accumulate_append, h]

theorem flatParts_zipWith_add (ps qs : List (PartLoads K)) (h : ps.map PartLoads.n = qs.map PartLoads.n) :
    flatParts (List.zipWith PartLoads.add ps qs) = List.zipWith (· + ·) (flatParts ps) (flatParts qs) := by
  induction ps generalizing qs with
  | nil => simp [flatParts_nil]
  | cons p ps ih =>
    cases qs with
    | nil => simp at h
    | cons q qs =>
      simp only [List.map_cons, List.cons.injEq] at h
      rw [List.zipWith_cons_cons, flatParts_cons, flatParts_cons, flatParts_cons, ih qs h.2, vec_add p q h.1]
      rw [List.zipWith_append]
      simp [PartLoads.vec, accumulate_length, h.1]

omit [Field K] in
theorem filterMap_zipWith_optAdd (l₁ l₂ : List (Option (PartLoads K)))
    (h : l₁.map (Option.map PartLoads.n) = l₂.map (Option.map PartLoads.n)) :
    (List.zipWith optAdd l₁ l₂).filterMap id = List.zipWith PartLoads.add (l₁.filterMap id) (l₂.filterMap id) ∧
      (l₁.filterMap id).map PartLoads.n = (l₂.filterMap id).map PartLoads.n := by
  induction l₁ generalizing l₂ with
  | nil =>
    cases l₂ with
    | nil => simp
    | cons y t => simp at h
  | cons x t ih =>
    cases l₂ with
    | nil => simp at h
    | cons y t₂ =>
      simp only [List.map_cons, List.cons.injEq] at h
      obtain ⟨ih1, ih2⟩ := ih t₂ h.2
      cases x with
      | none =>
        cases y with
        | none => simpa [optAdd] using ⟨ih1, ih2⟩
        | some q => simp at h
      | some p =>
        cases y with
        | none => simp at h
        | some q =>
          have hn : p.n = q.n := by simpa using h.1
          simp only [List.zipWith_cons_cons, optAdd, List.filterMap_cons, id, List.map_cons, hn, PartLoads.add]
          exact ⟨congrArg _ ih1, congrArg _ ih2⟩

omit [Field K] in
theorem flatMap_zipWith_tadd (l₁ l₂ : List (PartLoads K × PartLoads K))
    (h : l₁.map (fun s => (s.1.n, s.2.n)) = l₂.map (fun s => (s.1.n, s.2.n))) :
    (List.zipWith (fun s t => (s.1.add t.1, s.2.add t.2)) l₁ l₂).flatMap (fun s => [s.1, s.2])
      = List.zipWith PartLoads.add (l₁.flatMap fun s => [s.1, s.2]) (l₂.flatMap fun s => [s.1, s.2]) ∧
      (l₁.flatMap fun s => [s.1, s.2]).map PartLoads.n = (l₂.flatMap fun s => [s.1, s.2]).map PartLoads.n := by
  induction l₁ generalizing l₂ with
  | nil =>
    cases l₂ with
    | nil => simp
    | cons y t => simp at h
  | cons x t ih =>
    cases l₂ with
    | nil => simp at h
    | cons y t₂ =>
      simp only [List.map_cons, List.cons.injEq, Prod.mk.injEq] at h
      obtain ⟨ih1, ih2⟩ := ih t₂ h.2
      simp [ih1, ih2, h.1.1, h.1.2]

omit [Field K] in
theorem parts_add (b d : BayLoads K) (h : SameLayout b d) :
    (b.add d).parts = List.zipWith PartLoads.add b.parts d.parts ∧ b.parts.map PartLoads.n = d.parts.map PartLoads.n := by
  obtain ⟨h0, h2, h3⟩ := h
  obtain ⟨a1, a2⟩ := filterMap_zipWith_optAdd b.b2 d.b2 h2
  obtain ⟨t1, t2⟩ := flatMap_zipWith_tadd b.ts d.ts h3
  have hlen : (b.b2.filterMap id).length = (d.b2.filterMap id).length := by
    have := congrArg List.length a2
    simpa using this
  constructor
  · simp only [BayLoads.parts, BayLoads.add]
    rw [List.zipWith_cons_cons, a1, t1, List.zipWith_append hlen]
    simp [PartLoads.add, BayLoads.skinSize]
  · simp only [BayLoads.parts, List.map_cons, List.map_append, a2, t2, h0]

theorem bay_fext_additive_aux (b d : BayLoads K) (h : SameLayout b d) :
    bayFext (b.add d) = List.zipWith (· + ·) (bayFext b) (bayFext d) := by
  obtain ⟨h1, h2⟩ := parts_add b d h
  rw [bayFext_eq_flatParts, bayFext_eq_flatParts, bayFext_eq_flatParts, h1, flatParts_zipWith_add _ _ h2]

end Compmech.Static

namespace Compmech.Static
open Finset

variable {K : Type} [Field K]

/-! `PanelAssembly.calc_fext` -/

omit [Field K] in
theorem asmSize_append (pre post : List (AsmPanel K)) : asmSize (pre ++ post) = asmSize pre + asmSize post := by
  simp [asmSize]

omit [Field K] in
theorem asmSize_cons (p : AsmPanel K) (ps : List (AsmPanel K)) : asmSize (p :: ps) = p.step + asmSize ps := by
  simp [asmSize]

omit [Field K] in
theorem asmLoadsFrom_append (pre post : List (AsmPanel K)) (col0 : ℕ) :
    asmLoadsFrom (pre ++ post) col0 = asmLoadsFrom pre col0 ++ asmLoadsFrom post (col0 + asmSize pre) := by
  induction pre generalizing col0 with
  | nil => simp [asmLoadsFrom, asmSize]
  | cons p ps ih => simp [asmLoadsFrom, ih, asmSize_cons, add_assoc]

omit [Field K] in
theorem asmLoadsFrom_bound (ps : List (AsmPanel K)) (col0 : ℕ) (h : ∀ p ∈ ps, p.num ≤ 3) :
    ∀ q ∈ asmLoadsFrom ps col0, col0 ≤ q.col0 ∧ q.col0 + q.n ≤ col0 + asmSize ps := by
  induction ps generalizing col0 with
  | nil => simp [asmLoadsFrom]
  | cons p ps ih =>
    intro q hq
    simp only [asmLoadsFrom, List.mem_cons] at hq
    have hp : p.size ≤ p.step := by
      have := h p List.mem_cons_self
      simp only [AsmPanel.size, AsmPanel.step]
      exact Nat.mul_le_mul_right _ (Nat.mul_le_mul_right _ this)
    rcases hq with rfl | hq
    · simp only [asmSize_cons]
      omega
    · have := ih (col0 + p.step) (fun r hr => h r (List.mem_cons_of_mem _ hr)) q hq
      simp only [asmSize_cons]
      omega

theorem asm_fext_dot_c_aux (ps : List (AsmPanel K)) (inc : Option K) (c : ℕ → K) (h : ∀ p ∈ ps, p.num ≤ 3) :
    ∑ k ∈ range (asmSize ps), asmCalcFext ps inc k * c k = ((asmLoadsFrom ps 0).map (panelWork (inc.getD 1) c)).sum := by
  unfold asmCalcFext
  rw [assembly_fext_dot_c_aux (asmLoadsFrom ps 0) (inc.getD 1) (asmSize ps)
    (fun q hq => by have := (asmLoadsFrom_bound ps 0 h q hq).2; omega) c]
  rfl

theorem asm_incremental_only_aux (pre post : List (AsmPanel K)) (p : AsmPanel K) (hp : p.forces = []) (inc : Option K)
    (c : ℕ → K) (h : ∀ q ∈ pre ++ p :: post, q.num ≤ 3) :
    ∑ k ∈ range (asmSize (pre ++ p :: post)), asmCalcFext (pre ++ p :: post) inc k * c k =
      ∑ k ∈ range (asmSize (pre ++ p.unloaded :: post)), asmCalcFext (pre ++ p.unloaded :: post) inc k * c k
        + inc.getD 1 * (p.forcesInc.map fun F => F.work (asmSize pre) p.size c).sum := by
  have h' : ∀ q ∈ pre ++ p.unloaded :: post, q.num ≤ 3 := by
    intro q hq
    simp only [List.mem_append, List.mem_cons] at hq
    rcases hq with hq | rfl | hq
    · exact h q (by simp [hq])
    · exact h p (by simp)
    · exact h q (by simp [hq])
  rw [asm_fext_dot_c_aux _ inc c h, asm_fext_dot_c_aux _ inc c h', asmLoadsFrom_append, asmLoadsFrom_append]
  simp only [asmLoadsFrom, List.map_append, List.sum_append, List.map_cons, List.sum_cons, panelWork, hp,
    AsmPanel.unloaded, AsmPanel.step, AsmPanel.size, List.map_nil, List.sum_nil, zero_add, mul_zero]
  ring

/-! `sparse.solve` with its own `used_cols` -/

section
variable [DecidableEq K]

theorem mem_usedCols (A : ℕ → ℕ → K) (n k : ℕ) : k ∈ usedCols A n ↔ k < n ∧ ∃ i, i < n ∧ A i k ≠ 0 := by
  simp [usedCols]

theorem usedCols_nodup (A : ℕ → ℕ → K) (n : ℕ) : (usedCols A n).Nodup :=
  List.Nodup.filter _ List.nodup_range

theorem solve_sound_used_aux (sp : Spsolve K) (A : ℕ → ℕ → K) (b : ℕ → K) (n : ℕ) (h : SolvesReduced sp A b n) :
    (∀ i ∈ usedCols A n, ∑ j ∈ range n, A i j * solve sp A b n j = b i) ∧
      (∀ k, k ∉ usedCols A n → solve sp A b n k = 0) := by
  unfold solve
  exact solve_sound_aux A b n (usedCols A n) (usedCols_nodup A n) (fun k hk => ((mem_usedCols A n k).1 hk).1) _ h

omit [DecidableEq K] in
theorem scatter_congr (used : List ℕ) (hn : used.Nodup) (px py : ℕ → K) (h : ∀ s, s < used.length → px s = py s) (k : ℕ) :
    scatter used px k = scatter used py k := by
  by_cases hk : k ∈ used
  · obtain ⟨r, hr, rfl⟩ := List.getElem_of_mem hk
    rw [scatter_getElem used hn px r hr, scatter_getElem used hn py r hr, h r hr]
  · rw [scatter_not_mem used px k hk, scatter_not_mem used py k hk]

/-- linearity in the loads, from the solver contract and uniqueness of the reduced solution alone -/
theorem solve_linear_in_loads_aux (sp : Spsolve K) (A : ℕ → ℕ → K) (n : ℕ) (b₁ b₂ : ℕ → K) (α β : K)
    (h₁ : SolvesReduced sp A b₁ n) (h₂ : SolvesReduced sp A b₂ n)
    (h₃ : SolvesReduced sp A (fun k => α * b₁ k + β * b₂ k) n)
    (hinj : ∀ x y : ℕ → K,
      (∀ r, r < (usedCols A n).length →
        ∑ s ∈ range (usedCols A n).length, reducedMat A (usedCols A n) r s * x s
          = ∑ s ∈ range (usedCols A n).length, reducedMat A (usedCols A n) r s * y s) →
      ∀ s, s < (usedCols A n).length → x s = y s) (k : ℕ) :
    solve sp A (fun k => α * b₁ k + β * b₂ k) n k = α * solve sp A b₁ n k + β * solve sp A b₂ n k := by
  unfold solve
  rw [← scatter_linear]
  apply scatter_congr _ (usedCols_nodup A n)
  apply hinj
  intro r hr
  rw [h₃ r hr]
  have e1 := h₁ r hr
  have e2 := h₂ r hr
  simp only [mul_add, Finset.sum_add_distrib]
  have f1 : ∀ (γ : K) (x : ℕ → K), ∑ s ∈ range (usedCols A n).length, reducedMat A (usedCols A n) r s * (γ * x s)
      = γ * ∑ s ∈ range (usedCols A n).length, reducedMat A (usedCols A n) r s * x s := by
    intro γ x
    rw [Finset.mul_sum]
    apply Finset.sum_congr rfl
    intro s _
    ring
  rw [f1, f1, e1, e2]
  rfl

end

end Compmech.Static

namespace Compmech.Static

variable {K : Type} [Field K]

theorem fextBladeLoop_dropInc (l : List (Option (PartLoads K))) (i : ℕ) (st : BayState K) :
    fextBladeLoop (l.map (Option.map PartLoads.dropInc)) i st = fextBladeLoop l i st := by
  induction l generalizing i st with
  | nil => rfl
  | cons x t ih =>
    cases x with
    | none => simpa [fextBladeLoop] using ih (i + 1) st
    | some fl => simpa [fextBladeLoop, PartLoads.dropInc] using ih (i + 1) _

theorem fextTLoop_dropInc (l : List (PartLoads K × PartLoads K)) (i : ℕ) (st : BayState K) :
    fextTLoop (l.map fun s => (s.1.dropInc, s.2.dropInc)) i st = fextTLoop l i st := by
  induction l generalizing i st with
  | nil => rfl
  | cons s t ih => simpa [fextTLoop, PartLoads.dropInc] using ih (i + 1) _

theorem bayRun_dropInc (b : BayLoads K) : bayRun b.dropInc = bayRun b := by
  simp [bayRun, BayLoads.dropInc, fextBladeLoop_dropInc, fextTLoop_dropInc, BayLoads.skinSize]

end Compmech.Static
