import CompmechVerif.Model.Static
import Mathlib.Algebra.BigOperators.Ring.Finset
import Mathlib.Algebra.BigOperators.Intervals
import Mathlib.Tactic.Ring
import Mathlib.Tactic.Linarith

namespace Compmech.Static
open Finset

variable {K : Type} [Field K]

theorem sum_placed_mul (col0 n size : ℕ) (h : col0 + n ≤ size) (v c : ℕ → K) :
    ∑ k ∈ range size, placed col0 n v k * c k = ∑ j ∈ range n, v j * c (col0 + j) := by
  rw [← Finset.sum_filter_add_sum_filter_not (range size) (fun k => col0 ≤ k ∧ k < col0 + n)]
  have hz : ∑ k ∈ (range size).filter (fun k => ¬ (col0 ≤ k ∧ k < col0 + n)), placed col0 n v k * c k = 0 := by
    apply Finset.sum_eq_zero
    intro k hk
    simp only [Finset.mem_filter] at hk
    simp [placed, hk.2]
  rw [hz, add_zero]
  apply Finset.sum_bij' (fun k _ => k - col0) (fun j _ => col0 + j)
  · intro k hk; simp only [Finset.mem_filter, Finset.mem_range] at hk ⊢; omega
  · intro j hj; simp only [Finset.mem_filter, Finset.mem_range] at hj ⊢; omega
  · intro k hk; simp only [Finset.mem_filter, Finset.mem_range] at hk; omega
  · intro j hj; omega
  · intro k hk
    simp only [Finset.mem_filter, Finset.mem_range] at hk
    have : col0 + (k - col0) = k := by omega
    simp [placed, hk.2, this]

theorem list_sum_mul_sum {α : Type} (l : List α) (f : α → ℕ → K) (c : ℕ → K) (n : ℕ) (col0 : ℕ) :
    ∑ j ∈ range n, (l.map fun x => f x j).sum * c (col0 + j)
      = (l.map fun x => ∑ j ∈ range n, f x j * c (col0 + j)).sum := by
  induction l with
  | nil => simp
  | cons x xs ih =>
    simp only [List.map_cons, List.sum_cons, add_mul, Finset.sum_add_distrib, ih]

theorem force_at_mul_sum (F : Force K) (n col0 : ℕ) (c : ℕ → K) :
    ∑ j ∈ range n, F.at j * c (col0 + j) = F.work col0 n c := by
  simp only [Force.at, Force.work, Force.disp, Finset.sum_mul, Finset.mul_sum]
  rw [Finset.sum_comm]
  apply Finset.sum_congr rfl
  intro a _
  apply Finset.sum_congr rfl
  intro j _
  ring

theorem fext_dot_c_aux (forces forcesInc : List (Force K)) (inc : K) (col0 n size : ℕ) (h : col0 + n ≤ size)
    (c : ℕ → K) :
    ∑ k ∈ range size, calcFext forces forcesInc inc col0 n k * c k =
      (forces.map fun F => F.work col0 n c).sum + inc * (forcesInc.map fun F => F.work col0 n c).sum := by
  unfold calcFext
  rw [sum_placed_mul col0 n size h]
  simp only [panelFext, add_mul, Finset.sum_add_distrib]
  rw [list_sum_mul_sum forces (fun F j => F.at j) c n col0,
      list_sum_mul_sum forcesInc (fun F j => inc * F.at j) c n col0]
  congr 1
  · congr 1
    apply List.map_congr_left
    intro F _
    exact force_at_mul_sum F n col0 c
  · rw [← List.sum_map_mul_left]
    congr 1
    apply List.map_congr_left
    intro F _
    rw [← force_at_mul_sum F n col0 c, Finset.mul_sum]
    apply Finset.sum_congr rfl
    intro j _; ring

theorem assembly_fext_dot_c_aux (ps : List (PanelLoads K)) (inc : K) (size : ℕ)
    (h : ∀ p ∈ ps, p.col0 + p.n ≤ size) (c : ℕ → K) :
    ∑ k ∈ range size, assemblyFext ps inc k * c k =
      (ps.map fun p => (p.forces.map fun F => F.work p.col0 p.n c).sum
        + inc * (p.forcesInc.map fun F => F.work p.col0 p.n c).sum).sum := by
  induction ps with
  | nil => simp [assemblyFext]
  | cons p ps ih =>
    have hp := h p (List.mem_cons_self)
    have hps : ∀ q ∈ ps, q.col0 + q.n ≤ size := fun q hq => h q (List.mem_cons_of_mem _ hq)
    simp only [assemblyFext, List.map_cons, List.sum_cons, add_mul, Finset.sum_add_distrib] at ih ⊢
    rw [fext_dot_c_aux _ _ _ _ _ _ hp, ih hps]

end Compmech.Static

namespace Compmech.Static
open Finset

variable {K : Type} [Field K]

theorem idxOf?_getElem_of_nodup (l : List ℕ) (h : l.Nodup) (s : ℕ) (hs : s < l.length) :
    l.idxOf? l[s] = some s := by
  induction l generalizing s with
  | nil => simp at hs
  | cons a as ih =>
    cases s with
    | zero => simp [List.idxOf?, List.findIdx?_cons]
    | succ s =>
      have hs' : s < as.length := by simpa using hs
      have hne : as[s] ≠ a := by
        intro he
        have : a ∈ as := he ▸ List.getElem_mem hs'
        exact (List.nodup_cons.mp h).1 this
      have := ih (List.nodup_cons.mp h).2 s hs'
      simp only [List.getElem_cons_succ, List.idxOf?, List.findIdx?_cons] at this ⊢
      have hb : (a == as[s]) = false := by simp [Ne.symm hne]
      simp [hb, this]

theorem scatter_getElem (used : List ℕ) (h : used.Nodup) (px : ℕ → K) (s : ℕ) (hs : s < used.length) :
    scatter used px used[s] = px s := by
  simp [scatter, idxOf?_getElem_of_nodup used h s hs]

theorem scatter_not_mem (used : List ℕ) (px : ℕ → K) (k : ℕ) (hk : k ∉ used) : scatter used px k = 0 := by
  have : used.idxOf? k = none := by
    simp only [List.idxOf?, List.findIdx?_eq_none_iff]
    intro x hx
    have hne : x ≠ k := fun he => hk (he ▸ hx)
    simp [hne]
  simp [scatter, this]

theorem sum_list_getElem (l : List ℕ) (f : ℕ → K) :
    (l.map f).sum = ∑ s ∈ range l.length, f (l.getD s 0) := by
  induction l with
  | nil => simp
  | cons a as ih =>
    rw [List.map_cons, List.sum_cons, List.length_cons, Finset.sum_range_succ', ih]
    simp [add_comm]

/-- the scattered solution satisfies every row of the full system that belongs to a used column, and is zero
on the removed amplitudes — whatever the matrix has in the removed columns -/
theorem solve_sound_aux (A : ℕ → ℕ → K) (b : ℕ → K) (n : ℕ) (used : List ℕ) (hnodup : used.Nodup)
    (hused : ∀ k ∈ used, k < n) (px : ℕ → K)
    (hsol : ∀ r, r < used.length →
      ∑ s ∈ range used.length, A (used.getD r 0) (used.getD s 0) * px s = b (used.getD r 0)) :
    (∀ i ∈ used, ∑ j ∈ range n, A i j * scatter used px j = b i) ∧
      (∀ k, k ∉ used → scatter used px k = 0) := by
  refine ⟨?_, fun k hk => scatter_not_mem used px k hk⟩
  intro i hi
  obtain ⟨r, hr, hri⟩ := List.getElem_of_mem hi
  have hsub : used.toFinset ⊆ range n := by
    intro k hk
    simp only [List.mem_toFinset] at hk
    simp [hused k hk]
  rw [← Finset.sum_subset hsub]
  · rw [List.sum_toFinset _ hnodup, sum_list_getElem]
    have := hsol r hr
    have hgr : used.getD r 0 = used[r] := by simp [List.getD_eq_getElem?_getD, hr]
    rw [hgr, hri] at this
    rw [← this]
    apply Finset.sum_congr rfl
    intro s hs
    have hs' : s < used.length := by simpa using hs
    have hgs : used.getD s 0 = used[s] := by simp [List.getD_eq_getElem?_getD, hs']
    rw [hgs, scatter_getElem used hnodup px s hs']
  · intro k _ hk
    simp only [List.mem_toFinset] at hk
    simp [scatter_not_mem used px k hk]

/-- the scatter is linear in the solver's answer -/
theorem scatter_linear (used : List ℕ) (px py : ℕ → K) (α β : K) (k : ℕ) :
    scatter used (fun s => α * px s + β * py s) k = α * scatter used px k + β * scatter used py k := by
  unfold scatter
  cases used.idxOf? k <;> simp

end Compmech.Static
