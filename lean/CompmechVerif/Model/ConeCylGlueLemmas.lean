/-
Helper lemmas for `Props/C18.lean` about `Model/ConeCylGlue.lean`.
-/
import CompmechVerif.Model.ConeCylGlue
import Mathlib.Algebra.BigOperators.Group.List.Basic
import Mathlib.Algebra.BigOperators.Group.Finset.Basic
import Mathlib.Algebra.BigOperators.Intervals
import Mathlib.Algebra.Field.Rat
import Mathlib.Algebra.Order.Field.Rat
import Mathlib.Tactic.Ring
import Mathlib.Tactic.FieldSimp
import Mathlib.Tactic.Linarith
import Mathlib.Tactic.NormNum
import Mathlib.Tactic.SplitIfs
import Mathlib.Analysis.SpecialFunctions.Integrals.Basic
import Mathlib.Analysis.SpecialFunctions.Trigonometric.Deriv

namespace Compmech.ConeCyl

/-! ## `skip`, `up` -/

theorem skip_ne (d p : Nat) : skip d p ≠ d := by
  unfold skip; split_ifs <;> omega

theorem skip_strictMono (d : Nat) {p q : Nat} (h : p < q) : skip d p < skip d q := by
  unfold skip; split_ifs <;> omega

theorem skip_lt_iff (d p : Nat) : skip d p < d ↔ p < d := by
  unfold skip; split_ifs <;> omega

/-- `up` over the descending list (head = largest), as the loops of `exclude_dofs_matrix` run -/
def upD : List Nat → Nat → Nat
  | [], p => p
  | d :: rest, p => skip d (upD rest p)

theorem upD_eq_foldr (ds : List Nat) (p : Nat) : upD ds p = ds.foldr (fun d q => skip d q) p := by
  induction ds with
  | nil => rfl
  | cons d rest ih => simp [upD, ih]

theorem up_eq_upD_reverse (E : List Nat) (p : Nat) : up E p = upD E.reverse p := by
  rw [upD_eq_foldr, List.foldr_reverse]; rfl

/-! ## COO semantics -/

section coo
variable {K : Type} [AddCommMonoid K]
set_option linter.unusedSectionVars false
set_option linter.unusedSimpArgs false

theorem toFun_nil (i j : Nat) : Coo.toFun ([] : Coo K) i j = 0 := by simp [Coo.toFun]

theorem toFun_cons (e : Nat × Nat × K) (l : Coo K) (i j : Nat) :
    Coo.toFun (e :: l) i j = (if e.1 = i ∧ e.2.1 = j then e.2.2 else 0) + Coo.toFun l i j := by
  simp [Coo.toFun]

theorem dropRow_cons (r : Nat) (e : Nat × Nat × K) (l : Coo K) :
    dropRow r (e :: l) =
      if e.1 ≠ r then (if e.1 > r then e.1 - 1 else e.1, e.2.1, e.2.2) :: dropRow r l else dropRow r l := by
  unfold dropRow
  by_cases h : e.1 = r <;> simp [List.filter_cons, h]

theorem dropCol_cons (c : Nat) (e : Nat × Nat × K) (l : Coo K) :
    dropCol c (e :: l) =
      if e.2.1 ≠ c then (e.1, if e.2.1 > c then e.2.1 - 1 else e.2.1, e.2.2) :: dropCol c l else dropCol c l := by
  unfold dropCol
  by_cases h : e.2.1 = c <;> simp [List.filter_cons, h]

theorem toFun_dropRow (r : Nat) (l : Coo K) (i j : Nat) :
    (dropRow r l).toFun i j = l.toFun (skip r i) j := by
  induction l with
  | nil => simp [dropRow, Coo.toFun]
  | cons e l ih =>
    rw [dropRow_cons, toFun_cons (i := skip r i)]
    by_cases h : e.1 = r
    · have hne : ¬ (e.1 = skip r i ∧ e.2.1 = j) := fun h' => skip_ne r i (h'.1.symm.trans h)
      rw [if_neg (not_not.mpr h), if_neg hne, zero_add, ih]
    · have hiff : ((if e.1 > r then e.1 - 1 else e.1) = i) ↔ (e.1 = skip r i) := by
        unfold skip; split_ifs <;> omega
      rw [if_pos h, toFun_cons, ih]
      congr 1
      exact if_congr (and_congr hiff Iff.rfl) rfl rfl

theorem toFun_dropCol (c : Nat) (l : Coo K) (i j : Nat) :
    (dropCol c l).toFun i j = l.toFun i (skip c j) := by
  induction l with
  | nil => simp [dropCol, Coo.toFun]
  | cons e l ih =>
    rw [dropCol_cons, toFun_cons (j := skip c j)]
    by_cases h : e.2.1 = c
    · have hne : ¬ (e.1 = i ∧ e.2.1 = skip c j) := fun h' => skip_ne c j (h'.2.symm.trans h)
      rw [if_neg (not_not.mpr h), if_neg hne, zero_add, ih]
    · have hiff : ((if e.2.1 > c then e.2.1 - 1 else e.2.1) = j) ↔ (e.2.1 = skip c j) := by
        unfold skip; split_ifs <;> omega
      rw [if_pos h, toFun_cons, ih]
      congr 1
      exact if_congr (and_congr Iff.rfl hiff) rfl rfl

theorem toFun_dropRows (ds : List Nat) (l : Coo K) (i j : Nat) :
    (dropRows ds l).toFun i j = l.toFun (upD ds i) j := by
  induction ds generalizing l with
  | nil => rfl
  | cons d rest ih =>
    show (dropRows rest (dropRow d l)).toFun i j = _
    rw [ih, toFun_dropRow]; rfl

theorem toFun_dropCols (ds : List Nat) (l : Coo K) (i j : Nat) :
    (dropCols ds l).toFun i j = l.toFun i (upD ds j) := by
  induction ds generalizing l with
  | nil => rfl
  | cons d rest ih =>
    show (dropCols rest (dropCol d l)).toFun i j = _
    rw [ih, toFun_dropCol]; rfl

theorem toFun_filter (p : Nat × Nat × K → Bool) (l : Coo K) (i j : Nat)
    (q : Nat → Nat → Bool) (hp : ∀ e, p e = q e.1 e.2.1) :
    Coo.toFun (l.filter p) i j = if q i j then l.toFun i j else 0 := by
  induction l with
  | nil => simp [Coo.toFun]
  | cons e l ih =>
    rw [List.filter_cons]
    by_cases h : p e = true
    · rw [if_pos h, toFun_cons, toFun_cons, ih]
      by_cases hq : q i j = true
      · simp [hq]
      · have : ¬ (e.1 = i ∧ e.2.1 = j) := by
          rintro ⟨h1, h2⟩; rw [hp, h1, h2] at h; exact hq h
        simp [hq, this]
    · rw [if_neg h, ih, toFun_cons]
      by_cases hq : q i j = true
      · have : ¬ (e.1 = i ∧ e.2.1 = j) := by
          rintro ⟨h1, h2⟩; rw [hp, h1, h2] at h; exact h hq
        simp [hq, this]
      · simp [hq]

end coo


/-! ## sorting is the identity on what `_rebuild` produces (strictly ascending lists) -/

theorem sortAsc_of_ascending {E : List Nat} (h : E.Pairwise (· < ·)) : sortAsc E = E := by
  unfold sortAsc
  apply List.mergeSort_of_pairwise
  exact h.imp (fun hab => by simpa using Nat.le_of_lt hab)

theorem sortDesc_of_ascending {E : List Nat} (h : E.Pairwise (· < ·)) : sortDesc E = E.reverse := by
  unfold sortDesc; rw [sortAsc_of_ascending h]

theorem upD_sortDesc {E : List Nat} (h : E.Pairwise (· < ·)) (p : Nat) : upD (sortDesc E) p = up E p := by
  rw [sortDesc_of_ascending h, up_eq_upD_reverse]

theorem up_append_singleton (E : List Nat) (d p : Nat) : up (E ++ [d]) p = skip d (up E p) := by
  simp [up, List.foldl_append]

/-! ## `up E` enumerates the complement of `E` in increasing order -/

theorem up_strictMono (E : List Nat) {p q : Nat} (h : p < q) : up E p < up E q := by
  induction E using List.reverseRecOn with
  | nil => simpa [up] using h
  | append_singleton init d ih => rw [up_append_singleton, up_append_singleton]; exact skip_strictMono d ih

theorem up_not_mem {E : List Nat} (h : E.Pairwise (· < ·)) (p : Nat) : up E p ∉ E := by
  induction E using List.reverseRecOn with
  | nil => simp
  | append_singleton init d ih =>
    rw [List.pairwise_append] at h
    obtain ⟨h1, _, h3⟩ := h
    rw [up_append_singleton]
    intro hm
    rcases List.mem_append.mp hm with hm | hm
    · have hlt : skip d (up init p) < d := h3 _ hm d (by simp)
      rw [skip_lt_iff] at hlt
      have : skip d (up init p) = up init p := by unfold skip; rw [if_pos hlt]
      rw [this] at hm
      exact ih h1 hm
    · simp at hm; exact skip_ne d _ hm

theorem up_surj {E : List Nat} (h : E.Pairwise (· < ·)) (q : Nat) (hq : q ∉ E) : ∃ p, up E p = q := by
  induction E using List.reverseRecOn generalizing q with
  | nil => exact ⟨q, rfl⟩
  | append_singleton init d ih =>
    rw [List.pairwise_append] at h
    obtain ⟨h1, _, h3⟩ := h
    have hq1 : q ≠ d := fun e => hq (by simp [e])
    by_cases hlt : q < d
    · obtain ⟨p, hp⟩ := ih h1 q (fun hm => hq (List.mem_append_left _ hm))
      exact ⟨p, by rw [up_append_singleton, hp]; unfold skip; rw [if_pos hlt]⟩
    · have hgt : d < q := by omega
      have hnm : q - 1 ∉ init := fun hm => by
        have := h3 _ hm d (by simp); omega
      obtain ⟨p, hp⟩ := ih h1 (q - 1) hnm
      exact ⟨p, by rw [up_append_singleton, hp]; unfold skip; rw [if_neg (by omega)]; omega⟩

theorem up_of_lt_all {E : List Nat} {p : Nat} (h : ∀ e ∈ E, p < e) : up E p = p := by
  induction E using List.reverseRecOn with
  | nil => rfl
  | append_singleton init d ih =>
    rw [up_append_singleton, ih (fun e he => h e (List.mem_append_left _ he))]
    unfold skip; rw [if_pos (h d (by simp))]

/-! ## vectors: `np.insert`, `np.delete` -/

section vectors
variable {K : Type}

/-- insertion of `inc*ck` at ascending positions, as the second branch of `calc_full_c` does it -/
def insAll [Mul K] (ps : List (Nat × K)) (inc : K) (c : List K) : List K :=
  ps.foldl (fun c p => c.insertIdx p.1 (inc * p.2)) c

def delAll (ds : List Nat) (c : List K) : List K := ds.foldl (fun acc d => acc.eraseIdx d) c

theorem insAll_append_singleton [Mul K] (ps : List (Nat × K)) (q : Nat × K) (inc : K) (c : List K) :
    insAll (ps ++ [q]) inc c = (insAll ps inc c).insertIdx q.1 (inc * q.2) := by
  simp [insAll, List.foldl_append]

theorem delAll_insAll [Mul K] (ps : List (Nat × K)) (inc : K) (c : List K) :
    delAll (ps.map Prod.fst).reverse (insAll ps inc c) = c := by
  induction ps using List.reverseRecOn with
  | nil => rfl
  | append_singleton init q ih =>
    rw [insAll_append_singleton]
    simp only [List.map_append, List.map_cons, List.map_nil, List.reverse_append, List.reverse_cons,
      List.reverse_nil, List.nil_append, List.cons_append]
    show delAll (init.map Prod.fst).reverse (((insAll init inc c).insertIdx q.1 (inc * q.2)).eraseIdx q.1) = c
    rw [List.eraseIdx_insertIdx_self, ih]

theorem getElem?_insertIdx_skip (x : List K) (d : Nat) (v : K) (q : Nat) :
    (x.insertIdx d v)[skip d q]? = x[q]? := by
  rw [List.getElem?_insertIdx]
  unfold skip
  by_cases h : q < d
  · rw [if_pos h, if_pos h]
  · rw [if_neg h, if_neg (by omega), if_neg (by omega)]; simp

theorem insAll_getElem?_up [Mul K] (ps : List (Nat × K)) (inc : K) (c : List K) (p : Nat) :
    (insAll ps inc c)[up (ps.map Prod.fst) p]? = c[p]? := by
  induction ps using List.reverseRecOn with
  | nil => rfl
  | append_singleton init q ih =>
    rw [insAll_append_singleton, List.map_append, List.map_cons, List.map_nil, up_append_singleton,
      getElem?_insertIdx_skip, ih]

theorem insAll_length [Mul K] (ps : List (Nat × K)) (inc : K) (c : List K)
    (hasc : (ps.map Prod.fst).Pairwise (· < ·)) (hb : ∀ e ∈ ps.map Prod.fst, e < c.length + ps.length) :
    (insAll ps inc c).length = c.length + ps.length := by
  induction ps using List.reverseRecOn with
  | nil => rfl
  | append_singleton init q ih =>
    rw [List.map_append, List.pairwise_append] at hasc
    obtain ⟨h1, _, h3⟩ := hasc
    have hq : q.1 < c.length + (init.length + 1) := by
      have := hb q.1 (by simp); simpa using this
    have hi : ∀ e ∈ init.map Prod.fst, e < c.length + init.length := fun e he => by
      have := h3 e he q.1 (by simp); omega
    rw [insAll_append_singleton, List.length_insertIdx, ih h1 hi, if_pos (by omega)]
    simp; omega

theorem insAll_getElem?_mem [Mul K] (ps : List (Nat × K)) (inc : K) (c : List K)
    (hasc : (ps.map Prod.fst).Pairwise (· < ·)) (hb : ∀ e ∈ ps.map Prod.fst, e < c.length + ps.length)
    (q : Nat × K) (hq : q ∈ ps) : (insAll ps inc c)[q.1]? = some (inc * q.2) := by
  induction ps using List.reverseRecOn with
  | nil => simp at hq
  | append_singleton init r ih =>
    rw [List.map_append, List.pairwise_append] at hasc
    obtain ⟨h1, _, h3⟩ := hasc
    have hr : r.1 < c.length + (init.length + 1) := by
      have := hb r.1 (by simp); simpa using this
    have hi : ∀ e ∈ init.map Prod.fst, e < c.length + init.length := fun e he => by
      have := h3 e he r.1 (by simp); omega
    have hlen := insAll_length init inc c h1 hi
    rw [insAll_append_singleton, List.getElem?_insertIdx]
    rcases List.mem_append.mp hq with hm | hm
    · have hlt : q.1 < r.1 := h3 q.1 (List.mem_map_of_mem hm) r.1 (by simp)
      rw [if_pos hlt]; exact ih h1 hi hm
    · simp at hm; subst hm
      rw [if_neg (by omega), if_pos rfl, if_pos (by omega)]

end vectors

/-! ## splitting a sum over all amplitudes into free and prescribed ones -/

section sums
variable {K : Type} [AddCommMonoid K]

theorem sumTo_eq_finset (n : Nat) (f : Nat → K) : sumTo n f = ∑ j ∈ Finset.range n, f j := by
  induction n with
  | zero => simp [sumTo]
  | succ n ih =>
    rw [Finset.sum_range_succ, ← ih]
    unfold sumTo
    exact List.sum_range_succ f n

theorem sumTo_succ (n : Nat) (f : Nat → K) : sumTo (n + 1) f = sumTo n f + f n := by
  unfold sumTo; exact List.sum_range_succ f n

theorem sumTo_congr {n : Nat} {f g : Nat → K} (h : ∀ j, j < n → f j = g j) : sumTo n f = sumTo n g := by
  rw [sumTo_eq_finset, sumTo_eq_finset]
  exact Finset.sum_congr rfl (fun j hj => h j (Finset.mem_range.mp hj))

theorem sumTo_skip (n d : Nat) (hd : d ≤ n) (g : Nat → K) :
    sumTo (n + 1) g = sumTo n (fun j => g (skip d j)) + g d := by
  induction n with
  | zero =>
    have : d = 0 := by omega
    subst this; simp [sumTo]
  | succ n ih =>
    by_cases h : d = n + 1
    · subst h
      rw [sumTo_succ]
      congr 1
      apply sumTo_congr
      intro j hj
      unfold skip; rw [if_pos hj]
    · have hd' : d ≤ n := by omega
      rw [sumTo_succ, ih hd', sumTo_succ (n := n)]
      have : skip d n = n + 1 := by unfold skip; rw [if_neg (by omega)]
      rw [this, add_right_comm]

theorem sumTo_split (E : List Nat) (hasc : E.Pairwise (· < ·)) (n : Nat) (hb : ∀ e ∈ E, e < n) (g : Nat → K) :
    sumTo n g = sumTo (n - E.length) (fun p => g (up E p)) + (E.map g).sum := by
  induction E using List.reverseRecOn generalizing n g with
  | nil => simp [up]
  | append_singleton init d ih =>
    rw [List.pairwise_append] at hasc
    obtain ⟨h1, _, h3⟩ := hasc
    have hd : d < n := hb d (by simp)
    obtain ⟨m, rfl⟩ : ∃ m, n = m + 1 := ⟨n - 1, by omega⟩
    have hi : ∀ e ∈ init, e < m := fun e he => by have := h3 e he d (by simp); omega
    rw [sumTo_skip m d (by omega) g, ih h1 m hi (fun j => g (skip d j))]
    have hmap : (init.map fun j => g (skip d j)) = init.map g := by
      apply List.map_congr_left
      intro e he
      have := h3 e he d (by simp)
      unfold skip; rw [if_pos this]
    rw [hmap, List.map_append, List.sum_append]
    simp only [List.map_cons, List.map_nil, List.sum_cons, List.sum_nil, add_zero, List.length_append,
      List.length_cons, List.length_nil]
    have hlen : m + 1 - (init.length + (0 + 1)) = m - init.length := by omega
    rw [hlen]
    have hfun : (fun p => g (up (init ++ [d]) p)) = fun p => g (skip d (up init p)) := by
      funext p; rw [up_append_singleton]
    rw [hfun, add_assoc]

end sums


/-! ## `exclude_dofs_matrix`: entry-wise characterisation of the four blocks -/

section blocks
variable {K : Type} [AddCommMonoid K]
set_option linter.unusedSectionVars false

theorem kuu_entry_aux (num0 n : Nat) (E : List Nat) (h : E.Pairwise (· < ·)) (k : Coo K) (i j : Nat) :
    (excludeDofsMatrix num0 E n k).kuu.toFun i j = k.toFun (up E i) (up E j) := by
  show (dropCols (sortDesc E) (dropRows (sortDesc E) k)).toFun i j = _
  rw [toFun_dropCols, toFun_dropRows, upD_sortDesc h, upD_sortDesc h]

theorem kuk_entry_aux (num0 n : Nat) (E : List Nat) (h : E.Pairwise (· < ·)) (k : Coo K) (i j : Nat) :
    (excludeDofsMatrix num0 E n k).kuk.toFun i j = if j < num0 then k.toFun (up E i) j else 0 := by
  show (dropRows (sortDesc E) (k.filter fun e => decide (e.2.1 < num0))).toFun i j = _
  rw [toFun_dropRows, upD_sortDesc h,
    toFun_filter (fun e => decide (e.2.1 < num0)) k (up E i) j (fun _ c => decide (c < num0)) (fun _ => rfl)]
  simp

theorem kku_entry_aux (num0 n : Nat) (E : List Nat) (h : E.Pairwise (· < ·)) (k : Coo K) (i j : Nat) :
    (excludeDofsMatrix num0 E n k).kku.toFun i j = if i < num0 then k.toFun i (up E j) else 0 := by
  show (dropCols (sortDesc E) (k.filter fun e => decide (e.1 < num0))).toFun i j = _
  rw [toFun_dropCols, upD_sortDesc h,
    toFun_filter (fun e => decide (e.1 < num0)) k i (up E j) (fun r _ => decide (r < num0)) (fun _ => rfl)]
  simp

/-- entry of the block `[np.ix_(ex, ex)]` for a duplicate-free `ex` below `num0` -/
theorem toFun_takeBlock (num0 : Nat) (ex : List Nat) (hnd : ex.Nodup) (hnum : ∀ e ∈ ex, e < num0) (k : Coo K)
    (i j : Nat) :
    (takeBlock num0 ex k).toFun i j =
      if h : i < ex.length ∧ j < ex.length then k.toFun (ex[i]'h.1) (ex[j]'h.2) else 0 := by
  unfold takeBlock
  induction k with
  | nil => simp [Coo.toFun]
  | cons e l ih =>
    rw [List.filter_cons]
    by_cases hp : (decide (e.1 < num0) && decide (e.2.1 < num0) && decide (e.1 ∈ ex) && decide (e.2.1 ∈ ex)) = true
    · rw [if_pos hp, List.map_cons, toFun_cons, ih]
      simp only [Bool.and_eq_true, decide_eq_true_eq] at hp
      obtain ⟨⟨⟨_, _⟩, hr⟩, hc⟩ := hp
      by_cases h : i < ex.length ∧ j < ex.length
      · rw [dif_pos h, dif_pos h, toFun_cons]
        congr 1
        have e1 : ex.idxOf e.1 = i ↔ e.1 = ex[i]'h.1 := by
          constructor
          · intro hh; subst hh; simp
          · intro hh; rw [hh]; exact hnd.idxOf_getElem i h.1
        have e2 : ex.idxOf e.2.1 = j ↔ e.2.1 = ex[j]'h.2 := by
          constructor
          · intro hh; subst hh; simp
          · intro hh; rw [hh]; exact hnd.idxOf_getElem j h.2
        simp only [e1, e2]
      · rw [dif_neg h, dif_neg h, add_zero]
        have : ¬ (ex.idxOf e.1 = i ∧ ex.idxOf e.2.1 = j) := by
          rintro ⟨h1, h2⟩
          exact h ⟨h1 ▸ List.idxOf_lt_length_of_mem hr, h2 ▸ List.idxOf_lt_length_of_mem hc⟩
        rw [if_neg this]
    · rw [if_neg hp, ih]
      by_cases h : i < ex.length ∧ j < ex.length
      · rw [dif_pos h, dif_pos h, toFun_cons]
        have : ¬ (e.1 = ex[i]'h.1 ∧ e.2.1 = ex[j]'h.2) := by
          rintro ⟨h1, h2⟩
          apply hp
          have m1 : e.1 ∈ ex := h1 ▸ List.getElem_mem h.1
          have m2 : e.2.1 ∈ ex := h2 ▸ List.getElem_mem h.2
          simp [m1, m2, hnum _ m1, hnum _ m2]
        rw [if_neg this, zero_add]
      · rw [dif_neg h, dif_neg h]

/-- `kkk` is the prescribed-prescribed block `K[E, E]` (after the repair `fix: … returns the prescribed-prescribed
block as kkk`) -/
theorem kkk_entry_aux (num0 n : Nat) (E : List Nat) (h : E.Pairwise (· < ·)) (hnum : ∀ e ∈ E, e < num0) (k : Coo K)
    (i j : Nat) :
    (excludeDofsMatrix num0 E n k).kkk.toFun i j =
      if h : i < E.length ∧ j < E.length then k.toFun (E[i]'h.1) (E[j]'h.2) else 0 := by
  show (takeBlock num0 (sortAsc E) k).toFun i j = _
  rw [sortAsc_of_ascending h]
  exact toFun_takeBlock num0 E (h.imp (fun hab => Nat.ne_of_lt hab)) hnum k i j

theorem shapes_aux (num0 n : Nat) (E : List Nat) (k : Coo K) :
    let b := excludeDofsMatrix num0 E n k
    b.shapeUU = (n - E.length, n - E.length) ∧ b.shapeUK = (n - E.length, num0) ∧
      b.shapeKU = (num0, n - E.length) ∧ b.shapeKK = (E.length, E.length) := by
  simp [excludeDofsMatrix]

end blocks

/-! ## `calc_full_c` -/

section fullc
variable {K : Type} [Field K]
set_option linter.unusedSectionVars false

theorem zip_keys_sorted {E : List Nat} (ck : List K) (h : E.Pairwise (· < ·)) :
    (E.zip ck).Pairwise (fun a b => decide (a.1 ≤ b.1) = true) := by
  induction E generalizing ck with
  | nil => simp
  | cons e rest ih =>
    cases ck with
    | nil => simp
    | cons v vs =>
      rw [List.zip_cons_cons, List.pairwise_cons]
      rw [List.pairwise_cons] at h
      refine ⟨?_, ih vs h.2⟩
      intro q hq
      have : q.1 ∈ rest := (List.of_mem_zip hq).1
      simpa using Nat.le_of_lt (h.1 _ this)

theorem calcFullC_reduced (size : Nat) (E : List Nat) (ck : List K) (inc : K) (cu : List K)
    (hasc : E.Pairwise (· < ·)) (hne : cu.length ≠ size) :
    calcFullC size E ck inc cu = insAll (E.zip ck) inc cu := by
  unfold calcFullC insAll
  rw [if_neg hne, List.mergeSort_of_pairwise (zip_keys_sorted ck hasc)]

theorem map_fst_zip_eq {E : List Nat} {ck : List K} (h : ck.length = E.length) : (E.zip ck).map Prod.fst = E :=
  List.map_fst_zip (by omega)

theorem npDelete_eq_delAll {E : List Nat} (hasc : E.Pairwise (· < ·)) (v : List K) :
    npDelete E v = delAll E.reverse v := by
  unfold npDelete delAll; rw [sortDesc_of_ascending hasc]

/-- removing the prescribed amplitudes after re-inserting them gives the reduced vector back -/
theorem delete_fullC_aux (size : Nat) (E : List Nat) (ck : List K) (inc : K) (cu : List K)
    (hasc : E.Pairwise (· < ·)) (hck : ck.length = E.length) (hne : cu.length ≠ size) :
    npDelete E (calcFullC size E ck inc cu) = cu := by
  rw [calcFullC_reduced size E ck inc cu hasc hne, npDelete_eq_delAll hasc]
  have := delAll_insAll (E.zip ck) inc cu
  rwa [map_fst_zip_eq hck] at this

theorem fullC_free_aux (size : Nat) (E : List Nat) (ck : List K) (inc : K) (cu : List K)
    (hasc : E.Pairwise (· < ·)) (hck : ck.length = E.length) (hne : cu.length ≠ size) (p : Nat) :
    (calcFullC size E ck inc cu)[up E p]? = cu[p]? := by
  rw [calcFullC_reduced size E ck inc cu hasc hne]
  have := insAll_getElem?_up (E.zip ck) inc cu p
  rwa [map_fst_zip_eq hck] at this

theorem fullC_prescribed_aux (size : Nat) (E : List Nat) (ck : List K) (inc : K) (cu : List K)
    (hasc : E.Pairwise (· < ·)) (hck : ck.length = E.length) (hne : cu.length ≠ size)
    (hb : ∀ e ∈ E, e < cu.length + E.length) (q : Nat × K) (hq : q ∈ E.zip ck) :
    (calcFullC size E ck inc cu)[q.1]? = some (inc * q.2) := by
  rw [calcFullC_reduced size E ck inc cu hasc hne]
  have hlen : (E.zip ck).length = E.length := by simp [List.length_zip, hck]
  apply insAll_getElem?_mem (E.zip ck) inc cu
  · rw [map_fst_zip_eq hck]; exact hasc
  · rw [map_fst_zip_eq hck, hlen]; exact hb
  · exact hq

theorem fullC_length_aux (size : Nat) (E : List Nat) (ck : List K) (inc : K) (cu : List K)
    (hasc : E.Pairwise (· < ·)) (hck : ck.length = E.length) (hne : cu.length ≠ size)
    (hb : ∀ e ∈ E, e < cu.length + E.length) :
    (calcFullC size E ck inc cu).length = cu.length + E.length := by
  rw [calcFullC_reduced size E ck inc cu hasc hne]
  have hlen : (E.zip ck).length = E.length := by simp [List.length_zip, hck]
  have := insAll_length (E.zip ck) inc cu (by rw [map_fst_zip_eq hck]; exact hasc)
    (by rw [map_fst_zip_eq hck, hlen]; exact hb)
  rwa [hlen] at this

theorem foldl_modify_getElem? (E : List Nat) (hnd : E.Nodup) (inc : K) (c : List K) (i : Nat) :
    (E.foldl (fun c dof => c.modify dof (· * inc)) c)[i]? = (fun a => if i ∈ E then a * inc else a) <$> c[i]? := by
  induction E generalizing c with
  | nil => simp
  | cons d rest ih =>
    rw [List.nodup_cons] at hnd
    rw [List.foldl_cons, ih hnd.2, List.getElem?_modify]
    cases hc : c[i]? with
    | none => rfl
    | some a =>
      by_cases hdi : d = i
      · subst hdi; simp [hnd.1]
      · have : ¬ i = d := fun h => hdi h.symm
        simp [hdi, this]

/-- first branch of `calc_full_c`: a full-size vector has exactly its prescribed entries scaled by `inc` -/
theorem fullC_fullsize_aux (size : Nat) (E : List Nat) (hnd : E.Nodup) (ck : List K) (inc : K) (c : List K)
    (hsize : c.length = size) (i : Nat) :
    (calcFullC size E ck inc c)[i]? = (fun a => if i ∈ E then a * inc else a) <$> c[i]? := by
  unfold calcFullC; rw [if_pos hsize]; exact foldl_modify_getElem? E hnd inc c i

end fullc

/-! ## the reduced linear system -/

section reduced
variable {K : Type} [Field K]

theorem reduced_system_aux (num0 n : Nat) (E : List Nat) (ck : List K) (inc : K) (k : Coo K) (cu fu : List K)
    (hasc : E.Pairwise (· < ·)) (hb : ∀ e ∈ E, e < n) (hnum : ∀ e ∈ E, e < num0) (hck : ck.length = E.length)
    (hcu : cu.length + E.length = n) (hne : E ≠ [])
    (hsolve : ∀ i, i < cu.length →
      sumTo cu.length (fun j => (excludeDofsMatrix num0 E n k).kuu.toFun i j * cu.getD j 0) =
        fu.getD i 0 - ((E.zip ck).map fun q => (excludeDofsMatrix num0 E n k).kuk.toFun i q.1 * (inc * q.2)).sum) :
    ∀ i, i < cu.length →
      sumTo n (fun j => k.toFun (up E i) j * (calcFullC n E ck inc cu).getD j 0) = fu.getD i 0 := by
  intro i hi
  have hlenE : 0 < E.length := List.length_pos_of_ne_nil hne
  have hne' : cu.length ≠ n := by omega
  have hb' : ∀ e ∈ E, e < cu.length + E.length := by rw [hcu]; exact hb
  rw [sumTo_split E hasc n hb]
  have h1 : n - E.length = cu.length := by omega
  rw [h1]
  have hfree : (fun p => k.toFun (up E i) (up E p) * (calcFullC n E ck inc cu).getD (up E p) 0) =
      fun p => (excludeDofsMatrix num0 E n k).kuu.toFun i p * cu.getD p 0 := by
    funext p
    rw [kuu_entry_aux num0 n E hasc, List.getD_eq_getElem?_getD, fullC_free_aux n E ck inc cu hasc hck hne' p,
      ← List.getD_eq_getElem?_getD]
  rw [hfree, hsolve i hi]
  have hpres : (E.map fun j => k.toFun (up E i) j * (calcFullC n E ck inc cu).getD j 0) =
      (E.zip ck).map fun q => (excludeDofsMatrix num0 E n k).kuk.toFun i q.1 * (inc * q.2) := by
    have hE : ∀ g : Nat → K, E.map g = (E.zip ck).map (fun q => g q.1) := fun g => by
      conv_lhs => rw [← map_fst_zip_eq hck]
      rw [List.map_map]; rfl
    rw [hE]
    apply List.map_congr_left
    intro q hq
    have hqE : q.1 ∈ E := (List.of_mem_zip hq).1
    rw [kuk_entry_aux num0 n E hasc, if_pos (hnum _ hqE), List.getD_eq_getElem?_getD,
      fullC_prescribed_aux n E ck inc cu hasc hck hne' hb' q hq]
    rfl
  rw [hpres, sub_add_cancel]

end reduced


/-! ## `_rebuild`: geometry -/

section geometry
variable {K : Type} [Field K] [DecidableEq K]
set_option linter.unusedSimpArgs false

theorem truthy_some (x : K) : truthy (some x) = decide (x ≠ 0) := rfl
theorem truthy_none : truthy (none : Option K) = false := rfl

theorem truthy_false_iff (o : Option K) : truthy o = false ↔ o = none ∨ o = some 0 := by
  cases o with
  | none => simp [truthy]
  | some x => simp [truthy]

theorem truthy_true_iff (o : Option K) : truthy o = true ↔ ∃ x, o = some x ∧ x ≠ 0 := by
  cases o with
  | none => simp [truthy]
  | some x => simp [truthy]

theorem geomRadii_ok (r1 r2 L2 H3 : Option K) (s : K) (o : Geom K) (h : geomRadii r1 r2 L2 H3 s = .ok o) :
    L2 = some o.L ∧ H3 = some o.H ∧ o.r1 = o.r2 + o.L * s := by
  unfold geomRadii at h
  split_ifs at h with h2 h1
  · -- r2 falsy, r1 truthy
    rcases r1 with _ | a <;> rcases L2 with _ | l <;> rcases H3 with _ | hh <;> simp at h
    subst h; refine ⟨rfl, rfl, ?_⟩; ring
  · rcases r2 with _ | b <;> rcases L2 with _ | l <;> rcases H3 with _ | hh <;> simp at h
    subst h; exact ⟨rfl, rfl, rfl⟩

theorem geom_HL (g : GeomIn K) (s c : K) (hc : c ≠ 0) (hHL : ¬ (truthy g.H = true ∧ truthy g.L = true))
    (H1 : Option K) (h1 : geomH1 g s c = .ok H1) (l h : K)
    (hl : geomL2 H1 g.L c = some l) (hh : geomH3 (some l) H1 c = some h) : h = l * c := by
  unfold geomH1 at h1
  by_cases hH : truthy g.H = true
  · -- H given, so L is not
    have hL : truthy g.L = false := by
      cases hLL : truthy g.L with
      | false => rfl
      | true => exact absurd ⟨hH, hLL⟩ hHL
    simp only [hH, hL, Bool.not_true, Bool.false_and, Bool.false_eq_true, if_false] at h1
    injection h1 with h1
    obtain ⟨x, hx, hx0⟩ := (truthy_true_iff g.H).mp hH
    subst h1
    rw [hx] at hl hh
    have hl' : x / c = l := by
      rcases (truthy_false_iff g.L).mp hL with h0 | h0 <;> rw [h0] at hl <;>
        simpa [geomL2, truthy, hx0] using hl
    have hh' : x = h := by simpa [geomH3, truthy, hx0] using hh
    rw [← hh', ← hl']; field_simp
  · have hH' : truthy g.H = false := by simpa using hH
    by_cases hL : truthy g.L = true
    · simp only [hH', hL, Bool.not_true, Bool.and_false, Bool.false_eq_true, if_false] at h1
      injection h1 with h1
      subst h1
      obtain ⟨y, hy, hy0⟩ := (truthy_true_iff g.L).mp hL
      have hl' : y = l := by
        rw [hy] at hl
        rcases (truthy_false_iff g.H).mp hH' with h0 | h0 <;> rw [h0] at hl <;>
          simpa [geomL2, truthy] using hl
      have hl0 : l ≠ 0 := hl' ▸ hy0
      rcases (truthy_false_iff g.H).mp hH' with h0 | h0 <;> rw [h0] at hh <;>
        · have : l * c = h := by simpa [geomH3, truthy, hl0] using hh
          exact this.symm
    · have hL' : truthy g.L = false := by simpa using hL
      simp only [hH', hL', Bool.not_false, Bool.and_self, if_true] at h1
      rcases hr1 : g.r1 with _ | a
      · simp [hr1] at h1
      rcases hr2 : g.r2 with _ | b
      · simp [hr1, hr2] at h1
      simp only [hr1, hr2] at h1
      by_cases hz : s / c = 0
      · rw [if_pos hz] at h1; cases h1
      rw [if_neg hz] at h1
      injection h1 with h1
      subst h1
      by_cases hv : (a - b) / (s / c) = 0
      · -- H computed as 0: stays falsy
        have hl0 : l = 0 := by
          rcases (truthy_false_iff g.L).mp hL' with h0 | h0 <;> rw [h0] at hl <;>
            simp [geomL2, truthy, hv] at hl
          exact hl.symm
        have : (a - b) / (s / c) = h := by simpa [geomH3, truthy, hl0, hv] using hh
        rw [← this, hv, hl0]; ring
      · have hl' : (a - b) / (s / c) / c = l := by
          rcases (truthy_false_iff g.L).mp hL' with h0 | h0 <;> rw [h0] at hl <;>
            simpa [geomL2, truthy, hv] using hl
        have hh' : (a - b) / (s / c) = h := by simpa [geomH3, truthy, hv] using hh
        rw [← hh', ← hl']; field_simp

theorem geometry_consistent_aux (g : GeomIn K) (s c : K) (hc : c ≠ 0)
    (hHL : ¬ (truthy g.H = true ∧ truthy g.L = true)) (o : Geom K) (h : rebuildGeom g s c = .ok o) :
    o.r1 = o.r2 + o.L * s ∧ o.H = o.L * c := by
  unfold rebuildGeom at h
  cases h1 : geomH1 g s c with
  | error e => rw [h1] at h; simp at h
  | ok H1 =>
    rw [h1] at h
    simp only at h
    obtain ⟨hL, hH, hr⟩ := geomRadii_ok _ _ _ _ _ _ h
    refine ⟨hr, ?_⟩
    rw [hL] at hH
    exact geom_HL g s c hc hHL H1 h1 o.L o.H hL hH

theorem geomRadii_of_r2 (r1 : Option K) (b l h s : K) (hb : b ≠ 0) :
    geomRadii r1 (some b) (some l) (some h) s = .ok ⟨b + l * s, b, h, l⟩ := by
  unfold geomRadii; simp [truthy, hb]

theorem geomRadii_of_r1 (a l h s : K) (ha : a ≠ 0) :
    geomRadii (some a) none (some l) (some h) s = .ok ⟨a, a - l * s, h, l⟩ := by
  unfold geomRadii; simp [truthy, ha]

set_option maxHeartbeats 1000000 in
theorem geometry_subsets_agree_aux (r1 r2 H L s c : K) (hc : c ≠ 0) (h1 : r1 ≠ 0) (h2 : r2 ≠ 0) (hH : H ≠ 0)
    (hL : L ≠ 0) (hr : r1 = r2 + L * s) (hh : H = L * c) (b1 b2 bH bL : Bool)
    (hadm : (b1 = true ∨ b2 = true) ∧ (bH = true ∨ bL = true ∨ (b1 = true ∧ b2 = true ∧ s ≠ 0))) :
    rebuildGeom ⟨if b1 then some r1 else none, if b2 then some r2 else none, if bH then some H else none,
      if bL then some L else none⟩ s c = .ok ⟨r1, r2, H, L⟩ := by
  subst hr hh
  have hLc : L * c / c = L := by field_simp
  cases b1 <;> cases b2 <;> cases bH <;> cases bL <;>
    simp [rebuildGeom, geomH1, geomL2, geomH3, geomRadii_of_r2, geomRadii_of_r1, truthy, h1, h2, hH, hL, hc, hLc] at hadm ⊢
  have hv : L * s / (s / c) = L * c := by field_simp
  rw [if_neg hadm]
  simp [hv, hH, hLc, geomRadii_of_r2, h2, truthy]

/-- a radius / length given as `0.0` is treated exactly like one that was not given (Python truthiness) -/
theorem falsy_zero_is_absent_aux (r1 H L : Option K) (s c : K) :
    rebuildGeom ⟨r1, some 0, H, L⟩ s c = rebuildGeom ⟨r1, none, H, L⟩ s c ∨
      (∃ a, r1 = some a ∧ truthy H = false ∧ truthy L = false) := by
  by_cases hH : truthy H = true
  · left; simp [rebuildGeom, geomH1, hH]; unfold geomRadii; simp [truthy]
  · by_cases hL : truthy L = true
    · left; simp [rebuildGeom, geomH1, hL]; unfold geomRadii; simp [truthy]
    · rcases r1 with _ | a
      · left; simp [rebuildGeom, geomH1, hH, hL]
      · right; exact ⟨a, rfl, by simpa using hH, by simpa using hL⟩

end geometry

/-! ## `_rebuild`: loads -/

section loads
variable {K : Type} [Field K] [DecidableEq K]
set_option linter.unusedSectionVars false

theorem Nxxtop_from_Fc_aux (n2 : Nat) (Fc pi r2 cosa : K) (h2 : (2 : K) ≠ 0) (hpi : pi ≠ 0) (hr : r2 ≠ 0)
    (hc : cosa ≠ 0) (a : List K) (h : rebuildNxxtop n2 .none (some Fc) none none pi r2 cosa = .ok a) :
    a.getD 0 0 = Fc / (2 * pi * r2 * cosa) ∧ fcFromNxxtop (a.getD 0 0) pi r2 cosa = Fc ∧
      (∀ i, 0 < i → a.getD i 0 = 0) ∧ a.length = 2 * n2 + 1 := by
  simp only [rebuildNxxtop] at h
  injection h with h
  subst h
  have hz : (zeros (2 * n2 + 1) : List K) = 0 :: zeros (2 * n2) := by simp [zeros, List.replicate_succ]
  have h0 : (setIdx (zeros (2 * n2 + 1)) 0 (Fc / (2 * pi * r2 * cosa))) = Fc / (2 * pi * r2 * cosa) :: zeros (2 * n2) := by
    rw [hz]; simp [setIdx]
  rw [h0]
  refine ⟨by simp, ?_, ?_, by simp [zeros]⟩
  · simp only [List.getD_cons_zero, fcFromNxxtop]; field_simp
  · intro i hi
    obtain ⟨k, rfl⟩ : ∃ k, i = k + 1 := ⟨i - 1, by omega⟩
    simp [zeros, List.getD_eq_getElem?_getD, List.getElem?_replicate]
    split_ifs <;> rfl

theorem excludedDofs_admitted_aux (pdC pdT : Bool) (uTM thetaT LA : K) :
    ∃ E ck, excludedDofs pdC pdT true uTM thetaT LA = some (E, ck) ∧ E.Pairwise (· < ·) ∧ 2 ∈ E ∧
      ck.length = E.length ∧ (∀ e ∈ E, e < 3) ∧ (0 ∈ E ↔ pdC = true) ∧ (1 ∈ E ↔ pdT = true) ∧
      (E.zip ck).getLast? = some (2, LA) := by
  cases pdC <;> cases pdT <;> simp [excludedDofs]

theorem excludedDofs_pdLA_false_aux (pdC pdT : Bool) (uTM thetaT LA : K) :
    excludedDofs pdC pdT false uTM thetaT LA = none := by
  simp [excludedDofs]

end loads


/-! ## `calc_fext`: entry-wise closed form -/

section vecs
variable {K : Type} [Field K]
set_option linter.unusedSectionVars false
set_option linter.unusedSimpArgs false

theorem vecOf_length (n : Nat) (f : Nat → K) : (vecOf n f).length = n := by simp [vecOf]

theorem vecOf_getD (n : Nat) (f : Nat → K) (i : Nat) (hi : i < n) : (vecOf n f).getD i 0 = f i := by
  simp [vecOf, List.getD_eq_getElem?_getD, hi]

theorem vadd_length (a b : List K) : (vadd a b).length = a.length := by simp [vadd, vecOf_length]

theorem vadd_getD (a b : List K) (i : Nat) (hi : i < a.length) :
    (vadd a b).getD i 0 = a.getD i 0 + b.getD i 0 := by
  unfold vadd; rw [vecOf_getD _ _ _ hi]

theorem vsmul_getD (s : K) (a : List K) (i : Nat) : (vsmul s a).getD i 0 = s * a.getD i 0 := by
  simp only [vsmul, List.getD_eq_getElem?_getD, List.getElem?_map]
  cases a[i]? <;> simp

theorem foldl_vadd_length {α : Type} (xs : List α) (t : α → List K) (f0 : List K) :
    (xs.foldl (fun f p => vadd f (t p)) f0).length = f0.length := by
  induction xs generalizing f0 with
  | nil => rfl
  | cons x xs ih => rw [List.foldl_cons, ih, vadd_length]

theorem foldl_vadd_getD {α : Type} (xs : List α) (t : α → List K) (f0 : List K) (i : Nat) (hi : i < f0.length) :
    (xs.foldl (fun f p => vadd f (t p)) f0).getD i 0 = f0.getD i 0 + (xs.map fun p => (t p).getD i 0).sum := by
  induction xs generalizing f0 with
  | nil => simp
  | cons x xs ih =>
    rw [List.foldl_cons, ih _ (by rw [vadd_length]; exact hi), vadd_getD _ _ _ hi, List.map_cons, List.sum_cons,
      add_assoc]

theorem delAll_getElem? (E : List Nat) (v : List K) (i : Nat) : (delAll E.reverse v)[i]? = v[up E i]? := by
  induction E using List.reverseRecOn generalizing v with
  | nil => rfl
  | append_singleton init d ih =>
    rw [List.reverse_append, List.reverse_singleton, List.singleton_append]
    show (delAll init.reverse (v.eraseIdx d))[i]? = _
    rw [ih, List.getElem?_eraseIdx, up_append_singleton]
    unfold skip
    split_ifs <;> rfl

theorem npDelete_getD {E : List Nat} (hasc : E.Pairwise (· < ·)) (v : List K) (i : Nat) :
    (npDelete E v).getD i 0 = v.getD (up E i) 0 := by
  rw [npDelete_eq_delAll hasc, List.getD_eq_getElem?_getD, delAll_getElem?, ← List.getD_eq_getElem?_getD]

theorem delAll_length (E : List Nat) (hasc : E.Pairwise (· < ·)) (v : List K) (hb : ∀ e ∈ E, e < v.length) :
    (delAll E.reverse v).length = v.length - E.length := by
  induction E using List.reverseRecOn generalizing v with
  | nil => rfl
  | append_singleton init d ih =>
    rw [List.pairwise_append] at hasc
    obtain ⟨h1, _, h3⟩ := hasc
    have hd : d < v.length := hb d (by simp)
    rw [List.reverse_append, List.reverse_singleton, List.singleton_append]
    show (delAll init.reverse (v.eraseIdx d)).length = _
    have hlen : (v.eraseIdx d).length = v.length - 1 := by rw [List.length_eraseIdx, if_pos hd]
    rw [ih h1 _ (fun e he => by have := h3 e he d (by simp); rw [hlen]; omega), hlen]
    simp; omega

theorem npDelete_length {E : List Nat} (hasc : E.Pairwise (· < ·)) (v : List K) (hb : ∀ e ∈ E, e < v.length) :
    (npDelete E v).length = v.length - E.length := by
  rw [npDelete_eq_delAll hasc, delAll_length E hasc v hb]

theorem column_getD [DecidableEq K] (l : Coo K) (rows j i : Nat) (hi : i < rows) :
    (l.column rows j).getD i 0 = l.toFun i j := by
  unfold Coo.column; rw [vecOf_getD _ _ _ hi]

theorem zeros_getD (n i : Nat) : (zeros n : List K).getD i 0 = 0 := by
  simp [zeros, List.getD_eq_getElem?_getD, List.getElem?_replicate]
  split_ifs <;> rfl

theorem zeros_length (n : Nat) : (zeros n : List K).length = n := by simp [zeros]

theorem addAt_length (l : List K) (k : Nat) (v : K) : (addAt l k v).length = l.length := by simp [addAt]

theorem addAt_getD (l : List K) (k : Nat) (v : K) (q : Nat) (hq : q < l.length) :
    (addAt l k v).getD q 0 = l.getD q 0 + (if q = k then v else 0) := by
  unfold addAt
  rw [List.getD_eq_getElem?_getD, List.getElem?_modify, List.getD_eq_getElem?_getD, List.getElem?_eq_getElem hq]
  by_cases h : k = q
  · subst h; simp
  · have : ¬ q = k := fun e => h e.symm
    simp [h, this]


/-- a loop body that keeps the length `n` and adds `δ x q` to every entry `q` -/
def IsAddStep {α : Type} (n : Nat) (step : List K → α → List K) (δ : α → Nat → K) : Prop :=
  ∀ acc x, acc.length = n → (step acc x).length = n ∧ ∀ q, q < n → (step acc x).getD q 0 = acc.getD q 0 + δ x q

theorem foldl_addStep {α : Type} (n : Nat) (step : List K → α → List K) (δ : α → Nat → K)
    (h : IsAddStep n step δ) (xs : List α) (t : List K) (ht : t.length = n) :
    (xs.foldl step t).length = n ∧
      ∀ q, q < n → (xs.foldl step t).getD q 0 = t.getD q 0 + (xs.map fun x => δ x q).sum := by
  induction xs generalizing t with
  | nil => exact ⟨ht, fun q _ => by simp⟩
  | cons x xs ih =>
    obtain ⟨hl, hv⟩ := h t x ht
    obtain ⟨hl2, hv2⟩ := ih (step t x) hl
    refine ⟨hl2, fun q hq => ?_⟩
    rw [List.foldl_cons, hv2 q hq, hv q hq, List.map_cons, List.sum_cons, add_assoc]

theorem addAt_isAddStep {α : Type} (n : Nat) (idx : α → Nat) (val : α → K) :
    IsAddStep n (fun acc x => addAt acc (idx x) (val x)) (fun x q => if q = idx x then val x else 0) := by
  intro acc x hacc
  refine ⟨by rw [addAt_length, hacc], fun q hq => ?_⟩
  exact addAt_getD acc (idx x) (val x) q (by rw [hacc]; exact hq)

end vecs

section fextspec
variable {K : Type} [Field K] [DecidableEq K]
set_option linter.unusedSectionVars false
set_option linter.unusedSimpArgs false

/-- first amplitude of the pair `(i2, j2) = (i0 + di, j0 + dj)` of the second set -/
def rowOf (a : FextIn K) (di dj : Nat) : Nat := a.num0 + a.num1 * a.m1 + di * a.num2 + dj * a.num2 * a.m2

/-- closed form of entry `q` of the scratch vector `fext_tmp` -/
def tmpSpec (a : FextIn K) (Ptot : K) (q : Nat) : K :=
  (if 0 ∉ a.E then
    (if q = 0 then a.inc * a.Nxxtop.getD 0 0 * (2 * a.pi * a.r2) / a.cosa else 0)
    + (if a.bc24 then
        ((List.range a.n2).map fun dj => ((List.range a.m2).map fun di =>
          (if q = rowOf a di dj + 0 then a.inc * a.Nxxtop.getD (1 + 2 * dj + 0) 0 * a.pi * a.r2 else 0)
          + (if q = rowOf a di dj + 1 then a.inc * a.Nxxtop.getD (1 + 2 * dj + 1) 0 * a.pi * a.r2 else 0)).sum).sum
      else 0)
   else 0)
  + (if 2 ∉ a.E then (if q = 2 then a.inc * a.Nxxtop.getD 2 0 * (2 * a.pi * a.r2) / a.cosa else 0) else 0)
  + (if a.clpt then
      ((List.range a.m1).map fun di =>
        if a.i0 + di ≠ 0 ∧ q = a.num0 + di * a.num1 + 2 then Ptot * pressureCoef a.L a.r2 a.sina (a.i0 + di) else 0).sum
     else 0)

theorem fextTmp_spec (a : FextIn K) (Ptot : K) :
    (fextTmp a Ptot).length = a.size ∧ ∀ q, q < a.size → (fextTmp a Ptot).getD q 0 = tmpSpec a Ptot q := by
  -- axial part
  let nxx := fun i => a.inc * a.Nxxtop.getD i 0
  have hinner : ∀ dj, IsAddStep a.size
      (fun acc di => addAt (addAt acc (rowOf a di dj + 0) (nxx (1 + 2 * dj + 0) * a.pi * a.r2)) (rowOf a di dj + 1)
        (nxx (1 + 2 * dj + 1) * a.pi * a.r2))
      (fun di q => (if q = rowOf a di dj + 0 then nxx (1 + 2 * dj + 0) * a.pi * a.r2 else 0)
        + (if q = rowOf a di dj + 1 then nxx (1 + 2 * dj + 1) * a.pi * a.r2 else 0)) := by
    intro dj acc di hacc
    have l1 : (addAt acc (rowOf a di dj + 0) (nxx (1 + 2 * dj + 0) * a.pi * a.r2)).length = a.size := by
      rw [addAt_length, hacc]
    refine ⟨by rw [addAt_length, l1], fun q hq => ?_⟩
    rw [addAt_getD _ _ _ _ (by rw [l1]; exact hq), addAt_getD _ _ _ _ (by rw [hacc]; exact hq), add_assoc]
  have houter : IsAddStep a.size
      (fun acc dj => (List.range a.m2).foldl (fun acc di =>
        addAt (addAt acc (rowOf a di dj + 0) (nxx (1 + 2 * dj + 0) * a.pi * a.r2)) (rowOf a di dj + 1)
          (nxx (1 + 2 * dj + 1) * a.pi * a.r2)) acc)
      (fun dj q => ((List.range a.m2).map fun di =>
        (if q = rowOf a di dj + 0 then nxx (1 + 2 * dj + 0) * a.pi * a.r2 else 0)
        + (if q = rowOf a di dj + 1 then nxx (1 + 2 * dj + 1) * a.pi * a.r2 else 0)).sum) := by
    intro acc dj hacc
    exact foldl_addStep a.size _ _ (hinner dj) (List.range a.m2) acc hacc
  have hpress : IsAddStep a.size
      (fun acc di => if a.i0 + di = 0 then acc
        else addAt acc (a.num0 + di * a.num1 + 2) (Ptot * pressureCoef a.L a.r2 a.sina (a.i0 + di)))
      (fun di q => if a.i0 + di ≠ 0 ∧ q = a.num0 + di * a.num1 + 2
        then Ptot * pressureCoef a.L a.r2 a.sina (a.i0 + di) else 0) := by
    intro acc di hacc
    by_cases h0 : a.i0 + di = 0
    · simp only [h0, if_true, ne_eq, not_true_eq_false, false_and, if_false, add_zero]
      exact ⟨hacc, fun _ _ => trivial⟩
    · simp only [h0, if_false, ne_eq, not_false_eq_true, true_and]
      refine ⟨by rw [addAt_length, hacc], fun q hq => ?_⟩
      exact addAt_getD _ _ _ _ (by rw [hacc]; exact hq)
  -- the stages of the construction
  have f0 : (zeros a.size : List K).length = a.size := zeros_length _
  have fb : (addAt (zeros a.size) 0 (nxx 0 * (2 * a.pi * a.r2) / a.cosa)).length = a.size := by
    rw [addAt_length, f0]
  have fbv : ∀ q, q < a.size → (addAt (zeros a.size) 0 (nxx 0 * (2 * a.pi * a.r2) / a.cosa)).getD q 0 =
      (if q = 0 then nxx 0 * (2 * a.pi * a.r2) / a.cosa else 0) := by
    intro q hq
    rw [addAt_getD _ _ _ _ (by rw [f0]; exact hq), zeros_getD, zero_add]
  -- t1
  obtain ⟨t1, ht1def, ht1l, ht1v⟩ : ∃ t1 : List K,
      t1 = (if 0 ∉ a.E then
              (if a.bc24 then
                (List.range a.n2).foldl (fun acc dj => (List.range a.m2).foldl (fun acc di =>
                  addAt (addAt acc (rowOf a di dj + 0) (nxx (1 + 2 * dj + 0) * a.pi * a.r2)) (rowOf a di dj + 1)
                    (nxx (1 + 2 * dj + 1) * a.pi * a.r2)) acc)
                  (addAt (zeros a.size) 0 (nxx 0 * (2 * a.pi * a.r2) / a.cosa))
               else addAt (zeros a.size) 0 (nxx 0 * (2 * a.pi * a.r2) / a.cosa))
            else zeros a.size) ∧ t1.length = a.size ∧
      ∀ q, q < a.size → t1.getD q 0 =
        (if 0 ∉ a.E then
          (if q = 0 then nxx 0 * (2 * a.pi * a.r2) / a.cosa else 0)
          + (if a.bc24 then
              ((List.range a.n2).map fun dj => ((List.range a.m2).map fun di =>
                (if q = rowOf a di dj + 0 then nxx (1 + 2 * dj + 0) * a.pi * a.r2 else 0)
                + (if q = rowOf a di dj + 1 then nxx (1 + 2 * dj + 1) * a.pi * a.r2 else 0)).sum).sum
            else 0)
         else 0) := by
    refine ⟨_, rfl, ?_, ?_⟩
    · by_cases h0 : 0 ∉ a.E
      · rw [if_pos h0]
        by_cases hb : a.bc24 = true
        · rw [if_pos hb]; exact (foldl_addStep a.size _ _ houter _ _ fb).1
        · rw [if_neg hb]; exact fb
      · rw [if_neg h0]; exact f0
    · intro q hq
      by_cases h0 : 0 ∉ a.E
      · rw [if_pos h0, if_pos h0]
        by_cases hb : a.bc24 = true
        · rw [if_pos hb, if_pos hb, (foldl_addStep a.size _ _ houter _ _ fb).2 q hq, fbv q hq]
        · rw [if_neg hb, if_neg hb, fbv q hq, add_zero]
      · rw [if_neg h0, if_neg h0, zeros_getD]
  -- t2
  obtain ⟨t2, ht2def, ht2l, ht2v⟩ : ∃ t2 : List K,
      t2 = (if 2 ∉ a.E then addAt t1 2 (nxx 2 * (2 * a.pi * a.r2) / a.cosa) else t1) ∧ t2.length = a.size ∧
      ∀ q, q < a.size → t2.getD q 0 = t1.getD q 0 +
        (if 2 ∉ a.E then (if q = 2 then nxx 2 * (2 * a.pi * a.r2) / a.cosa else 0) else 0) := by
    refine ⟨_, rfl, ?_, ?_⟩
    · by_cases h2 : 2 ∉ a.E
      · rw [if_pos h2, addAt_length, ht1l]
      · rw [if_neg h2, ht1l]
    · intro q hq
      by_cases h2 : 2 ∉ a.E
      · rw [if_pos h2, if_pos h2, addAt_getD _ _ _ _ (by rw [ht1l]; exact hq)]
      · rw [if_neg h2, if_neg h2, add_zero]
  have hdef : fextTmp a Ptot =
      if Ptot ≠ 0 ∧ a.clpt then
        (List.range a.m1).foldl (fun acc di => if a.i0 + di = 0 then acc
          else addAt acc (a.num0 + di * a.num1 + 2) (Ptot * pressureCoef a.L a.r2 a.sina (a.i0 + di))) t2
      else t2 := by
    rw [ht2def, ht1def]; rfl
  rw [hdef]
  by_cases hP : Ptot ≠ 0 ∧ a.clpt
  · rw [if_pos hP]
    obtain ⟨hl, hv⟩ := foldl_addStep a.size _ _ hpress (List.range a.m1) t2 ht2l
    refine ⟨hl, fun q hq => ?_⟩
    rw [hv q hq, ht2v q hq, ht1v q hq]
    unfold tmpSpec
    simp only [hP.2, if_true]
    rfl
  · rw [if_neg hP]
    refine ⟨ht2l, fun q hq => ?_⟩
    rw [ht2v q hq, ht1v q hq]
    unfold tmpSpec
    by_cases hc : a.clpt = true
    · have hP0 : Ptot = 0 := by
        by_contra h; exact hP ⟨h, hc⟩
      simp only [hc, if_true, hP0, zero_mul, ite_self, List.map_const', List.sum_replicate, smul_zero, add_zero]
      rfl
    · simp only [hc, Bool.false_eq_true, if_false, add_zero]
      rfl


/-- entry `q` of row `r` of the array written by `fg` -/
def rowAt (g : List (List K)) (r q : Nat) : K := (g.getD r []).getD q 0

/-- `f · (u, v, w)`-shape functions of FULL amplitude `q` at the point of the force -/
def pointRow (f : PointForce K) (q : Nat) : K := f.fx * rowAt f.g 0 q + f.ft * rowAt f.g 1 q + f.fz * rowAt f.g 2 q

/-- shape of the data `calc_fext` is called with -/
structure WF (a : FextIn K) : Prop where
  asc : a.E.Pairwise (· < ·)
  bound : ∀ e ∈ a.E, e < a.size
  dofs : a.dofs = 3 ∨ a.dofs = 5
  forces : ∀ f ∈ a.forces ++ a.forcesInc, f.g.length = a.dofs ∧ ∀ row ∈ f.g, row.length = a.size
  g00 : a.g00.length = a.dofs ∧ ∀ row ∈ a.g00, row.length = a.size

theorem pointTerm_spec (E : List Nat) (hasc : E.Pairwise (· < ·)) (size dofs : Nat) (hb : ∀ e ∈ E, e < size)
    (hd : dofs = 3 ∨ dofs = 5) (sc : K) (f : PointForce K)
    (hg : f.g.length = dofs ∧ ∀ row ∈ f.g, row.length = size) :
    (pointTerm E dofs sc f).length = size - E.length ∧
      ∀ i, i < size - E.length → (pointTerm E dofs sc f).getD i 0 = sc * pointRow f (up E i) := by
  obtain ⟨hlen, hrows⟩ := hg
  have hnu : ∀ row ∈ f.g, (npDelete E row).length = size - E.length := fun row hr => by
    rw [npDelete_length hasc row (by rw [hrows row hr]; exact hb), hrows row hr]
  rcases hd with hd | hd
  · subst hd
    obtain ⟨g0, g1, g2, hgeq⟩ : ∃ g0 g1 g2, f.g = [g0, g1, g2] := by
      rcases hfg : f.g with _ | ⟨g0, _ | ⟨g1, _ | ⟨g2, _ | ⟨g3, r⟩⟩⟩⟩ <;> rw [hfg] at hlen <;> simp at hlen
      exact ⟨g0, g1, g2, rfl⟩
    have h0 := hnu g0 (by rw [hgeq]; simp)
    unfold pointTerm
    simp only [hgeq, List.map_cons, List.map_nil, List.headD_cons, if_true, h0, vecOf_length, true_and]
    intro i hi
    rw [vecOf_getD _ _ _ hi]
    simp only [List.zipWith_cons_cons, List.zipWith_nil_right, List.sum_cons, List.sum_nil, add_zero,
      npDelete_getD hasc]
    unfold pointRow rowAt
    simp only [hgeq, List.getD_cons_zero, List.getD_cons_succ]
    ring
  · subst hd
    obtain ⟨g0, g1, g2, g3, g4, hgeq⟩ : ∃ g0 g1 g2 g3 g4, f.g = [g0, g1, g2, g3, g4] := by
      rcases hfg : f.g with _ | ⟨g0, _ | ⟨g1, _ | ⟨g2, _ | ⟨g3, _ | ⟨g4, _ | ⟨g5, r⟩⟩⟩⟩⟩⟩ <;> rw [hfg] at hlen <;>
        simp at hlen
      exact ⟨g0, g1, g2, g3, g4, rfl⟩
    have h0 := hnu g0 (by rw [hgeq]; simp)
    unfold pointTerm
    simp only [hgeq, List.map_cons, List.map_nil, List.headD_cons, h0, vecOf_length, true_and,
      show ¬ (5 = 3) by omega, if_false]
    intro i hi
    rw [vecOf_getD _ _ _ hi]
    simp only [List.zipWith_cons_cons, List.zipWith_nil_right, List.sum_cons, List.sum_nil, add_zero,
      npDelete_getD hasc]
    unfold pointRow rowAt
    simp only [hgeq, List.getD_cons_zero, List.getD_cons_succ]
    ring

/-- closed form of entry `i` of `calc_fext(inc)` before the load-asymmetry block -/
def fextSpecCore (a : FextIn K) (i : Nat) : K :=
  (a.forces.map fun f => pointRow f (up a.E i)).sum + a.inc * (a.forcesInc.map fun f => pointRow f (up a.E i)).sum
  + tmpSpec a (a.P + a.inc * a.Pinc) (up a.E i)
  - (if 0 ∈ a.E then a.inc * a.uTM * a.k0uk.toFun i 0 else 0)
  + (if a.pdT then -(a.inc * a.thetaT * a.k0uk.toFun i 1)
     else (a.T + a.inc * a.Tinc) / a.r2 * rowAt a.g00 1 (up a.E i))


theorem up_lt_size {E : List Nat} (hasc : E.Pairwise (· < ·)) (size : Nat) (hb : ∀ e ∈ E, e < size) (i : Nat)
    (hi : i < size - E.length) : up E i < size := by
  induction E using List.reverseRecOn generalizing size i with
  | nil => simpa [up] using hi
  | append_singleton init d ih =>
    rw [List.pairwise_append] at hasc
    obtain ⟨h1, _, h3⟩ := hasc
    have hd : d < size := hb d (by simp)
    have hlen : (init ++ [d]).length = init.length + 1 := by simp
    rw [hlen] at hi
    have := ih h1 (size - 1) (fun e he => by have := h3 e he d (by simp); omega) i (by omega)
    rw [up_append_singleton]
    unfold skip; split_ifs <;> omega

theorem calcFextCore_spec (a : FextIn K) (hw : WF a) (f : List K) (h : calcFextCore a = .ok f) :
    f.length = a.size - a.E.length ∧ ∀ i, i < a.size - a.E.length → f.getD i 0 = fextSpecCore a i := by
  obtain ⟨hasc, hb, hd, hforces, hg00⟩ := hw
  set nu := a.size - a.E.length with hnu
  -- the pieces
  have l0 : (npDelete a.E (zeros a.size : List K)).length = nu := by
    rw [npDelete_length hasc _ (by rw [zeros_length]; exact hb), zeros_length]
  have v0 : ∀ i, (npDelete a.E (zeros a.size : List K)).getD i 0 = 0 := fun i => by
    rw [npDelete_getD hasc, zeros_getD]
  have hpt : ∀ sc : K, ∀ p ∈ a.forces ++ a.forcesInc, ∀ i, i < nu →
      (pointTerm a.E a.dofs sc p).getD i 0 = sc * pointRow p (up a.E i) := fun sc p hp i hi =>
    (pointTerm_spec a.E hasc a.size a.dofs hb hd sc p (hforces p hp)).2 i hi
  -- f1, f2
  have l1 : (a.forces.foldl (fun f p => vadd f (pointTerm a.E a.dofs 1 p)) (npDelete a.E (zeros a.size))).length = nu := by
    rw [foldl_vadd_length, l0]
  have v1 : ∀ i, i < nu →
      (a.forces.foldl (fun f p => vadd f (pointTerm a.E a.dofs 1 p)) (npDelete a.E (zeros a.size))).getD i 0 =
        (a.forces.map fun p => pointRow p (up a.E i)).sum := by
    intro i hi
    rw [foldl_vadd_getD _ _ _ _ (by rw [l0]; exact hi), v0, zero_add]
    congr 1
    apply List.map_congr_left
    intro p hp
    rw [hpt 1 p (List.mem_append_left _ hp) i hi, one_mul]
  set f1 := a.forces.foldl (fun f p => vadd f (pointTerm a.E a.dofs 1 p)) (npDelete a.E (zeros a.size)) with hf1
  have l2 : (a.forcesInc.foldl (fun f p => vadd f (pointTerm a.E a.dofs a.inc p)) f1).length = nu := by
    rw [foldl_vadd_length, l1]
  have v2 : ∀ i, i < nu → (a.forcesInc.foldl (fun f p => vadd f (pointTerm a.E a.dofs a.inc p)) f1).getD i 0 =
      (a.forces.map fun p => pointRow p (up a.E i)).sum
        + a.inc * (a.forcesInc.map fun p => pointRow p (up a.E i)).sum := by
    intro i hi
    rw [foldl_vadd_getD _ _ _ _ (by rw [l1]; exact hi), v1 i hi]
    congr 1
    rw [← List.sum_map_mul_left]
    congr 1
    apply List.map_congr_left
    intro p hp
    rw [hpt a.inc p (List.mem_append_right _ hp) i hi]
  set f2 := a.forcesInc.foldl (fun f p => vadd f (pointTerm a.E a.dofs a.inc p)) f1 with hf2
  -- f3
  set f3 := (if 0 ∉ a.E then f2 else vadd f2 (vsmul (-(a.inc * a.uTM)) (a.k0uk.column nu 0))) with hf3
  have l3 : f3.length = nu := by
    rw [hf3]
    by_cases h0 : 0 ∉ a.E
    · rw [if_pos h0]; exact l2
    · rw [if_neg h0, vadd_length, l2]
  have v3 : ∀ i, i < nu → f3.getD i 0 = f2.getD i 0 - (if 0 ∈ a.E then a.inc * a.uTM * a.k0uk.toFun i 0 else 0) := by
    intro i hi
    rw [hf3]
    by_cases h0 : 0 ∈ a.E
    · rw [if_neg (not_not.mpr h0), if_pos h0, vadd_getD _ _ _ (by rw [l2]; exact hi), vsmul_getD,
        column_getD _ _ _ _ hi]
      ring
    · rw [if_pos h0, if_neg h0, sub_zero]
  -- unfold the definition
  unfold calcFextCore at h
  simp only [] at h
  rw [← hnu, ← hf1, ← hf2, ← hf3] at h
  split_ifs at h with herr hT hT0
  all_goals (injection h with h; subst h)
  all_goals
    have l4 : (vadd f3 (npDelete a.E (fextTmp a (a.P + a.inc * a.Pinc)))).length = nu := by rw [vadd_length, l3]
    have v4 : ∀ i, i < nu → (vadd f3 (npDelete a.E (fextTmp a (a.P + a.inc * a.Pinc)))).getD i 0 =
        f3.getD i 0 + tmpSpec a (a.P + a.inc * a.Pinc) (up a.E i) := by
      intro i hi
      rw [vadd_getD _ _ _ (by rw [l3]; exact hi), npDelete_getD hasc,
        (fextTmp_spec a (a.P + a.inc * a.Pinc)).2 _ (up_lt_size hasc a.size hb i hi)]
  · -- pdT
    refine ⟨by rw [vadd_length, l4], fun i hi => ?_⟩
    rw [vadd_getD _ _ _ (by rw [l4]; exact hi), v4 i hi, v3 i hi, v2 i hi, vsmul_getD, column_getD _ _ _ _ hi]
    unfold fextSpecCore
    rw [if_pos hT]
    ring
  · -- torque as a point force
    refine ⟨by rw [vadd_length, l4], fun i hi => ?_⟩
    rw [vadd_getD _ _ _ (by rw [l4]; exact hi), v4 i hi, v3 i hi, v2 i hi,
      (pointTerm_spec a.E hasc a.size a.dofs hb hd 1 ⟨0, (a.T + a.inc * a.Tinc) / a.r2, 0, a.g00⟩ hg00).2 i hi]
    unfold fextSpecCore pointRow
    rw [if_neg hT]
    ring
  · refine ⟨l4, fun i hi => ?_⟩
    rw [v4 i hi, v3 i hi, v2 i hi]
    unfold fextSpecCore
    have : a.T + a.inc * a.Tinc = 0 := by simpa using hT0
    rw [if_neg hT, this]
    ring

/-- closed form of entry `i` of `calc_fext(inc)`: the core plus the load-asymmetry term `−inc·LA·K_uk[i, 2]` -/
def fextSpec (a : FextIn K) (i : Nat) : K :=
  fextSpecCore a i - (if 2 ∈ a.E then a.inc * a.LA * a.k0uk.toFun i 2 else 0)

theorem calcFext_spec (a : FextIn K) (hw : WF a) (f : List K) (h : calcFext a = .ok f) :
    f.length = a.size - a.E.length ∧ ∀ i, i < a.size - a.E.length → f.getD i 0 = fextSpec a i := by
  unfold calcFext at h
  cases hc : calcFextCore a with
  | error e => rw [hc] at h; simp at h
  | ok g =>
    rw [hc] at h
    obtain ⟨hl, hv⟩ := calcFextCore_spec a hw g hc
    simp only [] at h
    split_ifs at h with hLA
    · injection h with h; subst h
      refine ⟨by rw [vadd_length, hl], fun i hi => ?_⟩
      rw [vadd_getD _ _ _ (by rw [hl]; exact hi), hv i hi, vsmul_getD, column_getD _ _ _ _ hi]
      unfold fextSpec
      rw [if_pos hLA.1]
      ring
    · injection h with h; subst h
      refine ⟨hl, fun i hi => ?_⟩
      rw [hv i hi]
      unfold fextSpec
      by_cases h2 : 2 ∈ a.E
      · have : a.LA = 0 := by
          by_contra hne
          exact hLA ⟨h2, hne⟩
        rw [if_pos h2, this]; ring
      · rw [if_neg h2, sub_zero]

end fextspec

/-! ## `calc_fext`: load factor, superposition, virtual work -/

section lin
variable {K : Type} [Field K] [DecidableEq K]
set_option linter.unusedSectionVars false
set_option linter.unusedSimpArgs false

/-- shape of the axial edge load in `fext_tmp`, per unit load factor (depends on `Nxxtop` linearly) -/
def axShape (a : FextIn K) (q : Nat) : K :=
  (if 0 ∉ a.E then
    (if q = 0 then a.Nxxtop.getD 0 0 * (2 * a.pi * a.r2) / a.cosa else 0)
    + (if a.bc24 then
        ((List.range a.n2).map fun dj => ((List.range a.m2).map fun di =>
          (if q = rowOf a di dj + 0 then a.Nxxtop.getD (1 + 2 * dj + 0) 0 * a.pi * a.r2 else 0)
          + (if q = rowOf a di dj + 1 then a.Nxxtop.getD (1 + 2 * dj + 1) 0 * a.pi * a.r2 else 0)).sum).sum
      else 0)
   else 0)
  + (if 2 ∉ a.E then (if q = 2 then a.Nxxtop.getD 2 0 * (2 * a.pi * a.r2) / a.cosa else 0) else 0)

/-- shape of a unit pressure in `fext_tmp` -/
def prShape (a : FextIn K) (q : Nat) : K :=
  if a.clpt then
    ((List.range a.m1).map fun di =>
      if a.i0 + di ≠ 0 ∧ q = a.num0 + di * a.num1 + 2 then pressureCoef a.L a.r2 a.sina (a.i0 + di) else 0).sum
  else 0

theorem tmpSpec_eq (a : FextIn K) (Ptot : K) (q : Nat) :
    tmpSpec a Ptot q = a.inc * axShape a q + Ptot * prShape a q := by
  have e1 : ∀ x : K, a.inc * x * a.pi * a.r2 = a.inc * (x * a.pi * a.r2) := fun x => by ring
  have e2 : ∀ x : K, a.inc * x * (2 * a.pi * a.r2) / a.cosa = a.inc * (x * (2 * a.pi * a.r2) / a.cosa) :=
    fun x => by ring
  unfold tmpSpec axShape prShape
  simp only [e1, e2, mul_add, mul_ite_zero, ← List.sum_map_mul_left]

/-- `Σ_forces f · shape functions` at full amplitude `q` -/
def ptShape (fs : List (PointForce K)) (q : Nat) : K := (fs.map fun f => pointRow f q).sum

/-- part of entry `i` of `calc_fext` that does not depend on the load factor: constant point forces, `P`, `T` -/
def constPart (a : FextIn K) (i : Nat) : K :=
  ptShape a.forces (up a.E i) + a.P * prShape a (up a.E i)
  + (if a.pdT then 0 else a.T / a.r2 * rowAt a.g00 1 (up a.E i))

/-- part of entry `i` of `calc_fext` that is multiplied by the load factor: incremented point forces, the axial
edge load `Nxxtop`, `P_inc`, `T_inc`, and the prescribed end shortening `uTM` / end rotation `thetaTrad` -/
def incPart (a : FextIn K) (i : Nat) : K :=
  ptShape a.forcesInc (up a.E i) + axShape a (up a.E i) + a.Pinc * prShape a (up a.E i)
  - (if 0 ∈ a.E then a.uTM * a.k0uk.toFun i 0 else 0)
  + (if a.pdT then -(a.thetaT * a.k0uk.toFun i 1) else a.Tinc / a.r2 * rowAt a.g00 1 (up a.E i))
  - (if 2 ∈ a.E then a.LA * a.k0uk.toFun i 2 else 0)

theorem fextSpec_eq_const_inc (a : FextIn K) (i : Nat) : fextSpec a i = constPart a i + a.inc * incPart a i := by
  unfold fextSpec fextSpecCore constPart incPart ptShape
  rw [tmpSpec_eq]
  by_cases h0 : 0 ∈ a.E <;> by_cases hT : a.pdT = true <;> by_cases h2 : 2 ∈ a.E <;>
    simp only [h0, hT, h2, if_true, if_false, Bool.false_eq_true] <;> ring

/-- the loads `calc_fext` reads -/
structure Loads (K : Type) where
  forces : List (PointForce K)
  forcesInc : List (PointForce K)
  Nxxtop : List K
  P : K
  Pinc : K
  T : K
  Tinc : K
  uTM : K
  thetaT : K
  LA : K

/-- the same shell / model / prescribed set, other loads -/
def withLoads (fr : FextIn K) (ld : Loads K) : FextIn K :=
  { fr with forces := ld.forces, forcesInc := ld.forcesInc, Nxxtop := ld.Nxxtop, P := ld.P, Pinc := ld.Pinc,
            T := ld.T, Tinc := ld.Tinc, uTM := ld.uTM, thetaT := ld.thetaT, LA := ld.LA }

/-- entry-wise sum of two arrays, the shorter one padded with zeros -/
def vaddMax (x y : List K) : List K := vecOf (max x.length y.length) fun i => x.getD i 0 + y.getD i 0

def scaleForce (c : K) (f : PointForce K) : PointForce K := ⟨c * f.fx, c * f.ft, c * f.fz, f.g⟩

/-- superposition of two load sets (point forces are collected, everything else adds) -/
def Loads.add (x y : Loads K) : Loads K :=
  ⟨x.forces ++ y.forces, x.forcesInc ++ y.forcesInc, vaddMax x.Nxxtop y.Nxxtop, x.P + y.P, x.Pinc + y.Pinc,
   x.T + y.T, x.Tinc + y.Tinc, x.uTM + y.uTM, x.thetaT + y.thetaT, x.LA + y.LA⟩

/-- a load set scaled by `c` -/
def Loads.smul (x : Loads K) (c : K) : Loads K :=
  ⟨x.forces.map (scaleForce c), x.forcesInc.map (scaleForce c), x.Nxxtop.map (c * ·), c * x.P, c * x.Pinc,
   c * x.T, c * x.Tinc, c * x.uTM, c * x.thetaT, c * x.LA⟩

theorem vaddMax_getD (x y : List K) (i : Nat) : (vaddMax x y).getD i 0 = x.getD i 0 + y.getD i 0 := by
  unfold vaddMax
  by_cases h : i < max x.length y.length
  · rw [vecOf_getD _ _ _ h]
  · have hx : x.length ≤ i := by omega
    have hy : y.length ≤ i := by omega
    simp [vecOf, List.getD_eq_getElem?_getD, h, hx, hy]

theorem map_mul_getD (c : K) (x : List K) (i : Nat) : (x.map (c * ·)).getD i 0 = c * x.getD i 0 := by
  simp only [List.getD_eq_getElem?_getD, List.getElem?_map]
  cases x[i]? <;> simp

theorem ptShape_append (xs ys : List (PointForce K)) (q : Nat) :
    ptShape (xs ++ ys) q = ptShape xs q + ptShape ys q := by
  simp [ptShape, List.map_append, List.sum_append]

theorem ptShape_scale (c : K) (xs : List (PointForce K)) (q : Nat) :
    ptShape (xs.map (scaleForce c)) q = c * ptShape xs q := by
  unfold ptShape
  rw [List.map_map, ← List.sum_map_mul_left]
  congr 1
  apply List.map_congr_left
  intro f _
  simp only [Function.comp, pointRow, scaleForce]
  ring

theorem rowOf_withLoads (fr : FextIn K) (ld : Loads K) (di dj : Nat) :
    rowOf (withLoads fr ld) di dj = rowOf fr di dj := rfl

theorem axShape_add (fr : FextIn K) (x y : Loads K) (q : Nat) :
    axShape (withLoads fr (x.add y)) q = axShape (withLoads fr x) q + axShape (withLoads fr y) q := by
  simp only [axShape, rowOf_withLoads]
  simp only [withLoads, Loads.add, vaddMax_getD, add_mul, add_div, ite_add_zero, List.sum_map_add]
  ac_rfl

theorem axShape_smul' (a b : FextIn K) (c : K) (q : Nat) (hE : b.E = a.E)
    (hN : ∀ k, b.Nxxtop.getD k 0 = c * a.Nxxtop.getD k 0) (hpi : b.pi = a.pi) (hr : b.r2 = a.r2)
    (hc : b.cosa = a.cosa) (hbc : b.bc24 = a.bc24) (hn2 : b.n2 = a.n2) (hm2 : b.m2 = a.m2)
    (hrow : ∀ di dj, rowOf b di dj = rowOf a di dj) : axShape b q = c * axShape a q := by
  have e1 : ∀ v : K, c * v * a.pi * a.r2 = c * (v * a.pi * a.r2) := fun v => by ring
  have e2 : ∀ v : K, c * v * (2 * a.pi * a.r2) / a.cosa = c * (v * (2 * a.pi * a.r2) / a.cosa) :=
    fun v => by ring
  unfold axShape
  rw [hE, hpi, hr, hc, hbc, hn2, hm2]
  simp only [hN, hrow, e1, e2, mul_add, mul_ite_zero, ← List.sum_map_mul_left]

theorem axShape_smul (fr : FextIn K) (c : K) (x : Loads K) (q : Nat) :
    axShape (withLoads fr (x.smul c)) q = c * axShape (withLoads fr x) q :=
  axShape_smul' (withLoads fr x) (withLoads fr (x.smul c)) c q rfl (fun k => map_mul_getD c x.Nxxtop k) rfl rfl rfl
    rfl rfl rfl (fun _ _ => rfl)

theorem prShape_withLoads (fr : FextIn K) (x : Loads K) (q : Nat) : prShape (withLoads fr x) q = prShape fr q := rfl

theorem constPart_add (fr : FextIn K) (x y : Loads K) (i : Nat) :
    constPart (withLoads fr (x.add y)) i = constPart (withLoads fr x) i + constPart (withLoads fr y) i := by
  simp only [constPart, prShape_withLoads]
  simp only [withLoads, Loads.add, ptShape_append]
  by_cases hT : fr.pdT = true <;> simp only [hT, if_true, if_false, Bool.false_eq_true] <;> ring

theorem incPart_add (fr : FextIn K) (x y : Loads K) (i : Nat) :
    incPart (withLoads fr (x.add y)) i = incPart (withLoads fr x) i + incPart (withLoads fr y) i := by
  simp only [incPart, prShape_withLoads, axShape_add]
  simp only [withLoads, Loads.add, ptShape_append]
  by_cases hT : fr.pdT = true <;> by_cases h0 : 0 ∈ fr.E <;> by_cases h2 : 2 ∈ fr.E <;>
    simp only [hT, h0, h2, if_true, if_false, Bool.false_eq_true] <;> ring

theorem constPart_smul (fr : FextIn K) (c : K) (x : Loads K) (i : Nat) :
    constPart (withLoads fr (x.smul c)) i = c * constPart (withLoads fr x) i := by
  simp only [constPart, prShape_withLoads]
  simp only [withLoads, Loads.smul, ptShape_scale]
  by_cases hT : fr.pdT = true <;> simp only [hT, if_true, if_false, Bool.false_eq_true] <;> ring

theorem incPart_smul (fr : FextIn K) (c : K) (x : Loads K) (i : Nat) :
    incPart (withLoads fr (x.smul c)) i = c * incPart (withLoads fr x) i := by
  simp only [incPart, prShape_withLoads, axShape_smul]
  simp only [withLoads, Loads.smul, ptShape_scale]
  by_cases hT : fr.pdT = true <;> by_cases h0 : 0 ∈ fr.E <;> by_cases h2 : 2 ∈ fr.E <;>
    simp only [hT, h0, h2, if_true, if_false, Bool.false_eq_true] <;> ring


theorem WF_add (fr : FextIn K) (x y : Loads K) (hx : WF (withLoads fr x)) (hy : WF (withLoads fr y)) :
    WF (withLoads fr (x.add y)) := by
  refine ⟨hx.asc, hx.bound, hx.dofs, ?_, hx.g00⟩
  intro f hf
  have hf' : f ∈ (x.forces ++ y.forces) ++ (x.forcesInc ++ y.forcesInc) := hf
  simp only [List.mem_append] at hf'
  rcases hf' with (h | h) | (h | h)
  · exact hx.forces f (List.mem_append_left _ h)
  · exact hy.forces f (List.mem_append_left _ h)
  · exact hx.forces f (List.mem_append_right _ h)
  · exact hy.forces f (List.mem_append_right _ h)

theorem WF_smul (fr : FextIn K) (c : K) (x : Loads K) (hx : WF (withLoads fr x)) :
    WF (withLoads fr (x.smul c)) := by
  refine ⟨hx.asc, hx.bound, hx.dofs, ?_, hx.g00⟩
  intro f hf
  have hf' : f ∈ x.forces.map (scaleForce c) ++ x.forcesInc.map (scaleForce c) := hf
  simp only [List.mem_append, List.mem_map] at hf'
  rcases hf' with ⟨g, hg, rfl⟩ | ⟨g, hg, rfl⟩
  · exact hx.forces g (List.mem_append_left _ hg)
  · exact hx.forces g (List.mem_append_right _ hg)

theorem fext_const_inc_aux (a : FextIn K) (hw : WF a) (f : List K) (h : calcFext a = .ok f) :
    f.length = a.size - a.E.length ∧
      ∀ i, i < a.size - a.E.length → f.getD i 0 = constPart a i + a.inc * incPart a i := by
  obtain ⟨hl, hv⟩ := calcFext_spec a hw f h
  exact ⟨hl, fun i hi => by rw [hv i hi, fextSpec_eq_const_inc]⟩

theorem fext_additive_aux (fr : FextIn K) (x y : Loads K) (hx : WF (withLoads fr x)) (hy : WF (withLoads fr y))
    (fx fy fxy : List K) (ex : calcFext (withLoads fr x) = .ok fx) (ey : calcFext (withLoads fr y) = .ok fy)
    (exy : calcFext (withLoads fr (x.add y)) = .ok fxy) (i : Nat) (hi : i < fr.size - fr.E.length) :
    fxy.getD i 0 = fx.getD i 0 + fy.getD i 0 := by
  have h1 := (fext_const_inc_aux _ hx fx ex).2 i hi
  have h2 := (fext_const_inc_aux _ hy fy ey).2 i hi
  have h3 := (fext_const_inc_aux _ (WF_add fr x y hx hy) fxy exy).2 i hi
  rw [h1, h2, h3, constPart_add, incPart_add]
  show _ = constPart (withLoads fr x) i + fr.inc * incPart (withLoads fr x) i
    + (constPart (withLoads fr y) i + fr.inc * incPart (withLoads fr y) i)
  show constPart (withLoads fr x) i + constPart (withLoads fr y) i
    + fr.inc * (incPart (withLoads fr x) i + incPart (withLoads fr y) i) = _
  ring

theorem fext_homogeneous_aux (fr : FextIn K) (c : K) (x : Loads K) (hx : WF (withLoads fr x))
    (fx fcx : List K) (ex : calcFext (withLoads fr x) = .ok fx)
    (ecx : calcFext (withLoads fr (x.smul c)) = .ok fcx) (i : Nat) (hi : i < fr.size - fr.E.length) :
    fcx.getD i 0 = c * fx.getD i 0 := by
  have h1 := (fext_const_inc_aux _ hx fx ex).2 i hi
  have h3 := (fext_const_inc_aux _ (WF_smul fr c x hx) fcx ecx).2 i hi
  rw [h1, h3, constPart_smul, incPart_smul]
  show c * constPart (withLoads fr x) i + fr.inc * (c * incPart (withLoads fr x) i)
    = c * (constPart (withLoads fr x) i + fr.inc * incPart (withLoads fr x) i)
  ring

/-- `calc_fext` at load factor `t`, `0` and `1` -/
theorem fext_affine_aux (a : FextIn K) (hw : WF a) (t : K) (f0 f1 ft : List K)
    (e0 : calcFext { a with inc := 0 } = .ok f0) (e1 : calcFext { a with inc := 1 } = .ok f1)
    (et : calcFext { a with inc := t } = .ok ft) (i : Nat) (hi : i < a.size - a.E.length) :
    ft.getD i 0 = f0.getD i 0 + t * (f1.getD i 0 - f0.getD i 0) := by
  have w : ∀ s : K, WF { a with inc := s } := fun s => ⟨hw.asc, hw.bound, hw.dofs, hw.forces, hw.g00⟩
  have h0 := (fext_const_inc_aux _ (w 0) f0 e0).2 i hi
  have h1 := (fext_const_inc_aux _ (w 1) f1 e1).2 i hi
  have ht := (fext_const_inc_aux _ (w t) ft et).2 i hi
  rw [h0, h1, ht]
  show constPart a i + t * incPart a i = constPart a i + 0 * incPart a i
    + t * (constPart a i + 1 * incPart a i - (constPart a i + 0 * incPart a i))
  ring

/-! ### virtual work of the point forces -/

/-- displacement component `r` at the point of a force for the amplitude vector `c`: `Σ_q g[r][q]·c_q` -/
def disp (size : Nat) (g : List (List K)) (r : Nat) (c : Nat → K) : K := sumTo size fun q => rowAt g r q * c q

theorem sumTo_add (n : Nat) (f g : Nat → K) : sumTo n (fun q => f q + g q) = sumTo n f + sumTo n g := by
  rw [sumTo_eq_finset, sumTo_eq_finset, sumTo_eq_finset, Finset.sum_add_distrib]

theorem sumTo_mul_left (n : Nat) (c : K) (f : Nat → K) : sumTo n (fun q => c * f q) = c * sumTo n f := by
  rw [sumTo_eq_finset, sumTo_eq_finset, Finset.mul_sum]

theorem sumTo_zero (n : Nat) : sumTo n (fun _ => (0 : K)) = 0 := by
  rw [sumTo_eq_finset]; simp

theorem ptShape_work (size : Nat) (fs : List (PointForce K)) (c : Nat → K) :
    sumTo size (fun q => ptShape fs q * c q) =
      (fs.map fun f => f.fx * disp size f.g 0 c + f.ft * disp size f.g 1 c + f.fz * disp size f.g 2 c).sum := by
  induction fs with
  | nil => simp [ptShape, sumTo_zero]
  | cons f fs ih =>
    have : (fun q => ptShape (f :: fs) q * c q) = fun q => pointRow f q * c q + ptShape fs q * c q := by
      funext q; simp only [ptShape, List.map_cons, List.sum_cons]; ring
    rw [this, sumTo_add, ih, List.map_cons, List.sum_cons]
    congr 1
    unfold disp pointRow
    rw [← sumTo_mul_left, ← sumTo_mul_left, ← sumTo_mul_left, ← sumTo_add, ← sumTo_add]
    apply sumTo_congr
    intro q _
    ring

/-- `Σ_i (point-force part of fext)_i · c_u,i` is the sum over the forces of `f · (u, v, w)` at the point of the force,
for every amplitude vector that vanishes at the prescribed positions -/
theorem point_forces_virtual_work_aux (size : Nat) (E : List Nat) (hasc : E.Pairwise (· < ·)) (hb : ∀ e ∈ E, e < size)
    (fs : List (PointForce K)) (c : Nat → K) (hc : ∀ e ∈ E, c e = 0) :
    sumTo (size - E.length) (fun i => ptShape fs (up E i) * c (up E i)) =
      (fs.map fun f => f.fx * disp size f.g 0 c + f.ft * disp size f.g 1 c + f.fz * disp size f.g 2 c).sum := by
  rw [← ptShape_work, sumTo_split E hasc size hb]
  have : (E.map fun q => ptShape fs q * c q) = E.map fun _ => (0 : K) := by
    apply List.map_congr_left
    intro e he
    rw [hc e he, mul_zero]
  rw [this]
  simp

end lin

/-! ## what `static` solves; witnesses of the recorded findings -/

set_option linter.unusedSimpArgs false

section cex
variable {K : Type} [Field K] [DecidableEq K]
set_option linter.unusedSectionVars false
set_option linter.unusedSimpArgs false

theorem calcFext_ok_of (a : FextIn K) (h : ¬ (a.P + a.inc * a.Pinc ≠ 0 ∧ (!a.clpt) = true ∧ a.fsdt = true)) :
    ∃ f, calcFext a = .ok f := by
  have hc : ∃ g, calcFextCore a = .ok g := by
    unfold calcFextCore
    simp only []
    rw [if_neg h]
    exact ⟨_, rfl⟩
  obtain ⟨g, hg⟩ := hc
  unfold calcFext
  rw [hg]
  simp only []
  split_ifs <;> exact ⟨_, rfl⟩

/-- what the solution of the system handed to `solve` satisfies on the rows of the free amplitudes -/
theorem static_rows_aux (num0 n : Nat) (E : List Nat) (ck : List K) (k : Coo K) (cu f : List K)
    (hasc : E.Pairwise (· < ·)) (hb : ∀ e ∈ E, e < n) (hnum : ∀ e ∈ E, e < num0) (hck : ck.length = E.length)
    (hcu : cu.length + E.length = n) (hne : E ≠ [])
    (hsolve : ∀ i, i < cu.length →
      sumTo cu.length (fun j => (excludeDofsMatrix num0 E n k).kuu.toFun i j * cu.getD j 0) = f.getD i 0) :
    ∀ i, i < cu.length →
      sumTo n (fun j => k.toFun (up E i) j * (calcFullC n E ck 1 cu).getD j 0) =
        f.getD i 0 + ((E.zip ck).map fun q => (excludeDofsMatrix num0 E n k).kuk.toFun i q.1 * q.2).sum := by
  intro i hi
  let fu : List K := vecOf cu.length fun i =>
    f.getD i 0 + ((E.zip ck).map fun q => (excludeDofsMatrix num0 E n k).kuk.toFun i q.1 * q.2).sum
  have hfu : ∀ i, i < cu.length → fu.getD i 0 =
      f.getD i 0 + ((E.zip ck).map fun q => (excludeDofsMatrix num0 E n k).kuk.toFun i q.1 * q.2).sum :=
    fun i hi => vecOf_getD _ _ _ hi
  have := reduced_system_aux num0 n E ck 1 k cu fu hasc hb hnum hck hcu hne (fun i hi => by
    rw [hsolve i hi, hfu i hi]
    simp only [one_mul]
    ring) i hi
  rw [this, hfu i hi]

/-- the loads alone (no prescribed-amplitude terms) at load factor 1, entry of the free amplitude `up E i` -/
def loadShape (a : FextIn K) (i : Nat) : K :=
  ptShape a.forces (up a.E i) + ptShape a.forcesInc (up a.E i) + axShape a (up a.E i)
  + (a.P + a.Pinc) * prShape a (up a.E i)
  + (if a.pdT then 0 else (a.T + a.Tinc) / a.r2 * rowAt a.g00 1 (up a.E i))

/-- sum over the prescribed amplitudes `_rebuild` produces -/
theorem presc_sum (pdC pdT : Bool) (uTM thetaT LA : K) (E : List Nat) (ck : List K)
    (hex : excludedDofs pdC pdT true uTM thetaT LA = some (E, ck)) (g : Nat → K) :
    ((E.zip ck).map fun q => g q.1 * q.2).sum =
      (if 0 ∈ E then g 0 * uTM else 0) + (if 1 ∈ E then g 1 * thetaT else 0) + (if 2 ∈ E then g 2 * LA else 0) := by
  unfold excludedDofs at hex
  simp only [if_true, Option.some.injEq, Prod.mk.injEq] at hex
  obtain ⟨hE, hck⟩ := hex
  subst hE; subst hck
  cases pdC <;> cases pdT <;> simp [add_assoc]

/-- The linear static solution satisfies the rows of the FULL system `K c = f` that belong to the free amplitudes, with
`f` the loads alone: `calc_fext(inc = 1)` carries ALL prescribed-displacement terms (`uTM`, `thetaTrad`, `LA`). -/
theorem static_rhs_aux (num0 n : Nat) (pdC pdT : Bool) (k : Coo K) (cu f : List K) (a : FextIn K)
    (E : List Nat) (ck : List K) (hex : excludedDofs pdC pdT true a.uTM a.thetaT a.LA = some (E, ck))
    (haE : a.E = E) (hpdT : a.pdT = pdT) (hk : a.k0uk = (excludeDofsMatrix num0 E n k).kuk) (hn : a.size = n)
    (hnum : 3 ≤ num0) (hw : WF a) (hcu : cu.length + E.length = n)
    (hf : calcFext { a with inc := 1 } = .ok f)
    (hsolve : ∀ i, i < cu.length →
      sumTo cu.length (fun j => (excludeDofsMatrix num0 E n k).kuu.toFun i j * cu.getD j 0) = f.getD i 0) :
    ∀ i, i < cu.length →
      sumTo n (fun j => k.toFun (up E i) j * (calcFullC n E ck 1 cu).getD j 0) = loadShape a i := by
  subst haE; subst hpdT
  obtain ⟨E', ck', hex', hasc, h2, hck, hlt, h0iff, h1iff, _⟩ := excludedDofs_admitted_aux pdC a.pdT a.uTM a.thetaT a.LA
  rw [hex] at hex'
  simp only [Option.some.injEq, Prod.mk.injEq] at hex'
  obtain ⟨rfl, rfl⟩ := hex'
  have hb : ∀ e ∈ a.E, e < n := fun e he => by have := hw.bound e he; omega
  have hne : a.E ≠ [] := fun h => by rw [h] at h2; simp at h2
  intro i hi
  rw [static_rows_aux num0 n a.E ck k cu f hasc hb (fun e he => by have := hlt e he; omega) hck hcu hne hsolve i hi]
  have hw1 : WF { a with inc := 1 } := ⟨hw.asc, hw.bound, hw.dofs, hw.forces, hw.g00⟩
  have hi' : i < ({ a with inc := 1 } : FextIn K).size - ({ a with inc := 1 } : FextIn K).E.length := by
    show i < a.size - a.E.length
    rw [hn]; omega
  obtain ⟨_, hv⟩ := calcFext_spec _ hw1 f hf
  rw [hv i hi', fextSpec_eq_const_inc,
    presc_sum pdC a.pdT a.uTM a.thetaT a.LA a.E ck hex (fun q => (excludeDofsMatrix num0 a.E n k).kuk.toFun i q)]
  have hax : axShape { a with inc := 1 } (up a.E i) = axShape a (up a.E i) := rfl
  have hpr : prShape { a with inc := 1 } (up a.E i) = prShape a (up a.E i) := rfl
  unfold constPart incPart loadShape
  simp only [hax, hpr, one_mul, ← hk]
  have h1 : (1 ∈ a.E) ↔ a.pdT = true := h1iff
  by_cases h0 : 0 ∈ a.E <;> by_cases hT : a.pdT = true <;>
    simp only [h0, h2, hT, h1, if_true, if_false, Bool.false_eq_true] <;> ring

end cex

/-! ### concrete witnesses (over ℚ) -/

/-- the former witness of the `kkk` defect now gives the documented block: for `diag(1,2,3)` with `{1, 2}` prescribed
`kkk` is 2×2 with `kkk₀₀ = K₁₁ = 2`, `kkk₁₁ = K₂₂ = 3` -/
theorem kkk_instance_aux :
    let k : Coo ℚ := [(0, 0, 1), (1, 1, 2), (2, 2, 3)]
    let E : List Nat := [1, 2]
    (excludeDofsMatrix 3 E 3 k).shapeKK = (2, 2) ∧
      (excludeDofsMatrix 3 E 3 k).kkk.toFun 0 0 = 2 ∧ (excludeDofsMatrix 3 E 3 k).kkk.toFun 1 1 = 3 ∧
      (excludeDofsMatrix 3 E 3 k).kkk.toFun 0 1 = 0 := by
  intro k E
  have hasc : E.Pairwise (· < ·) := by simp [E]
  have hnum : ∀ e ∈ E, e < 3 := by simp [E]
  refine ⟨rfl, ?_, ?_, ?_⟩ <;> rw [kkk_entry_aux 3 3 E hasc hnum] <;> simp [E, k, Coo.toFun]

/-- a reduced matrix with a null row that carries load: NO vector satisfies the system -/
theorem null_row_counterexample_aux :
    let k : Coo ℚ := [(0, 0, 2), (2, 2, 1)]
    (∀ j, (excludeDofsMatrix 3 [0, 2] 3 k).kuu.toFun 0 j = 0) ∧
    (∀ x : List ℚ, sumTo 1 (fun j => (excludeDofsMatrix 3 [0, 2] 3 k).kuu.toFun 0 j * x.getD j 0) ≠ 7) := by
  intro k
  have hasc2 : ([0, 2] : List Nat).Pairwise (· < ·) := by simp
  have h0 : ∀ j, (excludeDofsMatrix 3 [0, 2] 3 k).kuu.toFun 0 j = 0 := by
    intro j
    rw [kuu_entry_aux 3 3 [0, 2] hasc2]
    simp [k, up, skip, Coo.toFun]
  exact ⟨h0, fun x => by simp [sumTo, h0]⟩

/-- the witness of the torque finding: `v(0,0)` also moves with amplitude 3 (a `cos(jθ)` term, as in the bc3 models) -/
def torqueWitness : FextIn ℚ :=
  { size := 4, num0 := 3, num1 := 0, num2 := 0, m1 := 0, m2 := 0, n2 := 0, i0 := 0, j0 := 1, dofs := 3, E := [2],
    forces := [], forcesInc := [], inc := 1, uTM := 0, thetaT := 0, LA := 0, Nxxtop := [0], pi := 3, r2 := 2, cosa := 1,
    sina := 0, L := 1, bc24 := false, clpt := true, fsdt := false, pdT := false, P := 0, Pinc := 0, T := 6, Tinc := 0,
    g00 := [[1, 0, 0, 0], [0, 2, 0, 1], [0, 0, 0, 0]], k0uk := [] }

theorem torqueWitness_WF : WF torqueWitness := by
  refine ⟨by simp [torqueWitness], by simp [torqueWitness], Or.inl rfl, by simp [torqueWitness], ?_⟩
  simp [torqueWitness]

theorem torque_counterexample_aux :
    ∃ f, calcFext torqueWitness = .ok f ∧ f.getD 1 0 = torqueWitness.T ∧ f.getD 2 0 = 3 := by
  obtain ⟨f, hf⟩ := calcFext_ok_of torqueWitness (by simp [torqueWitness])
  refine ⟨f, hf, ?_, ?_⟩
  · rw [(fext_const_inc_aux _ torqueWitness_WF f hf).2 1 (by simp [torqueWitness])]
    simp [constPart, incPart, ptShape, prShape, axShape, rowAt, torqueWitness, up, skip]
  · rw [(fext_const_inc_aux _ torqueWitness_WF f hf).2 2 (by simp [torqueWitness])]
    simp [constPart, incPart, ptShape, prShape, axShape, rowAt, torqueWitness, up, skip]
    norm_num


/-- the former witness of the load-asymmetry defect: amplitude 2 (prescribed, `LA = 1`) is coupled to the free
amplitude 3 (`K₃₂ = 5`) -/
def laMatrix : Coo ℚ := [(0, 0, 1), (1, 1, 1), (2, 2, 1), (3, 3, 1), (3, 2, 5), (2, 3, 5)]

def laWitness : FextIn ℚ :=
  { size := 4, num0 := 3, num1 := 0, num2 := 0, m1 := 0, m2 := 0, n2 := 0, i0 := 0, j0 := 1, dofs := 3, E := [1, 2],
    forces := [], forcesInc := [], inc := 1, uTM := 0, thetaT := 0, LA := 1, Nxxtop := [0], pi := 3, r2 := 2, cosa := 1,
    sina := 0, L := 1, bc24 := false, clpt := true, fsdt := false, pdT := true, P := 0, Pinc := 0, T := 0, Tinc := 0,
    g00 := [[1, 0, 0, 0], [0, 2, 0, 0], [0, 0, 0, 0]], k0uk := (excludeDofsMatrix 3 [1, 2] 4 laMatrix).kuk }

theorem laWitness_WF : WF laWitness := by
  refine ⟨by simp [laWitness], by simp [laWitness], Or.inl rfl, by simp [laWitness], ?_⟩
  simp [laWitness]

/-- no load at all, prescribed rotation 0, load-asymmetry amplitude `LA = 1`: the right-hand side handed to the solver
is `[0, −5]` (the term `−LA·K_uk[:,2]`), and with the exact solution `[0, −5]` of the reduced system (`K_uu = I`) the row of
the free amplitude 3 of the full system reads `5·1 + 1·(−5) = 0`: satisfied. -/
theorem static_la_instance_aux :
    ∃ f, staticLinear (fun _ f => f) false true (excludeDofsMatrix 3 [1, 2] 4 laMatrix).kuu laWitness
        = .ok (((excludeDofsMatrix 3 [1, 2] 4 laMatrix).kuu, f), ([1], [f])) ∧
      f.length = 2 ∧ f.getD 0 0 = 0 ∧ f.getD 1 0 = -5 ∧
      sumTo 4 (fun j => laMatrix.toFun (up [1, 2] 1) j * (calcFullC 4 [1, 2] [0, 1] 1 [0, -5]).getD j 0) = 0 := by
  obtain ⟨f, hf⟩ := calcFext_ok_of { laWitness with inc := 1 } (by simp [laWitness])
  have hw : WF { laWitness with inc := 1 } := laWitness_WF
  obtain ⟨hl, hv⟩ := fext_const_inc_aux _ hw f hf
  have e1 : ∀ i j, laWitness.k0uk.toFun i j = if j < 3 then laMatrix.toFun (up [1, 2] i) j else 0 := fun i j =>
    kuk_entry_aux 3 4 [1, 2] (by simp) laMatrix i j
  have hval : ∀ i, i < 2 → f.getD i 0 = -(laWitness.k0uk.toFun i 2) := by
    intro i hi
    have hi' : i < ({ laWitness with inc := 1 } : FextIn ℚ).size - ({ laWitness with inc := 1 } : FextIn ℚ).E.length := hi
    rw [hv i hi']
    have : i = 0 ∨ i = 1 := by omega
    rcases this with rfl | rfl <;>
      simp [constPart, incPart, ptShape, prShape, axShape, laWitness]
  refine ⟨f, ?_, hl, ?_, ?_, ?_⟩
  · unfold staticLinear
    simp only [Bool.false_eq_true, if_false, Bool.not_true]
    rw [hf]
  · rw [hval 0 (by omega), e1]; simp [up, skip, laMatrix, Coo.toFun]
  · rw [hval 1 (by omega), e1]; simp [up, skip, laMatrix, Coo.toFun]
  · simp [sumTo, List.range_succ, calcFullC, up, skip, laMatrix, Coo.toFun, List.mergeSort]


section axial
variable {K : Type} [Field K] [DecidableEq K]
set_option linter.unusedSectionVars false

theorem fext_tmp_entry_aux (a : FextIn K) (Ptot : K) :
    (fextTmp a Ptot).length = a.size ∧
      ∀ q, q < a.size → (fextTmp a Ptot).getD q 0 = a.inc * axShape a q + Ptot * prShape a q := by
  obtain ⟨hl, hv⟩ := fextTmp_spec a Ptot
  exact ⟨hl, fun q hq => by rw [hv q hq, tmpSpec_eq]⟩

theorem fext_torque_partial_aux (a : FextIn K) (hr : a.r2 ≠ 0) (hpdT : a.pdT = false)
    (hg : ∀ q, rowAt a.g00 1 q = if q = 1 then a.r2 else 0) (i : Nat) :
    constPart a i + a.inc * incPart a i =
      (ptShape a.forces (up a.E i) + a.P * prShape a (up a.E i))
      + a.inc * (ptShape a.forcesInc (up a.E i) + axShape a (up a.E i) + a.Pinc * prShape a (up a.E i)
          - (if 0 ∈ a.E then a.uTM * a.k0uk.toFun i 0 else 0)
          - (if 2 ∈ a.E then a.LA * a.k0uk.toFun i 2 else 0))
      + (a.T + a.inc * a.Tinc) * (if up a.E i = 1 then 1 else 0) := by
  unfold constPart incPart
  rw [hg]
  simp only [hpdT, Bool.false_eq_true, if_false]
  by_cases h1 : up a.E i = 1
  · simp only [h1, if_true]; field_simp; ring
  · simp only [h1, if_false]; ring

theorem static_passes_aux (solve : Coo K → List K → List K) (pdC lin : Bool) (kuu : Coo K) (a : FextIn K) :
    (pdC = true → staticLinear solve pdC lin kuu a = .error .prescribedShortening) ∧
    (pdC = false → lin = false → staticLinear solve pdC lin kuu a = .error .modelNotStatic) ∧
    (pdC = false → lin = true → ∀ f, calcFext { a with inc := 1 } = .ok f →
      staticLinear solve pdC lin kuu a = .ok ((kuu, f), ([1], [solve kuu f]))) := by
  refine ⟨fun h => by simp [staticLinear, h], fun h1 h2 => by simp [staticLinear, h1, h2], fun h1 h2 f hf => ?_⟩
  simp [staticLinear, h1, h2, hf]

/-- without the name test `'bc2' in model or 'bc4' in model` only `Nxxtop[0]` (and the dead `Nxxtop[2]` branch)
reach `fext`: every circumferential harmonic of the edge load is ignored -/
theorem axShape_no_bc24 (a : FextIn K) (h : a.bc24 = false) (q : Nat) :
    axShape a q = (if 0 ∉ a.E then (if q = 0 then a.Nxxtop.getD 0 0 * (2 * a.pi * a.r2) / a.cosa else 0) else 0)
      + (if 2 ∉ a.E then (if q = 2 then a.Nxxtop.getD 2 0 * (2 * a.pi * a.r2) / a.cosa else 0) else 0) := by
  unfold axShape
  simp [h]

end axial

/-- the witness of the harmonics finding: one pair `(i2, j2)` of the second set, `u` free at the loaded edge
(amplitudes 3, 4 are the `sin θ` / `cos θ` terms of `u`), edge load `Nxxtop = [0, 7, 0]` (a pure `sin θ` harmonic) -/
def harmonicsWitness (bc24 : Bool) : FextIn ℚ :=
  { size := 9, num0 := 3, num1 := 0, num2 := 6, m1 := 0, m2 := 1, n2 := 1, i0 := 0, j0 := 1, dofs := 3, E := [1, 2],
    forces := [], forcesInc := [], inc := 1, uTM := 0, thetaT := 0, LA := 0, Nxxtop := [0, 7, 0], pi := 3, r2 := 2, cosa := 1,
    sina := 0, L := 1, bc24 := bc24, clpt := true, fsdt := false, pdT := true, P := 0, Pinc := 0, T := 0, Tinc := 0,
    g00 := [[1, 0, 0, 0, 1, 0, 0, 0, 0], [0, 2, 0, 0, 0, 0, 0, 0, 0], [0, 0, 0, 0, 0, 0, 0, 0, 0]], k0uk := [] }

theorem harmonics_counterexample_aux :
    axShape (harmonicsWitness true) 3 = 42 ∧ (∀ q, axShape (harmonicsWitness false) q = 0) := by
  constructor
  · simp [axShape, harmonicsWitness, rowOf]
    norm_num
  · intro q
    rw [axShape_no_bc24 _ rfl]
    simp [harmonicsWitness]


/-! ## real analysis: the pressure closed form and the circumferential harmonics -/

section analysis
open Real intervalIntegral

theorem pressure_closed_form_aux (i : ℕ) (hi : 1 ≤ i) (L r2 sa : ℝ) (hL : L ≠ 0) :
    ∫ x in (0:ℝ)..L, ∫ _θ in (0:ℝ)..(2 * π), Real.sin (i * π * x / L) * (r2 + x * sa)
      = pressureCoef L r2 sa i := by
  have hi0 : (i : ℝ) ≠ 0 := by positivity
  have hk : (i * π / L) ≠ 0 := div_ne_zero (mul_ne_zero hi0 pi_ne_zero) hL
  set k : ℝ := i * π / L with hkdef
  have inner : ∀ x : ℝ, (∫ _θ in (0:ℝ)..(2 * π), Real.sin (i * π * x / L) * (r2 + x * sa))
      = 2 * π * (Real.sin (k * x) * (r2 + x * sa)) := by
    intro x
    rw [intervalIntegral.integral_const, smul_eq_mul, sub_zero]
    have : (i:ℝ) * π * x / L = k * x := by rw [hkdef]; ring
    rw [this]
  simp_rw [inner]
  have hderiv : ∀ x ∈ Set.uIcc (0:ℝ) L,
      HasDerivAt (fun x => 2 * π * (-(r2 + x * sa) * Real.cos (k * x) / k + sa * Real.sin (k * x) / k ^ 2))
        (2 * π * (Real.sin (k * x) * (r2 + x * sa))) x := by
    intro x _
    have h1 : HasDerivAt (fun x : ℝ => k * x) k x := by simpa using (hasDerivAt_id x).const_mul k
    have hcos := h1.cos
    have hsin := h1.sin
    have hlin : HasDerivAt (fun x : ℝ => r2 + x * sa) sa x := by
      simpa using ((hasDerivAt_id x).mul_const sa).const_add r2
    have hA : HasDerivAt (fun x : ℝ => -(r2 + x * sa)) (-sa) x := hlin.neg
    have hB : HasDerivAt (fun x : ℝ => -(r2 + x * sa) * Real.cos (k * x))
        (-sa * Real.cos (k * x) + -(r2 + x * sa) * (-Real.sin (k * x) * k)) x := hA.mul hcos
    have hC : HasDerivAt (fun x : ℝ => -(r2 + x * sa) * Real.cos (k * x) / k)
        ((-sa * Real.cos (k * x) + -(r2 + x * sa) * (-Real.sin (k * x) * k)) / k) x := hB.div_const k
    have hD : HasDerivAt (fun x : ℝ => sa * Real.sin (k * x)) (sa * (Real.cos (k * x) * k)) x := hsin.const_mul sa
    have hE : HasDerivAt (fun x : ℝ => sa * Real.sin (k * x) / k ^ 2) (sa * (Real.cos (k * x) * k) / k ^ 2) x :=
      hD.div_const (k ^ 2)
    have hF : HasDerivAt (fun x : ℝ => -(r2 + x * sa) * Real.cos (k * x) / k + sa * Real.sin (k * x) / k ^ 2)
        ((-sa * Real.cos (k * x) + -(r2 + x * sa) * (-Real.sin (k * x) * k)) / k
          + sa * (Real.cos (k * x) * k) / k ^ 2) x := hC.add hE
    have hG := hF.const_mul (2 * π)
    refine hG.congr_deriv ?_
    field_simp
    ring
  rw [integral_eq_sub_of_hasDerivAt hderiv]
  · have hkL : k * L = i * π := by rw [hkdef]; field_simp
    simp only [hkL, mul_zero, Real.cos_zero, Real.sin_zero, Real.cos_nat_mul_pi, Real.sin_nat_mul_pi]
    unfold pressureCoef
    rw [hkdef]
    field_simp
    ring
  · apply Continuous.intervalIntegrable
    fun_prop

theorem pressure_x_integral (i : ℕ) (hi : 1 ≤ i) (L r2 sa : ℝ) (hL : L ≠ 0) :
    ∫ x in (0:ℝ)..L, 2 * π * (Real.sin (i * π * x / L) * (r2 + x * sa)) = pressureCoef L r2 sa i := by
  rw [← pressure_closed_form_aux i hi L r2 sa hL]
  congr 1
  funext x
  rw [intervalIntegral.integral_const, smul_eq_mul, sub_zero]

theorem pressure_work_aux (m1 i0 : ℕ) (cw : ℕ → ℝ) (L r2 sa : ℝ) (hL : L ≠ 0) :
    (∫ x in (0:ℝ)..L, ∫ _θ in (0:ℝ)..(2 * π),
        (∑ di ∈ Finset.range m1, cw di * Real.sin ((i0 + di : ℕ) * π * x / L)) * (r2 + x * sa))
      = ∑ di ∈ Finset.range m1, cw di * (if i0 + di = 0 then 0 else pressureCoef L r2 sa (i0 + di)) := by
  have inner : ∀ x : ℝ, (∫ _θ in (0:ℝ)..(2 * π),
      (∑ di ∈ Finset.range m1, cw di * Real.sin ((i0 + di : ℕ) * π * x / L)) * (r2 + x * sa))
      = ∑ di ∈ Finset.range m1, cw di * (2 * π * (Real.sin ((i0 + di : ℕ) * π * x / L) * (r2 + x * sa))) := by
    intro x
    rw [intervalIntegral.integral_const, smul_eq_mul, sub_zero, Finset.sum_mul, Finset.mul_sum]
    apply Finset.sum_congr rfl
    intro di _
    ring
  simp_rw [inner]
  rw [intervalIntegral.integral_finsetSum]
  · apply Finset.sum_congr rfl
    intro di _
    rw [intervalIntegral.integral_const_mul]
    congr 1
    by_cases h0 : i0 + di = 0
    · rw [if_pos h0, h0]; simp
    · rw [if_neg h0]
      exact pressure_x_integral (i0 + di) (by omega) L r2 sa hL
  · intro di _
    apply Continuous.intervalIntegrable
    fun_prop

theorem harmonic_integrals_zero_aux (j : ℕ) (hj : 1 ≤ j) :
    (∫ θ in (0:ℝ)..(2 * π), Real.cos (j * θ)) = 0 ∧ (∫ θ in (0:ℝ)..(2 * π), Real.sin (j * θ)) = 0 := by
  have hj0 : (j : ℝ) ≠ 0 := by positivity
  have h2 : (j : ℝ) * (2 * π) = ((2 * j : ℕ) : ℝ) * π := by push_cast; ring
  constructor
  · rw [intervalIntegral.integral_comp_mul_left (fun x => Real.cos x) hj0, integral_cos, mul_zero, Real.sin_zero, h2,
      Real.sin_nat_mul_pi]
    simp
  · rw [intervalIntegral.integral_comp_mul_left (fun x => Real.sin x) hj0, integral_sin, mul_zero, Real.cos_zero, h2,
      Real.cos_nat_mul_pi]
    simp

end analysis

end Compmech.ConeCyl
