/-
Helper lemmas for `Props/C18.lean` about `Model/ConeCylGlue.lean`.
-/
import CompmechVerif.Model.ConeCylGlue
import Mathlib.Algebra.BigOperators.Group.List.Basic
import Mathlib.Algebra.BigOperators.Group.Finset.Basic
import Mathlib.Algebra.BigOperators.Intervals
import Mathlib.Algebra.Field.Rat
import Mathlib.Algebra.Order.Field.Rat
import Mathlib.Tactic.Ring
import Mathlib.Tactic.FieldSimp
import Mathlib.Tactic.Linarith
import Mathlib.Tactic.NormNum
import Mathlib.Tactic.SplitIfs

namespace Compmech.ConeCyl

/-! ## `skip`, `up` -/

theorem skip_ne (d p : Nat) : skip d p ≠ d := by
  unfold skip; split_ifs <;> omega

theorem skip_strictMono (d : Nat) {p q : Nat} (h : p < q) : skip d p < skip d q := by
  unfold skip; split_ifs <;> omega

theorem skip_lt_iff (d p : Nat) : skip d p < d ↔ p < d := by
  unfold skip; split_ifs <;> omega

/-- `up` over the descending list (head = largest), as the loops of `exclude_dofs_matrix` run -/
def upD : List Nat → Nat → Nat
  | [], p => p
  | d :: rest, p => skip d (upD rest p)

theorem upD_eq_foldr (ds : List Nat) (p : Nat) : upD ds p = ds.foldr (fun d q => skip d q) p := by
  induction ds with
  | nil => rfl
  | cons d rest ih => simp [upD, ih]

theorem up_eq_upD_reverse (E : List Nat) (p : Nat) : up E p = upD E.reverse p := by
  rw [upD_eq_foldr, List.foldr_reverse]; rfl

/-! ## COO semantics -/

section coo
variable {K : Type} [AddCommMonoid K]
set_option linter.unusedSectionVars false
set_option linter.unusedSimpArgs false

theorem toFun_nil (i j : Nat) : Coo.toFun ([] : Coo K) i j = 0 := by simp [Coo.toFun]

theorem toFun_cons (e : Nat × Nat × K) (l : Coo K) (i j : Nat) :
    Coo.toFun (e :: l) i j = (if e.1 = i ∧ e.2.1 = j then e.2.2 else 0) + Coo.toFun l i j := by
  simp [Coo.toFun]

theorem dropRow_cons (r : Nat) (e : Nat × Nat × K) (l : Coo K) :
    dropRow r (e :: l) =
      if e.1 ≠ r then (if e.1 > r then e.1 - 1 else e.1, e.2.1, e.2.2) :: dropRow r l else dropRow r l := by
  unfold dropRow
  by_cases h : e.1 = r <;> simp [List.filter_cons, h]

theorem dropCol_cons (c : Nat) (e : Nat × Nat × K) (l : Coo K) :
    dropCol c (e :: l) =
      if e.2.1 ≠ c then (e.1, if e.2.1 > c then e.2.1 - 1 else e.2.1, e.2.2) :: dropCol c l else dropCol c l := by
  unfold dropCol
  by_cases h : e.2.1 = c <;> simp [List.filter_cons, h]

theorem toFun_dropRow (r : Nat) (l : Coo K) (i j : Nat) :
    (dropRow r l).toFun i j = l.toFun (skip r i) j := by
  induction l with
  | nil => simp [dropRow, Coo.toFun]
  | cons e l ih =>
    rw [dropRow_cons, toFun_cons (i := skip r i)]
    by_cases h : e.1 = r
    · have hne : ¬ (e.1 = skip r i ∧ e.2.1 = j) := fun h' => skip_ne r i (h'.1.symm.trans h)
      rw [if_neg (not_not.mpr h), if_neg hne, zero_add, ih]
    · have hiff : ((if e.1 > r then e.1 - 1 else e.1) = i) ↔ (e.1 = skip r i) := by
        unfold skip; split_ifs <;> omega
      rw [if_pos h, toFun_cons, ih]
      congr 1
      exact if_congr (and_congr hiff Iff.rfl) rfl rfl

theorem toFun_dropCol (c : Nat) (l : Coo K) (i j : Nat) :
    (dropCol c l).toFun i j = l.toFun i (skip c j) := by
  induction l with
  | nil => simp [dropCol, Coo.toFun]
  | cons e l ih =>
    rw [dropCol_cons, toFun_cons (j := skip c j)]
    by_cases h : e.2.1 = c
    · have hne : ¬ (e.1 = i ∧ e.2.1 = skip c j) := fun h' => skip_ne c j (h'.2.symm.trans h)
      rw [if_neg (not_not.mpr h), if_neg hne, zero_add, ih]
    · have hiff : ((if e.2.1 > c then e.2.1 - 1 else e.2.1) = j) ↔ (e.2.1 = skip c j) := by
        unfold skip; split_ifs <;> omega
      rw [if_pos h, toFun_cons, ih]
      congr 1
      exact if_congr (and_congr Iff.rfl hiff) rfl rfl

theorem toFun_dropRows (ds : List Nat) (l : Coo K) (i j : Nat) :
    (dropRows ds l).toFun i j = l.toFun (upD ds i) j := by
  induction ds generalizing l with
  | nil => rfl
  | cons d rest ih =>
    show (dropRows rest (dropRow d l)).toFun i j = _
    rw [ih, toFun_dropRow]; rfl

theorem toFun_dropCols (ds : List Nat) (l : Coo K) (i j : Nat) :
    (dropCols ds l).toFun i j = l.toFun i (upD ds j) := by
  induction ds generalizing l with
  | nil => rfl
  | cons d rest ih =>
    show (dropCols rest (dropCol d l)).toFun i j = _
    rw [ih, toFun_dropCol]; rfl

theorem toFun_filter (p : Nat × Nat × K → Bool) (l : Coo K) (i j : Nat)
    (q : Nat → Nat → Bool) (hp : ∀ e, p e = q e.1 e.2.1) :
    Coo.toFun (l.filter p) i j = if q i j then l.toFun i j else 0 := by
  induction l with
  | nil => simp [Coo.toFun]
  | cons e l ih =>
    rw [List.filter_cons]
    by_cases h : p e = true
    · rw [if_pos h, toFun_cons, toFun_cons, ih]
      by_cases hq : q i j = true
      · simp [hq]
      · have : ¬ (e.1 = i ∧ e.2.1 = j) := by
          rintro ⟨h1, h2⟩; rw [hp, h1, h2] at h; exact hq h
        simp [hq, this]
    · rw [if_neg h, ih, toFun_cons]
      by_cases hq : q i j = true
      · have : ¬ (e.1 = i ∧ e.2.1 = j) := by
          rintro ⟨h1, h2⟩; rw [hp, h1, h2] at h; exact h hq
        simp [hq, this]
      · simp [hq]

end coo


/-! ## sorting is the identity on what `_rebuild` produces (strictly ascending lists) -/

theorem sortAsc_of_ascending {E : List Nat} (h : E.Pairwise (· < ·)) : sortAsc E = E := by
  unfold sortAsc
  apply List.mergeSort_of_pairwise
  exact h.imp (fun hab => by simpa using Nat.le_of_lt hab)

theorem sortDesc_of_ascending {E : List Nat} (h : E.Pairwise (· < ·)) : sortDesc E = E.reverse := by
  unfold sortDesc; rw [sortAsc_of_ascending h]

theorem upD_sortDesc {E : List Nat} (h : E.Pairwise (· < ·)) (p : Nat) : upD (sortDesc E) p = up E p := by
  rw [sortDesc_of_ascending h, up_eq_upD_reverse]

theorem up_append_singleton (E : List Nat) (d p : Nat) : up (E ++ [d]) p = skip d (up E p) := by
  simp [up, List.foldl_append]

/-! ## `up E` enumerates the complement of `E` in increasing order -/

theorem up_strictMono (E : List Nat) {p q : Nat} (h : p < q) : up E p < up E q := by
  induction E using List.reverseRecOn with
  | nil => simpa [up] using h
  | append_singleton init d ih => rw [up_append_singleton, up_append_singleton]; exact skip_strictMono d ih

theorem up_not_mem {E : List Nat} (h : E.Pairwise (· < ·)) (p : Nat) : up E p ∉ E := by
  induction E using List.reverseRecOn with
  | nil => simp
  | append_singleton init d ih =>
    rw [List.pairwise_append] at h
    obtain ⟨h1, _, h3⟩ := h
    rw [up_append_singleton]
    intro hm
    rcases List.mem_append.mp hm with hm | hm
    · have hlt : skip d (up init p) < d := h3 _ hm d (by simp)
      rw [skip_lt_iff] at hlt
      have : skip d (up init p) = up init p := by unfold skip; rw [if_pos hlt]
      rw [this] at hm
      exact ih h1 hm
    · simp at hm; exact skip_ne d _ hm

theorem up_surj {E : List Nat} (h : E.Pairwise (· < ·)) (q : Nat) (hq : q ∉ E) : ∃ p, up E p = q := by
  induction E using List.reverseRecOn generalizing q with
  | nil => exact ⟨q, rfl⟩
  | append_singleton init d ih =>
    rw [List.pairwise_append] at h
    obtain ⟨h1, _, h3⟩ := h
    have hq1 : q ≠ d := fun e => hq (by simp [e])
    by_cases hlt : q < d
    · obtain ⟨p, hp⟩ := ih h1 q (fun hm => hq (List.mem_append_left _ hm))
      exact ⟨p, by rw [up_append_singleton, hp]; unfold skip; rw [if_pos hlt]⟩
    · have hgt : d < q := by omega
      have hnm : q - 1 ∉ init := fun hm => by
        have := h3 _ hm d (by simp); omega
      obtain ⟨p, hp⟩ := ih h1 (q - 1) hnm
      exact ⟨p, by rw [up_append_singleton, hp]; unfold skip; rw [if_neg (by omega)]; omega⟩

theorem up_of_lt_all {E : List Nat} {p : Nat} (h : ∀ e ∈ E, p < e) : up E p = p := by
  induction E using List.reverseRecOn with
  | nil => rfl
  | append_singleton init d ih =>
    rw [up_append_singleton, ih (fun e he => h e (List.mem_append_left _ he))]
    unfold skip; rw [if_pos (h d (by simp))]

/-! ## vectors: `np.insert`, `np.delete` -/

section vectors
variable {K : Type}

/-- insertion of `inc*ck` at ascending positions, as the second branch of `calc_full_c` does it -/
def insAll [Mul K] (ps : List (Nat × K)) (inc : K) (c : List K) : List K :=
  ps.foldl (fun c p => c.insertIdx p.1 (inc * p.2)) c

def delAll (ds : List Nat) (c : List K) : List K := ds.foldl (fun acc d => acc.eraseIdx d) c

theorem insAll_append_singleton [Mul K] (ps : List (Nat × K)) (q : Nat × K) (inc : K) (c : List K) :
    insAll (ps ++ [q]) inc c = (insAll ps inc c).insertIdx q.1 (inc * q.2) := by
  simp [insAll, List.foldl_append]

theorem delAll_insAll [Mul K] (ps : List (Nat × K)) (inc : K) (c : List K) :
    delAll (ps.map Prod.fst).reverse (insAll ps inc c) = c := by
  induction ps using List.reverseRecOn with
  | nil => rfl
  | append_singleton init q ih =>
    rw [insAll_append_singleton]
    simp only [List.map_append, List.map_cons, List.map_nil, List.reverse_append, List.reverse_cons,
      List.reverse_nil, List.nil_append, List.cons_append]
    show delAll (init.map Prod.fst).reverse (((insAll init inc c).insertIdx q.1 (inc * q.2)).eraseIdx q.1) = c
    rw [List.eraseIdx_insertIdx_self, ih]

theorem getElem?_insertIdx_skip (x : List K) (d : Nat) (v : K) (q : Nat) :
    (x.insertIdx d v)[skip d q]? = x[q]? := by
  rw [List.getElem?_insertIdx]
  unfold skip
  by_cases h : q < d
  · rw [if_pos h, if_pos h]
  · rw [if_neg h, if_neg (by omega), if_neg (by omega)]; simp

theorem insAll_getElem?_up [Mul K] (ps : List (Nat × K)) (inc : K) (c : List K) (p : Nat) :
    (insAll ps inc c)[up (ps.map Prod.fst) p]? = c[p]? := by
  induction ps using List.reverseRecOn with
  | nil => rfl
  | append_singleton init q ih =>
    rw [insAll_append_singleton, List.map_append, List.map_cons, List.map_nil, up_append_singleton,
      getElem?_insertIdx_skip, ih]

theorem insAll_length [Mul K] (ps : List (Nat × K)) (inc : K) (c : List K)
    (hasc : (ps.map Prod.fst).Pairwise (· < ·)) (hb : ∀ e ∈ ps.map Prod.fst, e < c.length + ps.length) :
    (insAll ps inc c).length = c.length + ps.length := by
  induction ps using List.reverseRecOn with
  | nil => rfl
  | append_singleton init q ih =>
    rw [List.map_append, List.pairwise_append] at hasc
    obtain ⟨h1, _, h3⟩ := hasc
    have hq : q.1 < c.length + (init.length + 1) := by
      have := hb q.1 (by simp); simpa using this
    have hi : ∀ e ∈ init.map Prod.fst, e < c.length + init.length := fun e he => by
      have := h3 e he q.1 (by simp); omega
    rw [insAll_append_singleton, List.length_insertIdx, ih h1 hi, if_pos (by omega)]
    simp; omega

theorem insAll_getElem?_mem [Mul K] (ps : List (Nat × K)) (inc : K) (c : List K)
    (hasc : (ps.map Prod.fst).Pairwise (· < ·)) (hb : ∀ e ∈ ps.map Prod.fst, e < c.length + ps.length)
    (q : Nat × K) (hq : q ∈ ps) : (insAll ps inc c)[q.1]? = some (inc * q.2) := by
  induction ps using List.reverseRecOn with
  | nil => simp at hq
  | append_singleton init r ih =>
    rw [List.map_append, List.pairwise_append] at hasc
    obtain ⟨h1, _, h3⟩ := hasc
    have hr : r.1 < c.length + (init.length + 1) := by
      have := hb r.1 (by simp); simpa using this
    have hi : ∀ e ∈ init.map Prod.fst, e < c.length + init.length := fun e he => by
      have := h3 e he r.1 (by simp); omega
    have hlen := insAll_length init inc c h1 hi
    rw [insAll_append_singleton, List.getElem?_insertIdx]
    rcases List.mem_append.mp hq with hm | hm
    · have hlt : q.1 < r.1 := h3 q.1 (List.mem_map_of_mem hm) r.1 (by simp)
      rw [if_pos hlt]; exact ih h1 hi hm
    · simp at hm; subst hm
      rw [if_neg (by omega), if_pos rfl, if_pos (by omega)]

end vectors

/-! ## splitting a sum over all amplitudes into free and prescribed ones -/

section sums
variable {K : Type} [AddCommMonoid K]

theorem sumTo_eq_finset (n : Nat) (f : Nat → K) : sumTo n f = ∑ j ∈ Finset.range n, f j := by
  induction n with
  | zero => simp [sumTo]
  | succ n ih =>
    rw [Finset.sum_range_succ, ← ih]
    unfold sumTo
    exact List.sum_range_succ f n

theorem sumTo_succ (n : Nat) (f : Nat → K) : sumTo (n + 1) f = sumTo n f + f n := by
  unfold sumTo; exact List.sum_range_succ f n

theorem sumTo_congr {n : Nat} {f g : Nat → K} (h : ∀ j, j < n → f j = g j) : sumTo n f = sumTo n g := by
  rw [sumTo_eq_finset, sumTo_eq_finset]
  exact Finset.sum_congr rfl (fun j hj => h j (Finset.mem_range.mp hj))

theorem sumTo_skip (n d : Nat) (hd : d ≤ n) (g : Nat → K) :
    sumTo (n + 1) g = sumTo n (fun j => g (skip d j)) + g d := by
  induction n with
  | zero =>
    have : d = 0 := by omega
    subst this; simp [sumTo]
  | succ n ih =>
    by_cases h : d = n + 1
    · subst h
      rw [sumTo_succ]
      congr 1
      apply sumTo_congr
      intro j hj
      unfold skip; rw [if_pos hj]
    · have hd' : d ≤ n := by omega
      rw [sumTo_succ, ih hd', sumTo_succ (n := n)]
      have : skip d n = n + 1 := by unfold skip; rw [if_neg (by omega)]
      rw [this, add_right_comm]

theorem sumTo_split (E : List Nat) (hasc : E.Pairwise (· < ·)) (n : Nat) (hb : ∀ e ∈ E, e < n) (g : Nat → K) :
    sumTo n g = sumTo (n - E.length) (fun p => g (up E p)) + (E.map g).sum := by
  induction E using List.reverseRecOn generalizing n g with
  | nil => simp [up]
  | append_singleton init d ih =>
    rw [List.pairwise_append] at hasc
    obtain ⟨h1, _, h3⟩ := hasc
    have hd : d < n := hb d (by simp)
    obtain ⟨m, rfl⟩ : ∃ m, n = m + 1 := ⟨n - 1, by omega⟩
    have hi : ∀ e ∈ init, e < m := fun e he => by have := h3 e he d (by simp); omega
    rw [sumTo_skip m d (by omega) g, ih h1 m hi (fun j => g (skip d j))]
    have hmap : (init.map fun j => g (skip d j)) = init.map g := by
      apply List.map_congr_left
      intro e he
      have := h3 e he d (by simp)
      unfold skip; rw [if_pos this]
    rw [hmap, List.map_append, List.sum_append]
    simp only [List.map_cons, List.map_nil, List.sum_cons, List.sum_nil, add_zero, List.length_append,
      List.length_cons, List.length_nil]
    have hlen : m + 1 - (init.length + (0 + 1)) = m - init.length := by omega
    rw [hlen]
    have hfun : (fun p => g (up (init ++ [d]) p)) = fun p => g (skip d (up init p)) := by
      funext p; rw [up_append_singleton]
    rw [hfun, add_assoc]

end sums


/-! ## `exclude_dofs_matrix`: entry-wise characterisation of the four blocks -/

section blocks
variable {K : Type} [AddCommMonoid K]
set_option linter.unusedSectionVars false

theorem kuu_entry_aux (num0 n : Nat) (E : List Nat) (h : E.Pairwise (· < ·)) (k : Coo K) (i j : Nat) :
    (excludeDofsMatrix num0 E n k).kuu.toFun i j = k.toFun (up E i) (up E j) := by
  show (dropCols (sortDesc E) (dropRows (sortDesc E) k)).toFun i j = _
  rw [toFun_dropCols, toFun_dropRows, upD_sortDesc h, upD_sortDesc h]

theorem kuk_entry_aux (num0 n : Nat) (E : List Nat) (h : E.Pairwise (· < ·)) (k : Coo K) (i j : Nat) :
    (excludeDofsMatrix num0 E n k).kuk.toFun i j = if j < num0 then k.toFun (up E i) j else 0 := by
  show (dropRows (sortDesc E) (k.filter fun e => decide (e.2.1 < num0))).toFun i j = _
  rw [toFun_dropRows, upD_sortDesc h,
    toFun_filter (fun e => decide (e.2.1 < num0)) k (up E i) j (fun _ c => decide (c < num0)) (fun _ => rfl)]
  simp

theorem kku_entry_aux (num0 n : Nat) (E : List Nat) (h : E.Pairwise (· < ·)) (k : Coo K) (i j : Nat) :
    (excludeDofsMatrix num0 E n k).kku.toFun i j = if i < num0 then k.toFun i (up E j) else 0 := by
  show (dropCols (sortDesc E) (k.filter fun e => decide (e.1 < num0))).toFun i j = _
  rw [toFun_dropCols, upD_sortDesc h,
    toFun_filter (fun e => decide (e.1 < num0)) k i (up E j) (fun r _ => decide (r < num0)) (fun _ => rfl)]
  simp

theorem kkk_entry_aux (num0 n : Nat) (E : List Nat) (h : E.Pairwise (· < ·)) (k : Coo K) (i j : Nat) :
    (excludeDofsMatrix num0 E n k).kkk.toFun i j =
      if up E i < num0 ∧ up E j < num0 then k.toFun (up E i) (up E j) else 0 := by
  show (dropCols (sortDesc E) (dropRows (sortDesc E)
    (k.filter fun e => decide (e.1 < num0) && decide (e.2.1 < num0)))).toFun i j = _
  rw [toFun_dropCols, toFun_dropRows, upD_sortDesc h, upD_sortDesc h,
    toFun_filter (fun e => decide (e.1 < num0) && decide (e.2.1 < num0)) k (up E i) (up E j)
      (fun r c => decide (r < num0) && decide (c < num0)) (fun _ => rfl)]
  simp

theorem shapes_aux (num0 n : Nat) (E : List Nat) (k : Coo K) :
    let b := excludeDofsMatrix num0 E n k
    b.shapeUU = (n - E.length, n - E.length) ∧ b.shapeUK = (n - E.length, num0) ∧
      b.shapeKU = (num0, n - E.length) ∧ b.shapeKK = (num0 - E.length, num0 - E.length) := by
  simp [excludeDofsMatrix]

end blocks

/-! ## `calc_full_c` -/

section fullc
variable {K : Type} [Field K]
set_option linter.unusedSectionVars false

theorem zip_keys_sorted {E : List Nat} (ck : List K) (h : E.Pairwise (· < ·)) :
    (E.zip ck).Pairwise (fun a b => decide (a.1 ≤ b.1) = true) := by
  induction E generalizing ck with
  | nil => simp
  | cons e rest ih =>
    cases ck with
    | nil => simp
    | cons v vs =>
      rw [List.zip_cons_cons, List.pairwise_cons]
      rw [List.pairwise_cons] at h
      refine ⟨?_, ih vs h.2⟩
      intro q hq
      have : q.1 ∈ rest := (List.of_mem_zip hq).1
      simpa using Nat.le_of_lt (h.1 _ this)

theorem calcFullC_reduced (size : Nat) (E : List Nat) (ck : List K) (inc : K) (cu : List K)
    (hasc : E.Pairwise (· < ·)) (hne : cu.length ≠ size) :
    calcFullC size E ck inc cu = insAll (E.zip ck) inc cu := by
  unfold calcFullC insAll
  rw [if_neg hne, List.mergeSort_of_pairwise (zip_keys_sorted ck hasc)]

theorem map_fst_zip_eq {E : List Nat} {ck : List K} (h : ck.length = E.length) : (E.zip ck).map Prod.fst = E :=
  List.map_fst_zip (by omega)

theorem npDelete_eq_delAll {E : List Nat} (hasc : E.Pairwise (· < ·)) (v : List K) :
    npDelete E v = delAll E.reverse v := by
  unfold npDelete delAll; rw [sortDesc_of_ascending hasc]

/-- removing the prescribed amplitudes after re-inserting them gives the reduced vector back -/
theorem delete_fullC_aux (size : Nat) (E : List Nat) (ck : List K) (inc : K) (cu : List K)
    (hasc : E.Pairwise (· < ·)) (hck : ck.length = E.length) (hne : cu.length ≠ size) :
    npDelete E (calcFullC size E ck inc cu) = cu := by
  rw [calcFullC_reduced size E ck inc cu hasc hne, npDelete_eq_delAll hasc]
  have := delAll_insAll (E.zip ck) inc cu
  rwa [map_fst_zip_eq hck] at this

theorem fullC_free_aux (size : Nat) (E : List Nat) (ck : List K) (inc : K) (cu : List K)
    (hasc : E.Pairwise (· < ·)) (hck : ck.length = E.length) (hne : cu.length ≠ size) (p : Nat) :
    (calcFullC size E ck inc cu)[up E p]? = cu[p]? := by
  rw [calcFullC_reduced size E ck inc cu hasc hne]
  have := insAll_getElem?_up (E.zip ck) inc cu p
  rwa [map_fst_zip_eq hck] at this

theorem fullC_prescribed_aux (size : Nat) (E : List Nat) (ck : List K) (inc : K) (cu : List K)
    (hasc : E.Pairwise (· < ·)) (hck : ck.length = E.length) (hne : cu.length ≠ size)
    (hb : ∀ e ∈ E, e < cu.length + E.length) (q : Nat × K) (hq : q ∈ E.zip ck) :
    (calcFullC size E ck inc cu)[q.1]? = some (inc * q.2) := by
  rw [calcFullC_reduced size E ck inc cu hasc hne]
  have hlen : (E.zip ck).length = E.length := by simp [List.length_zip, hck]
  apply insAll_getElem?_mem (E.zip ck) inc cu
  · rw [map_fst_zip_eq hck]; exact hasc
  · rw [map_fst_zip_eq hck, hlen]; exact hb
  · exact hq

theorem fullC_length_aux (size : Nat) (E : List Nat) (ck : List K) (inc : K) (cu : List K)
    (hasc : E.Pairwise (· < ·)) (hck : ck.length = E.length) (hne : cu.length ≠ size)
    (hb : ∀ e ∈ E, e < cu.length + E.length) :
    (calcFullC size E ck inc cu).length = cu.length + E.length := by
  rw [calcFullC_reduced size E ck inc cu hasc hne]
  have hlen : (E.zip ck).length = E.length := by simp [List.length_zip, hck]
  have := insAll_length (E.zip ck) inc cu (by rw [map_fst_zip_eq hck]; exact hasc)
    (by rw [map_fst_zip_eq hck, hlen]; exact hb)
  rwa [hlen] at this

theorem foldl_modify_getElem? (E : List Nat) (hnd : E.Nodup) (inc : K) (c : List K) (i : Nat) :
    (E.foldl (fun c dof => c.modify dof (· * inc)) c)[i]? = (fun a => if i ∈ E then a * inc else a) <$> c[i]? := by
  induction E generalizing c with
  | nil => simp
  | cons d rest ih =>
    rw [List.nodup_cons] at hnd
    rw [List.foldl_cons, ih hnd.2, List.getElem?_modify]
    cases hc : c[i]? with
    | none => rfl
    | some a =>
      by_cases hdi : d = i
      · subst hdi; simp [hnd.1]
      · have : ¬ i = d := fun h => hdi h.symm
        simp [hdi, this]

/-- first branch of `calc_full_c`: a full-size vector has exactly its prescribed entries scaled by `inc` -/
theorem fullC_fullsize_aux (size : Nat) (E : List Nat) (hnd : E.Nodup) (ck : List K) (inc : K) (c : List K)
    (hsize : c.length = size) (i : Nat) :
    (calcFullC size E ck inc c)[i]? = (fun a => if i ∈ E then a * inc else a) <$> c[i]? := by
  unfold calcFullC; rw [if_pos hsize]; exact foldl_modify_getElem? E hnd inc c i

end fullc

/-! ## the reduced linear system -/

section reduced
variable {K : Type} [Field K]

theorem reduced_system_aux (num0 n : Nat) (E : List Nat) (ck : List K) (inc : K) (k : Coo K) (cu fu : List K)
    (hasc : E.Pairwise (· < ·)) (hb : ∀ e ∈ E, e < n) (hnum : ∀ e ∈ E, e < num0) (hck : ck.length = E.length)
    (hcu : cu.length + E.length = n) (hne : E ≠ [])
    (hsolve : ∀ i, i < cu.length →
      sumTo cu.length (fun j => (excludeDofsMatrix num0 E n k).kuu.toFun i j * cu.getD j 0) =
        fu.getD i 0 - ((E.zip ck).map fun q => (excludeDofsMatrix num0 E n k).kuk.toFun i q.1 * (inc * q.2)).sum) :
    ∀ i, i < cu.length →
      sumTo n (fun j => k.toFun (up E i) j * (calcFullC n E ck inc cu).getD j 0) = fu.getD i 0 := by
  intro i hi
  have hlenE : 0 < E.length := List.length_pos_of_ne_nil hne
  have hne' : cu.length ≠ n := by omega
  have hb' : ∀ e ∈ E, e < cu.length + E.length := by rw [hcu]; exact hb
  rw [sumTo_split E hasc n hb]
  have h1 : n - E.length = cu.length := by omega
  rw [h1]
  have hfree : (fun p => k.toFun (up E i) (up E p) * (calcFullC n E ck inc cu).getD (up E p) 0) =
      fun p => (excludeDofsMatrix num0 E n k).kuu.toFun i p * cu.getD p 0 := by
    funext p
    rw [kuu_entry_aux num0 n E hasc, List.getD_eq_getElem?_getD, fullC_free_aux n E ck inc cu hasc hck hne' p,
      ← List.getD_eq_getElem?_getD]
  rw [hfree, hsolve i hi]
  have hpres : (E.map fun j => k.toFun (up E i) j * (calcFullC n E ck inc cu).getD j 0) =
      (E.zip ck).map fun q => (excludeDofsMatrix num0 E n k).kuk.toFun i q.1 * (inc * q.2) := by
    have hE : ∀ g : Nat → K, E.map g = (E.zip ck).map (fun q => g q.1) := fun g => by
      conv_lhs => rw [← map_fst_zip_eq hck]
      rw [List.map_map]; rfl
    rw [hE]
    apply List.map_congr_left
    intro q hq
    have hqE : q.1 ∈ E := (List.of_mem_zip hq).1
    rw [kuk_entry_aux num0 n E hasc, if_pos (hnum _ hqE), List.getD_eq_getElem?_getD,
      fullC_prescribed_aux n E ck inc cu hasc hck hne' hb' q hq]
    rfl
  rw [hpres, sub_add_cancel]

end reduced


/-! ## `_rebuild`: geometry -/

section geometry
variable {K : Type} [Field K] [DecidableEq K]
set_option linter.unusedSimpArgs false

theorem truthy_some (x : K) : truthy (some x) = decide (x ≠ 0) := rfl
theorem truthy_none : truthy (none : Option K) = false := rfl

theorem truthy_false_iff (o : Option K) : truthy o = false ↔ o = none ∨ o = some 0 := by
  cases o with
  | none => simp [truthy]
  | some x => simp [truthy]

theorem truthy_true_iff (o : Option K) : truthy o = true ↔ ∃ x, o = some x ∧ x ≠ 0 := by
  cases o with
  | none => simp [truthy]
  | some x => simp [truthy]

theorem geomRadii_ok (r1 r2 L2 H3 : Option K) (s : K) (o : Geom K) (h : geomRadii r1 r2 L2 H3 s = .ok o) :
    L2 = some o.L ∧ H3 = some o.H ∧ o.r1 = o.r2 + o.L * s := by
  unfold geomRadii at h
  split_ifs at h with h2 h1
  · -- r2 falsy, r1 truthy
    rcases r1 with _ | a <;> rcases L2 with _ | l <;> rcases H3 with _ | hh <;> simp at h
    subst h; refine ⟨rfl, rfl, ?_⟩; ring
  · rcases r2 with _ | b <;> rcases L2 with _ | l <;> rcases H3 with _ | hh <;> simp at h
    subst h; exact ⟨rfl, rfl, rfl⟩

theorem geom_HL (g : GeomIn K) (s c : K) (hc : c ≠ 0) (hHL : ¬ (truthy g.H = true ∧ truthy g.L = true))
    (H1 : Option K) (h1 : geomH1 g s c = .ok H1) (l h : K)
    (hl : geomL2 H1 g.L c = some l) (hh : geomH3 (some l) H1 c = some h) : h = l * c := by
  unfold geomH1 at h1
  by_cases hH : truthy g.H = true
  · -- H given, so L is not
    have hL : truthy g.L = false := by
      cases hLL : truthy g.L with
      | false => rfl
      | true => exact absurd ⟨hH, hLL⟩ hHL
    simp only [hH, hL, Bool.not_true, Bool.false_and, Bool.false_eq_true, if_false] at h1
    injection h1 with h1
    obtain ⟨x, hx, hx0⟩ := (truthy_true_iff g.H).mp hH
    subst h1
    rw [hx] at hl hh
    have hl' : x / c = l := by
      rcases (truthy_false_iff g.L).mp hL with h0 | h0 <;> rw [h0] at hl <;>
        simpa [geomL2, truthy, hx0] using hl
    have hh' : x = h := by simpa [geomH3, truthy, hx0] using hh
    rw [← hh', ← hl']; field_simp
  · have hH' : truthy g.H = false := by simpa using hH
    by_cases hL : truthy g.L = true
    · simp only [hH', hL, Bool.not_true, Bool.and_false, Bool.false_eq_true, if_false] at h1
      injection h1 with h1
      subst h1
      obtain ⟨y, hy, hy0⟩ := (truthy_true_iff g.L).mp hL
      have hl' : y = l := by
        rw [hy] at hl
        rcases (truthy_false_iff g.H).mp hH' with h0 | h0 <;> rw [h0] at hl <;>
          simpa [geomL2, truthy] using hl
      have hl0 : l ≠ 0 := hl' ▸ hy0
      rcases (truthy_false_iff g.H).mp hH' with h0 | h0 <;> rw [h0] at hh <;>
        · have : l * c = h := by simpa [geomH3, truthy, hl0] using hh
          exact this.symm
    · have hL' : truthy g.L = false := by simpa using hL
      simp only [hH', hL', Bool.not_false, Bool.and_self, if_true] at h1
      rcases hr1 : g.r1 with _ | a
      · simp [hr1] at h1
      rcases hr2 : g.r2 with _ | b
      · simp [hr1, hr2] at h1
      simp only [hr1, hr2] at h1
      by_cases hz : s / c = 0
      · rw [if_pos hz] at h1; cases h1
      rw [if_neg hz] at h1
      injection h1 with h1
      subst h1
      by_cases hv : (a - b) / (s / c) = 0
      · -- H computed as 0: stays falsy
        have hl0 : l = 0 := by
          rcases (truthy_false_iff g.L).mp hL' with h0 | h0 <;> rw [h0] at hl <;>
            simp [geomL2, truthy, hv] at hl
          exact hl.symm
        have : (a - b) / (s / c) = h := by simpa [geomH3, truthy, hl0, hv] using hh
        rw [← this, hv, hl0]; ring
      · have hl' : (a - b) / (s / c) / c = l := by
          rcases (truthy_false_iff g.L).mp hL' with h0 | h0 <;> rw [h0] at hl <;>
            simpa [geomL2, truthy, hv] using hl
        have hh' : (a - b) / (s / c) = h := by simpa [geomH3, truthy, hv] using hh
        rw [← hh', ← hl']; field_simp

theorem geometry_consistent_aux (g : GeomIn K) (s c : K) (hc : c ≠ 0)
    (hHL : ¬ (truthy g.H = true ∧ truthy g.L = true)) (o : Geom K) (h : rebuildGeom g s c = .ok o) :
    o.r1 = o.r2 + o.L * s ∧ o.H = o.L * c := by
  unfold rebuildGeom at h
  cases h1 : geomH1 g s c with
  | error e => rw [h1] at h; simp at h
  | ok H1 =>
    rw [h1] at h
    simp only at h
    obtain ⟨hL, hH, hr⟩ := geomRadii_ok _ _ _ _ _ _ h
    refine ⟨hr, ?_⟩
    rw [hL] at hH
    exact geom_HL g s c hc hHL H1 h1 o.L o.H hL hH

end geometry

end Compmech.ConeCyl
