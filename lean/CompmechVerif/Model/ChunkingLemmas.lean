import CompmechVerif.Model.Chunking
import Mathlib.Tactic.Ring
import Mathlib.Tactic.Linarith
import Mathlib.Algebra.BigOperators.Fin
import Mathlib.Algebra.Field.Defs
import Mathlib.Tactic.FinCases

namespace Compmech.Chunking

theorem rows_flatten {α : Type} (k w : Nat) (l : List α) (h : l.length = k * w) :
    (rows k w l).flatten = l := by
  induction k generalizing l with
  | zero =>
    simp only [Nat.zero_mul] at h
    simp [rows, List.length_eq_zero_iff.mp h]
  | succ k ih =>
    simp only [rows, List.flatten_cons]
    have : (l.drop w).length = k * w := by
      rw [List.length_drop, h]; rw [Nat.succ_mul]; omega
    rw [ih _ this, List.take_append_drop]

theorem addSize_dvd (size cores : Nat) (h : 1 ≤ cores) : (size + addSize size cores) % cores = 0 := by
  unfold addSize
  have hlt : size % cores < cores := Nat.mod_lt _ h
  by_cases h0 : size % cores = 0
  · simp [h0]
  · have : cores - size % cores ≠ cores := by omega
    simp only [this, if_false]
    have hdecomp := Nat.div_add_mod size cores
    have : size + (cores - size % cores) = cores * (size / cores + 1) := by
      rw [Nat.mul_add, Nat.mul_one]; omega
    rw [this, Nat.mul_mod_right]

theorem chunkedMap_eq_map {α β : Type} (f : α → β) (z : α) (xs : List α) (cores : Nat) (h : 1 ≤ cores) :
    chunkedMap f z xs cores = xs.map f := by
  unfold chunkedMap
  simp only
  set padded := xs ++ List.replicate (addSize xs.length cores) z with hp
  have hlen : padded.length = xs.length + addSize xs.length cores := by simp [hp]
  have hdiv : padded.length % cores = 0 := by rw [hlen]; exact addSize_dvd _ _ h
  have hmul : padded.length = cores * (padded.length / cores) := by
    have := Nat.div_add_mod padded.length cores
    omega
  have hfl : ((rows cores (padded.length / cores) padded).map (List.map f)).flatten = padded.map f := by
    rw [← List.map_flatten, rows_flatten _ _ _ hmul]
  rw [hfl, hp, List.map_append, List.take_append_of_le_length (by simp), List.take_of_length_le (by simp)]

/-! ### `Panel.strain` / `Panel.stress` -/

open scoped BigOperators

/-- the six products ARE the laminate matrix times the strain vector -/
theorem applyF_vec {K : Type} [CommRing K] (F : Fin 6 → Fin 6 → K) (e : Strain6 K) (r : Fin 6) :
    (applyF F e).vec r = ∑ q : Fin 6, F r q * e.vec q := by
  have hs : ∀ r : Fin 6, stressRow F r e = ∑ q : Fin 6, F r q * e.vec q := by
    intro r
    rw [Fin.sum_univ_six]
    change stressRow F r e = F r 0 * e.exx + F r 1 * e.eyy + F r 2 * e.gxy + F r 3 * e.kxx + F r 4 * e.kyy + F r 5 * e.kxy
    unfold stressRow
    ring
  fin_cases r <;> exact hs _

theorem panelStrain_eq_map {α K : Type} (kernel : Nat → α → Strain6 K) (z : α) (cores : Nat) (h : 1 ≤ cores)
    (NLterms : Bool) (pts : List α) :
    panelStrain kernel z cores NLterms pts = pts.map (kernel (nlFlag NLterms)) :=
  chunkedMap_eq_map _ z pts cores h

theorem panelStress_some {α K : Type} [Add K] [Mul K] (selfF Farg : Option (Fin 6 → Fin 6 → K))
    (F : Fin 6 → Fin 6 → K) (hF : Farg = some F ∨ (Farg = none ∧ selfF = some F))
    (kernel : Nat → α → Strain6 K) (z : α) (cores : Nat) (NLterms : Bool) (pts : List α) :
    panelStress selfF Farg kernel z cores NLterms pts =
      some ((panelStrain kernel z cores NLterms pts).map (applyF F)) := by
  rcases hF with h | ⟨h1, h2⟩
  · subst h; rfl
  · subst h1; subst h2; rfl

theorem panelStress_none {α K : Type} [Add K] [Mul K]
    (kernel : Nat → α → Strain6 K) (z : α) (cores : Nat) (NLterms : Bool) (pts : List α) :
    panelStress (none : Option (Fin 6 → Fin 6 → K)) none kernel z cores NLterms pts = none := rfl

end Compmech.Chunking
