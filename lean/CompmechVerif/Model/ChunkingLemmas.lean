import CompmechVerif.Model.Chunking
import Mathlib.Tactic.Ring
import Mathlib.Tactic.Linarith

namespace Compmech.Chunking

theorem rows_flatten {α : Type} (k w : Nat) (l : List α) (h : l.length = k * w) :
    (rows k w l).flatten = l := by
  induction k generalizing l with
  | zero =>
    simp only [Nat.zero_mul] at h
    simp [rows, List.length_eq_zero_iff.mp h]
  | succ k ih =>
    simp only [rows, List.flatten_cons]
    have : (l.drop w).length = k * w := by
      rw [List.length_drop, h]; rw [Nat.succ_mul]; omega
    rw [ih _ this, List.take_append_drop]

theorem addSize_dvd (size cores : Nat) (h : 1 ≤ cores) : (size + addSize size cores) % cores = 0 := by
  unfold addSize
  have hlt : size % cores < cores := Nat.mod_lt _ h
  by_cases h0 : size % cores = 0
  · simp [h0]
  · have : cores - size % cores ≠ cores := by omega
    simp only [this, if_false]
    have hdecomp := Nat.div_add_mod size cores
    have : size + (cores - size % cores) = cores * (size / cores + 1) := by
      rw [Nat.mul_add, Nat.mul_one]; omega
    rw [this, Nat.mul_mod_right]

theorem chunkedMap_eq_map {α β : Type} (f : α → β) (z : α) (xs : List α) (cores : Nat) (h : 1 ≤ cores) :
    chunkedMap f z xs cores = xs.map f := by
  unfold chunkedMap
  simp only
  set padded := xs ++ List.replicate (addSize xs.length cores) z with hp
  have hlen : padded.length = xs.length + addSize xs.length cores := by simp [hp]
  have hdiv : padded.length % cores = 0 := by rw [hlen]; exact addSize_dvd _ _ h
  have hmul : padded.length = cores * (padded.length / cores) := by
    have := Nat.div_add_mod padded.length cores
    omega
  have hfl : ((rows cores (padded.length / cores) padded).map (List.map f)).flatten = padded.map f := by
    rw [← List.map_flatten, rows_flatten _ _ _ hmul]
  rw [hfl, hp, List.map_append, List.take_append_of_le_length (by simp), List.take_of_length_le (by simp)]

end Compmech.Chunking
