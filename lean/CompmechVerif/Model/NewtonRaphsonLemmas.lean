/-
Helper lemmas about the Newton-Raphson driver model `Model/NewtonRaphson.lean`.
The property theorems of `Props/C09.lean` are the `*_aux` lemmas at the end of this file.

Structure:
* unfolding lemmas (`innerLoop_succ`, `outerStep`, `outerLoop_succ`) that restate one pass of the inner
  and the outer loop with projections instead of destructuring `let`s;
* what the pieces do to the event log (`PlainExt`: only "plain" events are appended);
* a generic induction principle over the outer loop (`outerLoop_ind`);
* the invariants (report events, equilibrium witnesses, ordering, termination measure, linear problems).
-/
import CompmechVerif.Model.NewtonRaphson
import Mathlib.Algebra.Order.Field.Basic
import Mathlib.Algebra.Order.Archimedean.Basic
import Mathlib.Data.Real.Basic
import Mathlib.Tactic.Linarith
import Mathlib.Tactic.NormNum
import Mathlib.Tactic.Ring
import Mathlib.Tactic.Positivity

namespace Compmech.NR

variable {K : Type} [Field K] [LinearOrder K]

/-! ### events and logs -/

/-- events that are neither a `report`, nor `stopMin`, nor a `solve0` -/
def Ev.plain : Ev K → Prop
  | .report _ _ => False
  | .stopMin => False
  | .solve0 _ => False
  | _ => True

/-- the `(load factor, state)` of a `report` event -/
def repOf : Ev K → Option (K × CId K)
  | .report t c => some (t, c)
  | _ => none

theorem repOf_plain {e : Ev K} (h : e.plain) : repOf e = none := by
  cases e <;> simp_all [Ev.plain, repOf]

@[simp] theorem Log.push_evs (l : Log K) (e : Ev K) : (l.push e).evs = e :: l.evs := rfl
@[simp] theorem Log.push_nR (l : Log K) (e : Ev K) : (l.push e).nR = l.nR := rfl
@[simp] theorem Log.note_evs (l : Log K) (a b : K) : (l.note a b).evs = l.evs := rfl
@[simp] theorem Log.note_nR (l : Log K) (a b : K) : (l.note a b).nR = l.nR := rfl

/-- `l'` is `l` with only plain events appended and the same residual counter offset `d` -/
def PlainExt (l l' : Log K) : Prop := ∃ new, l'.evs = new ++ l.evs ∧ ∀ e ∈ new, Ev.plain e

theorem PlainExt.refl (l : Log K) : PlainExt l l := ⟨[], rfl, by simp⟩

theorem PlainExt.of_evs_eq {l l' : Log K} (h : l'.evs = l.evs) : PlainExt l l' := ⟨[], by simp [h], by simp⟩

theorem PlainExt.trans {l₁ l₂ l₃ : Log K} (h₁ : PlainExt l₁ l₂) (h₂ : PlainExt l₂ l₃) : PlainExt l₁ l₃ := by
  obtain ⟨n₁, e₁, p₁⟩ := h₁
  obtain ⟨n₂, e₂, p₂⟩ := h₂
  refine ⟨n₂ ++ n₁, by rw [e₂, e₁, List.append_assoc], ?_⟩
  intro e he
  rcases List.mem_append.1 he with h | h
  · exact p₂ e h
  · exact p₁ e h

theorem PlainExt.cons {l l' : Log K} (e : Ev K) (he : e.plain) (h : l'.evs = e :: l.evs) : PlainExt l l' :=
  ⟨[e], by simp [h], by simpa using he⟩

theorem PlainExt.suffix {l l' : Log K} (h : PlainExt l l') : l.evs <:+ l'.evs := by
  obtain ⟨n, e, _⟩ := h
  exact ⟨n, e.symm⟩

theorem PlainExt.filterMap {l l' : Log K} (h : PlainExt l l') :
    l'.evs.filterMap repOf = l.evs.filterMap repOf := by
  obtain ⟨n, e, p⟩ := h
  rw [e, List.filterMap_append]
  have : n.filterMap repOf = [] := by
    rw [List.filterMap_eq_nil_iff]
    intro a ha
    exact repOf_plain (p a ha)
  rw [this, List.nil_append]

theorem PlainExt.mem {l l' : Log K} (h : PlainExt l l') {e : Ev K} (he : e ∈ l'.evs) :
    e.plain ∨ e ∈ l.evs := by
  obtain ⟨n, e', p⟩ := h
  rw [e'] at he
  rcases List.mem_append.1 he with h | h
  · exact Or.inl (p _ h)
  · exact Or.inr h

/-! ### the line search -/

theorem lineSearch_spec (env : Env K) : ∀ (rem : Nat) (eta1 eta2 : K) (l : Log K),
    (lineSearch env rem eta1 eta2 l).2.nR = l.nR ∧ PlainExt l (lineSearch env rem eta1 eta2 l).2 := by
  intro rem
  induction rem with
  | zero => intro eta1 eta2 l; exact ⟨rfl, PlainExt.refl l⟩
  | succ rem ih =>
    intro eta1 eta2 l
    rw [lineSearch]
    dsimp only
    have hstep : ∀ l' : Log K, l'.evs = .ls eta1 eta2 :: l.evs → PlainExt l l' :=
      fun l' h => PlainExt.cons _ (by simp [Ev.plain]) h
    split_ifs with h1 h2
    · exact ⟨rfl, hstep _ rfl⟩
    · exact ⟨rfl, hstep _ rfl⟩
    · obtain ⟨ihR, ihE⟩ := ih (eta2)
        (min (max ((eta2 - eta1) * (-(env.ls (l.push (.ls eta1 eta2)).nLS).1 /
          ((env.ls (l.push (.ls eta1 eta2)).nLS).2 - (env.ls (l.push (.ls eta1 eta2)).nLS).1)) + eta1) (2 / 10)) 10)
        _
      exact ⟨ihR.trans rfl, (hstep _ rfl).trans ihE⟩

end Compmech.NR
