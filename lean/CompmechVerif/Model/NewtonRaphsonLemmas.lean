/-
Helper lemmas about the Newton-Raphson driver model `Model/NewtonRaphson.lean`.
The property theorems of `Props/C09.lean` are the `*_aux` lemmas at the end of this file.

Structure:
* unfolding lemmas (`innerLoop_succ`, `outerStep`, `outerLoop_succ`) that restate one pass of the inner
  and the outer loop with projections instead of destructuring `let`s;
* what the pieces do to the event log (`PlainExt`: only "plain" events are appended);
* a generic induction principle over the outer loop (`outerLoop_ind`);
* the invariants (report events, equilibrium witnesses, ordering, termination measure, linear problems).
-/
import CompmechVerif.Model.NewtonRaphson
import Mathlib.Algebra.Order.Field.Basic
import Mathlib.Algebra.Order.Archimedean.Basic
import Mathlib.Data.Real.Basic
import Mathlib.Algebra.Order.Archimedean.Real.Basic
import Mathlib.Tactic.Linarith
import Mathlib.Tactic.NormNum
import Mathlib.Tactic.Ring
import Mathlib.Tactic.Positivity

namespace Compmech.NR

variable {K : Type}

/-! ### events and logs -/

/-- events that are neither a `report`, nor `stopMin`, nor a `solve0` -/
def Ev.plain : Ev K → Prop
  | .report _ _ => False
  | .stopMin => False
  | .solve0 _ => False
  | _ => True

/-- the `(load factor, state)` of a `report` event -/
def repOf : Ev K → Option (K × CId K)
  | .report t c => some (t, c)
  | _ => none

theorem repOf_plain {e : Ev K} (h : e.plain) : repOf e = none := by
  cases e <;> simp_all [Ev.plain, repOf]

@[simp] theorem Log.push_evs (l : Log K) (e : Ev K) : (l.push e).evs = e :: l.evs := rfl
@[simp] theorem Log.push_nR (l : Log K) (e : Ev K) : (l.push e).nR = l.nR := rfl
section
variable [Field K] [LinearOrder K]
@[simp] theorem Log.note_evs (l : Log K) (a b : K) : (l.note a b).evs = l.evs := rfl
@[simp] theorem Log.note_nR (l : Log K) (a b : K) : (l.note a b).nR = l.nR := rfl
end

/-- `b` is `a` with only plain events pushed in front (event lists are newest first) -/
def PlainExt (a b : List (Ev K)) : Prop := ∃ new, b = new ++ a ∧ ∀ e ∈ new, Ev.plain e

theorem PlainExt.refl (a : List (Ev K)) : PlainExt a a := ⟨[], rfl, by simp⟩

theorem PlainExt.trans {a b c : List (Ev K)} (h₁ : PlainExt a b) (h₂ : PlainExt b c) : PlainExt a c := by
  obtain ⟨n₁, e₁, p₁⟩ := h₁
  obtain ⟨n₂, e₂, p₂⟩ := h₂
  refine ⟨n₂ ++ n₁, by rw [e₂, e₁, List.append_assoc], ?_⟩
  intro e he
  rcases List.mem_append.1 he with h | h
  · exact p₂ e h
  · exact p₁ e h

theorem PlainExt.cons {a b : List (Ev K)} {e : Ev K} (h : PlainExt a b) (he : e.plain) :
    PlainExt a (e :: b) := by
  obtain ⟨n, e₁, p⟩ := h
  refine ⟨e :: n, by rw [e₁]; rfl, ?_⟩
  intro x hx
  rcases List.mem_cons.1 hx with h | h
  · exact h ▸ he
  · exact p x h

theorem PlainExt.suffix {a b : List (Ev K)} (h : PlainExt a b) : a <:+ b := by
  obtain ⟨n, e, _⟩ := h
  exact ⟨n, e.symm⟩

theorem PlainExt.filterMap {a b : List (Ev K)} (h : PlainExt a b) :
    b.filterMap repOf = a.filterMap repOf := by
  obtain ⟨n, e, p⟩ := h
  rw [e, List.filterMap_append]
  have : n.filterMap repOf = [] := by
    rw [List.filterMap_eq_nil_iff]
    intro a ha
    exact repOf_plain (p a ha)
  rw [this, List.nil_append]

theorem PlainExt.mem {a b : List (Ev K)} (h : PlainExt a b) {e : Ev K} (he : e ∈ b) :
    e.plain ∨ e ∈ a := by
  obtain ⟨n, e', p⟩ := h
  rw [e'] at he
  rcases List.mem_append.1 he with h | h
  · exact Or.inl (p _ h)
  · exact Or.inr h

variable [Field K] [LinearOrder K]

/-! ### the line search -/

theorem lineSearch_spec (env : Env K) : ∀ (rem : Nat) (eta1 eta2 : K) (l : Log K),
    (lineSearch env rem eta1 eta2 l).2.nR = l.nR ∧
      PlainExt l.evs (lineSearch env rem eta1 eta2 l).2.evs := by
  intro rem
  induction rem with
  | zero => intro eta1 eta2 l; exact ⟨rfl, PlainExt.refl _⟩
  | succ rem ih =>
    intro eta1 eta2 l
    rw [lineSearch]
    dsimp only
    have hstep : PlainExt l.evs (.ls eta1 eta2 :: l.evs) := (PlainExt.refl _).cons (by simp [Ev.plain])
    split_ifs with h1 h2
    · exact ⟨rfl, hstep⟩
    · exact ⟨rfl, hstep⟩
    · obtain ⟨ihR, ihE⟩ := ih (eta2)
        (min (max ((eta2 - eta1) * (-(env.ls (l.push (.ls eta1 eta2)).nLS).1 /
          ((env.ls (l.push (.ls eta1 eta2)).nLS).2 - (env.ls (l.push (.ls eta1 eta2)).nLS).1)) + eta1) (2 / 10)) 10)
        _
      exact ⟨ihR.trans rfl, hstep.trans ihE⟩

/-! ### the Newton iteration loop -/

/-- the tangent-refresh part of one Newton iteration -/
def refreshSt (cfg : Cfg K) (total : K) (stepNum iteration : Nat) (s : Inner K) (l : Log K) :
    Inner K × Log K :=
  if (s.computeKT || (cfg.kTInitialState && stepNum == 1 && iteration == 1)
        || s.iterNR == cfg.computeEveryN - 1) = true then
    ({ s with iterNR := 0, kT := l.nKT + 1 },
      ({ l with nKT := l.nKT + 1 } : Log K).push (.kT s.c total (l.nKT + 1)))
  else
    ({ s with iterNR := s.iterNR + 1, computeKT := if cfg.modifiedNR then s.computeKT else true }, l)

omit [Field K] [LinearOrder K] in
theorem refreshSt_spec (cfg : Cfg K) (total : K) (stepNum iteration : Nat) (s : Inner K) (l : Log K) :
    (refreshSt cfg total stepNum iteration s l).1.c = s.c ∧
    (refreshSt cfg total stepNum iteration s l).2.nR = l.nR ∧
    PlainExt l.evs (refreshSt cfg total stepNum iteration s l).2.evs := by
  unfold refreshSt
  split
  · exact ⟨rfl, rfl, (PlainExt.refl _).cons (by simp [Ev.plain])⟩
  · exact ⟨rfl, rfl, PlainExt.refl _⟩

/-- the line-search part of one Newton iteration -/
def updateLog (cfg : Cfg K) (env : Env K) (l : Log K) : K × Log K :=
  if cfg.lineSearch then lineSearch env cfg.maxIterLS 0 1 l else (1, l)

theorem updateLog_spec (cfg : Cfg K) (env : Env K) (l : Log K) :
    (updateLog cfg env l).2.nR = l.nR ∧ PlainExt l.evs (updateLog cfg env l).2.evs := by
  unfold updateLog
  split_ifs
  · exact lineSearch_spec env _ _ _ _
  · exact ⟨rfl, PlainExt.refl _⟩

theorem innerLoop_succ (cfg : Cfg K) (env : Env K) (total : K) (stepNum rem : Nat) (s : Inner K)
    (l : Log K) :
    innerLoop cfg env total stepNum (rem + 1) s l =
      (let iteration := cfg.maxNumIter - rem
       let p := refreshSt cfg total stepNum iteration s l
       let r := env.rmax p.2.nR
       let l1 := ({ p.2 with nR := p.2.nR + 1 } : Log K).push (.fint p.1.c total iteration r)
       if iteration ≥ 2 ∧ r < cfg.absTOL then (.converged, p.1, l1)
       else if r > p.1.prevR ∧ r > p.1.minR ∧ iteration > 2 then (.diverged, p.1, l1)
       else if iteration > 2 ∧ p.1.prevR ≠ 0 ∧ absK (p.1.prevR - r) / absK p.1.prevR < cfg.tooSlowTOL then
         (.tooSlow, { p.1 with minR := min p.1.minR r }, l1)
       else
         let q := updateLog cfg env (l1.push (.solveD p.1.kT))
         let l3 := ({ q.2 with nC := q.2.nC + 1 } : Log K).push (.update q.1 (.upd (q.2.nC + 1)))
         innerLoop cfg env total stepNum rem
           { p.1 with minR := min p.1.minR r, prevR := r, c := .upd (q.2.nC + 1) } l3) := by
  rw [innerLoop]
  unfold refreshSt updateLog
  dsimp only
  split_ifs <;> rfl

/-- the inner loop only appends plain events -/
theorem innerLoop_plainExt (cfg : Cfg K) (env : Env K) (total : K) (stepNum : Nat) :
    ∀ (rem : Nat) (s : Inner K) (l : Log K),
      PlainExt l.evs (innerLoop cfg env total stepNum rem s l).2.2.evs := by
  intro rem
  induction rem with
  | zero => intro s l; exact PlainExt.refl _
  | succ rem ih =>
    intro s l
    rw [innerLoop_succ]
    dsimp only
    obtain ⟨-, -, hp⟩ := refreshSt_spec cfg total stepNum (cfg.maxNumIter - rem) s l
    have h1 : ∀ r : K, PlainExt l.evs (.fint (refreshSt cfg total stepNum (cfg.maxNumIter - rem) s l).1.c total
        (cfg.maxNumIter - rem) r :: (refreshSt cfg total stepNum (cfg.maxNumIter - rem) s l).2.evs) :=
      fun r => hp.cons (by simp [Ev.plain])
    split_ifs
    · exact h1 _
    · exact h1 _
    · exact h1 _
    · refine PlainExt.trans ?_ (ih _ _)
      dsimp only [Log.push_evs]
      refine PlainExt.cons ?_ (by simp [Ev.plain])
      refine PlainExt.trans ?_ (updateLog_spec cfg env _).2
      dsimp only [Log.push_evs]
      exact (h1 _).cons (by simp [Ev.plain])

/-- the inner loop reports convergence only right after a residual evaluation of the returned state, at
iteration ≥ 2, below tolerance -/
theorem innerLoop_converged (cfg : Cfg K) (env : Env K) (total : K) (stepNum : Nat) :
    ∀ (rem : Nat) (s : Inner K) (l : Log K),
      (innerLoop cfg env total stepNum rem s l).1 = .converged →
      ∃ it r rest, (innerLoop cfg env total stepNum rem s l).2.2.evs =
          .fint (innerLoop cfg env total stepNum rem s l).2.1.c total it r :: rest ∧
        2 ≤ it ∧ r < cfg.absTOL := by
  intro rem
  induction rem with
  | zero => intro s l h; simp [innerLoop] at h
  | succ rem ih =>
    intro s l
    rw [innerLoop_succ]
    dsimp only
    split_ifs with h1 h2 h3
    · intro _
      exact ⟨_, _, _, rfl, h1.1, h1.2⟩
    · intro h; simp at h
    · intro h; simp at h
    · exact ih _ _

/-! ### the bisection -/

theorem bisect_log (cfg : Cfg K) : ∀ (n : Nat) (inc total : K) (once : Bool) (maxTotal : K) (l : Log K),
    (bisect cfg n inc total once maxTotal l).2.2.2.evs = l.evs ∧
      (bisect cfg n inc total once maxTotal l).2.2.2.nR = l.nR := by
  intro n
  induction n with
  | zero => intro inc total once maxTotal l; exact ⟨rfl, rfl⟩
  | succ n ih =>
    intro inc total once maxTotal l
    rw [bisect]
    dsimp only
    split_ifs
    all_goals first
      | exact ⟨rfl, rfl⟩
      | exact ⟨(ih _ _ _ _ _).1.trans rfl, (ih _ _ _ _ _).2.trans rfl⟩

section ordered
variable [IsStrictOrderedRing K]

/-- one pass of the bisection: the increment is multiplied by 3/10, `total - inc` is kept, and the pass
is not repeated -/
theorem bisect_spec (cfg : Cfg K) (n : Nat) (inc total maxTotal : K) (once : Bool) (l : Log K)
    (hinc : 0 < inc) (hmax : total ≤ maxTotal) :
    (bisect cfg (n + 1) inc total once maxTotal l).1 = inc * (3 / 10) ∧
    (bisect cfg (n + 1) inc total once maxTotal l).2.1 =
      (if inc * (3 / 10) < cfg.minInc then total - inc else total - inc + inc * (3 / 10)) ∧
    bisect cfg (n + 1) inc total once maxTotal l = bisect cfg 1 inc total once maxTotal l := by
  have hlt : ¬ (total - inc + inc * (3 / 10) ≥ maxTotal) := by
    intro h
    have : total - inc + inc * (3 / 10) < total := by linarith
    exact absurd (lt_of_lt_of_le this hmax) (not_lt.2 h)
  rw [bisect, bisect]
  dsimp only
  split_ifs <;> simp_all

theorem bisect_one_pass_aux (cfg : Cfg K) (n : Nat) (inc total maxTotal : K) (once : Bool) (l : Log K)
    (hinc : 0 < inc) (hmax : total ≤ maxTotal) :
    bisect cfg (n + 1) inc total once maxTotal l = bisect cfg 1 inc total once maxTotal l :=
  (bisect_spec cfg n inc total maxTotal once l hinc hmax).2.2

end ordered

/-! ### one pass of the outer loop -/

/-- the inner loop as started by the outer loop -/
def innerOf (cfg : Cfg K) (env : Env K) (o : Outer K) (l : Log K) : InnerExit × Inner K × Log K :=
  innerLoop cfg env o.total o.stepNum cfg.maxNumIter ⟨o.c, o.kTLast, o.computeKT, 0, 1000000, 1000000⟩
    (l.push (.fext o.total))

/-- the limit on the new increment after a converged, non-final step -/
def limOf (o : Outer K) : K := if o.onceAtTotal then (1 - o.total) / 2 else 1 - o.total

/-- the new increment after a converged, non-final step -/
def incNext (cfg : Cfg K) (o : Outer K) : K := min (min (11 / 10 * o.inc) cfg.maxInc) (limOf o)

/-- outer pass after a converged inner loop (`s`, `l` are the inner loop's results) -/
def succStep (cfg : Cfg K) (o : Outer K) (s : Inner K) (l : Log K) : Option Outcome × Outer K × Log K :=
  let l1 := (l.push (.report o.total s.c)).note (absK (o.total - 1)) (1 / 1000)
  if absK (o.total - 1) < 1 / 1000 then
    (some .finished, { o with computeKT := s.computeKT, c := s.c, reports := (o.total, s.c) :: o.reports }, l1)
  else
    let lim := limOf o
    let l2 := ((l1.note (11 / 10 * o.inc) cfg.maxInc).note (11 / 10 * o.inc) lim).note cfg.maxInc lim
    let total' := min 1 (o.total + incNext cfg o)
    let p : Nat × Log K :=
      if cfg.modifiedNR then
        (l2.nKT + 1, ({ l2 with nKT := l2.nKT + 1 } : Log K).push (.kT s.c total' (l2.nKT + 1)))
      else (s.kT, l2)
    (none,
      { o with computeKT := false, c := s.c, reports := (o.total, s.c) :: o.reports, inc := incNext cfg o,
               total := total', stepNum := o.stepNum + 1, kTLast := p.1 },
      p.2.push (.restart s.c))

/-- outer pass after a failed inner loop -/
def failStep (cfg : Cfg K) (o : Outer K) (s : Inner K) (l : Log K) : Option Outcome × Outer K × Log K :=
  let mt := max o.maxTotal o.total
  let b := bisect cfg 64 o.inc o.total o.onceAtTotal mt l
  let o2 : Outer K := { o with computeKT := s.computeKT, c := s.c, inc := b.1, total := b.2.1,
                               onceAtTotal := b.2.2.1, maxTotal := mt }
  if b.1 < cfg.minInc then (some .minInc, o2, b.2.2.2.push .stopMin)
  else
    match o.reports with
    | (_, c) :: _ => (none, { o2 with c := c }, b.2.2.2.push (.restart c))
    | [] => (none, { o2 with c := .init b.1 }, (b.2.2.2.push (.fext b.1)).push (.solve0 b.1))

def outerStep (cfg : Cfg K) (env : Env K) (o : Outer K) (l : Log K) : Option Outcome × Outer K × Log K :=
  if (innerOf cfg env o l).1 = .converged then succStep cfg o (innerOf cfg env o l).2.1 (innerOf cfg env o l).2.2
  else failStep cfg o (innerOf cfg env o l).2.1 (innerOf cfg env o l).2.2

/-- continue with `f` unless the pass has produced an outcome -/
def andThen (st : Option Outcome × Outer K × Log K) (f : Outer K → Log K → Outcome × Outer K × Log K) :
    Outcome × Outer K × Log K :=
  match st.1 with
  | some oc => (oc, st.2)
  | none => f st.2.1 st.2.2

omit [Field K] [LinearOrder K] in
theorem andThen_some {st : Option Outcome × Outer K × Log K} {oc : Outcome} (h : st.1 = some oc)
    (f : Outer K → Log K → Outcome × Outer K × Log K) : andThen st f = (oc, st.2) := by
  unfold andThen; rw [h]

omit [Field K] [LinearOrder K] in
theorem andThen_none {st : Option Outcome × Outer K × Log K} (h : st.1 = none)
    (f : Outer K → Log K → Outcome × Outer K × Log K) : andThen st f = f st.2.1 st.2.2 := by
  unfold andThen; rw [h]

theorem outerLoop_succ (cfg : Cfg K) (env : Env K) (n : Nat) (o : Outer K) (l : Log K) :
    outerLoop cfg env (n + 1) o l = andThen (outerStep cfg env o l) (outerLoop cfg env n) := by
  conv_lhs => unfold outerLoop
  unfold outerStep succStep failStep innerOf incNext limOf andThen
  obtain ⟨inc, total, once, mt, ck, sn, kl, c, reports⟩ := o
  rcases reports with _ | ⟨⟨t, c'⟩, tl⟩ <;> dsimp only <;> split_ifs <;> rfl

theorem outerLoop_zero (cfg : Cfg K) (env : Env K) (o : Outer K) (l : Log K) :
    outerLoop cfg env 0 o l = (.outOfFuel, o, l) := by
  unfold outerLoop; rfl

/-- induction over the outer loop: `P` holds whenever the loop is (re-)entered, `Q` for what it returns -/
theorem outerLoop_ind (cfg : Cfg K) (env : Env K) (P : Outer K → Log K → Prop)
    (Q : Outcome × Outer K × Log K → Prop)
    (h0 : ∀ o l, P o l → Q (.outOfFuel, o, l))
    (hs : ∀ o l, P o l →
      (∀ oc, (outerStep cfg env o l).1 = some oc → Q (oc, (outerStep cfg env o l).2)) ∧
      ((outerStep cfg env o l).1 = none → P (outerStep cfg env o l).2.1 (outerStep cfg env o l).2.2)) :
    ∀ n o l, P o l → Q (outerLoop cfg env n o l) := by
  intro n
  induction n with
  | zero => intro o l h; rw [outerLoop_zero]; exact h0 o l h
  | succ n ih =>
    intro o l h
    rw [outerLoop_succ]
    unfold andThen
    obtain ⟨h1, h2⟩ := hs o l h
    split
    · next oc hoc => exact h1 oc hoc
    · next hoc => exact ih _ _ (h2 hoc)

/-- the four ways one pass of the outer loop can go -/
theorem succStep_cases (cfg : Cfg K) (o : Outer K) (s : Inner K) (l : Log K) :
    ((succStep cfg o s l).1 = some .finished ∧ absK (o.total - 1) < 1 / 1000 ∧
      (succStep cfg o s l).2.2.evs = .report o.total s.c :: l.evs ∧
      (succStep cfg o s l).2.1.inc = o.inc ∧ (succStep cfg o s l).2.1.total = o.total ∨
     (succStep cfg o s l).1 = none ∧ ¬ absK (o.total - 1) < 1 / 1000 ∧
      PlainExt (.report o.total s.c :: l.evs) (succStep cfg o s l).2.2.evs ∧
      (succStep cfg o s l).2.1.inc = incNext cfg o ∧
      (succStep cfg o s l).2.1.total = min 1 (o.total + incNext cfg o)) ∧
    (succStep cfg o s l).2.1.reports = (o.total, s.c) :: o.reports ∧
    (succStep cfg o s l).2.2.nR = l.nR := by
  unfold succStep
  dsimp only
  split_ifs with h1 h2
  · exact ⟨Or.inl ⟨rfl, h1, rfl, rfl, rfl⟩, rfl, rfl⟩
  · refine ⟨Or.inr ⟨rfl, h1, ?_, rfl, rfl⟩, rfl, rfl⟩
    dsimp only [Log.push_evs, Log.note_evs]
    exact ((PlainExt.refl _).cons (by simp [Ev.plain])).cons (by simp [Ev.plain])
  · refine ⟨Or.inr ⟨rfl, h1, ?_, rfl, rfl⟩, rfl, rfl⟩
    dsimp only [Log.push_evs, Log.note_evs]
    exact (PlainExt.refl _).cons (by simp [Ev.plain])

theorem failStep_cases (cfg : Cfg K) (o : Outer K) (s : Inner K) (l : Log K) :
    ((failStep cfg o s l).1 = some .minInc ∧ (failStep cfg o s l).2.1.inc < cfg.minInc ∧
      (failStep cfg o s l).2.2.evs = .stopMin :: l.evs ∨
     (failStep cfg o s l).1 = none ∧ ¬ (failStep cfg o s l).2.1.inc < cfg.minInc ∧
      ((∃ c, (failStep cfg o s l).2.2.evs = .restart c :: l.evs) ∨
        (failStep cfg o s l).2.2.evs = .solve0 (failStep cfg o s l).2.1.inc ::
          .fext (failStep cfg o s l).2.1.inc :: l.evs)) ∧
    (failStep cfg o s l).2.1.reports = o.reports ∧
    (failStep cfg o s l).2.1.inc = (bisect cfg 64 o.inc o.total o.onceAtTotal (max o.maxTotal o.total) l).1 ∧
    (failStep cfg o s l).2.1.total = (bisect cfg 64 o.inc o.total o.onceAtTotal (max o.maxTotal o.total) l).2.1 := by
  have hb := (bisect_log cfg 64 o.inc o.total o.onceAtTotal (max o.maxTotal o.total) l).1
  unfold failStep
  obtain ⟨inc, total, once, mt, ck, sn, kl, c, reports⟩ := o
  rcases reports with _ | ⟨⟨t, c'⟩, tl⟩ <;> dsimp only at hb ⊢ <;> split_ifs with h1
  · exact ⟨Or.inl ⟨rfl, h1, by simp [hb]⟩, rfl, rfl, rfl⟩
  · exact ⟨Or.inr ⟨rfl, h1, Or.inr (by simp [hb])⟩, rfl, rfl, rfl⟩
  · exact ⟨Or.inl ⟨rfl, h1, by simp [hb]⟩, rfl, rfl, rfl⟩
  · exact ⟨Or.inr ⟨rfl, h1, Or.inl ⟨c', by simp [hb]⟩⟩, rfl, rfl, rfl⟩

theorem innerOf_plainExt (cfg : Cfg K) (env : Env K) (o : Outer K) (l : Log K) :
    PlainExt l.evs (innerOf cfg env o l).2.2.evs := by
  unfold innerOf
  refine PlainExt.trans ?_ (innerLoop_plainExt cfg env _ _ _ _ _)
  exact (PlainExt.refl _).cons (by simp [Ev.plain])

/-- the ways one pass of the outer loop can go: converged (finished / continue) or failed (stop / continue) -/
theorem outerStep_cases (cfg : Cfg K) (env : Env K) (o : Outer K) (l : Log K) :
    ∀ st, st = outerStep cfg env o l →
    (∃ c it r rest,
      (innerOf cfg env o l).1 = .converged ∧
      PlainExt l.evs (.fint c o.total it r :: rest) ∧ 2 ≤ it ∧ r < cfg.absTOL ∧
      st.2.1.reports = (o.total, c) :: o.reports ∧ st.2.2.nR = (innerOf cfg env o l).2.2.nR ∧
      (st.1 = some .finished ∧ absK (o.total - 1) < 1 / 1000 ∧
          st.2.2.evs = .report o.total c :: .fint c o.total it r :: rest ∧
          st.2.1.inc = o.inc ∧ st.2.1.total = o.total ∨
       st.1 = none ∧ ¬ absK (o.total - 1) < 1 / 1000 ∧
          PlainExt (.report o.total c :: .fint c o.total it r :: rest) st.2.2.evs ∧
          st.2.1.inc = incNext cfg o ∧ st.2.1.total = min 1 (o.total + incNext cfg o))) ∨
    (∃ mid,
      (innerOf cfg env o l).1 ≠ .converged ∧ PlainExt l.evs mid ∧ st.2.1.reports = o.reports ∧
      st.2.1.inc = (bisect cfg 64 o.inc o.total o.onceAtTotal (max o.maxTotal o.total)
        (innerOf cfg env o l).2.2).1 ∧
      st.2.1.total = (bisect cfg 64 o.inc o.total o.onceAtTotal (max o.maxTotal o.total)
        (innerOf cfg env o l).2.2).2.1 ∧
      (st.1 = some .minInc ∧ st.2.1.inc < cfg.minInc ∧ st.2.2.evs = .stopMin :: mid ∨
       st.1 = none ∧ ¬ st.2.1.inc < cfg.minInc ∧
          ((∃ c, st.2.2.evs = .restart c :: mid) ∨
            st.2.2.evs = .solve0 st.2.1.inc :: .fext st.2.1.inc :: mid))) := by
  intro st hst
  unfold outerStep at hst
  have hpe := innerOf_plainExt cfg env o l
  split_ifs at hst with hc
  · left
    obtain ⟨it, r, rest, he, h2, hr⟩ :=
      innerLoop_converged cfg env o.total o.stepNum cfg.maxNumIter _ _ hc
    have he' : (innerOf cfg env o l).2.2.evs = .fint (innerOf cfg env o l).2.1.c o.total it r :: rest := he
    obtain ⟨hcase, hrep, hnR⟩ := succStep_cases cfg o (innerOf cfg env o l).2.1 (innerOf cfg env o l).2.2
    rw [← hst, he'] at hcase
    rw [← hst] at hrep hnR
    exact ⟨_, it, r, rest, hc, he' ▸ hpe, h2, hr, hrep, hnR, hcase⟩
  · right
    obtain ⟨hcase, hrep, hinc, htot⟩ := failStep_cases cfg o (innerOf cfg env o l).2.1 (innerOf cfg env o l).2.2
    rw [← hst] at hcase hrep hinc htot
    exact ⟨_, hc, hpe, hrep, hinc, htot, hcase⟩

/-! ### the reported list is the list of `report` events -/

theorem outerStep_evs (cfg : Cfg K) (env : Env K) (o : Outer K) (l : Log K)
    (h : o.reports = l.evs.filterMap repOf) :
    (outerStep cfg env o l).2.1.reports = (outerStep cfg env o l).2.2.evs.filterMap repOf := by
  rcases outerStep_cases cfg env o l _ rfl with
    ⟨c, it, r, rest, -, hpe, -, -, hrep, -, hcase⟩ | ⟨mid, -, hpe, hrep, -, -, hcase⟩
  · have h1 : (Ev.report o.total c :: Ev.fint c o.total it r :: rest).filterMap repOf =
        (o.total, c) :: o.reports := by
      have h2 : ∀ L : List (Ev K), (Ev.report o.total c :: L).filterMap repOf =
          (o.total, c) :: L.filterMap repOf := fun L => rfl
      rw [h2, hpe.filterMap, h]
    rcases hcase with ⟨-, -, he, -, -⟩ | ⟨-, -, he, -, -⟩
    · rw [hrep, he, h1]
    · rw [hrep, he.filterMap, h1]
  · rw [hrep, h, ← hpe.filterMap]
    rcases hcase with ⟨-, -, he⟩ | ⟨-, -, ⟨c, he⟩ | he⟩ <;> rw [he] <;> rfl

/-- the initial outer state and log of `solverNR` -/
def cfgOf (cfg0 : Cfg K) : Cfg K := { cfg0 with maxInc := max cfg0.initialInc cfg0.maxInc }
def log0 (cfg0 : Cfg K) : Log K :=
  ⟨[.solve0 cfg0.initialInc, .k0, .fext cfg0.initialInc], 0, 0, 0, 0, 1⟩
def outer0 (cfg0 : Cfg K) : Outer K :=
  ⟨cfg0.initialInc, cfg0.initialInc, false, 0, !cfg0.modifiedNR, 1, 0, .init cfg0.initialInc, []⟩

theorem solverNR_eq (cfg0 : Cfg K) (env : Env K) (fuel : Nat) :
    solverNR cfg0 env fuel = outerLoop (cfgOf cfg0) env fuel (outer0 cfg0) (log0 cfg0) := rfl

theorem reported_eq_report_events_aux (cfg : Cfg K) (env : Env K) (fuel : Nat) :
    reported (solverNR cfg env fuel) =
      (events (solverNR cfg env fuel)).filterMap fun e => match e with
        | Ev.report t c => some (t, c)
        | _ => none := by
  have hf : (fun e : Ev K => match e with
        | Ev.report t c => some (t, c)
        | _ => none) = repOf := by
    funext e; cases e <;> rfl
  rw [hf, solverNR_eq]
  unfold reported events
  rw [List.filterMap_reverse]
  congr 1
  refine outerLoop_ind (cfgOf cfg) env (fun o l => o.reports = l.evs.filterMap repOf)
    (fun r => r.2.1.reports = r.2.2.evs.filterMap repOf) (fun o l h => h) ?_ fuel _ _ ?_
  · intro o l h
    exact ⟨fun _ _ => outerStep_evs _ env o l h, fun _ => outerStep_evs _ env o l h⟩
  · simp [outer0, log0, repOf]

/-! ### every reported pair is preceded by its converged residual evaluation -/

theorem outerStep_suffix (cfg : Cfg K) (env : Env K) (o : Outer K) (l : Log K) :
    l.evs <:+ (outerStep cfg env o l).2.2.evs := by
  rcases outerStep_cases cfg env o l _ rfl with
    ⟨c, it, r, rest, -, hpe, -, -, -, -, hcase⟩ | ⟨mid, -, hpe, -, -, -, hcase⟩
  · rcases hcase with ⟨-, -, he, -, -⟩ | ⟨-, -, he, -, -⟩
    · rw [he]; exact hpe.suffix.trans (List.suffix_cons _ _)
    · exact (hpe.suffix.trans (List.suffix_cons _ _)).trans he.suffix
  · rcases hcase with ⟨-, -, he⟩ | ⟨-, -, ⟨c, he⟩ | he⟩ <;> rw [he]
    · exact hpe.suffix.trans (List.suffix_cons _ _)
    · exact hpe.suffix.trans (List.suffix_cons _ _)
    · exact (hpe.suffix.trans (List.suffix_cons _ _)).trans (List.suffix_cons _ _)

/-- the equilibrium witness of a reported pair -/
def EqInv (cfg : Cfg K) (o : Outer K) (l : Log K) : Prop :=
  ∀ t c, (t, c) ∈ o.reports →
    ∃ it r, [Ev.report t c, Ev.fint c t it r] <:+: l.evs ∧ 2 ≤ it ∧ r < cfg.absTOL

theorem outerStep_eqInv (cfg : Cfg K) (env : Env K) (o : Outer K) (l : Log K) (h : EqInv cfg o l) :
    EqInv cfg (outerStep cfg env o l).2.1 (outerStep cfg env o l).2.2 := by
  have hsuf := outerStep_suffix cfg env o l
  have hold : ∀ t c, (t, c) ∈ o.reports → ∃ it r,
      [Ev.report t c, Ev.fint c t it r] <:+: (outerStep cfg env o l).2.2.evs ∧ 2 ≤ it ∧ r < cfg.absTOL := by
    intro t c htc
    obtain ⟨it, r, hin, h2, hr⟩ := h t c htc
    exact ⟨it, r, hin.trans hsuf.isInfix, h2, hr⟩
  rcases outerStep_cases cfg env o l _ rfl with
    ⟨c, it, r, rest, -, -, h2, hr, hrep, -, hcase⟩ | ⟨mid, -, -, hrep, -, -, -⟩
  · intro t' c' hmem
    rw [hrep] at hmem
    rcases List.mem_cons.1 hmem with heq | hmem
    · rw [(Prod.mk.inj heq).1, (Prod.mk.inj heq).2]
      have hpre : [Ev.report o.total c, Ev.fint c o.total it r] <:+:
          (Ev.report o.total c :: Ev.fint c o.total it r :: rest) :=
        (List.IsPrefix.isInfix ⟨rest, rfl⟩)
      refine ⟨it, r, ?_, h2, hr⟩
      rcases hcase with ⟨-, -, he, -, -⟩ | ⟨-, -, he, -, -⟩
      · rw [he]; exact hpre
      · exact hpre.trans he.suffix.isInfix
    · exact hold t' c' hmem
  · intro t' c' hmem
    rw [hrep] at hmem
    exact hold t' c' hmem

theorem reported_equilibrated_aux (cfg : Cfg K) (env : Env K) (fuel : Nat) (t : K) (c : CId K)
    (h : (t, c) ∈ reported (solverNR cfg env fuel)) :
    ∃ pre post it r, events (solverNR cfg env fuel) = pre ++ [Ev.fint c t it r, Ev.report t c] ++ post
      ∧ 2 ≤ it ∧ r < cfg.absTOL := by
  have key : EqInv (cfgOf cfg) (solverNR cfg env fuel).2.1 (solverNR cfg env fuel).2.2 := by
    rw [solverNR_eq]
    refine outerLoop_ind (cfgOf cfg) env (EqInv (cfgOf cfg)) (fun r => EqInv (cfgOf cfg) r.2.1 r.2.2)
      (fun o l h => h) ?_ fuel _ _ ?_
    · intro o l h
      exact ⟨fun _ _ => outerStep_eqInv _ env o l h, fun _ => outerStep_eqInv _ env o l h⟩
    · intro t c hmem
      simp [outer0] at hmem
  unfold reported at h
  obtain ⟨it, r, ⟨s, p, hsp⟩, h2, hr⟩ := key t c (List.mem_reverse.1 h)
  refine ⟨p.reverse, s.reverse, it, r, ?_, h2, hr⟩
  unfold events
  rw [← hsp]
  simp

/-! ### snapshots -/

theorem outerStep_reports_suffix (cfg : Cfg K) (env : Env K) (o : Outer K) (l : Log K) :
    o.reports <:+ (outerStep cfg env o l).2.1.reports := by
  rcases outerStep_cases cfg env o l _ rfl with
    ⟨c, it, r, rest, -, -, -, -, hrep, -, -⟩ | ⟨mid, -, -, hrep, -, -, -⟩
  · rw [hrep]; exact List.suffix_cons _ _
  · rw [hrep]

theorem outerLoop_reports_suffix (cfg : Cfg K) (env : Env K) (n : Nat) (o : Outer K) (l : Log K) :
    o.reports <:+ (outerLoop cfg env n o l).2.1.reports := by
  refine outerLoop_ind cfg env (fun o' _ => o.reports <:+ o'.reports) (fun r => o.reports <:+ r.2.1.reports)
    (fun o' l' h => h) ?_ n o l (List.suffix_refl _)
  intro o' l' h
  exact ⟨fun _ _ => h.trans (outerStep_reports_suffix cfg env o' l'),
    fun _ => h.trans (outerStep_reports_suffix cfg env o' l')⟩

theorem outerLoop_reports_mono (cfg : Cfg K) (env : Env K) : ∀ (n : Nat) (o : Outer K) (l : Log K),
    (outerLoop cfg env n o l).2.1.reports <:+ (outerLoop cfg env (n + 1) o l).2.1.reports := by
  intro n
  induction n with
  | zero =>
    intro o l
    rw [outerLoop_zero]
    exact outerLoop_reports_suffix cfg env 1 o l
  | succ n ih =>
    intro o l
    rw [outerLoop_succ cfg env (n + 1), outerLoop_succ cfg env n]
    unfold andThen
    split
    · exact List.suffix_refl _
    · exact ih _ _

theorem snapshots_immutable_aux (cfg : Cfg K) (env : Env K) (fuel : Nat) :
    reported (solverNR cfg env fuel) <+: reported (solverNR cfg env (fuel + 1)) := by
  unfold reported
  rw [List.reverse_prefix, solverNR_eq, solverNR_eq]
  exact outerLoop_reports_mono _ env fuel _ _

/-! ### what is guaranteed at the end -/

theorem final_partial_aux (cfg : Cfg K) (_h : Admissible cfg) (env : Env K) (fuel : Nat) :
    let r := solverNR cfg env fuel
    (r.1 = Outcome.finished → ∃ t c, (reported r).getLast? = some (t, c) ∧ absK (t - 1) < 1 / 1000) ∧
    (r.1 = Outcome.minInc → r.2.1.inc < cfg.minInc) := by
  intro r
  have key : (r.1 = Outcome.finished → ∃ t c, r.2.1.reports.head? = some (t, c) ∧ absK (t - 1) < 1 / 1000) ∧
      (r.1 = Outcome.minInc → r.2.1.inc < (cfgOf cfg).minInc) := by
    refine outerLoop_ind (cfgOf cfg) env (fun _ _ => True)
      (fun r => (r.1 = Outcome.finished → ∃ t c, r.2.1.reports.head? = some (t, c) ∧ absK (t - 1) < 1 / 1000) ∧
        (r.1 = Outcome.minInc → r.2.1.inc < (cfgOf cfg).minInc)) ?_ ?_ fuel (outer0 cfg) (log0 cfg) trivial
    · intro o l _
      exact ⟨fun h => by simp at h, fun h => by simp at h⟩
    · intro o l _
      refine ⟨?_, fun _ => trivial⟩
      intro oc hoc
      rcases outerStep_cases (cfgOf cfg) env o l _ rfl with
        ⟨c, it, r, rest, -, -, -, -, hrep, -, hcase⟩ | ⟨mid, -, -, -, -, -, hcase⟩
      · rcases hcase with ⟨hst, habs, -, -, -⟩ | ⟨hst, -, -, -, -⟩
        · rw [hst] at hoc
          obtain rfl := Option.some.inj hoc
          refine ⟨fun _ => ⟨o.total, c, ?_, habs⟩, fun h => by simp at h⟩
          dsimp only
          rw [hrep]; rfl
        · rw [hst] at hoc; simp at hoc
      · rcases hcase with ⟨hst, hlt, -⟩ | ⟨hst, -, -⟩
        · rw [hst] at hoc
          obtain rfl := Option.some.inj hoc
          exact ⟨fun h => by simp at h, fun _ => hlt⟩
        · rw [hst] at hoc; simp at hoc
  refine ⟨fun hf => ?_, key.2⟩
  obtain ⟨t, c, hh, ha⟩ := key.1 hf
  refine ⟨t, c, ?_, ha⟩
  unfold reported
  rw [List.getLast?_reverse]
  exact hh

/-! ### load factors: ordering, range -/

section ordered
variable [IsStrictOrderedRing K]

theorem absK_sub_one {t : K} (h1 : t ≤ 1) (h : ¬ absK (t - 1) < 1 / 1000) : 1 / 1000 ≤ 1 - t := by
  unfold absK at h
  split_ifs at h with h0
  · have : -(t - 1) = 1 - t := by ring
    rw [this] at h
    exact not_lt.1 h
  · exfalso
    have : t - 1 = 0 := le_antisymm (by linarith) (not_lt.1 h0)
    rw [this] at h
    exact h (by norm_num)

theorem limOf_bounds (o : Outer K) (h : 0 ≤ 1 - o.total) : (1 - o.total) / 2 ≤ limOf o ∧ limOf o ≤ 1 - o.total := by
  unfold limOf
  split_ifs
  · exact ⟨le_refl _, by linarith⟩
  · exact ⟨by linarith, le_refl _⟩

/-- numeric invariant of the outer loop (at loop entry): `total - inc` is the last reported load factor -/
structure NumInv (o : Outer K) : Prop where
  inc_pos : 0 < o.inc
  total_le : o.total ≤ 1
  last_nonneg : 0 ≤ o.total - o.inc
  mem : ∀ t ∈ o.reports.map Prod.fst, 0 < t ∧ t ≤ o.total - o.inc
  sorted : (o.reports.map Prod.fst).Pairwise (· > ·)

/-- reported load factors (newest first) are strictly decreasing and in `(0, 1]` -/
def RepOK (reps : List (K × CId K)) : Prop :=
  (reps.map Prod.fst).Pairwise (· > ·) ∧ ∀ t ∈ reps.map Prod.fst, 0 < t ∧ t ≤ 1

theorem NumInv.repOK {o : Outer K} (h : NumInv o) : RepOK o.reports :=
  ⟨h.sorted, fun t ht => ⟨(h.mem t ht).1, by have := (h.mem t ht).2; have := h.inc_pos; have := h.total_le; linarith⟩⟩

theorem NumInv.repOK_cons {o : Outer K} (h : NumInv o) (c : CId K) : RepOK ((o.total, c) :: o.reports) := by
  have hi := h.inc_pos
  have ht := h.total_le
  have hl := h.last_nonneg
  constructor
  · rw [List.map_cons, List.pairwise_cons]
    refine ⟨fun t ht' => ?_, h.sorted⟩
    have := (h.mem t ht').2
    show t < o.total
    linarith
  · intro t ht'
    rw [List.map_cons, List.mem_cons] at ht'
    rcases ht' with rfl | ht'
    · exact ⟨by show 0 < o.total; linarith, ht⟩
    · exact h.repOK.2 t ht'

theorem outerStep_num (cfg : Cfg K) (hmaxInc : 0 < cfg.maxInc) (env : Env K) (o : Outer K) (l : Log K)
    (h : NumInv o) :
    RepOK (outerStep cfg env o l).2.1.reports ∧
    ((outerStep cfg env o l).1 = none → NumInv (outerStep cfg env o l).2.1 ∧
      ((outerStep cfg env o l).2.1.total - (outerStep cfg env o l).2.1.inc = o.total ∧
          1 / 1000 ≤ 1 - o.total ∧ (outerStep cfg env o l).2.1.inc = incNext cfg o ∨
       (outerStep cfg env o l).2.1.total - (outerStep cfg env o l).2.1.inc = o.total - o.inc ∧
          (outerStep cfg env o l).2.1.inc = o.inc * (3 / 10) ∧ cfg.minInc ≤ (outerStep cfg env o l).2.1.inc)) := by
  have hi := h.inc_pos
  have ht := h.total_le
  have hl := h.last_nonneg
  rcases outerStep_cases cfg env o l _ rfl with
    ⟨c, it, r, rest, -, -, -, -, hrep, -, hcase⟩ | ⟨mid, -, -, hrep, hinc, htot, hcase⟩
  · refine ⟨hrep ▸ h.repOK_cons c, fun hnone => ?_⟩
    rcases hcase with ⟨hst, -, -, -, -⟩ | ⟨-, habs, -, hinc, htot⟩
    · rw [hst] at hnone; simp at hnone
    · have h1 := absK_sub_one ht habs
      obtain ⟨hl1, hl2⟩ := limOf_bounds o (by linarith)
      have hpos : 0 < incNext cfg o := by
        unfold incNext
        refine lt_min (lt_min (by linarith) hmaxInc) (by linarith)
      have hle : incNext cfg o ≤ 1 - o.total := (min_le_right _ _).trans hl2
      have htot' : (outerStep cfg env o l).2.1.total = o.total + incNext cfg o := by
        rw [htot]; exact min_eq_right (by linarith)
      have hlast : (outerStep cfg env o l).2.1.total - (outerStep cfg env o l).2.1.inc = o.total := by
        rw [htot', hinc]; ring
      refine ⟨⟨by rw [hinc]; exact hpos, by rw [htot']; linarith, by rw [hlast]; linarith, ?_, ?_⟩,
        Or.inl ⟨hlast, h1, hinc⟩⟩
      · rw [hlast, hrep]
        intro t ht'
        rw [List.map_cons, List.mem_cons] at ht'
        rcases ht' with rfl | ht'
        · exact ⟨by show 0 < o.total; linarith, le_refl _⟩
        · have := h.mem t ht'
          exact ⟨this.1, by linarith [this.2]⟩
      · rw [hrep]; exact (h.repOK_cons c).1
  · refine ⟨hrep ▸ h.repOK, fun hnone => ?_⟩
    obtain ⟨hb1, hb2, -⟩ := bisect_spec cfg 63 o.inc o.total (max o.maxTotal o.total) o.onceAtTotal
      (innerOf cfg env o l).2.2 hi (le_max_right _ _)
    rw [hb1] at hinc
    rw [hb2] at htot
    rcases hcase with ⟨hst, -, -⟩ | ⟨-, hge, -⟩
    · rw [hst] at hnone; simp at hnone
    · rw [hinc] at hge
      rw [if_neg hge] at htot
      have hlast : (outerStep cfg env o l).2.1.total - (outerStep cfg env o l).2.1.inc = o.total - o.inc := by
        rw [htot, hinc]; ring
      refine ⟨⟨by rw [hinc]; linarith, by rw [htot]; linarith, by rw [hlast]; exact hl, ?_, ?_⟩,
        Or.inr ⟨hlast, hinc, by rw [hinc]; exact not_lt.1 hge⟩⟩
      · rw [hlast, hrep]; exact h.mem
      · rw [hrep]; exact h.sorted

omit [IsStrictOrderedRing K] in
theorem cfgOf_maxInc_pos {cfg : Cfg K} (h : Admissible cfg) : 0 < (cfgOf cfg).maxInc :=
  lt_of_lt_of_le h.1 (le_max_left _ _)

omit [IsStrictOrderedRing K] in
theorem numInv_outer0 {cfg : Cfg K} (h : Admissible cfg) : NumInv (outer0 cfg) := by
  obtain ⟨h1, h2, -⟩ := h
  refine ⟨h1, h2, ?_, ?_, ?_⟩
  · show 0 ≤ cfg.initialInc - cfg.initialInc
    simp
  · intro t ht; simp [outer0] at ht
  · simp [outer0]

theorem reported_increasing_aux (cfg : Cfg K) (h : Admissible cfg) (env : Env K) (fuel : Nat) :
    ((reported (solverNR cfg env fuel)).map Prod.fst).Pairwise (· < ·) ∧
      ∀ t ∈ (reported (solverNR cfg env fuel)).map Prod.fst, 0 < t ∧ t ≤ 1 := by
  have key : RepOK (solverNR cfg env fuel).2.1.reports := by
    rw [solverNR_eq]
    refine outerLoop_ind (cfgOf cfg) env (fun o _ => NumInv o) (fun r => RepOK r.2.1.reports)
      (fun o l h => h.repOK) ?_ fuel _ _ (numInv_outer0 h)
    intro o l ho
    obtain ⟨h1, h2⟩ := outerStep_num (cfgOf cfg) (cfgOf_maxInc_pos h) env o l ho
    exact ⟨fun _ _ => h1, fun hn => (h2 hn).1⟩
  unfold reported
  rw [List.map_reverse, List.pairwise_reverse]
  refine ⟨key.1, fun t ht => key.2 t (List.mem_reverse.1 ht)⟩

/-! ### termination -/

omit [IsStrictOrderedRing K] in
theorem outerStep_ne_outOfFuel (cfg : Cfg K) (env : Env K) (o : Outer K) (l : Log K) :
    (outerStep cfg env o l).1 ≠ some .outOfFuel := by
  intro h
  rcases outerStep_cases cfg env o l _ rfl with
    ⟨c, it, r, rest, -, -, -, -, -, -, hcase⟩ | ⟨mid, -, -, -, -, -, hcase⟩
  · rcases hcase with ⟨hst, -⟩ | ⟨hst, -⟩ <;> rw [hst] at h <;> simp at h
  · rcases hcase with ⟨hst, -⟩ | ⟨hst, -⟩ <;> rw [hst] at h <;> simp at h

omit [IsStrictOrderedRing K] in
/-- once the loop has stopped for a reason other than running out of fuel, more fuel changes nothing -/
theorem outerLoop_stable (cfg : Cfg K) (env : Env K) : ∀ (n : Nat) (o : Outer K) (l : Log K),
    (outerLoop cfg env n o l).1 ≠ .outOfFuel → ∀ m, n ≤ m → outerLoop cfg env m o l = outerLoop cfg env n o l := by
  intro n
  induction n with
  | zero => intro o l h; rw [outerLoop_zero] at h; exact absurd rfl h
  | succ n ih =>
    intro o l h m hm
    obtain ⟨m, rfl⟩ : ∃ m', m = m' + 1 := ⟨m - 1, by omega⟩
    rw [outerLoop_succ] at h ⊢
    rw [outerLoop_succ]
    rcases hoc : (outerStep cfg env o l).1 with _ | oc
    · rw [andThen_none hoc] at h ⊢
      rw [andThen_none hoc]
      exact ih _ _ h m (by omega)
    · rw [andThen_some hoc, andThen_some hoc]

/-- the potential that decreases by at least one in every pass of the outer loop -/
def pot (A G : K) (o : Outer K) : K := (1 - (o.total - o.inc)) * A + o.inc * G

theorem pot_nonneg {A G : K} (hA : 0 ≤ A) (hG : 0 ≤ G) {o : Outer K} (h : NumInv o) : 0 ≤ pot A G o := by
  have hi := h.inc_pos
  have ht := h.total_le
  unfold pot
  exact add_nonneg (mul_nonneg (by linarith) hA) (mul_nonneg hi.le hG)

theorem outerStep_pot (cfg : Cfg K) (ι A G : K) (hmaxInc : 0 < cfg.maxInc)
    (hι1 : ι ≤ cfg.minInc) (hι2 : ι ≤ cfg.maxInc) (hι3 : ι ≤ 1 / 2000) (hG : 0 ≤ G)
    (hA' : ∀ x, ι ≤ x → G + 1 ≤ x * A) (hG' : ∀ x, cfg.minInc ≤ x * (3 / 10) → 1 ≤ x * (7 / 10) * G)
    (env : Env K) (o : Outer K) (l : Log K) (h : NumInv o) (hi : ι ≤ o.inc)
    (hnone : (outerStep cfg env o l).1 = none) :
    NumInv (outerStep cfg env o l).2.1 ∧ ι ≤ (outerStep cfg env o l).2.1.inc ∧
      pot A G (outerStep cfg env o l).2.1 ≤ pot A G o - 1 := by
  obtain ⟨hnum, hcase⟩ := (outerStep_num cfg hmaxInc env o l h).2 hnone
  have hip := h.inc_pos
  have ht := h.total_le
  refine ⟨hnum, ?_⟩
  rcases hcase with ⟨hlast, h1, hinc⟩ | ⟨hlast, hinc, hge⟩
  · obtain ⟨hl1, -⟩ := limOf_bounds o (by linarith)
    have hιinc : ι ≤ (outerStep cfg env o l).2.1.inc := by
      rw [hinc]
      unfold incNext
      exact le_min (le_min (by linarith) hι2) (by linarith)
    refine ⟨hιinc, ?_⟩
    have hle1 : (outerStep cfg env o l).2.1.inc ≤ 1 := by
      have := hnum.total_le
      have := hnum.last_nonneg
      linarith
    have h3 : (outerStep cfg env o l).2.1.inc * G ≤ 1 * G := mul_le_mul_of_nonneg_right hle1 hG
    have h4 : 0 ≤ o.inc * G := mul_nonneg hip.le hG
    have h5 := hA' o.inc hi
    unfold pot
    rw [hlast]
    linarith
  · refine ⟨by linarith, ?_⟩
    have h5 := hG' o.inc (by rw [hinc] at hge; exact hge)
    unfold pot
    rw [hlast, hinc]
    linarith

theorem outerLoop_terminates (cfg : Cfg K) (ι A G : K) (hmaxInc : 0 < cfg.maxInc)
    (hι1 : ι ≤ cfg.minInc) (hι2 : ι ≤ cfg.maxInc) (hι3 : ι ≤ 1 / 2000) (hG : 0 ≤ G) (hA : 0 ≤ A)
    (hA' : ∀ x, ι ≤ x → G + 1 ≤ x * A) (hG' : ∀ x, cfg.minInc ≤ x * (3 / 10) → 1 ≤ x * (7 / 10) * G)
    (env : Env K) : ∀ (n : Nat) (o : Outer K) (l : Log K), NumInv o → ι ≤ o.inc → pot A G o < n →
      (outerLoop cfg env n o l).1 ≠ .outOfFuel := by
  intro n
  induction n with
  | zero =>
    intro o l h _ hp
    have := pot_nonneg hA hG h
    rw [Nat.cast_zero] at hp
    exact absurd hp (not_lt.2 this)
  | succ n ih =>
    intro o l h hi hp
    rw [outerLoop_succ]
    unfold andThen
    split
    · next oc hoc =>
      intro hoc'
      have : oc = .outOfFuel := hoc'
      rw [this] at hoc
      exact outerStep_ne_outOfFuel cfg env o l hoc
    · next hoc =>
      obtain ⟨h1, h2, h3⟩ := outerStep_pot cfg ι A G hmaxInc hι1 hι2 hι3 hG hA' hG' env o l h hi hoc
      refine ih _ _ h1 h2 ?_
      rw [Nat.cast_succ] at hp
      linarith

end ordered

theorem terminates_aux (cfg : Cfg ℝ) (h : Admissible cfg) :
    ∃ N, ∀ (env : Env ℝ) (fuel : Nat), N ≤ fuel →
      (solverNR cfg env fuel).1 ≠ Outcome.outOfFuel ∧ solverNR cfg env fuel = solverNR cfg env N := by
  have hadm := h
  obtain ⟨h1, h2, h3, h4, -⟩ := h
  have hmaxInc : 0 < (cfgOf cfg).maxInc := lt_of_lt_of_le h1 (le_max_left _ _)
  set ι : ℝ := min (min cfg.minInc cfg.initialInc) (1 / 2000) with hι
  have hιpos : 0 < ι := lt_min (lt_min h3 h1) (by norm_num)
  have hι1 : ι ≤ (cfgOf cfg).minInc := (min_le_left _ _).trans (min_le_left _ _)
  have hι0 : ι ≤ cfg.initialInc := (min_le_left _ _).trans (min_le_right _ _)
  have hι2 : ι ≤ (cfgOf cfg).maxInc := hι0.trans (le_max_left _ _)
  have hι3 : ι ≤ 1 / 2000 := min_le_right _ _
  set G : ℝ := 10 / 7 / cfg.minInc with hGdef
  have hG : 0 ≤ G := by positivity
  set A : ℝ := (G + 1) / ι with hAdef
  have hA : 0 ≤ A := by positivity
  have hA' : ∀ x, ι ≤ x → G + 1 ≤ x * A := by
    intro x hx
    have : G + 1 = ι * A := by rw [hAdef]; field_simp
    rw [this]
    exact mul_le_mul_of_nonneg_right hx hA
  have hG' : ∀ x, (cfgOf cfg).minInc ≤ x * (3 / 10) → 1 ≤ x * (7 / 10) * G := by
    intro x hx
    have hx' : cfg.minInc ≤ x * (3 / 10) := hx
    have hm : cfg.minInc * G = 10 / 7 := by rw [hGdef]; field_simp
    have : cfg.minInc * G ≤ x * (3 / 10) * G := mul_le_mul_of_nonneg_right hx' hG
    nlinarith
  obtain ⟨N, hN⟩ := exists_nat_gt (pot A G (outer0 cfg))
  refine ⟨N, fun env fuel hfuel => ?_⟩
  have hne : (outerLoop (cfgOf cfg) env N (outer0 cfg) (log0 cfg)).1 ≠ .outOfFuel :=
    outerLoop_terminates (cfgOf cfg) ι A G hmaxInc hι1 hι2 hι3 hG hA hA' hG' env N _ _
      (numInv_outer0 hadm) hι0 hN
  have hst := outerLoop_stable (cfgOf cfg) env N _ _ hne fuel hfuel
  rw [solverNR_eq, solverNR_eq, hst]
  exact ⟨hne, rfl⟩

/-! ### linear problems: every load level converges at its second iteration -/

theorem innerLoop_iter1 (cfg : Cfg K) (env : Env K) (total : K) (stepNum rem : Nat) (s : Inner K) (l : Log K)
    (hit : cfg.maxNumIter - rem = 1) :
    ∃ s' l', innerLoop cfg env total stepNum (rem + 1) s l = innerLoop cfg env total stepNum rem s' l' ∧
      l'.nR = l.nR + 1 := by
  rw [innerLoop_succ, hit]
  dsimp only
  rw [if_neg (by rintro ⟨h, -⟩; omega), if_neg (by rintro ⟨-, -, h⟩; omega), if_neg (by rintro ⟨h, -⟩; omega)]
  refine ⟨_, _, rfl, ?_⟩
  dsimp only [Log.push_nR]
  rw [(updateLog_spec cfg env _).1]
  dsimp only [Log.push_nR]
  rw [(refreshSt_spec cfg total stepNum 1 s l).2.1]

theorem innerLoop_iter2 (cfg : Cfg K) (env : Env K) (total : K) (stepNum rem : Nat) (s : Inner K) (l : Log K)
    (hit : cfg.maxNumIter - rem = 2) (hr : env.rmax l.nR < cfg.absTOL) :
    (innerLoop cfg env total stepNum (rem + 1) s l).1 = .converged ∧
      (innerLoop cfg env total stepNum (rem + 1) s l).2.2.nR = l.nR + 1 := by
  have hn := (refreshSt_spec cfg total stepNum 2 s l).2.1
  rw [innerLoop_succ, hit]
  dsimp only
  rw [if_pos ⟨le_refl 2, by rw [hn]; exact hr⟩]
  refine ⟨rfl, ?_⟩
  dsimp only [Log.push_nR]
  rw [hn]

theorem innerOf_linear (cfg : Cfg K) (env : Env K) (hlin : ∀ k, env.rmax (2 * k + 1) < cfg.absTOL)
    (h2 : 2 ≤ cfg.maxNumIter) (o : Outer K) (l : Log K) (k : Nat) (hk : l.nR = 2 * k) :
    (innerOf cfg env o l).1 = .converged ∧ (innerOf cfg env o l).2.2.nR = 2 * (k + 1) := by
  obtain ⟨m, hm⟩ : ∃ m, cfg.maxNumIter = m + 2 := ⟨cfg.maxNumIter - 2, by omega⟩
  unfold innerOf
  rw [hm]
  obtain ⟨s', l', he, hn⟩ := innerLoop_iter1 cfg env o.total o.stepNum (m + 1)
    ⟨o.c, o.kTLast, o.computeKT, 0, 1000000, 1000000⟩ (l.push (.fext o.total)) (by omega)
  rw [he]
  have hn' : l'.nR = 2 * k + 1 := by rw [hn, Log.push_nR, hk]
  obtain ⟨h3, h4⟩ := innerLoop_iter2 cfg env o.total o.stepNum m s' l' (by omega) (by rw [hn']; exact hlin k)
  exact ⟨h3, by rw [h4, hn']; ring⟩

/-- events allowed in the trace of a linear problem -/
def EvOK (cfg0 : Cfg K) (e : Ev K) : Prop :=
  e ≠ Ev.stopMin ∧ ∀ inc, e ≠ Ev.solve0 inc ∨ inc = cfg0.initialInc

omit [Field K] [LinearOrder K] in
theorem EvOK.of_plain (cfg0 : Cfg K) {e : Ev K} (h : e.plain) : EvOK cfg0 e := by
  cases e <;> simp_all [Ev.plain, EvOK]

def LinInv (cfg0 : Cfg K) (l : Log K) : Prop := (∃ k, l.nR = 2 * k) ∧ ∀ e ∈ l.evs, EvOK cfg0 e

theorem outerStep_linear (cfg0 cfg : Cfg K) (env : Env K) (hlin : ∀ k, env.rmax (2 * k + 1) < cfg.absTOL)
    (h2 : 2 ≤ cfg.maxNumIter) (o : Outer K) (l : Log K) (h : LinInv cfg0 l) :
    LinInv cfg0 (outerStep cfg env o l).2.2 ∧ (outerStep cfg env o l).1 ≠ some .minInc := by
  obtain ⟨⟨k, hk⟩, hev⟩ := h
  obtain ⟨hconv, hnR⟩ := innerOf_linear cfg env hlin h2 o l k hk
  rcases outerStep_cases cfg env o l _ rfl with
    ⟨c, it, r, rest, -, hpe, -, -, -, hnR', hcase⟩ | ⟨mid, hnc, -⟩
  · have hrep : EvOK cfg0 (Ev.report o.total c) := by simp [EvOK]
    have hmid : ∀ e ∈ (Ev.report o.total c :: Ev.fint c o.total it r :: rest), EvOK cfg0 e := by
      intro e he
      rcases List.mem_cons.1 he with rfl | he
      · exact hrep
      · rcases hpe.mem he with hp | hl
        · exact EvOK.of_plain cfg0 hp
        · exact hev e hl
    rcases hcase with ⟨hst, -, he, -, -⟩ | ⟨hst, -, he, -, -⟩
    · refine ⟨⟨⟨k + 1, hnR'.trans hnR⟩, ?_⟩, by rw [hst]; simp⟩
      rw [he]; exact hmid
    · refine ⟨⟨⟨k + 1, hnR'.trans hnR⟩, ?_⟩, by rw [hst]; simp⟩
      intro e hmem
      rcases he.mem hmem with hp | hl
      · exact EvOK.of_plain cfg0 hp
      · exact hmid e hl
  · exact absurd hconv hnc

theorem linear_problem_finishes_aux (cfg : Cfg ℝ) (h : Admissible cfg) (env : Env ℝ)
    (hlin : ∀ k, env.rmax (2 * k + 1) < cfg.absTOL) (h2 : 2 ≤ cfg.maxNumIter) :
    ∃ N, (solverNR cfg env N).1 = Outcome.finished ∧
      ∀ e ∈ events (solverNR cfg env N), e ≠ Ev.stopMin ∧ ∀ inc, e ≠ Ev.solve0 inc ∨ inc = cfg.initialInc := by
  obtain ⟨N, hN⟩ := terminates_aux cfg h
  obtain ⟨hne, -⟩ := hN env N (le_refl N)
  have key : (solverNR cfg env N).1 ≠ .minInc ∧ ∀ e ∈ (solverNR cfg env N).2.2.evs, EvOK cfg e := by
    rw [solverNR_eq]
    refine outerLoop_ind (cfgOf cfg) env (fun _ l => LinInv cfg l)
      (fun r => r.1 ≠ .minInc ∧ ∀ e ∈ r.2.2.evs, EvOK cfg e) ?_ ?_ N (outer0 cfg) (log0 cfg) ?_
    · intro o l hl
      exact ⟨by simp, hl.2⟩
    · intro o l hl
      obtain ⟨h3, h4⟩ := outerStep_linear cfg (cfgOf cfg) env hlin h2 o l hl
      refine ⟨fun oc hoc => ⟨?_, h3.2⟩, fun _ => h3⟩
      intro hoc'
      have : oc = .minInc := hoc'
      rw [this] at hoc
      exact h4 hoc
    · refine ⟨⟨0, rfl⟩, ?_⟩
      intro e he
      simp only [log0, List.mem_cons, List.not_mem_nil, or_false] at he
      rcases he with rfl | rfl | rfl
      · exact ⟨by simp, fun inc => by
          by_cases hi : inc = cfg.initialInc
          · exact Or.inr hi
          · exact Or.inl (fun heq => hi (Ev.solve0.inj heq).symm)⟩
      · simp [EvOK]
      · simp [EvOK]
  refine ⟨N, ?_, ?_⟩
  · rcases hoc : (solverNR cfg env N).1 with _ | _ | _
    · rfl
    · exact absurd hoc key.1
    · exact absurd hoc hne
  · intro e he
    unfold events at he
    exact key.2 e (List.mem_reverse.1 he)

/-! ### the counter-example to "the last load factor is 1" -/

theorem outerStep_once (cfg : Cfg K) (env : Env K) (o : Outer K) (l : Log K)
    (hc : (innerOf cfg env o l).1 = .converged) :
    (outerStep cfg env o l).2.1.onceAtTotal = o.onceAtTotal := by
  unfold outerStep
  rw [if_pos hc]
  unfold succStep
  dsimp only
  split_ifs <;> rfl

/-- one pass of the outer loop for a linear problem -/
theorem outerLoop_linear_step (cfg : Cfg K) (env : Env K) (hlin : ∀ k, env.rmax (2 * k + 1) < cfg.absTOL)
    (h2 : 2 ≤ cfg.maxNumIter) (n : Nat) (o : Outer K) (l : Log K) (k : Nat) (hk : l.nR = 2 * k) :
    (absK (o.total - 1) < 1 / 1000 →
      (outerLoop cfg env (n + 1) o l).1 = .finished ∧
      (outerLoop cfg env (n + 1) o l).2.1.reports.map Prod.fst = o.total :: o.reports.map Prod.fst) ∧
    (¬ absK (o.total - 1) < 1 / 1000 →
      ∃ o' l', outerLoop cfg env (n + 1) o l = outerLoop cfg env n o' l' ∧ l'.nR = 2 * (k + 1) ∧
        o'.reports.map Prod.fst = o.total :: o.reports.map Prod.fst ∧ o'.onceAtTotal = o.onceAtTotal ∧
        o'.inc = incNext cfg o ∧ o'.total = min 1 (o.total + incNext cfg o)) := by
  obtain ⟨hconv, hnR⟩ := innerOf_linear cfg env hlin h2 o l k hk
  have honce := outerStep_once cfg env o l hconv
  rw [outerLoop_succ]
  rcases outerStep_cases cfg env o l _ rfl with
    ⟨c, it, r, rest, -, -, -, -, hrep, hnR', hcase⟩ | ⟨mid, hnc, -⟩
  · have hmap : (outerStep cfg env o l).2.1.reports.map Prod.fst = o.total :: o.reports.map Prod.fst := by
      rw [hrep]; rfl
    rcases hcase with ⟨hst, habs, -, -, -⟩ | ⟨hst, habs, -, hinc, htot⟩
    · refine ⟨fun _ => ?_, fun hn => absurd habs hn⟩
      rw [andThen_some hst]
      exact ⟨rfl, hmap⟩
    · refine ⟨fun hp => absurd hp habs, fun _ => ?_⟩
      rw [andThen_none hst]
      exact ⟨_, _, rfl, hnR'.trans hnR, hmap, honce, hinc, htot⟩
  · exact absurd hconv hnc

def cexCfg : Cfg ℚ := ⟨3333 / 10000, 1 / 1000, 3333 / 10000, 1 / 1000, 1 / 100, 30, false, 20, true, 6, true⟩
def cexEnv : Env ℚ := ⟨fun k => if k % 2 = 0 then 1 else 0, fun _ => (1, 2)⟩

theorem cex_main : Admissible cexCfg ∧ (solverNR cexCfg cexEnv 10).1 = Outcome.finished ∧
    (reported (solverNR cexCfg cexEnv 10)).map Prod.fst = [3333 / 10000, 6666 / 10000, 9999 / 10000] := by
  refine ⟨by unfold Admissible cexCfg; norm_num, ?_⟩
  have hlin : ∀ k, cexEnv.rmax (2 * k + 1) < (cfgOf cexCfg).absTOL := by
    intro k
    have hk : (2 * k + 1) % 2 ≠ 0 := by omega
    show (if (2 * k + 1) % 2 = 0 then (1 : ℚ) else 0) < 1 / 1000
    rw [if_neg hk]
    norm_num
  have h2 : 2 ≤ (cfgOf cexCfg).maxNumIter := by
    show 2 ≤ 30
    norm_num
  have hmax : (cfgOf cexCfg).maxInc = 3333 / 10000 := by
    show max (3333 / 10000 : ℚ) (3333 / 10000) = 3333 / 10000
    exact max_self _
  rw [solverNR_eq]
  -- first load level: 0.3333
  obtain ⟨-, hs1⟩ := outerLoop_linear_step (cfgOf cexCfg) cexEnv hlin h2 9 (outer0 cexCfg) (log0 cexCfg) 0 rfl
  have ht0 : (outer0 cexCfg).total = 3333 / 10000 := rfl
  have hi0 : (outer0 cexCfg).inc = 3333 / 10000 := rfl
  have ho0 : (outer0 cexCfg).onceAtTotal = false := rfl
  have hr0 : (outer0 cexCfg).reports.map Prod.fst = [] := rfl
  obtain ⟨o1, l1, he1, hn1, hr1, ho1, hi1, ht1⟩ := hs1 (by rw [ht0]; unfold absK; norm_num)
  have hi1' : o1.inc = 3333 / 10000 := by
    rw [hi1]; unfold incNext limOf; rw [hmax, hi0, ht0, ho0]; norm_num
  have ht1' : o1.total = 6666 / 10000 := by
    rw [ht1, ← hi1, hi1', ht0]; norm_num
  rw [ho0] at ho1
  rw [ht0, hr0] at hr1
  -- second load level: 0.6666
  obtain ⟨-, hs2⟩ := outerLoop_linear_step (cfgOf cexCfg) cexEnv hlin h2 8 o1 l1 1 hn1
  obtain ⟨o2, l2, he2, hn2, hr2, ho2, hi2, ht2⟩ := hs2 (by rw [ht1']; unfold absK; norm_num)
  have hi2' : o2.inc = 3333 / 10000 := by
    rw [hi2]; unfold incNext limOf; rw [hmax, hi1', ht1', ho1]; norm_num
  have ht2' : o2.total = 9999 / 10000 := by
    rw [ht2, ← hi2, hi2', ht1']; norm_num
  rw [ht1', hr1] at hr2
  -- third load level: 0.9999, within 1e-3 of 1
  obtain ⟨hs3, -⟩ := outerLoop_linear_step (cfgOf cexCfg) cexEnv hlin h2 7 o2 l2 2 hn2
  obtain ⟨hf, hr3⟩ := hs3 (by rw [ht2']; unfold absK; norm_num)
  rw [ht2', hr2] at hr3
  rw [he1, he2]
  refine ⟨hf, ?_⟩
  unfold reported
  rw [List.map_reverse, hr3]
  rfl

theorem final_not_one_counterexample_aux :
    let cfg : Cfg ℚ := ⟨3333 / 10000, 1 / 1000, 3333 / 10000, 1 / 1000, 1 / 100, 30, false, 20, true, 6, true⟩
    let env : Env ℚ := ⟨fun k => if k % 2 = 0 then 1 else 0, fun _ => (1, 2)⟩
    Admissible cfg ∧ (solverNR cfg env 10).1 = Outcome.finished ∧
      (reported (solverNR cfg env 10)).map Prod.fst = [3333 / 10000, 6666 / 10000, 9999 / 10000] :=
  cex_main

end Compmech.NR
