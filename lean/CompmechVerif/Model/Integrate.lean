/-
Hand-written model (H) of `compmech/integrate/integrate.pyx`:
`trapz_quad`, `trapz2d_points`, `simps2d_points` — list constructions for *all* grid sizes, generic in a
field `K` (executed at `ℚ` by the driver `Drv/C10.lean`, reasoned about in `Model/IntegrateLemmas.lean`).

Loops `for j in range(1, ny+1): … ys[2*j-1]` are written with the shifted index `j' = j-1 ∈ range ny`
(`ys[2*j'+1]`), loops `for j in range(1, ny): … ys[2*j]` with `j' ∈ range (ny-1)` (`ys[2*j'+2]`); the
enumeration order of the points is that of the code.
-/
import Mathlib.Algebra.Field.Defs

namespace Compmech.Integrate

variable {K : Type} [Field K]

/-- `xis[i]` of `trapz_quad(nx, …)` -/
def trapzXi (nx i : Nat) : K := -1 + 2 * (i : K) / ((nx : K) - 1)

/-- `weights[i]` of `trapz_quad(nx, …)`: `hxi/2` at both ends, `hxi = 2/(nx-1)` inside -/
def trapzW (nx i : Nat) : K :=
  if i = 0 ∨ i = nx - 1 then 2 / ((nx : K) - 1) / 2 else 2 / ((nx : K) - 1)

/-- `trapz_quad`: the list of `(xis[i], weights[i])` -/
def trapzQuad (nx : Nat) : List (K × K) := (List.range nx).map fun i => (trapzXi nx i, trapzW nx i)

/-- one integration point `(xs2[c], ys2[c], alphas[c], betas[c])` -/
structure Pt (K : Type) where
  x : K
  y : K
  alpha : K
  beta : K

/-- `trapz2d_points(xmin, xmax, nx, ymin, ymax, ny)` -/
def trapz2dPoints (xmin xmax : K) (nx : Nat) (ymin ymax : K) (ny : Nat) : List (Pt K) :=
  let ctex := (xmax - xmin) / 2
  let ctey := (ymax - ymin) / 2
  (List.range nx).flatMap fun i => (List.range ny).map fun j =>
    ⟨ctex * (trapzXi nx i + 1) + xmin, ctey * (trapzXi ny j + 1) + ymin,
      ctex * ctey * trapzW nx i * trapzW ny j, 1⟩

/-- the bump of `simps2d_points`: `if n % 2 != 0: n += 1; n /= 2` -/
def halfUp (n : Nat) : Nat := (if n % 2 ≠ 0 then n + 1 else n) / 2

/-- `np.linspace(lo, hi, 2*n+1)[i]` -/
def linspace (lo hi : K) (n i : Nat) : K := lo + (i : K) * ((hi - lo) / (2 * (n : K)))

/-- the point enumeration of `simps2d_points` for given node arrays `xs`, `ys` (`2nx+1`, `2ny+1` nodes) and
`c = hx·hy/9`, in the order of the code: 4 corners; left/right edges at odd `y` (4c) and at even `y` (2c);
bottom/top edges at odd `x` (4c) and at even `x` (2c); interior odd×odd (16c), odd×even (8c), even×odd (8c),
even×even (4c) -/
def simpsPts (xs ys : Nat → K) (nx ny : Nat) (c : K) : List (Pt K) :=
  [(0, 0), (2 * nx, 0), (0, 2 * ny), (2 * nx, 2 * ny)].map (fun ij => (⟨xs ij.1, ys ij.2, 1 * c, 1⟩ : Pt K))
  ++ ([0, 2 * nx].flatMap fun i => (List.range ny).map fun j => (⟨xs i, ys (2 * j + 1), 4 * c, 1⟩ : Pt K))
  ++ ([0, 2 * nx].flatMap fun i => (List.range (ny - 1)).map fun j => (⟨xs i, ys (2 * j + 2), 2 * c, 1⟩ : Pt K))
  ++ ((List.range nx).flatMap fun i => [0, 2 * ny].map fun j => (⟨xs (2 * i + 1), ys j, 4 * c, 1⟩ : Pt K))
  ++ ((List.range (nx - 1)).flatMap fun i => [0, 2 * ny].map fun j => (⟨xs (2 * i + 2), ys j, 2 * c, 1⟩ : Pt K))
  ++ ((List.range nx).flatMap fun i => (List.range ny).map fun j => (⟨xs (2 * i + 1), ys (2 * j + 1), 16 * c, 1⟩ : Pt K))
  ++ ((List.range nx).flatMap fun i => (List.range (ny - 1)).map fun j => (⟨xs (2 * i + 1), ys (2 * j + 2), 8 * c, 1⟩ : Pt K))
  ++ ((List.range (nx - 1)).flatMap fun i => (List.range ny).map fun j => (⟨xs (2 * i + 2), ys (2 * j + 1), 8 * c, 1⟩ : Pt K))
  ++ ((List.range (nx - 1)).flatMap fun i => (List.range (ny - 1)).map fun j => (⟨xs (2 * i + 2), ys (2 * j + 2), 4 * c, 1⟩ : Pt K))

/-- `simps2d_points(xmin, xmax, nx0, ymin, ymax, ny0)`: `nx = halfUp nx0`, `xs = linspace(xmin, xmax, 2nx+1)`,
`hx = (xmax-xmin)/(2nx)`, `c = 1/9·hx·hy` -/
def simps2dPoints (xmin xmax : K) (nx0 : Nat) (ymin ymax : K) (ny0 : Nat) : List (Pt K) :=
  let nx := halfUp nx0
  let ny := halfUp ny0
  let hx := (xmax - xmin) / (2 * (nx : K))
  let hy := (ymax - ymin) / (2 * (ny : K))
  simpsPts (linspace xmin xmax nx) (linspace ymin ymax ny) nx ny (1 / 9 * hx * hy)

/-- the quadrature sum `Σ_c alphas[c]·betas[c]·f(xs2[c], ys2[c])` as the callers form it -/
def quad (pts : List (Pt K)) (f : K → K → K) : K := (pts.map fun p => p.alpha * p.beta * f p.x p.y).sum

end Compmech.Integrate
