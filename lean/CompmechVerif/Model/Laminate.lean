/-
Hand-written executable model of
  compmech/composite/matlamina.py : read_laminaprop
  compmech/composite/lamina.py    : Lamina.rebuild   (the QL part)
  compmech/composite/laminate.py  : read_stack, Laminate.rebuild, Laminate.calc_constitutive_matrix
Generic in a field `K`: executed at `K = ℚ` by the driver (correspondence check against the
running Python), reasoned about at any field / at ℝ in `Props/C01.lean`.

`cos θ`/`sin θ` of each ply enter as the pair `(c, s)`; the model never computes trigonometry.
-/
import Mathlib.Algebra.Field.Defs

namespace Compmech.Laminate

/-- Material constants after `read_laminaprop` completed the tuple
(`matlam.e1 … matlam.g23`; `nu21 = nu12*e2/e1`). -/
structure MatProps (K : Type) where
  e1 : K
  e2 : K
  nu12 : K
  g12 : K
  g13 : K
  g23 : K
  e3 : K
  nu13 : K
  nu23 : K
deriving Repr

variable {K : Type} [Field K]

/-- `read_laminaprop(laminaprop)`: the tuple completion, verbatim.
* 3 entries: isotropic, `e = p[0]`, `nu = p[2]`, `g = e/(2*(1+nu))`, tuple `(e,e,nu,g,g,g,e,nu,nu)`;
* fewer than 9 entries: first six, then `[e2, nu12, nu12]`;
* indices that Python would fail on (`IndexError`) give `none`. -/
def readLaminaprop (p : List K) : Option (MatProps K) :=
  let p1 : Option (List K) :=
    if p.length = 3 then
      match p with
      | [e, _, nu] =>
        let g := e / (2 * (1 + nu))
        some [e, e, nu, g, g, g, e, nu, nu]
      | _ => none
    else some p
  match p1 with
  | none => none
  | some p1 =>
    match p1[2]? with
    | none => none
    | some nu12 =>
      let p2 : Option (List K) :=
        if p1.length < 9 then
          match p1[1]? with
          | none => none
          | some e2 => some (p1.take 6 ++ [e2, nu12, nu12])
        else some p1
      match p2 with
      | none => none
      | some p2 =>
        match p2[0]?, p2[1]?, p2[2]?, p2[3]?, p2[4]?, p2[5]?, p2[6]?, p2[7]?, p2[8]? with
        | some e1, some e2, some nu12, some g12, some g13, some g23, some e3, some nu13, some nu23 =>
          some ⟨e1, e2, nu12, g12, g13, g23, e3, nu13, nu23⟩
        | _, _, _, _, _, _, _, _, _ => none

/-- `matlam.nu21 = matlam.nu12 * matlam.e2 / matlam.e1` -/
def MatProps.nu21 (m : MatProps K) : K := m.nu12 * m.e2 / m.e1

/-- The nine independent entries of the symmetric 5×5 ply matrix `QL`
(`[[q11,q12,q16,0,0],[q12,q22,q26,0,0],[q16,q26,q66,0,0],[0,0,0,q44,q45],[0,0,0,q45,q55]]`). -/
@[ext] structure Q9 (K : Type) where
  q11 : K
  q12 : K
  q22 : K
  q16 : K
  q26 : K
  q66 : K
  q44 : K
  q45 : K
  q55 : K
deriving Repr

def Q9.zero : Q9 K := ⟨0, 0, 0, 0, 0, 0, 0, 0, 0⟩
def Q9.add (a b : Q9 K) : Q9 K :=
  ⟨a.q11 + b.q11, a.q12 + b.q12, a.q22 + b.q22, a.q16 + b.q16, a.q26 + b.q26, a.q66 + b.q66,
   a.q44 + b.q44, a.q45 + b.q45, a.q55 + b.q55⟩
def Q9.smul (k : K) (a : Q9 K) : Q9 K :=
  ⟨k * a.q11, k * a.q12, k * a.q22, k * a.q16, k * a.q26, k * a.q66, k * a.q44, k * a.q45, k * a.q55⟩

/-- Plane-stress constants of `Lamina.rebuild` (before rotation); `q16 = q26 = 0`, `q45 = 0`. -/
def planeStressQ (m : MatProps K) : Q9 K :=
  let d := 1 - m.nu12 * m.nu21
  ⟨m.e1 / d, m.nu12 * m.e2 / d, m.e2 / d, 0, 0, m.g12, m.g23, 0, m.g13⟩

/-- The nine `q..L` formulas of `lamina.py:110-125`, verbatim, `c = cos θ`, `s = sin θ`.
The input is the un-rotated `q11,q12,q22,q66,q44,q55` (its `q16,q26,q45` are not read, as in the
source where they are the literals 0). -/
def rotQ (c s : K) (q : Q9 K) : Q9 K :=
  let cos2 := c ^ 2
  let cos3 := c ^ 3
  let cos4 := c ^ 4
  let sin2 := s ^ 2
  let sin3 := s ^ 3
  let sin4 := s ^ 4
  let sincos := s * c
  let q11 := q.q11
  let q12 := q.q12
  let q22 := q.q22
  let q66 := q.q66
  let q44 := q.q44
  let q55 := q.q55
  { q11 := q11 * cos4 + 2 * (q12 + 2 * q66) * sin2 * cos2 + q22 * sin4
    q12 := (q11 + q22 - 4 * q66) * sin2 * cos2 + q12 * (sin4 + cos4)
    q22 := q11 * sin4 + 2 * (q12 + 2 * q66) * sin2 * cos2 + q22 * cos4
    q16 := (q11 - q12 - 2 * q66) * s * cos3 + (q12 - q22 + 2 * q66) * sin3 * c
    q26 := (q11 - q12 - 2 * q66) * sin3 * c + (q12 - q22 + 2 * q66) * s * cos3
    q66 := (q11 + q22 - 2 * q12 - 2 * q66) * sin2 * cos2 + q66 * (sin4 + cos4)
    q44 := q44 * cos2 + q55 * sin2
    q45 := (q55 - q44) * sincos
    q55 := q55 * cos2 + q44 * sin2 }

/-- A ply as `calc_constitutive_matrix` sees it: its thickness and its rotated matrix `QL`. -/
structure Ply (K : Type) where
  t : K
  QL : Q9 K

/-- `A_general, B_general, D_general` accumulators and the running interface `h0`. -/
structure Acc (K : Type) where
  h0 : K
  A : Q9 K
  B : Q9 K
  D : Q9 K

/-- One pass of the loop body of `calc_constitutive_matrix`. -/
def abdStep (acc : Acc K) (p : Ply K) : Acc K :=
  let hk_1 := acc.h0
  let hk := acc.h0 + p.t
  { h0 := hk
    A := acc.A.add (Q9.smul (hk - hk_1) p.QL)
    B := acc.B.add (Q9.smul (1 / 2 * (hk ^ 2 - hk_1 ^ 2)) p.QL)
    D := acc.D.add (Q9.smul (1 / 3 * (hk ^ 3 - hk_1 ^ 3)) p.QL) }

/-- `lam_thick = sum([ply.t for ply in self.plies])` -/
def thickness (plies : List (Ply K)) : K := (plies.map (·.t)).sum

/-- `Laminate.calc_constitutive_matrix`: `h0 = -lam_thick/2 + offset`, then the fold. -/
def abd (plies : List (Ply K)) (offset : K) : Acc K :=
  plies.foldl abdStep ⟨-(thickness plies) / 2 + offset, Q9.zero, Q9.zero, Q9.zero⟩

/-- One ply of the user's input after `read_stack`'s zip: `(cos θ, sin θ, thickness, material tuple)`. -/
structure PlyIn (K : Type) where
  c : K
  s : K
  t : K
  prop : List K

/-- `Lamina.rebuild` for one ply: `none` if `read_laminaprop` would raise. -/
def mkPly (p : PlyIn K) : Option (Ply K) :=
  match readLaminaprop p.prop with
  | none => none
  | some m => some ⟨p.t, rotQ p.c p.s (planeStressQ m)⟩

def mkPlies : List (PlyIn K) → Option (List (Ply K))
  | [] => some []
  | p :: ps =>
    match mkPly p, mkPlies ps with
    | some q, some qs => some (q :: qs)
    | _, _ => none

inductive StackError where
  | noThickness      -- 'plyt or plyts must be supplied'  -> ValueError
  | noLaminaprop     -- 'laminaprop or laminaprops must be supplied' -> ValueError
  | badLaminaprop    -- IndexError inside read_laminaprop
deriving Repr, DecidableEq

/-- `read_stack(stack, plyt, laminaprop, plyts, laminaprops, offset)`.
`cs` are the (cos, sin) of the angles in `stack`.
Python truthiness: `not plyts` = empty list; `not plyt` = `None` or `0.0`;
`not laminaprops` = empty list; `not laminaprop` = `None` or empty tuple.
`zip` truncates to the shortest of the three lists. -/
def readStack [DecidableEq K] (cs : List (K × K)) (plyt : Option K) (laminaprop : Option (List K))
    (plyts : List K) (laminaprops : List (List K)) (offset : K) :
    Except StackError (Acc K × K) :=
  let plyts' : Except StackError (List K) :=
    if plyts.isEmpty then
      match plyt with
      | none => .error .noThickness
      | some t => if t = 0 then .error .noThickness else .ok (cs.map fun _ => t)
    else .ok plyts
  match plyts' with
  | .error e => .error e
  | .ok ts =>
    let props' : Except StackError (List (List K)) :=
      if laminaprops.isEmpty then
        match laminaprop with
        | none => .error .noLaminaprop
        | some p => if p.isEmpty then .error .noLaminaprop else .ok (cs.map fun _ => p)
      else .ok laminaprops
    match props' with
    | .error e => .error e
    | .ok ps =>
      let zipped : List (PlyIn K) :=
        (List.zip ts (List.zip ps cs)).map fun x => ⟨x.2.2.1, x.2.2.2, x.1, x.2.1⟩
      match mkPlies zipped with
      | none => .error .badLaminaprop
      | some plies => .ok (abd plies offset, thickness plies)

end Compmech.Laminate
