/-
Hand-written model of the LOOP NESTS of the penalty-connection kernels (compmech/panel/connections/kC*.pyx:
`fkC<kind>11`, `fkC<kind>12`, `fkC<kind>22`, kind ∈ SSycte, SSxcte, BFycte, BFxcte, SB), in the style of `Model/PanelLoop.lean` and only as far
as `get_k0_conn_psd` (Props/C12) needs.

* The diagonal blocks `11`, `22` have exactly the nest of the panel kernels over ONE panel's `(m, n)`:

      for i in range(m): for k in range(m): for j in range(n): for l in range(n):          (xcte kinds: j, l, i, k)
          row = row0 + num*(j*m + i); col = col0 + num*(l*m + k)
          if row > col: continue
          c += 1; r[c] = row+ro; c[c] = col+co; v[c] += <entry ro co>

  i.e. `PanelLoop.loopNest` / `loopNestYX` with `num = 3`.
* The coupling block `12` runs the row indices over panel 1 and the column indices over panel 2 and has NO skip
  (`#if row > col: continue` is commented out in the sources):

      for i1 in range(m1): for k2 in range(m2): for j1 in range(n1): for l2 in range(n2):  (xcte kinds: j1, l2, i1, k2)
          row = row0 + num*(j1*m1 + i1); col = col0 + num*(l2*m2 + k2)
          c += 1; r[c] = row+ro; c[c] = col+co; v[c] += <entry ro co>

  which is `rectNest` / `rectNestYX` below.

ASSUMED, not proved: that the sources have these nests.  The translator reads them (`tools/translate/gen_conn.py` records loops / skip / row / col
of every kernel in the schema COMMENT at the end of `Gen/Conn/*.lean`) but does not emit them as a Lean value, so — unlike the panel kernels —
there is no `loop_nest_standard` theorem for the connection kernels; the validation arm V of `tools/props/C12.py` interprets the same nests
against the running binaries.  Positions a source does not write (e.g. `(0, 1)` in `fkCSSycte11`) carry the value 0 of the regenerated `entry`
function: a zero triplet does not change what a COO list denotes.
-/
import CompmechVerif.Model.PanelLoop

namespace Compmech.PanelLoop
open Compmech.Asm

variable {K : Type} [Field K]

/-- body of the innermost loop of a `12` kernel: one triplet per `(ro, co)`, no skip -/
def rectBlock (num m1 m2 row0 col0 : Nat) (e : Fin num → Fin num → Nat → Nat → Nat → Nat → K) (i k j l : Nat) : Coo K :=
  (List.finRange num).flatMap fun ro => (List.finRange num).map fun co =>
    (row0 + num * (j * m1 + i) + ro.val, col0 + num * (l * m2 + k) + co.val, e ro co i k j l)

/-- the COO triplets of a `12` kernel: rows over the series of panel 1 (`m1 × n1`), columns over the series of panel 2 (`m2 × n2`) -/
def rectNest (num m1 n1 m2 n2 row0 col0 : Nat) (e : Fin num → Fin num → Nat → Nat → Nat → Nat → K) : Coo K :=
  (List.range m1).flatMap fun i => (List.range m2).flatMap fun k =>
  (List.range n1).flatMap fun j => (List.range n2).flatMap fun l => rectBlock num m1 m2 row0 col0 e i k j l

/-- the `xcte` kinds nest the same loops in the order `j1, l2, i1, k2` -/
def rectNestYX (num m1 n1 m2 n2 row0 col0 : Nat) (e : Fin num → Fin num → Nat → Nat → Nat → Nat → K) : Coo K :=
  (List.range n1).flatMap fun j => (List.range n2).flatMap fun l =>
  (List.range m1).flatMap fun i => (List.range m2).flatMap fun k => rectBlock num m1 m2 row0 col0 e i k j l

/-- result of a diagonal-block kernel `fkC…11` / `fkC…22` called with `row0 = col0 = r0` (`yx`: loop order of the `xcte` kinds) -/
def connNestDiag (yx : Bool) (m n r0 : Nat) (e : Fin 3 → Fin 3 → Nat → Nat → Nat → Nat → K) : Coo K :=
  if yx then loopNestYX 3 m n r0 r0 e else loopNest 3 m n r0 r0 e

/-- result of a coupling kernel `fkC…12` called with `(row0, col0)` -/
def connNest12 (yx : Bool) (m1 n1 m2 n2 row0 col0 : Nat) (e : Fin 3 → Fin 3 → Nat → Nat → Nat → Nat → K) : Coo K :=
  if yx then rectNestYX 3 m1 n1 m2 n2 row0 col0 e else rectNest 3 m1 n1 m2 n2 row0 col0 e

end Compmech.PanelLoop
