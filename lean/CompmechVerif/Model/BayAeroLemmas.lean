/-
Helper lemmas about `Model/BayAero.lean` (`StiffPanelBay.calc_kA`, aerodynamic part of `tstiff2d_1stiff_flutter`).  The property
theorems are in `Props/C19.lean` (`bay_calc_kA_delegates`, `bay_calc_kA_errors`, `bay_calc_kA_coefficients`, `flutter_assembly_kA`, …).
-/
import CompmechVerif.Model.BayAero
import CompmechVerif.Model.PanelGlueLemmas
import CompmechVerif.Model.PanelLoopLemmas
import Mathlib.Tactic.Ring
import Mathlib.Tactic.Linarith
import Mathlib.Tactic.NormNum
import Mathlib.Algebra.Order.Field.Basic

namespace Compmech.BayAero
open Compmech.PanelGlue Compmech.Asm

set_option linter.unusedSectionVars false

section
variable {K : Type} [Field K] [LinearOrder K]

/-! ### the bay's `_rebuild` loop -/

/-- every panel the loop leaves behind after a SUCCESSFUL pass names a model of `modelDB` -/
theorem rebuildPanels_ok_kind : ∀ (ps : List (Panel K)) (mdl : ModelAttr) (i : Nat),
    (rebuildPanels ps mdl i).2.2 = none → ∀ p ∈ (rebuildPanels ps mdl i).1, ∃ k, p.model = .kind k := by
  intro ps
  induction ps with
  | nil => intro mdl i _ p hp; simp [rebuildPanels] at hp
  | cons p0 t ih =>
    intro mdl i h p hp
    unfold rebuildPanels at h hp
    rcases hreb : rebuild p0 with ⟨p1, _ | e⟩
    · have hk : ∃ k, p1.model = .kind k := by simpa [hreb] using rebuild_ok_kind p0 (by simp [hreb])
      simp only [hreb] at h hp
      cases mdl with
      | unset =>
        simp only at h hp
        rcases List.mem_cons.mp hp with rfl | hp
        · exact hk
        · exact ih _ _ h p hp
      | invalid =>
        simp only at h hp
        by_cases hm : ModelAttr.invalid = p1.model
        · simp only [hm, if_true] at h hp
          rcases List.mem_cons.mp hp with rfl | hp
          · exact hk
          · exact ih _ _ h p hp
        · simp [hm] at h
      | kind k0 =>
        simp only at h hp
        by_cases hm : ModelAttr.kind k0 = p1.model
        · simp only [hm, if_true] at h hp
          rcases List.mem_cons.mp hp with rfl | hp
          · exact hk
          · exact ih _ _ h p hp
        · simp [hm] at h
    · simp [hreb] at h

/-- a bay that already has a model keeps it, and every panel has that model after a successful pass -/
theorem rebuildPanels_of_kind : ∀ (ps : List (Panel K)) (k : ModelKind) (i : Nat),
    (rebuildPanels ps (.kind k) i).2.2 = none →
    (rebuildPanels ps (.kind k) i).2.1 = .kind k ∧ ∀ p ∈ (rebuildPanels ps (.kind k) i).1, p.model = .kind k := by
  intro ps
  induction ps with
  | nil => intro k i _; simp [rebuildPanels]
  | cons p0 t ih =>
    intro k i h
    unfold rebuildPanels at h ⊢
    rcases hreb : rebuild p0 with ⟨p1, _ | e⟩
    · simp only [hreb] at h ⊢
      by_cases hm : ModelAttr.kind k = p1.model
      · simp only [hm, if_true] at h ⊢
        rw [← hm] at h ⊢
        obtain ⟨h1, h2⟩ := ih k (i + 1) h
        refine ⟨h1, ?_⟩
        intro p hp
        rcases List.mem_cons.mp hp with rfl | hp
        · exact hm.symm
        · exact h2 p hp
      · simp [hm] at h
    · simp [hreb] at h

/-- after a successful pass over at least one panel the bay's model is a key of `modelDB`, the model of every panel; it is the
bay's own model when the bay had one, the first panel's otherwise -/
theorem rebuildPanels_ok_model (ps : List (Panel K)) (mdl : ModelAttr) (i : Nat) (hne : ps ≠ [])
    (h : (rebuildPanels ps mdl i).2.2 = none) :
    ∃ k, (rebuildPanels ps mdl i).2.1 = .kind k ∧ (∀ p ∈ (rebuildPanels ps mdl i).1, p.model = .kind k) ∧
      (mdl ≠ .unset → mdl = .kind k) := by
  cases ps with
  | nil => exact absurd rfl hne
  | cons p0 t =>
    unfold rebuildPanels at h ⊢
    rcases hreb : rebuild p0 with ⟨p1, _ | e⟩
    · obtain ⟨k1, hk1⟩ : ∃ k, p1.model = .kind k := by simpa [hreb] using rebuild_ok_kind p0 (by simp [hreb])
      simp only [hreb] at h ⊢
      cases mdl with
      | unset =>
        simp only [hk1] at h ⊢
        obtain ⟨h1, h2⟩ := rebuildPanels_of_kind t k1 (i + 1) h
        refine ⟨k1, h1, ?_, fun hc => absurd rfl hc⟩
        intro p hp
        rcases List.mem_cons.mp hp with rfl | hp
        · exact hk1
        · exact h2 p hp
      | invalid =>
        simp only [hk1] at h
        simp at h
      | kind k0 =>
        simp only at h ⊢
        by_cases hm : ModelAttr.kind k0 = p1.model
        · simp only [hm, if_true] at h ⊢
          rw [← hm] at h ⊢
          obtain ⟨h1, h2⟩ := rebuildPanels_of_kind t k0 (i + 1) h
          refine ⟨k0, h1, ?_, fun _ => rfl⟩
          intro p hp
          rcases List.mem_cons.mp hp with rfl | hp
          · exact hm.symm
          · exact h2 p hp
        · simp [hm] at h
    · simp [hreb] at h

/-- the loop keeps the number of panels -/
theorem rebuildPanels_length : ∀ (ps : List (Panel K)) (mdl : ModelAttr) (i : Nat),
    (rebuildPanels ps mdl i).1.length = ps.length := by
  intro ps
  induction ps with
  | nil => intro mdl i; simp [rebuildPanels]
  | cons p0 t ih =>
    intro mdl i
    unfold rebuildPanels
    rcases rebuild p0 with ⟨p1, _ | e⟩
    · cases mdl <;> simp only [] <;> (try split) <;> simp [ih]
    · simp

/-- the first panel after the loop is `Panel._rebuild` of the first panel before it -/
theorem rebuildPanels_head (p0 : Panel K) (t : List (Panel K)) (mdl : ModelAttr) (i : Nat) :
    ∃ rest, (rebuildPanels (p0 :: t) mdl i).1 = (rebuild p0).1 :: rest := by
  unfold rebuildPanels
  rcases rebuild p0 with ⟨p1, _ | e⟩
  · cases mdl <;> simp only [] <;> (try split) <;> exact ⟨_, rfl⟩
  · exact ⟨_, rfl⟩

/-! ### the bay's own copy of the formulas -/

/-- the bay with `Mach == 1` replaced by `1.0001` when the Mach route is taken -/
def machPatchedBay (B : AeroBay K) : AeroBay K :=
  match B.beta, B.mach with
  | none, some m => if m = 1 then { B with mach := some (10001 / 10000) } else B
  | _, _ => B

theorem ownFormulas_fst (B : AeroBay K) (q : K) :
    (ownFormulas B q).1 = B ∨ (ownFormulas B q).1 = machPatchedBay B := by
  unfold ownFormulas machPatchedBay
  cases hb : B.beta with
  | some b => left; rfl
  | none =>
    cases hm : B.mach with
    | none => left; rfl
    | some m0 =>
      simp only
      by_cases h1 : m0 < 1
      · left; simp [h1]
      · right
        simp only [h1, if_false]
        rcases B.rhoAir with _ | rho <;> rcases B.V with _ | v <;> rcases B.speedSound with _ | ainf <;> simp only [] <;>
          (try split) <;> (try split) <;> rfl

/-- what a successful pass through the bay's own formulas means -/
theorem ownFormulas_ok {B B2 : AeroBay K} {q : K} {own : Piston.Coefs K} (h : ownFormulas B q = (B2, .ok own)) :
    B2 = machPatchedBay B ∧
    Piston.coefs B.beta B.gamma B.aeromu B.mach (B.rhoAir.getD 0) (B.V.getD 0) (B.speedSound.getD 0) (B.r.getD 0) q = .ok own ∧
    (B.beta = none → ∃ m0 rho v ainf, B.mach = some m0 ∧ ¬ m0 < 1 ∧ B.rhoAir = some rho ∧ B.V = some v ∧
      B.speedSound = some ainf ∧ ainf ≠ 0) := by
  unfold ownFormulas at h
  unfold machPatchedBay
  cases hb : B.beta with
  | some b =>
    simp only [hb] at h
    injection h with h1 h2
    injection h2 with h2
    subst h1; subst h2
    exact ⟨rfl, rfl, by intro hc; cases hc⟩
  | none =>
    simp only [hb] at h
    cases hm : B.mach with
    | none => simp [hm] at h
    | some m0 =>
      simp only [hm] at h
      by_cases h1 : m0 < 1
      · simp [h1] at h
      · simp only [h1, if_false] at h
        rcases hr : B.rhoAir with _ | rho <;> rcases hv : B.V with _ | v <;> rcases hs : B.speedSound with _ | ainf <;>
          simp only [hr, hv, hs] at h <;> try (simp at h; done)
        by_cases h0 : ainf = 0
        · simp [h0] at h
        · simp only [h0, if_false] at h
          cases hf : Piston.fromMach (some m0) rho v ainf (B.r.getD 0) q with
          | error e => cases e <;> simp [hf] at h
          | ok cf =>
            simp only [hf] at h
            injection h with h1' h2
            injection h2 with h2
            subst h2
            refine ⟨h1'.symm, ?_, fun _ => ⟨m0, rho, v, ainf, rfl, h1, rfl, rfl, rfl, h0⟩⟩
            simp [Piston.coefs, hf]

theorem machPatchedBay_fields (B : AeroBay K) :
    (machPatchedBay B).a = B.a ∧ (machPatchedBay B).b = B.b ∧ (machPatchedBay B).r = B.r ∧ (machPatchedBay B).m = B.m ∧
    (machPatchedBay B).n = B.n ∧ (machPatchedBay B).model = B.model ∧ (machPatchedBay B).flow = B.flow ∧
    (machPatchedBay B).beta = B.beta ∧ (machPatchedBay B).gamma = B.gamma ∧ (machPatchedBay B).aeromu = B.aeromu ∧
    (machPatchedBay B).rhoAir = B.rhoAir ∧ (machPatchedBay B).V = B.V ∧ (machPatchedBay B).speedSound = B.speedSound ∧
    (machPatchedBay B).sizeAttr = B.sizeAttr ∧ (machPatchedBay B).panels = B.panels ∧
    (machPatchedBay B).partSizes = B.partSizes := by
  unfold machPatchedBay
  cases hb : B.beta <;> cases hm : B.mach <;> simp only [] <;> (try split) <;> simp [hb]

theorem machPatchedBay_mach (B : AeroBay K) :
    (machPatchedBay B).mach =
      (match B.beta, B.mach with
        | none, some m => some (Piston.effMach m)
        | _, m => m) := by
  unfold machPatchedBay Piston.effMach
  cases hb : B.beta <;> cases hm : B.mach <;> simp only [] <;> (try split) <;> simp_all

end

section
variable {K : Type} [Field K] [LinearOrder K]

/-! ### `StiffPanelBay.calc_kA`: the successful path -/

/-- the skin panel as the bay hands it to `Panel.calc_kA`: `panels[0]` carrying the bay's flow data -/
def skinOf (B2 : AeroBay K) (s : Nat) (p : Panel K) : Panel K := copyRest B2 s (copyFirst B2 p)

/-- everything up to the delegation went through -/
structure Reaches (B : AeroBay K) (q : K) (B2 : AeroBay K) (own : Piston.Coefs K) (p : Panel K) (rest : List (Panel K)) (s : Nat)
    (k : ModelKind) : Prop where
  a : B.a ≠ none
  b : B.b ≠ none
  panelsOk : (rebuildPanels B.panels B.model 0).2.2 = none
  stiffOk : B.stiffRebuildErr = none
  formulas : ownFormulas (rebuiltBay B) q = (B2, .ok own)
  panels : B2.panels = p :: rest
  size : B2.sizeAttr = some s
  model : B2.model.kind? = some k

theorem rebuildPanels_no_skin : ∀ (ps : List (Panel K)) mdl i e', (rebuildPanels ps mdl i).2.2 ≠ some (.skin e') := by
  intro ps
  induction ps with
  | nil => intro mdl i e'; simp [rebuildPanels]
  | cons p0 t ih =>
    intro mdl i e'
    unfold rebuildPanels
    rcases rebuild p0 with ⟨p1, _ | e⟩
    · cases mdl <;> simp only [] <;> (try split) <;> first | exact ih _ _ _ | simp
    · simp

theorem ownFormulas_no_skin (B : AeroBay K) (q : K) (e' : Err) : (ownFormulas B q).2 ≠ .error (.skin e') := by
  unfold ownFormulas
  (repeat' split) <;> simp

/-- from `p = self.panels[0]` on -/
theorem delegate_cases (B2 : AeroBay K) (own : Piston.Coefs K) (q : K) :
    (∃ e, (delegate B2 own q).res = .error e ∧ ∀ e', e ≠ .skin e') ∨
    (∃ p rest s k, B2.panels = p :: rest ∧ B2.sizeAttr = some s ∧ B2.model.kind? = some k ∧
      (delegate B2 own q).res = ((calcKA (skinOf B2 s p) (delegationArgs (baySize k B2)) q).res.mapError BayErr.skin) ∧
      (delegate B2 own q).post = { B2 with sizeAttr := some (baySize k B2), panels := (calcKA (skinOf B2 s p) (delegationArgs (baySize k B2)) q).post :: rest } ∧
      (delegate B2 own q).writes = writesFirst B2 ++ writesRest B2 s ∧ (delegate B2 own q).ownCoefs = some own) := by
  unfold delegate
  cases hpl : B2.panels with
  | nil => exact Or.inl ⟨_, rfl, by intro e' h; cases h⟩
  | cons p rest =>
    simp only
    cases hsz : B2.sizeAttr with
    | none => exact Or.inl ⟨_, rfl, by intro e' h; cases h⟩
    | some s =>
      simp only
      cases hk : B2.model.kind? with
      | none => exact Or.inl ⟨_, rfl, by intro e' h; cases h⟩
      | some k =>
        simp only
        refine Or.inr ⟨p, rest, s, k, rfl, rfl, rfl, ?_, ?_, ?_, ?_⟩ <;>
          (try unfold skinOf) <;> cases (calcKA (copyRest B2 s (copyFirst B2 p)) (delegationArgs (baySize k B2)) q).res <;> rfl

/-- the delegation is reached, or the call has raised one of the bay's own exceptions -/
theorem bayCalcKA_cases (B : AeroBay K) (q : K) :
    (∃ e, (bayCalcKA B q).res = .error e ∧ ∀ e', e ≠ .skin e') ∨
    (∃ B2 own p rest s k, Reaches B q B2 own p rest s k ∧
      (bayCalcKA B q).res = ((calcKA (skinOf B2 s p) (delegationArgs (baySize k B2)) q).res.mapError BayErr.skin) ∧
      (bayCalcKA B q).post = { B2 with sizeAttr := some (baySize k B2), panels := (calcKA (skinOf B2 s p) (delegationArgs (baySize k B2)) q).post :: rest } ∧
      (bayCalcKA B q).writes = writesFirst B2 ++ writesRest B2 s ∧ (bayCalcKA B q).ownCoefs = some own) := by
  unfold bayCalcKA
  cases ha : B.a with
  | none => exact Or.inl ⟨_, rfl, by intro e' h; cases h⟩
  | some av =>
  cases hb : B.b with
  | none => exact Or.inl ⟨_, rfl, by intro e' h; cases h⟩
  | some bv =>
    simp only
    cases hp : (rebuildPanels B.panels B.model 0).2.2 with
    | some e => exact Or.inl ⟨e, rfl, fun e' h => rebuildPanels_no_skin _ _ _ e' (h ▸ hp)⟩
    | none =>
      simp only
      unfold afterRebuild
      cases hs : (rebuiltBay B).stiffRebuildErr with
      | some x => exact Or.inl ⟨_, rfl, by intro e' h; cases h⟩
      | none =>
        simp only
        rcases hf : ownFormulas (rebuiltBay B) q with ⟨B2, e | own⟩
        · refine Or.inl ⟨e, rfl, ?_⟩
          intro e' h
          subst h
          exact ownFormulas_no_skin (rebuiltBay B) q e' (by rw [hf])
        · simp only
          rcases delegate_cases B2 own q with ⟨e, he, hne⟩ | ⟨p, rest, s, k, h1, h2, h3, h4, h5, h6, h7⟩
          · exact Or.inl ⟨e, he, hne⟩
          · exact Or.inr ⟨B2, own, p, rest, s, k, ⟨by simp [ha], by simp [hb], hp, hs, hf, h1, h2, h3⟩, h4, h5, h6, h7⟩

/-- a successful call went through the delegation, and its result is the skin panel's -/
theorem bayCalcKA_ok {B : AeroBay K} {q : K} {R : Result K} (h : (bayCalcKA B q).res = .ok R) :
    ∃ B2 own p rest s k, Reaches B q B2 own p rest s k ∧
      (calcKA (skinOf B2 s p) (delegationArgs (baySize k B2)) q).res = .ok R ∧
      (bayCalcKA B q).post = { B2 with sizeAttr := some (baySize k B2), panels := (calcKA (skinOf B2 s p) (delegationArgs (baySize k B2)) q).post :: rest } ∧
      (bayCalcKA B q).writes = writesFirst B2 ++ writesRest B2 s ∧ (bayCalcKA B q).ownCoefs = some own := by
  rcases bayCalcKA_cases B q with ⟨e, he, _⟩ | ⟨B2, own, p, rest, s, k, hr, hres, hpost, hw, ho⟩
  · rw [he] at h; cases h
  · refine ⟨B2, own, p, rest, s, k, hr, ?_, hpost, hw, ho⟩
    rw [hres] at h
    cases hc : (calcKA (skinOf B2 s p) (delegationArgs (baySize k B2)) q).res with
    | error e => rw [hc] at h; cases h
    | ok R' => rw [hc] at h; simpa [Except.mapError] using h

/-- what `Reaches` says about the state the delegation sees -/
theorem Reaches.facts {B : AeroBay K} {q : K} {B2 : AeroBay K} {own : Piston.Coefs K} {p : Panel K} {rest : List (Panel K)}
    {s : Nat} {k : ModelKind} (h : Reaches B q B2 own p rest s k) :
    B2 = machPatchedBay (rebuiltBay B) ∧
    (∃ p0 t, B.panels = p0 :: t ∧ p = (rebuild p0).1) ∧ p.model = .kind k ∧ B2.model = .kind k ∧
    (B.model ≠ .unset → B.model = .kind k) ∧
    B.sizeAttr = some s ∧ B2.m = B.m ∧ B2.n = B.n ∧ B2.partSizes = B.partSizes ∧ B2.r = B.r ∧ B2.flow = B.flow ∧ B2.beta = B.beta ∧
    B2.gamma = B.gamma ∧ B2.aeromu = B.aeromu ∧ B2.rhoAir = B.rhoAir ∧ B2.V = B.V ∧ B2.speedSound = B.speedSound := by
  obtain ⟨h2, _, _⟩ := ownFormulas_ok h.formulas
  obtain ⟨f1, f2, f3, f4, f5, f6, f7, f8, f9, f10, f11, f12, f13, f14, f15, f16⟩ := machPatchedBay_fields (rebuiltBay B)
  rw [← h2] at f1 f2 f3 f4 f5 f6 f7 f8 f9 f10 f11 f12 f13 f14 f15 f16
  have hpan : (rebuildPanels B.panels B.model 0).1 = p :: rest := by rw [← h.panels, f15]; rfl
  have hne : B.panels ≠ [] := by
    intro hc
    rw [hc] at hpan
    simp [rebuildPanels] at hpan
  obtain ⟨k', hk1, hk2, hk3⟩ := rebuildPanels_ok_model B.panels B.model 0 hne h.panelsOk
  have hm2 : B2.model = .kind k' := by rw [f6]; exact hk1
  have hkk : k' = k := by
    have := h.model
    rw [hm2] at this
    simpa [ModelAttr.kind?] using this
  subst hkk
  refine ⟨h2, ?_, hk2 p (by rw [hpan]; simp), hm2, hk3, by rw [← h.size, f14]; rfl, f4, f5, f16, f3, f7, f8, f9, f10, f11, f12, f13⟩
  cases hB : B.panels with
  | nil => exact absurd hB hne
  | cons p0 t =>
    refine ⟨p0, t, rfl, ?_⟩
    obtain ⟨rest', hr'⟩ := rebuildPanels_head p0 t B.model 0
    rw [hB, hr'] at hpan
    injection hpan with h1 _
    exact h1.symm

/-! ### support of the combined matrix -/

theorem toFun_skewComplete_zero {nr : Nat} {l : Coo K} (h : Within nr nr l) (i j : Nat) (hij : nr ≤ i ∨ nr ≤ j) :
    toFun (skewComplete l) i j = 0 := by
  rw [skewComplete_eq, toFun_makeSkewSymmetric]
  split
  · exact toFun_eq_zero_of_within h i j hij
  · rw [toFun_eq_zero_of_within h j i (by omega)]; simp

theorem toFun_finalize_zero {nr : Nat} {l : Coo K} (h : Within nr nr l) (i j : Nat) (hij : nr ≤ i ∨ nr ≤ j) :
    toFun (finalize l) i j = 0 := by
  unfold finalize
  rw [toFun_makeSymmetric]
  split
  · exact toFun_eq_zero_of_within h i j hij
  · exact toFun_eq_zero_of_within h j i (by omega)

/-- the calls behind a signature -/
theorem calls_of_sig_one {R : Result K} {x : KName × List (Arg K)} (h : sig R = [x]) :
    ∃ g, R.calls = [g] ∧ g.name = x.1 ∧ g.args = x.2 := by
  unfold sig at h
  obtain ⟨g, hg, hx⟩ := List.map_eq_singleton_iff.mp h
  exact ⟨g, hg, by rw [← hx], by rw [← hx]⟩

theorem calls_of_sig_two {R : Result K} {x y : KName × List (Arg K)} (h : sig R = [x, y]) :
    ∃ g1 g2, R.calls = [g1, g2] ∧ g1.name = x.1 ∧ g1.args = x.2 ∧ g2.name = y.1 ∧ g2.args = y.2 := by
  unfold sig at h
  cases hc : R.calls with
  | nil => rw [hc] at h; simp at h
  | cons g1 t =>
    cases t with
    | nil => rw [hc] at h; simp at h
    | cons g2 t2 =>
      cases t2 with
      | nil =>
        rw [hc] at h
        simp only [List.map_cons, List.map_nil, List.cons.injEq, and_true] at h
        exact ⟨g1, g2, rfl, by rw [← h.1], by rw [← h.1], by rw [← h.2], by rw [← h.2]⟩
      | cons g3 t3 => rw [hc] at h; simp at h

end

section
variable {K : Type} [Field K] [LinearOrder K]

/-! ### the flutter helper -/

/-- `finalize=False`: one kernel call, returned as it is -/
theorem calcKA_unfinalized {P : Panel K} {A : Args K} {q : K} {R : Result K} (hfin : A.finalize = false)
    (h : (calcKA P A q).res = .ok R) : ∃ g, R.calls = [g] ∧ R.comb = .call 0 := by
  obtain ⟨k, cf, _, _, _, hfl, _, hy, hx⟩ := calcKA_ok h
  cases hf : P.flow with
  | other => exact absurd hf hfl
  | y =>
    obtain ⟨h1, h2⟩ := hy hf
    obtain ⟨g, hg, _, _⟩ := calls_of_sig_one h1
    exact ⟨g, hg, by rw [h2]; simp [hfin]⟩
  | x =>
    obtain ⟨h1, h2⟩ := (hx hf).2 (by simp [hfin])
    obtain ⟨g, hg, _, _⟩ := calls_of_sig_one h1
    exact ⟨g, hg, by rw [h2]; simp [hfin]⟩

/-- `kA += …` over `n` further single-call panels, the first of which makes kernel call number `start` -/
def addCalls : Option Comb → Nat → Nat → Option Comb
  | acc, _, 0 => acc
  | acc, start, n + 1 =>
    addCalls (some (match acc with | none => .call start | some a => .add a (.call start))) (start + 1) n

theorem flutterLoop_ok (size : Nat) (q : K) : ∀ (skins : List (SkinPanel K)) (done : List (Panel K)) (calls : List (KCall K))
    (acc : Option Comb) (i : Nat) (R : Result K), (flutterLoop size q skins done calls acc i).res = .ok R →
    ∃ gs : List (KCall K), gs.length = skins.length ∧ R.calls = calls ++ gs ∧
      (∀ p (hp : p < skins.length) (hg : p < gs.length), ∃ Rp, (calcKA skins[p].P (skinArgs size skins[p]) q).res = .ok Rp ∧
        Rp.calls = [gs[p]] ∧ Rp.comb = .call 0) ∧
      ∃ c, addCalls acc calls.length skins.length = some c ∧ R.comb = .skew c := by
  intro skins
  induction skins with
  | nil =>
    intro done calls acc i R h
    unfold flutterLoop at h
    cases acc with
    | none => simp at h
    | some c =>
      simp only at h
      injection h with h
      subst h
      exact ⟨[], rfl, by simp, by intro p hp; simp at hp, c, rfl, rfl⟩
  | cons s rest ih =>
    intro done calls acc i R h
    unfold flutterLoop at h
    cases hres : (calcKA s.P (skinArgs size s) q).res with
    | error e => simp [hres] at h
    | ok Rp =>
      simp only [hres] at h
      obtain ⟨g, hg, hc⟩ := calcKA_unfinalized (A := skinArgs size s) rfl hres
      obtain ⟨gs, hlen, hcalls, hall, c, hadd, hcomb⟩ := ih _ _ _ _ R h
      refine ⟨g :: gs, by simp [hlen], by rw [hcalls, hg]; simp, ?_, c, ?_, hcomb⟩
      · intro p hp hgp
        cases p with
        | zero => exact ⟨Rp, hres, hg, hc⟩
        | succ p' =>
          simp only [List.length_cons, Nat.add_lt_add_iff_right] at hp hgp
          exact hall p' hp hgp
      · rw [hg, hc] at hadd
        simp only [List.length_append, List.length_cons, List.length_nil, Comb.shift, Nat.zero_add] at hadd
        cases acc <;> simpa [addCalls] using hadd

theorem addCalls_eval (res : Nat → Coo K) (i j : Nat) : ∀ (n : Nat) (acc : Option Comb) (start : Nat) (c : Comb),
    addCalls acc start n = some c →
    toFun (c.eval res) i j =
      (match acc with | none => 0 | some a => toFun (a.eval res) i j) + ((List.range n).map fun p => toFun (res (start + p)) i j).sum := by
  intro n
  induction n with
  | zero =>
    intro acc start c h
    unfold addCalls at h
    subst h
    simp
  | succ n ih =>
    intro acc start c h
    unfold addCalls at h
    rw [ih _ _ c h, List.range_succ_eq_map, List.map_cons, List.sum_cons, List.map_map]
    have : ((fun p => toFun (res (start + p)) i j) ∘ Nat.succ) = fun p => toFun (res (start + 1 + p)) i j := by
      funext p; simp only [Function.comp]; congr 2; omega
    rw [this]
    cases acc with
    | none => simp [Comb.eval]
    | some a => simp [Comb.eval, toFun_append]; ring

/-- a COO list whose entries all lie in the square block `[lo, hi)²` vanishes at every position with a row or a column outside it -/
theorem toFun_eq_zero_outside {l : Coo K} {lo hi : Nat} (h : ∀ e ∈ l, (lo ≤ e.1 ∧ e.1 < hi) ∧ (lo ≤ e.2.1 ∧ e.2.1 < hi)) (i j : Nat)
    (hij : ¬ (lo ≤ i ∧ i < hi) ∨ ¬ (lo ≤ j ∧ j < hi)) : toFun l i j = 0 := by
  apply Compmech.PanelLoop.toFun_eq_zero_of_forall
  intro x hx
  have := h x hx
  omega

end

section
variable {K : Type} [Field K] [LinearOrder K]

/-- `Panel.calc_kA` on a flat or cylindrical panel whose coefficients can be derived IS the flow dispatch on the state it leaves -/
theorem calcKA_eq_dispatch {P : Panel K} {A : Args K} {q : K} {k : ModelKind} {cf : Piston.Coefs K} (hm : P.model = .kind k)
    (hcon : k.conical = false)
    (hcf : Piston.coefs P.beta P.gamma P.aeromu P.mach P.rhoAir P.V P.speedSound (zeroIfNone P.r) q = .ok cf) :
    (calcKA P A q).res = kaDispatch (calcKA P A q).post A (sizeSpec k P A) cf ∧ (calcKA P A q).post.flow = P.flow := by
  unfold calcKA
  simp only [hm, hcon, Bool.false_eq_true, if_false]
  have hsize := resolveSize_snd k P P A (SameDef.refl P)
  have hsd := resolveSize_sameDef k P A.size
  have hr := resolveSize_r k P A.size
  have haero : (resolveSize k P A.size).1.beta = P.beta ∧ (resolveSize k P A.size).1.gamma = P.gamma ∧
      (resolveSize k P A.size).1.aeromu = P.aeromu ∧ (resolveSize k P A.size).1.mach = P.mach ∧
      (resolveSize k P A.size).1.rhoAir = P.rhoAir ∧ (resolveSize k P A.size).1.V = P.V ∧
      (resolveSize k P A.size).1.speedSound = P.speedSound := by
    unfold resolveSize; cases A.size <;> simp
  rcases hrs : resolveSize k P A.size with ⟨P1, size⟩
  rw [hrs] at hsize hsd hr haero
  simp only at hsize hsd hr haero
  obtain ⟨h1, h2, h3, h4, h5, h6, h7⟩ := haero
  subst hsize
  have e : ((defaultR P1).r.getD 0) = zeroIfNone P.r := by
    show (some (P1.r.getD 0)).getD 0 = _
    rw [hr, Option.getD_some, getD_eq_zeroIfNone]
  have eb : (defaultR P1).beta = P.beta := h1
  have eg : (defaultR P1).gamma = P.gamma := h2
  have ea : (defaultR P1).aeromu = P.aeromu := h3
  have em : (defaultR P1).mach = P.mach := h4
  have er : (defaultR P1).rhoAir = P.rhoAir := h5
  have ev : (defaultR P1).V = P.V := h6
  have es : (defaultR P1).speedSound = P.speedSound := h7
  simp only [e, eb, eg, ea, em, er, ev, es, hcf, true_and]
  unfold machPatched
  rw [← hsd.flow]
  (repeat' split) <;> rfl

end

section
variable {K : Type} [Field K] [LinearOrder K]

/-! ### the error branches -/

/-- the loop over the panels raises only a panel's own `_rebuild` exception or the bay's model assertion -/
theorem rebuildPanels_err : ∀ (ps : List (Panel K)) (mdl : ModelAttr) (i : Nat) (e : BayErr),
    (rebuildPanels ps mdl i).2.2 = some e →
    ∃ d, ∃ hd : d < ps.length, (∃ e', e = .panelRebuild (i + d) e' ∧ (rebuild ps[d]).2 = some e') ∨ e = .modelMismatch (i + d) := by
  intro ps
  induction ps with
  | nil => intro mdl i e h; simp [rebuildPanels] at h
  | cons p0 t ih =>
    intro mdl i e h
    unfold rebuildPanels at h
    rcases hreb : rebuild p0 with ⟨p1, _ | e0⟩
    · simp only [hreb] at h
      have step : ∀ mdl', (rebuildPanels t mdl' (i + 1)).2.2 = some e →
          ∃ d, ∃ hd : d < (p0 :: t).length, (∃ e', e = .panelRebuild (i + d) e' ∧ (rebuild (p0 :: t)[d]).2 = some e') ∨
            e = .modelMismatch (i + d) := by
        intro mdl' h'
        obtain ⟨d, hd, hor⟩ := ih mdl' (i + 1) e h'
        refine ⟨d + 1, by simp; omega, ?_⟩
        rcases hor with ⟨e', he, hre⟩ | he
        · left
          refine ⟨e', by rw [he]; congr 1; omega, ?_⟩
          simpa using hre
        · right; rw [he]; congr 1; omega
      cases mdl with
      | unset => exact step _ h
      | invalid =>
        simp only at h
        by_cases hm : ModelAttr.invalid = p1.model
        · simp only [hm, if_true] at h; exact step _ h
        · simp only [hm, if_false] at h
          injection h with h
          exact ⟨0, by simp, Or.inr h.symm⟩
      | kind k0 =>
        simp only at h
        by_cases hm : ModelAttr.kind k0 = p1.model
        · simp only [hm, if_true] at h; exact step _ h
        · simp only [hm, if_false] at h
          injection h with h
          exact ⟨0, by simp, Or.inr h.symm⟩
    · simp only [hreb] at h
      injection h with h
      exact ⟨0, by simp, Or.inl ⟨e0, h.symm, by simp [hreb]⟩⟩

/-- with `a`, `b` given, the panels rebuilt and the stiffeners rebuilt, the call is the bay's own formulas followed by the delegation -/
theorem bayCalcKA_after {B : AeroBay K} (q : K) (ha : B.a ≠ none) (hb : B.b ≠ none)
    (hp : (rebuildPanels B.panels B.model 0).2.2 = none) (hs : B.stiffRebuildErr = none) :
    bayCalcKA B q =
      (match ownFormulas (rebuiltBay B) q with
        | (B2, .error e) => ⟨B2, [], none, .error e⟩
        | (B2, .ok own) => delegate B2 own q) := by
  obtain ⟨av, ha'⟩ := Option.ne_none_iff_exists'.mp ha
  obtain ⟨bv, hb'⟩ := Option.ne_none_iff_exists'.mp hb
  have hs' : (rebuiltBay B).stiffRebuildErr = none := hs
  unfold bayCalcKA afterRebuild
  simp only [ha', hb', hp, hs']
  rcases ownFormulas (rebuiltBay B) q with ⟨B2, e | own⟩ <;> rfl

theorem ownFormulas_machNone (B : AeroBay K) (q : K) (hb : B.beta = none) (hm : B.mach = none) :
    ownFormulas B q = (B, .error .machNoneCompare) := by
  unfold ownFormulas; simp only [hb, hm]

theorem ownFormulas_machBelowOne (B : AeroBay K) (q : K) (hb : B.beta = none) {m0 : K} (hm : B.mach = some m0) (hlt : m0 < 1) :
    ownFormulas B q = (B, .error .machBelowOne) := by
  unfold ownFormulas; simp only [hb, hm, hlt, if_true]

theorem machPatchedBay_route (B : AeroBay K) (hb : B.beta = none) {m0 : K} (hm : B.mach = some m0) :
    machPatchedBay B = if m0 = 1 then { B with mach := some (10001 / 10000) } else B := by
  unfold machPatchedBay; simp only [hb, hm]

theorem ownFormulas_noneArith (B : AeroBay K) (q : K) (hb : B.beta = none) {m0 : K} (hm : B.mach = some m0) (hlt : ¬ m0 < 1)
    (hnone : B.rhoAir = none ∨ B.V = none ∨ B.speedSound = none) :
    ownFormulas B q = (machPatchedBay B, .error .noneArith) := by
  rw [machPatchedBay_route B hb hm]
  unfold ownFormulas
  simp only [hb, hm, hlt, if_false]
  rcases hr : B.rhoAir with _ | rho <;> rcases hv : B.V with _ | v <;> rcases hs : B.speedSound with _ | ainf <;>
    simp_all

theorem ownFormulas_zeroDivision (B : AeroBay K) (q : K) (hb : B.beta = none) {m0 : K} (hm : B.mach = some m0) (hlt : ¬ m0 < 1)
    (hr : B.rhoAir ≠ none) (hv : B.V ≠ none) (hs : B.speedSound = some 0) :
    ownFormulas B q = (machPatchedBay B, .error .zeroDivision) := by
  rw [machPatchedBay_route B hb hm]
  obtain ⟨rho, hr'⟩ := Option.ne_none_iff_exists'.mp hr
  obtain ⟨v, hv'⟩ := Option.ne_none_iff_exists'.mp hv
  unfold ownFormulas
  simp only [hb, hm, hlt, if_false, hr', hv', hs, if_true]

/-- the formulas go through exactly when `beta` is given or the flow state is complete and supersonic -/
def FormulasOk (B : AeroBay K) : Prop :=
  B.beta ≠ none ∨ ∃ m0 rho v ainf, B.mach = some m0 ∧ ¬ m0 < 1 ∧ B.rhoAir = some rho ∧ B.V = some v ∧ B.speedSound = some ainf ∧ ainf ≠ 0

theorem ownFormulas_of_ok (B : AeroBay K) (q : K) (h : FormulasOk B) :
    ∃ own, ownFormulas B q = (machPatchedBay B, .ok own) := by
  cases hb : B.beta with
  | some b =>
    refine ⟨⟨b, B.gamma.getD 0, B.aeromu.getD 0⟩, ?_⟩
    unfold ownFormulas machPatchedBay
    simp only [hb]
  | none =>
    rcases h with h | ⟨m0, rho, v, ainf, hm, hlt, hr, hv, hs, h0⟩
    · exact absurd hb h
    · rw [machPatchedBay_route B hb hm]
      unfold ownFormulas
      simp only [hb, hm, hlt, if_false, hr, hv, hs, h0]
      unfold Piston.fromMach
      simp only [hlt, if_false]
      exact ⟨_, rfl⟩

theorem delegate_noPanels (B2 : AeroBay K) (own : Piston.Coefs K) (q : K) (h : B2.panels = []) :
    delegate B2 own q = ⟨B2, [], some own, .error .noPanels⟩ := by
  unfold delegate; simp only [h]

theorem delegate_noSize (B2 : AeroBay K) (own : Piston.Coefs K) (q : K) {p : Panel K} {rest : List (Panel K)} (h : B2.panels = p :: rest)
    (hs : B2.sizeAttr = none) :
    delegate B2 own q = ⟨{ B2 with panels := copyFirst B2 p :: rest }, writesFirst B2, some own, .error .noSizeAttr⟩ := by
  unfold delegate; simp only [h, hs]

end

section ordered
variable {K : Type} [Field K] [LinearOrder K] [IsStrictOrderedRing K]

theorem effMach_not_lt_one {m : K} (h : ¬ m < 1) : ¬ Piston.effMach m < 1 := by
  unfold Piston.effMach
  split
  · norm_num
  · exact h

theorem effMach_idem (m : K) : Piston.effMach (Piston.effMach m) = Piston.effMach m := by
  unfold Piston.effMach
  by_cases h : m = 1
  · have : (10001 / 10000 : K) ≠ 1 := by norm_num
    simp [h, this]
  · simp [h]

/-- the Mach route gives the same coefficients for `Mach` and for the patched `Mach` (the bay patches, the skin panel derives) -/
theorem fromMach_effMach (m rho v ainf r q : K) (h : ¬ m < 1) :
    Piston.fromMach (some (Piston.effMach m)) rho v ainf r q = Piston.fromMach (some m) rho v ainf r q := by
  unfold Piston.fromMach
  simp only [h, effMach_not_lt_one h, if_false, effMach_idem]

/-- the coefficients the skin panel derives from what the bay copied onto it are those of the bay's own (unused) copy of the
formulas, which are those of `Model/Piston.lean` at the bay's data -/
theorem Reaches.coefs {B : AeroBay K} {q : K} {B2 : AeroBay K} {own : Piston.Coefs K} {p : Panel K} {rest : List (Panel K)}
    {s : Nat} {k : ModelKind} (h : Reaches B q B2 own p rest s k) :
    Piston.coefs B.beta B.gamma B.aeromu B.mach (zeroIfNone B.rhoAir) (zeroIfNone B.V) (zeroIfNone B.speedSound) (zeroIfNone B.r) q
      = .ok own ∧
    Piston.coefs (skinOf B2 s p).beta (skinOf B2 s p).gamma (skinOf B2 s p).aeromu (skinOf B2 s p).mach (skinOf B2 s p).rhoAir
      (skinOf B2 s p).V (skinOf B2 s p).speedSound (zeroIfNone (skinOf B2 s p).r) q = .ok own := by
  obtain ⟨h2, hc, hroute⟩ := ownFormulas_ok h.formulas
  have hc' : Piston.coefs B.beta B.gamma B.aeromu B.mach (B.rhoAir.getD 0) (B.V.getD 0) (B.speedSound.getD 0) (B.r.getD 0) q
      = .ok own := hc
  simp only [getD_eq_zeroIfNone] at hc'
  refine ⟨hc', ?_⟩
  obtain ⟨_, _, f3, _, _, _, _, f8, f9, f10, f11, f12, f13, _, _, _⟩ := machPatchedBay_fields (rebuiltBay B)
  have hmach := machPatchedBay_mach (rebuiltBay B)
  rw [← h2] at f3 f8 f9 f10 f11 f12 f13 hmach
  have g1 : (skinOf B2 s p).beta = B.beta := f8
  have g2 : (skinOf B2 s p).gamma = B.gamma := f9
  have g3 : (skinOf B2 s p).aeromu = B.aeromu := f10
  have g4 : (skinOf B2 s p).mach = B2.mach := rfl
  have g5 : (skinOf B2 s p).rhoAir = zeroIfNone B.rhoAir := by
    show B2.rhoAir.getD 0 = _; rw [f11, getD_eq_zeroIfNone]; rfl
  have g6 : (skinOf B2 s p).V = zeroIfNone B.V := by
    show B2.V.getD 0 = _; rw [f12, getD_eq_zeroIfNone]; rfl
  have g7 : (skinOf B2 s p).speedSound = zeroIfNone B.speedSound := by
    show B2.speedSound.getD 0 = _; rw [f13, getD_eq_zeroIfNone]; rfl
  have g8 : (skinOf B2 s p).r = B.r := f3
  rw [g1, g2, g3, g4, g5, g6, g7, g8, hmach]
  cases hb : B.beta with
  | some b =>
    have hb' : (rebuiltBay B).beta = some b := hb
    rw [hb] at hc'
    simp only [hb']
    simpa [Piston.coefs] using hc'
  | none =>
    obtain ⟨m0, rho, v, ainf, hm, hlt, _, _, _, _⟩ := hroute hb
    have hb' : (rebuiltBay B).beta = none := hb
    have hm' : B.mach = some m0 := hm
    rw [hb, hm'] at hc'
    simp only [hb', hm]
    simp only [Piston.coefs] at hc' ⊢
    rw [fromMach_effMach _ _ _ _ _ _ hlt]
    exact hc'

end ordered

/-! ### concrete instances for the non-vacuity examples of `Props/C19.lean` -/

section examples

/-- a cylindrical bay (`r = 3`, model left to the panels) with `m = 2, n = 3`, one skin panel, a stiffener flange of 8 amplitudes, Mach
route with `Mach = 5/4` (so `q = 3/4`), flow along `x`, `get_size()` called before (`size = 26`) -/
def exBay : AeroBay ℚ :=
  { a := some 1, b := some 2, r := some 3, m := 2, n := 3, model := .unset, flow := .x, beta := none, gamma := none, aeromu := none,
    mach := some (5 / 4), rhoAir := some 4, V := some 3, speedSound := some 2, sizeAttr := some 26,
    panels := [{ exPanel with r := some 3, beta := none, gamma := none }], stiffRebuildErr := none, partSizes := [8] }

/-- a cylindrical skin panel (`r = 3`) on the Mach route (`Mach = 5/4`, so `q = 3/4`, `beta = 48`, `gamma = 32/3 ≠ 0`), flow along `x` -/
def exSkin : SkinPanel ℚ :=
  ⟨{ exPanel with
        model := .kind .cpanel, r := some 3, y1 := none, y2 := none, beta := none, gamma := none, mach := some (5 / 4),
        rhoAir := 4, V := 3, speedSound := 2 }, 0, 0⟩

/-- a kernel that is linear in its two coefficients with a flow part `1` and a curvature part `1` at position `(0, 1)` (what `fkAx`
computes for one pair of `w` basis functions, up to the values of the two integrals) -/
def exKern (g : KCall ℚ) : Coo ℚ :=
  match g.args with
  | .q β :: .q γ :: _ => [(0, 1, β * 1 + γ * 1)]
  | _ => []

end examples

end Compmech.BayAero
