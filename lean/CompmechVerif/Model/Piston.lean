/-
Hand-written model of the coefficient derivation in `Panel.calc_kA` / `StiffPanelBay.calc_kA`
(`_panel.py:557-575`): `(Mach**2 - 1)**0.5` enters as the parameter `q`.
-/
import Mathlib.Algebra.Field.Defs
import Mathlib.Order.Defs.LinearOrder

namespace Compmech.Piston

inductive CoefError where
  | machNone | machBelowOne
deriving DecidableEq, Repr

structure Coefs (K : Type) where
  beta : K
  gamma : K
  aeromu : K
deriving Repr

variable {K : Type} [Field K] [LinearOrder K]

/-- the Mach number the formulas use: `Mach == 1` is replaced by `1.0001` -/
def effMach (mach : K) : K := if mach = 1 then 10001 / 10000 else mach

/-- `beta/gamma/aeromu` as `calc_kA` derives them when `self.beta is None`;
`q` stands for `(Mach**2 - 1)**0.5` of the effective Mach number. -/
def fromMach (mach : Option K) (rho v ainf r q : K) : Except CoefError (Coefs K) :=
  match mach with
  | none => .error .machNone
  | some m0 =>
    if m0 < 1 then .error .machBelowOne
    else
      let m := effMach m0
      let beta := rho * v ^ 2 / q
      let gamma := if r ≠ 0 then beta * 1 / (2 * r * q) else 0
      let aeromu := beta / (m * ainf) * (m ^ 2 - 2) / (m ^ 2 - 1)
      .ok ⟨beta, gamma, aeromu⟩

/-- `calc_kA`'s choice between user-supplied coefficients and the Mach route -/
def coefs (beta gamma aeromu : Option K) (mach : Option K) (rho v ainf r q : K) : Except CoefError (Coefs K) :=
  match beta with
  | some b => .ok ⟨b, gamma.getD 0, aeromu.getD 0⟩
  | none => fromMach mach rho v ainf r q

end Compmech.Piston
