/-
`sparse.make_skew_symmetric` (used by `Panel.calc_kA` for the flow-derivative part of the aerodynamic matrix):
the upper triangle (diagonal included) is kept; a second copy of the kept triplets is appended in which the strictly upper
ones are mirrored WITH A MINUS SIGN and the diagonal ones are zeroed.
-/
import CompmechVerif.Model.AssemblyLemmas

namespace Compmech.Asm
variable {K : Type} [Field K]

def makeSkewSymmetric (l : Coo K) : Coo K :=
  let u := l.filter fun e => decide (e.1 ≤ e.2.1)
  u ++ u.map fun e => if e.1 < e.2.1 then (e.2.1, e.1, -e.2.2) else (0, 0, 0)

theorem toFun_skewMirror (u : Coo K) (hu : ∀ e ∈ u, e.1 ≤ e.2.1) (i j : Nat) :
    toFun (u.map fun e => if e.1 < e.2.1 then (e.2.1, e.1, -e.2.2) else ((0, 0, 0) : Nat × Nat × K)) i j =
      if j < i then -toFun u j i else 0 := by
  induction u with
  | nil => simp
  | cons e t ih =>
    have ht : ∀ e ∈ t, e.1 ≤ e.2.1 := fun x hx => hu x (List.mem_cons_of_mem _ hx)
    have he : e.1 ≤ e.2.1 := hu e List.mem_cons_self
    rw [List.map_cons, toFun_cons, ih ht]
    by_cases hlt : e.1 < e.2.1
    · simp only [if_pos hlt]
      by_cases hji : j < i
      · rw [if_pos hji, if_pos hji, toFun_cons, neg_add]
        congr 1
        by_cases h1 : e.1 = j ∧ e.2.1 = i
        · have h2 : e.2.1 = i ∧ e.1 = j := ⟨h1.2, h1.1⟩
          simp [h1, h2]
        · have h2 : ¬ (e.2.1 = i ∧ e.1 = j) := fun h => h1 ⟨h.2, h.1⟩
          simp [h1, h2]
      · rw [if_neg hji, if_neg hji]
        have : ¬ (e.2.1 = i ∧ e.1 = j) := by omega
        simp [this]
    · simp only [if_neg hlt]
      by_cases hji : j < i
      · rw [if_pos hji, if_pos hji, toFun_cons]
        have : ¬ (e.1 = j ∧ e.2.1 = i) := by omega
        simp [this]
      · rw [if_neg hji, if_neg hji]
        simp

/-- what `make_skew_symmetric` denotes, for EVERY COO list: upper triangle and diagonal as given, lower triangle minus the
mirrored upper triangle; whatever was stored below the diagonal is discarded -/
theorem toFun_makeSkewSymmetric (l : Coo K) (i j : Nat) :
    toFun (makeSkewSymmetric l) i j = if i ≤ j then toFun l i j else -toFun l j i := by
  unfold makeSkewSymmetric
  simp only
  rw [toFun_append, toFun_skewMirror _ (by intro e he; simpa using (List.mem_filter.mp he).2),
    toFun_filter_upper, toFun_filter_upper]
  by_cases hij : i ≤ j
  · have : ¬ j < i := by omega
    simp [hij, this]
  · have h1 : j < i := by omega
    have h2 : j ≤ i := by omega
    simp [hij, h1, h2]

/-- the result is skew-symmetric off the diagonal, whatever the input -/
theorem toFun_makeSkewSymmetric_skew (l : Coo K) (i j : Nat) (h : i ≠ j) :
    toFun (makeSkewSymmetric l) i j = -toFun (makeSkewSymmetric l) j i := by
  rw [toFun_makeSkewSymmetric, toFun_makeSkewSymmetric]
  by_cases h1 : i ≤ j
  · have h2 : ¬ j ≤ i := by omega
    simp [h1, h2]
  · have h2 : j ≤ i := by omega
    simp [h1, h2]

end Compmech.Asm
