/-
Lemmas about `Model/ConeLb.lean`: the glue of `ConeCyl.lb` reduces to the glue of `lb` followed by the stacking of `pos`
zero rows, so `lb_pairs` carries over.
-/
import CompmechVerif.Model.ConeLb
import CompmechVerif.Model.EigPostLemmas

namespace Compmech.EigPost

variable {K : Type} [Field K] [DecidableEq K]

/-- the solver call whose output `ConeCyl.lb` post-processes in the fallback branch -/
def coneSrc (second third : Option (Out K K)) : Option (Out K K) :=
  match second with
  | some o => some o
  | none => third

/-- `ConeCyl.lb` = `lb` (uncapped request, sparse path) on the sliced matrices, then `pos` zero rows on top — whenever the
call whose output is used delivered `num` columns (the contract of `eigsh(k = num)`) -/
theorem coneLb_eq_lb_then_vstack (nred pos num : Nat) (Mc : Coo K) (first second third : Option (Out K K))
    (o : Out K K) (hsrc : (match first with | some o => some o | none => coneSrc second third) = some o)
    (hcols : first = none → o.vecs.ncols = num) :
    (coneLb nred pos num Mc first second third).2 =
      ((lb nred num false true Mc first (coneSrc second third)).2).bind fun ol =>
        (vstackZeros pos num ol.vecs).map fun e => ⟨ol.vals, e⟩ := by
  unfold coneLb lb
  cases first with
  | some o1 =>
    simp only [if_true]
    cases h : vstackZeros pos num o1.vecs <;> simp [Except.map, Except.bind, h]
  | none =>
    have hc := hcols rfl
    simp only [if_true]
    cases second with
    | some o2 =>
      simp only [coneSrc] at hsrc ⊢
      injection hsrc with hsrc
      subst hsrc
      rw [hc]
      cases h : assignRows nred num (usedCols nred Mc) o2.vecs <;> simp [Except.map, Except.bind, h]
    | none =>
      cases third with
      | some o3 =>
        simp only [coneSrc] at hsrc ⊢
        injection hsrc with hsrc
        subst hsrc
        rw [hc]
        cases h : assignRows nred num (usedCols nred Mc) o3.vecs <;> simp [Except.map, Except.bind, h]
      | none => simp [coneSrc] at hsrc

theorem vstackZeros_col (pos num : Nat) (e e' : Block K) (h : vstackZeros pos num e = .ok e') (c : Nat) (x : List K)
    (hx : e'.cols[c]? = some x) : ∃ y, e.cols[c]? = some y ∧ x = List.replicate pos 0 ++ y := by
  unfold vstackZeros at h
  split at h
  · injection h with h
    subst h
    simp only [List.getElem?_map] at hx
    cases hy : e.cols[c]? with
    | none => simp [hy] at hx
    | some y => exact ⟨y, rfl, by simpa [hy] using hx.symm⟩
  · cases h

end Compmech.EigPost
