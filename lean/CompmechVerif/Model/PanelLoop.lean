/-
Hand-written model of the LOOP NEST shared by every analytic panel kernel
(compmech/panel/models/*_bardell*.pyx : fk0, fk0y1y2, fkG0, fkG0y1y2, fkM, fkMy1y2, fkAx, fkAy, fcA):

    for i in range(m):            # (conical panels: an outer `for section in range(s)` around all of this)
      for k in range(m):
        for j in range(n):
          for l in range(n):
            row = row0 + num*(j*m + i)
            col = col0 + num*(l*m + k)
            if row > col: continue
            c += 1; k0r[c] = row+ro; k0c[c] = col+co; k0v[c] += <entry ro co>      (for each written (ro, co))

followed by `coo_matrix((k0v, (k0r, k0c)))` and, in the Python layer, `finalize_symmetric_matrix`
(= `make_symmetric`, Model/Assembly.lean).  The entry expressions are a PARAMETER (`e ro co i k j l`); the translator
checks (LoopSchema) that the source has exactly this nest.
-/
import CompmechVerif.Model.Assembly

namespace Compmech.PanelLoop
open Compmech.Asm

variable {K : Type} [Field K]

/-- position of degree of freedom `(field offset ro, x-index i, y-index j)` -/
def dof (num m ro i j : Nat) : Nat := num * (j * m + i) + ro

/-- body of the innermost loop: nothing when `row > col`, else one triplet per written `(ro, co)` -/
def block (num m row0 col0 : Nat) (e : Fin num → Fin num → Nat → Nat → Nat → Nat → K) (i k j l : Nat) : Coo K :=
  if row0 + num * (j * m + i) > col0 + num * (l * m + k) then []
  else (List.finRange num).flatMap fun ro => (List.finRange num).map fun co =>
    (row0 + num * (j * m + i) + ro.val, col0 + num * (l * m + k) + co.val, e ro co i k j l)

/-- the COO triplets one kernel call produces -/
def loopNest (num m n row0 col0 : Nat) (e : Fin num → Fin num → Nat → Nat → Nat → Nat → K) : Coo K :=
  (List.range m).flatMap fun i => (List.range m).flatMap fun k =>
  (List.range n).flatMap fun j => (List.range n).flatMap fun l => block num m row0 col0 e i k j l

/-- the sub-interval kernels (`fk0y1y2`, `fkG0y1y2`, `fkMy1y2`) of the flat and cylindrical models nest the same four
loops in the order `j, l, i, k` -/
def loopNestYX (num m n row0 col0 : Nat) (e : Fin num → Fin num → Nat → Nat → Nat → Nat → K) : Coo K :=
  (List.range n).flatMap fun j => (List.range n).flatMap fun l =>
  (List.range m).flatMap fun i => (List.range m).flatMap fun k => block num m row0 col0 e i k j l

/-- conical panels: the same nest once per constant-radius section, accumulated in one COO list -/
def sectionedNest (s num m n row0 col0 : Nat) (e : Nat → Fin num → Fin num → Nat → Nat → Nat → Nat → K) : Coo K :=
  (List.range s).flatMap fun sec => loopNest num m n row0 col0 (e sec)

end Compmech.PanelLoop
