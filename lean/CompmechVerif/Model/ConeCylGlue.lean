/-
Hand-written executable model of the Python GLUE of `compmech/conecyl/conecyl.py` (class `ConeCyl`) that
property C18 (and the glue-level parts of C16/C17) talks about:

* `_rebuild`               : derivation of `(r1, r2, H, L)` from whatever subset was given (Python truthiness
                             of `H, L, r1, r2` included), of `Nxxtop` from `Fc`/`MLA`/`xiLA`, and of the list of
                             prescribed amplitudes `excluded_dofs / excluded_dofs_ck`;
* `exclude_dofs_matrix`    : partition of a COO matrix (index shifting exactly as the code does it);
* `calc_full_c`            : re-insertion of the prescribed amplitudes (both branches);
* `calc_fext`              : assembly of the external force vector from its parts;
* `static` / `Analysis.static(NLgeom=False)` : what is handed to `compmech.sparse.solve`.

Generic in a field `K`: executed at `K = ℚ` by the driver (`Drv/C18.lean`, correspondence with the running
Python), reasoned about over any field and over `ℝ` in `Props/C18.lean`.

What is a PARAMETER (never computed here): `sin α`, `cos α`, the float `pi`, the shape-function rows `g`
that the compiled `fg` of the model's `commons` module writes for a point `(x, θ)`, the matrix `k0` returned by
the compiled linear kernels, and the linear solver.

Vectors are `List K` (numpy 1-D arrays), read with `getD · 0`; sparse matrices are COO lists
`(row, col, value)` whose meaning is `Coo.toFun` (duplicates add, as scipy does).
-/
import Mathlib.Algebra.Field.Defs

namespace Compmech.ConeCyl

/-! ## COO matrices and vectors -/

/-- COO matrix `(row, col, value)`; duplicates are allowed and add up -/
abbrev Coo (K : Type) := List (Nat × Nat × K)

section basic
variable {K : Type}

/-- entry `(i, j)` of the matrix a COO list denotes (what `toarray()` / `csr_matrix(·)` hold) -/
def Coo.toFun [Add K] [Zero K] (l : Coo K) (i j : Nat) : K :=
  (l.map fun e => if e.1 = i ∧ e.2.1 = j then e.2.2 else 0).sum

/-- `np.array([f(0), …, f(n-1)])` -/
def vecOf (n : Nat) (f : Nat → K) : List K := (List.range n).map f

/-- `np.zeros(n)` -/
def zeros [Zero K] (n : Nat) : List K := List.replicate n 0

/-- `a + b` for 1-D arrays of the same length (numpy raises otherwise; not modelled) -/
def vadd [Add K] [Zero K] (a b : List K) : List K := vecOf a.length fun i => a.getD i 0 + b.getD i 0

/-- `s * a` -/
def vsmul [Mul K] (s : K) (a : List K) : List K := a.map fun x => s * x

/-- `v[i] += x` (in range; numpy raises otherwise) -/
def addAt [Add K] (l : List K) (i : Nat) (v : K) : List K := l.modify i (· + v)

/-- `np.sort(E)` -/
def sortAsc (E : List Nat) : List Nat := E.mergeSort fun a b => decide (a ≤ b)

/-- `np.sort(E)[::-1]` -/
def sortDesc (E : List Nat) : List Nat := (sortAsc E).reverse

/-- `np.delete(v, E)` for a 1-D array and distinct in-range indices: positions removed from the largest down -/
def npDelete (E : List Nat) (v : List K) : List K := (sortDesc E).foldl (fun acc d => acc.eraseIdx d) v

end basic

/-! ## vocabulary of the statements about index book-keeping (not executed by the glue) -/

/-- position after a slot has been opened at `d`: indices below `d` stay, the others move up by one -/
def skip (d p : Nat) : Nat := if p < d then p else p + 1

/-- position in the FULL vector of the reduced index `p` when the strictly ascending positions `E` are prescribed -/
def up (E : List Nat) (p : Nat) : Nat := E.foldl (fun q d => skip d q) p

/-- `Σ_{j<n} f j` -/
def sumTo {K : Type} [Add K] [Zero K] (n : Nat) (f : Nat → K) : K := ((List.range n).map f).sum

/-! ## `_rebuild`: geometry -/

section geometry
variable {K : Type} [Field K] [DecidableEq K]

/-- Python truthiness of an attribute that is `None` or a float: `None` and `0.0` are false -/
def truthy : Option K → Bool
  | none => false
  | some x => decide (x ≠ 0)

/-- the attributes `r1, r2, H, L` as the user left them (`None` = `none`) -/
structure GeomIn (K : Type) where
  r1 : Option K
  r2 : Option K
  H : Option K
  L : Option K
deriving Repr

/-- the four attributes after `_rebuild` -/
structure Geom (K : Type) where
  r1 : K
  r2 : K
  H : K
  L : K
deriving Repr, DecidableEq

inductive GeomErr where
  /-- `ValueError('Radius "r1" or "r2" must be specified')` -/
  | noRadius
  /-- arithmetic on `None` (`TypeError`): the given subset does not determine the geometry -/
  | typeError
  /-- `(r1 - r2)/tan(0)`: numpy returns `inf`/`nan` with a warning and the geometry becomes non-finite -/
  | nonFinite
deriving Repr, DecidableEq

/-- `if not self.H and not self.L: self.H = (self.r1-self.r2)/tan(self.alpharad)`; `tan α` is `sina/cosa` -/
def geomH1 (g : GeomIn K) (sina cosa : K) : Except GeomErr (Option K) :=
  if !truthy g.H && !truthy g.L then
    match g.r1, g.r2 with
    | some a, some b => if sina / cosa = 0 then .error .nonFinite else .ok (some ((a - b) / (sina / cosa)))
    | _, _ => .error .typeError
  else .ok g.H

/-- `if self.H and not self.L: self.L = self.H/self.cosa` -/
def geomL2 (H1 gL : Option K) (cosa : K) : Option K :=
  if truthy H1 && !truthy gL then (match H1 with | some h => some (h / cosa) | none => gL) else gL

/-- `if self.L and not self.H: self.H = self.L*self.cosa` -/
def geomH3 (L2 H1 : Option K) (cosa : K) : Option K :=
  if truthy L2 && !truthy H1 then (match L2 with | some l => some (l * cosa) | none => H1) else H1

/-- `if not self.r2: (if not self.r1: raise ValueError) else: self.r2 = self.r1 - self.L*self.sina`
`else: self.r1 = self.r2 + self.L*self.sina` -/
def geomRadii (r1 r2 L2 H3 : Option K) (sina : K) : Except GeomErr (Geom K) :=
  if !truthy r2 then
    if !truthy r1 then .error .noRadius
    else
      match r1, L2, H3 with
      | some a, some l, some h => .ok ⟨a, a - l * sina, h, l⟩
      | _, _, _ => .error .typeError
  else
    match r2, L2, H3 with
    | some b, some l, some h => .ok ⟨b + l * sina, b, h, l⟩
    | _, _, _ => .error .typeError

/-- lines 313-326 of `conecyl.py`, statement by statement -/
def rebuildGeom (g : GeomIn K) (sina cosa : K) : Except GeomErr (Geom K) :=
  match geomH1 g sina cosa with
  | .error e => .error e
  | .ok H1 =>
    let L2 := geomL2 H1 g.L cosa
    geomRadii g.r1 g.r2 L2 (geomH3 L2 H1 cosa) sina

/-- `self.is_cylinder` -/
def isCylinder (alpharad : K) : Bool := decide (alpharad = 0)

end geometry

/-! ## `_rebuild`: loads and prescribed amplitudes -/

section loads
variable {K : Type} [Field K] [DecidableEq K]

/-- the attribute `Nxxtop` before `_rebuild`: `None`, a Python scalar, or a 1-D array -/
inductive NxxIn (K : Type) where
  | none
  | scalar (x : K)
  | array (l : List K)
deriving Repr

inductive LoadErr where
  /-- `assert self.Nxxtop.shape[0] == (2*self.n2+1)` -/
  | badNxxtop
  /-- `self.Nxxtop[2] = …` with `n2 = 0` -/
  | indexError
deriving Repr, DecidableEq

def setIdx (l : List K) (i : Nat) (v : K) : List K := l.modify i fun _ => v

/-- lines 404-432: the array `Nxxtop` after the first `_rebuild` (`pi` is the float constant) -/
def rebuildNxxtop (n2 : Nat) (nxx : NxxIn K) (Fc MLA xiLA : Option K) (pi r2 cosa : K) :
    Except LoadErr (List K) :=
  let base : Except LoadErr (List K) :=
    match nxx with
    | .none => .ok (zeros (2 * n2 + 1))
    | .scalar x => .ok (setIdx (zeros (2 * n2 + 1)) 0 x)
    | .array l => if l.length = 2 * n2 + 1 then .ok l else .error .badNxxtop
  match base with
  | .error e => .error e
  | .ok a =>
    let a1 := match Fc with
      | some fc => setIdx a 0 (fc / (2 * pi * r2 * cosa))
      | none => a
    let mla : Option K := match Fc, MLA, xiLA with
      | some fc, none, some xi => some (xi * fc)
      | _, m, _ => m
    match mla with
    | some m => if 2 < a1.length then .ok (setIdx a1 2 (m / (pi * r2 ^ 2 * cosa))) else .error .indexError
    | none => .ok a1

/-- `Fc = self.Nxxtop[0]*(2*pi*r2*cosa)` of `_calc_linear_matrices` -/
def fcFromNxxtop (nxx0 pi r2 cosa : K) : K := nxx0 * (2 * pi * r2 * cosa)

/-- lines 345-357: `(excluded_dofs, excluded_dofs_ck)`; `pdLA = False` raises `NotImplementedError`.
`thetaT = deg2rad(thetaTdeg)`, `LA = r2*tan(betarad)` are computed by the caller. -/
def excludedDofs (pdC pdT pdLA : Bool) (uTM thetaT LA : K) : Option (List Nat × List K) :=
  if pdLA then
    some ((if pdC then [0] else []) ++ (if pdT then [1] else []) ++ [2],
          (if pdC then [uTM] else []) ++ (if pdT then [thetaT] else []) ++ [LA])
  else none

/-- `get_size` -/
def getSize (num0 num1 num2 m1 m2 n2 : Nat) : Nat := num0 + num1 * m1 + num2 * m2 * n2

end loads

/-! ## `exclude_dofs_matrix` -/

section partition
variable {K : Type}

/-- one pass of the row loop: `ind = where(row != r); row[row > r] -= 1; take(ind)` -/
def dropRow (r : Nat) (l : Coo K) : Coo K :=
  (l.filter fun e => decide (e.1 ≠ r)).map fun e => (if e.1 > r then e.1 - 1 else e.1, e.2.1, e.2.2)

/-- one pass of the column loop -/
def dropCol (c : Nat) (l : Coo K) : Coo K :=
  (l.filter fun e => decide (e.2.1 ≠ c)).map fun e => (e.1, if e.2.1 > c then e.2.1 - 1 else e.2.1, e.2.2)

def dropRows (ds : List Nat) (l : Coo K) : Coo K := ds.foldl (fun acc r => dropRow r acc) l
def dropCols (ds : List Nat) (l : Coo K) : Coo K := ds.foldl (fun acc c => dropCol c acc) l

/-- the four blocks with their shapes (`kuu` is sparse in the code, the others dense arrays) -/
structure Blocks (K : Type) where
  kuu : Coo K
  kkk : Coo K
  kku : Coo K
  kuk : Coo K
  shapeUU : Nat × Nat
  shapeKK : Nat × Nat
  shapeKU : Nat × Nat
  shapeUK : Nat × Nat
deriving Repr

/-- `kkk[np.ix_(ex, ex)]` with `ex = np.sort(E)` applied to the dense leading `num0 × num0` block: the entries whose
row and column are both prescribed, re-indexed by their rank in `ex` (numpy raises `IndexError` for a prescribed index
`≥ num0`; `_rebuild` only produces indices `< 3 = num0`, and entries outside the leading block are filtered out). -/
def takeBlock (num0 : Nat) (ex : List Nat) (k : Coo K) : Coo K :=
  (k.filter fun e => decide (e.1 < num0) && decide (e.2.1 < num0) && decide (e.1 ∈ ex) && decide (e.2.1 ∈ ex)).map
    fun e => (ex.idxOf e.1, ex.idxOf e.2.1, e.2.2)

/-- `exclude_dofs_matrix(k, True, True, True)` for an `n × n` matrix; `num0` is the ATTRIBUTE `self.num0`
(always 3), `E = self.excluded_dofs`.  `np.delete` on the dense blocks is modelled by the same
largest-first index shifting as the sparse loops; `kkk` is the block `[np.ix_(sort E, sort E)]` of the leading block. -/
def excludeDofsMatrix (num0 : Nat) (E : List Nat) (n : Nat) (k : Coo K) : Blocks K :=
  let ds := sortDesc E
  let ne := E.length
  { kuu := dropCols ds (dropRows ds k)
    kkk := takeBlock num0 (sortAsc E) k
    kku := dropCols ds (k.filter fun e => decide (e.1 < num0))
    kuk := dropRows ds (k.filter fun e => decide (e.2.1 < num0))
    shapeUU := (n - ne, n - ne)
    shapeKK := (ne, ne)
    shapeKU := (num0, n - ne)
    shapeUK := (n - ne, num0) }

/-- dense column `j` of a block with `rows` rows: `kuk[:, j].ravel()` -/
def Coo.column [Add K] [Zero K] (l : Coo K) (rows j : Nat) : List K := vecOf rows fun i => l.toFun i j

end partition

/-! ## `calc_full_c` -/

section fullc
variable {K : Type} [Field K]

/-- `calc_full_c(cu, inc)`: a vector that already has full `size` gets its prescribed entries multiplied by `inc`;
a reduced vector gets `inc*ck` inserted at the prescribed positions, in ascending order of the position. -/
def calcFullC (size : Nat) (E : List Nat) (ck : List K) (inc : K) (cu : List K) : List K :=
  if cu.length = size then
    E.foldl (fun c dof => c.modify dof (· * inc)) cu
  else
    ((E.zip ck).mergeSort fun a b => decide (a.1 ≤ b.1)).foldl (fun c p => c.insertIdx p.1 (inc * p.2)) cu

end fullc

/-! ## `calc_fext` -/

section fext
variable {K : Type} [Field K] [DecidableEq K]

/-- a point force with the array `g` that `fg(g, …, x, theta, …)` produced for its position
(`dofs` rows, `size` columns) -/
structure PointForce (K : Type) where
  fx : K
  ft : K
  fz : K
  g : List (List K)
deriving Repr

/-- everything `calc_fext` reads -/
structure FextIn (K : Type) where
  size : Nat
  num0 : Nat          -- model_dict['num0']
  num1 : Nat
  num2 : Nat
  m1 : Nat
  m2 : Nat
  n2 : Nat
  i0 : Nat
  j0 : Nat
  dofs : Nat
  E : List Nat        -- self.excluded_dofs
  forces : List (PointForce K)
  forcesInc : List (PointForce K)
  inc : K
  uTM : K             -- self.uTM
  thetaT : K          -- self.thetaTrad
  LA : K              -- self.LA = r2*tan(betarad), the prescribed value of amplitude 2
  Nxxtop : List K     -- self.Nxxtop (array)
  pi : K
  r2 : K
  cosa : K
  sina : K
  L : K
  bc24 : Bool         -- 'bc2' in model or 'bc4' in model
  clpt : Bool         -- 'clpt' in model
  fsdt : Bool         -- 'fsdt' in model
  pdT : Bool
  P : K
  Pinc : K
  T : K
  Tinc : K
  g00 : List (List K) -- what fg writes for (x, theta) = (0, 0)
  k0uk : Coo K        -- self.k0uk as stored by _calc_linear_matrices
deriving Repr

inductive FextErr where
  /-- `NotImplementedError('Pressure not implemented for static analysis for FSDT')` -/
  | pressureFsdt
deriving Repr, DecidableEq

/-- `fpt.dot(gu).ravel()` with `gu = np.delete(g, E, axis=1)` and `fpt = [[fx, ftheta, fz(, 0, 0)]]` -/
def pointTerm (E : List Nat) (dofs : Nat) (scale : K) (f : PointForce K) : List K :=
  let fpt : List K := if dofs = 3 then [scale * f.fx, scale * f.ft, scale * f.fz]
                      else [scale * f.fx, scale * f.ft, scale * f.fz, scale * 0, scale * 0]
  let gu := f.g.map (npDelete E)
  let nu := (gu.headD []).length
  vecOf nu fun col => (List.zipWith (fun a (row : List K) => a * row.getD col 0) fpt gu).sum

/-- the closed form the code adds for the pressure on the axisymmetric `w` amplitude of half-wave number `i1` -/
def pressureCoef (L r2 sina : K) (i1 : Nat) : K :=
  L * 2 / (i1 : K) * (r2 - (-1) ^ i1 * (r2 + L * sina))

/-- the full-size scratch vector `fext_tmp` (axial term, load-asymmetry term, pressure) -/
def fextTmp (a : FextIn K) (Ptot : K) : List K :=
  let nxx := fun i => a.inc * a.Nxxtop.getD i 0
  let t0 : List K := zeros a.size
  -- axial load
  let t1 : List K :=
    if 0 ∉ a.E then
      let b := addAt t0 0 (nxx 0 * (2 * a.pi * a.r2) / a.cosa)
      if a.bc24 then
        (List.range a.n2).foldl (fun acc dj =>
          (List.range a.m2).foldl (fun acc di =>
            let row := a.num0 + a.num1 * a.m1 + di * a.num2 + dj * a.num2 * a.m2
            let rowNxx := 1 + 2 * dj
            addAt (addAt acc (row + 0) (nxx (rowNxx + 0) * a.pi * a.r2)) (row + 1) (nxx (rowNxx + 1) * a.pi * a.r2))
            acc) b
      else b
    else t0
  let t2 : List K := if 2 ∉ a.E then addAt t1 2 (nxx 2 * (2 * a.pi * a.r2) / a.cosa) else t1
  -- pressure
  if Ptot ≠ 0 ∧ a.clpt then
    (List.range a.m1).foldl (fun acc di =>
      let i1 := a.i0 + di
      if i1 = 0 then acc
      else addAt acc (a.num0 + di * a.num1 + 2) (Ptot * pressureCoef a.L a.r2 a.sina i1)) t2
  else t2

/-- `calc_fext(inc)` (with `kuk=None`) up to and including the torsion block -/
def calcFextCore (a : FextIn K) : Except FextErr (List K) :=
  let nu := a.size - a.E.length
  let f0 : List K := npDelete a.E (zeros a.size)
  -- constant and incremented point forces
  let f1 := a.forces.foldl (fun f p => vadd f (pointTerm a.E a.dofs 1 p)) f0
  let f2 := a.forcesInc.foldl (fun f p => vadd f (pointTerm a.E a.dofs a.inc p)) f1
  -- prescribed end shortening
  let f3 := if 0 ∉ a.E then f2 else vadd f2 (vsmul (-(a.inc * a.uTM)) (a.k0uk.column nu 0))
  let Ptot := a.P + a.inc * a.Pinc
  if Ptot ≠ 0 ∧ !a.clpt ∧ a.fsdt then .error .pressureFsdt
  else
    let f4 := vadd f3 (npDelete a.E (fextTmp a Ptot))
    -- torsion
    let f5 :=
      if a.pdT then vadd f4 (vsmul (-(a.inc * a.thetaT)) (a.k0uk.column nu 1))
      else
        let T := a.T + a.inc * a.Tinc
        if T ≠ 0 then vadd f4 (pointTerm a.E a.dofs 1 ⟨0, T / a.r2, 0, a.g00⟩) else f4
    .ok f5

/-- `calc_fext(inc)` (with `kuk=None`): the last block moves the always-prescribed load-asymmetry amplitude
(`c₂ = inc·LA`) to the right-hand side, `fext += -inc*LA*k0uk[:, 2]` -/
def calcFext (a : FextIn K) : Except FextErr (List K) :=
  match calcFextCore a with
  | .error e => .error e
  | .ok f =>
    if 2 ∈ a.E ∧ a.LA ≠ 0 then
      .ok (vadd f (vsmul (-(a.inc * a.LA)) (a.k0uk.column (a.size - a.E.length) 2)))
    else .ok f

end fext

/-! ## linear `static` -/

section static
variable {K : Type} [Field K] [DecidableEq K]

inductive StaticErr where
  /-- `static` raises `NotImplementedError` whenever `pdC` is set (also for the linear analysis) -/
  | prescribedShortening
  /-- the model's `'linear static'` flag in `modelDB` is false/None: bare `raise` -/
  | modelNotStatic
  | fext (e : FextErr)
deriving Repr, DecidableEq

/-- `ConeCyl.static(NLgeom=False)` → `Analysis.static`: `fext = calc_fext()` (`inc = 1`), `k0 = calc_k0()` (= `k0uu`),
`c = solve(k0, fext)`.  Returns what is passed to `solve` and the reported `(increments, cs)`. -/
def staticLinear (solve : Coo K → List K → List K) (pdC linearStatic : Bool) (k0uu : Coo K) (a : FextIn K) :
    Except StaticErr ((Coo K × List K) × (List K × List (List K))) :=
  if pdC then .error .prescribedShortening
  else if !linearStatic then .error .modelNotStatic
  else
    match calcFext { a with inc := 1 } with
    | .error e => .error (.fext e)
    | .ok f => .ok ((k0uu, f), ([1], [solve k0uu f]))

end static

end Compmech.ConeCyl
