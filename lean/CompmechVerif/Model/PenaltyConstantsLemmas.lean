/-
Lemmas about the model of `calc_kt_kr` (Model/PenaltyConstants.lean).
-/
import CompmechVerif.Model.PenaltyConstants
import Mathlib.Tactic.Ring
import Mathlib.Tactic.FieldSimp
import Mathlib.Tactic.Positivity
import Mathlib.Algebra.Order.Field.Basic
import Mathlib.Tactic.Linarith

namespace Compmech.Penalty
variable {K : Type} [Field K]

theorem series_comm (x y h1 h2 : K) : series x y h1 h2 = series y x h2 h1 := by
  unfold series; rw [add_comm x y, add_comm h1 h2, mul_right_comm 4 x y]

theorem series_scale (e x y h1 h2 : K) (he : e ≠ 0) : series (e * x) (e * y) h1 h2 = e * series x y h1 h2 := by
  unfold series
  by_cases hxy : (x + y) * (h1 + h2) = 0
  · have : (e * x + e * y) * (h1 + h2) = 0 := by rw [← mul_add, mul_assoc, hxy, mul_zero]
    rw [hxy, this, div_zero, div_zero, mul_zero]
  · have h2' : (e * x + e * y) * (h1 + h2) ≠ 0 := by
      rw [← mul_add, mul_assoc]; exact mul_ne_zero he hxy
    field_simp

section ordered
variable {F : Type} [Field F] [LinearOrder F] [IsStrictOrderedRing F]

theorem series_pos (x y h1 h2 : F) (hx : 0 < x) (hy : 0 < y) (h1p : 0 < h1) (h2p : 0 < h2) : 0 < series x y h1 h2 := by
  unfold series; positivity

/-- the series stiffness is below twice each of the two stiffnesses divided by the mean thickness: `4xy/((x+y)H) ≤ 4x/H` -/
theorem series_le (x y h1 h2 : F) (hx : 0 < x) (hy : 0 < y) (h1p : 0 < h1) (h2p : 0 < h2) :
    series x y h1 h2 ≤ 4 * x / (h1 + h2) := by
  unfold series
  have hH : 0 < h1 + h2 := by positivity
  have hs : 0 < x + y := by positivity
  rw [div_le_div_iff₀ (by positivity) hH]
  have h0 : 0 ≤ 4 * x * x * (h1 + h2) := by positivity
  have e : 4 * x * ((x + y) * (h1 + h2)) = 4 * x * y * (h1 + h2) + 4 * x * x * (h1 + h2) := by ring
  rw [e]
  linarith

end ordered
end Compmech.Penalty
