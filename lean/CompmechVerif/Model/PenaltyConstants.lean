/-
Hand-written model of `compmech/panel/connections/penalty_constants.py : calc_kt_kr` (the arithmetic part; the lazy laminate
construction `build_panel_lam` belongs to the C20 life-cycle model).  Tied to the running Python by the C12 driver correspondence.

`L1, L2` summarise the two laminates: `A11, A22, D11, D22` and the thickness `t`; `minab` is `min(p1.a, p1.b)` (used by `bot-top` only).
No Mathlib beyond the field hierarchy: the same definition runs at ℚ in the driver and is reasoned about over any field.
-/
import Mathlib.Algebra.Field.Defs

namespace Compmech.Penalty

structure Lam (K : Type) where
  A11 : K
  A22 : K
  D11 : K
  D22 : K
  t : K

inductive CType where
  | xcte | ycte | botTop | xcteYcte | ycteXcte
deriving DecidableEq, Repr

/-- `connection_type.lower()` dispatch: anything else falls off the end of the function (`None`) -/
def parseCType (s : String) : Option CType :=
  match s.toLower with
  | "xcte" => some .xcte
  | "ycte" => some .ycte
  | "bot-top" => some .botTop
  | "xcte-ycte" => some .xcteYcte
  | "ycte-xcte" => some .ycteXcte
  | _ => none

variable {K : Type} [Field K]

/-- `4 x y / ((x + y) (h1 + h2))` -/
def series (x y h1 h2 : K) : K := 4 * x * y / ((x + y) * (h1 + h2))

/-- `(kt, kr)`; `kr = none` for the face-to-face connection -/
def ktKr (c : CType) (L1 L2 : Lam K) (minab : K) : K × Option K :=
  match c with
  | .xcte => (series L1.A11 L2.A11 L1.t L2.t, some (series L1.D11 L2.D11 L1.t L2.t))
  | .ycte => (series L1.A22 L2.A22 L1.t L2.t, some (series L1.D22 L2.D22 L1.t L2.t))
  | .botTop => (series L1.A11 L2.A11 L1.t L2.t / minab, none)
  | .xcteYcte => (series L1.A11 L2.A22 L1.t L2.t, some (series L1.D11 L2.D22 L1.t L2.t))
  | .ycteXcte => (series L1.A22 L2.A11 L1.t L2.t, some (series L1.D22 L2.D11 L1.t L2.t))

/-- all laminate stiffnesses multiplied by `e` (moduli scaled, thicknesses kept) -/
def Lam.scale (e : K) (L : Lam K) : Lam K := { L with A11 := e * L.A11, A22 := e * L.A22, D11 := e * L.D11, D22 := e * L.D22 }

end Compmech.Penalty
