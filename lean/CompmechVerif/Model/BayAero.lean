/-
Hand-written executable model of the PYTHON GLUE of the two remaining observation points of the aerodynamic stiffness matrix:

  * `StiffPanelBay.calc_kA(silent)` (`compmech/stiffpanelbay/stiffpanelbay.py`, as repaired by /repo 8334530), statement by
    statement:

        self._rebuild()                       # a / b missing (ValueError); every panel's `Panel._rebuild` (its exceptions); the bay
                                              # adopts the model of the first panel when it has none, else ASSERTS equality; then the
                                              # stiffeners' `_rebuild` (a parameter: `AeroBay.stiffRebuildErr`)
        r = self.r if self.r is not None else 0.
        if self.beta is None:                 # the bay's OWN copy of the coefficient formulas: its results are local variables that
            if self.Mach < 1: raise …         # are never used, but its EXCEPTIONS are the bay's: `Mach is None` is a TypeError here
            elif self.Mach == 1: self.Mach = 1.0001       # (the comparison `None < 1`), not the skin panel's ValueError; a missing
            … beta, gamma, aeromu …           # `rho_air / V / speed_sound` is a TypeError, `speed_sound == 0.` a ZeroDivisionError
        else: …
        p = self.panels[0]                    # IndexError for a bay without panels
        p.flow = self.flow; p.beta = …; p.gamma; p.aeromu; p.Mach; p.rho_air; p.speed_sound
        p.size = self.size                    # AttributeError when `get_size()` was never called on this bay (the attribute `size`
        p.V = self.V; p.r = self.r            #   exists only then); the seven attributes before it are already written
        p.calc_kA(size=self.get_size(), row0=0, col0=0, silent=True, finalize=True)      # `Model/PanelGlue.calcKA`, NOT repeated here
        self.kA = p.kA; return kA

    What the aerodynamic kernels read from the object they are handed (`fkAx / fkAy` of `panel/models/*.pyx`): `panel.a, b, m, n` and the
    eight `w` flags of `panels[0]` ITSELF — not `y1, y2` (the kernels integrate over the whole width), not `r` (the curvature enters
    through the argument `gamma` only), and not the bay's `m, n` (which enter `get_size()` only).  So the skin's own `m, n` DO matter
    (they place the entries), its `y1, y2` do not.

  * the aerodynamic part of `compmech/panel/assembly/tstiff2d_1stiff_flutter.py`:

        kA = 0
        for p in skin: kA += p.calc_kA(size=size, row0=p.row_start, col0=p.col_start, silent=True, finalize=False)
        kA = csr_matrix(make_skew_symmetric(kA))

Kernels are parameters (as in `Model/PanelGlue.lean`, whose `calcKA`, `Result`, `Comb`, `KCall` are re-used: nothing of it is
duplicated).  `(Mach**2 - 1)**0.5` is the parameter `q`, the same number for the bay's own formulas and for the skin panel's (the bay
patches `Mach == 1` BEFORE it copies `Mach`).  Field hierarchy only; total.  Tied to the running Python by the recorded-call
correspondence `tools/props/C19.py : bay_glue_correspondence` through `Drv/C19.lean` (op `bay`, op `flutter`).
-/
import CompmechVerif.Model.PanelGlue

namespace Compmech.BayAero
open Compmech.PanelGlue Compmech.Asm

/-- what a stiffener's `_rebuild` raised (the stiffeners are not modelled here: a parameter of the bay state) -/
inductive StiffExc where
  /-- one of the `assert panel1.… == panel2.…` -/
  | assertion
  /-- `RuntimeError('For a/b > 10. use base.m and flange.m > 15')` of `TStiff2D._rebuild` -/
  | runtime
deriving DecidableEq, Repr

/-- the state of a `StiffPanelBay` object as far as `calc_kA` reads or writes it; `None` is `none` -/
structure AeroBay (K : Type) where
  a : Option K
  b : Option K
  r : Option K
  m : Nat
  n : Nat
  model : ModelAttr
  flow : Flow
  beta : Option K
  gamma : Option K
  aeromu : Option K
  mach : Option K
  rhoAir : Option K
  V : Option K
  speedSound : Option K
  /-- the attribute `size`, which only `get_size()` creates -/
  sizeAttr : Option Nat
  panels : List (Panel K)
  /-- exception of the first failing stiffener `_rebuild`, if any -/
  stiffRebuildErr : Option StiffExc
  /-- `get_size()` of every stiffener part with amplitudes of its own, in the order `StiffPanelBay.get_size` adds them (flange of every
  `BladeStiff2D` that has one; base and flange of every `TStiff2D`) -/
  partSizes : List Nat

inductive BayErr where
  /-- ValueError `The length a must be specified` -/
  | aMissing
  /-- ValueError `The width b must be specified` -/
  | bMissing
  /-- the exception `panels[i]._rebuild()` raised -/
  | panelRebuild (i : Nat) (e : Err)
  /-- AssertionError: `self.model == p.model` fails for `panels[i]` -/
  | modelMismatch (i : Nat)
  /-- the exception of a stiffener's `_rebuild` -/
  | stiffRebuild (x : StiffExc)
  /-- TypeError: `self.Mach < 1` with `Mach is None` -/
  | machNoneCompare
  /-- ValueError `Mach number must be >= 1`, raised by the BAY -/
  | machBelowOne
  /-- TypeError: `rho_air`, `V` or `speed_sound` is `None` in the bay's own formulas -/
  | noneArith
  /-- ZeroDivisionError: `beta/(Mach*ainf)` with `speed_sound == 0.` -/
  | zeroDivision
  /-- IndexError: `self.panels[0]` of a bay without panels -/
  | noPanels
  /-- AttributeError: the bay has no attribute `size` (`p.size = self.size`) -/
  | noSizeAttr
  /-- KeyError: `panelmDB.db[self.model]` in `get_size()` (unreachable after a successful `_rebuild` with a panel) -/
  | noModel
  /-- the exception `Panel.calc_kA` of the skin panel raised -/
  | skin (e : Err)
deriving DecidableEq, Repr

/-- the Python exception class -/
def BayErr.pyType : BayErr → String
  | .aMissing | .bMissing | .machBelowOne => "ValueError"
  | .panelRebuild _ e | .skin e => e.pyType
  | .modelMismatch _ | .stiffRebuild .assertion => "AssertionError"
  | .stiffRebuild .runtime => "RuntimeError"
  | .machNoneCompare | .noneArith => "TypeError"
  | .zeroDivision => "ZeroDivisionError"
  | .noPanels => "IndexError"
  | .noSizeAttr => "AttributeError"
  | .noModel => "KeyError"

/-- one attribute the bay writes on `panels[0]` -/
inductive SkinWrite (K : Type) where
  | flow (f : Flow)
  | beta (v : Option K)
  | gamma (v : Option K)
  | aeromu (v : Option K)
  | mach (v : Option K)
  | rhoAir (v : Option K)
  | speedSound (v : Option K)
  | size (s : Nat)
  | V (v : Option K)
  | r (v : Option K)
deriving DecidableEq, Repr

structure BayOutcome (K : Type) where
  /-- the bay afterwards (`model`, `Mach`, `size`, and its panels: all rebuilt, the first one as `Panel.calc_kA` left it) -/
  post : AeroBay K
  /-- the attribute writes of the bay on `panels[0]`, in order -/
  writes : List (SkinWrite K)
  /-- the coefficients of the bay's own copy of the formulas (local variables the method never uses) -/
  ownCoefs : Option (Piston.Coefs K)
  /-- the exception, or the kernel calls and their combination: the matrix is stored in `panels[0].kA` AND `bay.kA` and returned -/
  res : Except BayErr (Result K)

section bay
variable {K : Type} [Field K] [LinearOrder K]

/-- the loop `for p in self.panels: p._rebuild(); assert / adopt the model`: the panels afterwards, the bay's model afterwards, the
exception that stopped it -/
def rebuildPanels : List (Panel K) → ModelAttr → Nat → List (Panel K) × ModelAttr × Option BayErr
  | [], mdl, _ => ([], mdl, none)
  | p :: ps, mdl, i =>
    match rebuild p with
    | (p1, some e) => (p1 :: ps, mdl, some (.panelRebuild i e))
    | (p1, none) =>
      match mdl with
      | .unset =>
        let t := rebuildPanels ps p1.model (i + 1)
        (p1 :: t.1, t.2.1, t.2.2)
      | _ =>
        if mdl = p1.model then
          let t := rebuildPanels ps mdl (i + 1)
          (p1 :: t.1, t.2.1, t.2.2)
        else (p1 :: ps, mdl, some (.modelMismatch i))

/-- the bay's own copy of the coefficient formulas: the bay afterwards (`Mach == 1` patched — also when a later line of the formulas
raises) and the exception it raises or the coefficients it computes (and then does not use) -/
def ownFormulas (B : AeroBay K) (q : K) : AeroBay K × Except BayErr (Piston.Coefs K) :=
  match B.beta with
  | some b => (B, .ok ⟨b, B.gamma.getD 0, B.aeromu.getD 0⟩)
  | none =>
    match B.mach with
    | none => (B, .error .machNoneCompare)
    | some m0 =>
      if m0 < 1 then (B, .error .machBelowOne)
      else
        let B1 : AeroBay K := if m0 = 1 then { B with mach := some (10001 / 10000) } else B
        match B.rhoAir, B.V, B.speedSound with
        | some rho, some v, some ainf =>
          if ainf = 0 then (B1, .error .zeroDivision)
          else
            match Piston.fromMach (some m0) rho v ainf (B.r.getD 0) q with
            | .ok cf => (B1, .ok cf)
            | .error .machNone => (B1, .error .machNoneCompare)        -- unreachable
            | .error .machBelowOne => (B1, .error .machBelowOne)       -- unreachable
        | _, _, _ => (B1, .error .noneArith)

/-- `StiffPanelBay.get_size()` for the model `k` -/
def baySize (k : ModelKind) (B : AeroBay K) : Nat := k.dofs * B.m * B.n + B.partSizes.sum

/-- the seven attributes copied before `p.size = self.size` -/
def copyFirst (B : AeroBay K) (p : Panel K) : Panel K :=
  { p with flow := B.flow, beta := B.beta, gamma := B.gamma, aeromu := B.aeromu, mach := B.mach,
           rhoAir := B.rhoAir.getD 0, speedSound := B.speedSound.getD 0 }

def writesFirst (B : AeroBay K) : List (SkinWrite K) :=
  [.flow B.flow, .beta B.beta, .gamma B.gamma, .aeromu B.aeromu, .mach B.mach, .rhoAir B.rhoAir, .speedSound B.speedSound]

/-- `p.size = self.size; p.V = self.V; p.r = self.r` -/
def copyRest (B : AeroBay K) (s : Nat) (p : Panel K) : Panel K :=
  { p with sizeAttr := some s, V := B.V.getD 0, r := B.r }

def writesRest (B : AeroBay K) (s : Nat) : List (SkinWrite K) := [.size s, .V B.V, .r B.r]

/-- the arguments of the delegation `p.calc_kA(size=self.get_size(), row0=0, col0=0, silent=True, finalize=True)` -/
def delegationArgs (size : Nat) : Args K := { size := some size, row0 := some 0, col0 := some 0, finalize := true }

/-- the bay after `self._rebuild()` went through its panels: every panel rebuilt, the model adopted -/
def rebuiltBay (B : AeroBay K) : AeroBay K :=
  { B with panels := (rebuildPanels B.panels B.model 0).1, model := (rebuildPanels B.panels B.model 0).2.1 }

/-- from `p = self.panels[0]` on: the ten copies, `get_size()`, the delegation to `Panel.calc_kA` (`PanelGlue.calcKA`) -/
def delegate (B2 : AeroBay K) (own : Piston.Coefs K) (q : K) : BayOutcome K :=
  match B2.panels with
  | [] => ⟨B2, [], some own, .error .noPanels⟩
  | p :: rest =>
    let p1 := copyFirst B2 p
    match B2.sizeAttr with
    | none => ⟨{ B2 with panels := p1 :: rest }, writesFirst B2, some own, .error .noSizeAttr⟩
    | some s =>
      let p2 := copyRest B2 s p1
      let w := writesFirst B2 ++ writesRest B2 s
      match B2.model.kind? with
      | none => ⟨{ B2 with panels := p2 :: rest }, w, some own, .error .noModel⟩
      | some k =>
        let size := baySize k B2
        let B3 : AeroBay K := { B2 with sizeAttr := some size }
        let o := calcKA p2 (delegationArgs size) q
        match o.res with
        | .error e => ⟨{ B3 with panels := o.post :: rest }, w, some own, .error (.skin e)⟩
        | .ok R => ⟨{ B3 with panels := o.post :: rest }, w, some own, .ok R⟩

/-- after the panels' `_rebuild`: the stiffeners' `_rebuild`, the bay's own formulas, the delegation -/
def afterRebuild (B1 : AeroBay K) (q : K) : BayOutcome K :=
  match B1.stiffRebuildErr with
  | some x => ⟨B1, [], none, .error (.stiffRebuild x)⟩
  | none =>
    match ownFormulas B1 q with
    | (B2, .error e) => ⟨B2, [], none, .error e⟩
    | (B2, .ok own) => delegate B2 own q

/-- `StiffPanelBay.calc_kA`; `q` stands for `(Mach**2 - 1)**0.5` of the effective Mach number.
(A `Panel K` holds `rho_air, V, speed_sound` as numbers: a `None` the bay copies is held as `0` — `Panel.calc_kA` reads these three
only on the Mach route, where the bay has already raised `TypeError` if one of them is `None`: `Props/C19.bay_calc_kA_coefficients`.
The values as written, `None` included, are in `writes`.) -/
def bayCalcKA (B : AeroBay K) (q : K) : BayOutcome K :=
  match B.a with
  | none => ⟨B, [], none, .error .aMissing⟩
  | some _ =>
  match B.b with
  | none => ⟨B, [], none, .error .bMissing⟩
  | some _ =>
    match (rebuildPanels B.panels B.model 0).2.2 with
    | some e => ⟨rebuiltBay B, [], none, .error e⟩
    | none => afterRebuild (rebuiltBay B) q

end bay

/-! ## the aerodynamic part of `tstiff2d_1stiff_flutter` -/

inductive FlutterErr where
  /-- AttributeError: `kA.data` of the integer `0` (no skin panel) -/
  | empty
  /-- the exception `Panel.calc_kA` of `skin[i]` raised -/
  | panel (i : Nat) (e : Err)
deriving DecidableEq, Repr

def FlutterErr.pyType : FlutterErr → String
  | .empty => "AttributeError"
  | .panel _ e => e.pyType

/-- one skin panel of the assembly: the object, its `row_start`, its `col_start` -/
structure SkinPanel (K : Type) where
  P : Panel K
  rowStart : Nat
  colStart : Nat

structure FlutterOutcome (K : Type) where
  /-- the skin panels afterwards -/
  post : List (Panel K)
  res : Except FlutterErr (Result K)

section flutter
variable {K : Type} [Field K] [LinearOrder K]

/-- `p.calc_kA(size=size, row0=p.row_start, col0=p.col_start, silent=True, finalize=False)` -/
def skinArgs (size : Nat) (s : SkinPanel K) : Args K :=
  { size := some size, row0 := some s.rowStart, col0 := some s.colStart, finalize := false }

/-- the loop `kA += p.calc_kA(…)`: the panels visited so far (afterwards), the kernel calls so far, the running sum, the index -/
def flutterLoop (size : Nat) (q : K) :
    List (SkinPanel K) → List (Panel K) → List (KCall K) → Option Comb → Nat → FlutterOutcome K
  | [], done, calls, acc, _ =>
    match acc with
    | none => ⟨done, .error .empty⟩
    | some c => ⟨done, .ok { calls := calls, comb := .skew c, store := .kA }⟩
  | s :: rest, done, calls, acc, i =>
    let o := calcKA s.P (skinArgs size s) q
    match o.res with
    | .error e => ⟨done ++ o.post :: rest.map (·.P), .error (.panel i e)⟩
    | .ok R =>
      let c := R.comb.shift calls.length
      flutterLoop size q rest (done ++ [o.post]) (calls ++ R.calls)
        (some (match acc with | none => c | some a => .add a c)) (i + 1)

/-- the aerodynamic matrix of the flutter helper: `make_skew_symmetric` of the sum of the un-finalised matrices of the skin panels -/
def flutterKA (size : Nat) (skin : List (SkinPanel K)) (q : K) : FlutterOutcome K :=
  flutterLoop size q skin [] [] none 0

end flutter

end Compmech.BayAero
